/* tabdrive — runs operation sequences against the REAL string table (back/strtab.c) and function
 * table (back/functab.c) of the tree and prints the full table after every operation.
 * harness/ocaml/hash/hashrun.ml runs the extracted Coq model (coq/Hash/StrTabModel.v,
 * FuncTabModel.v) on the same file and prints the same lines; checks/parts/hashtab.py compares them
 * and applies the property's own oracle.
 *
 * usage: tabdrive <casefile>        one operation per line, names hex-encoded ("-" = ""):
 *   S <size>           strtab_new(size)                        -> S | size count | idx:name:order ...
 *   s <str>            strtab_add_string(tab, str)             -> s <order> | ...
 *   q <str>            strtab_lookup_string(tab, str)          -> q <order> | ...
 *   T                  strtab_to_array (+ array/table deleted) -> T <size> <elem0> <elem1> ...   (~ = NULL)
 *   F <size>           functab_new(size)                       -> F | size count | idx:id:func#:entry:params_count ...
 *   f <id> <e> <pc>    functab_add_func(tab, new func named id, e, NULL, pc)  -> f | ...
 *   g <id>             functab_lookup(tab, id)                 -> g <idx>:<func#>:<entry>:<params_count> or g - | ...
 *   K                  functab_close(tab)                      -> K | ...   (then entries carry strdup'ed ids + addr)
 */
#include <stdio.h>
#include <stdlib.h>
#include <string.h>
#include <stdint.h>
#include "strtab.h"
#include "functab.h"
#include "func.h"

static int hexval(int c)
{
    if (c >= '0' && c <= '9') return c - '0';
    if (c >= 'a' && c <= 'f') return c - 'a' + 10;
    return -1;
}

static char * unhex(const char * h)
{
    size_t n = strlen(h), i;
    char * s;
    if (strcmp(h, "-") == 0) n = 0;
    s = (char *)malloc(n / 2 + 1);
    for (i = 0; i + 1 < n; i += 2) s[i / 2] = (char)(hexval(h[i]) * 16 + hexval(h[i + 1]));
    s[n / 2] = 0;
    return s;
}

static void puthex(const char * s)
{
    if (*s == 0) { putchar('-'); return; }
    for (; *s; s++) printf("%02x", (unsigned char)*s);
}

static void dump_strtab(strtab * t)
{
    unsigned int i;
    printf(" | %u %u |", t->size, t->count);
    for (i = 0; i < t->size; i++)
    {
        if (t->entries[i].string != NULL)
        {
            printf(" %u:", i);
            puthex(t->entries[i].string);
            printf(":%u", t->entries[i].order);
        }
    }
    putchar('\n');
}

static void dump_functab(functab * t)
{
    unsigned int i;
    printf(" | %u %u |", t->size, t->count);
    for (i = 0; i < t->size; i++)
    {
        if (t->entries[i].id != NULL)
        {
            printf(" %u:", i);
            puthex(t->entries[i].id);
            printf(":%d:%d:%u", t->entries[i].func_value->index, t->entries[i].entry_type, t->entries[i].params_count);
        }
    }
    putchar('\n');
}

static func ** funcs = NULL;
static unsigned int nfuncs = 0, capfuncs = 0;

static func * new_func(char * id)
{
    func * f = (func *)calloc(1, sizeof(func));
    f->decl = (func_decl *)calloc(1, sizeof(func_decl));
    f->decl->id = id;
    f->index = (int)nfuncs;
    f->addr = 1000 + nfuncs;
    if (nfuncs == capfuncs)
    {
        capfuncs = capfuncs ? capfuncs * 2 : 256;
        funcs = (func **)realloc(funcs, capfuncs * sizeof(func *));
    }
    funcs[nfuncs++] = f;
    return f;
}

static void drop_funcs(void)
{
    while (nfuncs > 0)
    {
        func * f = funcs[--nfuncs];
        free(f->decl->id);
        free(f->decl);
        free(f);
    }
}

int main(int argc, char ** argv)
{
    FILE * f;
    char * line = NULL;
    size_t cap = 0;
    strtab * st = NULL;
    functab * ft = NULL;

    if (argc < 2 || (f = fopen(argv[1], "r")) == NULL) { fprintf(stderr, "usage: tabdrive file\n"); return 2; }
    while (getline(&line, &cap, f) > 0)
    {
        char op = line[0];
        char * a1 = strtok(line + 1, " \n");
        char * a2 = strtok(NULL, " \n");
        char * a3 = strtok(NULL, " \n");

        if (op == 'S')
        {
            if (st) strtab_delete(st);
            st = strtab_new((unsigned int)strtoul(a1, NULL, 10));
            printf("S");
            dump_strtab(st);
        }
        else if (op == 's' && st)
        {
            char * s = unhex(a1);
            unsigned int order = strtab_add_string(st, s);
            free(s);
            printf("s %u", order);
            dump_strtab(st);
        }
        else if (op == 'q' && st)
        {
            char * s = unhex(a1);
            unsigned int order = strtab_lookup_string(st, s);
            free(s);
            printf("q %u", order);
            dump_strtab(st);
        }
        else if (op == 'T' && st)
        {
            char ** arr = NULL;
            unsigned int n = 0, i;
            strtab_to_array(st, &arr, &n);
            printf("T %u", n);
            for (i = 0; i < n; i++)
            {
                putchar(' ');
                if (arr[i] == NULL) putchar('~'); else puthex(arr[i]);
            }
            putchar('\n');
            strtab_array_delete(arr, n);
            strtab_delete(st);
            st = NULL;
        }
        else if (op == 'F')
        {
            if (ft) { functab_delete(ft); drop_funcs(); }
            ft = functab_new((unsigned int)strtoul(a1, NULL, 10));
            printf("F");
            dump_functab(ft);
        }
        else if (op == 'f' && ft)
        {
            func * fn = new_func(unhex(a1));
            functab_add_func(ft, fn, atoi(a2), NULL, (unsigned int)strtoul(a3, NULL, 10));
            printf("f");
            dump_functab(ft);
        }
        else if (op == 'g' && ft)
        {
            char * id = unhex(a1);
            functab_entry * e = functab_lookup(ft, id);
            free(id);
            if (e != NULL) printf("g %ld:%d:%d:%u", (long)(e - ft->entries), e->func_value->index, e->entry_type, e->params_count);
            else printf("g -");
            dump_functab(ft);
        }
        else if (op == 'K' && ft)
        {
            functab_close(ft);
            printf("K");
            dump_functab(ft);
        }
        else
        {
            printf("? %c\n", op);
        }
        fflush(stdout);
    }
    fclose(f);
    free(line);
    if (st) strtab_delete(st);
    if (ft) { functab_delete(ft); drop_funcs(); }
    free(funcs);
    return 0;
}
