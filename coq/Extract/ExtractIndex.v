(* Extraction of the indexing models (engine E3, C12) and of the exception-table search (C03a)
   for the correspondence harness.  ExtrOcamlBasic only: Z, positive, nat stay extracted
   datatypes; harness/ocaml/index/indexrun.ml converts them.
   Model sources: NV.Index.W32 NV.Index.ArrIndex NV.Index.SliceRange NV.Index.StrIndex
   NV.Index.Shapes NV.Exc.ExcTab *)
From Coq Require Import ExtrOcamlBasic.
From NV Require Import Index.W32 Index.ArrIndex Index.SliceRange Index.StrIndex Index.Shapes Exc.ExcTab.

Extraction "indexmodel.ml"
  dim_mult dim_fits dim_addr array_deref mk_arr arr_elems mk_array
  get_slice_range compose_ranges slice_range slice_array slice_slice range_deref slice_deref
  flatten unflatten vec_dims slice_range_vec slice_slice_vec range_deref_vec slice_deref_vec
  slice_dim_name range_dim_name
  string_deref slice_string
  new_arr can_add can_mult arr_addsub arr_matmul arr_unary dim_copy arr_copy
  exctab_search exctab_of_list exception_tab_search.
