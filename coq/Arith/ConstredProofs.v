(* Arith/ConstredProofs.v — the reducer (Constred.fold, from front/constred.c) against the
   run-time evaluation (RtEval.rt_eval, from front/emit.c + back/vmexec.c), for ALL literal
   expression trees and ALL operand values, by induction on the tree.

   Full statements that are FALSE on the faithful model of the tree are refuted with a
   concrete witness (`_refuted`) and proved for the trees that avoid the defective nodes
   (`_partial`):
     fold_div0_is_runtime_fault    refuted by  false && (1/0 == 0), true ? 1 : 1/0
                                               (rejected although never evaluated).
   fold_never_crashes holds for ALL trees since /repo 355bd8f (the enum arms of
   expr_div_constred / expr_mod_constred fold a / -1 as -a and a % -1 as 0 like the int arms;
   before, E::M / -1 with M = INT_MIN was a SIGFPE inside the compiler and the statement was
   refuted); enum_min_div_wraps_both_sides is the regression statement.
   fold_agrees_with_runtime holds for ALL well-typed trees since /repo 2ca194c + 053e24b (an item
   enumerator operand is typed int, so < <= > >= % == != on enum operands have the int
   opcodes; before, E::C < 9 was folded while the variable version made the emitter abort and
   the statement carried the side condition emit_ok): well_typed_is_emitted, and
   enum_compare_folds_like_runtime is the regression statement. *)
From Coq Require Import ZArith Bool List Lia.
From NV Require Import Arith.NumTy Arith.Bits Arith.IntOps Arith.FloatOps Arith.VMOps
  Arith.Promote Arith.RtEval Arith.Constred Arith.IntOpsProofs.
Local Open Scope Z_scope.

Local Opaque iadd isub imul ineg idiv imod iand ior ixor ibnot ishl ishr i2l l2i
  fadd fsub fmul fdiv fneg fltb fgtb fleb fgeb feqb fneb fis_zero of_Z to_Z f2d d2f.

(* ---- typing inversions -------------------------------------------------------------- *)

Lemma ty_of_bin_inv : forall o a b t, ty_of (EBin o a b) = Some t ->
  exists ta tb, ty_of a = Some ta /\ ty_of b = Some tb /\ check_bin o ta tb = Some (t, None, None).
Proof.
  intros o a b t H. cbn [ty_of] in H.
  destruct (ty_of a) as [ta|]; [|discriminate].
  destruct (ty_of b) as [tb|]; [|discriminate].
  exists ta, tb. split; [reflexivity|]. split; [reflexivity|].
  destruct (check_bin o ta tb) as [[[t' cl] cr]|]; [|discriminate].
  destruct cl; [discriminate|]. destruct cr; [discriminate|]. now inversion H.
Qed.

Lemma ty_of_bin_congr : forall o a b a' b',
  ty_of a' = ty_of a -> ty_of b' = ty_of b -> ty_of (EBin o a' b') = ty_of (EBin o a b).
Proof. intros. cbn [ty_of]. now rewrite H, H0. Qed.

Lemma sel_bin_congr : forall o a b a' b',
  ty_of a' = ty_of a -> ty_of b' = ty_of b -> sel_bin o a' b' = sel_bin o a b.
Proof. intros. unfold sel_bin. now rewrite H, H0. Qed.

Lemma sel_un_congr : forall o a a', ty_of a' = ty_of a -> sel_un o a' = sel_un o a.
Proof. intros. unfold sel_un. now rewrite H. Qed.

Lemma sel_conv_congr : forall c a a', ty_of a' = ty_of a -> sel_conv c a' = sel_conv c a.
Proof. intros. unfold sel_conv. now rewrite H. Qed.

Lemma ty_is_congr : forall a a' t, ty_of a' = ty_of a -> ty_is a' t = ty_is a t.
Proof. intros. unfold ty_is. now rewrite H. Qed.

Lemma run_bin_congr : forall o a b a' b',
  ty_of a' = ty_of a -> ty_of b' = ty_of b -> run a' = run a -> run b' = run b ->
  run (EBin o a' b') = run (EBin o a b).
Proof.
  intros o a b a' b' Ta Tb Ra Rb.
  pose proof (sel_bin_congr o a b a' b' Ta Tb) as S.
  destruct o; cbn [run]; rewrite ?Ra, ?Rb, ?S; reflexivity.
Qed.

Lemma run_un_congr : forall o a a', ty_of a' = ty_of a -> run a' = run a ->
  run (EUn o a') = run (EUn o a).
Proof. intros. cbn [run]. now rewrite H0, (sel_un_congr o a a' H). Qed.

Lemma run_conv_congr : forall c a a', ty_of a' = ty_of a -> run a' = run a ->
  run (EConv c a') = run (EConv c a).
Proof. intros. cbn [run]. now rewrite H0, (sel_conv_congr c a a' H). Qed.

(* ---- every accepted node has an opcode (since /repo 2ca194c) ---------------------------- *)

Lemma emit_bin_total : forall o l r t,
  check_bin o l r = Some (t, None, None) -> is_shortcircuit o = false ->
  is_some (emit_bin o l r t) = true.
Proof.
  intros o l r t H Hs. destruct o, l, r; cbn in H; try discriminate H; inversion H; subst;
    cbn in Hs; try discriminate Hs; reflexivity.
Qed.

Lemma emit_un_total : forall o t res, check_un o t = Some res -> is_some (emit_un o t res) = true.
Proof.
  intros o t res H. destruct o, t; cbn in H; try discriminate H; inversion H; subst; reflexivity.
Qed.

Theorem well_typed_is_emitted : forall e t, ty_of e = Some t -> emit_ok e = true.
Proof.
  induction e as [l | o a IHa | o a IHa b IHb | c a IHa | a IHa | c IHc a IHa b IHb];
    intros t H; cbn [emit_ok].
  - reflexivity.
  - cbn [ty_of] in H. destruct (ty_of a) as [ta|] eqn:Ta; [|discriminate].
    rewrite (IHa ta eq_refl). unfold sel_un. rewrite Ta, H. cbn. apply (emit_un_total _ _ _ H).
  - destruct (ty_of_bin_inv _ _ _ _ H) as (ta & tb & Ta & Tb & Ck).
    rewrite (IHa ta Ta), (IHb tb Tb). cbn. unfold sel_bin. rewrite Ta, Tb, Ck.
    destruct (is_shortcircuit o) eqn:S; [reflexivity|]. cbn. apply (emit_bin_total _ _ _ _ Ck S).
  - cbn [ty_of] in H. destruct (ty_of a) as [ta|] eqn:Ta; [|discriminate].
    rewrite (IHa ta eq_refl). unfold sel_conv. rewrite Ta. cbn.
    unfold check_conv in H. unfold emit_conv. destruct (ty_eqb ta (conv_src c)); [reflexivity | discriminate H].
  - cbn [ty_of] in H. exact (IHa t H).
  - cbn [ty_of] in H. destruct (ty_of c) as [tc|] eqn:Tc; [|discriminate].
    destruct tc; try discriminate.
    destruct (ty_of a) as [ta|] eqn:Ta; [|discriminate].
    destruct (ty_of b) as [tb|] eqn:Tb; [|discriminate].
    rewrite (IHc _ eq_refl), (IHa _ eq_refl), (IHb _ eq_refl). reflexivity.
Qed.

(* ---- one node over literal children --------------------------------------------------- *)

Definition node_lazy (o : binop) (ta tb : ty) : bool :=
  match o with
  | And | Or => true
  | BAnd | BOr | BXor | Shl | Shr => ty_eqb TEnum ta || ty_eqb TEnum tb
  | _ => false
  end.

Lemma red_bin_sound : forall o la lb t,
  ty_of (EBin o (ELit la) (ELit lb)) = Some t ->
  is_shortcircuit o || is_some (sel_bin o (ELit la) (ELit lb)) = true ->
  match red_bin o la lb with
  | LR l => run (EBin o (ELit la) (ELit lb)) = Val (lit_val l) /\ lit_ty l = t
  | LRej => run (EBin o (ELit la) (ELit lb)) = Fault DivisionByZero
  | LSig => False
  | LKeep => node_lazy o (lit_ty la) (lit_ty lb) = true
  end.
Proof.
  intros o la lb t Hty Hsel.
  destruct o, la, lb; cbn in Hty; try discriminate; cbn in Hsel; try discriminate;
    inversion Hty; subst; clear Hty Hsel;
    cbn;
    try (split; reflexivity);
    try reflexivity;
    try (match goal with |- context [idiv ?n ?x ?y] =>
           pose proof (idiv_not_sigfpe n x y) as NS; destruct (idiv n x y) end; cbn;
         try (split; reflexivity); try reflexivity; exfalso; apply NS; reflexivity);
    try (match goal with |- context [imod ?n ?x ?y] =>
           pose proof (imod_not_sigfpe n x y) as NS; destruct (imod n x y) end; cbn;
         try (split; reflexivity); try reflexivity; exfalso; apply NS; reflexivity);
    try (match goal with |- context [fis_zero ?f ?y] => destruct (fis_zero f y) end; cbn;
         try (split; reflexivity); reflexivity);
    try (match goal with |- context [if ?b then _ else _] => destruct b end; cbn;
         try (split; reflexivity); reflexivity).
  all: try (destruct b; destruct b0; cbn; split; reflexivity).
Qed.

Lemma red_un_sound : forall o la t,
  ty_of (EUn o (ELit la)) = Some t ->
  is_some (sel_un o (ELit la)) = true ->
  match red_un o la with
  | LR l => run (EUn o (ELit la)) = Val (lit_val l) /\ lit_ty l = t
  | LRej | LSig => False
  | LKeep => o = BNot /\ lit_ty la = TEnum
  end.
Proof.
  intros o la t Hty Hsel.
  destruct o, la; cbn in Hty; try discriminate; cbn in Hsel; try discriminate;
    inversion Hty; subst; cbn; try (split; reflexivity).
  destruct b; cbn; split; reflexivity.
Qed.

Lemma red_conv_sound : forall c la t,
  ty_of (EConv c (ELit la)) = Some t ->
  match red_conv c la with
  | LR l => run (EConv c (ELit la)) = Val (lit_val l) /\ lit_ty l = t
  | _ => False
  end.
Proof.
  intros c la t Hty.
  destruct c, la; cbn in Hty; try discriminate; inversion Hty; subst; cbn; split; reflexivity.
Qed.

(* ---- the induction ------------------------------------------------------------------- *)

Definition sound_for (e : expr) (t : ty) (r : fres) : Prop :=
  match r with
  | FOk e' =>
      ty_of e' = Some t /\ emit_ok e' = true /\ run e' = run e /\
      (strict e = true -> exists l, e' = ELit l)
  | FReject => strict e = true -> run e = Fault DivisionByZero
  | FCrash => False
  end.

Lemma run_lit_val : forall l, run (ELit l) = Val (lit_val l).
Proof. reflexivity. Qed.

Lemma strict_bin_inv : forall o a b, strict (EBin o a b) = true ->
  strict a = true /\ strict b = true /\ is_shortcircuit o = false /\
  (forall ta tb, ty_of a = Some ta -> ty_of b = Some tb -> node_lazy o ta tb = false).
Proof.
  intros o a b H. cbn [strict] in H.
  apply andb_true_iff in H. destruct H as [H H3].
  apply andb_true_iff in H. destruct H as [H1 H2].
  apply negb_true_iff in H3.
  split; [assumption|]. split; [assumption|]. split.
  - destruct o; try reflexivity; discriminate.
  - intros ta tb Ta Tb. unfold ty_is in H3. rewrite Ta, Tb in H3.
    destruct o; try reflexivity; try discriminate; cbn; assumption.
Qed.

Lemma run_bin_left_stops : forall o a b r, is_shortcircuit o = false ->
  run a = r -> (forall v, r <> Val v) -> run (EBin o a b) = r.
Proof.
  intros o a b r Hs Ha Hr.
  destruct o; try discriminate; cbn [run]; rewrite Ha;
    destruct r; try reflexivity; exfalso; eapply Hr; reflexivity.
Qed.

Lemma run_bin_right_stops : forall o a b v r, is_shortcircuit o = false ->
  run a = Val v -> run b = r -> (forall w, r <> Val w) -> run (EBin o a b) = r.
Proof.
  intros o a b v r Hs Ha Hb Hr.
  destruct o; try discriminate; cbn [run]; rewrite Ha, Hb; cbn [bind];
    destruct r; try reflexivity; exfalso; eapply Hr; reflexivity.
Qed.

Lemma emit_ok_un : forall o a, emit_ok (EUn o a) = emit_ok a && is_some (sel_un o a).
Proof. reflexivity. Qed.
Lemma emit_ok_conv : forall c a, emit_ok (EConv c a) = emit_ok a && is_some (sel_conv c a).
Proof. reflexivity. Qed.
Lemma emit_ok_bin : forall o a b, emit_ok (EBin o a b) =
  emit_ok a && emit_ok b && (is_shortcircuit o || is_some (sel_bin o a b)).
Proof. reflexivity. Qed.
Lemma emit_ok_cond : forall c a b, emit_ok (ECond c a b) = emit_ok c && emit_ok a && emit_ok b.
Proof. reflexivity. Qed.

Ltac split4 := split; [|split; [|split]].
Ltac not_val := let w := fresh in let H := fresh in intros w H; discriminate H.

Theorem fold_sound : forall e t,
  ty_of e = Some t -> emit_ok e = true -> sound_for e t (fold e).
Proof.
  induction e as [l | o a IHa | o a IHa b IHb | c a IHa | a IHa | c IHc a IHa b IHb];
    intros t Hty Hem.
  - (* literal *)
    cbn. repeat split; try assumption. intros _. eexists; reflexivity.
  - (* unary *)
    cbn [emit_ok] in Hem. apply andb_true_iff in Hem. destruct Hem as [Hema Hsel].
    assert (Hta : exists ta, ty_of a = Some ta).
    { cbn [ty_of] in Hty. destruct (ty_of a); [eexists; reflexivity | discriminate]. }
    destruct Hta as [ta Hta].
    specialize (IHa ta Hta Hema).
    cbn [fold]. destruct (fold a) as [a'| |]; cbn [sound_for] in IHa |- *.
    + destruct IHa as (Ta' & Ea' & Ra' & La').
      assert (Tc : ty_of a' = ty_of a) by congruence.
      assert (Tyn : ty_of (EUn o a') = Some t) by (cbn [ty_of] in *; now rewrite Tc).
      assert (Sel' : is_some (sel_un o a') = true) by (now rewrite (sel_un_congr o a a' Tc)).
      assert (Rn : run (EUn o a') = run (EUn o a)) by (now apply run_un_congr).
      unfold node_un. destruct a' as [la| | | | |];
        try (cbn [sound_for]; split4;
             [assumption | rewrite emit_ok_un, Ea', Sel'; reflexivity | assumption |
              intro S; cbn [strict] in S; apply andb_true_iff in S; destruct S as [S _];
              destruct (La' S) as [l Hl]; discriminate Hl]).
      pose proof (red_un_sound o la t Tyn Sel') as N.
      destruct (red_un o la) as [l| | |]; cbn [of_lres sound_for].
      * destruct N as [N1 N2]. split4; [ | reflexivity | | ].
        -- cbn. now rewrite N2.
        -- rewrite <- Rn, N1. reflexivity.
        -- intros _. eexists; reflexivity.
      * contradiction.
      * contradiction.
      * destruct N as [-> N2].
        split; [assumption|]. split; [first [rewrite emit_ok_un, Sel' | rewrite emit_ok_bin, Sel']; reflexivity|]. split; [assumption|].
        intro S. cbn [strict] in S. apply andb_true_iff in S. destruct S as [_ S].
        apply negb_true_iff in S. unfold ty_is in S. rewrite <- Tc in S. cbn in S.
        rewrite N2 in S. discriminate.
    + intro S. cbn [strict] in S. apply andb_true_iff in S. destruct S as [S _].
      cbn [run]. rewrite (IHa S). reflexivity.
    + exact IHa.
  - (* binary *)
    cbn [emit_ok] in Hem. apply andb_true_iff in Hem. destruct Hem as [Hem Hsel].
    apply andb_true_iff in Hem. destruct Hem as [Hema Hemb].
    destruct (ty_of_bin_inv o a b t Hty) as (ta & tb & Hta & Htb & Hck).
    specialize (IHa ta Hta Hema). specialize (IHb tb Htb Hemb).
    cbn [fold].
    destruct (fold a) as [a'| |]; destruct (fold b) as [b'| |];
      cbn [fseq sound_for] in IHa, IHb |- *.
    + (* both reduced *)
      destruct IHa as (Ta' & Ea' & Ra' & La'). destruct IHb as (Tb' & Eb' & Rb' & Lb').
      assert (Tca : ty_of a' = ty_of a) by congruence.
      assert (Tcb : ty_of b' = ty_of b) by congruence.
      assert (Tyn : ty_of (EBin o a' b') = Some t)
        by (rewrite (ty_of_bin_congr o a b a' b' Tca Tcb); assumption).
      assert (Sel' : is_shortcircuit o || is_some (sel_bin o a' b') = true)
        by (now rewrite (sel_bin_congr o a b a' b' Tca Tcb)).
      assert (Rn : run (EBin o a' b') = run (EBin o a b)) by (now apply run_bin_congr).
      assert (KeepT : forall x y, x = a' -> y = b' ->
                (strict a = true -> strict b = true -> False) ->
                sound_for (EBin o a b) t (FOk (EBin o x y))).
      { intros x y -> -> NL. cbn [sound_for]. split4;
          [assumption | rewrite emit_ok_bin, Ea', Eb', Sel'; reflexivity | assumption |].
        intro S. destruct (strict_bin_inv _ _ _ S) as (Sa & Sb & _).
        exfalso. exact (NL Sa Sb). }
      unfold node_bin.
      destruct a' as [la| | | | |];
        try (apply KeepT; [reflexivity | reflexivity |
             intros Sa _; destruct (La' Sa) as [l Hl]; discriminate Hl]).
      destruct b' as [lb| | | | |];
        try (apply KeepT; [reflexivity | reflexivity |
             intros _ Sb; destruct (Lb' Sb) as [l Hl]; discriminate Hl]).
      clear KeepT.
      pose proof (red_bin_sound o la lb t Tyn Sel') as N.
      destruct (red_bin o la lb) as [l| | |]; cbn [of_lres sound_for].
      * destruct N as [N1 N2]. split4; [ | reflexivity | | ].
        -- cbn. now rewrite N2.
        -- rewrite <- Rn, N1. reflexivity.
        -- intros _. eexists; reflexivity.
      * intros _. rewrite <- Rn. exact N.
      * exact N.
      * split; [assumption|]. split; [first [rewrite emit_ok_un, Sel' | rewrite emit_ok_bin, Sel']; reflexivity|]. split; [assumption|].
        intro S. destruct (strict_bin_inv _ _ _ S) as (_ & _ & _ & Lz).
        cbn [ty_of] in Tca, Tcb. rewrite Hta in Tca. rewrite Htb in Tcb.
        inversion Tca as [E1]. inversion Tcb as [E2].
        rewrite E1, E2 in N. rewrite (Lz ta tb Hta Htb) in N. discriminate N.
    + (* right rejected *)
      destruct IHa as (Ta' & Ea' & Ra' & La').
      intro S. destruct (strict_bin_inv _ _ _ S) as (Sa & Sb & Ss & _).
      destruct (La' Sa) as [l ->]. cbn [run] in Ra'.
      eapply run_bin_right_stops; [assumption | symmetry; exact Ra' | exact (IHb Sb) | not_val].
    + (* right crashed *)
      exact IHb.
    + intro S. destruct (strict_bin_inv _ _ _ S) as (Sa & Sb & Ss & _).
      eapply run_bin_left_stops; [assumption | exact (IHa Sa) | not_val].
    + intro S. destruct (strict_bin_inv _ _ _ S) as (Sa & Sb & Ss & _).
      eapply run_bin_left_stops; [assumption | exact (IHa Sa) | not_val].
    + exact IHb.
    + exact IHa.
    + exact IHa.
    + exact IHa.
  - (* conversion *)
    cbn [emit_ok] in Hem. apply andb_true_iff in Hem. destruct Hem as [Hema Hsel].
    assert (Hta : exists ta, ty_of a = Some ta).
    { cbn [ty_of] in Hty. destruct (ty_of a); [eexists; reflexivity | discriminate]. }
    destruct Hta as [ta Hta].
    specialize (IHa ta Hta Hema).
    cbn [fold]. destruct (fold a) as [a'| |]; cbn [sound_for] in IHa |- *.
    + destruct IHa as (Ta' & Ea' & Ra' & La').
      assert (Tc : ty_of a' = ty_of a) by congruence.
      assert (Tyn : ty_of (EConv c a') = Some t) by (cbn [ty_of] in *; now rewrite Tc).
      assert (Sel' : is_some (sel_conv c a') = true) by (now rewrite (sel_conv_congr c a a' Tc)).
      assert (Rn : run (EConv c a') = run (EConv c a)) by (now apply run_conv_congr).
      unfold node_conv. destruct a' as [la| | | | |];
        try (cbn [sound_for]; split4;
             [assumption | rewrite emit_ok_conv, Ea', Sel'; reflexivity | assumption |
              intro S; cbn [strict] in S; destruct (La' S) as [l Hl]; discriminate Hl]).
      pose proof (red_conv_sound c la t Tyn) as N.
      destruct (red_conv c la) as [l| | |]; cbn [of_lres sound_for]; try contradiction.
      destruct N as [N1 N2]. split4; [ | reflexivity | | ].
      * cbn. now rewrite N2.
      * rewrite <- Rn, N1. reflexivity.
      * intros _. eexists; reflexivity.
    + intro S. cbn [strict] in S. cbn [run]. rewrite (IHa S). reflexivity.
    + exact IHa.
  - (* parentheses *)
    cbn [emit_ok] in Hem. cbn [ty_of] in Hty.
    specialize (IHa t Hty Hem).
    cbn [fold]. destruct (fold a) as [a'| |]; cbn [sound_for] in IHa |- *.
    + destruct IHa as (Ta' & Ea' & Ra' & La').
      unfold node_sup. destruct a' as [la| | | | |]; cbn [sound_for].
      1: { split4; [assumption | assumption | assumption |]. intros _. eexists; reflexivity. }
      all: (split4; [exact Ta' | exact Ea' | exact Ra' |
            intro S; cbn [strict] in S; destruct (La' S) as [l Hl]; discriminate Hl]).
    + intro S. cbn [strict] in S. cbn [run]. exact (IHa S).
    + exact IHa.
  - (* ?: *)
    cbn [emit_ok] in Hem. apply andb_true_iff in Hem. destruct Hem as [Hem Hemb].
    apply andb_true_iff in Hem. destruct Hem as [Hemc Hema].
    assert (Htys : ty_of c = Some TBool /\ ty_of a = Some t /\ ty_of b = Some t).
    { cbn [ty_of] in Hty. destruct (ty_of c) as [[]|]; try discriminate.
      destruct (ty_of a) as [ta|]; try discriminate.
      destruct (ty_of b) as [tb|]; try discriminate.
      destruct (ty_eqb ta tb) eqn:E; try discriminate.
      inversion Hty; subst.
      assert (t = tb) by (destruct t, tb; cbn in E; try discriminate; reflexivity).
      subst. repeat split. }
    destruct Htys as (Htc & Hta & Htb).
    specialize (IHc TBool Htc Hemc). specialize (IHa t Hta Hema).
    specialize (IHb t Htb Hemb).
    cbn [fold].
    destruct (fold c) as [c'| |]; destruct (fold a) as [a'| |]; destruct (fold b) as [b'| |];
      cbn [fseq3 is_crash is_reject orb sound_for];
      try (intro S; cbn [strict] in S; discriminate S);
      try contradiction.
    destruct IHc as (Tc' & Ec' & Rc' & _). destruct IHa as (Ta' & Ea' & Ra' & _).
    destruct IHb as (Tb' & Eb' & Rb' & _).
    assert (Keep : sound_for (ECond c a b) t (FOk (ECond c' a' b'))).
    { cbn [sound_for]. repeat split.
      - cbn [ty_of]. rewrite Tc', Ta', Tb'.
        assert (ty_eqb t t = true) by (destruct t; reflexivity). now rewrite H.
      - rewrite emit_ok_cond, Ec', Ea', Eb'. reflexivity.
      - cbn [run]. now rewrite Rc', Ra', Rb'.
      - intro S. cbn [strict] in S. discriminate S. }
    unfold node_cond.
    destruct c' as [lc| | | | |]; try exact Keep.
    destruct lc as [bc| | | | |]; try exact Keep.
    cbn [run] in Rc'.
    destruct bc; cbn [sound_for]; repeat split; try assumption;
      try (intro S; cbn [strict] in S; discriminate S).
    + cbn [run]. rewrite <- Rc'. cbn. exact Ra'.
    + cbn [run]. rewrite <- Rc'. cbn. exact Rb'.
Qed.

(* ---- the theorems ---------------------------------------------------------------------- *)

Lemma rt_eval_run : forall e, emit_ok e = true -> rt_eval e = run e.
Proof. intros e H. unfold rt_eval. now rewrite H. Qed.

(* whatever the reducer leaves behind computes, at run time, exactly what the original
   expression computes — same value bit for bit, same fault, same type — for every tree the
   typechecker accepts (no side condition left: every accepted node has an opcode). *)
Theorem fold_agrees_with_runtime : forall e t e',
  ty_of e = Some t -> fold e = FOk e' ->
  ty_of e' = Some t /\ rt_eval e' = rt_eval e.
Proof.
  intros e t e' Hty Hf.
  pose proof (well_typed_is_emitted e t Hty) as He.
  pose proof (fold_sound e t Hty He) as S. rewrite Hf in S. cbn [sound_for] in S.
  destruct S as (T & E & R & _). split; [assumption|].
  now rewrite (rt_eval_run e' E), (rt_eval_run e He).
Qed.

(* in particular a folded literal IS the run-time value *)
Theorem fold_literal_is_runtime_value : forall e t l,
  ty_of e = Some t -> fold e = FOk (ELit l) ->
  rt_eval e = Val (lit_val l) /\ lit_ty l = t.
Proof.
  intros e t l Hty Hf.
  destruct (fold_agrees_with_runtime e t (ELit l) Hty Hf) as [T R].
  split; [now rewrite <- R | now inversion T].
Qed.

(* the reducer never traps, on any tree (typed or not): no arm of red_bin / red_un / red_conv
   yields LSig — every division arm, the enum arms included, is idiv / imod *)
Lemma red_bin_no_sig : forall o la lb, red_bin o la lb <> LSig.
Proof.
  intros o la lb H.
  destruct o, la, lb; cbn in H; try discriminate H;
    try (match type of H with context [idiv ?n ?x ?y] =>
           pose proof (idiv_not_sigfpe n x y) as NS; destruct (idiv n x y) end;
         cbn in H; try discriminate H; apply NS; reflexivity);
    try (match type of H with context [imod ?n ?x ?y] =>
           pose proof (imod_not_sigfpe n x y) as NS; destruct (imod n x y) end;
         cbn in H; try discriminate H; apply NS; reflexivity);
    try (match type of H with context [if ?c then _ else _] => destruct c end; discriminate H).
Qed.

Lemma red_un_no_sig : forall o la, red_un o la <> LSig.
Proof. intros o la H. destruct o, la; discriminate H. Qed.

Lemma red_conv_no_sig : forall c la, red_conv c la <> LSig.
Proof. intros c la H. destruct c, la; discriminate H. Qed.

Lemma of_lres_crash : forall r keep, of_lres r keep = FCrash -> r = LSig.
Proof. intros r keep H. destruct r; try discriminate H. reflexivity. Qed.

Theorem fold_never_crashes : forall e, fold e <> FCrash.
Proof.
  induction e as [l | o a IHa | o a IHa b IHb | c a IHa | a IHa | c IHc a IHa b IHb];
    cbn [fold].
  - discriminate.
  - destruct (fold a) as [a'| |]; [|discriminate | exact IHa].
    unfold node_un. destruct a'; try discriminate.
    intro H. exact (red_un_no_sig _ _ (of_lres_crash _ _ H)).
  - destruct (fold a) as [a'| |]; [| |exfalso; apply IHa; reflexivity];
      (destruct (fold b) as [b'| |]; [| |exfalso; apply IHb; reflexivity]); cbn [fseq];
      try discriminate.
    unfold node_bin. destruct a'; try discriminate. destruct b'; try discriminate.
    intro H. exact (red_bin_no_sig _ _ _ (of_lres_crash _ _ H)).
  - destruct (fold a) as [a'| |]; [|discriminate | exact IHa].
    unfold node_conv. destruct a'; try discriminate.
    intro H. exact (red_conv_no_sig _ _ (of_lres_crash _ _ H)).
  - destruct (fold a) as [a'| |]; [|discriminate | exact IHa].
    unfold node_sup. destruct a'; discriminate.
  - destruct (fold c) as [c'| |]; [| |exfalso; apply IHc; reflexivity];
      (destruct (fold a) as [a'| |]; [| |exfalso; apply IHa; reflexivity]);
      (destruct (fold b) as [b'| |]; [| |exfalso; apply IHb; reflexivity]);
      cbn [fseq3 is_crash orb]; try discriminate.
    unfold node_cond. destruct c' as [lc| | | | |]; try discriminate.
    destruct lc as [bc| | | | |]; try discriminate. destruct bc; discriminate.
Qed.

(* every tree without lazily evaluated nodes folds completely: to a literal of its type or to
   the division-by-zero rejection *)
Theorem fold_total : forall e t,
  ty_of e = Some t -> strict e = true ->
  fold e = FReject \/ exists l, fold e = FOk (ELit l) /\ lit_ty l = t.
Proof.
  intros e t Hty Hs.
  pose proof (well_typed_is_emitted e t Hty) as He.
  pose proof (fold_sound e t Hty He) as S.
  destruct (fold e) as [e'| |]; [|left; reflexivity | exfalso; exact S].
  right. cbn [sound_for] in S. destruct S as (T & _ & _ & L).
  destruct (L Hs) as [l ->]. exists l. split; [reflexivity | now inversion T].
Qed.

Theorem fold_div0_is_runtime_fault_partial : forall e t,
  ty_of e = Some t -> strict e = true ->
  fold e = FReject -> rt_eval e = Fault DivisionByZero.
Proof.
  intros e t Hty Hs Hf.
  pose proof (well_typed_is_emitted e t Hty) as He.
  pose proof (fold_sound e t Hty He) as S. rewrite Hf in S. cbn [sound_for] in S.
  rewrite (rt_eval_run e He). exact (S Hs).
Qed.

(* the VM side never traps at all (after the fix of vm_execute_op_div/mod) *)
Theorem run_never_traps : forall e, run e <> Crash SigFpe.
Proof.
  assert (B : forall r k, (forall v, k v <> Crash SigFpe) -> r <> Crash SigFpe -> bind r k <> Crash SigFpe).
  { intros r k Hk Hr. destruct r; cbn; [apply Hk | assumption | assumption]. }
  assert (T : forall x k, (forall b, k b <> Crash SigFpe) -> of_truth x k <> Crash SigFpe).
  { intros x k Hk. unfold of_truth. destruct (truth x); [apply Hk | discriminate]. }
  assert (I : forall n mk o a b, exec_int_bop n mk o a b <> Crash SigFpe).
  { intros n mk o a b. Local Transparent idiv imod.
    destruct o; cbn; try discriminate; unfold idiv, imod;
      destruct (b =? 0); try discriminate; destruct (b =? -1); discriminate. }
  assert (F : forall f mk o a b, exec_flt_bop f mk o a b <> Crash SigFpe).
  { intros f mk o a b. destruct o; cbn; try discriminate. destruct (fis_zero f b); discriminate. }
  assert (V2 : forall op x y, exec_vmop2 op x y <> Crash SigFpe).
  { intros [[o t| | | | |]|] x y; cbn; try discriminate.
    destruct t, x, y; cbn; try discriminate; first [apply I | apply F]. }
  assert (V1 : forall op x, exec_vmop1 op x <> Crash SigFpe).
  { intros [[|o t|c| | |]|] x; cbn; try discriminate.
    - destruct o, t, x; cbn; discriminate.
    - destruct c, x; cbn; discriminate. }
  induction e as [l | o a IHa | o a IHa b IHb | c a IHa | a IHa | c IHc a IHa b IHb]; cbn [run].
  - discriminate.
  - apply B; [intro; apply V1 | assumption].
  - destruct o;
      try (apply B; [intro va; apply B; [intro vb; apply V2 | assumption] | assumption]).
    + apply B; [|assumption]. intro va. apply T. intros [|]; [|discriminate].
      apply B; [|assumption]. intro vb. apply T. intro; discriminate.
    + apply B; [|assumption]. intro va. apply T. intros [|]; [discriminate|].
      apply B; [|assumption]. intro vb. apply T. intro; discriminate.
  - apply B; [intro; apply V1 | assumption].
  - assumption.
  - apply B; [|assumption]. intro vc. apply T. intros [|]; assumption.
Qed.

(* ---- refutations on the faithful model of the tree --------------------------------------- *)

Definition ex_long_mul : expr := EBin Mul (ELit (LLong 5000000000)) (ELit (LLong 2)).
Definition ex_bool_neq : expr := EBin ONe (ELit (LBool true)) (ELit (LBool false)).
Definition ex_enum_lt : expr := EBin OLt (ELit (LEnum 7)) (ELit (LInt 9)).
Definition ex_and_div0 : expr :=
  EBin And (ELit (LBool false))
           (EBin OEq (EBin Div (ELit (LInt 1)) (ELit (LInt 0))) (ELit (LInt 0))).
Definition ex_cond_div0 : expr :=
  ECond (ELit (LBool true)) (ELit (LInt 1)) (EBin Div (ELit (LInt 1)) (ELit (LInt 0))).
Definition ex_int_min_div : expr := EBin Div (ELit (LInt (-2147483648))) (ELit (LInt (-1))).
Definition ex_int_min_mod : expr := EBin Mod (ELit (LInt (-2147483648))) (ELit (LInt (-1))).
Definition ex_enum_min_div : expr := EBin Div (ELit (LEnum (-2147483648))) (ELit (LInt (-1))).
Definition ex_enum_min_mod : expr := EBin Mod (ELit (LEnum (-2147483648))) (ELit (LEnum (-1))).

(* regression statement for /repo 2ca194c: the comparison of an enum item with an int is folded
   AND the same comparison on variables is the int comparison of the index (it used to make the
   emitter abort: no opcode for (enumtype, int)) *)
Theorem enum_compare_folds_like_runtime :
  ty_of ex_enum_lt = Some TBool /\ fold ex_enum_lt = FOk (ELit (LBool true)) /\
  rt_eval ex_enum_lt = Val (VInt 1).
Proof. repeat split; vm_compute; reflexivity. Qed.

(* regression statements for the defects fixed in the tree *)
Theorem long_mul_folds_like_runtime :
  fold ex_long_mul = FOk (ELit (LLong 10000000000)) /\ rt_eval ex_long_mul = Val (VLong 10000000000).
Proof. split; vm_compute; reflexivity. Qed.

Theorem bool_neq_folds_like_runtime :
  fold ex_bool_neq = FOk (ELit (LBool true)) /\ rt_eval ex_bool_neq = Val (VInt 1).
Proof. split; vm_compute; reflexivity. Qed.

Theorem int_min_div_wraps_both_sides :
  fold ex_int_min_div = FOk (ELit (LInt (-2147483648))) /\
  rt_eval ex_int_min_div = Val (VInt (-2147483648)) /\
  fold ex_int_min_mod = FOk (ELit (LInt 0)) /\ rt_eval ex_int_min_mod = Val (VInt 0).
Proof. repeat split; vm_compute; reflexivity. Qed.

(* the statement "rejected as constant division by zero -> the VM faults" is false *)
Theorem fold_div0_is_runtime_fault_refuted :
  exists e t v, ty_of e = Some t /\ fold e = FReject /\ rt_eval e = Val v.
Proof.
  exists ex_and_div0, TBool, (VInt 0). repeat split; vm_compute; reflexivity.
Qed.

Theorem cond_div0_is_rejected_but_runs :
  ty_of ex_cond_div0 = Some TInt /\ fold ex_cond_div0 = FReject /\ rt_eval ex_cond_div0 = Val (VInt 1).
Proof. repeat split; vm_compute; reflexivity. Qed.

(* regression statement for /repo 355bd8f: an enumerator equal to INT_MIN divided by -1 (literal
   or enumerator) is folded to the value the VM computes on variables; it used to be a SIGFPE
   inside the compiler *)
Theorem enum_min_div_wraps_both_sides :
  ty_of ex_enum_min_div = Some TInt /\
  fold ex_enum_min_div = FOk (ELit (LInt (-2147483648))) /\
  rt_eval ex_enum_min_div = Val (VInt (-2147483648)) /\
  ty_of ex_enum_min_mod = Some TInt /\
  fold ex_enum_min_mod = FOk (ELit (LInt 0)) /\ rt_eval ex_enum_min_mod = Val (VInt 0).
Proof. repeat split; vm_compute; reflexivity. Qed.

(* ---- elaboration produces trees the theorems apply to ------------------------------------ *)

Lemma check_bin_after_conv : forall o ta tb t cl cr,
  check_bin o ta tb = Some (t, cl, cr) ->
  check_bin o (apply_conv ta cl) (apply_conv tb cr) = Some (t, None, None) /\
  (forall c, cl = Some c -> conv_src c = ta) /\ (forall c, cr = Some c -> conv_src c = tb).
Proof.
  intros o ta tb t cl cr H.
  destruct o, ta, tb; cbn in H; try discriminate; inversion H; subst; cbn;
    (split; [reflexivity|]); split; intros c Hc; try discriminate; inversion Hc; reflexivity.
Qed.

Lemma ty_of_wrap_conv : forall c e t, ty_of e = Some t ->
  (forall c', c = Some c' -> conv_src c' = t) ->
  ty_of (wrap_conv c e) = Some (apply_conv t c).
Proof.
  intros [c|] e t H Hs; cbn; [|assumption].
  rewrite H. unfold check_conv. rewrite <- (Hs c eq_refl).
  assert (ty_eqb (conv_src c) (conv_src c) = true) by (destruct c; reflexivity).
  now rewrite H0.
Qed.

Theorem elab_well_typed : forall s e t, elab s = Some (e, t) -> ty_of e = Some t.
Proof.
  induction s as [l | o a IHa | o a IHa b IHb | a IHa | c IHc a IHa b IHb]; intros e t H;
    cbn [elab] in H.
  - inversion H. reflexivity.
  - destruct (elab a) as [[ea ta]|]; [|discriminate].
    destruct (check_un o ta) as [t'|] eqn:E; [|discriminate]. inversion H; subst.
    cbn [ty_of]. now rewrite (IHa ea ta eq_refl).
  - destruct (elab a) as [[ea ta]|]; [|discriminate].
    destruct (elab b) as [[eb tb]|]; [|discriminate].
    destruct (check_bin o ta tb) as [[[t' cl] cr]|] eqn:E; [|discriminate]. inversion H; subst.
    destruct (check_bin_after_conv o ta tb t cl cr E) as (C & Sl & Sr).
    cbn [ty_of].
    rewrite (ty_of_wrap_conv cl ea ta (IHa ea ta eq_refl) Sl).
    rewrite (ty_of_wrap_conv cr eb tb (IHb eb tb eq_refl) Sr).
    now rewrite C.
  - destruct (elab a) as [[ea ta]|]; [|discriminate]. inversion H; subst.
    cbn [ty_of]. exact (IHa ea t eq_refl).
  - destruct (elab c) as [[ec tc]|]; [|discriminate].
    destruct tc; try discriminate.
    destruct (elab a) as [[ea ta]|]; [|discriminate].
    destruct (elab b) as [[eb tb]|]; [|discriminate].
    destruct (ty_eqb ta tb) eqn:E; [|discriminate]. inversion H; subst.
    cbn [ty_of]. rewrite (IHc ec TBool eq_refl), (IHa ea t eq_refl), (IHb eb tb eq_refl).
    now rewrite E.
Qed.
