(* arithrun — driver of the extracted arithmetic model (coq/Extract/ExtractArith.v).
   Unverified glue: parsing of cases, conversion of numbers, printing.

   stdin: one case per line
     E <id> <sexpr>                    elaborate, fold, rt_eval
     A <id> <ty> <lit> <sexpr>         assignment  x = e  with x : ty currently holding lit
     S <id> <lit>                      text of the number when concatenated to a string
     N <id> <sexpr>                    enumerator initialiser: efold (enumred.c) and rt_eval
     X <id> (D <enum> ...)             a set of enum declarations: index of every enumerator
         <enum> ::= (E <item> ...)   <item> ::= p | r | (v <ix>)      plain / record style / valued
         <ix>   ::= (R <enum no> <position>) | (L ..) | (U ..) | (B ..) | (P ..) | (C ..)   decimal nats
   <sexpr> ::= (L <kind> <num>) | (U <unop> <sexpr>) | (B <binop> <sexpr> <sexpr>)
             | (P <sexpr>) | (C <sexpr> <sexpr> <sexpr>)
   <lit>   ::= (L <kind> <num>)        kind: b i l f d e ; num: [-]hex digits (value for b i l e,
                                       bit pattern for f d)
   stdout: one line per case
     <id> T=<ty|REJECT> FOLD=<LIT kind num|RESIDUAL|RESIDUAL-NOEMIT|REJECT|CRASH> RT=<VAL kind num|FAULT div0|CRASH k>
          CLEAN=<0|1> STRICT=<0|1> UB=<0|1>
     <id> ASSIGN=<VAL kind num|FAULT ..|CRASH k> UB=<0|1> FOLD=<as above, of the converted right side>
     <id> TEXT=<text>
     <id> IDX=OK <n,n,..;n,..>  |  IDX=BAD <enum no> <position> <CYCLIC|UNKNOWN|DIVZERO|NOTINT|FUEL>
          |  IDX=DUP <enum no> <position> <n>             (n in the [-]hex notation)
*)
module M = Arithmodel

(* ---- numbers ---- *)
let pos_of_bits (bits : bool list) : M.positive =
  (* bits: most significant first, first element true *)
  match bits with
  | [] -> M.XH
  | _ :: rest -> List.fold_left (fun acc b -> if b then M.XI acc else M.XO acc) M.XH rest

let bits_of_hex (s : string) : bool list =
  let l = ref [] in
  String.iter (fun c ->
      let v = match c with
        | '0' .. '9' -> Char.code c - 48
        | 'a' .. 'f' -> Char.code c - 87
        | 'A' .. 'F' -> Char.code c - 55
        | _ -> failwith ("bad hex digit in " ^ s) in
      l := (v land 1 <> 0) :: (v land 2 <> 0) :: (v land 4 <> 0) :: (v land 8 <> 0) :: !l) s;
  (* !l is least significant first *)
  let msb_first = List.rev !l in
  let rec strip = function false :: r -> strip r | x -> x in
  strip msb_first

let z_of_string (s : string) : M.z =
  let neg = String.length s > 0 && s.[0] = '-' in
  let body = if neg then String.sub s 1 (String.length s - 1) else s in
  match bits_of_hex body with
  | [] -> M.Z0
  | bits -> let p = pos_of_bits bits in if neg then M.Zneg p else M.Zpos p

let rec lsb_bits (p : M.positive) : bool list =
  match p with M.XH -> [true] | M.XO q -> false :: lsb_bits q | M.XI q -> true :: lsb_bits q

let hex_of_pos (p : M.positive) : string =
  let bits = lsb_bits p in
  let buf = Buffer.create 16 in
  let rec go bits acc =
    match bits with
    | [] -> acc
    | _ ->
      let take n l = let rec t n l a = if n = 0 then (List.rev a, l) else
                         match l with [] -> (List.rev a, []) | x :: r -> t (n - 1) r (x :: a) in t n l [] in
      let (nib, rest) = take 4 bits in
      let v = List.fold_left (fun (a, w) b -> ((if b then a + w else a), w * 2)) (0, 1) nib |> fst in
      go rest ("0123456789abcdef".[v] :: acc) in
  List.iter (Buffer.add_char buf) (go bits []);
  Buffer.contents buf

let string_of_z (z : M.z) : string =
  match z with
  | M.Z0 -> "0"
  | M.Zpos p -> hex_of_pos p
  | M.Zneg p -> "-" ^ hex_of_pos p

let ocaml_string (s : M.string) : string =
  let b = Buffer.create 16 in
  let rec go = function
    | M.EmptyString -> ()
    | M.String (M.Ascii (b0, b1, b2, b3, b4, b5, b6, b7), r) ->
      let bit x w = if x then w else 0 in
      Buffer.add_char b (Char.chr (bit b0 1 + bit b1 2 + bit b2 4 + bit b3 8 + bit b4 16
                                   + bit b5 32 + bit b6 64 + bit b7 128));
      go r in
  go s; Buffer.contents b

(* ---- s-expressions ---- *)
type sx = Atom of string | List of sx list

let tokenize (s : string) : string list =
  let toks = ref [] and cur = Buffer.create 16 in
  let flush () = if Buffer.length cur > 0 then (toks := Buffer.contents cur :: !toks; Buffer.clear cur) in
  String.iter (fun c ->
      match c with
      | '(' | ')' -> flush (); toks := String.make 1 c :: !toks
      | ' ' | '\t' | '\r' | '\n' -> flush ()
      | _ -> Buffer.add_char cur c) s;
  flush (); List.rev !toks

let rec parse_sx (toks : string list) : sx * string list =
  match toks with
  | [] -> failwith "unexpected end"
  | "(" :: rest ->
    let rec items acc toks =
      match toks with
      | ")" :: r -> (List (List.rev acc), r)
      | [] -> failwith "missing )"
      | _ -> let (x, r) = parse_sx toks in items (x :: acc) r in
    items [] rest
  | ")" :: _ -> failwith "unexpected )"
  | a :: rest -> (Atom a, rest)

let binop_of = function
  | "add" -> M.Add | "sub" -> M.Sub | "mul" -> M.Mul | "div" -> M.Div | "mod" -> M.Mod
  | "lt" -> M.OLt | "gt" -> M.OGt | "lte" -> M.OLe | "gte" -> M.OGe | "eq" -> M.OEq | "neq" -> M.ONe
  | "and" -> M.And | "or" -> M.Or
  | "band" -> M.BAnd | "bor" -> M.BOr | "bxor" -> M.BXor | "shl" -> M.Shl | "shr" -> M.Shr
  | s -> failwith ("binop " ^ s)

let unop_of = function
  | "neg" -> M.Neg | "not" -> M.Not | "bnot" -> M.BNot | s -> failwith ("unop " ^ s)

let lit_of kind num =
  match kind with
  | "b" -> M.LBool (z_of_string num <> M.Z0)
  | "i" -> M.LInt (z_of_string num)
  | "l" -> M.LLong (z_of_string num)
  | "f" -> M.LFloat (z_of_string num)
  | "d" -> M.LDouble (z_of_string num)
  | "e" -> M.LEnum (z_of_string num)
  | s -> failwith ("lit kind " ^ s)

let rec sexpr_of (x : sx) : M.sexpr =
  match x with
  | List [Atom "L"; Atom k; Atom n] -> M.SLit (lit_of k n)
  | List [Atom "U"; Atom o; a] -> M.SUn (unop_of o, sexpr_of a)
  | List [Atom "B"; Atom o; a; b] -> M.SBin (binop_of o, sexpr_of a, sexpr_of b)
  | List [Atom "P"; a] -> M.SSup (sexpr_of a)
  | List [Atom "C"; c; a; b] -> M.SCond (sexpr_of c, sexpr_of a, sexpr_of b)
  | _ -> failwith "bad sexpr"

let rec nat_of_int (n : int) : M.nat = if n <= 0 then M.O else M.S (nat_of_int (n - 1))
let rec int_of_nat (n : M.nat) : int = match n with M.O -> 0 | M.S m -> 1 + int_of_nat m

let rec ix_of (x : sx) : M.ix =
  match x with
  | List [Atom "R"; Atom en; Atom pos] ->
    M.XRef (nat_of_int (int_of_string en), nat_of_int (int_of_string pos))
  | List [Atom "L"; Atom k; Atom n] -> M.XLit (lit_of k n)
  | List [Atom "U"; Atom o; a] -> M.XUn (unop_of o, ix_of a)
  | List [Atom "B"; Atom o; a; b] -> M.XBin (binop_of o, ix_of a, ix_of b)
  | List [Atom "P"; a] -> M.XSup (ix_of a)
  | List [Atom "C"; c; a; b] -> M.XCond (ix_of c, ix_of a, ix_of b)
  | _ -> failwith "bad ix"

let item_of (x : sx) : M.item =
  match x with
  | Atom "p" -> M.ItPlain
  | Atom "r" -> M.ItRecord
  | List [Atom "v"; e] -> M.ItValue (ix_of e)
  | _ -> failwith "bad item"

let decls_of (x : sx) : M.item list list =
  match x with
  | List (Atom "D" :: enums) ->
    List.map (function List (Atom "E" :: items) -> List.map item_of items | _ -> failwith "bad enum") enums
  | _ -> failwith "bad decls"

let string_of_xres = function
  | M.XOk z -> "OK " ^ string_of_z z
  | M.XCyclic -> "CYCLIC" | M.XUnknown -> "UNKNOWN" | M.XDivZero -> "DIVZERO"
  | M.XNotInt -> "NOTINT" | M.XFuel -> "FUEL"

let ty_of_string = function
  | "int" -> M.TInt | "long" -> M.TLong | "float" -> M.TFloat | "double" -> M.TDouble
  | "bool" -> M.TBool | "char" -> M.TChar | "string" -> M.TString | "enum" -> M.TEnum
  | s -> failwith ("type " ^ s)

let string_of_ty = function
  | M.TInt -> "int" | M.TLong -> "long" | M.TFloat -> "float" | M.TDouble -> "double"
  | M.TBool -> "bool" | M.TChar -> "char" | M.TString -> "string" | M.TEnum -> "enum"

let string_of_lit = function
  | M.LBool b -> "b " ^ (if b then "1" else "0")
  | M.LInt z -> "i " ^ string_of_z z
  | M.LLong z -> "l " ^ string_of_z z
  | M.LFloat z -> "f " ^ string_of_z (M.canon M.b32 z)
  | M.LDouble z -> "d " ^ string_of_z (M.canon M.b64 z)
  | M.LEnum z -> "e " ^ string_of_z z

let string_of_value = function
  | M.VInt z -> "i " ^ string_of_z z
  | M.VLong z -> "l " ^ string_of_z z
  | M.VFloat z -> "f " ^ string_of_z (M.canon M.b32 z)
  | M.VDouble z -> "d " ^ string_of_z (M.canon M.b64 z)

let string_of_outcome = function
  | M.Val v -> "VAL " ^ string_of_value v
  | M.Fault -> "FAULT div0"
  | M.Crash M.SigFpe -> "CRASH sigfpe"
  | M.Crash M.TagMismatch -> "CRASH tag"
  | M.Crash M.EmitAssert -> "CRASH emit"

(* does evaluating the elaborated tree meet C undefined behaviour that the model made total
   (out-of-range float->int conversion, shift count outside 0 <= k < width)?  Evaluated on
   the values the model computes; short-circuit aware. *)
let z32 = z_of_string "20" and z64 = z_of_string "40"

let rec ub_of (e : M.expr) : bool =
  let value_of e = match M.rt_eval e with M.Val v -> Some v | _ -> None in
  match e with
  | M.ELit _ -> false
  | M.ESup a | M.EUn (_, a) -> ub_of a
  | M.EConv (c, a) ->
    ub_of a ||
    (match c, value_of a with
     | M.F2I, Some (M.VFloat x) -> not (M.to_Z_defined z32 M.b32 x)
     | M.F2L, Some (M.VFloat x) -> not (M.to_Z_defined z64 M.b32 x)
     | M.D2I, Some (M.VDouble x) -> not (M.to_Z_defined z32 M.b64 x)
     | M.D2L, Some (M.VDouble x) -> not (M.to_Z_defined z64 M.b64 x)
     | _ -> false)
  | M.EBin ((M.Shl | M.Shr), a, b) ->
    ub_of a || ub_of b ||
    (match value_of b with
     | Some (M.VInt k) -> not (M.shift_ok z32 k)
     | Some (M.VLong k) -> not (M.shift_ok z64 k)
     | _ -> false)
  | M.EBin (M.And, a, b) ->
    ub_of a || (match value_of a with Some (M.VInt M.Z0) -> false | _ -> ub_of b)
  | M.EBin (M.Or, a, b) ->
    ub_of a || (match value_of a with Some (M.VInt M.Z0) -> ub_of b | Some _ -> false | None -> ub_of b)
  | M.EBin (_, a, b) -> ub_of a || ub_of b
  | M.ECond (c, a, b) ->
    ub_of c || (match value_of c with
        | Some (M.VInt M.Z0) -> ub_of b
        | Some _ -> ub_of a
        | None -> ub_of a || ub_of b)

let b01 b = if b then "1" else "0"

let do_line (line : string) : unit =
  match tokenize line with
  | [] -> ()
  | "E" :: id :: rest ->
    let (sx, _) = parse_sx rest in
    let s = sexpr_of sx in
    (match M.elab s with
     | None -> Printf.printf "%s T=REJECT\n" id
     | Some (e, t) ->
       (* canonicalisation: parentheses emit no instruction, so a residual (lit) dumps exactly
          like the literal itself (expr_cond_constred leaves EXPR_SUP around the chosen branch) *)
       let rec strip = function M.ESup a -> strip a | x -> x in
       let f = match (match M.fold e with M.FOk e' -> M.FOk (match strip e' with M.ELit l -> M.ELit l | _ -> e') | r -> r) with
         | M.FOk (M.ELit l) -> "LIT " ^ string_of_lit l
         | M.FOk e' -> if M.emit_ok e' then "RESIDUAL" else "RESIDUAL-NOEMIT"
         | M.FReject -> "REJECT"
         | M.FCrash -> "CRASH" in
       Printf.printf "%s T=%s FOLD=%s RT=%s CLEAN=%s STRICT=%s UB=%s\n" id (string_of_ty t) f
         (string_of_outcome (M.rt_eval e))
         (b01 (M.emit_ok e)) (b01 (M.strict e)) (b01 (ub_of e)))
  | "N" :: id :: rest ->
    (* enumerator initialiser: enumred.c model (efold) on the tree as written (enumerator
       references = LEnum leaves) and rt_eval on the same tree with the references replaced by
       int leaves (the run-time counterpart has its operands in int variables) *)
    let (sx, _) = parse_sx rest in
    let s = sexpr_of sx in
    let rec ints = function
      | M.SLit (M.LEnum z) -> M.SLit (M.LInt z)
      | M.SLit l -> M.SLit l
      | M.SUn (o, a) -> M.SUn (o, ints a)
      | M.SBin (o, a, b) -> M.SBin (o, ints a, ints b)
      | M.SSup a -> M.SSup (ints a)
      | M.SCond (c, a, b) -> M.SCond (ints c, ints a, ints b) in
    (match M.elab s, M.elab (ints s) with
     | Some (e, _), Some (ei, ti) ->
       let f = match M.efold e with
         | M.FOk (M.ELit (M.LInt z)) -> "LIT i " ^ string_of_z z
         | M.FOk _ -> "RESIDUAL"
         | M.FReject -> "REJECT"
         | M.FCrash -> "CRASH" in
       Printf.printf "%s T=%s FOLD=%s RT=%s CLEAN=%s STRICT=%s UB=%s\n" id (string_of_ty ti) f
         (string_of_outcome (M.rt_eval ei)) (b01 (M.emit_ok ei)) (b01 (M.strict ei)) (b01 (ub_of ei))
     | _, _ -> Printf.printf "%s T=REJECT\n" id)
  | "A" :: id :: ty :: rest ->
    let (lx, rest') = parse_sx rest in
    let old = match lx with
      | List [Atom "L"; Atom k; Atom n] -> M.lit_val (lit_of k n)
      | _ -> failwith "bad lit" in
    let (sx, _) = parse_sx rest' in
    (match M.elab (sexpr_of sx) with
     | None -> Printf.printf "%s ASSIGN=REJECT\n" id
     | Some (e, tr) ->
       let tl = ty_of_string ty in
       (match M.check_ass tl tr with
        | None -> Printf.printf "%s ASSIGN=REJECT\n" id
        | Some (_, c) ->
          let e' = (match c with Some c -> M.EConv (c, e) | None -> e) in
          let f = match M.fold e' with
            | M.FOk (M.ELit l) -> "LIT " ^ string_of_lit l
            | M.FOk _ -> "RESIDUAL"
            | M.FReject -> "REJECT"
            | M.FCrash -> "CRASH" in
          Printf.printf "%s ASSIGN=%s UB=%s FOLD=%s\n" id (string_of_outcome (M.rt_assign tl old e))
            (b01 (ub_of e')) f))
  | "X" :: id :: rest ->
    let (dx, _) = parse_sx rest in
    (match M.decl_indices (decls_of dx) with
     | M.DOk ls ->
       Printf.printf "%s IDX=OK %s\n" id
         (String.concat ";" (List.map (fun l -> String.concat "," (List.map string_of_z l)) ls))
     | M.DBad ((en, pos), why) ->
       Printf.printf "%s IDX=BAD %d %d %s\n" id (int_of_nat en) (int_of_nat pos) (string_of_xres why)
     | M.DDup ((en, pos), z) ->
       Printf.printf "%s IDX=DUP %d %d %s\n" id (int_of_nat en) (int_of_nat pos) (string_of_z z))
  | "S" :: id :: rest ->
    let (lx, _) = parse_sx rest in
    let txt = match lx with
      | List [Atom "L"; Atom "i"; Atom n] | List [Atom "L"; Atom "l"; Atom n] ->
        ocaml_string (M.fmt_int (z_of_string n))
      | List [Atom "L"; Atom "f"; Atom n] -> ocaml_string (M.fmt_fixed2 M.b32 (z_of_string n))
      | List [Atom "L"; Atom "d"; Atom n] -> ocaml_string (M.fmt_fixed2 M.b64 (z_of_string n))
      | _ -> failwith "bad lit" in
    Printf.printf "%s TEXT=%s\n" id txt
  | _ -> Printf.printf "? bad line\n"

let () =
  (try
     while true do
       let line = input_line stdin in
       (try do_line line with Failure m -> Printf.printf "? error %s in %s\n" m line)
     done
   with End_of_file -> ());
  flush stdout
