(* shrink — all programs obtained from a program by ONE local simplification (drop a function,
   drop an item, drop a catch clause, replace an expression by one of its operands or by a
   literal).  checks/parts/evaldiff.py runs them through the real compiler and the evaluator and
   keeps the smallest one on which the two still disagree, until none is left.  Candidates that
   are ill-typed or do not terminate are filtered by the compiler (COMPILE_ERROR) and by the
   evaluator (STUCK / FUEL). *)
open Evalmodel
open Conv

let ei k = EInt (z_of_int k)

type guess = GInt | GBool | GAny

let guess = function
  | EInt _ | ENeg _ | EBNot _ | EPrint _ | EWhile _ | EDoWhile _ | EFor _ | EForInRange _ | EForInArr _ | EIf _ -> GInt
  | EBool _ | ENot _ -> GBool
  | EBin (op, _, _) ->
    (match op with
     | Add | Sub | Mul | Div | Mod | BAnd | BOr | BXor | Shl | Shr -> GInt
     | _ -> GBool)
  | ELambda _ | EArrLit _ | ERecNew _ | ERecNil _ -> GAny
  | _ -> GAny

let literals e =
  match e with
  | EInt _ | EBool _ | ERecNil _ | ELambda _ | EArrLit _ | ERecNew _ -> []
  | _ ->
    (match guess e with
     | GInt -> [ei 0; ei 1]
     | GBool -> [EBool true; EBool false]
     | GAny -> [ei 0; ei 1; EBool true; EBool false])

let rec drop_nth l n = match l with [] -> [] | x :: t -> if n = 0 then t else x :: drop_nth t (n - 1)
let replace_nth l n y = List.mapi (fun i x -> if i = n then y else x) l

(* variants of one element of a list, rebuilt into lists *)
let in_list (variants : 'a -> 'a list) (l : 'a list) : 'a list list =
  List.concat (List.mapi (fun i x -> List.map (fun x' -> replace_nth l i x') (variants x)) l)

let rec expr (e : expr) : expr list =
  let local =
    (match e with
     | EBin (_, a, b) -> [a; b]
     | ECond (_, a, b) -> [a; b]
     | EIf (_, a) -> [a]
     | EPrint a | ENeg a | ENot a | EBNot a -> [a]
     | ECall (_, args) -> args
     | EBlock [IExpr x] -> [x]
     | EAssign (_, r) -> [r]
     | EArrLit (es, t) when List.length es > 1 -> List.mapi (fun i _ -> EArrLit (drop_nth es i, t)) es
     | _ -> []) @ literals e in
  let deep =
    match e with
    | EInt _ | EBool _ | EVar _ | ERecNil _ -> []
    | ENeg a -> List.map (fun x -> ENeg x) (expr a)
    | ENot a -> List.map (fun x -> ENot x) (expr a)
    | EBNot a -> List.map (fun x -> EBNot x) (expr a)
    | EPrint a -> List.map (fun x -> EPrint x) (expr a)
    | EField (a, r, p) -> List.map (fun x -> EField (x, r, p)) (expr a)
    | EBin (op, a, b) -> List.map (fun x -> EBin (op, x, b)) (expr a) @ List.map (fun x -> EBin (op, a, x)) (expr b)
    | EIf (a, b) -> List.map (fun x -> EIf (x, b)) (expr a) @ List.map (fun x -> EIf (a, x)) (expr b)
    | EAssign (a, b) -> List.map (fun x -> EAssign (x, b)) (expr a) @ List.map (fun x -> EAssign (a, x)) (expr b)
    | EWhile (a, b) -> List.map (fun x -> EWhile (a, x)) (expr b)
    | EDoWhile (a, b) -> List.map (fun x -> EDoWhile (x, b)) (expr a)
    | EIndex (a, b) -> List.map (fun x -> EIndex (x, b)) (expr a) @ List.map (fun x -> EIndex (a, x)) (expr b)
    | ECond (a, b, c) ->
      List.map (fun x -> ECond (x, b, c)) (expr a) @ List.map (fun x -> ECond (a, x, c)) (expr b)
      @ List.map (fun x -> ECond (a, b, x)) (expr c)
    | EFor (a, b, c, d) -> List.map (fun x -> EFor (a, b, c, x)) (expr d)
    | EForInRange (v, a, b, d) ->
      List.map (fun x -> EForInRange (v, x, b, d)) (expr a) @ List.map (fun x -> EForInRange (v, a, x, d)) (expr b)
      @ List.map (fun x -> EForInRange (v, a, b, x)) (expr d)
    | EForInArr (v, a, d) ->
      List.map (fun x -> EForInArr (v, x, d)) (expr a) @ List.map (fun x -> EForInArr (v, a, x)) (expr d)
    | ECall (f, args) -> List.map (fun x -> ECall (x, args)) (expr f) @ List.map (fun l -> ECall (f, l)) (in_list expr args)
    | EArrLit (es, t) -> List.map (fun l -> EArrLit (l, t)) (in_list expr es)
    | ERecNew (r, es) -> List.map (fun l -> ERecNew (r, l)) (in_list expr es)
    | EBlock its -> List.map (fun l -> EBlock l) (items its)
    | ELambda fd -> List.map (fun x -> ELambda x) (fdef fd) in
  local @ deep

and item = function
  | ILet (x, e) -> List.map (fun e' -> ILet (x, e')) (expr e)
  | IVar (x, e) -> List.map (fun e' -> IVar (x, e')) (expr e)
  | IFunc fd -> List.map (fun fd' -> IFunc fd') (fdef fd)
  | IExpr e -> List.map (fun e' -> IExpr e') (expr e)

and items (its : item list) : item list list =
  let n = List.length its in
  let drops = List.concat (List.mapi (fun i _ -> if i < n - 1 then [drop_nth its i] else []) its) in
  drops @ in_list item its

and fdef (FDef (name, params, ret, body, catches, call)) : fdef list =
  let mk b c a = FDef (name, params, ret, b, c, a) in
  List.map (fun b -> mk b catches call) (items body)
  @ List.mapi (fun i _ -> mk body (drop_nth catches i) call) catches
  @ (match call with Some _ -> [mk body catches None] | None -> [])
  @ List.concat (List.mapi (fun i (ex, h) ->
      List.map (fun h' -> mk body (replace_nth catches i (ex, h')) call) (items h)) catches)
  @ (match call with Some h -> List.map (fun h' -> mk body catches (Some h')) (items h) | None -> [])

let program (p : program) : program list =
  let n = List.length p.p_funcs in
  let drops = List.concat (List.mapi (fun i fd ->
      if fd_name fd = p.p_main || n <= 1 then [] else [{ p with p_funcs = drop_nth p.p_funcs i }]) p.p_funcs) in
  let rdrops = List.mapi (fun i _ -> { p with p_recs = drop_nth p.p_recs i }) p.p_recs in
  drops @ rdrops @ List.map (fun l -> { p with p_funcs = l }) (in_list fdef p.p_funcs)

(* a signature of a (minimised) program: the kinds of nodes it still contains *)
let signature (p : program) : string =
  let h = Stats.program p in
  let keys = Hashtbl.fold (fun k _ acc ->
      if String.length k >= 1 && (k.[0] = 'E' || (String.length k > 6 && String.sub k 0 6 = "catch.")) then k :: acc else acc) h [] in
  let drop = ["EInt"; "EVar"; "EBool"; "EBlock"; "EInt.big"] in
  String.concat "+" (List.sort compare (List.filter (fun k -> not (List.mem k drop)) keys))
