(* C05 — the compiler is total: for every byte sequence compilation terminates and either
   succeeds without `error:` diagnostic or returns non-zero after a `file:line: error:`
   diagnostic; it never crashes, hangs or touches invalid memory.

   PARTIAL BY NATURE (DESIGN.md §5, §11): there is no formal semantics of the C front end
   here.  Proved below are the three logic slices an executable model can carry; crash- and
   hang-freedom of scanner/parser/typechecker on arbitrary bytes is observed by the search of
   checks/c05.py (sanitizer build, time-out, the extracted classifier), never proved.
   Only statements here; every proof is `exact <lemma>`. *)
From Coq Require Import ZArith NArith List Bool.
From NV Require Import Gen.FrontConsts.
From NV Require Import Front.MsgBuf Front.MsgBufProofs Front.MsgBufPinned.
From NV Require Import Front.UseStack Front.UseStackProofs.
From NV Require Import Front.Outcome Front.OutcomeProofs.
Import ListNotations.

(* ---- slice 1: print_msg (back/utils.c) ------------------------------------------------- *)

(* the executable test run against ASan's verdict means "every written offset is inside msg_buf" *)
Theorem msg_within_buffer_spec : forall p b, (0 <= p)%Z -> (0 <= b)%Z ->
  (within_buffer p b = true <-> writes_within_buffer p b).
Proof. exact MsgBufProofs.within_buffer_spec. Qed.
Print Assumptions msg_within_buffer_spec.

(* for a prefix of length p, print_msg is safe for every body length iff the size handed to
   vsnprintf fits what is left of the buffer (generic in the regenerated size expressions) *)
Theorem msg_write_safe_criterion : forall p, (0 <= p)%Z ->
  ((forall b, (0 <= b)%Z -> writes_within_buffer p b) <-> safe_at p = true).
Proof. exact MsgBufProofs.msg_write_safe_criterion. Qed.
Print Assumptions msg_write_safe_criterion.

(* msg_write_within_buffer, decided for the current tree by computation: either all
   diagnostics whose prefix fits are written inside the buffer, or a concrete pair overflows *)
Theorem msg_write_within_buffer_verdict :
  match msg_overflow_witness with
  | None => forall p b, (0 <= p < MSG_BUF_SIZE)%Z -> (0 <= b)%Z -> writes_within_buffer p b
  | Some (p, b) => (0 <= p < MSG_BUF_SIZE)%Z /\ (0 <= b)%Z /\ ~ writes_within_buffer p b
  end.
Proof. exact MsgBufProofs.msg_write_within_buffer_verdict. Qed.
Print Assumptions msg_write_within_buffer_verdict.

(* msg_write_within_buffer, for the current tree and ALL prefix and body lengths (the prefix may
   be longer than the buffer: module names are not bounded): every write stays inside msg_buf *)
Theorem msg_write_within_buffer : forall p b, (0 <= p)%Z -> (0 <= b)%Z -> writes_within_buffer p b.
Proof. exact MsgBufPinned.msg_write_within_buffer. Qed.
Print Assumptions msg_write_within_buffer.

(* the arithmetic print_msg had before the fix commit (vsnprintf given MAX_MSG_SIZE whatever
   msg_len is) overruns the buffer: prefix "<stdin>:1: error: " (18) and a 1100-character body.
   Kept so that the statement above is seen to discriminate; this witness was replayed on the real
   compiler under ASan (1100-character identifier) while the tree still had that arithmetic. *)
Theorem msg_unbounded_body_limit_refuted :
  exists p b, (0 <= p < MSG_BUF_SIZE)%Z /\ (0 <= b)%Z /\
              within_buffer_with (fun _ => MAX_MSG_SIZE) p b = false.
Proof. exact MsgBufPinned.msg_unbounded_body_limit_refuted. Qed.
Print Assumptions msg_unbounded_body_limit_refuted.

(* ---- slice 2: the `use` include stack (front/scanner.l) ------------------------------------ *)

Theorem use_depth_bounded : forall evs,
  let s := use_run evs in
  (u_term s = false -> (0 <= u_ptr s <= MAX_USE_DEPTH)%Z) /\
  (u_term s = true -> (u_ptr s <= -1)%Z) /\
  (forall i, In i (u_access s) -> (0 <= i < USE_STACK_SIZE)%Z) /\
  NoDup (u_opened s).
Proof. exact UseStackProofs.use_depth_bounded. Qed.
Print Assumptions use_depth_bounded.

(* ---- slice 3: the outcome classifier (the oracle of the search) ----------------------------- *)

Theorem outcome_classifier_total : forall ret ls,
  classify ret ls = VOk \/ classify ret ls = VDiagnosed \/ classify ret ls = VInconsistent.
Proof. exact OutcomeProofs.classify_total. Qed.
Print Assumptions outcome_classifier_total.

Theorem outcome_classifier_correct : forall ret ls,
  (classify ret ls = VOk <-> SpecOk ret ls) /\
  (classify ret ls = VDiagnosed <-> SpecDiagnosed ret ls) /\
  (classify ret ls = VInconsistent <-> ~ SpecOk ret ls /\ ~ SpecDiagnosed ret ls) /\
  ~ (SpecOk ret ls /\ SpecDiagnosed ret ls).
Proof. exact OutcomeProofs.outcome_classifier_correct. Qed.
Print Assumptions outcome_classifier_correct.

(* hypotheses are satisfiable / the definitions are not vacuous *)
Example c05_ex_use : u_ptr (use_run [EUse 1 true; EUse 2 false; EEof]) = 0%Z.
Proof. reflexivity. Qed.
Example c05_ex_msg_safe : within_buffer 18 1005 = true /\ within_buffer 18 100000 = true.
Proof. split; vm_compute; reflexivity. Qed.
