(* Specification-level notions for C12 (definitions only): what a tuple of indices, a range
   and a composition of ranges *denote*, independently of how the C code computes them. *)
From Coq Require Import ZArith List Bool.
From NV Require Import Index.W32.
Import ListNotations.
Local Open Scope Z_scope.

(* true (unbounded) product of the extents *)
Fixpoint prodZ (l : list Z) : Z :=
  match l with [] => 1 | n :: t => n * prodZ t end.

(* row-major element number: sum_k i_k * prod_{j>k} n_j *)
Fixpoint row_major (exts idx : list Z) : Z :=
  match exts, idx with
  | _ :: ns, i :: is => i * prodZ ns + row_major ns is
  | _, _ => 0
  end.

(* the index tuple is in range in every dimension *)
Fixpoint in_range (exts idx : list Z) : Prop :=
  match exts, idx with
  | [], [] => True
  | n :: ns, i :: is => 0 <= i < n /\ in_range ns is
  | _, _ => False
  end.

(* lexicographic order on index tuples: the first differing index decides *)
Fixpoint lex_lt (i1 i2 : list Z) : Prop :=
  match i1, i2 with
  | a :: r1, b :: r2 => a < b \/ (a = b /\ lex_lt r1 r2)
  | _, _ => False
  end.

(* extents as the VM can create them: MK_ARRAY takes `int e > 0`, literals have >= 1 element *)
Definition ext_ok (n : Z) : Prop := 0 < n < two31.

(* k-th dimension (nat) of a tuple, default 0 *)
Definition nthZ (l : list Z) (k : nat) : Z := nth k l 0.

(* a range [a..b] has both ends inclusive; it runs upwards when a < b, downwards otherwise *)
Definition range_len (a b : Z) : Z := Z.abs (b - a) + 1.
Definition range_nth (a b k : Z) : Z := if a <? b then a + k else a - k.
Definition range_lo (a b : Z) : Z := Z.min a b.
Definition range_hi (a b : Z) : Z := Z.max a b.

(* the positions a range denotes, in iteration order *)
Definition range_positions (a b : Z) : list Z :=
  map (fun k => range_nth a b (Z.of_nat k)) (seq 0 (Z.to_nat (range_len a b))).

(* per-dimension versions *)
Fixpoint idx_in_ranges (r : list (Z * Z)) (idx : list Z) : Prop :=
  match r, idx with
  | [], [] => True
  | (a, b) :: tr, i :: ti => 0 <= i < range_len a b /\ idx_in_ranges tr ti
  | _, _ => False
  end.

Fixpoint ranges_nth (r : list (Z * Z)) (idx : list Z) : list Z :=
  match r, idx with
  | (a, b) :: tr, i :: ti => range_nth a b i :: ranges_nth tr ti
  | _, _ => []
  end.

Definition range_s32 (r : list (Z * Z)) : Prop :=
  Forall (fun p => is_s32 (fst p) /\ is_s32 (snd p)) r.

(* both inner bounds are valid indices of the outer range, in every dimension *)
Fixpoint inner_within (r1 r2 : list (Z * Z)) : Prop :=
  match r1, r2 with
  | (a, b) :: t1, (c, d) :: t2 =>
      0 <= c < range_len a b /\ 0 <= d < range_len a b /\ inner_within t1 t2
  | _, _ => True
  end.
