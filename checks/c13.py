"""C13 — self tail calls run in constant stack.

Decided by (Properties_C13.v): tail_call_keeps_frame, stack_bounded_by_open_calls,
stack_bounded_by_nontail_calls, tail_call_constant_stack(_open) — corollaries of C07's
verify_depth for the stack-shape machine — and the model of front/tailrec.c
(tailrec_marks_characterised / _only_tail_positions / _all_direct_tail_self_calls /
_ignores_catch_clauses).

Tie to /repo (tree built by bin/repobuild):
 (1) every program of the generated family (harness/c13/gen.py: self tail calls directly, through
     ?:, if/else, nested blocks with locals, ( ), match arms on item and record guards, if-let,
     |>, inside nested functions capturing variables, with catch clauses, 1..6 parameters of type
     int/float/string/record/array; non-tail, sibling and deliberately skipped variants) is compiled
     by the tree's compiler; the module is decided by the extracted C07 verifier and a short run
     is replayed in lock-step on the shape machine;
 (2) the call sites compiled as tail transfers (CALL preceded by SLIDE m>=1 and targeted by no
     MARK), identified by the literal tag each call passes, must be exactly the calls marked by
     the extracted model `tail_calls` on the shape of the same function;
 (3) property oracle on the real VM (hook H1, bcdump --peak): at N and 10N (N >> stack size) the
     run must not die of "stack too large", peak sp and peak frame count must be equal at N and
     10N, peak sp + 1 must respect the bound computed from the verifier's MAXDEPTH, the result
     must equal the python reference value and the result of the equivalent while loop;
     non-tail variants must grow and still be right.
"""
import collections
import glob
import json
import os
import re
import subprocess
import sys

from lib import common, vmcheck

LEVEL = "proof"

sys.path.insert(0, os.path.join(common.VERIF, "harness", "c13"))
import gen  # noqa: E402

STACK = 200
MAXV = 6          # at most this many VIOLATION lines


def call_sites(d, names):
    """[(addr, tag | None, is_tail, q, m, owner address)] for every CALL of the module"""
    code = d["code"]
    nm = [names[c[0]] if c[0] < len(names) else "?" for c in code]
    marks = set(c[1] for c, n in zip(code, nm) if n == "BYTECODE_MARK")
    starts = sorted(f[0] for f in d["funcs"])
    out = []
    own = 0
    si = 0
    for a in range(len(code)):
        while si < len(starts) and starts[si] <= a:
            own = starts[si]
            si += 1
        if nm[a] != "BYTECODE_CALL":
            continue
        j = a - 1
        tail, q, m = False, None, None
        if j >= 0 and nm[j] == "BYTECODE_SLIDE":
            q, m = code[j][1], code[j][2]
            tail = m >= 1 and (a + 1) not in marks
            j -= 1
        if j >= 0 and nm[j] == "BYTECODE_ID_FUNC_ADDR":
            j -= 2
        elif j >= 0 and nm[j] in ("BYTECODE_ID_LOCAL", "BYTECODE_ID_GLOBAL", "BYTECODE_ID_TOP",
                                  "BYTECODE_ID_FUNC_ENTRY"):
            j -= 1
        else:
            j = -1
        # a piped tuple: INT tag; RECORD k; VECREF_DEREF; RECORD_UNPACK k; <callee>
        if j >= 2 and nm[j] == "BYTECODE_RECORD_UNPACK" and nm[j - 1] == "BYTECODE_VECREF_DEREF" and nm[j - 2] == "BYTECODE_RECORD":
            j -= 3
        tag = None
        if j >= 0 and nm[j] == "BYTECODE_INT" and code[j][1] > gen.TAG0:
            tag = code[j][1]
        out.append((a, tag, tail, q, m, own))
    return out


def run_peak(tools, path, args, stack, max_steps=400000000, timeout=120):
    cmd = [tools.bcdump, "--peak", "--nocode", "--max-steps", str(max_steps), "--stack", str(stack)]
    for a in args:
        cmd += ["--arg", str(a)]
    cmd.append(path)
    try:
        p = subprocess.run(cmd, stdout=subprocess.PIPE, stderr=subprocess.PIPE, stdin=subprocess.DEVNULL,
                           timeout=timeout, env=getattr(tools, "env", None) or vmcheck.ENV)
    except subprocess.TimeoutExpired:
        return {"status": "timeout", "cmd": " ".join(cmd)}
    so, se = p.stdout.decode(errors="replace"), p.stderr.decode(errors="replace")
    r = {"status": "?", "rc": p.returncode, "stderr": se[-300:], "cmd": " ".join(cmd)}
    for l in so.splitlines():
        if l.startswith("PEAK"):
            m = re.match(r"PEAK sp=(-?\d+) maxdepth=(\d+) steps=(\d+)", l)
            if m:
                r["sp"], r["frames"], r["steps"] = int(m.group(1)), int(m.group(2)), int(m.group(3))
        elif l.startswith("END"):
            r["end"] = " ".join(l.split()[1:4])
        elif l.startswith("COMPILE"):
            r["compile"] = int(l.split()[1])
    if "stack too large" in se or "stack too large" in so:
        r["status"] = "stack-too-large"
    elif "end" in r:
        r["status"] = "budget" if r["end"].startswith("budget") else "end"
    else:
        r["status"] = "died rc=%d" % p.returncode
    return r


def _expected_worker(job):
    """reference values of the programs i = r mod k of the family (own process: the python
    interpretation of 10N iterations is the slowest part of the check)"""
    seed, nrandom, r, k, ns_tail, ns_other = job
    progs = gen.family(seed, nrandom)
    out = {}
    for i, p in enumerate(progs):
        if i % k == r:
            out[i] = [p.expected(n) for n in (ns_tail if p.kind == "tail" else ns_other)]
    return out


def expected_values(seed, nrandom, ns_tail, ns_other, workers=16):
    from concurrent.futures import ProcessPoolExecutor
    res = {}
    with ProcessPoolExecutor(workers) as ex:
        for part in ex.map(_expected_worker, [(seed, nrandom, r, workers, ns_tail, ns_other) for r in range(workers)]):
            res.update(part)
    return res


def verify_retry(tools, dump, **kw):
    """tools.verify, tolerant of the runner being re-linked by a concurrent build"""
    import time
    for attempt in range(30):
        try:
            return tools.verify(dump, **kw)
        except OSError:
            time.sleep(1.0)
    return tools.verify(dump, **kw)


def fkey(shape_id):
    """short stable form of a shape id for violation keys"""
    s = re.sub(r"[^A-Za-z0-9_,()|:-]", "", shape_id)
    return s if len(s) <= 90 else s[:70] + "~" + format(abs(hash_str(s)) % 0xFFFFFF, "06x")


def hash_str(s):
    h = 0
    for ch in s:
        h = (h * 131 + ord(ch)) & 0xFFFFFFFF
    return h


def run(ctx):
    ctx.proofs()
    tools = vmcheck.VmTools("plain")
    # the generated modules (layouts `use` / `module`) live beside the generated programs
    tools.env = dict(vmcheck.ENV, NEVER_PATH=tools.tmp + ":" + vmcheck.ENV["NEVER_PATH"])
    ok, log = common.ocaml_build("tailrec")
    if not ok:
        raise common.BuildError("ocaml build (tailrec) failed:\n" + log[-3000:])
    trun = os.path.join(common.BUILD, "ocaml", "tailrec", "run")
    names = vmcheck.opcode_names()
    quick = ctx.tier == "quick"
    N1, N2 = (5000, 50000) if quick else (30000, 300000)
    nrandom = 70 if quick else 400
    stats = collections.Counter()
    dist = collections.Counter()
    nviol = [0]

    def violation(key, what, replay):
        if nviol[0] < MAXV or any(k.get("key") == key for k in ctx.known):
            nviol[0] += 1
            ctx.violation(key, what, replay)
        else:
            stats["violations_not_listed"] += 1

    # ---------------------------------------------------------------- corpus (regression inputs)
    for jf in sorted(glob.glob(os.path.join(common.VERIF, "corpus", "C13", "*.json"))):
        spec = json.load(open(jf))
        src = jf[:-5] + ".nev"
        ctx.count(evaluations=1)
        stats["corpus"] += 1
        dump, rc, err = tools.dump("corpus_" + os.path.basename(src), src, os.path.dirname(src), trace=False)
        d = vmcheck.read_dump(dump)
        if d["compile"] != 0:
            ctx.correspondence_broken("corpus:%s does not compile" % os.path.basename(src), {"stderr": err})
            continue
        sites = call_sites(d, names)
        byname = collections.Counter()
        fname = {f[0]: f[4] for f in d["funcs"]}
        for (a, tag, tail, q, m, own) in sites:
            if tail:
                byname[fname.get(own, "?")] += 1
        r = run_peak(tools, src, spec.get("args", []), spec.get("stack", STACK))
        good = r.get("end") == spec["expect"] and all(byname[k] == v for k, v in spec.get("tail_transfers_in", {}).items())
        v = verify_retry(tools, dump)
        if not good:
            violation(spec["key"], "%s: %s — expected END %s with tail transfers %s, observed %s (status %s) with %s" % (
                os.path.basename(src), spec["what"], spec["expect"], spec.get("tail_transfers_in"), r.get("end"), r["status"], dict(byname)),
                {"program": open(src).read(), "args": spec.get("args", []), "stack": spec.get("stack", STACK),
                 "expected": spec["expect"], "observed": r, "tail_transfers": dict(byname), "verify": v["verify"]})
        elif not v["verify"].startswith("VERIFY ok"):
            ctx.correspondence_broken("verify(corpus:%s)" % os.path.basename(src), {"verify": v["verify"]})
        else:
            stats["corpus_ok"] += 1

    # ---------------------------------------------------------------- generated family
    progs = gen.family(ctx.seed, nrandom)
    for i, p in enumerate(progs):
        p.idx = i
        p.path = os.path.join(tools.tmp, "c13_%04d.nev" % i)
        p.src = p.text()
        # placement of the function under test in the compilation units (front/tailrec.c never_tailrec walks
        # the main file, its `use`d modules and their imports): plain file / a file with a `use` clause /
        # inside a module that itself imports a module
        p.layout = ("plain", "use", "module", "module-first-of-two-uses", "module-last-of-two-uses")[i % 5]
        if p.layout == "use":
            p.src = "use ctaux\n\n" + p.src
        elif p.layout.startswith("module"):
            mod = "ctm" + "".join(chr(ord("a") + int(c)) for c in "%04d" % i)
            body = p.src.replace("func main(n : int, w : int) -> int", "func entry(n : int, w : int) -> int")
            with open(os.path.join(tools.tmp, mod + ".nev"), "w") as f:
                f.write("module %s {\nuse ctaux\n\n%s\n}\n" % (mod, body))
            p.module_src = body
            uses = {"module": "use %s\n" % mod, "module-first-of-two-uses": "use %s\nuse ctother\n" % mod,
                    "module-last-of-two-uses": "use ctother\nuse %s\n" % mod}[p.layout]
            p.src = "%s\nfunc main(n : int, w : int) -> int\n{\n    %s.entry(n, w)\n}\n" % (uses, mod)
        with open(p.path, "w") as f:
            f.write(p.src)
        p.shape_list = p.shapes()
    with open(os.path.join(tools.tmp, "ctother.nev"), "w") as f:
        f.write("module ctother {\n    func twice(x : int) -> int { x + x }\n}\n")
    with open(os.path.join(tools.tmp, "ctaux.nev"), "w") as f:
        f.write("module ctaux {\n    func step(x : int) -> int { x + 1 }\n}\n")

    # model: one batch through the extracted tail_calls
    lines = []
    for p in progs:
        for key, nid, sh in p.shape_list:
            lines.append("%d:%s %d %s" % (p.idx, key, nid, sh))
    mp = subprocess.run([trun], input="\n".join(lines) + "\n", stdout=subprocess.PIPE, stderr=subprocess.PIPE,
                        universal_newlines=True, timeout=300)
    model_marks = collections.defaultdict(dict)       # prog idx -> func key -> set(path)
    for l in mp.stdout.splitlines():
        k, _, rest = l.partition(" ")
        pi, _, fk = k.partition(":")
        if rest.startswith("!"):
            ctx.correspondence_broken("model-input(%s)" % k, {"line": l})
            continue
        model_marks[int(pi)][fk] = set() if rest.strip() == "-" else set(rest.strip().split(";"))

    SMALL = 25
    expv = expected_values(ctx.seed, nrandom, [SMALL, N1, N2], [SMALL, 20, 40])

    def one(p):
        res = {"p": p, "problems": []}
        args_small = [SMALL, 0]
        dump, rc, err = tools.dump("c13_%d" % p.idx, p.path, tools.tmp, trace=True, max_steps=200000,
                                   extra=["--stack", "4000"] + sum((["--arg", str(a)] for a in args_small), []))
        d = vmcheck.read_dump(dump)
        res["compile"] = d["compile"]
        if d["compile"] != 0:
            res["err"] = err
            return res
        res["sites"] = call_sites(d, names)
        res["funcs"] = d["funcs"]
        res["small_end"] = " ".join(d["end"].split()[1:4]) if d["end"] else None
        # tail transfers of the short run: CALL executed with fp == pp
        tt = 0
        for t in d["trace"]:
            if names[d["code"][t[0]][0]] == "BYTECODE_CALL" and t[2] == t[3] and t[2] >= 0:
                tt += 1
        res["small_tail_transfers"] = tt
        res["verify"] = verify_retry(tools, dump, max_steps=200000)
        try:
            os.unlink(dump)
        except OSError:
            pass
        if p.kind == "tail":
            res["t1"] = run_peak(tools, p.path, [N1, 0], STACK)
            res["t2"] = run_peak(tools, p.path, [N2, 0], STACK)
            if p.has_loop:
                res["w1"] = run_peak(tools, p.path, [N1, 1], STACK)
                res["w2"] = run_peak(tools, p.path, [N2, 1], STACK)
        else:
            res["t1"] = run_peak(tools, p.path, [20, 0], 4000)
            res["t2"] = run_peak(tools, p.path, [40, 0], 4000)
        res["e0"], res["e1"], res["e2"] = expv[p.idx]
        return res

    results = vmcheck.pmap(one, progs)
    constant_shapes = set()
    slide_q = collections.Counter()
    samples = []
    for res in results:
        p = res["p"]
        ctx.count(evaluations=1)
        stats["programs"] += 1
        dist["kind:" + p.kind] += 1
        for _, t in p.fn.params:
            dist["param:" + t] += 1
        dist["nparams:%d" % (len(p.fn.params) + 1)] += 1
        if p.wrapper:
            dist["nested"] += 1
        if p.fn.catches:
            dist["catch-clauses"] += 1
        for w in re.findall(r"[a-z_]+(?=\d*\()", p.shape_id):
            dist["form:" + w] += 1
        for c in p.cx.calls.values():
            dist["callsite:%s:%s" % (p.kind if p.kind != "tail" else "tail", c["form"])] += 1
        replay = {"program": p.src, "layout": p.layout, "module_files": (
                      {"ctaux.nev": "module ctaux {\n    func step(x : int) -> int { x + 1 }\n}\n"} if p.layout != "plain" else {}),
                  "module_body": getattr(p, "module_src", None), "shape": p.shape_id, "stack": STACK,
                  "how": "bin/repobuild plain; bcdump --peak --nocode --stack S --arg N --arg 0 FILE (w=1: loop version)"}
        if res["compile"] != 0:
            ctx.correspondence_broken("generator: program does not compile (%s)" % p.shape_id,
                                      {"program": p.src, "stderr": res.get("err")})
            stats["not_compiled"] += 1
            continue
        # ---- (2) call sites: code vs model vs construction
        calls = p.cx.calls
        code_tail = set(t for (a, t, tail, q, m, own) in res["sites"] if t is not None and tail)
        code_seen = set(t for (a, t, tail, q, m, own) in res["sites"] if t is not None)
        user0 = min(f[0] for f in res["funcs"] if f[4] == "sel")
        untagged_tail = [a for (a, t, tail, q, m, own) in res["sites"] if tail and t is None and own >= user0]
        model_tail = set()
        for t, c in calls.items():
            if c["path"] in model_marks[p.idx].get(c["func"], set()):
                model_tail.add(t)
        stray = sum(len(v) for v in model_marks[p.idx].values()) - len(model_tail)
        intended = set(t for t, c in calls.items() if p.kind == "tail" and c["func"] == p.fn.name)
        for (a, t, tail, q, m, own) in res["sites"]:
            if tail and t is not None:
                npar = [f[1] for f in res["funcs"] if f[0] == own]
                slide_q["q-nparams=%d" % (q - (npar[0] if npar else 0))] += 1
        site_ok = True
        if set(calls) - code_seen or (code_seen - set(calls) - {p.main_tag}):
            site_ok = False
            ctx.correspondence_broken("call-site tags not found in the emitted code (%s)" % p.shape_id,
                                      {"program": p.src, "missing": sorted(set(calls) - code_seen),
                                       "unknown": sorted(code_seen - set(calls) - {p.main_tag})})
        if model_tail != intended or stray:
            site_ok = False
            ctx.correspondence_broken("model tail_calls vs generator's tail positions (%s)" % p.shape_id,
                                      {"program": p.src, "model": sorted(model_tail), "intended": sorted(intended), "stray_marks": stray})
        if code_tail != model_tail or untagged_tail:
            site_ok = False
            stats["marking_mismatch"] += 1
            ctx.correspondence_broken(
                "tailrec.c/emit.c vs Src/Tailrec.v: tail-call sites differ (%s)" % p.shape_id,
                {"program": p.src, "code_tail_sites": sorted(code_tail), "model_tail_sites": sorted(model_tail),
                 "untagged_tail_transfers_at": untagged_tail,
                 "sites": {str(t): calls[t] for t in sorted(code_tail ^ model_tail) if t in calls}})
            extra = sorted(code_tail - model_tail)
            if extra and extra[0] in calls and p.kind != "tail":
                pass    # the run below decides (wrong result / no growth)
        # ---- verifier + lock-step of the short run
        ver = res["verify"]
        if not ver["verify"].startswith("VERIFY ok"):
            stats["verify_fail"] += 1
            ctx.correspondence_broken("verify(%s)" % p.shape_id, {"program": p.src, "verify": ver["verify"],
                                                                  "note": "the proved C07 validator rejects this module"})
        if ver["lockstep"].startswith("LOCKSTEP crash"):
            violation("tailcall:frame-discipline:" + fkey(p.shape_id),
                      "real run of a generated %s program leaves the frame discipline: %s" % (p.kind, ver["lockstep"]),
                      dict(replay, args=[SMALL, 0], lockstep=ver["lockstep"], verify=ver["verify"]))
        elif not ver["lockstep"].startswith("LOCKSTEP ok"):
            stats["lockstep_not_ok"] += 1
            ctx.correspondence_broken("shape-machine-vs-vm(%s)" % p.shape_id, {"program": p.src, "lockstep": ver["lockstep"]})
        t1, t2 = res["t1"], res["t2"]
        e1, e2 = "0 int %d" % res["e1"], "0 int %d" % res["e2"]
        small_ok = res["small_end"] == "0 int %d" % res["e0"]
        if p.kind == "tail":
            n1, n2 = N1, N2
            bad = None
            for (tn, t, e) in ((n1, t1, e1), (n2, t2, e2)):
                if t["status"] == "stack-too-large":
                    bad = ("stack-grows", "the VM stack of %d slots overflows (\"stack too large\") at N = %d: the stack grows with the iteration count" % (STACK, tn), tn, t)
                    break
                if t["status"] != "end":
                    bad = ("run-dies", "the run ends abnormally (%s) at N = %d" % (t["status"], tn), tn, t)
                    break
                if t.get("end") != e:
                    bad = ("wrong-result", "result %s differs from the reference value %s at N = %d" % (t.get("end"), e, tn), tn, t)
                    break
            if bad is None and not small_ok:
                bad = ("wrong-result", "result %s differs from the reference value at N = %d" % (res["small_end"], SMALL), SMALL, {"end": res["small_end"]})
            if bad is None and (t1["sp"] != t2["sp"] or t1["frames"] != t2["frames"]):
                bad = ("stack-grows", "peak sp %d (frames %d) at N = %d but %d (frames %d) at N = %d" % (
                    t1["sp"], t1["frames"], n1, t2["sp"], t2["frames"], n2), n2, t2)
            M = ver["maxdepth"]
            fa = {}
            for f in res["funcs"]:
                fa.setdefault(f[4], f[0])
            bound = None
            if bad is None and ver["verify"].startswith("VERIFY ok"):
                helpers = max([M.get(fa[h], 0) for h in ("sel", "pick", "idf") if h in fa] + [0])
                chain = [0, fa["main"]] + ([fa["drv"]] if p.wrapper else []) + [fa[p.fn.name]]
                bound = sum(M.get(a, 0) for a in chain) + helpers
                lit = (t2["frames"] + 2) * max(M.values())
                if t2["sp"] + 1 > bound or t2["sp"] + 1 > lit:
                    bad = ("above-bound", "peak sp+1 = %d exceeds the bound %d computed from the verifier's MAXDEPTH (chain %s + helper %d; literal theorem bound %d)" % (
                        t2["sp"] + 1, bound, [M.get(a, 0) for a in chain], helpers, lit), n2, t2)
            if bad is None and p.has_loop:
                for (tn, w, t) in ((n1, res["w1"], t1), (n2, res["w2"], t2)):
                    if w["status"] != "end" or w.get("end") != t.get("end"):
                        bad = ("differs-from-loop", "tail-recursive result %s but the equivalent while loop gives %s (%s) at N = %d" % (
                            t.get("end"), w.get("end"), w["status"], tn), tn, w)
                        break
            if bad is not None:
                stats["tail_bad"] += 1
                violation("tailcall:%s:%s" % (bad[0], fkey(p.shape_id)),
                          "self tail call through %s: %s" % (p.shape_id, bad[1]),
                          dict(replay, args=[bad[2], 0], N=bad[2], expected={"end": e1 if bad[2] == n1 else e2, "peak": "equal at N and 10N", "bound": bound},
                               observed=bad[3], observed_N1=t1, observed_N2=t2))
            elif site_ok and code_tail == intended and res["small_tail_transfers"] >= SMALL:
                stats["tail_constant"] += 1
                constant_shapes.add(p.shape_id)
                if len(samples) < 5:
                    samples.append({"shape": p.shape_id, "N": [n1, n2], "peak_sp": [t1["sp"], t2["sp"]],
                                    "frames": [t1["frames"], t2["frames"]], "bound": bound, "result": [t1["end"], t2["end"]],
                                    "loop_result": [res["w1"]["end"], res["w2"]["end"]] if p.has_loop else None,
                                    "steps": [t1["steps"], t2["steps"]], "tail_sites": len(code_tail)})
            else:
                stats["tail_ok_but_not_counted"] += 1
        else:
            # non-tail / sibling / skipped: right result, and the stack grows with N
            bad = None
            for (tn, t, e) in ((20, t1, e1), (40, t2, e2)):
                if t["status"] != "end" or t.get("end") != e:
                    bad = ("wrong-result", "result %s (%s) differs from the reference value %s at N = %d" % (t.get("end"), t["status"], e, tn), tn, t)
                    break
            if bad is None and not small_ok:
                bad = ("wrong-result", "result %s differs from the reference value at N = %d" % (res["small_end"], SMALL), SMALL, {"end": res["small_end"]})
            if bad is not None:
                marked = sorted(code_tail)
                kind = "nontail-marked" if marked else "wrong-result"
                violation("tailcall:%s:%s" % (kind, fkey(p.shape_id)),
                          "recursive call NOT in tail position (%s)%s: %s" % (
                              p.shape_id, ", compiled as a tail transfer (SLIDE;CALL, no MARK)" if marked else "", bad[1]),
                          dict(replay, args=[bad[2], 0], N=bad[2], stack=4000, expected={"end": e1 if bad[2] == 20 else e2},
                               observed=bad[3], tail_transfer_sites=marked))
                stats["nontail_bad"] += 1
            elif p.grows and (t2["sp"] - t1["sp"] < 20 or t2["frames"] - t1["frames"] < 20):
                stats["nontail_no_growth"] += 1
                ctx.correspondence_broken("harness sanity: a non-tail variant does not grow the stack (%s)" % p.shape_id,
                                          {"program": p.src, "N20": t1, "N40": t2})
            else:
                stats["nontail_grows"] += 1
                if len(samples) < 7 and stats["nontail_grows"] <= 2:
                    samples.append({"shape": p.shape_id, "N": [20, 40], "peak_sp": [t1["sp"], t2["sp"]],
                                    "frames": [t1["frames"], t2["frames"]], "result": [t1["end"], t2["end"]]})
    tools.close()
    for s in samples:
        ctx.sample(s, limit=8)
    ctx.coverage["distinct_nontrivial"] = len(constant_shapes)
    ctx.coverage["rule"] = (
        "generated family seeded by VERIF_SEED (deterministic part: every tail-propagating form alone and nested, in "
        "top-level and nested capturing functions, with and without catch clauses, the catch-fires case, 8 non-tail/skipped "
        "kinds, sibling recursion; then random compositions). Each tail program runs at N=%d and N=%d on a %d-slot stack "
        "(plus the equivalent while loop) and at N=%d traced in lock-step. distinct_nontrivial = distinct function shapes "
        "(tail structure, parameter types, nesting, catch clauses) whose run performed N tail transfers (every self-call "
        "site is a SLIDE;CALL, results right at all N) with peak sp and frame count equal at N and 10N and within the "
        "verifier's bound" % (N1, N2, STACK, SMALL))
    ctx.coverage["stats"] = dict(stats)
    ctx.coverage["distribution"] = dict(sorted(dist.items()))
    ctx.coverage["slide_q_minus_nparams"] = dict(sorted(slide_q.items()))
    ctx.coverage["N"] = [N1, N2]
    ctx.coverage["stack_size"] = STACK
    ctx.coverage["exhaustive"] = False
    ctx.assumptions += [
        "result equality of tail recursion and loop in general is C02; here it is observed on the generated family",
        "the bound uses the certificates inferred by the (untrusted) OCaml driver and accepted by the proved checker",
        "the python reference evaluation of the generated trees and the generator are unverified glue",
        "call sites are identified by a literal tag passed as first argument of every generated call",
    ]
