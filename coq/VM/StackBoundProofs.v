(* Proofs about the stack-limit model of StackBound.v (property C14).

   no_write_outside_stack           every handler, check-first variant (`checked`)
   no_write_outside_stack_partial   every variant: all handlers except the irregular ones the
                                    variant still has in write-first form
   no_write_outside_stack_refuted   the pinned (write-first) plans do write outside: witnesses
   run_plans_*                      a traced run under a configured size: monotone in the size,
                                    completes iff the size reaches the trace's demand, and under
                                    the check-first variant stops exactly at the first step whose
                                    resulting sp would be >= size
   No axioms. *)
From Coq Require Import ZArith List Bool Lia.
From NV Require Import Gen.Opcodes Verifier.Effect VM.StackBound.
Import ListNotations.
Local Open Scope Z_scope.

(* ---- generic facts about exec_writes ----------------------------------------------------- *)

Lemma exec_ok_net : forall p S sp r, exec_writes S sp p = Ok r -> r = sp + net p.
Proof.
  induction p as [|a p IH]; intros S sp r H; cbn in *.
  - inversion H; lia.
  - destruct a; cbn in *.
    + apply IH in H. lia.
    + destruct (S <=? sp); [discriminate|]. apply IH in H. lia.
    + destruct ((0 <=? sp + off) && (sp + off <? S)); [|discriminate]. apply IH in H. lia.
Qed.

Lemma exec_mono : forall p S S' sp r, S <= S' -> exec_writes S sp p = Ok r -> exec_writes S' sp p = Ok r.
Proof.
  induction p as [|a p IH]; intros S S' sp r HS H; cbn in *; auto.
  destruct a; cbn in *.
  - eauto.
  - destruct (S <=? sp) eqn:E; [discriminate|]. apply Z.leb_gt in E.
    assert (E' : (S' <=? sp) = false) by (apply Z.leb_gt; lia). rewrite E'. eauto.
  - destruct ((0 <=? sp + off) && (sp + off <? S)) eqn:E; [|discriminate].
    apply andb_true_iff in E. destruct E as [E1 E2]. apply Z.ltb_lt in E2.
    assert (E' : (sp + off <? S') = true) by (apply Z.ltb_lt; lia). rewrite E1, E'. cbn. eauto.
Qed.

(* with the operands present, a plan completes exactly when the size reaches its demand *)
Lemma exec_demand : forall p S sp, 0 <= S -> no_underflow sp p = true ->
  (exec_writes S sp p = Ok (sp + net p) <-> demand sp p <= S).
Proof.
  induction p as [|a p IH]; intros S sp HS U; cbn in *.
  - split; intros; [lia | f_equal; lia].
  - destruct a; cbn in *.
    + replace (sp + (d + net p)) with (sp + d + net p) by lia. apply IH; auto.
    + destruct (S <=? sp) eqn:E.
      * apply Z.leb_le in E. split; [discriminate | lia].
      * apply Z.leb_gt in E. rewrite (IH S sp HS U). lia.
    + apply andb_true_iff in U. destruct U as [U1 U2]. rewrite U1. cbn.
      destruct (sp + off <? S) eqn:E.
      * apply Z.ltb_lt in E. rewrite (IH S sp HS U2). lia.
      * apply Z.ltb_ge in E. split; [discriminate | lia].
Qed.

Lemma exec_ok_iff_demand : forall p S sp, 0 <= S -> no_underflow sp p = true ->
  ((exists r, exec_writes S sp p = Ok r) <-> demand sp p <= S).
Proof.
  intros p S sp HS U. rewrite <- (exec_demand p S sp HS U). split.
  - intros [r H]. rewrite H. f_equal. eapply exec_ok_net; eauto.
  - eauto.
Qed.

(* ---- check-first discipline --------------------------------------------------------------- *)

(* g: a value known to be below the configured size (the sp on entry, then every sp that passed
   a check).  Every write is at or below g, and so is the final sp. *)
Fixpoint guarded (g sp : Z) (p : list act) : Prop :=
  match p with
  | [] => sp <= g
  | Bump d :: r => guarded g (sp + d) r
  | Check :: r => guarded (Z.max g sp) sp r
  | Write o :: r => sp + o <= g /\ guarded g sp r
  end.

(* every check looks at an sp that is at most fin *)
Fixpoint checks_below (sp fin : Z) (p : list act) : Prop :=
  match p with
  | [] => True
  | Bump d :: r => checks_below (sp + d) fin r
  | Check :: r => sp <= fin /\ checks_below sp fin r
  | Write _ :: r => checks_below sp fin r
  end.

Lemma guarded_mono : forall p g g' sp, g <= g' -> guarded g sp p -> guarded g' sp p.
Proof.
  induction p as [|a p IH]; intros g g' sp Hg H; cbn in *; [lia|].
  destruct a; cbn in *.
  - eauto.
  - eapply IH; [|exact H]. lia.
  - destruct H as [H1 H2]. split; [lia|eauto].
Qed.

Lemma guarded_exec : forall p g sp S, guarded g sp p -> g < S -> no_underflow sp p = true ->
  (forall idx, exec_writes S sp p <> OobWrite idx) /\
  (forall r, exec_writes S sp p = Ok r -> r < S).
Proof.
  induction p as [|a p IH]; intros g sp S G Hg U; cbn in *.
  - split; [discriminate|]. intros r H. inversion H; lia.
  - destruct a; cbn in *.
    + eapply IH; eauto.
    + destruct (S <=? sp) eqn:E.
      * split; intros; discriminate.
      * apply Z.leb_gt in E. eapply IH; eauto. lia.
    + destruct G as [G1 G2]. apply andb_true_iff in U. destruct U as [U1 U2].
      rewrite U1. cbn. assert (E : (sp + off <? S) = true) by (apply Z.ltb_lt; lia). rewrite E.
      eapply IH; eauto.
Qed.

Lemma checks_below_exec : forall p sp fin S, checks_below sp fin p ->
  exec_writes S sp p = LimitReported -> S <= fin.
Proof.
  induction p as [|a p IH]; intros sp fin S C H; cbn in *; [discriminate|].
  destruct a; cbn in *.
  - eauto.
  - destruct C as [C1 C2]. destruct (S <=? sp) eqn:E.
    + apply Z.leb_le in E. lia.
    + eauto.
  - destruct ((0 <=? sp + off) && (sp + off <? S)); [eauto|discriminate].
Qed.

(* what C14 asks of one handler: no write outside the stack, and the limit is reported exactly
   when the instruction's final sp would be >= stack_size *)
Definition good (S sp : Z) (p : list act) : Prop :=
  (forall idx, exec_writes S sp p <> OobWrite idx) /\
  (exec_writes S sp p = LimitReported <-> S <= sp + net p).

Definition disciplined (p : list act) : Prop :=
  forall sp, guarded sp sp p /\ checks_below sp (sp + net p) p.

Lemma disciplined_good : forall p S sp, disciplined p -> sp < S -> no_underflow sp p = true -> good S sp p.
Proof.
  intros p S sp D Hs U. destruct (D sp) as [G C].
  destruct (guarded_exec p sp sp S G Hs U) as [NO FIN]. split; [exact NO|]. split.
  - intros H. eapply checks_below_exec; eauto.
  - intros H. destruct (exec_writes S sp p) as [r| |idx] eqn:E; auto.
    + pose proof (FIN r eq_refl). apply exec_ok_net in E. lia.
    + exfalso. eapply NO; eauto.
Qed.

(* ---- building blocks are disciplined ------------------------------------------------------ *)

Lemma net_app : forall p q, net (p ++ q) = net p + net q.
Proof. induction p as [|a p IH]; intros q; cbn; auto. destruct a; rewrite ?IH; lia. Qed.

Lemma net_rep : forall n p, net (rep n p) = Z.of_nat n * net p.
Proof. induction n; intros p; cbn [rep]; [cbn; lia|]. rewrite net_app, IHn. lia. Qed.

Lemma net_writes_down : forall n o, net (writes_down n o) = 0.
Proof. induction n; intros o; cbn; auto. Qed.

Lemma guarded_rep_push1 : forall n g sp, sp <= g -> guarded g sp (rep n push1).
Proof.
  induction n; intros g sp H; cbn [rep]; [cbn; lia|].
  cbn. split; [lia|]. apply IHn. lia.
Qed.

Lemma checks_rep_push1 : forall n sp fin, sp + Z.of_nat n <= fin -> checks_below sp fin (rep n push1).
Proof.
  induction n; intros sp fin H; cbn [rep]; [cbn; auto|].
  cbn. split; [lia|]. apply IHn. lia.
Qed.

Lemma guarded_rep_up : forall n g sp, sp + Z.of_nat n <= g -> guarded g sp (rep n [Bump 1; Write 0]).
Proof.
  induction n; intros g sp H; cbn [rep]; [cbn; lia|].
  cbn. split; [lia|]. apply IHn. lia.
Qed.

Lemma checks_rep_up : forall n sp fin, checks_below sp fin (rep n [Bump 1; Write 0]).
Proof. induction n; intros sp fin; cbn [rep]; cbn; auto. Qed.

Lemma guarded_writes_down : forall n o g sp, sp + o <= g -> sp <= g -> guarded g sp (writes_down n o).
Proof.
  induction n; intros o g sp H1 H2; cbn; [lia|]. split; [lia|]. apply IHn; lia.
Qed.

Lemma checks_writes_down : forall n o sp fin, checks_below sp fin (writes_down n o).
Proof. induction n; intros; cbn; auto. Qed.

Lemma disc_rep_push1 n : disciplined (rep n push1).
Proof.
  intros sp. split; [apply guarded_rep_push1; lia|].
  apply checks_rep_push1. rewrite net_rep. cbn. lia.
Qed.

(* ---- shapes -------------------------------------------------------------------------------- *)

(* the irregular shape (if any) a shape is *)
Definition shape_irr (s : shape) : option irregular :=
  match s with
  | ShMark => Some IrrMark | ShDup => Some IrrDup | ShAlloc _ => Some IrrAlloc
  | ShUnpack _ => Some IrrRecordUnpack | ShRead => Some IrrBuiltinRead
  | _ => None
  end.

Lemma shape_disciplined : forall v s,
  (forall c, shape_irr s = Some c -> v c = true) -> shape_delta_ok s = true ->
  disciplined (shape_plan v s).
Proof.
  intros v s HV HD. destruct s; cbn [shape_plan shape_delta_ok shape_irr] in *;
    try solve [intros sp; cbn; repeat split; lia].
  - (* ShPushN *) apply disc_rep_push1.
  - (* ShSlide *)
    destruct (q =? 0) eqn:Eq; [intros sp; cbn; repeat split; lia|].
    destruct (m =? 0) eqn:Em; [intros sp; cbn; repeat split; lia|].
    apply Z.eqb_neq in Eq. apply Z.eqb_neq in Em.
    apply andb_true_iff in HD. destruct HD as [Hq Hm]. apply Z.leb_le in Hq. apply Z.leb_le in Hm.
    intros sp. cbn [guarded checks_below net]. rewrite net_rep. cbn [net]. split.
    + apply guarded_rep_up. rewrite Z2Nat.id by lia. lia.
    + apply checks_rep_up.
  - (* ShMark *) rewrite (HV IrrMark eq_refl). intros sp; cbn; repeat split; lia.
  - (* ShDup *) rewrite (HV IrrDup eq_refl). intros sp; cbn; repeat split; lia.
  - (* ShAlloc *) rewrite (HV IrrAlloc eq_refl). apply disc_rep_push1.
  - (* ShUnpack *) rewrite (HV IrrRecordUnpack eq_refl). intros sp. unfold unpack_checked.
    cbn [app guarded checks_below net]. rewrite net_writes_down. split.
    + apply guarded_writes_down; lia.
    + split; [lia|]. apply checks_writes_down.
  - (* ShRead *) rewrite (HV IrrBuiltinRead eq_refl). intros sp; cbn; repeat split; lia.
Qed.

(* ---- from shapes to opcodes ---------------------------------------------------------------- *)

Lemma builtin_shape_irr : forall id c, shape_irr (builtin_shape id) = Some c ->
  c = IrrBuiltinRead /\ (id =? lib_math_read) = true.
Proof.
  intros id c. unfold builtin_shape.
  destruct ((id =? lib_math_pow) || (id =? lib_math_assertf)); [discriminate|].
  destruct (id =? lib_math_read); [|discriminate]. cbn. intros H. inversion H. auto.
Qed.

Lemma shape_of_irr : forall i delta c, shape_irr (shape_of i delta) = Some c -> irregular_of i = Some c.
Proof.
  intros [op w0 w1 w2] delta c. unfold shape_of, irregular_of. cbn [r_op r_w0 r_w1].
  destruct op; cbn [shape_irr]; try discriminate; try (intros H; exact H).
  intros H. apply builtin_shape_irr in H. destruct H as [-> ->]. reflexivity.
Qed.

Lemma shape_at_irr : forall i fault delta c,
  shape_irr (shape_at i fault delta) = Some c -> irregular_of i = Some c.
Proof.
  intros i fault delta c. unfold shape_at. destruct (fault && linear (r_op i)); [discriminate|].
  apply shape_of_irr.
Qed.

(* every variant: all handlers but the irregular ones the variant has in write-first form *)
Theorem no_write_outside_stack_variant :
  forall (v : variant) i fault delta S sp,
    (forall c, irregular_of i = Some c -> v c = true) ->
    -1 <= sp < S ->
    no_underflow sp (plan v i fault delta) = true ->
    shape_delta_ok (shape_at i fault delta) = true ->
    good S sp (plan v i fault delta).
Proof.
  intros v i fault delta S sp HV Hsp U D. unfold plan in *.
  apply disciplined_good; [|lia|exact U].
  apply shape_disciplined; [|exact D].
  intros c Hc. apply HV. eapply shape_at_irr; eauto.
Qed.

(* the check-first tree: every handler *)
Theorem no_write_outside_stack :
  forall i fault delta S sp,
    -1 <= sp < S ->
    no_underflow sp (plan_checked i fault delta) = true ->
    shape_delta_ok (shape_at i fault delta) = true ->
    (forall idx, exec_writes S sp (plan_checked i fault delta) <> OobWrite idx) /\
    (exec_writes S sp (plan_checked i fault delta) = LimitReported <->
     S <= sp + net (plan_checked i fault delta)).
Proof.
  intros. apply no_write_outside_stack_variant; auto.
Qed.

(* the pinned tree: every handler except MARK, DUP, ALLOC, RECORD_UNPACK and the builtin read *)
Theorem no_write_outside_stack_partial :
  forall i fault delta S sp,
    ~ In (r_op i) [BYTECODE_MARK; BYTECODE_DUP; BYTECODE_ALLOC; BYTECODE_RECORD_UNPACK] ->
    ~ (r_op i = BYTECODE_BUILD_IN /\ r_w0 i = lib_math_read) ->
    -1 <= sp < S ->
    no_underflow sp (plan_pinned i fault delta) = true ->
    shape_delta_ok (shape_at i fault delta) = true ->
    (forall idx, exec_writes S sp (plan_pinned i fault delta) <> OobWrite idx) /\
    (exec_writes S sp (plan_pinned i fault delta) = LimitReported <->
     S <= sp + net (plan_pinned i fault delta)).
Proof.
  intros i fault delta S sp H1 H2 Hsp U D.
  apply no_write_outside_stack_variant; auto.
  intros c Hc. exfalso. unfold irregular_of in Hc. cbn [In] in H1.
  destruct (r_op i) eqn:E; try discriminate; try (apply H1; tauto).
  destruct (r_w0 i =? lib_math_read) eqn:E12; [|discriminate]. apply Z.eqb_eq in E12. tauto.
Qed.

(* ---- the pinned plans do write outside the stack ------------------------------------------- *)

Definition ri (o : opcode) (w0 : Z) : rinstr := {| r_op := o; r_w0 := w0; r_w1 := 0; r_w2 := 0 |}.

(* MARK at sp = stack_size - 3; DUP and read at sp = stack_size - 1; ALLOC 30 on a 5-slot stack
   (the first instruction of every program); RECORD_UNPACK 3 at sp = stack_size - 2 *)
Theorem no_write_outside_stack_refuted :
  exec_writes 10 7 (plan_pinned (ri BYTECODE_MARK 0) false 5) = OobWrite 12 /\
  exec_writes 10 9 (plan_pinned (ri BYTECODE_DUP 1) false 1) = OobWrite 10 /\
  exec_writes 5 (-1) (plan_pinned (ri BYTECODE_ALLOC 30) false 30) = OobWrite 5 /\
  exec_writes 10 8 (plan_pinned (ri BYTECODE_RECORD_UNPACK 3) false 2) = OobWrite 10 /\
  exec_writes 10 9 (plan_pinned (ri BYTECODE_BUILD_IN lib_math_read) false 1) = OobWrite 10.
Proof. vm_compute. repeat split. Qed.

(* the same states under the check-first plans: the limit is reported, nothing is written *)
Theorem witnesses_checked_report_limit :
  exec_writes 10 7 (plan_checked (ri BYTECODE_MARK 0) false 5) = LimitReported /\
  exec_writes 10 9 (plan_checked (ri BYTECODE_DUP 1) false 1) = LimitReported /\
  exec_writes 5 (-1) (plan_checked (ri BYTECODE_ALLOC 30) false 30) = LimitReported /\
  exec_writes 10 8 (plan_checked (ri BYTECODE_RECORD_UNPACK 3) false 2) = LimitReported /\
  exec_writes 10 9 (plan_checked (ri BYTECODE_BUILD_IN lib_math_read) false 1) = LimitReported.
Proof. vm_compute. repeat split. Qed.

(* exactly which states make the pinned MARK write outside: the top five slots *)
Lemma mark_pinned_oob_iff : forall S sp, -1 <= sp < S ->
  ((exists idx, exec_writes S sp mark_pinned = OobWrite idx) <-> S <= sp + 5).
Proof.
  intros S sp H. unfold mark_pinned. cbn [exec_writes].
  destruct (Z_lt_le_dec (sp + 5) S) as [L|L].
  - assert (E : forall k, 1 <= k <= 5 -> ((0 <=? sp + k) && (sp + k <? S)) = true).
    { intros k Hk. apply andb_true_iff. split; [apply Z.leb_le|apply Z.ltb_lt]; lia. }
    rewrite !E by lia. destruct (S <=? sp + 5) eqn:E5; [apply Z.leb_le in E5; lia|].
    split; [intros [idx Hx]; discriminate|lia].
  - assert (E : ((0 <=? sp + 5) && (sp + 5 <? S)) = false).
    { apply andb_false_iff. right. apply Z.ltb_ge. lia. }
    rewrite E. split; eauto.
Qed.

(* ---- traced runs under a configured size ---------------------------------------------------- *)

Definition tplan (v : variant) (t : tstep) : list act :=
  plan v (t_instr t) (t_fault t) (t_sp' t - t_sp t).

Lemma run_plans_unfold v S t rest i :
  run_plans v S (t :: rest) i =
  match exec_writes S (t_sp t) (tplan v t) with
  | Ok _ => run_plans v S rest (Datatypes.S i)
  | LimitReported => LLimit i
  | OobWrite idx => LOob i idx
  end.
Proof. reflexivity. Qed.

(* a run that fits a size fits every larger size *)
Theorem run_plans_monotone : forall v tr S S' i,
  S <= S' -> run_plans v S tr i = LDone -> run_plans v S' tr i = LDone.
Proof.
  induction tr as [|t rest IH]; intros S S' i HS H; [reflexivity|].
  rewrite run_plans_unfold in *.
  destruct (exec_writes S (t_sp t) (tplan v t)) as [r| |idx] eqn:E; try discriminate.
  rewrite (exec_mono _ _ _ _ _ HS E). eauto.
Qed.

Definition operands_present (v : variant) (t : tstep) : Prop :=
  no_underflow (t_sp t) (tplan v t) = true.

(* it completes exactly when the size reaches the demand of the trace *)
Theorem run_plans_demand : forall v tr S i, 0 <= S ->
  Forall (operands_present v) tr ->
  (run_plans v S tr i = LDone <-> trace_demand v tr <= S).
Proof.
  induction tr as [|t rest IH]; intros S i HS F; cbn [trace_demand].
  - cbn. split; auto.
  - inversion F as [|? ? Ht Hr]; subst. rewrite run_plans_unfold.
    fold (tplan v t). pose proof (exec_ok_iff_demand (tplan v t) S (t_sp t) HS Ht) as D.
    destruct (exec_writes S (t_sp t) (tplan v t)) as [r| |idx] eqn:E.
    + rewrite (IH S (Datatypes.S i) HS Hr). assert (demand (t_sp t) (tplan v t) <= S) by (apply D; eauto). lia.
    + split; [discriminate|]. intros H. assert (demand (t_sp t) (tplan v t) <= S) by lia.
      apply D in H0. destruct H0; discriminate.
    + split; [discriminate|]. intros H. assert (demand (t_sp t) (tplan v t) <= S) by lia.
      apply D in H0. destruct H0; discriminate.
Qed.

(* the first step whose resulting sp reaches the size *)
Fixpoint first_need (S : Z) (tr : list tstep) (i : nat) : lres :=
  match tr with
  | [] => LDone
  | t :: rest => if S <=? t_sp' t then LLimit i else first_need S rest (Datatypes.S i)
  end.

(* consecutive steps: each starts at the sp the previous one ended with *)
Fixpoint chained (sp : Z) (tr : list tstep) : Prop :=
  match tr with
  | [] => True
  | t :: rest => t_sp t = sp /\ chained (t_sp' t) rest
  end.

Definition variant_covers (v : variant) (t : tstep) : Prop :=
  forall c, irregular_of (t_instr t) = Some c -> v c = true.

(* check-first handlers: the run stops with "stack too large" exactly at the first step that
   needs sp >= size, and never writes outside *)
Theorem run_plans_fires_iff_needed : forall v tr S sp i,
  chained sp tr -> sp < S ->
  Forall (fun t => step_consistent v t = true) tr ->
  Forall (variant_covers v) tr ->
  run_plans v S tr i = first_need S tr i.
Proof.
  induction tr as [|t rest IH]; intros S sp i CH Hsp FC FV; [reflexivity|].
  destruct CH as [Esp CH]. inversion FC as [|? ? Ct Cr]; subst. inversion FV as [|? ? Vt Vr]; subst.
  rewrite run_plans_unfold. cbn [first_need].
  unfold step_consistent in Ct. fold (tplan v t) in Ct.
  apply andb_true_iff in Ct. destruct Ct as [Ct D]. apply andb_true_iff in Ct. destruct Ct as [N U].
  apply Z.eqb_eq in N.
  assert (G : good S (t_sp t) (tplan v t)).
  { unfold tplan, plan. apply disciplined_good; [|lia|exact U].
    apply shape_disciplined; [|exact D]. intros c Hc. apply Vt. eapply shape_at_irr; eauto. }
  destruct G as [NO LIM]. rewrite N in LIM.
  destruct (S <=? t_sp' t) eqn:E.
  - apply Z.leb_le in E. apply LIM in E. rewrite E. reflexivity.
  - apply Z.leb_gt in E. destruct (exec_writes S (t_sp t) (tplan v t)) as [r| |idx] eqn:X.
    + eapply IH; eauto.
    + assert (S <= t_sp' t) by (apply LIM; reflexivity). lia.
    + exfalso. eapply NO; eauto.
Qed.
