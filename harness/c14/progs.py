"""Program families for property C14 (checks/c14.py).

stack_programs(tier, rng): programs whose stack demand is driven by one knob each (recursion
depth, aggregate width, nesting of calls inside arguments, depth of an expression handed to
print, number of live bindings, ...), so that their demands straddle the stack sizes tried.
heap_programs(tier, rng): programs whose allocation volume is the knob.
Every program is (id, source, stdin text or None, tags)."""


def rec_plain(d):
    return ("rec_plain_%d" % d,
            "func f(n : int) -> int { n == 0 ? 0 : 1 + f(n - 1) }\n"
            "func main() -> int { print(f(%d)); 0 }\n" % d, None, ["recursion"])


def rec_locals(d):
    return ("rec_locals_%d" % d,
            "func g(n : int) -> int\n{\n    let a = n * 2;\n    let b = a + 1;\n"
            "    n == 0 ? b : a + g(n - 1) - b\n}\n"
            "func main() -> int { print(g(%d)); 0 }\n" % d, None, ["recursion", "locals"])


def rec_mutual(d):
    return ("rec_mutual_%d" % d,
            "func even(n : int) -> int { n == 0 ? 1 : 0 + odd(n - 1) }\n"
            "func odd(n : int) -> int { n == 0 ? 0 : 0 + even(n - 1) }\n"
            "func main() -> int { print(even(%d)); 0 }\n" % d, None, ["recursion"])


def rec_two(d):
    return ("rec_fib_%d" % d,
            "func fib(n : int) -> int { n < 2 ? n : fib(n - 1) + fib(n - 2) }\n"
            "func main() -> int { print(fib(%d)); 0 }\n" % d, None, ["recursion"])


def tail_loop(n):
    return ("tail_loop_%d" % n,
            "func loop(i : int, acc : int) -> int { i == 0 ? acc : loop(i - 1, acc + i) }\n"
            "func main() -> int { print(loop(%d, 0)); 0 }\n" % n, None, ["tailcall"])


def wide_record(w):
    fields = "".join("    f%d : int;\n" % i for i in range(w))
    args = ", ".join(str(i + 1) for i in range(w))
    return ("wide_record_%d" % w,
            "record R\n{\n%s}\nfunc main() -> int\n{\n    let r = R(%s);\n    print(r.f0 + r.f%d);\n    0\n}\n"
            % (fields, args, w - 1), None, ["aggregate", "record"])


def wide_array(w):
    elems = ", ".join(str(i + 1) for i in range(w))
    return ("wide_array_%d" % w,
            "func main() -> int\n{\n    let a = [ %s ] : int;\n    print(a[0] + a[%d]);\n    0\n}\n" % (elems, w - 1),
            None, ["aggregate", "array"])


def wide_call(w):
    params = ", ".join("a%d : int" % i for i in range(w))
    body = " + ".join("a%d" % i for i in range(w))
    args = ", ".join(str(i + 1) for i in range(w))
    return ("wide_call_%d" % w,
            "func s(%s) -> int { %s }\nfunc main() -> int { print(s(%s)); 0 }\n" % (params, body, args),
            None, ["aggregate", "call"])


def wide_tuple_pipe(w):
    params = ", ".join("a%d : int" % i for i in range(w))
    body = " + ".join("a%d" % i for i in range(w))
    vals = ", ".join(str(i + 1) for i in range(w))
    tys = ", ".join("int" for _ in range(w))
    return ("tuple_pipe_%d" % w,
            "func s(%s) -> int { %s }\nfunc main() -> int\n{\n    let t = (%s) : (%s);\n    print(t |> s());\n    0\n}\n"
            % (params, body, vals, tys), None, ["aggregate", "record_unpack"])


def nested_args(k):
    e = "1"
    for i in range(k):
        e = "g(%d, %s)" % (i + 2, e)
    return ("nested_args_%d" % k,
            "func g(a : int, b : int) -> int { a + b }\nfunc main() -> int { print(%s); 0 }\n" % e,
            None, ["nested-calls"])


def nested_args_left(k):
    e = "1"
    for i in range(k):
        e = "g(%s, %d)" % (e, i + 2)
    return ("nested_args_left_%d" % k,
            "func g(a : int, b : int) -> int { a + b }\nfunc main() -> int { print(%s); 0 }\n" % e,
            None, ["nested-calls"])


def print_deep(k):
    # operands are evaluated left to right: x + (x + (x + ...)) holds k operands before the first add
    e = "x"
    for i in range(k, 0, -1):
        e = "x + (%s)" % e
    return ("print_deep_%d" % k, "func e(x : int) -> int { print(%s) }\nfunc main() -> int { e(3); 0 }\n" % e,
            None, ["expression", "print"])


def print_deep_mixed(k):
    e = "x"
    for i in range(k):
        e = "(%s) * 2 - (x + %d)" % (e, i + 1) if i % 2 else "x + (y * (%s))" % e
    return ("print_mixed_%d" % k,
            "func e(x : int, y : int) -> int { print(%s) }\nfunc main() -> int { e(3, 2); 0 }\n" % e,
            None, ["expression", "print"])


def lets(k):
    body = "".join("    let a%d = %s;\n" % (i, "1" if i == 0 else "a%d + %d" % (i - 1, i)) for i in range(k))
    return ("lets_%d" % k, "func main() -> int\n{\n%s    print(a%d);\n    0\n}\n" % (body, k - 1), None, ["locals"])


def closure(k):
    return ("closure_%d" % k,
            "func mk(n : int) -> (int) -> int\n{\n"
            "    func add(x : int) -> int { x == 0 ? n * 10 : 1 + add(x - 1) };\n    add\n}\n"
            "func main() -> int { let f = mk(3); print(f(%d)); 0 }\n" % k, None, ["closure", "recursion"])


def enum_match(d):
    return ("enum_match_%d" % d,
            "enum E { A, B, C { v : int; w : int; } }\n"
            "func val(e : E) -> int\n{\n    match e { E::A -> 1; E::B -> 2; E::C(v, w) -> v + w; }\n}\n"
            "func pick(e : E) -> int { if let (E::B = e) { 10 } else { 20 } }\n"
            "func go(n : int) -> int { n == 0 ? val(E::C(3, 4)) + pick(E::B) : val(E::A) + go(n - 1) }\n"
            "func main() -> int { print(go(%d)); 0 }\n" % d, None, ["dup", "match"])


def exc_deep(d):
    return ("exc_deep_%d" % d,
            "func f(n : int) -> int { n == 0 ? 1 / n : 1 + f(n - 1) }\n"
            "func g(n : int) -> int\n{\n    f(n)\n}\ncatch (division_by_zero)\n{\n    0 - n\n}\n"
            "func main() -> int { print(g(%d)); 0 }\n" % d, None, ["exception", "recursion"])


def strings(k):
    e = "s"
    for i in range(k):
        e = "s + (%s)" % e
    return ("strings_%d" % k,
            "func cat(s : string) -> string { %s }\nfunc main() -> int { prints(cat(\"ab\") + \"\\n\"); 0 }\n" % e,
            None, ["string"])


def forin(n):
    return ("forin_%d" % n,
            "func main() -> int\n{\n    var s = 0;\n    var e = 0;\n    let a = [ %s ] : int;\n"
            "    for (e in a) { s = s + e };\n    print(s);\n    0\n}\n" % ", ".join(str(i) for i in range(1, n + 1)),
            None, ["loop", "array"])


def listcomp(n):
    return ("listcomp_%d" % n,
            "func main() -> int\n{\n    let a = [ x * x | x in [1 .. %d] ] : int;\n    print(a[0] + a[%d]);\n    0\n}\n" % (n, n - 1),
            None, ["loop", "array"])


def reader(k):
    body = "".join("    let a%d = read();\n" % i for i in range(k))
    s = " + ".join("a%d" % i for i in range(k))
    return ("read_%d" % k, "func main() -> int\n{\n%s    print(%s);\n    0\n}\n" % (body, s),
            "".join("%d\n" % (i + 1) for i in range(k)), ["builtin-read"])


def array_ops(n):
    return ("array_ops_%d" % n,
            "func main() -> int\n{\n    let a = {[ %d ]} : int;\n    let b = {[ %d ]} : int;\n    let c = a + b;\n"
            "    let m = {[ 2, 3 ]} : int;\n    print(c[0] + m[1, 2]);\n    0\n}\n" % (n, n), None, ["array"])


def stack_programs(tier, rng):
    thorough = tier != "quick"
    P = []
    for d in ([1, 7, 25] + ([90, 400] if thorough else [])):
        P.append(rec_plain(d))
    for d in ([4, 19] + ([120] if thorough else [])):
        P.append(rec_locals(d))
    for d in ([9] + ([64, 301] if thorough else [])):
        P.append(rec_mutual(d))
    for d in ([6] + ([12] if thorough else [])):
        P.append(rec_two(d))
    for n in ([500] + ([20000] if thorough else [])):
        P.append(tail_loop(n))
    for w in ([1, 6, 33] + ([120] if thorough else [])):
        P.append(wide_record(w))
        P.append(wide_array(w))
    for w in ([2, 17] + ([64] if thorough else [])):
        P.append(wide_call(w))
    for w in ([2, 3, 9] + ([40] if thorough else [])):
        P.append(wide_tuple_pipe(w))
    for k in ([1, 5, 14] + ([40] if thorough else [])):
        P.append(nested_args(k))
    for k in ([6] + ([30] if thorough else [])):
        P.append(nested_args_left(k))
    for k in ([2, 20] + ([80] if thorough else [])):
        P.append(print_deep(k))
    for k in ([9] + ([33] if thorough else [])):
        P.append(print_deep_mixed(k))
    for k in ([3, 24] + ([90] if thorough else [])):
        P.append(lets(k))
    for k in ([5] + ([50] if thorough else [])):
        P.append(closure(k))
    for d in ([0, 8] + ([70] if thorough else [])):
        P.append(enum_match(d))
    for d in ([3] + ([45] if thorough else [])):
        P.append(exc_deep(d))
    for k in ([2, 12] + ([50] if thorough else [])):
        P.append(strings(k))
    for n in ([4] + ([30] if thorough else [])):
        P.append(forin(n))
        P.append(listcomp(n))
    for k in ([1, 4] + ([20] if thorough else [])):
        P.append(reader(k))
    P.append(array_ops(5))
    # a few random knob values (seeded)
    for _ in range(4 if not thorough else 48):
        f = rng.choice([rec_plain, rec_locals, wide_record, wide_array, wide_call, nested_args, print_deep, lets,
                        wide_tuple_pipe, enum_match])
        hi = 40 if not thorough else 150
        k = rng.randint(2, hi)
        p = f(k)
        if p[0] not in [q[0] for q in P]:
            P.append(p)
    return P


# ---- heap -------------------------------------------------------------------------------------

def heap_list(n):
    return ("heap_list_%d" % n,
            "record L { v : int; next : L; }\n"
            "func build(n : int, acc : L) -> L { n == 0 ? acc : build(n - 1, L(n, acc)) }\n"
            "func sum(l : L, acc : int) -> int { l == nil ? acc : sum(l.next, acc + l.v) }\n"
            "func main() -> int { print(sum(build(%d, nil), 0)); 0 }\n" % n, None, ["heap", "list"])


def heap_string(n):
    return ("heap_string_%d" % n,
            "func rep(n : int, s : string) -> string { n == 0 ? s : rep(n - 1, s + \"x\") }\n"
            "func main() -> int { print(length(rep(%d, \"\"))); 0 }\n" % n, None, ["heap", "string"])


def heap_array(n):
    return ("heap_array_%d" % n,
            "func main() -> int\n{\n    let a = {[ %d ]} : int;\n    let b = {[ %d ]} : int;\n    let c = a + b;\n"
            "    print(c[%d]);\n    0\n}\n" % (n, n, n - 1), None, ["heap", "array"])


def heap_rec(d):
    return ("heap_rec_%d" % d,
            "func f(n : int) -> int { n == 0 ? 0 : 1 + f(n - 1) }\n"
            "func main() -> int { print(f(%d)); 0 }\n" % d, None, ["heap", "recursion"])


def heap_garbage(n):
    return ("heap_garbage_%d" % n,
            "func loop(i : int, acc : int) -> int { i == 0 ? acc : loop(i - 1, (acc + i * 3 - i) %% 1000) }\n"
            "func main() -> int { print(loop(%d, 0)); 0 }\n" % n, None, ["heap", "garbage"])


def heap_listcomp(n):
    return ("heap_listcomp_%d" % n,
            "func main() -> int\n{\n    let a = [ x * 2 | x in [1 .. %d] ] : int;\n    print(a[%d]);\n    0\n}\n" % (n, n - 1),
            None, ["heap", "array"])


def heap_programs(tier, rng):
    thorough = tier != "quick"
    P = [heap_list(3), heap_list(60), heap_string(4), heap_string(50), heap_array(8), heap_array(100),
         heap_rec(30), heap_garbage(400), heap_listcomp(20),
         ("heap_min", "func main() -> int { 0 }\n", None, ["heap", "minimal"])]
    if thorough:
        P += [heap_list(700), heap_string(400), heap_array(2000), heap_rec(600), heap_garbage(20000),
              heap_listcomp(300)]
        for _ in range(6):
            f = rng.choice([heap_list, heap_string, heap_array, heap_rec, heap_listcomp])
            p = f(rng.randint(5, 300))
            if p[0] not in [q[0] for q in P]:
                P.append(p)
    return P


# ---- two-dimensional: stack-hungry, heap-light ---------------------------------------------------
# peak sp well above the number of heap cells the run needs (with collections), so that heap sizes
# BELOW the stack size still complete: the same cell is pushed many times.

def shared_args(w):
    params = ", ".join("a%d : int" % i for i in range(w))
    args = ", ".join("x" for _ in range(w))
    return ("shared_args_%d" % w,
            "func s(%s) -> int { a0 + a%d }\nfunc main() -> int { let x = 21; print(s(%s)); 0 }\n" % (params, w - 1, args),
            None, ["2d", "call"])


def shared_lets(k):
    body = "".join("    let a%d = x;\n" % i for i in range(k))
    return ("shared_lets_%d" % k,
            "func main() -> int\n{\n    let x = 21;\n%s    print(a0 + a%d);\n    0\n}\n" % (body, k - 1), None, ["2d", "locals"])


def shared_record(w):
    fields = "".join("    f%d : int;\n" % i for i in range(w))
    args = ", ".join("x" for _ in range(w))
    return ("shared_record_%d" % w,
            "record R\n{\n%s}\nfunc main() -> int\n{\n    let x = 21;\n    let r = R(%s);\n    print(r.f0 + r.f%d);\n    0\n}\n"
            % (fields, args, w - 1), None, ["2d", "record"])


def shared_nested(k, w):
    params = ", ".join("a%d : int" % i for i in range(w))
    e = "x"
    for _ in range(k):
        e = "g(%s%s)" % ("x, " * (w - 1), e)
    return ("shared_nested_%d_%d" % (k, w),
            "func g(%s) -> int { a%d }\nfunc main() -> int { let x = 21; print(%s); 0 }\n" % (params, w - 1, e),
            None, ["2d", "nested-calls"])


def twod_programs(tier, rng):
    thorough = tier != "quick"
    P = [shared_args(150), shared_lets(200), shared_record(180), shared_nested(20, 6)]
    if thorough:
        P += [shared_args(600), shared_lets(900), shared_record(500), shared_nested(60, 8),
              shared_args(rng.randint(120, 400)), shared_lets(rng.randint(150, 600))]
    return P


# ---- entry functions WITH parameters ------------------------------------------------------------
# PUSH_PARAM pushes the parameters of the entry function chosen by nev_prepare (on the command
# line: the words after the file name).  Programs here are 5-tuples: the fifth element is
# {"entry": name, "args": [words]}.

PARAM_TYPES = ("int", "float", "string")


def _param_value(t, i):
    return {"int": str(3 * i + 1), "float": "%d.5" % (i + 1), "string": "w%d" % i}[t]


def entry_params(types, extra_depth=0, entry="main"):
    """entry function with len(types) parameters; extra_depth > 0 adds a recursion below it"""
    k = len(types)
    params = ", ".join("p%d : %s" % (i, t) for i, t in enumerate(types))
    ints = [("p%d" % i) for i, t in enumerate(types) if t == "int"]
    flts = [("p%d" % i) for i, t in enumerate(types) if t == "float"]
    strs = [("p%d" % i) for i, t in enumerate(types) if t == "string"]
    body = []
    if strs:
        body.append("    prints(%s + \"\\n\");" % " + ".join(strs))
    if flts:
        body.append("    printf(%s);" % " + ".join(flts))
    isum = " + ".join(ints) if ints else "0"
    if extra_depth:
        body.append("    print(f(%d) + %s);" % (extra_depth, isum))
    else:
        body.append("    print(%s);" % isum)
    res = "%s + %d" % (ints[0], k) if ints else str(k)
    src = ""
    if extra_depth:
        src += "func f(n : int) -> int { n == 0 ? 0 : 1 + f(n - 1) }\n"
    src += "func %s(%s) -> int\n{\n%s\n    %s\n}\n" % (entry, params, "\n".join(body), res)
    if entry != "main":
        src += "func main() -> int { 0 }\n"
    sig = "".join(t[0] for t in types) or "none"
    pid = "entry_%s_%d_%s%s" % (entry, k, sig[:12], "_d%d" % extra_depth if extra_depth else "")
    return (pid, src, None, ["entry-params", "k=%d" % k],
            {"entry": entry, "args": [_param_value(t, i) for i, t in enumerate(types)]})


def entry_argv(n):
    return ("entry_argv_%d" % n,
            "func main(args[D] : string) -> int\n{\n    print(D);\n    prints(args[D - 1] + \"\\n\");\n    D\n}\n",
            None, ["entry-params", "argv"], {"entry": "main", "args": ["a%d" % i for i in range(n)]})


def entry_programs(tier, rng):
    thorough = tier != "quick"
    P = [entry_params(["int"] * k) for k in range(0, 11)]
    P += [entry_params(["int", "float", "string", "int"]),
          entry_params(["string", "string", "float", "float", "int", "int", "string", "int"]),
          entry_params(["float"] * 5),
          entry_params(["int"] * 6, extra_depth=3),
          entry_params(["int"] * 1, entry="on_event"),
          entry_params(["int", "string", "int"], entry="on_event"),
          entry_params(["int"] * 8, entry="handler"),
          entry_argv(1), entry_argv(4)]
    if thorough:
        P += [entry_params(["int"] * k) for k in (12, 16, 24, 40)]
        P += [entry_params(["string"] * 9, extra_depth=7), entry_argv(12)]
    for _ in range(3 if not thorough else 16):
        k = rng.randint(1, 9 if not thorough else 30)
        types = [rng.choice(PARAM_TYPES) for _ in range(k)]
        p = entry_params(types, extra_depth=rng.choice([0, 0, 2, 5]), entry=rng.choice(["main", "main", "start"]))
        if p[0] not in [q[0] for q in P]:
            P.append(p)
    return P


# ---- probes for the command-line tool ---------------------------------------------------------------
# Candidates per role; checks/c14.py measures stack demand and heap need of each through the API and
# keeps, per role, the first candidate whose measured needs have the relation to the tool's defaults
# the role asks for.

def cli_candidates(tier, rng):
    """role -> [program]; roles:
       stack-near-default   demand in (default_stack*0.6, default_stack]: fits the default, not 3/4 of it
       stack-over-default   demand above the default stack size
       heap-light           demand in (default_stack*0.6, default_stack], completes with fewer heap cells than that
       heap-over-default    needs more heap cells than the default heap size, little stack
       heap-heavy           needs more heap cells than the default STACK size (and fewer than the default heap), little stack
       entry-args           entry function with parameters (words after the file name)
       status               tiny program whose result is the exit status"""
    d0 = rng.randint(0, 2)
    return {
        "stack-near-default": [rec_plain(d) for d in (19 - d0, 17, 16, 15, 14, 20, 21, 13, 12)],
        "stack-over-default": [rec_plain(d) for d in (27 + d0, 31, 36, 45)],
        "heap-light": [shared_args(w) for w in (125 + 3 * d0, 118, 110, 135, 100, 145, 90)],
        "heap-over-default": [heap_list(n) for n in (2400 + 100 * d0, 3000, 4000, 6000, 1800)],
        "heap-heavy": [heap_list(n) for n in (110 + 10 * d0, 160, 220, 300, 80, 500)],
        "entry-args": [entry_params(["int", "string", "int", "float", "int"], extra_depth=4 + d0),
                       entry_params(["int"] * 7)],
        "status": [("status_%d" % (40 + d0), "func main() -> int { print(%d); %d }\n" % (5 + d0, 40 + d0), None, ["status"])],
    }


# ---- peak probes: one instruction class at the unique deepest point of the run ----------------------
# A push is observable at the stack limit only where it sets a new running maximum of sp (at every
# smaller size an earlier instruction reports the limit first).  Each program below puts one
# construct at such a point: `probe` is the deepest frame and its body pushes almost nothing.

EXC_NAMES = ("division_by_zero", "wrong_array_size", "index_out_of_bounds", "invalid_domain", "nil_pointer", "ffi_fail")


def _probe_params(k):
    return "".join(", k%d : int" % i for i in range(k)), "".join(", %d" % (i + 4) for i in range(k))


def exc_typed(k, before=(), after=(), catch_all=False, value=7):
    """probe(r, k ints) faults in `r.x` on nil after ONE temporary; typed clauses: `before` (not matching),
    nil_pointer, `after`; optional catch-all.  Handler entry (CLEAR_STACK; INT; PUSH_EXCEPT) is the peak."""
    ps, as_ = _probe_params(k)
    clauses = "".join("catch (%s)\n{\n    %d\n}\n" % (n, 100 + i) for i, n in enumerate(before))
    clauses += "catch (nil_pointer)\n{\n    %d\n}\n" % value
    clauses += "".join("catch (%s)\n{\n    %d\n}\n" % (n, 200 + i) for i, n in enumerate(after))
    if catch_all:
        clauses += "catch\n{\n    300\n}\n"
    src = ("record R { x : int; }\n\nfunc probe(r : R%s) -> int\n{\n    r.x\n}\n%s\n"
           "func main() -> int\n{\n    var r = R(1);\n    r = nil;\n    print(probe(r%s));\n    0\n}\n" % (ps, clauses, as_))
    return ("peak_exc_typed_k%d_b%d_a%d%s" % (k, len(before), len(after), "_all" if catch_all else ""), src, None,
            ["peak", "exception", "push_except"])


def exc_catch_all(k):
    ps, as_ = _probe_params(k)
    body = "k0 + 3" if k else "7"          # two pushes after CLEAR_STACK: the second one is the peak
    src = ("record R { x : int; }\n\nfunc probe(r : R%s) -> int\n{\n    r.x\n}\ncatch\n{\n    %s\n}\n\n"
           "func main() -> int\n{\n    var r = R(1);\n    r = nil;\n    print(probe(r%s));\n    0\n}\n" % (ps, body, as_))
    return ("peak_exc_catchall_k%d" % k, src, None, ["peak", "exception", "clear_stack"])


def exc_unmatched_then_all(k):
    """typed clauses that do not match, then the catch-all: PUSH_EXCEPT runs, the clause body does not"""
    ps, as_ = _probe_params(k)
    src = ("record R { x : int; }\n\nfunc probe(r : R%s) -> int\n{\n    r.x\n}\ncatch (division_by_zero)\n{\n    1\n}\n"
           "catch (index_out_of_bounds)\n{\n    2\n}\ncatch\n{\n    9\n}\n\n"
           "func main() -> int\n{\n    var r = R(1);\n    r = nil;\n    print(probe(r%s));\n    0\n}\n" % (ps, as_))
    return ("peak_exc_unmatched_all_k%d" % k, src, None, ["peak", "exception", "push_except"])


def exc_rethrow_chain(depth, k):
    """the deepest function faults and has a typed clause that does not match (PUSH_EXCEPT at the peak, then
    RETHROW); every caller up the chain has one too; main's clause matches"""
    ps, as_ = _probe_params(k)
    src = "record R { x : int; }\n\nfunc f0(r : R%s) -> int\n{\n    r.x\n}\ncatch (division_by_zero)\n{\n    50\n}\n\n" % ps
    for d in range(1, depth):
        src += "func f%d(r : R) -> int\n{\n    f%d(r%s)\n}\ncatch (%s)\n{\n    %d\n}\n\n" % (
            d, d - 1, as_ if d == 1 else "", EXC_NAMES[(d + 1) % 4], 50 + d)
    call = "f%d(r%s)" % (depth - 1, as_ if depth == 1 else "")
    src += ("func top(r : R) -> int\n{\n    %s\n}\ncatch (nil_pointer)\n{\n    77\n}\n\n"
            "func main() -> int\n{\n    var r = R(1);\n    r = nil;\n    print(top(r));\n    0\n}\n" % call)
    return ("peak_exc_rethrow_d%d_k%d" % (depth, k), src, None, ["peak", "exception", "push_except", "rethrow"])


def exc_nested_handler(k):
    """the handler of probe faults again (r.x in the clause body): the second exception goes to the caller's handler"""
    ps, as_ = _probe_params(k)
    src = ("record R { x : int; }\n\nfunc probe(r : R%s) -> int\n{\n    r.x\n}\ncatch (nil_pointer)\n{\n    r.x\n}\n\n"
           "func outer(r : R) -> int\n{\n    probe(r%s)\n}\ncatch (nil_pointer)\n{\n    5\n}\n\n"
           "func main() -> int\n{\n    var r = R(1);\n    r = nil;\n    print(outer(r));\n    0\n}\n" % (ps, as_))
    return ("peak_exc_nested_k%d" % k, src, None, ["peak", "exception", "push_except"])


def exc_unhandled_typed(k):
    """no clause matches anywhere: PUSH_EXCEPT at the peak, then the run ends with the unhandled exception"""
    ps, as_ = _probe_params(k)
    src = ("record R { x : int; }\n\nfunc probe(r : R%s) -> int\n{\n    r.x\n}\ncatch (division_by_zero)\n{\n    1\n}\n\n"
           "func main() -> int\n{\n    var r = R(1);\n    r = nil;\n    print(probe(r%s));\n    0\n}\n" % (ps, as_))
    return ("peak_exc_unhandled_k%d" % k, src, None, ["peak", "exception", "push_except"])


def exc_closure_handler(k):
    """typed handler in a nested function (its frame starts with ALLOC/COPYGLOB slots)"""
    ps, as_ = _probe_params(k)
    src = ("record R { x : int; }\n\nfunc outer(r : R) -> int\n{\n    func probe(q : R%s) -> int\n    {\n        q.x\n    }\n"
           "    catch (nil_pointer)\n    {\n        8\n    };\n    probe(r%s)\n}\n\n"
           "func main() -> int\n{\n    var r = R(1);\n    r = nil;\n    print(outer(r));\n    0\n}\n" % (ps, as_))
    return ("peak_exc_closure_k%d" % k, src, None, ["peak", "exception", "push_except", "closure"])


# (type, value of the argument, body: the parameter then the pushed construct, how main shows the result)
LITERALS = [("int", "1", "x + 41", "int", "print(%s)"), ("long", "1L", "x + 41L", "long", "printl(%s)"),
            ("float", "1.5", "x + 2.5", "float", "printf(%s)"), ("double", "1.5d", "x + 2.5d", "double", "printd(%s)"),
            ("char", "'c'", "x == 'c' ? 1 : 0", "int", "print(%s)"), ("string", "\"ab\"", "x + \"s\"", "string", "prints(%s)"),
            ("c_ptr", "c_null", "x == c_null ? 1 : 0", "int", "print(%s)")]


def peak_literal(lit, k):
    """probe's body pushes its first parameter and then one literal: that push is the deepest point"""
    ty, arg, body, rty, show = lit
    ps, as_ = _probe_params(k)
    src = "func probe(x : %s%s) -> %s\n{\n    %s\n}\n\nfunc main() -> int\n{\n    %s;\n    0\n}\n" % (
        ty, ps, rty, body, show % ("probe(%s%s)" % (arg, as_)))
    return ("peak_lit_%s_k%d" % (ty, k), src, None, ["peak", "literal"])


def peak_nil_record(k):
    ps, as_ = _probe_params(k)
    src = ("record R { x : int; }\n\nfunc probe(q : R%s) -> int\n{\n    q == nil ? 1 : 0\n}\n\nfunc main() -> int\n{\n    var r = R(1);\n"
           "    r = nil;\n    print(probe(r%s));\n    0\n}\n" % (ps, as_))
    return ("peak_nil_record_k%d" % k, src, None, ["peak", "nil"])


def peak_global(k):
    ps, as_ = _probe_params(k)
    src = "let g = 17;\n\nfunc probe(x : int%s) -> int\n{\n    x + g\n}\n\nfunc main() -> int\n{\n    print(probe(1%s));\n    0\n}\n" % (ps, as_)
    return ("peak_global_k%d" % k, src, None, ["peak", "global"])


def peak_closure_entry(k):
    """probe declares a nested function and returns a literal: ALLOC/COPYGLOB at function entry are the deepest pushes"""
    ps, as_ = _probe_params(k)
    src = ("func probe(%s) -> int\n{\n    func inner(a : int) -> int { a };\n    3\n}\n\n"
           "func main() -> int\n{\n    print(probe(%s));\n    0\n}\n" % (ps[2:], as_[2:]))
    return ("peak_closure_entry_k%d" % k, src, None, ["peak", "alloc", "copyglob"])


def peak_captured(k):
    """inner reads a variable of the enclosing function at the deepest point (ID_TOP / upvalue access)"""
    src = ("func outer(v : int) -> int\n{\n    func inner(a : int%s) -> int { a + v };\n    inner(2%s)\n}\n\n"
           "func main() -> int\n{\n    print(outer(9));\n    0\n}\n" % _probe_params(k))
    return ("peak_captured_k%d" % k, src, None, ["peak", "closure"])


def peak_builtin(k):
    """a built-in applied to the deepest operand (built-ins rewrite the top slot)"""
    src = ("func probe(x : float%s) -> float\n{\n    sqrt(x)\n}\n\nfunc main() -> int\n{\n    printf(probe(16.0%s));\n    0\n}\n"
           % _probe_params(k))
    return ("peak_builtin_sqrt_k%d" % k, src, None, ["peak", "builtin"])


def peak_string_ops(k):
    src = ("func probe(s : string%s) -> string\n{\n    s + \"x\"\n}\n\nfunc main() -> int\n{\n    prints(probe(\"ab\"%s) + \"\\n\");\n    0\n}\n"
           % _probe_params(k))
    return ("peak_string_cat_k%d" % k, src, None, ["peak", "string"])


def peak_dim(k):
    src = ("func probe(a[D] : int, x : int%s) -> int\n{\n    x + D\n}\n\nfunc main() -> int\n{\n    print(probe([ 1, 2, 3 ] : int, 5%s));\n    0\n}\n"
           % _probe_params(k))
    return ("peak_dim_k%d" % k, src, None, ["peak", "array"])


def peak_programs(tier, rng):
    thorough = tier != "quick"
    ks = [0, 1, 3] if not thorough else [0, 1, 2, 3, 5, 8]
    P = []
    for k in ks:
        P.append(exc_typed(k))
    P += [exc_typed(1, before=("division_by_zero",)), exc_typed(0, before=("index_out_of_bounds", "invalid_domain"), after=("ffi_fail",)),
          exc_typed(2, after=("division_by_zero",), catch_all=True),
          exc_catch_all(0), exc_catch_all(2), exc_unmatched_then_all(1),
          exc_rethrow_chain(1, 1), exc_rethrow_chain(3, 0), exc_nested_handler(1), exc_unhandled_typed(1), exc_closure_handler(1)]
    k0 = rng.randint(0, 4)
    P += [exc_typed(k0, before=tuple(rng.sample(EXC_NAMES[:4], rng.randint(0, 3)))), exc_rethrow_chain(rng.randint(1, 4), rng.randint(0, 3))]
    for lit in LITERALS:
        P.append(peak_literal(lit, rng.randint(0, 3)))
    kk = rng.randint(0, 3)
    P += [peak_nil_record(kk), peak_global(kk), peak_closure_entry(kk), peak_captured(kk), peak_builtin(kk), peak_string_ops(kk),
          peak_dim(kk)]
    if thorough:
        for k in (4, 6):
            P += [exc_rethrow_chain(k, 2), exc_catch_all(k), exc_nested_handler(k), exc_closure_handler(k)]
            P += [peak_literal(lit, k) for lit in LITERALS]
    seen, out = set(), []
    for p in P:
        if p[0] not in seen:
            seen.add(p[0])
            out.append(p)
    return out
