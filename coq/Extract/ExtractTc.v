(* Extraction of the model typechecker (property C06) for the compile-or-reject differential
   harness.  ExtrOcamlBasic only: nat, N, Z, positive stay extracted datatypes;
   harness/ocaml/tc/conv.ml converts them.
   Model sources: NV.Src.Syntax NV.Src.Types NV.Src.Typecheck NV.Src.TypecheckMatch *)
From Coq Require Import ExtrOcamlBasic.
From NV Require Import Src.Syntax Src.Types Src.Typecheck Src.TypecheckMatch.

Extraction "tcmodel.ml"
  fd_name fd_params fd_ret fd_body fd_catches fd_catch_all
  tc_program rule_id match_check catch_name_check.
