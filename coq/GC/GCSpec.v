(* Specification vocabulary for the collector model: well-formedness of the bookkeeping,
   closedness of the object graph, reachability.  No proofs here. *)
From Coq Require Import NArith List Bool.
From NV Require Import Base.TMap GC.GCModel.
Import ListNotations.
Local Open Scope N_scope.

Definition allocated (g : gc) (a : N) : Prop := tget (g_obj g) a <> None.
Definition in_range (g : gc) (a : N) : Prop := 1 <= a < g_size g.

(* the free chain starting at a, as a relation (the executable free_chain computes it) *)
Inductive chain (nx : tmap N) : N -> list N -> Prop :=
| chain_nil : chain nx 0 []
| chain_cons a l : a <> 0 -> chain nx (tget nx a) l -> chain nx a (a :: l).

(* WF: each heap cell is in exactly one place, nothing is lost, marks are clear *)
Record WF (g : gc) : Prop := {
  wf_size : 2 <= g_size g;
  wf_nil_empty : tget (g_obj g) 0 = None;
  wf_outside_empty : forall a, g_size g <= a -> tget (g_obj g) a = None;
  wf_free : exists fl, chain (g_next g) (g_free g) fl /\ NoDup fl /\
            (forall a, In a fl <-> (in_range g a /\ tget (g_obj g) a = None));
  wf_cur_nodup : NoDup (cur_list g);
  wf_cur : forall a, In a (cur_list g) <-> (in_range g a /\ allocated g a);
  wf_oth_empty : oth_list g = [];
  wf_marks_clear : forall a, tget (g_mark g) a = false
}.

(* every reference stored in an allocated object is nil or an allocated cell of the kind
   the holder's accessor expects *)
Definition Closed (g : gc) : Prop :=
  forall a o, tget (g_obj g) a = Some o -> obj_ok g o = true.

(* reachability from a root list through refs, never through nil *)
Inductive reach (g : gc) (roots : list N) : N -> Prop :=
| reach_root r : In r roots -> r <> 0 -> reach g roots r
| reach_step a o c : reach g roots a -> tget (g_obj g) a = Some o -> In c (refs o) -> c <> 0 ->
                     reach g roots c.

Definition roots_ok (g : gc) (roots : list N) : Prop :=
  forall r, In r roots -> r = 0 \/ allocated g r.

(* the set of free cells / allocated cells as predicates on 1..size-1 *)
Definition is_free (g : gc) (a : N) : Prop :=
  exists fl, chain (g_next g) (g_free g) fl /\ In a fl.
