(* Proofs about the string table model StrTabModel.v (no axioms).

   For every hash function, every initial size >= 1 and every sequence of strtab_add_string /
   strtab_lookup_string operations of any length the table refines the list of distinct strings in
   first-insertion order: an added string gets order = its 1-based position in that list, the same
   order every time it is added or looked up again, 0 is returned exactly for strings never added,
   count = number of distinct strings + 1, the add loop never reaches assert(0)
   (strtab_refines_list).  strtab_to_array then yields [NULL; s1; s2; ...]: the string stored at
   index k is the k-th distinct string, no write outside the array (strtab_to_array_exact). *)
From Coq Require Import List Arith NArith Bool Lia Permutation.
From NV Require Import Hash.OpenTabModel Hash.OpenTabProofs Hash.StrTabModel.
Import ListNotations.

Section StrTabProofs.
  Variable name : Type.
  Variable name_eqb : name -> name -> bool.
  Variable hash : name -> N.
  Hypothesis name_eqb_spec : forall a b, name_eqb a b = true <-> a = b.

  Notation strtab := (strtab name).
  Notation contents := (contents name nat).
  Notation nocc := (nocc name nat).
  Notation slot_at := (slot_at name nat).
  Notation chain := (chain name hash nat).
  Notation strtab_new := (strtab_new name).
  Notation strtab_add_string := (strtab_add_string name name_eqb hash).
  Notation strtab_lookup_string := (strtab_lookup_string name name_eqb hash).
  Notation strtab_to_array := (strtab_to_array name).
  Notation index_of := (index_of name name_eqb).
  Notation alookup := (alookup name name_eqb).
  Notation asstep := (asstep name name_eqb).
  Notation asrun := (asrun name name_eqb).
  Notation sstep := (sstep name name_eqb hash).
  Notation srun := (srun name name_eqb hash).

  Lemma name_eqb_refl : forall a, name_eqb a a = true.
  Proof. intros. apply name_eqb_spec. reflexivity. Qed.

  (* ---- the numbered list -------------------------------------------------------------------- *)
  Definition numbered (l : list name) : list (name * nat) := combine l (seq 1 (length l)).

  Lemma map_fst_combine : forall (A B : Type) (l : list A) (l' : list B),
      length l <= length l' -> map fst (combine l l') = l.
  Proof.
    induction l; destruct l'; simpl; intros; try lia; auto. f_equal. apply IHl. lia.
  Qed.

  Lemma map_fst_numbered : forall l, map fst (numbered l) = l.
  Proof. intros. apply map_fst_combine. rewrite seq_length. lia. Qed.

  Lemma length_numbered : forall l, length (numbered l) = length l.
  Proof. intros. unfold numbered. rewrite combine_length, seq_length. lia. Qed.

  Lemma combine_app_eq : forall (A B : Type) (a b : list A) (a' b' : list B),
      length a = length a' -> combine (a ++ b) (a' ++ b') = combine a a' ++ combine b b'.
  Proof.
    induction a; destruct a'; simpl; intros; try lia; auto. f_equal. apply IHa. lia.
  Qed.

  Lemma numbered_app : forall l s, numbered (l ++ [s]) = numbered l ++ [(s, S (length l))].
  Proof.
    intros. unfold numbered. rewrite app_length. simpl.
    replace (length l + 1) with (S (length l)) by lia. rewrite seq_S.
    rewrite combine_app_eq by (rewrite seq_length; reflexivity). reflexivity.
  Qed.

  Lemma index_of_Some_In : forall l s i k,
      index_of l s = Some i -> In (s, k + i) (combine l (seq k (length l))).
  Proof.
    induction l as [|x t IH]; simpl; intros s i k H; [discriminate|].
    destruct (name_eqb x s) eqn:E.
    - apply name_eqb_spec in E. injection H as <-. left. subst. f_equal. lia.
    - destruct (index_of t s) as [j|] eqn:F; [|discriminate]. simpl in H. injection H as <-.
      right. replace (k + S j) with (S k + j) by lia. apply IH. assumption.
  Qed.

  Lemma index_of_lt : forall l s i, index_of l s = Some i -> i < length l.
  Proof.
    induction l as [|x t IH]; simpl; intros s i H; [discriminate|].
    destruct (name_eqb x s); [injection H as <-; lia|].
    destruct (index_of t s) as [j|] eqn:F; [|discriminate]. simpl in H. injection H as <-.
    specialize (IH s j F). lia.
  Qed.

  Lemma index_of_None_notin : forall l s, index_of l s = None -> ~ In s l.
  Proof.
    induction l as [|x t IH]; simpl; intros s H; [tauto|].
    destruct (name_eqb x s) eqn:E; [discriminate|].
    destruct (index_of t s) eqn:F; [discriminate|].
    intros [G|G]; [subst; rewrite name_eqb_refl in E; discriminate|]. eapply IH; eassumption.
  Qed.

  Lemma combine_functional : forall (l : list name) (l' : list nat) s a b,
      NoDup l -> In (s, a) (combine l l') -> In (s, b) (combine l l') -> a = b.
  Proof.
    induction l as [|x t IH]; destruct l' as [|y t']; simpl; intros s a b Hnd Ha Hb; try tauto.
    apply NoDup_cons_iff in Hnd. destruct Hnd as [Hx Hnd].
    destruct Ha as [Ha|Ha]; destruct Hb as [Hb|Hb].
    - congruence.
    - injection Ha as -> _. apply in_combine_l in Hb. tauto.
    - injection Hb as -> _. apply in_combine_l in Ha. tauto.
    - eapply IH; eassumption.
  Qed.

  (* ---- the refinement relation ----------------------------------------------------------------- *)
  Definition srefines (t : strtab) (l : list name) : Prop :=
    0 < t_size t /\ length (t_entries t) = t_size t /\ chain (t_entries t) (t_size t) /\
    NoDup l /\ Permutation (contents (t_entries t)) (numbered l) /\
    t_count t = S (length l) /\ t_count t <= t_size t * 3 / 4 + 1.

  Lemma srefines_nocc : forall t l, srefines t l -> nocc (t_entries t) = length l.
  Proof.
    intros t l [_ [_ [_ [_ [Hp _]]]]]. unfold OpenTabModel.nocc.
    rewrite (Permutation_length Hp). apply length_numbered.
  Qed.

  Lemma srefines_not_full : forall t l, srefines t l -> nocc (t_entries t) < t_size t.
  Proof.
    intros t l H. rewrite (srefines_nocc t l H).
    destruct H as [Hsz [_ [_ [_ [_ [Hc Hle]]]]]].
    pose proof (three_quarters_lt (t_size t) Hsz). lia.
  Qed.

  Lemma srefines_names : forall t l, srefines t l -> Permutation (map fst (contents (t_entries t))) l.
  Proof.
    intros t l [_ [_ [_ [_ [Hp _]]]]]. rewrite <- (map_fst_numbered l). apply Permutation_map. assumption.
  Qed.

  Lemma order_of_present : forall t l s i i' v,
      srefines t l -> index_of l s = Some i -> slot_at (t_entries t) i' = Some (s, v) -> v = S i.
  Proof.
    intros t l s i i' v Href Hi Hs.
    pose proof Href as [_ [_ [_ [Hnd [Hp _]]]]].
    assert (In (s, v) (numbered l)) as H1.
    { eapply Permutation_in; [exact Hp|]. apply (proj2 (In_contents name nat _ _)). exists i'. assumption. }
    assert (In (s, S i) (numbered l)) as H2.
    { apply (index_of_Some_In l s i 1). assumption. }
    eapply combine_functional; eassumption.
  Qed.

  Lemma present_slot : forall t l s i,
      srefines t l -> index_of l s = Some i -> exists i0, slot_at (t_entries t) i0 = Some (s, S i).
  Proof.
    intros t l s i Href Hi. pose proof Href as [_ [_ [_ [_ [Hp _]]]]].
    apply (proj1 (In_contents name nat _ _)).
    eapply Permutation_in; [apply Permutation_sym; exact Hp|].
    apply (index_of_Some_In l s i 1). assumption.
  Qed.

  Lemma absent_of_None : forall t l s,
      srefines t l -> index_of l s = None -> absent name nat (t_entries t) s.
  Proof.
    intros t l s Href Hi. apply absent_notin. intros F.
    apply index_of_None_notin in Hi. apply Hi.
    eapply Permutation_in; [apply srefines_names; eassumption|assumption].
  Qed.

  Lemma lookup_refines : forall t l s,
      srefines t l -> strtab_lookup_string t s = Ok (alookup l s).
  Proof.
    intros t l s Href. pose proof (srefines_not_full t l Href) as Hfree.
    pose proof Href as [Hsz [Hlen [Hch _]]].
    unfold StrTabModel.strtab_lookup_string, StrTabModel.alookup.
    destruct (index_of l s) as [i|] eqn:E.
    - destruct (present_slot t l s i Href E) as [i0 Hs0].
      destruct (lookup_present name name_eqb hash nat name_eqb_spec (t_entries t) (t_size t) i0 s (S i) Hsz Hlen Hch Hs0)
        as [i' [v' [Hl Hs]]].
      rewrite Hl. unfold StrTabModel.order_at. rewrite Hs.
      rewrite (order_of_present t l s i i' v' Href E Hs). reflexivity.
    - rewrite (lookup_absent name name_eqb hash nat name_eqb_spec (t_entries t) (t_size t) s Hsz Hlen Hfree);
        [reflexivity|]. apply (absent_of_None t l); assumption.
  Qed.

  Lemma add_refines : forall t l s,
      srefines t l ->
      exists t', strtab_add_string t s = Ok (t', snd (asstep l (SAdd s))) /\
                 srefines t' (fst (asstep l (SAdd s))).
  Proof.
    intros t l s Href. pose proof (srefines_not_full t l Href) as Hfree.
    pose proof Href as [Hsz [Hlen [Hch [Hnd [Hp [Hc Hle]]]]]].
    unfold StrTabModel.strtab_add_string. simpl.
    destruct (index_of l s) as [i|] eqn:E; simpl.
    - destruct (present_slot t l s i Href E) as [i0 Hs0].
      destruct (add_dedup_present name name_eqb hash nat name_eqb_spec (t_entries t) (t_size t) i0 s (S i) (t_count t)
                                  Hsz Hlen Hch Hs0) as [i' [v' [Ha Hs]]].
      rewrite Ha. unfold StrTabModel.order_at. rewrite Hs.
      rewrite (order_of_present t l s i i' v' Href E Hs).
      pose proof (index_of_lt l s i E).
      replace (S i =? t_count t) with false by (symmetry; apply Nat.eqb_neq; lia).
      exists t. split; [reflexivity|assumption].
    - destruct (add_dedup_absent_spec name name_eqb hash nat name_eqb_spec (t_entries t) (t_size t) s (t_count t)
                                      Hsz Hlen Hfree Hch (absent_of_None t l s Href E)) as [e [Ha [Hl' [Hc' Hp']]]].
      rewrite Ha. unfold StrTabModel.strtab_bump.
      assert (Permutation (contents e) (numbered (l ++ [s]))) as HP.
      { rewrite numbered_app. rewrite <- Hc.
        eapply perm_trans; [exact Hp'|].
        eapply perm_trans; [apply perm_skip; exact Hp|]. apply Permutation_cons_append. }
      assert (NoDup (l ++ [s])) as HND.
      { apply (Permutation_NoDup (l := s :: l)); [apply Permutation_cons_append|].
        constructor; [apply index_of_None_notin; assumption|assumption]. }
      destruct (tab_resize_dedup_ok name name_eqb hash nat name_eqb_spec (mk_tab (t_size t) (S (t_count t)) e))
        as [t' [Hr [Hsz' [Hlen' [Hch' [Hpp [Hcc Hcase]]]]]]]; cbn [t_size t_count t_entries]; try assumption.
      { apply (Permutation_NoDup (l := l ++ [s])); [|assumption].
        rewrite <- (map_fst_numbered (l ++ [s])). apply Permutation_map. apply Permutation_sym. assumption. }
      rewrite Hr. exists t'. split; [rewrite Hc; reflexivity|].
      cbn [t_size t_count t_entries] in *.
      split; [assumption|]. split; [assumption|]. split; [assumption|]. split; [assumption|].
      split; [eapply perm_trans; eassumption|].
      split; [rewrite Hcc, Hc, app_length; simpl; lia|].
      rewrite Hcc. destruct Hcase as [[Hgt Hs2]|[Hle2 ->]]; cbn [t_size].
      + rewrite Hs2. pose proof (three_quarters_double (t_size t) Hsz). lia.
      + lia.
  Qed.

  Lemma sstep_sim : forall t l o,
      srefines t l ->
      exists t', sstep t o = Ok (t', snd (asstep l o)) /\ srefines t' (fst (asstep l o)).
  Proof.
    intros t l [s|s] Href.
    - apply add_refines. assumption.
    - simpl. rewrite (lookup_refines t l s Href). exists t. split; [reflexivity|assumption].
  Qed.

  Lemma srun_sim : forall ops t l,
      srefines t l ->
      exists t', srun t ops = Ok (t', snd (asrun l ops)) /\ srefines t' (fst (asrun l ops)).
  Proof.
    induction ops as [|o rest IH]; intros t l Href; simpl.
    - exists t. split; [reflexivity|assumption].
    - destruct (sstep_sim t l o Href) as [t1 [Hs Hr1]]. rewrite Hs.
      destruct (asstep l o) as [l1 r] eqn:Ea. simpl in *.
      destruct (IH t1 l1 Hr1) as [t2 [Hrun Hr2]]. rewrite Hrun.
      destruct (asrun l1 rest) as [l2 rs] eqn:Er. simpl in *.
      exists t2. split; [reflexivity|assumption].
  Qed.

  Lemma new_srefines : forall size, 1 <= size -> srefines (strtab_new size) [].
  Proof.
    intros size H. unfold StrTabModel.strtab_new, srefines. cbn [t_size t_count t_entries].
    split; [lia|]. split; [apply length_entry_new|]. split; [apply chain_entry_new|].
    split; [constructor|]. split; [rewrite contents_entry_new; constructor|].
    split; [reflexivity|]. simpl. lia.
  Qed.

  (* ---- strtab_to_array ------------------------------------------------------------------------------ *)
  Lemma set_nth_spec : forall (A : Type) (l : list A) i a,
      i < length l ->
      exists l', set_nth l i a = Some l' /\ length l' = length l /\
                 nth_error l' i = Some a /\ forall j, j <> i -> nth_error l' j = nth_error l j.
  Proof.
    induction l as [|x t IH]; intros i a Hi; simpl in Hi; [lia|].
    destruct i as [|i]; simpl.
    - eexists. split; [reflexivity|]. split; [reflexivity|]. split; [reflexivity|].
      intros [|j] Hj; [congruence|reflexivity].
    - destruct (IH i a ltac:(lia)) as [l' [Hs [Hl [Hn Ho]]]]. rewrite Hs.
      eexists. split; [reflexivity|]. split; [simpl; lia|]. split; [assumption|].
      intros [|j] Hj; [reflexivity|]. simpl. apply Ho. congruence.
  Qed.

  (* writing the pairs of `es` (all orders inside the array, pairwise different) into arr *)
  Lemma fill_array_spec : forall (es : entries name nat) arr,
      (forall s o, In (s, o) (contents es) -> o < length arr) ->
      NoDup (map snd (contents es)) ->
      exists arr', fill_array name es arr = Some arr' /\ length arr' = length arr /\
                   (forall s o, In (s, o) (contents es) -> nth_error arr' o = Some (Some s)) /\
                   (forall j, ~ In j (map snd (contents es)) -> nth_error arr' j = nth_error arr j).
  Proof.
    induction es as [|[[s o]|] t IH]; intros arr Hb Hnd; simpl.
    - exists arr. repeat split; auto. intros s o [].
    - simpl in Hnd. apply NoDup_cons_iff in Hnd. destruct Hnd as [Hx Hnd].
      destruct (set_nth_spec _ arr o (Some s)) as [arr1 [Hs [Hl [Hn Ho]]]].
      { apply (Hb s o). simpl. left. reflexivity. }
      rewrite Hs.
      destruct (IH arr1) as [arr' [Hf [Hl' [Hin Hout]]]].
      { intros s' o' H'. rewrite Hl. apply (Hb s' o'). simpl. right. assumption. }
      { assumption. }
      exists arr'. split; [assumption|]. split; [congruence|]. split.
      + intros s' o' [H'|H'].
        * injection H' as <- <-. rewrite Hout; assumption.
        * apply Hin. assumption.
      + intros j Hj. simpl in Hj. rewrite Hout by tauto. apply Ho. intros F. apply Hj. left. congruence.
    - apply IH; assumption.
  Qed.

  Lemma map_snd_numbered : forall l, map snd (numbered l) = seq 1 (length l).
  Proof.
    intros l. unfold numbered. generalize 1. induction l as [|x t IH]; simpl; intros k; [reflexivity|].
    f_equal. apply IH.
  Qed.

  Lemma nth_error_numbered : forall l k s,
      nth_error l k = Some s -> In (s, S k) (numbered l).
  Proof.
    intros l k s H. unfold numbered.
    assert (forall (l : list name) k b s, nth_error l k = Some s -> In (s, b + k) (combine l (seq b (length l)))) as G.
    { induction l0 as [|x t IH]; intros [|k0] b s0 H0; simpl in *; try discriminate.
      - injection H0 as ->. left. f_equal. lia.
      - right. replace (b + S k0) with (S b + k0) by lia. apply IH. assumption. }
    apply (G l k 1 s H).
  Qed.

  Lemma nth_error_ext : forall (A : Type) (a b : list A),
      (forall k, nth_error a k = nth_error b k) -> a = b.
  Proof.
    induction a as [|x a IH]; destruct b as [|y b]; intros H; try reflexivity.
    - specialize (H 0). discriminate.
    - specialize (H 0). discriminate.
    - pose proof (H 0) as H0. simpl in H0. injection H0 as ->. f_equal.
      apply IH. intros k. apply (H (S k)).
  Qed.

  Theorem to_array_refines : forall t l,
      srefines t l -> strtab_to_array t = Some (None :: map Some l).
  Proof.
    intros t l Href. pose proof Href as [_ [_ [_ [_ [Hp [Hc _]]]]]].
    unfold StrTabModel.strtab_to_array.
    destruct (fill_array_spec (t_entries t) (repeat None (t_count t))) as [arr [Hf [Hl [Hin Hout]]]].
    - intros s o H. rewrite repeat_length, Hc.
      apply (Permutation_in _ Hp) in H. apply (in_map snd) in H. rewrite map_snd_numbered in H.
      simpl in H. apply in_seq in H. lia.
    - apply (Permutation_NoDup (l := map snd (numbered l))).
      + apply Permutation_map. apply Permutation_sym. assumption.
      + rewrite map_snd_numbered. apply seq_NoDup.
    - rewrite Hf. f_equal. apply nth_error_ext. intros k.
      assert (forall j, In j (map snd (contents (t_entries t))) <-> 1 <= j <= length l) as Hord.
      { intros j. split; intros H.
        - apply (Permutation_in (l' := map snd (numbered l))) in H; [|apply Permutation_map; assumption].
          rewrite map_snd_numbered in H. apply in_seq in H. lia.
        - apply (Permutation_in (l := map snd (numbered l))); [apply Permutation_map; apply Permutation_sym; assumption|].
          rewrite map_snd_numbered. apply in_seq. lia. }
      destruct k as [|j].
      + rewrite Hout by (rewrite Hord; lia). rewrite Hc. reflexivity.
      + change (nth_error (None :: map Some l) (S j)) with (nth_error (map Some l) j).
        destruct (nth_error l j) as [s|] eqn:E.
        * rewrite (map_nth_error Some j l E). apply Hin.
          eapply Permutation_in; [apply Permutation_sym; exact Hp|]. apply nth_error_numbered. assumption.
        * apply nth_error_None in E.
          replace (nth_error (map Some l) j) with (@None (option name))
            by (symmetry; apply nth_error_None; rewrite map_length; assumption).
          apply nth_error_None. rewrite Hl, repeat_length, Hc. lia.
  Qed.

  (* ---- the theorems ----------------------------------------------------------------------------------- *)
  Theorem strtab_refines_list : forall size ops,
      1 <= size ->
      exists t,
        srun (strtab_new size) ops = Ok (t, snd (asrun [] ops)) /\
        (forall s, strtab_lookup_string t s = Ok (alookup (fst (asrun [] ops)) s)) /\
        strtab_to_array t = Some (None :: map Some (fst (asrun [] ops))) /\
        NoDup (fst (asrun [] ops)) /\
        t_count t = S (length (fst (asrun [] ops))) /\
        t_count t = S (nocc (t_entries t)) /\
        nocc (t_entries t) < t_size t.
  Proof.
    intros size ops Hsz.
    destruct (srun_sim ops (strtab_new size) [] (new_srefines size Hsz)) as [t [Hrun Href]].
    exists t. split; [assumption|]. split; [intros s; apply lookup_refines; assumption|].
    split; [apply to_array_refines; assumption|].
    pose proof (srefines_nocc t _ Href) as Hn. pose proof (srefines_not_full t _ Href) as Hf.
    destruct Href as [_ [_ [_ [Hnd [_ [Hc _]]]]]].
    split; [assumption|]. split; [assumption|]. split; [lia|assumption].
  Qed.

End StrTabProofs.
