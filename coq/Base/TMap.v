(* Total maps N -> A with a default, on top of PositiveMap: function-like reasoning
   (two lemmas) with logarithmic access after extraction. *)
From Coq Require Import NArith PArith FMapPositive.

Record tmap (A : Type) := { tm_default : A; tm_map : PositiveMap.t A }.
Arguments tm_default {A}. Arguments tm_map {A}.

Definition tm_init {A} (d : A) : tmap A := {| tm_default := d; tm_map := PositiveMap.empty A |}.

Definition tget {A} (m : tmap A) (a : N) : A :=
  match PositiveMap.find (N.succ_pos a) (tm_map m) with
  | Some x => x
  | None => tm_default m
  end.

Definition tset {A} (m : tmap A) (a : N) (x : A) : tmap A :=
  {| tm_default := tm_default m; tm_map := PositiveMap.add (N.succ_pos a) x (tm_map m) |}.

Lemma tget_init {A} (d : A) a : tget (tm_init d) a = d.
Proof. unfold tget, tm_init; simpl. now rewrite PositiveMap.gempty. Qed.

Lemma tget_set_same {A} (m : tmap A) a x : tget (tset m a x) a = x.
Proof. unfold tget, tset; simpl. now rewrite PositiveMap.gss. Qed.

Lemma succ_pos_inj a b : N.succ_pos a = N.succ_pos b -> a = b.
Proof.
  intros H. apply (f_equal Npos) in H. rewrite !N.succ_pos_spec in H.
  now apply N.succ_inj.
Qed.

Lemma tget_set_other {A} (m : tmap A) a b x : a <> b -> tget (tset m a x) b = tget m b.
Proof.
  intros H. unfold tget, tset; simpl. rewrite PositiveMap.gso; auto.
  intro E. apply H. symmetry. now apply succ_pos_inj.
Qed.

Lemma tget_set {A} (m : tmap A) a b x :
  tget (tset m a x) b = if N.eqb a b then x else tget m b.
Proof.
  destruct (N.eqb_spec a b) as [->|H]; [apply tget_set_same | now apply tget_set_other].
Qed.

Global Opaque tget tset tm_init.
