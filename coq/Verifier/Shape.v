(* The stack-shape machine: the Never VM of back/vmexec.c with every value erased.
   It keeps exactly what decides control flow and frame discipline: ip, the stack as a list
   of slot kinds (values vs. the five header slots MARK writes), the frame registers fp/pp,
   and a ghost "current function".  All data-dependent behaviour is left to the environment:
   a step is given the *observed* next (ip, sp) and answers whether that observation is a
   possible successor (Next), is not (Mismatch), or whether the instruction itself is
   ill-shaped in this state (Crash).  DESIGN.md §5 C07.

   Registers are shifted by one so that they are naturals: P = pp+1, F = fp+1, and
   sp+1 = length of the stack list. Index i of the list is VM slot i. *)
From Coq Require Import List Arith Bool Lia.
Import ListNotations.

Inductive slot :=
| SVal                          (* GC_MEM_ADDR value slot *)
| SPP (p : nat)                 (* saved pp (+1) *)
| SLine
| SGp                           (* saved gp: an ADDR slot, but never an operand *)
| SFP (f : nat)                 (* saved fp (+1) *)
| SIP (a : nat) (caller : nat). (* return address; ghost: the function that executed MARK *)

Inductive ainstr :=
| AOp (reads : list nat) (pops pushes : nat)  (* reads: sp-relative offsets read before popping *)
| AJump (tgt : nat)
| AJumpz (tgt : nat)
| AMark (ret : nat)
| ACall
| ARet (ffi : bool)             (* ffi: the RET closing a FUNC_FFI body (its parameters are already popped) *)
| ARethrow
| AClear (n : nat)
| ASlide (q m : nat)
| AMkFunc (addr : nat)          (* ID_FUNC_ADDR: the environment vector on top becomes a function value *)
| APushParam                    (* pushes the parameters of the chosen entry function *)
| AFfi (retaddr : nat)          (* FUNC_FFI: pops the parameters, pushes the result, continues at its RET *)
| AHalt
| AUnhandled
| ABad.                         (* UNKNOWN, unresolved ID_FUNC_FUNC, END, stray FFI descriptor *)

Record st := { ip : nat; stk : list slot; P : nat; F : nat; cur : nat }.

Inductive crash :=
| BadJump            (* ip outside the code / not an instruction *)
| Underflow          (* pops reach into or below the innermost frame header *)
| BadRead            (* an sp-relative read leaves the frame or hits a header slot *)
| BadHeader          (* RET/RETHROW does not find a header where fp points *)
| RetPartial         (* RET while a frame is under construction *)
| RetDepth           (* RET with more or less than exactly the result above the parameters *)
| BadClear           (* CLEAR_STACK above the written part of the stack *)
| BadFuncAddr        (* function value built for an address that is not a function entry *)
| BadInstr           (* ABad reached *)
| NoHandler.         (* a fault is raised at (or rethrown to) an address that lies in no block of the
                        exception table: exception_tab_search returns NULL, the VM asserts / dereferences it *)

Inductive outcome :=
| Next (s : st)
| Mismatch           (* the observation is not a successor of this state *)
| ArityStuck         (* CALL of a function whose arity differs from the arguments pushed *)
| Crash (c : crash)
| Stop.              (* HALT / UNHANDLED_EXCEPTION *)

Section Machine.
Variable code : nat -> option ainstr.      (* decoded instruction at an address *)
Variable handler : nat -> option nat.      (* exception table lookup *)
Variable np : nat -> nat.                  (* parameter count of the function entered at an address *)
Variable is_entry : nat -> bool.           (* address is a function entry *)
Variable entry : nat.                      (* the entry function chosen by nev_prepare *)

Definition top_is_val (l : list slot) : bool :=
  match nth_error l (length l - 1) with Some SVal => true | _ => false end.

(* every read offset k denotes a value slot at index len-1-k >= P *)
Definition read_ok (l : list slot) (Pc : nat) (k : nat) : bool :=
  (k <? length l - Pc) &&
  match nth_error l (length l - 1 - k) with Some SVal => true | _ => false end.

Definition setip (s : st) (a : nat) (l : list slot) : st :=
  {| ip := a; stk := l; P := P s; F := F s; cur := cur s |}.

(* a fault: control goes to the handler of the faulting address; the handler of the C code
   may have popped some (never more than all) of the operands *)
Definition fault (s : st) (pops : nat) (ip' len' : nat) : outcome :=
  match handler (ip s) with
  | Some h =>
    if (h =? ip') && (length (stk s) - pops <=? len') && (len' <=? length (stk s))
    then Next (setip s h (firstn len' (stk s)))
    else Mismatch
  | None => Crash NoHandler
  end.

(* frame exit shared by RET (at P) and RETHROW (at F): header at indices fr-5 .. fr-1 *)
Definition unwind (s : st) (fr : nat) (k : nat -> list slot -> nat -> nat -> nat -> outcome) : outcome :=
  if fr <? 5 then Crash BadHeader else
  match nth_error (stk s) (fr - 5), nth_error (stk s) (fr - 4), nth_error (stk s) (fr - 3),
        nth_error (stk s) (fr - 2), nth_error (stk s) (fr - 1) with
  | Some (SPP p0), Some SLine, Some SGp, Some (SFP f0), Some (SIP a c) =>
      k a (firstn (fr - 5) (stk s) ++ [SVal]) p0 f0 c
  | _, _, _, _, _ => Crash BadHeader
  end.

Definition step (s : st) (ip' len' : nat) : outcome :=
  let l := stk s in
  let len := length l in
  match code (ip s) with
  | None => Crash BadJump
  | Some i =>
    match i with
    | AOp reads pops pushes =>
      if negb (forallb (read_ok l (P s)) reads) then Crash BadRead
      else if len - F s <? pops then Crash Underflow
      else if (ip' =? S (ip s)) then
        if len' =? len - pops + pushes
        then Next (setip s (S (ip s)) (firstn (len - pops) l ++ repeat SVal pushes))
        else Mismatch
      else fault s pops ip' len'
    | AJump t =>
      if (ip' =? t) && (len' =? len) then Next (setip s t l) else Mismatch
    | AJumpz t =>
      if len - F s <? 1 then Crash Underflow
      else if negb (top_is_val l) then Crash BadRead
      else if ((ip' =? t) || (ip' =? S (ip s))) && (len' =? len - 1)
      then Next (setip s ip' (firstn (len - 1) l)) else Mismatch
    | AMark r =>
      if (ip' =? S (ip s)) && (len' =? len + 5)
      then Next {| ip := S (ip s); stk := l ++ [SPP (P s); SLine; SGp; SFP (F s); SIP r (cur s)];
                   P := P s; F := len + 5; cur := cur s |}
      else Mismatch
    | ACall =>
      if len - F s <? 1 then Crash Underflow
      else if negb (top_is_val l) then Crash BadRead
      else if is_entry ip' && (len' =? len - 1) then
        if len - 1 - F s =? np ip'
        then Next {| ip := ip'; stk := firstn (len - 1) l; P := F s; F := F s; cur := ip' |}
        else ArityStuck
      else fault s 1 ip' len'
    | ARet ffi =>
      if negb (F s =? P s) then Crash RetPartial
      else if negb (len =? P s + (if ffi then 0 else np (cur s)) + 1) then Crash RetDepth
      else if negb (top_is_val l) then Crash BadRead
      else unwind s (P s) (fun a l' p0 f0 c =>
             if (ip' =? a) && (len' =? length l')
             then Next {| ip := a; stk := l'; P := p0; F := f0; cur := c |} else Mismatch)
    | ARethrow =>
      unwind s (F s) (fun a l' p0 f0 c =>
             match handler (a - 1) with
             | Some h =>
               if (1 <=? a) && (ip' =? h) && (len' =? length l')
               then Next {| ip := h; stk := l'; P := p0; F := f0; cur := c |} else Mismatch
             | None => Crash NoHandler
             end)
    | AClear n =>
      if len <? P s + n then Crash BadClear
      else if (ip' =? S (ip s)) && (len' =? P s + n)
      then Next {| ip := S (ip s); stk := firstn (P s + n) l; P := P s; F := P s; cur := cur s |}
      else Mismatch
    | ASlide q m =>
      if q =? 0 then
        if (ip' =? S (ip s)) && (len' =? len) then Next (setip s (S (ip s)) l) else Mismatch
      else if len - F s <? q + m then Crash Underflow
      else if negb (forallb (read_ok l (P s)) (seq 0 m)) then Crash BadRead
      else if (ip' =? S (ip s)) && (len' =? len - q)
      then Next (setip s (S (ip s)) (firstn (len - q - m) l ++ skipn (len - m) l))
      else Mismatch
    | AMkFunc a =>
      if len - F s <? 1 then Crash Underflow
      else if negb (top_is_val l) then Crash BadRead
      else if negb (is_entry a) then Crash BadFuncAddr
      else if (ip' =? S (ip s)) && (len' =? len) then Next (setip s (S (ip s)) l) else Mismatch
    | APushParam =>
      if (ip' =? S (ip s)) && (len' =? len + np entry)
      then Next (setip s (S (ip s)) (l ++ repeat SVal (np entry))) else Mismatch
    | AFfi r =>
      if negb (F s =? P s) then Crash RetPartial
      else if negb (len =? P s + np (cur s)) then Crash RetDepth
      else if (ip' =? r) && (len' =? P s + 1)
      then Next (setip s r (firstn (P s) l ++ [SVal]))
      else fault s (np (cur s)) ip' len'
    | AHalt => Stop
    | AUnhandled => Stop
    | ABad => Crash BadInstr
    end
  end.

(* running along a sequence of observations *)
Fixpoint run (s : st) (obs : list (nat * nat)) : outcome :=
  match obs with
  | [] => Next s
  | (ip', len') :: rest =>
    match step s ip' len' with
    | Next s' => run s' rest
    | o => o
    end
  end.

Definition init : st := {| ip := 0; stk := []; P := 0; F := 0; cur := 0 |}.

End Machine.
