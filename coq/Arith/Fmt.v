(* Arith/Fmt.v — text produced when a number is concatenated to a string (front/strutil.c
   string_add_int "%d", string_add_long "%lld", string_add_float "%.2f", string_add_double
   "%.2lf"; the same formats are used by string_print_<type>).  glibc's printf converts the
   exact binary value and rounds the decimal expansion to nearest, ties to even.
   Definitions only; no theorem of the property files depends on this file — it is tied to the
   code by the correspondence runs of C11 only.
   NaN prints as "nan" here; glibc prints "-nan" when the sign bit is set (SpecFloat has no
   NaN sign): the harness maps "-nan" to "nan". *)
From Coq Require Import ZArith Bool String Ascii Floats.SpecFloat.
From NV Require Import Arith.Bits Arith.FloatOps.
Local Open Scope Z_scope.

Definition digit_char (d : Z) : ascii := ascii_of_nat (48 + Z.to_nat d).

(* decimal digits of n >= 0, most significant first; fuel >= number of digits *)
Fixpoint dec_digits (fuel : nat) (n : Z) (acc : string) : string :=
  match fuel with
  | O => acc
  | S k =>
      let acc' := String (digit_char (n mod 10)) acc in
      if n / 10 =? 0 then acc' else dec_digits k (n / 10) acc'
  end.

Definition dec_nat (n : Z) : string := dec_digits (S (Z.to_nat (Z.log2 n))) n EmptyString.

(* "%d" / "%lld" *)
Definition fmt_int (z : Z) : string :=
  if z <? 0 then String "-"%char (dec_nat (- z)) else dec_nat z.

(* round num/den (den > 0, num >= 0) to the nearest integer, ties to even *)
Definition round_half_even (num den : Z) : Z :=
  let q := num / den in
  let r := num mod den in
  match Z.compare (2 * r) den with
  | Lt => q
  | Gt => q + 1
  | Eq => if Z.even q then q else q + 1
  end.

Definition two_digits (n : Z) : string :=
  String (digit_char (n / 10)) (String (digit_char (n mod 10)) EmptyString).

(* "%.2f" of the exact value of x *)
Definition fmt_fixed2_sf (x : spec_float) : string :=
  let sign (s : bool) (body : string) := if s then String "-"%char body else body in
  match x with
  | S754_nan => "nan"%string
  | S754_infinity s => sign s "inf"%string
  | S754_zero s => sign s "0.00"%string
  | S754_finite s m e =>
      let h :=
        match e with
        | Zneg p => round_half_even (Zpos m * 100) (2 ^ Zpos p)
        | _ => Zpos m * 2 ^ e * 100
        end in
      sign s (String.append (dec_nat (h / 100)) (String "."%char (two_digits (h mod 100))))
  end.

Definition fmt_fixed2 (f : fmt) (bits : Z) : string := fmt_fixed2_sf (decode f bits).
