(* Proofs about the exception-table search (model: Exc/ExcTab.v).  No axioms. *)
From Coq Require Import ZArith List Bool Lia.
From NV Require Import Exc.ExcTab.
Import ListNotations.
Local Open Scope Z_scope.

(* strictly sorted by block address on indices 0..n (index n is the sentinel) *)
Definition sorted (tab : list entry) (n : Z) : Prop :=
  forall i j, 0 <= i -> i < j -> j <= n -> blk tab i < blk tab j.

Lemma sorted_le tab n i j : sorted tab n -> 0 <= i -> i <= j -> j <= n -> blk tab i <= blk tab j.
Proof.
  intros Hs Hi Hij Hj. destruct (Z.eq_dec i j) as [->|Hne]; [lia|].
  specialize (Hs i j). lia.
Qed.

Lemma middle_between from to :
  from <= to -> from <= from + Z.quot (to - from) 2 <= to.
Proof.
  intros H. rewrite Z.quot_div_nonneg by lia.
  pose proof (Z.div_pos (to - from) 2).
  pose proof (Z.div_le_upper_bound (to - from) 2 (to - from)). lia.
Qed.

Lemma between_cases first second ip :
  (exctab_between first second ip = -1 /\ ip < fst first) \/
  (exctab_between first second ip = 1 /\ fst first <= ip /\ fst second <= ip) \/
  (exctab_between first second ip = 0 /\ fst first <= ip < fst second).
Proof.
  unfold exctab_between.
  destruct (ip <? fst first) eqn:H1.
  - apply Z.ltb_lt in H1. left. lia.
  - apply Z.ltb_ge in H1. destruct (fst second <=? ip) eqn:H2.
    + apply Z.leb_le in H2. right; left. lia.
    + apply Z.leb_gt in H2. right; right. lia.
Qed.

Lemma search_sound : forall fuel tab from to ip r,
  search_loop fuel tab from to ip = Found r ->
  from <= r <= to /\ blk tab r <= ip < blk tab (r + 1).
Proof.
  induction fuel as [|k IH]; intros tab from to ip r H; cbn [search_loop] in H.
  - destruct (from <=? to); discriminate.
  - destruct (from <=? to) eqn:Hft; [|discriminate].
    apply Z.leb_le in Hft.
    pose proof (middle_between from to Hft) as Hmid.
    set (mid := from + Z.quot (to - from) 2) in *.
    destruct (between_cases (ent tab mid) (ent tab (mid + 1)) ip) as [[E Hc]|[[E Hc]|[E Hc]]];
      rewrite E in H; cbn in H.
    + apply IH in H. lia.
    + apply IH in H. lia.
    + inversion H; subst r. unfold blk in *. lia.
Qed.

Lemma search_complete : forall fuel tab from to ip n,
  sorted tab n -> 0 <= from -> from <= to + 1 -> to < n ->
  (Z.to_nat (to - from + 1) <= fuel)%nat ->
  blk tab from <= ip < blk tab (to + 1) ->
  exists r, search_loop fuel tab from to ip = Found r.
Proof.
  induction fuel as [|k IH]; intros tab from to ip n Hs Hf Hto Ht Hfuel Hip.
  - assert (E : to + 1 = from) by lia. rewrite E in Hip. lia.
  - cbn [search_loop].
    destruct (from <=? to) eqn:Hft.
    + apply Z.leb_le in Hft.
      pose proof (middle_between from to Hft) as Hmid.
      set (mid := from + Z.quot (to - from) 2) in *.
      destruct (between_cases (ent tab mid) (ent tab (mid + 1)) ip) as [[E Hc]|[[E Hc]|[E Hc]]];
        rewrite E; cbn.
      * apply (IH tab from (mid - 1) ip n); try assumption; try lia.
        replace (mid - 1 + 1) with mid by lia. unfold blk in *. lia.
      * apply (IH tab (mid + 1) to ip n); try assumption; try lia.
        unfold blk in *. lia.
      * eauto.
    + apply Z.leb_gt in Hft.
      assert (E : to + 1 = from) by lia. rewrite E in Hip. lia.
Qed.

Lemma search_below : forall fuel tab from to ip n,
  sorted tab n -> 0 <= from -> to < n ->
  (Z.to_nat (to - from + 1) <= fuel)%nat ->
  ip < blk tab from ->
  search_loop fuel tab from to ip = NotFound.
Proof.
  induction fuel as [|k IH]; intros tab from to ip n Hs Hf Ht Hfuel Hip; cbn [search_loop].
  - destruct (from <=? to) eqn:Hft; [apply Z.leb_le in Hft; lia | reflexivity].
  - destruct (from <=? to) eqn:Hft; [|reflexivity].
    apply Z.leb_le in Hft.
    pose proof (middle_between from to Hft) as Hmid.
    set (mid := from + Z.quot (to - from) 2) in *.
    pose proof (sorted_le tab n from mid Hs) as Hle.
    destruct (between_cases (ent tab mid) (ent tab (mid + 1)) ip) as [[E Hc]|[[E Hc]|[E Hc]]];
      rewrite E; cbn.
    + apply (IH tab from (mid - 1) ip n); try assumption; lia.
    + unfold blk in *. lia.
    + unfold blk in *. lia.
Qed.

Lemma search_no_fuel_out : forall fuel tab from to ip,
  (Z.to_nat (to - from + 1) <= fuel)%nat ->
  search_loop fuel tab from to ip <> OutOfFuel.
Proof.
  induction fuel as [|k IH]; intros tab from to ip Hfuel; cbn [search_loop].
  - destruct (from <=? to) eqn:Hft; [apply Z.leb_le in Hft; lia | discriminate].
  - destruct (from <=? to) eqn:Hft; [|discriminate].
    apply Z.leb_le in Hft.
    pose proof (middle_between from to Hft) as Hmid.
    set (mid := from + Z.quot (to - from) 2) in *.
    destruct (exctab_between (ent tab mid) (ent tab (mid + 1)) ip <? 0).
    + apply IH. lia.
    + destruct (0 <? exctab_between (ent tab mid) (ent tab (mid + 1)) ip).
      * apply IH. lia.
      * discriminate.
Qed.

(* the statement used by C03/C12 *)
Theorem search_spec : forall tab n ip,
  1 <= n -> sorted tab n -> blk tab n = UINT_MAX ->
  (* found exactly when ip lies in some block; the block is unique *)
  (blk tab 0 <= ip < UINT_MAX ->
     exists i, exctab_search (Some tab) n ip = Found i /\ 0 <= i < n /\
               blk tab i <= ip < blk tab (i + 1) /\
               forall j, 0 <= j < n -> blk tab j <= ip < blk tab (j + 1) -> j = i) /\
  (* NULL only below the first block (or at the sentinel value itself) *)
  (ip < blk tab 0 -> exctab_search (Some tab) n ip = NotFound) /\
  (exctab_search (Some tab) n ip = NotFound -> ip < blk tab 0 \/ UINT_MAX <= ip) /\
  (* whatever is returned is right, and the fuel of the model always suffices *)
  (forall i, exctab_search (Some tab) n ip = Found i ->
             0 <= i < n /\ blk tab i <= ip < blk tab (i + 1)) /\
  exctab_search (Some tab) n ip <> OutOfFuel.
Proof.
  intros tab n ip Hn Hs Hsent.
  unfold exctab_search.
  destruct (n =? 0) eqn:En; [apply Z.eqb_eq in En; lia|].
  assert (Hfuel : (Z.to_nat (n - 1 - 0 + 1) <= Z.to_nat n)%nat) by lia.
  assert (Hfound : blk tab 0 <= ip < UINT_MAX ->
     exists i, search_loop (Z.to_nat n) tab 0 (n - 1) ip = Found i /\ 0 <= i < n /\
               blk tab i <= ip < blk tab (i + 1) /\
               forall j, 0 <= j < n -> blk tab j <= ip < blk tab (j + 1) -> j = i).
  { intros Hip.
    destruct (search_complete (Z.to_nat n) tab 0 (n - 1) ip n) as [r Hr]; try assumption; try lia.
    { replace (n - 1 + 1) with n by lia. lia. }
    exists r. split; [exact Hr|].
    apply search_sound in Hr. destruct Hr as [Hr1 Hr2].
    split; [lia|]. split; [exact Hr2|].
    intros j Hj Hbj.
    destruct (Z.lt_trichotomy j r) as [Hlt|[Heq|Hgt]]; [|exact Heq|].
    - pose proof (sorted_le tab n (j + 1) r Hs). lia.
    - pose proof (sorted_le tab n (r + 1) j Hs). lia. }
  split; [exact Hfound|].
  split.
  { intros Hip. apply (search_below (Z.to_nat n) tab 0 (n - 1) ip n); try assumption; lia. }
  split.
  { intros Hnf.
    destruct (Z_lt_le_dec ip (blk tab 0)) as [|Hge]; [now left|].
    destruct (Z_lt_le_dec ip UINT_MAX) as [Hlt|]; [|now right].
    destruct Hfound as [i [Hi _]]; [lia|]. congruence. }
  split.
  { intros i Hi. apply search_sound in Hi. lia. }
  apply search_no_fuel_out. lia.
Qed.

(* degenerate inputs of the C function *)
Lemma search_null : forall n ip, exctab_search None n ip = NotFound.
Proof. reflexivity. Qed.

Lemma search_empty : forall tab ip, exctab_search (Some tab) 0 ip = NotFound.
Proof. reflexivity. Qed.

(* exception_tab_insert keeps "entries ++ [sentinel]" *)
Lemma exctab_of_list_shape : forall l,
  et_count (exctab_of_list l) = Z.of_nat (length l) /\
  et_tab (exctab_of_list l) = l ++ [sentinel].
Proof.
  intros l. unfold exctab_of_list.
  assert (G : forall l acc,
    et_count (fold_left (fun t e => exception_tab_insert t (fst e) (snd e)) l
                {| et_count := Z.of_nat (length acc); et_tab := acc ++ [sentinel] |})
      = Z.of_nat (length (acc ++ l)) /\
    et_tab (fold_left (fun t e => exception_tab_insert t (fst e) (snd e)) l
                {| et_count := Z.of_nat (length acc); et_tab := acc ++ [sentinel] |})
      = (acc ++ l) ++ [sentinel]).
  { induction l0 as [|[b h] t IH]; intros acc; cbn [fold_left].
    - rewrite app_nil_r. cbn. auto.
    - unfold exception_tab_insert at 2 4. cbn [et_count et_tab fst snd].
      rewrite Nat2Z.id. rewrite firstn_app, firstn_all, Nat.sub_diag. cbn [firstn].
      rewrite app_nil_r.
      replace (Z.of_nat (length acc) + 1) with (Z.of_nat (length (acc ++ [(b, h)])))
        by (rewrite app_length; cbn; lia).
      replace (acc ++ [(b, h); sentinel]) with ((acc ++ [(b, h)]) ++ [sentinel])
        by (rewrite <- app_assoc; reflexivity).
      specialize (IH (acc ++ [(b, h)])).
      replace (acc ++ (b, h) :: t) with ((acc ++ [(b, h)]) ++ t)
        by (rewrite <- app_assoc; reflexivity).
      exact IH. }
  specialize (G l []). cbn in G. exact G.
Qed.

(* the premises of search_spec are satisfiable: a three-entry table *)
Example search_spec_example :
  let tab := [(0, 90); (10, 40); (55, 70); sentinel] in
  1 <= 3 /\ sorted tab 3 /\ blk tab 3 = UINT_MAX /\
  exctab_search (Some tab) 3 54 = Found 1 /\ exctab_search (Some tab) 3 55 = Found 2 /\
  exctab_search (Some [(5, 1); sentinel]) 1 4 = NotFound.
Proof.
  cbv zeta. split; [lia|]. split.
  { intros i j Hi Hij Hj.
    assert (Hc : (i = 0 \/ i = 1 \/ i = 2) /\ (j = 1 \/ j = 2 \/ j = 3)) by lia.
    destruct Hc as [[-> | [-> | ->]] [-> | [-> | ->]]]; try lia; vm_compute; reflexivity. }
  repeat split; vm_compute; reflexivity.
Qed.
