(* Arith/PromoteProofs.v — theorems over the REGENERATED tables Gen/ConvTables.v and
   Gen/OpSelect.v.  The tables enumerate a finite domain completely, so every statement is a
   boolean check evaluated by the kernel (vm_compute) and lifted with forallb_forall: these
   are proofs about what the tree's typechecker and emitter do NOW.

   (1) tie of the hand-written model (Promote.v) to the tables: cell-by-cell agreement;
   (2) the property statements of C11 about typing and opcode selection; where the tree
       violates one, the violation is proved (`_refuted`, with the cell as witness) next to
       the statement restricted to the remaining cells (`_partial`). *)
From Coq Require Import ZArith Bool List String.
From NV Require Import Arith.NumTy Arith.Promote Gen.ConvTables Gen.OpSelect.
Import ListNotations.

Definition oty_eqb (a b : option ty) : bool :=
  match a, b with
  | None, None => true
  | Some x, Some y => ty_eqb x y
  | _, _ => false
  end.

Lemma ty_eqb_eq : forall a b, ty_eqb a b = true <-> a = b.
Proof. destruct a, b; cbn; split; intro H; try reflexivity; try discriminate. Qed.

Lemma conv_eqb_eq : forall a b, conv_eqb a b = true <-> a = b.
Proof. destruct a, b; cbn; split; intro H; try reflexivity; try discriminate. Qed.

Lemma binop_eqb_eq : forall a b, binop_eqb a b = true <-> a = b.
Proof. destruct a, b; cbn; split; intro H; try reflexivity; try discriminate. Qed.

Lemma unop_eqb_eq : forall a b, unop_eqb a b = true <-> a = b.
Proof. destruct a, b; cbn; split; intro H; try reflexivity; try discriminate. Qed.

Lemma oty_eqb_eq : forall a b, oty_eqb a b = true <-> a = b.
Proof.
  destruct a as [a|], b as [b|]; cbn; split; intro H; try reflexivity; try discriminate.
  - apply ty_eqb_eq in H. now subst.
  - inversion H. now apply ty_eqb_eq.
Qed.

Lemma oconv_eqb_eq : forall a b, oconv_eqb a b = true <-> a = b.
Proof.
  destruct a as [a|], b as [b|]; cbn; split; intro H; try reflexivity; try discriminate.
  - apply conv_eqb_eq in H. now subst.
  - inversion H. now apply conv_eqb_eq.
Qed.

(* ---- lookups ---------------------------------------------------------------------- *)

Definition find_bin (o : binop) (l r : ty) : option bin_row :=
  find (fun x => binop_eqb (br_op x) o && ty_eqb (br_l x) l && ty_eqb (br_r x) r) binary_table.
Definition find_binop (o : binop) (l r : ty) : option binop_row :=
  find (fun x => binop_eqb (bo_op x) o && ty_eqb (bo_l x) l && ty_eqb (bo_r x) r) binop_table.
Definition find_un (o : unop) (t : ty) : option un_row :=
  find (fun x => unop_eqb (ur_op x) o && ty_eqb (ur_t x) t) unary_table.
Definition find_unop (o : unop) (t : ty) : option unop_row :=
  find (fun x => unop_eqb (uo_op x) o && ty_eqb (uo_t x) t) unop_table.
Definition find_ass (l r : ty) : option ass_row :=
  find (fun x => ty_eqb (ar_l x) l && ty_eqb (ar_r x) r) assign_table.
Definition find_assop (l r : ty) : option assop_row :=
  find (fun x => ty_eqb (ao_l x) l && ty_eqb (ao_r x) r) assop_table.

Definition is_some {A} (o : option A) : bool := match o with Some _ => true | None => false end.

(* the tables are complete: one row for every operator and every ordered pair of types *)
Definition tables_complete : bool :=
  forallb (fun o => forallb (fun l => forallb (fun r =>
     is_some (find_bin o l r) && is_some (find_binop o l r)) all_ty) all_ty) all_binop
  && forallb (fun o => forallb (fun t => is_some (find_un o t) && is_some (find_unop o t)) all_ty) all_unop
  && forallb (fun l => forallb (fun r => is_some (find_ass l r) && is_some (find_assop l r)) all_ty) all_ty.

Lemma tables_are_complete : tables_complete = true.
Proof. vm_compute. reflexivity. Qed.

(* ---- (1) model = tables ------------------------------------------------------------- *)

Definition model_emit_bin (o : binop) (l r : ty) : emit_obs :=
  match check_bin o l r with
  | None => EmitNone
  | Some (res, cl, cr) =>
      match o with
      | And | Or => EmitJumps
      | _ => match emit_bin o (apply_conv l cl) (apply_conv r cr) res with
             | Some v => EmitOp v
             | None => EmitAbort
             end
      end
  end.

Definition model_emit_un (o : unop) (t : ty) : emit_obs :=
  match check_un o t with
  | None => EmitNone
  | Some res => match emit_un o t res with Some v => EmitOp v | None => EmitAbort end
  end.

Definition model_emit_ass (l r : ty) : emit_obs :=
  match check_ass l r with
  | None => EmitNone
  | Some (res, _) => match emit_ass res with Some v => EmitOp v | None => EmitAbort end
  end.

(* when the compiler aborts in emit.c only bool-ness of the result type was observable *)
Definition res_matches (aborted : bool) (observed : option ty) (model : ty) : bool :=
  if aborted then match observed with None => negb (ty_eqb model TBool) | Some t => ty_eqb t model end
  else oty_eqb observed (Some model).

Definition is_abort (e : emit_obs) : bool := match e with EmitAbort => true | _ => false end.

Definition bin_row_ok (x : bin_row) : bool :=
  match check_bin (br_op x) (br_l x) (br_r x) with
  | None => negb (br_accepted x) && oty_eqb (br_res x) None
  | Some (t, cl, cr) =>
      let ab := is_abort (model_emit_bin (br_op x) (br_l x) (br_r x)) in
      br_accepted x && res_matches ab (br_res x) t &&
      (ab || match br_op x with And | Or => true | _ => oconv_eqb (br_cl x) cl && oconv_eqb (br_cr x) cr end)
  end.

Definition un_row_ok (x : un_row) : bool :=
  match check_un (ur_op x) (ur_t x) with
  | None => negb (ur_accepted x) && oty_eqb (ur_res x) None
  | Some t => ur_accepted x &&
              res_matches (is_abort (model_emit_un (ur_op x) (ur_t x))) (ur_res x) t
  end.

Definition ass_row_ok (x : ass_row) : bool :=
  match check_ass (ar_l x) (ar_r x) with
  | None => negb (ar_accepted x) && oconv_eqb (ar_conv x) None
  | Some (_, c) => ar_accepted x && oconv_eqb (ar_conv x) c
  end.

Theorem typecheck_model_matches_tables :
  forallb bin_row_ok binary_table && forallb un_row_ok unary_table
  && forallb ass_row_ok assign_table = true.
Proof. vm_compute. reflexivity. Qed.

Theorem emit_model_matches_tables :
  forallb (fun x => emit_obs_eqb (bo_emit x) (model_emit_bin (bo_op x) (bo_l x) (bo_r x))) binop_table
  && forallb (fun x => emit_obs_eqb (uo_emit x) (model_emit_un (uo_op x) (uo_t x))) unop_table
  && forallb (fun x => emit_obs_eqb (ao_emit x) (model_emit_ass (ao_l x) (ao_r x))) assop_table = true.
Proof. vm_compute. reflexivity. Qed.

(* ---- (2) property statements ---------------------------------------------------------- *)

(* which operators admit which numeric operand types *)
Definition admits (o : binop) (l r : ty) : bool :=
  match o with
  | Add | Sub | Mul | Div | OLt | OGt | OLe | OGe | OEq | ONe => is_num l && is_num r
  | Mod | BAnd | BOr | BXor | Shl | Shr =>
      match l, r with (TInt | TLong), (TInt | TLong) => true | _, _ => false end
  | And | Or => false
  end.

Definition result_ty (o : binop) (j : ty) : ty := if is_cmp o then TBool else j.

(* a mixed binary operation promotes along int -> long -> float -> double: both operands are
   brought to the join of their types, the result has that type (bool for comparisons) *)
Definition join_ok (x : bin_row) : bool :=
  implb (admits (br_op x) (br_l x) (br_r x))
    (let j := join (br_l x) (br_r x) in
     br_accepted x
     && ty_eqb (apply_conv (br_l x) (br_cl x)) j
     && ty_eqb (apply_conv (br_r x) (br_cr x)) j
     && oty_eqb (br_res x) (Some (result_ty (br_op x) j))).

Lemma join_ok_all : forallb join_ok binary_table = true.
Proof. vm_compute. reflexivity. Qed.

Theorem binary_result_is_join :
  forall x, In x binary_table -> admits (br_op x) (br_l x) (br_r x) = true ->
    let j := join (br_l x) (br_r x) in
    br_accepted x = true /\
    apply_conv (br_l x) (br_cl x) = j /\ apply_conv (br_r x) (br_cr x) = j /\
    br_res x = Some (result_ty (br_op x) j).
Proof.
  intros x Hin Hadm j.
  pose proof (proj1 (forallb_forall join_ok binary_table) join_ok_all x Hin) as H.
  unfold join_ok in H. rewrite Hadm in H. cbn [implb] in H.
  fold j in H.
  apply andb_true_iff in H. destruct H as [H H4].
  apply andb_true_iff in H. destruct H as [H H3].
  apply andb_true_iff in H. destruct H as [H1 H2].
  repeat split; try assumption.
  - now apply ty_eqb_eq.
  - now apply ty_eqb_eq.
  - now apply oty_eqb_eq.
Qed.

(* ... and every numeric pair is present in the table (so the statement above is about all
   16 pairs of every operator class) *)
Theorem binary_table_covers_numeric_pairs :
  forall o l r, admits o l r = true ->
    exists x, In x binary_table /\ br_op x = o /\ br_l x = l /\ br_r x = r.
Proof.
  intros o l r _.
  assert (C : is_some (find_bin o l r) = true).
  { destruct o, l, r; vm_compute; reflexivity. }
  unfold find_bin in C.
  destruct (find _ binary_table) as [x|] eqn:E; [|discriminate].
  apply find_some in E. destruct E as [Hin Hk].
  apply andb_true_iff in Hk. destruct Hk as [Hk Hr].
  apply andb_true_iff in Hk. destruct Hk as [Ho Hl].
  exists x. repeat split; try assumption.
  - now apply binop_eqb_eq.
  - now apply ty_eqb_eq.
  - now apply ty_eqb_eq.
Qed.

(* an assignment converts the right side to the left side's type and stores it with the left
   type's store opcode *)
Definition ass_cell_ok (l r : ty) : bool :=
  match find_ass l r, find_assop l r with
  | Some x, Some y =>
      ar_accepted x && ty_eqb (apply_conv r (ar_conv x)) l
      && emit_obs_eqb (ao_emit y) (EmitOp (VAss l))
  | _, _ => false
  end.

Lemma ass_cells_ok : forallb (fun l => forallb (fun r => ass_cell_ok l r) num_ty) num_ty = true.
Proof. vm_compute. reflexivity. Qed.

Theorem assignment_converts_to_left :
  forall l r, is_num l = true -> is_num r = true -> ass_cell_ok l r = true.
Proof.
  intros l r Hl Hr.
  destruct l, r; try discriminate; vm_compute; reflexivity.
Qed.

(* the opcode emitted for an operator is the operator's own opcode at the common operand type
   (bool and item-enum operands are ints at run time) *)
Definition runtime_ty (t : ty) : ty := match t with TBool | TEnum => TInt | _ => t end.

Definition expected_opcode (o : binop) (l r : ty) (cl cr : option conv) : vmop :=
  let l' := apply_conv l cl in
  let r' := apply_conv r cr in
  match o, l', r' with
  | Add, TString, _ | Add, _, TString => VCat l' r'
  | _, _, _ => VBin o (runtime_ty l')
  end.

Definition opcode_cell_ok (y : binop_row) : bool :=
  match bo_emit y, find_bin (bo_op y) (bo_l y) (bo_r y) with
  | EmitOp v, Some x => vmop_eqb v (expected_opcode (bo_op y) (bo_l y) (bo_r y) (br_cl x) (br_cr x))
  | EmitOp _, None => false
  | _, _ => true
  end.

Lemma opcode_cells_ok : forallb opcode_cell_ok binop_table = true.
Proof. vm_compute. reflexivity. Qed.

Theorem opcode_matches_type : forall y, In y binop_table -> opcode_cell_ok y = true.
Proof. exact (proj1 (forallb_forall opcode_cell_ok binop_table) opcode_cells_ok). Qed.

(* unary operators: the opcode is the operator's own at the operand's run-time type *)
Lemma unop_opcodes_ok :
  forallb (fun y => match uo_emit y with
                    | EmitOp v => vmop_eqb v (VUn (uo_op y) (runtime_ty (uo_t y)))
                    | _ => true
                    end) unop_table = true.
Proof. vm_compute. reflexivity. Qed.

Theorem unary_opcode_matches_type :
  forall y v, In y unop_table -> uo_emit y = EmitOp v -> v = VUn (uo_op y) (runtime_ty (uo_t y)).
Proof.
  intros y v Hin He.
  pose proof (proj1 (forallb_forall _ unop_table) unop_opcodes_ok y Hin) as H.
  cbn beta in H. rewrite He in H.
  destruct v as [o t|o t|c|t|l r|n]; cbn in H; try discriminate.
  apply andb_true_iff in H. destruct H as [Ho Ht].
  apply unop_eqb_eq in Ho. apply ty_eqb_eq in Ht. now subst.
Qed.

(* every program the typechecker accepts can be emitted *)
Definition emitted_statement : Prop :=
  forall y, In y binop_table -> bo_emit y <> EmitAbort.

(* true since /repo 2ca194c (an item enumerator operand is typed int): before, the 19 cells
   < <= > >= % (x 3 enum pairs) and == != (enum,int / int,enum) ended in assert(0) *)
Lemma no_cell_aborts :
  forallb (fun y => negb (is_abort (bo_emit y))) binop_table = true.
Proof. vm_compute. reflexivity. Qed.

Theorem accepted_cells_are_emitted : emitted_statement.
Proof.
  intros y Hin Ha.
  pose proof (proj1 (forallb_forall _ binop_table) no_cell_aborts y Hin) as H.
  cbn beta in H. rewrite Ha in H. discriminate H.
Qed.


