(* pp — Src.Syntax AST -> Never source text.

   Layout is stable: every record field list is one line, every function header is one line,
   `{` and `}` of a function body / catch clause / block stand on their own lines and every item
   of a block is printed starting on a line of its own, so the line of every item is known
   (`item_lines` returns them).  Compound subexpressions are always parenthesised, so the
   printer does not depend on the operator precedences of front/parser.y.

   Names: ident k < 1000 is `v<k>`; larger idents (used by the injective renaming) are spelled
   with letters, `_` and one digit, which can never be a keyword or a library function.  The entry
   function is always printed as `main`.  Record r is `R<r>` / `R<letters>`, its fields
   `f<pos>` / `f<letters>_<pos>`.  Array dimension names (`t[D3] : int`) are numbered in print
   order; they are binders of the concrete syntax only.

   Pipes: Src.Syntax has no `|>`; the concrete language defines  a |> f(b, c)  as  f(a, b, c)  and
   (a, b) : (T1, T2) |> f(c)  as  f(a, b, c)  (the tuple is unpacked into the leading arguments;
   evaluation order c, b, a, then f — confirmed on the real compiler, same as the call).  With
   `~pipe:pct` the printer spells that percentage of the calls whose callee is a name with a known
   signature (named function or function-typed parameter) in the piped form, so that the real
   compiler's pipe/tuple code is exercised while the evaluator sees the plain call. *)
open Compilemodel
open Conv

let letters k =
  let b = Buffer.create 8 in
  let rec go k = Buffer.add_char b (Char.chr (97 + k mod 26)); if k >= 26 then go (k / 26 - 1) in
  go k; Buffer.contents b

let name_of_int k =
  if k < 1000 then "v" ^ string_of_int k
  else letters (k - 1000) ^ "_" ^ string_of_int (k mod 10)

let rec_name k = if k < 1000 then "R" ^ string_of_int k else "R" ^ letters (k - 1000) ^ "_" ^ string_of_int (k mod 10)
let field_name r pos = if r < 1000 then "f" ^ string_of_int pos else "f" ^ letters (r - 1000) ^ "_" ^ string_of_int pos

let binop_str = function
  | Add -> "+" | Sub -> "-" | Mul -> "*" | Div -> "/" | Mod -> "%"
  | Lt0 -> "<" | Le -> "<=" | Gt0 -> ">" | Ge -> ">=" | Eq0 -> "==" | Ne -> "!="
  | And -> "&&" | Or -> "||" | BAnd -> "&&&" | BOr -> "|||" | BXor -> "^^^"
  | Shl -> "<<<" | Shr -> ">>>"

type sigt = { ptys : ty list; pvars : bool list }

type pr = {
  pipe : int;                    (* percent of eligible calls printed with |> *)
  mutable ncall : int;           (* eligible calls seen so far *)
  mutable npiped : int;
  mutable tenv : (int * sigt option) list;   (* names in scope whose call signature is known *)
  b : Buffer.t;
  mutable line : int;            (* current line, 1-based *)
  mutable dims : int;            (* next array dimension name *)
  main : int;
  mutable items : (int * string) list;   (* line of each item, with its kind *)
}

let nl p = Buffer.add_char p.b '\n'; p.line <- p.line + 1
let str p s = Buffer.add_string p.b s
let indent p n = for _ = 1 to n do str p "    " done

let vname p x = let k = int_of_n x in if k = p.main then "main" else name_of_int k

let dim p = p.dims <- p.dims + 1; "D" ^ string_of_int p.dims

(* a type in "unnamed parameter" position: return types, function type arguments, array element *)
let rec ty_str p = function
  | TInt -> "int"
  | TBool -> "bool"
  | TFun (args, ret) -> "(" ^ String.concat ", " (List.map (ty_str p) args) ^ ") -> " ^ ty_str p ret
  | TArr t -> let d = dim p in "[" ^ d ^ "] : " ^ ty_str p t
  | TRec r -> rec_name (int_of_n r)

(* a named parameter / record field *)
let param_str p name t =
  match t with
  | TInt | TBool | TRec _ -> name ^ " : " ^ ty_str p t
  | TFun (args, ret) -> name ^ "(" ^ String.concat ", " (List.map (ty_str p) args) ^ ") -> " ^ ty_str p ret
  | TArr e -> let d = dim p in name ^ "[" ^ d ^ "] : " ^ ty_str p e

let atomic = function
  | EInt z -> (match z with Zneg _ -> false | _ -> true)
  | EBool _ | EVar _ | EIndex _ | EField _ | EPrint _ | ERecNew _ | ERecNil _ -> true
  | ECall (ELambda _, _) -> false
  | ECall _ -> true
  | _ -> false

let rec expr p ind e =
  match e with
  | EInt z ->
    let k = int_of_z z in
    if k >= 0 then str p (string_of_int k)
    else if k = -2147483648 then str p "-2147483647 - 1"
    else str p ("-" ^ string_of_int (- k))
  | EBool true -> str p "true"
  | EBool false -> str p "false"
  | EVar x -> str p (vname p x)
  | ENeg a -> str p "-"; sub p ind a
  | ENot a -> str p "!"; sub p ind a
  | EBNot a -> str p "~~~"; sub p ind a
  | EBin (op, a, b) -> sub p ind a; str p (" " ^ binop_str op ^ " "); sub p ind b
  | ECond (c, a, b) ->
    (match a, b with
     | EBlock _, _ | _, EBlock _ ->
       str p "if ("; expr p ind c; str p ")"; nl p; braced p ind a;
       nl p; indent p ind; str p "else"; nl p; braced p ind b
     | _ -> sub p ind c; str p " ? "; sub p ind a; str p " : "; sub p ind b)
  | EIf (c, a) -> str p "if ("; expr p ind c; str p ")"; nl p; braced p ind a
  | EAssign (l, r) -> sub p ind l; str p " = "; sub p ind r
  | ECall (f, args) ->
    let callee () =
      match f with
      | EVar _ -> expr p ind f
      | ELambda fd -> lambda p ind fd
      | _ -> str p "("; expr p ind f; str p ")" in
    (match pipe_split p f args with
     | Some (piped, tys, rest) ->
       p.npiped <- p.npiped + 1;
       (match piped with
        | [a] -> sub p ind a
        | _ -> str p "("; commas p ind piped; str p ") : ("; str p (String.concat ", " (List.map (ty_str p) tys)); str p ")");
       str p " |> "; callee (); str p "("; commas p ind rest; str p ")"
     | None -> callee (); str p "("; commas p ind args; str p ")")
  | EBlock items -> block p ind items
  | EWhile (c, body) -> str p "while ("; expr p ind c; str p ")"; nl p; braced p ind body
  | EDoWhile (body, c) -> str p "do"; nl p; braced p ind body; nl p; indent p ind; str p "while ("; expr p ind c; str p ")"
  | EFor (i, c, s, body) ->
    str p "for ("; expr p ind i; str p "; "; expr p ind c; str p "; "; expr p ind s; str p ")"; nl p;
    braced p ind body
  | EForInRange (x, a, b, body) ->
    str p ("for (" ^ vname p x ^ " in ["); sub p ind a; str p " .. "; sub p ind b; str p "])"; nl p;
    let saved = p.tenv in
    p.tenv <- (int_of_n x, None) :: p.tenv; braced p ind body; p.tenv <- saved
  | EForInArr (x, a, body) ->
    str p ("for (" ^ vname p x ^ " in "); (match a with EArrLit _ -> expr p ind a | _ -> sub p ind a); str p ")"; nl p;
    let saved = p.tenv in
    p.tenv <- (int_of_n x, None) :: p.tenv; braced p ind body; p.tenv <- saved
  | ELambda fd -> lambda p ind fd
  | EArrLit (es, t) -> str p "["; commas p ind es; str p "] : "; str p (ty_str p t)
  | EIndex (a, i) -> sub p ind a; str p "["; expr p ind i; str p "]"
  | ERecNew (r, args) -> str p (rec_name (int_of_n r)); str p "("; commas p ind args; str p ")"
  | ERecNil r -> str p (rec_name (int_of_n r))     (* the record name alone: nil of that record type *)
  | EField (a, r, pos) -> sub p ind a; str p "."; str p (field_name (int_of_n r) (int_of_nat pos))
  | EPrint a -> str p "print("; expr p ind a; str p ")"

and sub p ind e =
  let at = atomic e && (match e with ECall _ -> p.pipe = 0 | _ -> true) in
  if at then expr p ind e else (str p "("; expr p ind e; str p ")")

(* decide whether this call is printed as a pipe; Some (piped arguments, their types, the rest) *)
and pipe_split p f args =
  if p.pipe <= 0 || args = [] then None
  else match f with
    | EVar x ->
      (match List.assoc_opt (int_of_n x) p.tenv with
       | Some (Some sg) when List.length sg.ptys = List.length args ->
         p.ncall <- p.ncall + 1;
         let h = (p.ncall * 2654435761) lsr 7 in
         if h mod 100 >= p.pipe then None
         else begin
           let n = List.length args in
           let k = 1 + ((p.ncall * 40503) lsr 3) mod n in
           let rec take k l = if k <= 0 then [] else match l with [] -> [] | x :: t -> x :: take (k - 1) t in
           let rec drop k l = if k <= 0 then l else match l with [] -> [] | _ :: t -> drop (k - 1) t in
           let piped = take k args in
           let okarg = function ERecNil _ -> false | _ -> true in
           if List.exists (fun v -> v) (take k sg.pvars) || not (List.for_all okarg piped) then None
           else Some (piped, take k sg.ptys, drop k args)
         end
       | _ -> None)
    | _ -> None

and commas p ind es =
  List.iteri (fun i a -> if i > 0 then str p ", "; expr p ind a) es

(* `{` on the current (already indented or fresh) line: the caller has just emitted a newline *)
and braced p ind e =
  match e with
  | EBlock items -> indent p ind; block p ind items
  | _ -> indent p ind; block p ind [IExpr e]

(* prints `{ NL items NL ind }` ; the opening brace goes where the cursor is *)
and block p ind items =
  str p "{"; nl p;
  let saved = p.tenv in
  let n = List.length items in
  List.iteri (fun i it ->
      indent p (ind + 1);
      (match it with IFunc fd -> p.tenv <- (int_of_n (fd_name fd), Some (sig_of fd)) :: p.tenv | _ -> ());
      item p (ind + 1) it;
      (match it with ILet (x, _) | IVar (x, _) -> p.tenv <- (int_of_n x, None) :: p.tenv | _ -> ());
      if i < n - 1 then str p ";";
      nl p) items;
  p.tenv <- saved;
  indent p ind; str p "}"

and sig_of (FDef (_, params, _, _, _, _)) =
  { ptys = List.map snd params; pvars = List.map (fun ((_, v), _) -> v) params }

and item p ind it =
  match it with
  | ILet (x, e) -> p.items <- (p.line, "let") :: p.items; str p ("let " ^ vname p x ^ " = "); expr p ind e
  | IVar (x, e) -> p.items <- (p.line, "var") :: p.items; str p ("var " ^ vname p x ^ " = "); expr p ind e
  | IFunc fd -> p.items <- (p.line, "func") :: p.items; fdef p ind (Some (fd_name fd)) fd
  | IExpr e -> p.items <- (p.line, "expr") :: p.items; expr p ind e

and lambda p ind fd = str p "let "; fdef p ind None fd

and fdef p ind name fd =
  let FDef (_, params, ret, body, catches, call) = fd in
  let ps = List.map (fun ((x, isvar), t) -> (if isvar then "var " else "") ^ param_str p (vname p x) t) params in
  let ps = String.concat ", " ps in
  str p ("func " ^ (match name with Some x -> vname p x | None -> "") ^ "(" ^ ps ^ ") -> " ^ ty_str p ret);
  let saved = p.tenv in
  List.iter (fun ((x, _), t) ->
      p.tenv <- (int_of_n x, (match t with TFun (a, _) -> Some { ptys = a; pvars = List.map (fun _ -> false) a } | _ -> None)) :: p.tenv) params;
  let restore () = p.tenv <- saved in
  nl p; indent p ind; block p ind body;
  List.iter (fun (ex, h) ->
      nl p; indent p ind; str p ("catch (" ^ exn_name ex ^ ")"); nl p; indent p ind; block p ind h) catches;
  (match call with
   | Some h -> nl p; indent p ind; str p "catch"; nl p; indent p ind; block p ind h
   | None -> ());
  restore ()

let record_decl p (r, tys) =
  str p ("record " ^ rec_name (int_of_n r) ^ " { ");
  List.iteri (fun i t -> str p (param_str p (field_name (int_of_n r) i) t); str p "; ") tys;
  str p "}"; nl p

let print_program_full ?(pipe = 0) (prog : program) : string * (int * string) list * int =
  let p = { pipe; ncall = 0; npiped = 0; tenv = []; b = Buffer.create 4096; line = 1; dims = 0;
            main = int_of_n prog.p_main; items = [] } in
  p.tenv <- List.map (fun fd -> (int_of_n (fd_name fd), Some (sig_of fd))) prog.p_funcs;
  List.iter (record_decl p) prog.p_recs;
  List.iter (fun fd -> fdef p 0 (Some (fd_name fd)) fd; nl p) prog.p_funcs;
  (Buffer.contents p.b, List.rev p.items, p.npiped)

let print_program_lines (prog : program) : string * (int * string) list =
  let s, l, _ = print_program_full prog in (s, l)

let print_program ?(pipe = 0) (prog : program) : string = let s, _, _ = print_program_full ~pipe prog in s
