(* rng — the generator's own pseudo random numbers (xorshift64*, seeded through splitmix64).
   Everything a run draws derives from one integer seed; `split` gives an independent stream so
   that the choices made for case i do not depend on how many numbers case i-1 consumed. *)
type t = { mutable s : int64 }

let splitmix (x : int64) : int64 =
  let open Int64 in
  let z = add x 0x9E3779B97F4A7C15L in
  let z = mul (logxor z (shift_right_logical z 30)) 0xBF58476D1CE4E5B9L in
  let z = mul (logxor z (shift_right_logical z 27)) 0x94D049BB133111EBL in
  logxor z (shift_right_logical z 31)

let make (seed : int) : t =
  let s = splitmix (Int64.of_int seed) in
  { s = (if s = 0L then 0x1234567L else s) }

let next (r : t) : int64 =
  let open Int64 in
  let x = r.s in
  let x = logxor x (shift_right_logical x 12) in
  let x = logxor x (shift_left x 25) in
  let x = logxor x (shift_right_logical x 27) in
  r.s <- x;
  mul x 0x2545F4914F6CDD1DL

(* uniform in [0, n) *)
let int (r : t) (n : int) : int =
  if n <= 1 then 0
  else Int64.to_int (Int64.rem (Int64.shift_right_logical (next r) 3) (Int64.of_int n))

(* uniform in [lo, hi] *)
let range r lo hi = if hi <= lo then lo else lo + int r (hi - lo + 1)
let bool r = int r 2 = 0
(* true with probability p/100 *)
let pct r p = p > 0 && int r 100 < p
let pick r (l : 'a list) : 'a = List.nth l (int r (List.length l))
let pick_arr r (a : 'a array) : 'a = a.(int r (Array.length a))

(* weighted choice among (weight, value); weights <= 0 are never chosen *)
let weighted r (l : (int * 'a) list) : 'a =
  let l = List.filter (fun (w, _) -> w > 0) l in
  let tot = List.fold_left (fun a (w, _) -> a + w) 0 l in
  if tot = 0 then failwith "Rng.weighted: no choice";
  let k = int r tot in
  let rec go k = function
    | [(_, v)] -> v
    | (w, v) :: t -> if k < w then v else go (k - w) t
    | [] -> failwith "Rng.weighted" in
  go k l

let split (r : t) : t = { s = (let s = splitmix (next r) in if s = 0L then 0x7654321L else s) }
let derive (seed : int) (k : int) : t = make (Int64.to_int (splitmix (Int64.add (Int64.mul (Int64.of_int seed) 1000003L) (Int64.of_int k))))

let shuffle r (l : 'a list) : 'a list =
  let a = Array.of_list l in
  for i = Array.length a - 1 downto 1 do
    let j = int r (i + 1) in
    let t = a.(i) in a.(i) <- a.(j); a.(j) <- t
  done;
  Array.to_list a
