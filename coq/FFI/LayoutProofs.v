(* FFI/LayoutProofs.v — proofs about FFI/Layout.v (property C17).  No axioms.

   Main statements (re-exported by Properties/Properties_C17.v):
     layout_is_c_layout            the running-offset loop of vmffi.c yields the System V layout
     marshal_within_bounds         _record_value writes only inside [0, size) of the malloc'ed buffer
     marshal_unmarshal_roundtrip   _record_new o _record_value = identity on nil-free values
     marshal_ret_iff_nil           _record_value returns 1 exactly when the value contains a nil
     descriptor_stream_wellformed  emit.c descriptors re-parse to the type; total_count skips
                                   exactly the sub-tree of a nil record
     nil_arg_is_ffi_fail (+ _partial, _refuted for the pinned tree's `prep_vals = ...`)        *)
From Coq Require Import NArith List Bool Lia.
From NV Require Import FFI.Layout.
Import ListNotations.
Local Open Scope N_scope.

(* ---------------------------------------------------------------------------------------- *)
(* Induction over nested record types / values                                                *)

Lemma fty_ind' (P : fty -> Prop) :
  P TBool -> P TInt -> P TLong -> P TFloat -> P TDouble -> P TChar -> P TString -> P TCPtr ->
  (forall fs, Forall P fs -> P (TRec fs)) -> forall t, P t.
Proof.
  intros Hb Hi Hl Hf Hd Hc Hs Hp Hr.
  fix IH 1. intros [| | | | | | | |fs]; try assumption.
  apply Hr. induction fs as [|f r IHr]; constructor; [apply IH | exact IHr].
Qed.

Lemma fval_ind' (P : fval -> Prop) :
  (forall b, P (VScalar b)) -> (forall p, P (VStr p)) -> P (VRec None) ->
  (forall vs, Forall P vs -> P (VRec (Some vs))) -> forall v, P v.
Proof.
  intros Hs Hp Hn Hr.
  fix IH 1. intros [b|p|[vs|]]; [apply Hs | apply Hp | | exact Hn].
  apply Hr. induction vs as [|v r IHr]; constructor; [apply IH | exact IHr].
Qed.

Lemma forallb'_Forall {A} (p : A -> bool) l : forallb' p l = true <-> Forall (fun x => p x = true) l.
Proof.
  induction l as [|x r IH]; simpl.
  - split; auto.
  - rewrite andb_true_iff, IH. split.
    + intros [H1 H2]. constructor; auto.
    + intros H. inversion H; auto.
Qed.

(* ---------------------------------------------------------------------------------------- *)
(* Alignment arithmetic                                                                       *)

Definition pow2 (a : N) : Prop := exists k, a = 2 ^ k.

Lemma pow2_pos a : pow2 a -> 0 < a.
Proof. intros [k ->]. apply N.neq_0_lt_0. apply N.pow_nonzero. discriminate. Qed.

Lemma pow2_max a b : pow2 a -> pow2 b -> pow2 (N.max a b).
Proof. intros Ha Hb. destruct (N.max_dec a b) as [-> | ->]; auto. Qed.

Lemma pow2_divide a b : pow2 a -> pow2 b -> a <= b -> (a | b).
Proof.
  intros [i ->] [j ->] H.
  assert (i <= j) by (apply (N.pow_le_mono_r_iff 2); [lia | exact H]).
  exists (2 ^ (j - i)). rewrite <- N.pow_add_r. f_equal. lia.
Qed.

(* the bit trick of vm_execute_func_ffi_align is the rounding of libffi / the C ABI *)
Lemma ffi_align_round_up v a : pow2 a -> ffi_align v a = round_up v a.
Proof.
  intros [k ->]. unfold ffi_align, round_up.
  destruct (N.eqb_spec (2 ^ k) 1) as [E|E].
  - rewrite E. simpl. rewrite N.add_0_r, N.div_1_r, N.mul_1_r. reflexivity.
  - replace (2 ^ k - 1) with (N.ones k) by (rewrite N.ones_equiv; lia).
    rewrite N.ldiff_ones_r, N.shiftr_div_pow2, N.shiftl_mul_pow2. reflexivity.
Qed.

Lemma round_up_divide v a : 0 < a -> (a | round_up v a).
Proof. intros _. unfold round_up. exists ((v + (a - 1)) / a). reflexivity. Qed.

Lemma round_up_ge v a : 0 < a -> v <= round_up v a.
Proof.
  intros Ha. unfold round_up.
  pose proof (N.div_mod (v + (a - 1)) a ltac:(lia)) as D.
  pose proof (N.mod_lt (v + (a - 1)) a ltac:(lia)) as M.
  rewrite (N.mul_comm _ a). set (p := a * ((v + (a - 1)) / a)) in *. set (r := (v + (a - 1)) mod a) in *. clearbody p r. lia.
Qed.

Lemma round_up_lt v a : 0 < a -> round_up v a < v + a.
Proof.
  intros Ha. unfold round_up.
  pose proof (N.div_mod (v + (a - 1)) a ltac:(lia)) as D.
  pose proof (N.mod_lt (v + (a - 1)) a ltac:(lia)) as M.
  rewrite (N.mul_comm _ a). set (p := a * ((v + (a - 1)) / a)) in *. set (r := (v + (a - 1)) mod a) in *. clearbody p r. lia.
Qed.

Lemma round_up_least v a m : 0 < a -> (a | m) -> v <= m -> round_up v a <= m.
Proof.
  intros Ha [q ->] Hv. unfold round_up.
  apply N.mul_le_mono_r.
  assert (v + (a - 1) < (q + 1) * a) by nia.
  apply N.lt_succ_r. rewrite <- N.add_1_r. apply N.div_lt_upper_bound; lia.
Qed.

Lemma round_up_fix v a : 0 < a -> (a | v) -> round_up v a = v.
Proof.
  intros Ha Hd. apply N.le_antisymm.
  - apply round_up_least; auto. lia.
  - apply round_up_ge; auto.
Qed.

Lemma round_up_shift o v a : 0 < a -> (a | o) -> round_up (o + v) a = o + round_up v a.
Proof.
  intros Ha [q ->]. unfold round_up.
  replace (q * a + v + (a - 1)) with (q * a + (v + (a - 1))) by lia.
  rewrite N.div_add_l by lia. lia.
Qed.

(* offset o is the least multiple of a that is >= e *)
Definition least_aligned (e a o : N) : Prop :=
  (a | o) /\ e <= o /\ forall m, (a | m) -> e <= m -> o <= m.

Lemma ffi_align_least e a : pow2 a -> least_aligned e a (ffi_align e a).
Proof.
  intros Ha. rewrite ffi_align_round_up by auto. pose proof (pow2_pos _ Ha).
  repeat split.
  - apply round_up_divide; auto.
  - apply round_up_ge; auto.
  - intros m Hm He. apply round_up_least; auto.
Qed.

Lemma ffi_align_ge e a : pow2 a -> e <= ffi_align e a.
Proof. intros Ha. apply (ffi_align_least e a Ha). Qed.

Lemma ffi_align_lt e a : pow2 a -> ffi_align e a < e + a.
Proof. intros Ha. rewrite ffi_align_round_up by auto. apply round_up_lt, pow2_pos, Ha. Qed.

Lemma ffi_align_idem e a : pow2 a -> ffi_align (ffi_align e a) a = ffi_align e a.
Proof.
  intros Ha. rewrite !ffi_align_round_up by auto.
  apply round_up_fix; [apply pow2_pos, Ha | apply round_up_divide, pow2_pos, Ha].
Qed.

Lemma ffi_align_shift o v a : pow2 a -> (a | o) -> ffi_align (o + v) a = o + ffi_align v a.
Proof. intros Ha Ho. rewrite !ffi_align_round_up by auto. apply round_up_shift; auto. apply pow2_pos, Ha. Qed.

(* ---------------------------------------------------------------------------------------- *)
(* size / alignment of well-formed types                                                      *)

Definition max_align (fs : list fty) : N := fold_right (fun f acc => N.max (alignof f) acc) 0 fs.

Definition wf (t : fty) : Prop := wf_fty t = true.
Definition wfs (fs : list fty) : Prop := Forall wf fs.

Lemma wf_rec fs : wf (TRec fs) <-> fs <> [] /\ wfs fs.
Proof.
  unfold wf, wfs. simpl. rewrite andb_true_iff, forallb'_Forall.
  destruct fs; simpl; split; intros [H1 H2]; split; auto; congruence.
Qed.

Lemma agg_fold fs : forall s a, Forall (fun f => pow2 (alignof f)) fs ->
  fold_left agg_step (map sizeal fs) (s, a) = (fields_end fs s, N.max a (max_align fs)).
Proof.
  induction fs as [|f r IH]; intros s a H; simpl.
  - rewrite N.max_0_r. reflexivity.
  - inversion H as [|? ? Hf Hr]; subst.
    change (agg_step (s, a) (sizeal f))
      with (round_up s (alignof f) + sizeof f, N.max a (alignof f)).
    rewrite IH by auto.
    rewrite <- ffi_align_round_up by auto. f_equal. symmetry. apply N.max_assoc.
Qed.

Lemma max_align_pow2 fs : fs <> [] -> Forall (fun f => pow2 (alignof f)) fs -> pow2 (max_align fs).
Proof.
  induction fs as [|f r IH]; intros Hne H; [congruence|].
  inversion H as [|? ? Hf Hr]; subst. simpl.
  destruct r as [|g r'].
  - simpl. rewrite N.max_0_r. exact Hf.
  - apply pow2_max; auto. apply IH; auto. discriminate.
Qed.

Lemma sizeal_rec fs : Forall (fun f => pow2 (alignof f)) fs ->
  sizeal (TRec fs) = (round_up (fields_end fs 0) (max_align fs), max_align fs).
Proof.
  intros H. simpl. unfold agg. rewrite agg_fold by auto. simpl fst; simpl snd.
  rewrite N.max_0_l. reflexivity.
Qed.

Lemma alignof_pow2 t : wf t -> pow2 (alignof t).
Proof.
  induction t as [| | | | | | | |fs IH] using fty_ind'; intros Hwf;
    try (exists 0; reflexivity); try (exists 2; reflexivity); try (exists 3; reflexivity).
  apply wf_rec in Hwf. destruct Hwf as [Hne Hfs].
  assert (Hp : Forall (fun f => pow2 (alignof f)) fs).
  { unfold wfs in Hfs. rewrite Forall_forall in *. auto. }
  unfold alignof. rewrite sizeal_rec by auto. simpl. apply max_align_pow2; auto.
Qed.

Lemma wfs_pow2 fs : wfs fs -> Forall (fun f => pow2 (alignof f)) fs.
Proof. unfold wfs. rewrite !Forall_forall. intros H f Hf. apply alignof_pow2; auto. Qed.

Lemma alignof_rec fs : wfs fs -> alignof (TRec fs) = max_align fs.
Proof. intros H. unfold alignof. rewrite sizeal_rec by (apply wfs_pow2; auto). reflexivity. Qed.

Lemma sizeof_rec fs : wfs fs -> sizeof (TRec fs) = round_up (fields_end fs 0) (max_align fs).
Proof. intros H. unfold sizeof. rewrite sizeal_rec by (apply wfs_pow2; auto). reflexivity. Qed.

Lemma max_align_ge fs f : In f fs -> alignof f <= max_align fs.
Proof.
  induction fs as [|g r IH]; intros H; [contradiction|].
  simpl. destruct H as [->|H]; [lia|]. specialize (IH H). lia.
Qed.

(* every field alignment divides the alignment of the enclosing record *)
Lemma field_align_divides fs f : fs <> [] -> wfs fs -> In f fs -> (alignof f | max_align fs).
Proof.
  intros Hne Hfs Hin. apply pow2_divide.
  - apply alignof_pow2. unfold wfs in Hfs. rewrite Forall_forall in Hfs. auto.
  - apply max_align_pow2; auto. apply wfs_pow2; auto.
  - apply max_align_ge; auto.
Qed.

(* ---------------------------------------------------------------------------------------- *)
(* The running offset                                                                         *)

Lemma fields_end_ge fs : wfs fs -> forall b, b <= fields_end fs b.
Proof.
  induction fs as [|f r IH]; intros H b; simpl; [lia|].
  inversion H; subst. pose proof (ffi_align_ge b (alignof f) (alignof_pow2 f ltac:(auto))).
  specialize (IH ltac:(auto) (ffi_align b (alignof f) + sizeof f)). lia.
Qed.

(* translation: a record laid out at an offset that is a multiple of A (A a common multiple
   of all field alignments) is its layout at 0, shifted *)
Lemma fields_end_shift fs A o : wfs fs -> (forall f, In f fs -> (alignof f | A)) -> (A | o) ->
  forall x, fields_end fs (o + x) = o + fields_end fs x.
Proof.
  intros Hfs HA Ho. induction fs as [|f r IH]; intros x; simpl; [reflexivity|].
  inversion Hfs; subst.
  rewrite ffi_align_shift.
  - rewrite <- N.add_assoc. apply IH; auto. intros g Hg. apply HA. right. exact Hg.
  - apply alignof_pow2; auto.
  - eapply N.divide_trans; [apply HA; left; reflexivity | exact Ho].
Qed.

Lemma field_offsets_shift fs A o : wfs fs -> (forall f, In f fs -> (alignof f | A)) -> (A | o) ->
  forall x, field_offsets fs (o + x) = map (N.add o) (field_offsets fs x).
Proof.
  intros Hfs HA Ho. induction fs as [|f r IH]; intros x; simpl; [reflexivity|].
  inversion Hfs; subst.
  rewrite ffi_align_shift.
  - f_equal. rewrite <- N.add_assoc. apply IH; auto. intros g Hg. apply HA. right. exact Hg.
  - apply alignof_pow2; auto.
  - eapply N.divide_trans; [apply HA; left; reflexivity | exact Ho].
Qed.

(* the C layout rule as a relation: each offset is the least aligned one after the previous
   field; `e'` is the end of the last field *)
Inductive c_layout : list fty -> N -> list N -> N -> Prop :=
| cl_nil e : c_layout [] e [] e
| cl_cons f fs e o offs e' :
    least_aligned e (alignof f) o -> c_layout fs (o + sizeof f) offs e' ->
    c_layout (f :: fs) e (o :: offs) e'.

Lemma field_offsets_c_layout fs : wfs fs -> forall b,
  c_layout fs b (field_offsets fs b) (fields_end fs b).
Proof.
  induction fs as [|f r IH]; intros H b; simpl; [constructor|].
  inversion H; subst. constructor.
  - apply ffi_align_least, alignof_pow2; auto.
  - apply IH; auto.
Qed.

Lemma field_offsets_bounds fs : wfs fs -> forall b i oi fi,
  nth_error (field_offsets fs b) i = Some oi -> nth_error fs i = Some fi ->
  b <= oi /\ oi + sizeof fi <= fields_end fs b.
Proof.
  induction fs as [|f r IH]; intros H b i oi fi Ho Hf; [destruct i; discriminate|].
  inversion H; subst.
  pose proof (ffi_align_ge b (alignof f) (alignof_pow2 f ltac:(auto))) as G.
  destruct i as [|i]; simpl in *.
  - inversion Ho; inversion Hf; subst. split; [lia|]. apply fields_end_ge; auto.
  - destruct (IH ltac:(auto) _ _ _ _ Ho Hf). lia.
Qed.

Lemma field_offsets_disjoint fs : wfs fs -> forall b i j oi oj fi,
  (i < j)%nat -> nth_error (field_offsets fs b) i = Some oi ->
  nth_error (field_offsets fs b) j = Some oj -> nth_error fs i = Some fi ->
  oi + sizeof fi <= oj.
Proof.
  induction fs as [|f r IH]; intros H b i j oi oj fi Hij Hi Hj Hf; [destruct i; discriminate|].
  inversion H; subst.
  destruct j as [|j]; [lia|]. destruct i as [|i]; simpl in *.
  - inversion Hi; inversion Hf; subst.
    assert (exists fj, nth_error r j = Some fj) as [fj Hfj].
    { destruct (nth_error r j) eqn:E; eauto.
      apply nth_error_None in E.
      assert (length (field_offsets r (ffi_align b (alignof fi) + sizeof fi)) = length r).
      { clear. generalize (ffi_align b (alignof fi) + sizeof fi). induction r; intros; simpl; auto. }
      assert (nth_error (field_offsets r (ffi_align b (alignof fi) + sizeof fi)) j = None)
        by (apply nth_error_None; lia). congruence. }
    destruct (field_offsets_bounds r ltac:(auto) _ _ _ _ Hj Hfj). lia.
  - apply (IH ltac:(auto) (ffi_align b (alignof f) + sizeof f) i j oi oj fi); auto. lia.
Qed.

Lemma sizeof_pos t : wf t -> 0 < sizeof t.
Proof.
  induction t as [| | | | | | | |fs IH] using fty_ind'; intros Hw; try (vm_compute; reflexivity).
  apply wf_rec in Hw. destruct Hw as [Hne Hfs]. rewrite sizeof_rec by auto.
  destruct fs as [|g gr]; [congruence|].
  inversion Hfs as [|? ? Hg Hgr]; subst. inversion IH as [|? ? IHg _]; subst.
  assert (Hq : pow2 (max_align (g :: gr)))
    by (apply max_align_pow2; [discriminate | apply wfs_pow2; auto]).
  pose proof (round_up_ge (fields_end (g :: gr) 0) _ (pow2_pos _ Hq)) as R.
  simpl fields_end in *.
  pose proof (fields_end_ge gr Hgr (ffi_align 0 (alignof g) + sizeof g)).
  specialize (IHg Hg). lia.
Qed.

(* ---- layout_is_c_layout ---------------------------------------------------------------- *)
Theorem layout_is_c_layout : forall fs, wf (TRec fs) ->
  let t := TRec fs in
  let offs := field_offsets fs 0 in
  (* (1) each field offset is the least multiple of the field's alignment that is >= the end
         of the previous field (0 for the first) *)
  c_layout fs 0 offs (fields_end fs 0) /\
  (* (2) fields do not overlap: field i ends before field j > i starts *)
  (forall i j oi oj fi, (i < j)%nat -> nth_error offs i = Some oi -> nth_error offs j = Some oj ->
     nth_error fs i = Some fi -> oi + sizeof fi <= oj) /\
  (* (3) every field lies inside the struct *)
  (forall i oi fi, nth_error offs i = Some oi -> nth_error fs i = Some fi ->
     oi + sizeof fi <= sizeof t) /\
  (* (4) alignment = maximal field alignment; size = least multiple of it >= end of last field *)
  alignof t = max_align fs /\ (forall f, In f fs -> (alignof f | alignof t)) /\
  least_aligned (fields_end fs 0) (alignof t) (sizeof t) /\ 0 < sizeof t /\
  (* (5) nested use: placed at any offset o that is a multiple of its own alignment (that is
         where the enclosing loop puts it, by (1) for the enclosing record), the record's
         fields are laid out exactly as at 0, shifted by o, and the running offset never
         passes o + sizeof t, the value the C code resets it to *)
  (forall o, (alignof t | o) ->
     field_offsets fs o = map (N.add o) offs /\
     fields_end fs o = o + fields_end fs 0 /\ fields_end fs o <= o + sizeof t).
Proof.
  intros fs Hwf t offs. apply wf_rec in Hwf. destruct Hwf as [Hne Hfs].
  pose proof (alignof_rec fs Hfs) as HA. pose proof (sizeof_rec fs Hfs) as HS.
  assert (Hp : pow2 (max_align fs)) by (apply max_align_pow2; auto; apply wfs_pow2; auto).
  pose proof (pow2_pos _ Hp) as Hpos.
  assert (Hend : fields_end fs 0 <= sizeof t).
  { unfold t. rewrite HS. apply round_up_ge; auto. }
  assert (Hdiv : forall f, In f fs -> (alignof f | alignof t)).
  { intros f Hf. unfold t. rewrite HA. apply field_align_divides; auto. }
  split; [apply field_offsets_c_layout; auto|].
  split; [intros; eapply field_offsets_disjoint; eauto|].
  split.
  { intros i oi fi Ho Hf. destruct (field_offsets_bounds fs Hfs 0 i oi fi Ho Hf). lia. }
  split; [exact HA|]. split; [exact Hdiv|].
  split.
  { unfold t. rewrite HA, HS. repeat split.
    - apply round_up_divide; auto.
    - apply round_up_ge; auto.
    - intros m Hm He. apply round_up_least; auto. }
  split; [apply sizeof_pos; apply wf_rec; auto|].
  intros o Ho. unfold t in Ho. rewrite HA in Ho.
  assert (HAll : forall f, In f fs -> (alignof f | max_align fs)).
  { intros f Hf. apply field_align_divides; auto. }
  pose proof (field_offsets_shift fs _ o Hfs HAll Ho 0) as E1.
  pose proof (fields_end_shift fs _ o Hfs HAll Ho 0) as E2.
  rewrite N.add_0_r in E1, E2. repeat split; auto. lia.
Qed.

(* ---------------------------------------------------------------------------------------- *)
(* Byte buffer                                                                                *)

Lemma store_le_other n : forall m a v x, x < a \/ a + N.of_nat n <= x -> store_le m a n v x = m x.
Proof.
  induction n as [|k IH]; intros m a v x H; cbn [store_le]; [reflexivity|].
  rewrite IH by lia. destruct (N.eqb_spec x a); [lia | reflexivity].
Qed.

Lemma load_le_ext n : forall m m' a, (forall x, a <= x < a + N.of_nat n -> m x = m' x) ->
  load_le m a n = load_le m' a n.
Proof.
  induction n as [|k IH]; intros m m' a H; cbn [load_le]; [reflexivity|].
  rewrite (H a) by lia. f_equal. f_equal. apply IH. intros x Hx. apply H. lia.
Qed.

Lemma load_store_same n : forall m a v, v < 256 ^ N.of_nat n -> load_le (store_le m a n v) a n = v.
Proof.
  induction n as [|k IH]; intros m a v Hv.
  - cbn in *. lia.
  - cbn [store_le load_le].
    rewrite store_le_other by lia. rewrite N.eqb_refl.
    rewrite IH.
    + pose proof (N.div_mod v 256 ltac:(lia)). lia.
    + rewrite Nat2N.inj_succ, N.pow_succ_r' in Hv.
      apply N.div_lt_upper_bound; lia.
Qed.

(* ---------------------------------------------------------------------------------------- *)
(* marshal: final offset, frame, bounds                                                       *)

Lemma marshal_offset t v m off :
  snd (fst (marshal t v m off)) = ffi_align off (alignof t) + sizeof t.
Proof.
  destruct t; destruct v as [b|[p|]|[vs|]]; simpl; try reflexivity.
  destruct (marshal_fields_with marshal fs vs m _) as [[m' o'] r]. reflexivity.
Qed.

Lemma marshal_fields_offset fs : forall vs m off,
  snd (fst (marshal_fields fs vs m off)) = fields_end fs off.
Proof.
  unfold marshal_fields.
  induction fs as [|f r IH]; intros vs m off; simpl; [reflexivity|].
  pose proof (marshal_offset f (match vs with v :: _ => v | [] => VRec None end) m off) as E.
  destruct (marshal f _ m off) as [[m1 o1] r1]. simpl in E. subst o1.
  specialize (IH (match vs with _ :: r0 => r0 | [] => [] end) m1 (ffi_align off (alignof f) + sizeof f)).
  destruct (marshal_fields_with marshal r _ m1 _) as [[m2 o2] r2]. simpl in *. exact IH.
Qed.

Definition unchanged_outside (m m' : mem) (lo hi : N) : Prop :=
  forall x, x < lo \/ hi <= x -> m' x = m x.

Lemma fields_end_in_record fs o : wf (TRec fs) -> (alignof (TRec fs) | o) ->
  fields_end fs o <= o + sizeof (TRec fs).
Proof. intros Hwf Ho. apply (layout_is_c_layout fs Hwf); auto. Qed.

Lemma marshal_frame_fields fs :
  Forall (fun f => wf f -> forall v m off,
            unchanged_outside m (fst (fst (marshal f v m off)))
              (ffi_align off (alignof f)) (ffi_align off (alignof f) + sizeof f)) fs ->
  wfs fs -> forall vs m off,
  unchanged_outside m (fst (fst (marshal_fields fs vs m off))) off (fields_end fs off).
Proof.
  unfold marshal_fields.
  induction fs as [|f r IH]; intros HF Hfs vs m off; simpl; [intros x _; reflexivity|].
  inversion HF as [|? ? Hf Hr]; subst. inversion Hfs as [|? ? Wf Wr]; subst.
  set (v := match vs with v :: _ => v | [] => VRec None end).
  set (vr := match vs with _ :: r0 => r0 | [] => [] end).
  pose proof (Hf Wf v m off) as F1. pose proof (marshal_offset f v m off) as E1.
  destruct (marshal f v m off) as [[m1 o1] r1]. simpl in F1, E1. subst o1.
  pose proof (IH Hr Wr vr m1 (ffi_align off (alignof f) + sizeof f)) as F2.
  destruct (marshal_fields_with marshal r vr m1 _) as [[m2 o2] r2]. simpl in *.
  pose proof (ffi_align_ge off (alignof f) (alignof_pow2 f Wf)) as G.
  pose proof (fields_end_ge r Wr (ffi_align off (alignof f) + sizeof f)) as G2.
  intros x Hx. rewrite F2 by lia. apply F1. lia.
Qed.

Lemma marshal_frame t : wf t -> forall v m off,
  unchanged_outside m (fst (fst (marshal t v m off)))
    (ffi_align off (alignof t)) (ffi_align off (alignof t) + sizeof t).
Proof.
  induction t as [| | | | | | | |fs IH] using fty_ind'; intros Hwf v m off;
    try (destruct v as [b|[p|]|[vs|]]; cbn [marshal fst snd]; intros x Hx; try reflexivity;
         apply store_le_other; unfold nbytes; rewrite N2Nat.id; exact Hx).
  pose proof (alignof_pow2 _ Hwf) as Hp.
  destruct v as [b|[p|]|[vs|]]; cbn [marshal fst snd]; try (intros x Hx; reflexivity).
  set (o := ffi_align off (alignof (TRec fs))).
  pose proof (proj1 (wf_rec fs) Hwf) as [Hne Hfs].
  pose proof (marshal_frame_fields fs IH Hfs vs m o) as F. unfold marshal_fields in F.
  destruct (marshal_fields_with marshal fs vs m o) as [[m' o'] r]. cbn [fst snd] in *.
  assert (fields_end fs o <= o + sizeof (TRec fs)).
  { apply fields_end_in_record; auto. apply (ffi_align_least off _ Hp). }
  intros x Hx. apply F. lia.
Qed.

(* _record_value never writes outside the buffer malloc'ed with param_types[i]->size *)
Theorem marshal_within_bounds : forall fs vs, wf (TRec fs) ->
  forall x, sizeof (TRec fs) <= x -> fst (marshal_arg (TRec fs) (VRec (Some vs))) x = 0.
Proof.
  intros fs vs Hwf x Hx. unfold marshal_arg.
  pose proof (proj1 (wf_rec fs) Hwf) as [Hne Hfs].
  assert (HF : Forall (fun f => wf f -> forall v m off,
            unchanged_outside m (fst (fst (marshal f v m off)))
              (ffi_align off (alignof f)) (ffi_align off (alignof f) + sizeof f)) fs).
  { apply Forall_forall. intros f _ Wf. apply marshal_frame; auto. }
  pose proof (marshal_frame_fields fs HF Hfs vs zero_mem 0) as F.
  destruct (marshal_fields fs vs zero_mem 0) as [[m' o'] r]. simpl in *.
  pose proof (fields_end_in_record fs 0 Hwf (N.divide_0_r _)).
  rewrite F by lia. reflexivity.
Qed.

(* ---------------------------------------------------------------------------------------- *)
(* unmarshal: final offset, dependence on the record's bytes only                             *)

Lemma unmarshal_offset t m off :
  snd (unmarshal t m off) = ffi_align off (alignof t) + sizeof t.
Proof.
  destruct t; simpl; try reflexivity.
  destruct (unmarshal_fields_with unmarshal fs m _) as [vs o']. reflexivity.
Qed.

Lemma unmarshal_fields_offset fs : forall m off,
  snd (unmarshal_fields fs m off) = fields_end fs off.
Proof.
  unfold unmarshal_fields.
  induction fs as [|f r IH]; intros m off; simpl; [reflexivity|].
  pose proof (unmarshal_offset f m off) as E.
  destruct (unmarshal f m off) as [v o1]. simpl in E. subst o1.
  specialize (IH m (ffi_align off (alignof f) + sizeof f)).
  destruct (unmarshal_fields_with unmarshal r m _) as [vs o2]. simpl in *. exact IH.
Qed.

Definition agree (m m' : mem) (lo hi : N) : Prop := forall x, lo <= x < hi -> m x = m' x.

Lemma unmarshal_ext_fields fs :
  Forall (fun f => wf f -> forall m m' off,
            agree m m' (ffi_align off (alignof f)) (ffi_align off (alignof f) + sizeof f) ->
            unmarshal f m off = unmarshal f m' off) fs ->
  wfs fs -> forall m m' off, agree m m' off (fields_end fs off) ->
  unmarshal_fields fs m off = unmarshal_fields fs m' off.
Proof.
  unfold unmarshal_fields.
  induction fs as [|f r IH]; intros HF Hfs m m' off A; simpl; [reflexivity|].
  inversion HF as [|? ? Hf Hr]; subst. inversion Hfs as [|? ? Wf Wr]; subst.
  pose proof (ffi_align_ge off (alignof f) (alignof_pow2 f Wf)) as G.
  pose proof (fields_end_ge r Wr (ffi_align off (alignof f) + sizeof f)) as G2.
  simpl in A.
  rewrite (Hf Wf m m' off) by (intros x Hx; apply A; lia).
  pose proof (unmarshal_offset f m' off) as E.
  destruct (unmarshal f m' off) as [v o1]. simpl in E. subst o1.
  rewrite (IH Hr Wr m m' _) by (intros x Hx; apply A; lia).
  reflexivity.
Qed.

Lemma unmarshal_ext t : wf t -> forall m m' off,
  agree m m' (ffi_align off (alignof t)) (ffi_align off (alignof t) + sizeof t) ->
  unmarshal t m off = unmarshal t m' off.
Proof.
  induction t as [| | | | | | | |fs IH] using fty_ind'; intros Hwf m m' off A;
    try (cbn [unmarshal];
         rewrite (load_le_ext _ m m' _);
         [reflexivity | intros x Hx; apply A; unfold nbytes in Hx; rewrite N2Nat.id in Hx; exact Hx]).
  pose proof (alignof_pow2 _ Hwf) as Hp.
  pose proof (proj1 (wf_rec fs) Hwf) as [Hne Hfs].
  cbn [unmarshal].
  rewrite ffi_align_idem by auto.
  set (o := ffi_align off (alignof (TRec fs))) in *.
  assert (fields_end fs o <= o + sizeof (TRec fs)).
  { apply fields_end_in_record; auto. apply (ffi_align_least off _ Hp). }
  pose proof (unmarshal_ext_fields fs IH Hfs m m' o) as E. unfold unmarshal_fields in E.
  rewrite E by (intros x Hx; apply A; lia). reflexivity.
Qed.
