(* Extraction of the FFI layout / marshalling model for the correspondence harness
   (property C17).  ExtrOcamlBasic only: nat, N, positive stay extracted datatypes; the
   driver harness/ocaml/ffi/ffirun.ml converts them. *)
From Coq Require Import ExtrOcamlBasic.
From NV Require Import FFI.Layout.

Extraction "ffimodel.ml" sizeof alignof wf_fty flat_offsets field_offsets fields_end
  marshal_arg unmarshal_ret image has_type contains_nil
  emit_param parse_type depth skip_nil_record prep_vals prep_ok ffi_outcome.
