(* gc_mark / gc_mark_vec / gc_mark_arr / gc_mark_access: monotone, sound (only cells
   reachable from the argument get marked), complete (every newly marked cell has its
   non-nil children marked), and total with fuel >= (number of unmarked cells) + 2.
   No axioms. *)
From Coq Require Import NArith List Bool Lia.
From NV Require Import Base.TMap GC.GCModel GC.GCSpec GC.GCLemmasBase.
Import ListNotations.
Local Open Scope N_scope.

(* ---- mfold --------------------------------------------------------------------------- *)

Lemma mfold_nil f m : mfold f [] m = MOk m.
Proof. reflexivity. Qed.

Lemma mfold_stuck_fuel (f : tmap bool -> N -> mres) : forall l,
  fold_left (fun acc c => mbind acc (fun m' => f m' c)) l MFuel = MFuel.
Proof. induction l as [|c l IH]; cbn [fold_left mbind]; auto. Qed.

Lemma mfold_stuck_bad (f : tmap bool -> N -> mres) : forall l,
  fold_left (fun acc c => mbind acc (fun m' => f m' c)) l MBad = MBad.
Proof. induction l as [|c l IH]; cbn [fold_left mbind]; auto. Qed.

Lemma mfold_cons f c l m :
  mfold f (c :: l) m =
  match f m c with MOk m1 => mfold f l m1 | MFuel => MFuel | MBad => MBad end.
Proof.
  unfold mfold. cbn [fold_left mbind].
  destruct (f m c); [reflexivity|apply mfold_stuck_fuel|apply mfold_stuck_bad].
Qed.

(* ---- mark, unfolded once ------------------------------------------------------------- *)

Definition sel_vec (o : option obj) : option (list N) :=
  match o with Some (OVec l) => Some l | _ => None end.
Definition sel_arr (o : option obj) : option (list N) :=
  match o with Some (OArr _ l) => Some l | _ => None end.

Definition mark_node (objs : tmap (option obj)) (k : nat) (sel : option obj -> option (list N))
           (m : tmap bool) (v : N) : mres :=
  if v =? 0 then MOk m
  else if tget m v then MOk m
  else match sel (tget objs v) with
       | Some l => mfold (mark k objs) l (tset m v true)
       | None => MBad
       end.

Lemma mark_S objs k m a :
  mark (S k) objs m a =
  if a =? 0 then MOk m
  else match tget objs a with
       | None => MOk m
       | Some (OScalar _ _) => MOk (tset m a true)
       | Some (OStrRef r) => mark k objs (tset m a true) r
       | Some (OVec _) => mark_node objs k sel_vec m a
       | Some (OVecRef r) => mark_node objs k sel_vec (tset m a true) r
       | Some (OArr _ _) => mark_node objs k sel_arr m a
       | Some (OArrRef r) => mark_node objs k sel_arr (tset m a true) r
       | Some (OFunc v _) => mark_node objs k sel_vec (tset m a true) v
       end.
Proof.
  assert (V : forall m v,
    (if v =? 0 then MOk m else if tget m v then MOk m
     else match tget objs v with
          | Some (OVec l) => mfold (mark k objs) l (tset m v true)
          | _ => MBad end) = mark_node objs k sel_vec m v).
  { intros m0 v. unfold mark_node. destruct (v =? 0); [reflexivity|].
    destruct (tget m0 v); [reflexivity|]. destruct (tget objs v) as [[]|]; reflexivity. }
  assert (A : forall m v,
    (if v =? 0 then MOk m else if tget m v then MOk m
     else match tget objs v with
          | Some (OArr _ l) => mfold (mark k objs) l (tset m v true)
          | _ => MBad end) = mark_node objs k sel_arr m v).
  { intros m0 v. unfold mark_node. destruct (v =? 0); [reflexivity|].
    destruct (tget m0 v); [reflexivity|]. destruct (tget objs v) as [[]|]; reflexivity. }
  cbn [mark]. destruct (a =? 0) eqn:E0; [reflexivity|].
  destruct (tget objs a) as [[]|] eqn:Eo; try reflexivity; try apply V; try apply A;
    unfold mark_node; rewrite E0, Eo; reflexivity.
Qed.

Section Mark.
Variable objs : tmap (option obj).

(* every non-nil reference held by an allocated object points to an allocated cell *)
Hypothesis Hrefs : forall a o c, tget objs a = Some o -> In c (refs o) -> c <> 0 ->
                                 tget objs c <> None.

Definition mono (m m' : tmap bool) : Prop := forall x, tget m x = true -> tget m' x = true.

Lemma mono_refl m : mono m m.
Proof. intros x H; exact H. Qed.
Lemma mono_trans a b c : mono a b -> mono b c -> mono a c.
Proof. unfold mono; auto. Qed.
Lemma mono_set m a : mono m (tset m a true).
Proof.
  intros x H. rewrite tget_set. destruct (a =? x); [reflexivity|exact H].
Qed.

Lemma set_new m a x : tget (tset m a true) x = true -> tget m x = false -> x = a.
Proof.
  rewrite tget_set. destruct (N.eqb_spec a x) as [E|E]; [auto|]. intros H1 H2. congruence.
Qed.

Inductive path : N -> N -> Prop :=
| p_refl a : a <> 0 -> path a a
| p_step a b o c : path a b -> tget objs b = Some o -> In c (refs o) -> c <> 0 -> path a c.

Lemma path_nonzero_l a x : path a x -> a <> 0.
Proof. induction 1; auto. Qed.

Lemma path_nonzero_r a x : path a x -> x <> 0.
Proof. induction 1; auto. Qed.

Lemma path_kid a o c x : a <> 0 -> tget objs a = Some o -> In c (refs o) -> path c x -> path a x.
Proof.
  intros Ha Ho Hc Hp. induction Hp as [c Hc0|c b o' d Hp IH Hb Hd Hd0].
  - eapply p_step; [apply p_refl; exact Ha|exact Ho|exact Hc|exact Hc0].
  - eapply p_step; [apply IH; exact Hc|exact Hb|exact Hd|exact Hd0].
Qed.

Lemma path_alloc a x : path a x -> tget objs a <> None -> tget objs x <> None.
Proof.
  induction 1 as [a Ha|a b o c Hp IH Hb Hc Hc0]; intros Hal; [exact Hal|].
  eapply Hrefs; eauto.
Qed.

Definition kids_done (m m' : tmap bool) : Prop :=
  forall x o c, tget m' x = true -> tget m x = false -> tget objs x = Some o ->
                In c (refs o) -> c <> 0 -> tget m' c = true.

Lemma kids_done_refl m : kids_done m m.
Proof. intros x o c H1 H2. congruence. Qed.

Lemma kids_done_trans m m1 m2 :
  kids_done m m1 -> mono m1 m2 -> kids_done m1 m2 -> kids_done m m2.
Proof.
  intros K1 M12 K2 x o c Hx Hm Ho Hc Hc0.
  destruct (tget m1 x) eqn:E1.
  - apply M12. eapply K1; eauto.
  - eapply K2; eauto.
Qed.

(* what a successful gc_mark call on a guarantees *)
Record Spec (m : tmap bool) (a : N) (m' : tmap bool) : Prop := {
  sp_mono : mono m m';
  sp_sound : forall x, tget m' x = true -> tget m x = false -> path a x;
  sp_self : a <> 0 -> tget objs a <> None -> tget m' a = true;
  sp_kids : kids_done m m'
}.

(* what a successful gc_mark_vec / gc_mark_arr call on v guarantees *)
Record NSpec (m : tmap bool) (v : N) (m' : tmap bool) : Prop := {
  ns_mono : mono m m';
  ns_sound : forall x, tget m' x = true -> tget m x = false -> path v x;
  ns_self : v <> 0 -> tget m' v = true;
  ns_kids : kids_done m m'
}.

(* ... and a successful fold over a list of cells *)
Record SpecL (m : tmap bool) (l : list N) (m' : tmap bool) : Prop := {
  sl_mono : mono m m';
  sl_sound : forall x, tget m' x = true -> tget m x = false -> exists c, In c l /\ path c x;
  sl_all : forall c, In c l -> c <> 0 -> tget objs c <> None -> tget m' c = true;
  sl_kids : kids_done m m'
}.

Lemma Spec_trivial m a : (a = 0 \/ tget objs a = None \/ tget m a = true) -> Spec m a m.
Proof.
  intros H. constructor.
  - apply mono_refl.
  - intros x H1 H2. congruence.
  - intros Ha Hal. destruct H as [H|[H|H]]; [contradiction|contradiction|exact H].
  - apply kids_done_refl.
Qed.

Lemma SpecL_nil m : SpecL m [] m.
Proof.
  constructor.
  - apply mono_refl.
  - intros x H1 H2. congruence.
  - intros c [].
  - apply kids_done_refl.
Qed.

Lemma SpecL_cons m c m1 l m2 : Spec m c m1 -> SpecL m1 l m2 -> SpecL m (c :: l) m2.
Proof.
  intros S1 S2. constructor.
  - eapply mono_trans; [apply (sp_mono _ _ _ S1)|apply (sl_mono _ _ _ S2)].
  - intros x Hx Hm. destruct (tget m1 x) eqn:E1.
    + exists c. split; [now left|]. apply (sp_sound _ _ _ S1); assumption.
    + destruct (sl_sound _ _ _ S2 x Hx E1) as (c' & Hc' & Hp). exists c'. split; [now right|exact Hp].
  - intros c' [E|Hc'] Hc0 Hal.
    + subst c'. apply (sl_mono _ _ _ S2). apply (sp_self _ _ _ S1); assumption.
    + apply (sl_all _ _ _ S2); assumption.
  - eapply kids_done_trans; [apply (sp_kids _ _ _ S1)|apply (sl_mono _ _ _ S2)|apply (sl_kids _ _ _ S2)].
Qed.

(* extending a fold result by one more call (gc_run: the global vector after the stack) *)
Lemma SpecL_snoc m l m1 c m2 : SpecL m l m1 -> Spec m1 c m2 -> SpecL m (c :: l) m2.
Proof.
  intros S1 S2. constructor.
  - eapply mono_trans; [apply (sl_mono _ _ _ S1)|apply (sp_mono _ _ _ S2)].
  - intros x Hx Hm. destruct (tget m1 x) eqn:E1.
    + destruct (sl_sound _ _ _ S1 x E1 Hm) as (c' & Hc' & Hp). exists c'. split; [now right|exact Hp].
    + exists c. split; [now left|]. apply (sp_sound _ _ _ S2); assumption.
  - intros c' [E|Hc'] Hc0 Hal.
    + subst c'. apply (sp_self _ _ _ S2); assumption.
    + apply (sp_mono _ _ _ S2). apply (sl_all _ _ _ S1); assumption.
  - eapply kids_done_trans; [apply (sl_kids _ _ _ S1)|apply (sp_mono _ _ _ S2)|apply (sp_kids _ _ _ S2)].
Qed.

Lemma mfold_SpecL (F : tmap bool -> N -> mres) :
  (forall m c m', F m c = MOk m' -> Spec m c m') ->
  forall l m m', mfold F l m = MOk m' -> SpecL m l m'.
Proof.
  intros HF. induction l as [|c l IH]; intros m m' H.
  - rewrite mfold_nil in H. inversion H; subst. apply SpecL_nil.
  - rewrite mfold_cons in H. destruct (F m c) as [m1| |] eqn:E; try discriminate.
    eapply SpecL_cons; [apply HF; exact E|apply IH; exact H].
Qed.

Section Node.
Variable k : nat.
Hypothesis IHk : forall m a m', mark k objs m a = MOk m' -> Spec m a m'.
Variable sel : option obj -> option (list N).
Hypothesis sel_none : sel None = None.
Hypothesis sel_refs : forall o l, sel (Some o) = Some l -> refs o = l.

Lemma node_spec m v m' : mark_node objs k sel m v = MOk m' -> NSpec m v m'.
Proof.
  unfold mark_node. intros H.
  destruct (N.eqb_spec v 0) as [E0|E0].
  { inversion H; subst. constructor; [apply mono_refl| |congruence|apply kids_done_refl].
    intros x H1 H2. congruence. }
  destruct (tget m v) eqn:Em.
  { inversion H; subst. constructor; [apply mono_refl| |auto|apply kids_done_refl].
    intros x H1 H2. congruence. }
  destruct (sel (tget objs v)) as [l|] eqn:Es; [|discriminate].
  destruct (tget objs v) as [o|] eqn:Eo; [|rewrite sel_none in Es; discriminate].
  apply sel_refs in Es.
  pose proof (mfold_SpecL (mark k objs) IHk l _ _ H) as SL.
  assert (M0 : mono m m').
  { eapply mono_trans; [apply mono_set|apply (sl_mono _ _ _ SL)]. }
  assert (Hv : tget m' v = true).
  { apply (sl_mono _ _ _ SL). apply tget_set_same. }
  constructor.
  - exact M0.
  - intros x Hx Hm. destruct (N.eq_dec x v) as [->|Hxv]; [apply p_refl; exact E0|].
    assert (Hm0 : tget (tset m v true) x = false).
    { rewrite tget_set_other; [exact Hm|congruence]. }
    destruct (sl_sound _ _ _ SL x Hx Hm0) as (c & Hc & Hp).
    apply (path_kid v o c x E0 Eo); [rewrite Es; exact Hc|exact Hp].
  - intros _. exact Hv.
  - intros x o' c Hx Hm Ho' Hc Hc0.
    destruct (N.eq_dec x v) as [->|Hxv].
    + rewrite Eo in Ho'. inversion Ho'; subst o'.
      apply (sl_all _ _ _ SL c); [rewrite <- Es; exact Hc|exact Hc0|].
      eapply Hrefs; eauto.
    + assert (Hm0 : tget (tset m v true) x = false).
      { rewrite tget_set_other; [exact Hm|congruence]. }
      eapply (sl_kids _ _ _ SL); eauto.
Qed.
End Node.

(* a cell a holding the single reference r: mark a, then handle r *)
Lemma ref_spec m a o r m' : a <> 0 -> tget objs a = Some o -> refs o = [r] ->
  NSpec (tset m a true) r m' -> Spec m a m'.
Proof.
  intros Ha Ho Hr NS.
  assert (M0 : mono m m').
  { eapply mono_trans; [apply mono_set|apply (ns_mono _ _ _ NS)]. }
  constructor.
  - exact M0.
  - intros x Hx Hm. destruct (tget (tset m a true) x) eqn:E1.
    + apply set_new in E1; [|exact Hm]. subst x. apply p_refl; exact Ha.
    + apply (path_kid a o r x Ha Ho); [rewrite Hr; now left|].
      apply (ns_sound _ _ _ NS); assumption.
  - intros _ _. apply (ns_mono _ _ _ NS). apply tget_set_same.
  - intros x o' c Hx Hm Ho' Hc Hc0. destruct (tget (tset m a true) x) eqn:E1.
    + apply set_new in E1; [|exact Hm]. subst x. rewrite Ho in Ho'. inversion Ho'; subst o'.
      rewrite Hr in Hc. destruct Hc as [<-|[]]. apply (ns_self _ _ _ NS). exact Hc0.
    + eapply (ns_kids _ _ _ NS); eauto.
Qed.

Lemma Spec_to_NSpec a o r m1 m' : tget objs a = Some o -> In r (refs o) ->
  Spec m1 r m' -> NSpec m1 r m'.
Proof.
  intros Ho Hr S. constructor.
  - apply (sp_mono _ _ _ S).
  - apply (sp_sound _ _ _ S).
  - intros Hr0. apply (sp_self _ _ _ S Hr0). eapply Hrefs; eauto.
  - apply (sp_kids _ _ _ S).
Qed.

Lemma NSpec_self_Spec m a m' : NSpec m a m' -> Spec m a m'.
Proof.
  intros NS. constructor.
  - apply (ns_mono _ _ _ NS).
  - apply (ns_sound _ _ _ NS).
  - intros Ha _. apply (ns_self _ _ _ NS Ha).
  - apply (ns_kids _ _ _ NS).
Qed.

Lemma sel_vec_refs o l : sel_vec (Some o) = Some l -> refs o = l.
Proof. destruct o; cbn; intros H; inversion H; reflexivity. Qed.
Lemma sel_arr_refs o l : sel_arr (Some o) = Some l -> refs o = l.
Proof. destruct o; cbn; intros H; inversion H; reflexivity. Qed.

Theorem mark_spec : forall fuel m a m', mark fuel objs m a = MOk m' -> Spec m a m'.
Proof.
  induction fuel as [|k IH]; intros m a m' H; [discriminate|].
  rewrite mark_S in H.
  destruct (N.eqb_spec a 0) as [E0|E0].
  { inversion H; subst. apply Spec_trivial. now left. }
  destruct (tget objs a) as [o|] eqn:Eo.
  2:{ inversion H; subst. apply Spec_trivial. right; now left. }
  pose proof (node_spec k IH sel_vec eq_refl sel_vec_refs) as NV.
  pose proof (node_spec k IH sel_arr eq_refl sel_arr_refs) as NA.
  destruct o as [kd p|r|l|r|d l|r|v ip].
  - (* scalar *)
    inversion H; subst. constructor.
    + apply mono_set.
    + intros x Hx Hm. apply set_new in Hx; [|exact Hm]. subst. apply p_refl; exact E0.
    + intros _ _. apply tget_set_same.
    + intros x o c Hx Hm Ho Hc. apply set_new in Hx; [|exact Hm]. subst x.
      rewrite Eo in Ho. inversion Ho; subst o. destruct Hc.
  - (* string ref *)
    apply (ref_spec m a _ r m' E0 Eo eq_refl).
    apply (Spec_to_NSpec a _ r _ m' Eo); [now left|]. apply IH. exact H.
  - apply NSpec_self_Spec. apply NV. exact H.
  - apply (ref_spec m a _ r m' E0 Eo eq_refl). apply NV. exact H.
  - apply NSpec_self_Spec. apply NA. exact H.
  - apply (ref_spec m a _ r m' E0 Eo eq_refl). apply NA. exact H.
  - apply (ref_spec m a _ v m' E0 Eo eq_refl). apply NV. exact H.
Qed.

(* ---- gc_mark_access ------------------------------------------------------------------ *)

Definition access_one (fuel : nat) (m : tmap bool) (r : N) : mres :=
  if (0 <? r) && negb (tget m r) then mark fuel objs m r else MOk m.

Lemma access_one_spec fuel m r m' : access_one fuel m r = MOk m' -> Spec m r m'.
Proof.
  unfold access_one. destruct (N.ltb_spec 0 r) as [Hr|Hr]; cbn [andb].
  - destruct (tget m r) eqn:Em; cbn [negb].
    + intros H; inversion H; subst. apply Spec_trivial. right; now right.
    + apply mark_spec.
  - intros H; inversion H; subst. apply Spec_trivial. left. lia.
Qed.

Lemma mark_access_spec fuel roots m m' :
  mark_access fuel objs roots m = MOk m' -> SpecL m roots m'.
Proof.
  intros H. apply (mfold_SpecL (access_one fuel)); [apply access_one_spec|exact H].
Qed.

(* from all-clear marks: marked = reachable from the list *)
Lemma marked_exact R m m' :
  (forall x, tget m x = false) -> SpecL m R m' ->
  (forall r, In r R -> r = 0 \/ tget objs r <> None) ->
  forall x, tget m' x = true <-> exists r, In r R /\ path r x.
Proof.
  intros Hclear SL HR x. split.
  - intros Hx. apply (sl_sound _ _ _ SL x Hx (Hclear x)).
  - intros (r & Hr & Hp). induction Hp as [a Ha|a b o c Hp IH Hb Hc Hc0].
    + apply (sl_all _ _ _ SL a Hr Ha). destruct (HR a Hr) as [E|E]; [contradiction|exact E].
    + eapply (sl_kids _ _ _ SL); [apply IH; exact Hr|apply Hclear|exact Hb|exact Hc|exact Hc0].
Qed.

(* ---- totality: enough fuel, no wrong-accessor read ------------------------------------ *)

Hypothesis Hkind : forall a o, tget objs a = Some o ->
  match o with
  | OStrRef r => r = 0 \/ exists kd p, tget objs r = Some (OScalar kd p)
  | OVecRef r | OFunc r _ => r = 0 \/ exists l, sel_vec (tget objs r) = Some l
  | OArrRef r => r = 0 \/ exists l, sel_arr (tget objs r) = Some l
  | _ => True
  end.

Variable L : list N.
Hypothesis HL : forall a, tget objs a <> None -> In a L.

Fixpoint cntl (m : tmap bool) (l : list N) : nat :=
  match l with
  | [] => O
  | a :: t => (if tget m a then 0 else 1) + cntl m t
  end.
Definition cnt (m : tmap bool) : nat := cntl m L.

Lemma cntl_mono m m' : mono m m' -> forall l, (cntl m' l <= cntl m l)%nat.
Proof.
  intros Hm. induction l as [|a t IH]; cbn [cntl]; [lia|].
  destruct (tget m a) eqn:E.
  - rewrite (Hm a E). lia.
  - destruct (tget m' a); lia.
Qed.

Lemma cntl_dec m m' a : mono m m' -> tget m a = false -> tget m' a = true ->
  forall l, In a l -> (cntl m' l + 1 <= cntl m l)%nat.
Proof.
  intros Hm Ha Ha'. induction l as [|b t IH]; intros Hin; [destruct Hin|].
  cbn [cntl]. destruct Hin as [->|Hin].
  - rewrite Ha, Ha'. pose proof (cntl_mono m m' Hm t). lia.
  - specialize (IH Hin). destruct (tget m b) eqn:E.
    + rewrite (Hm b E). lia.
    + destruct (tget m' b); lia.
Qed.

Lemma cnt_mono m m' : mono m m' -> (cnt m' <= cnt m)%nat.
Proof. intros H. apply cntl_mono. exact H. Qed.

Lemma cnt_set m a : tget objs a <> None -> tget m a = false ->
  (cnt (tset m a true) + 1 <= cnt m)%nat.
Proof.
  intros Hal Hm. apply (cntl_dec m (tset m a true) a).
  - apply mono_set.
  - exact Hm.
  - apply tget_set_same.
  - apply HL. exact Hal.
Qed.

Lemma mfold_total (F : tmap bool -> N -> mres) (bound : nat) :
  (forall m c, (cnt m <= bound)%nat -> exists m', F m c = MOk m') ->
  (forall m c m', F m c = MOk m' -> mono m m') ->
  forall l m, (cnt m <= bound)%nat -> exists m', mfold F l m = MOk m'.
Proof.
  intros HT HM. induction l as [|c l IH]; intros m Hb.
  - exists m. apply mfold_nil.
  - rewrite mfold_cons. destruct (HT m c Hb) as (m1 & E). rewrite E.
    apply IH. pose proof (cnt_mono m m1 (HM _ _ _ E)). lia.
Qed.

Lemma node_total k sel :
  (forall m a, (cnt m + 2 <= k)%nat -> exists m', mark k objs m a = MOk m') ->
  forall m v, (v = 0 \/ exists l, sel (tget objs v) = Some l) -> sel None = None ->
  (cnt m + 1 <= k)%nat -> exists m', mark_node objs k sel m v = MOk m'.
Proof.
  intros IHk m v Hv Hsn Hb. unfold mark_node.
  destruct (N.eqb_spec v 0) as [E0|E0]; [eexists; reflexivity|].
  destruct (tget m v) eqn:Em; [eexists; reflexivity|].
  destruct Hv as [Hv|(l & Hl)]; [contradiction|]. rewrite Hl.
  assert (Hal : tget objs v <> None).
  { intro E. rewrite E, Hsn in Hl. discriminate. }
  pose proof (cnt_set m v Hal Em) as Hdec.
  apply (mfold_total (mark k objs) (k - 2)).
  - intros m0 c Hm0. apply IHk. lia.
  - intros m0 c m1 E. apply (sp_mono _ _ _ (mark_spec _ _ _ _ E)).
  - lia.
Qed.

Theorem mark_total : forall fuel m a, (cnt m + 2 <= fuel)%nat ->
  exists m', mark fuel objs m a = MOk m'.
Proof.
  induction fuel as [|k IH]; intros m a Hb; [lia|].
  rewrite mark_S.
  destruct (N.eqb_spec a 0) as [E0|E0]; [eexists; reflexivity|].
  destruct (tget objs a) as [o|] eqn:Eo; [|eexists; reflexivity].
  pose proof (Hkind a o Eo) as Hk.
  assert (Hm1 : (cnt (tset m a true) + 1 <= k)%nat).
  { pose proof (cnt_mono m (tset m a true) (mono_set m a)). lia. }
  destruct o as [kd p|r|l|r|d l|r|v ip].
  - eexists; reflexivity.
  - (* string ref: the target is nil or a scalar, one more level *)
    destruct k as [|k']; [lia|]. rewrite mark_S.
    destruct (N.eqb_spec r 0) as [Er|Er]; [eexists; reflexivity|].
    destruct Hk as [Hk|(kd & p & Hk)]; [contradiction|]. rewrite Hk. eexists; reflexivity.
  - apply (node_total k sel_vec IH); [|reflexivity|lia].
    right. exists l. rewrite Eo. reflexivity.
  - apply (node_total k sel_vec IH); [exact Hk|reflexivity|exact Hm1].
  - apply (node_total k sel_arr IH); [|reflexivity|lia].
    right. exists l. rewrite Eo. reflexivity.
  - apply (node_total k sel_arr IH); [exact Hk|reflexivity|exact Hm1].
  - apply (node_total k sel_vec IH); [exact Hk|reflexivity|exact Hm1].
Qed.

Theorem mark_access_total fuel roots m : (cnt m + 2 <= fuel)%nat ->
  exists m', mark_access fuel objs roots m = MOk m'.
Proof.
  intros Hb. apply (mfold_total (access_one fuel) (fuel - 2)).
  - intros m0 c Hm0. unfold access_one.
    destruct ((0 <? c) && negb (tget m0 c)); [|eexists; reflexivity].
    apply mark_total. lia.
  - intros m0 c m1 E. apply (sp_mono _ _ _ (access_one_spec _ _ _ _ E)).
  - lia.
Qed.

End Mark.

Lemma cntl_le_length m : forall l, (cntl m l <= length l)%nat.
Proof.
  induction l as [|a t IH]; cbn [cntl length]; [lia|]. destruct (tget m a); lia.
Qed.
