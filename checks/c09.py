"""C09 — the collector reclaims all garbage and keeps heap bookkeeping consistent.

Proof side: coq/Properties/Properties_C09.v (ctx.proofs()).
Tie (DESIGN.md §4.2, §5 C09): operation histories generated with the *extracted* model
(build/ocaml/gc/run, harness/ocaml/gc/gcrun.ml) are executed against the tree's gc.c
(harness/gc/gcdrive.c under ASan/UBSan/LSan); both sides print the same canonical dump after
gc_new and after every operation; the dumps are compared line by line
(-> ctx.correspondence_broken on the first difference).

Independently of the model the *property oracle* below runs on the dumps of the real code:
  (i)   every cell 1..size-1 is in exactly one of {free chain, current list}; the other list is
        empty; the free chain is acyclic and holds only object-less cells; listed cells hold
        objects; no mark is left;
  (ii)  an allocation returns a cell that was free, creates exactly the requested object and
        changes no other cell; a setter changes exactly its target;
  (iii) after a collection exactly the cells reachable (BFS over the pre-state's reference
        graph from the ADDR roots [+ global vector]) stay allocated with identical contents and
        every other cell is on the free chain; gc_run collects iff 5*top >= 4*size;
  (iv)  |free| + |allocated| = size - 1.
An oracle failure is a violation of the property on the real code -> ctx.violation with the
(shrunk) history.
"""
LEVEL = "proof"

import hashlib
import json
import multiprocessing
import os
import re
import shutil
import time

from lib import common

RUN_BUILT = os.path.join(common.BUILD, "ocaml", "gc", "run")
RUN = RUN_BUILT          # replaced by a private copy while a check is running
CORPUS = os.path.join(common.VERIF, "corpus", "C09")
NPROC = 16
LARGE_K = 60000            # sparse dump mode of the large profile: full dump every K operations
LARGE_FROM = 5000          # heaps above this size: reference allocator `sim` + sparse dumps
ASAN_ENV = "detect_leaks=1:abort_on_error=0:exitcode=99:allocator_may_return_null=1"
UBSAN_ENV = "print_stacktrace=1:halt_on_error=1"


def drv_env(leaks=True):
    env = dict(os.environ)
    env["ASAN_OPTIONS"] = ASAN_ENV if leaks else ASAN_ENV.replace("detect_leaks=1", "detect_leaks=0")
    env["UBSAN_OPTIONS"] = UBSAN_ENV
    return env


# ------------------------------------------------------------------------------------------
# parsing a dump
# ------------------------------------------------------------------------------------------
class State(object):
    __slots__ = ("idx", "op", "res", "fhead", "free", "w", "lists", "tops", "marks", "cells", "body", "sparse")

    def summary(self):
        """(free head, w_index, wb_top[0], wb_top[1]) as strings"""
        return (self.fhead, self.w, self.tops[0], self.tops[1])


class DumpError(Exception):
    pass


def split_trailer(text):
    """-> (dump text, trailer lines): the trailer = final lines starting with '#' or '!'"""
    trailer = []
    end = len(text)
    while end > 0:
        j = text.rfind("\n", 0, end - 1) if text[end - 1:end] == "\n" else text.rfind("\n", 0, end)
        line = text[j + 1:end].rstrip("\n")
        if line == "" or line[0] in "#!":
            if line:
                trailer.insert(0, line)
            if j < 0:
                end = 0
                break
            end = j + 1
        else:
            break
    return text[:end], trailer


def iter_dump(text):
    """generator of State over a dump (full blocks and sparse '~' blocks); raises DumpError.
    Cells / references are kept as strings."""
    if not text.startswith("@ "):
        raise DumpError("dump does not start with '@ '")
    parts = text[2:].split("\n@ ")
    for k, part in enumerate(parts):
        lines = part.split("\n")
        while lines and lines[-1] == "":
            lines.pop()
        st = State()
        try:
            head = lines[0].split(" ", 1)
            st.idx = int(head[0])
            st.op = head[1] if len(head) > 1 else ""
            st.res = lines[1]
            if len(lines) == 3 and lines[2][:2] == "~ ":
                f = lines[2].split(" ")
                if len(f) != 5:
                    raise ValueError(lines[2])
                st.sparse = True
                st.fhead, st.w, st.tops = f[1], f[2], (f[3], f[4])
                st.free = st.lists = st.marks = st.cells = None
                st.body = lines[2]
                yield st
                continue
            if len(lines) < 7:
                raise ValueError("truncated block")
            st.sparse = False
            f = lines[2].split(" ")
            if f[0] != "free" or f[2] != ":":
                raise ValueError(lines[2][:80])
            st.fhead = f[1]
            st.free = f[3:]
            if lines[3][:2] != "w ":
                raise ValueError(lines[3][:80])
            st.w = lines[3][2:]
            l0 = lines[4].split(" ")
            l1 = lines[5].split(" ")
            if l0[0] != "L0" or l1[0] != "L1" or l0[2] != ":" or l1[2] != ":":
                raise ValueError(lines[4][:80])
            st.lists = (l0[3:], l1[3:])
            st.tops = (l0[1], l1[1])
            m = lines[6].split(" ")
            if m[0] != "marks" or m[1] != ":":
                raise ValueError(lines[6][:80])
            st.marks = m[2:]
            cells = {}
            for ln in lines[7:]:
                c = ln.split(" ", 2)
                if c[0] != "c":
                    raise ValueError(ln[:80])
                cells[c[1]] = c[2]
            st.cells = cells
        except (ValueError, IndexError) as e:
            raise DumpError("malformed block %d: %r" % (k, str(e)[:100]))
        st.body = "\n".join(lines[2:])
        yield st


def parse_dump(text):
    """-> (states, trailer_lines, error) for a complete (small) dump"""
    body, trailer = split_trailer(text)
    states = []
    try:
        for st in iter_dump(body):
            states.append(st)
    except DumpError as e:
        return states, trailer, str(e)
    return states, trailer, None


def refs_of(line):
    """references held by an object, from its dump line (without the 'c <i> ' prefix)"""
    k = line.split(" ", 1)[0]
    if k in ("strref", "vecref", "arrref"):
        return [line.split(" ")[1]]
    if k in ("vec", "arr"):
        i = line.index(":")
        return line[i + 1:].split()
    if k == "func":
        return [line.split(" ")[1]]
    return []


# ------------------------------------------------------------------------------------------
# the property oracle (python; knows nothing about the Coq model)
# ------------------------------------------------------------------------------------------
class Oracle(object):
    def __init__(self):
        self.fail = None           # (op index, key, message)
        self.freed = 0             # collections that freed >= 1 cell
        self.kept = 0              # collections that retained >= 1 cell
        self.collections = 0
        self.parse_error = None    # the dump ended in a block that cannot be parsed

    def bad(self, idx, key, msg):
        if self.fail is None:
            self.fail = (idx, key, msg)
        return False


def counted(toks, pos):
    n = int(toks[pos])
    return toks[pos + 1:pos + 1 + n], pos + 1 + n


def expected_alloc(toks):
    """dump line of the object requested by 'alloc ...' (toks after 'alloc')"""
    k = toks[0]
    if k == "sc":
        p, _ = counted(toks, 2)
        return "sc %s :%s" % (toks[1], "".join(" " + x for x in p))
    if k in ("strref", "vecref", "arrref"):
        return "%s %s" % (k, toks[1])
    if k == "vec":
        e, _ = counted(toks, 1)
        return "vec %d :%s" % (len(e), "".join(" " + x for x in e))
    if k == "arr":
        d, pos = counted(toks, 1)
        e, _ = counted(toks, pos)
        return "arr %d%s :%s" % (len(d), "".join(" " + x for x in d), "".join(" " + x for x in e))
    if k == "func":
        return "func %s %s" % (toks[1], toks[2])
    raise ValueError("alloc " + " ".join(toks))


def expected_set(toks, cells):
    """(target cell, expected dump line) of a setter, from the PRE-state; line is None if the
    target does not have the shape the operation needs"""
    op = toks[0]
    a = toks[2] if op in ("setref", "setsc") else toks[1]
    line = cells.get(a)
    if line is None:
        return a, None
    if op == "setvec" or op == "setarr":
        i, v = int(toks[2]), toks[3]
        if not line.startswith("vec " if op == "setvec" else "arr "):
            return a, None
        head, elems = line.split(":")
        e = elems.split()
        if i >= len(e):
            return a, None
        e[i] = v
        return a, head + ":" + "".join(" " + x for x in e)
    if op == "append":
        v = toks[2]
        if not line.startswith("arr 1 "):
            return a, None
        head, elems = line.split(":")
        e = elems.split() + [v]
        return a, "arr 1 %d :%s" % (int(head.split()[2]) + 1, "".join(" " + x for x in e))
    if op == "setref":
        if not line.startswith(toks[1] + "ref "):
            return a, None
        return a, "%sref %s" % (toks[1], toks[3])
    if op == "setfuncvec":
        h = line.split()
        if h[0] != "func":
            return a, None
        return a, "func %s %s" % (toks[2], h[2])
    if op == "setsc":
        p, _ = counted(toks, 3)
        if not line.startswith("sc %s :" % toks[1]):
            return a, None
        return a, "sc %s :%s" % (toks[1], "".join(" " + x for x in p))
    raise ValueError(" ".join(toks))


def check_wf(o, st, size, allcells):
    i = st.idx
    free, cur, oth = st.free, st.lists[int(st.w) if st.w in ("0", "1") else 0], None
    if st.w not in ("0", "1"):
        return o.bad(i, "wf:w-index", "w_index = %s" % st.w)
    oth = st.lists[1 - int(st.w)]
    for t in free:
        if t[0] == "!":
            return o.bad(i, "wf:free-chain", "free chain is cyclic or leaves the heap: %s" % " ".join(free[-3:]))
    if (free[0] if free else "0") != st.fhead:
        return o.bad(i, "wf:free-chain", "free head %s but chain starts %s" % (st.fhead, free[:1]))
    fs = set(free)
    if len(fs) != len(free):
        return o.bad(i, "wf:free-chain", "free chain visits a cell twice")
    if oth or st.tops[1 - int(st.w)] != "0":
        return o.bad(i, "wf:other-list-not-empty", "inactive list holds %s cells" % st.tops[1 - int(st.w)])
    if st.tops[int(st.w)] != str(len(cur)):
        return o.bad(i, "wf:list", "wb_top is %s but %d cells are listed" % (st.tops[int(st.w)], len(cur)))
    cs = set(cur)
    if len(cs) != len(cur):
        return o.bad(i, "wf:list-duplicate", "a cell is listed twice in the allocated-list")
    if st.marks:
        return o.bad(i, "wf:marks-left", "marks left on cells %s" % " ".join(st.marks[:8]))
    objs = set(st.cells)
    bad = fs & objs
    if bad:
        return o.bad(i, "wf:free-cell-has-object", "cells on the free chain hold objects: %s" % sorted(bad, key=int)[:8])
    if fs & cs:
        return o.bad(i, "wf:cell-free-and-listed", "cells both free and listed: %s" % sorted(fs & cs, key=int)[:8])
    if not cs <= objs:
        return o.bad(i, "wf:listed-cell-empty", "listed cells without object: %s" % sorted(cs - objs, key=int)[:8])
    if not objs <= cs:
        return o.bad(i, "wf:object-not-listed", "cells with an object that are not listed: %s" % sorted(objs - cs, key=int)[:8])
    u = fs | cs
    if u != allcells:
        lost = allcells - u
        if lost:
            return o.bad(i, "wf:cell-lost", "cells neither free nor allocated: %s (free %d + allocated %d != %d)" % (
                sorted(lost, key=int)[:8], len(fs), len(cs), size - 1))
        return o.bad(i, "wf:cell-outside-heap", "cells outside 1..size-1: %s" % sorted(u - allcells, key=int)[:8])
    if len(free) + len(cur) != size - 1:
        return o.bad(i, "wf:count", "free %d + allocated %d != size-1 = %d" % (len(free), len(cur), size - 1))
    return True


def reachable(cells, roots):
    seen = set()
    todo = [r for r in roots if r != "0" and r in cells]
    while todo:
        a = todo.pop()
        if a in seen:
            continue
        seen.add(a)
        for r in refs_of(cells[a]):
            if r != "0" and r not in seen and r in cells:
                todo.append(r)
    return seen


def light_step(o, prev, st, toks, oom, pend, base):
    """one allocation / setter judged from the one-line summaries only (sparse dump mode).
    pend: cells written since the last full dump (cell -> expected dump line); base: the cells
    of that full dump.  -> False after recording a failure"""
    i = st.idx
    ps, cs = prev.summary(), st.summary()
    op = toks[0]
    if op == "alloc":
        if oom:
            if cs != ps:
                return o.bad(i, "alloc:oom-state-changed", "bookkeeping changed across a skipped allocation: %s -> %s" % (ps, cs))
            return True
        if not st.res.startswith("ret "):
            return o.bad(i, "alloc:result", "unexpected result line %r" % st.res)
        a = st.res[4:]
        if a == "0" or a != ps[0]:
            return o.bad(i, "alloc:cell-not-free", "gc_alloc returned cell %s; the free chain started at %s" % (a, ps[0]))
        w = int(ps[1]) if ps[1] in ("0", "1") else 0
        if cs[1] != ps[1] or cs[2 + (1 - w)] != ps[2 + (1 - w)] or cs[2 + w] != str(int(ps[2 + w]) + 1):
            return o.bad(i, "alloc:list-top", "after an allocation w/wb_top went from w=%s top=(%s,%s) to w=%s top=(%s,%s): "
                         "the allocated-list did not grow by exactly one" % (ps[1], ps[2], ps[3], cs[1], cs[2], cs[3]))
        if a in pend or a in base:
            return o.bad(i, "alloc:cell-not-free", "gc_alloc returned cell %s which holds an object" % a)
        pend[a] = expected_alloc(toks[1:])
        return True
    if op in ("collect", "run"):
        return o.bad(i, "harness:dump", "collection without a full dump before and after it")
    # setters: the summary may not move; the contents are checked at the next full dump
    if cs != ps:
        return o.bad(i, "setter:bookkeeping-changed", "%r changed free head / w_index / wb_top: %s -> %s" % (st.op, ps, cs))
    cur = toks[2] if op in ("setref", "setsc") else toks[1]
    line = pend.get(cur, base.get(cur))
    a, new = expected_set(toks, {cur: line} if line is not None else {})
    if new is None:
        return o.bad(i, "setter:target", "target cell %s of %r does not hold the expected object" % (a, st.op))
    pend[a] = new
    return True


def run_oracle(states):
    """states: iterable of State.  -> Oracle (fail = first violated rule, or None)"""
    o = Oracle()
    it = iter(states)
    try:
        s0 = next(it)
    except StopIteration:
        return o
    except DumpError as e:
        o.parse_error = str(e)
        return o
    m = re.match(r"new (\d+)$", s0.op)
    if not m or s0.sparse:
        o.bad(0, "harness:dump", "first block is not a full 'new <size>' block")
        return o
    size = int(m.group(1))
    allcells = set(str(i) for i in range(1, size))
    if not check_wf(o, s0, size, allcells):
        return o
    if s0.cells:
        o.bad(0, "new:not-empty", "objects present right after gc_new")
        return o
    prev = s0
    base = None          # the last full state while a stretch of sparse blocks is open
    pend = None          # cells written during that stretch
    while True:
        try:
            st = next(it)
        except StopIteration:
            break
        except DumpError as e:
            o.parse_error = str(e)
            break
        i = st.idx
        toks = st.op.split(" ")
        oom = toks[-1] == "!oom"
        if oom:
            toks = toks[:-1]
        op = toks[0]
        if st.sparse or prev.sparse:
            # ---- sparse dump mode -------------------------------------------------------
            if base is None:
                base, pend = prev, {}
            # summaries first: the same rule is reported whether or not this block is a full dump
            if not light_step(o, prev, st, toks, oom, pend, base.cells):
                return o
            if not st.sparse and not check_wf(o, st, size, allcells):
                return o
            if not st.sparse:
                # a full dump closes the stretch: everything written since `base` must be there,
                # nothing else may have changed
                want = dict(base.cells)
                want.update(pend)
                if st.cells != want:
                    diff = [c for c in set(want) | set(st.cells) if want.get(c) != st.cells.get(c)]
                    o.bad(i, "alloc:cells-changed", "cells differ from the last full dump (op %d) + the %d cells written since: %s" % (
                        base.idx, len(pend), sorted(diff, key=int)[:6]))
                    return o
                if set(st.free) != set(base.free) - set(pend):
                    o.bad(i, "alloc:free-set", "free set is not the free set of op %d minus the cells handed out since" % base.idx)
                    return o
                base = pend = None
            prev = st
            continue
        same = st.body == prev.body
        if not same and not check_wf(o, st, size, allcells):
            return o
        if op == "alloc":
            if oom:
                # the driver did not call gc_alloc (exit(1)); nothing may have changed
                if not same:
                    o.bad(i, "alloc:oom-state-changed", "state changed across a skipped allocation")
                    return o
                prev = st
                continue
            if not st.res.startswith("ret "):
                o.bad(i, "alloc:result", "unexpected result line %r" % st.res)
                return o
            a = st.res[4:]
            if a not in set(prev.free):
                o.bad(i, "alloc:cell-not-free", "gc_alloc returned cell %s which was not on the free chain" % a)
                return o
            want = dict(prev.cells)
            want[a] = expected_alloc(toks[1:])
            if st.cells != want:
                diff = [c for c in set(want) | set(st.cells) if want.get(c) != st.cells.get(c)]
                o.bad(i, "alloc:cells-changed", "after alloc -> %s cells differ from pre-state + requested object: %s" % (
                    a, sorted(diff, key=int)[:6]))
                return o
            if set(st.free) != set(prev.free) - {a}:
                o.bad(i, "alloc:free-set", "free set is not the old free set minus the returned cell")
                return o
        elif op in ("collect", "run"):
            if op == "collect":
                slots, _ = counted(toks, 1)
                gv = "0"
                trig = True
            else:
                gv = toks[1]
                slots, _ = counted(toks, 2)
                top = len(prev.lists[int(prev.w)])
                trig = 5 * top >= 4 * size
            roots = [s[1:] for s in slots if s[0] == "a"]
            if not trig:
                if not same:
                    o.bad(i, "run:collected-below-threshold",
                          "gc_run changed the heap with top=%d size=%d (5*top < 4*size)" % (top, size))
                    return o
                prev = st
                continue
            if gv != "0":
                roots = roots + [gv]
            live = reachable(prev.cells, roots)
            after = set(st.cells)
            o.collections += 1
            if len(after) < len(prev.cells):
                o.freed += 1
            if after:
                o.kept += 1
            if op == "run" and same and live != set(prev.cells):
                o.bad(i, "run:not-collected-at-threshold",
                      "gc_run did nothing with top=%d size=%d (5*top >= 4*size) although garbage exists" % (top, size))
                return o
            lost = live - after
            if lost:
                # the edge at which marking stopped (part of the key): a lost cell that is a root,
                # or is referenced by a cell that survived
                front = [(int(c), 0, "root") for c in lost if c in roots]
                if not front:
                    for p in live - lost:
                        for r in refs_of(prev.cells[p]):
                            if r in lost:
                                front.append((int(r), int(p), prev.cells[p].split(" ", 1)[0]))
                via = min(front)[2] if front else "unknown"
                o.bad(i, "collect:freed-reachable-cell:via-" + via,
                      "reachable cells were freed: %s (marking stopped at an edge from a %s; roots %s)" % (
                          sorted(lost, key=int)[:8], via, roots[:8]))
                return o
            kept = after - live
            if kept:
                o.bad(i, "collect:kept-garbage", "unreachable cells stayed allocated: %s (roots %s)" % (
                    sorted(kept, key=int)[:8], roots[:8]))
                return o
            for c in live:
                if st.cells[c] != prev.cells[c]:
                    o.bad(i, "collect:survivor-changed", "cell %s changed across the collection: %r -> %r" % (
                        c, prev.cells[c], st.cells[c]))
                    return o
            if set(st.free) != allcells - live:
                o.bad(i, "collect:free-set", "free chain is not exactly the set of unreachable cells")
                return o
        else:
            a, line = expected_set(toks, prev.cells)
            if line is None:
                o.bad(i, "setter:target", "target cell %s of %r does not hold the expected object in the real heap" % (a, st.op))
                return o
            want = dict(prev.cells)
            want[a] = line
            if st.cells != want:
                o.bad(i, "setter:cells-changed", "%r: cells differ from pre-state with the one slot updated" % st.op)
                return o
            if st.free != prev.free or st.lists != prev.lists or st.w != prev.w:
                o.bad(i, "setter:bookkeeping-changed", "%r changed the free chain / lists" % st.op)
                return o
        prev = st
    return o


# ------------------------------------------------------------------------------------------
# running one history
# ------------------------------------------------------------------------------------------
SAN_RE = re.compile(r"ERROR: (AddressSanitizer|LeakSanitizer|UndefinedBehaviorSanitizer): ?([A-Za-z-]+)?|"
                    r"(runtime error: [^\n]{0,80})|(Assertion [^\n]{0,80} failed)|(out of memory)")


def classify_stderr(rc, err):
    m = SAN_RE.search(err or "")
    if m:
        if m.group(1):
            return "%s:%s" % (m.group(1), m.group(2) or "report")
        if m.group(3):
            return "ubsan"
        if m.group(4):
            return "assert"
        return "exit-out-of-memory"
    if rc < 0:
        return "signal%d" % (-rc)
    return "exit%d" % rc


def first_diff(exp, out):
    el = exp.split("\n")
    ol = out.split("\n")
    op = ""
    idx = 0
    for k in range(max(len(el), len(ol))):
        e = el[k] if k < len(el) else "<end of dump>"
        g = ol[k] if k < len(ol) else "<end of dump>"
        if e.startswith("@ "):
            op = e
        if e != g:
            try:
                idx = int(op.split(" ")[1])
            except (IndexError, ValueError):
                idx = -1
            return {"line": k + 1, "op_index": idx, "op": op[:300], "expected": e[:300], "observed": g[:300]}
    return None


def run_case(drv, hist_path, exp_text, timeout=300, sparse=0):
    """Execute one history against the real gc.c. -> dict(diff, oracle, crash, ...)"""
    cmd = [drv] + (["--sparse", str(sparse)] if sparse else []) + [hist_path]
    rc, out, err = common.sh(cmd, timeout=timeout, env=drv_env())
    if "LeakSanitizer has encountered a fatal error" in err or "LeakSanitizer does not work under ptrace" in err:
        # the environment forbids the leak checker (ptrace): everything else is still checked
        rc, out, err = common.sh(cmd, timeout=timeout, env=drv_env(leaks=False))
    res = {"rc": rc, "diff": None, "crash": None, "fail": None, "freed": 0, "kept": 0, "stderr": err[-1500:]}
    done = out.endswith("# done\n")
    body = out[:-len("# done\n")] if done else out
    if rc == 2:
        res["crash"] = "harness:history-format-error"
        return res
    dump, trailer = split_trailer(body)
    o = run_oracle(iter_dump(dump))          # streaming: large dumps are never parsed as a whole
    if o.parse_error and rc == 0:
        res["crash"] = "harness:" + o.parse_error
        return res
    res["fail"] = o.fail
    res["freed"], res["kept"] = o.freed, o.kept
    if body != exp_text:
        res["diff"] = first_diff(exp_text, body)
    if rc != 0 or not done or err.strip():
        if rc == 3:
            res["stopped"] = trailer[:2]
        else:
            res["crash"] = classify_stderr(rc, err)
    return res


def heap_size_of(hist_text):
    m = re.search(r"^\s*size (\d+)\s*$", hist_text[:4000], re.M)
    return int(m.group(1)) if m else 0


def mode_for(hist_text):
    """(use the reference allocator, sparse K) for a history"""
    return (True, LARGE_K) if heap_size_of(hist_text) > LARGE_FROM else (False, 0)


def normalise(hist_path, out_hist, sim=False, sparse=0):
    """re-run a history through the model (sim: the reference allocator): drops rejected ops,
    recomputes !oom; -> (ok, expected dump)"""
    cmd = [RUN, "replay"] + (["--sim"] if sim else []) + (["--sparse", str(sparse)] if sparse else []) + [hist_path, out_hist]
    rc, so, se = common.sh(cmd, timeout=600)
    return rc == 0, so, se


# ------------------------------------------------------------------------------------------
# worker: generate a batch, run it, compare, run the oracle
# ------------------------------------------------------------------------------------------
def merge_dist(acc, d):
    for k, v in d.items():
        if isinstance(v, dict):
            merge_dist(acc.setdefault(k, {}), v)
        elif isinstance(v, (int, float)) and k != "seed":
            acc[k] = acc.get(k, 0) + v
    return acc


def worker(job):
    drv, workroot, jid, profile, seed, n, first = job
    big = profile in ("large", "largesmall")
    K = (LARGE_K if profile == "large" else 100) if big else 0
    t0 = time.time()
    wd = os.path.join(workroot, "job%d" % jid)
    shutil.rmtree(wd, ignore_errors=True)
    os.makedirs(wd)
    out = {"jid": jid, "profile": profile, "seed": seed, "n": 0, "dist": {}, "nontrivial": [], "diffs": [],
           "fails": [], "crashes": [], "samples": [], "ops": 0, "error": None, "collections": 0,
           "simdiffs": [], "sizes": []}
    try:
        rc, so, se = common.sh([RUN, "gen", str(seed), str(n), wd, profile, str(first)] + ([str(K)] if big else []),
                               timeout=1500)
        if rc != 0:
            out["error"] = "generator failed rc=%d: %s" % (rc, se[-500:])
            return out
        out["dist"] = json.loads(so)
        for i in range(first, first + n):
            hp = os.path.join(wd, "case%d.hist" % i)
            hist = open(hp).read()
            exp = open(os.path.join(wd, "case%d.exp" % i)).read()
            r = run_case(drv, hp, exp, sparse=K)
            if big:
                out["sizes"].append(heap_size_of(hist))
            if profile == "largesmall":
                # the reference allocator that predicts the large histories == the extracted model
                rc2, so2, se2 = common.sh([RUN, "replay", "--sparse", str(K), hp], timeout=600)
                if rc2 != 0 or so2 != exp or se2.strip():
                    out["simdiffs"].append(dict(first_diff(exp, so2) or {}, gen_seed=seed, case=i, rc=rc2,
                                                stderr=se2[-300:], history=hist[:20000]))
            if profile == "large" and r["fail"] is not None:
                # a prefix of a valid history is valid: keep only what is needed to fail
                hist = "".join(hist.splitlines(True)[:r["fail"][0] + 1])
            out["n"] += 1
            out["ops"] += hist.count("\n") - 1
            tag = {"profile": profile, "gen_seed": seed, "case": i}
            if r["freed"] >= 1 and r["kept"] >= 1:
                out["nontrivial"].append(hashlib.md5(hist.encode()).digest())
                if len(out["samples"]) < 1 and hist.count("\n") <= 22:
                    out["samples"].append(dict(tag, history=hist.split("\n")[:-1]))
            if r["fail"] is not None and len(out["fails"]) < 4:
                out["fails"].append(dict(tag, history=hist, op_index=r["fail"][0], key=r["fail"][1],
                                         what=r["fail"][2], stderr=r["stderr"][-400:]))
            elif r["fail"] is not None:
                out["fails"].append(dict(tag, key=r["fail"][1], op_index=r["fail"][0], what=r["fail"][2]))
            if r["diff"] is not None and len(out["diffs"]) < 3:
                out["diffs"].append(dict(tag, history=hist if len(hist) < 20000 else hist[:20000] + "...",
                                         predicted_by="reference allocator sim" if big else "extracted model", **r["diff"]))
            elif r["diff"] is not None:
                out["diffs"].append(dict(tag))
            if r["crash"] is not None:
                out["crashes"].append(dict(tag, kind=r["crash"], stderr=r["stderr"][-800:],
                                           history=hist if len(hist) < 20000 else None,
                                           had_oracle_failure=r["fail"] is not None))
            os.unlink(hp)
            os.unlink(os.path.join(wd, "case%d.exp" % i))
    except Exception as e:  # noqa
        import traceback
        out["error"] = traceback.format_exc()[-1500:]
    finally:
        shutil.rmtree(wd, ignore_errors=True)
    out["wall"] = round(time.time() - t0, 2)
    return out


def plan(tier, seed, extra=False):
    """list of (profile, gen_seed, ncases, first)"""
    jobs = []

    def s(k):
        return (seed * 1000003 + k * 7919 + (500009 if extra else 0)) % 1000000007

    k = 0
    if tier == "thorough":
        spec = [("mixed", 1200, 20), ("tiny", 100, 20), ("long", 320, 1)]
        rounds = 8
    else:
        spec = [("mixed", 64, 18), ("tiny", 8, 20)]
        rounds = 1
    if extra:
        spec = [("mixed", 32, 18), ("tiny", 8, 20)]
        rounds = 1
    for prof, njobs, n in spec:
        for _ in range(njobs):
            k += 1
            jobs.append((prof, s(k), n, 0))
    for r in range(rounds):
        for first in range(0, 299, 23):
            k += 1
            jobs.append(("boundary", s(k), min(23, 299 - first), first))
    if not extra:
        # heaps around / above 2^16 cells (one history per job) + the same generator on small
        # heaps, where the extracted model can follow
        for first in range(20 if tier == "thorough" else 3):
            k += 1
            jobs.append(("large", s(k), 1, first))
        for _ in range(6 if tier == "thorough" else 1):
            k += 1
            jobs.append(("largesmall", s(k), 20 if tier == "thorough" else 12, 0))
    # long jobs first: better load balance
    order = {"large": -1, "long": 0, "boundary": 1, "largesmall": 1, "mixed": 2, "tiny": 3}
    jobs.sort(key=lambda j: order[j[0]])
    return jobs


# ------------------------------------------------------------------------------------------
# shrinking
# ------------------------------------------------------------------------------------------
def evaluate(drv, lines, wd, tag):
    """normalise + run a candidate history (list of lines incl. 'size n').
    -> (oracle failure or None, diff or None, normalised history text, model dump)"""
    raw = os.path.join(wd, "cand_%s.raw" % tag)
    norm = os.path.join(wd, "cand_%s.hist" % tag)
    with open(raw, "w") as f:
        f.write("\n".join(lines) + "\n")
    sim, sparse = mode_for(lines[0] + "\n")
    ok, exp, se = normalise(raw, norm, sim=sim, sparse=sparse)
    if not ok:
        return None, None, None, None
    r = run_case(drv, norm, exp, timeout=120 if sim else 60, sparse=sparse)
    return r["fail"], r["diff"], open(norm).read(), exp


def shrink(drv, hist_text, key, op_index, wd, budget_s=12.0, max_runs=160):
    """smallest history found (text) on which the oracle still reports `key`"""
    t0 = time.time()
    lines = [l for l in hist_text.split("\n") if l.strip()]
    head, ops = lines[0], lines[1:]
    if op_index and op_index < len(ops):
        ops = ops[:op_index]
    runs = [0]

    def fails(cand):
        if runs[0] >= max_runs or time.time() - t0 > budget_s:
            return False
        runs[0] += 1
        f = evaluate(drv, [head] + cand, wd, "s")[0]
        return f is not None and f[1] == key

    if not fails(ops):
        return hist_text, 0
    chunk = max(1, len(ops) // 2)
    while True:
        i = len(ops) - chunk
        progressed = False
        while i >= 0:
            cand = ops[:i] + ops[i + chunk:]
            if cand and fails(cand):
                ops = cand
                progressed = True
            i -= chunk
        if runs[0] >= max_runs or time.time() - t0 > budget_s:
            break
        if chunk > 1:
            chunk //= 2
        elif not progressed:
            break
    f, _, norm, _ = evaluate(drv, [head] + ops, wd, "final")
    if f is not None and f[1] == key and norm:
        return norm, runs[0]
    return hist_text, runs[0]


def save_corpus(key, text):
    os.makedirs(CORPUS, exist_ok=True)
    existing = [f for f in os.listdir(CORPUS) if f.endswith(".hist")]
    name = "%s-%s.hist" % (re.sub(r"[^A-Za-z0-9]+", "_", key), hashlib.sha1(text.encode()).hexdigest()[:8])
    if name in existing or len(existing) >= 40:
        return None
    if any(f.startswith(re.sub(r"[^A-Za-z0-9]+", "_", key) + "-") for f in existing):
        return None       # one minimised history per rule is enough
    with open(os.path.join(CORPUS, name), "w") as f:
        f.write("# minimised history on which the C09 oracle reported %s\n" % key)
        f.write(text)
    return name


# ------------------------------------------------------------------------------------------
def oomprobe(ctx, drv):
    """gc_alloc on a full heap: 'out of memory' + exit(1), nothing written"""
    res = []
    for size in (2, 3, 5, 8, 64, 300):
        rc, so, se = common.sh([drv, "--oomprobe", str(size)], timeout=60, env=drv_env(leaks=False))
        ok = (rc == 0 and re.search(r'child exit=1 stderr="out of memory\|', so) is not None
              and "parent-heap-unchanged yes" in so and "alloc=ok" in so and so.endswith("# done\n") and not se.strip())
        res.append({"size": size, "ok": ok})
        if not ok:
            ctx.violation("oomprobe", "allocation on a full heap of %d cells is not reported as 'out of memory' + exit(1) "
                          "with the heap untouched" % size,
                          {"case": "gcdrive --oomprobe %d" % size, "expected": 'child exit=1 stderr="out of memory"; parent-heap-unchanged yes',
                           "observed": so[-1500:], "stderr": se[-1500:], "rc": rc})
    ctx.coverage["oomprobe"] = res


def triggerprobe(ctx, drv):
    """`wb_top < mem_size * 0.8` (double) == `5*top < 4*size` (the model's gc_trigger) for heap sizes up
    to 2^32-1, probed on a fake collector (gcdrive --triggerprobe)"""
    rc, so, se = common.sh([drv, "--triggerprobe"], timeout=120, env=drv_env(leaks=False))
    lines = [l for l in so.split("\n") if l.startswith("trigger ")]
    bad = [l for l in lines if "MISMATCH" in l]
    ctx.coverage["triggerprobe"] = {"sizes_probed": len(lines), "largest": 4294967295, "mismatches": len(bad)}
    if rc != 0 or not lines or not so.endswith("# done\n") or bad:
        ctx.correspondence_broken("gc-trigger-arithmetic", {"expected": "gc_run collects iff 5*top >= 4*size",
                                                            "observed": (bad or [so[-600:]])[:5], "stderr": se[-600:], "rc": rc})


def report_failure(ctx, drv, f, wd, do_shrink=True):
    """one oracle failure -> ctx.violation (shrunk)"""
    hist = f["history"]
    if heap_size_of(hist) > LARGE_FROM:
        do_shrink = False        # already cut after the failing operation; every run costs seconds
    small, runs = (shrink(drv, hist, f["key"], f["op_index"], wd) if do_shrink else (hist, 0))
    nf, nd, norm, exp = evaluate(drv, [l for l in small.split("\n") if l.strip() and not l.startswith("#")], wd, "rep")
    ok = exp is not None
    if nf is None or nf[1] != f["key"] or not norm:
        nf, norm, ok = (f["op_index"], f["key"], f["what"]), hist, False
        with open(os.path.join(wd, "cand_rep.hist"), "w") as fh:
            fh.write(hist)
    sim, sparse = mode_for(norm)
    rc, obs, err = common.sh([drv] + (["--sparse", str(sparse)] if sparse else []) + [os.path.join(wd, "cand_rep.hist")],
                             timeout=120, env=drv_env())
    saved = save_corpus(f["key"], norm) if len(norm) < 300000 else None
    ctx.violation(f["key"], "gc.c violates the C09 oracle rule %s at operation %d of a %d-operation history: %s" % (
        nf[1], nf[0], norm.count("\n") - 1, nf[2]),
        {"case": {k: f.get(k) for k in ("profile", "gen_seed", "case")},
         "history": norm, "op_index": nf[0], "rule": nf[1],
         "expected": ("reference allocator dump:\n" if sim else "model dump:\n") + exp[-3000:] if ok else "(property oracle; see rule)",
         "heap_size": heap_size_of(norm),
         "observed": obs[-3000:], "stderr": err[-1500:],
         "original_history_ops": hist.count("\n") - 1, "shrink_runs": runs, "corpus_file": saved,
         "replay_cmd": "bin/check C09 --replay <this file>"})


def run_single(ctx, drv, path, wd, label):
    """corpus entry / --replay: normalise, run, diff, oracle.  -> (evaluated, nontrivial hash or None)"""
    text = open(path).read()
    if text.lstrip().startswith("{"):
        try:
            text = json.loads(text).get("history", "")
        except ValueError:
            pass
    lines = [l for l in text.split("\n") if l.strip() and not l.startswith("#")]
    raw = os.path.join(wd, "single.raw")
    norm = os.path.join(wd, "single.hist")
    with open(raw, "w") as f:
        f.write("\n".join(lines) + "\n")
    sim, sparse = mode_for(text)
    ok, exp, se = normalise(raw, norm, sim=sim, sparse=sparse)
    if not ok:
        ctx.correspondence_broken("history-unreadable:" + label, {"file": path, "error": se[-500:]})
        return 0, None, None
    r = run_case(drv, norm, exp, sparse=sparse)
    hist = open(norm).read()
    if r["fail"] is not None:
        report_failure(ctx, drv, {"history": hist, "key": r["fail"][1], "op_index": r["fail"][0], "what": r["fail"][2],
                                  "profile": label, "gen_seed": None, "case": os.path.basename(path)}, wd, do_shrink=False)
    if r["diff"] is not None and not any(b.get("name") == "gc-model-vs-gc.c" for b in ctx.broken):
        ctx.correspondence_broken("gc-model-vs-gc.c", dict(r["diff"], case=label + ":" + os.path.basename(path), history=hist[:5000]))
    if r["crash"] is not None and r["fail"] is None:
        ctx.violation("crash:" + r["crash"], "gcdrive on gc.c: %s while executing a valid history" % r["crash"],
                      {"case": label + ":" + os.path.basename(path), "history": hist, "stderr": r["stderr"]})
    nt = hashlib.md5(hist.encode()).digest() if (r["freed"] >= 1 and r["kept"] >= 1) else None
    return 1, nt, r


def private_copy(src, dst, probe_args, probe_rc, lock):
    """copy an executable and make sure the copy runs (usage message -> exit code probe_rc)"""
    last = ""
    for _ in range(8):
        try:
            with common.Lock(lock):
                shutil.copy2(src, dst)
            os.chmod(dst, 0o755)
            rc, so, se = common.sh([dst] + probe_args, timeout=30, env=drv_env(leaks=False))
            if rc == probe_rc:
                return dst
            last = "probe exit code %d: %s" % (rc, se[-200:])
        except (OSError, IOError) as e:
            last = str(e)
        time.sleep(1.0)
    raise OSError("cannot obtain a working copy of %s: %s" % (src, last))


def runner_is_current():
    """build/ocaml/gc/run exists and is newer than everything it is made from"""
    if not os.path.exists(RUN):
        return False
    srcs = [os.path.join(common.COQ, "Extract", "ExtractGC.v"), os.path.join(common.COQ, "GC", "GCModel.vo"),
            os.path.join(common.COQ, "Base", "TMap.vo")]
    d = os.path.join(common.VERIF, "harness", "ocaml", "gc")
    srcs += [os.path.join(d, f) for f in os.listdir(d) if f.endswith(".ml")]
    t = os.path.getmtime(RUN)
    return all(os.path.exists(p) and os.path.getmtime(p) <= t for p in srcs)


def run(ctx):
    global RUN
    RUN = RUN_BUILT
    t_start = time.time()
    ctx.proofs()
    lib = common.repobuild("asan")
    ok, log = common.ocaml_build("gc")
    if not ok and runner_is_current():
        # bin/build-ocaml stops at the first engine that fails; ours was built before that
        ctx.notes["ocaml_build_failed_in_another_engine"] = log[-300:]
        ok = True
    if not ok or not os.path.exists(RUN):
        ctx.correspondence_broken("ocaml-build", log[-3000:])
        return
    drv = common.cc_driver("gcdrive", ["gc/gcdrive.c"], lib)
    ctx.notes["build_s"] = round(time.time() - t_start, 1)
    workroot = os.path.join(ctx.outdir, "work")
    shutil.rmtree(workroot, ignore_errors=True)
    os.makedirs(workroot)
    # private copies: build/ and .cache/ are shared and may be rebuilt/evicted by a concurrent
    # bin/build-ocaml or bin/repobuild while this check is running
    try:
        RUN = private_copy(RUN, os.path.join(workroot, "gcrun"), ["replay"], 2, "ocaml")
        drv = private_copy(drv, os.path.join(workroot, "gcdrive"), [], 2, "cc.gcdrive")
    except OSError as e:
        ctx.correspondence_broken("c09-binaries-unavailable", str(e))
        return
    # VM level: a bounded-live loop must run in a heap independent of its iteration count
    try:
        from checks.parts import boundedlive
        from lib import nevrun as _nevrun
        boundedlive.run_boundedlive(ctx, _nevrun.build("asan"))
    except common.BuildError:
        raise
    except Exception as ex:
        ctx.correspondence_broken("boundedlive-crashed", repr(ex)[:400])
    # VM level: the collector is not observable (premise of gc_schedule_transparent: the roots handed to
    # gc_run contain everything still in use) — every corpus and generated program under forced schedules
    try:
        from checks.parts import gcschedule
        from lib import vmcheck as _vmcheck
        progs = _vmcheck.corpus_programs()
        progs += _vmcheck.generated_programs(os.path.join(ctx.outdir, "gcs_gen"), ctx.seed, 20 if ctx.tier == "quick" else 300)
        gcschedule.run_gcschedule(ctx, progs,
                                  mems=(0, 700) if ctx.tier == "quick" else (0, 700, 250, 3000),
                                  schedules=("default", "every", "seed:%d" % (ctx.seed + 2)) if ctx.tier == "quick"
                                  else ("default", "every") + tuple("seed:%d" % (ctx.seed * 7 + k) for k in range(4)))
        shutil.rmtree(os.path.join(ctx.outdir, "gcs_gen"), ignore_errors=True)
    except common.BuildError:
        raise
    except Exception as ex:
        ctx.correspondence_broken("gcschedule-crashed", repr(ex)[:400])
    ctx.coverage["exhaustive"] = False
    ctx.coverage["rule"] = (
        "operation histories generated by driving the extracted Coq model (every emitted op is accepted by "
        "GCModel.step: SOk/SOom); heaps 2..300 cells, 10..2000 ops (thorough: up to 10^4); profiles mixed/tiny/"
        "boundary(every heap size 2..300, allocated-list brought to threshold-1 and threshold of gc_run)/long; "
        "profile large: heaps of 65535..140000 cells (bulk allocation of > 2^16 cells, gc_run across the trigger, "
        "collections with few/no roots, refill to out-of-memory) predicted by a reference allocator that is compared "
        "with the extracted model on small heaps in the same run, dumps in sparse mode; "
        "each history is executed by gcdrive against the tree's gc.c under ASan/UBSan/LSan, dumps compared line "
        "by line with the model and checked by the python property oracle (partition free/allocated, alloc "
        "hands out a free cell, collection keeps exactly the reachable cells unchanged, cells conserved). "
        "non-trivial = distinct history (md5 of its text) with >=1 collection that freed a cell and >=1 that retained one")

    nontrivial = set()
    evaluations = 0

    # -- single replay ---------------------------------------------------------------------
    if getattr(ctx, "replay", None):
        n, nt, r = run_single(ctx, drv, ctx.replay, workroot, "replay")
        if r is not None:
            print("replay %s: oracle=%s diff=%s crash=%s" % (ctx.replay, r["fail"], json.dumps(r["diff"]), r["crash"]))
            if r.get("stderr"):
                print(r["stderr"])
        ctx.count(evaluations=n, nontrivial=1 if nt else 0)
        shutil.rmtree(workroot, ignore_errors=True)
        return

    # -- corpus first ----------------------------------------------------------------------
    corpus_n = 0
    if os.path.isdir(CORPUS):
        for fn in sorted(os.listdir(CORPUS)):
            if fn.endswith(".hist"):
                n, nt, _ = run_single(ctx, drv, os.path.join(CORPUS, fn), workroot, "corpus")
                evaluations += n
                corpus_n += n
                if nt:
                    nontrivial.add(nt)
    ctx.coverage["corpus_histories"] = corpus_n

    oomprobe(ctx, drv)
    triggerprobe(ctx, drv)

    # -- generated histories -----------------------------------------------------------------
    dist = {}
    all_fails, all_diffs, all_crashes, errors = [], [], [], []
    total_ops = 0
    ndiff_cases = 0

    simdiffs, large_sizes, nsmall = [], [], [0]

    def campaign(jobs, jid0):
        nonlocal evaluations, total_ops, ndiff_cases
        args = [(drv, workroot, jid0 + k, j[0], j[1], j[2], j[3]) for k, j in enumerate(jobs)]
        with multiprocessing.Pool(NPROC) as pool:
            for out in pool.imap_unordered(worker, args, chunksize=1):
                evaluations += out["n"]
                total_ops += out["ops"]
                merge_dist(dist, {k: v for k, v in out["dist"].items() if isinstance(v, dict)})
                nontrivial.update(out["nontrivial"])
                for s in out["samples"]:
                    ctx.sample(s, limit=4)
                all_fails.extend(out["fails"])
                ndiff_cases += len(out["diffs"])
                all_diffs.extend([d for d in out["diffs"] if "line" in d])
                all_crashes.extend(out["crashes"])
                simdiffs.extend(out["simdiffs"])
                large_sizes.extend(out["sizes"] if out["profile"] == "large" else [])
                nsmall[0] += out["n"] if out["profile"] == "largesmall" else 0
                if out["error"]:
                    errors.append({"job": out["jid"], "profile": out["profile"], "seed": out["seed"], "error": out["error"]})

    jobs = plan(ctx.tier, ctx.seed)
    campaign(jobs, 0)
    if (all_diffs or errors) and not all_fails and not ctx.violations:
        # §4.4 step 3: the tie broke but the oracle found nothing yet: search more
        campaign(plan(ctx.tier, ctx.seed, extra=True), len(jobs))
        ctx.notes["extra_search"] = True

    ctx.count(evaluations=evaluations, nontrivial=len(nontrivial))
    ctx.coverage["distribution"] = dist
    ctx.coverage["operations_executed"] = total_ops
    ctx.coverage["seeds"] = {"VERIF_SEED": ctx.seed, "generator_seeds": len(jobs)}
    if dist.get("events", {}).get("model_fuel", 0) or dist.get("events", {}).get("model_bad", 0):
        ctx.notes["model_fuel_or_bad"] = True

    ctx.coverage["large_profile"] = {
        "histories": len(large_sizes), "heap_sizes": sorted(large_sizes), "sparse_full_dump_every": LARGE_K,
        "predicted_by": "imperative reference allocator `sim` in harness/ocaml/gc/gcrun.ml, NOT the extracted model "
                        "(quadratic: minutes per 70000-cell history); oracle rules run on every full dump, per-op "
                        "summaries (return value = old free head, wb_top + 1) in between",
        "sim_vs_extracted_model": {"histories": nsmall[0], "differences": len(simdiffs)}}

    # -- findings ----------------------------------------------------------------------------
    if simdiffs:
        ctx.correspondence_broken("gc-sim-vs-extracted-model", simdiffs[0])
    if errors:
        ctx.correspondence_broken("c09-worker-error", errors[0])
    if all_diffs and not any(b.get("name") == "gc-model-vs-gc.c" for b in ctx.broken):
        d = min(all_diffs, key=lambda x: (len(x.get("history", "")), x["op_index"]))
        d = dict(d)
        d["cases_with_differences"] = ndiff_cases
        ctx.correspondence_broken("gc-model-vs-gc.c", d)
    # oracle failures: one (shrunk) report per rule, smallest history first
    by_key = {}
    for f in all_fails:
        if "history" in f:
            cur = by_key.get(f["key"])
            if cur is None or len(f["history"]) < len(cur["history"]):
                by_key[f["key"]] = f
    ctx.coverage["oracle_failures"] = {"histories": len(all_fails),
                                       "by_rule": {k: len([f for f in all_fails if f["key"] == k]) for k in set(f["key"] for f in all_fails)}}
    for n, (key, f) in enumerate(sorted(by_key.items(), key=lambda kv: len(kv[1]["history"]))):
        report_failure(ctx, drv, f, workroot, do_shrink=(n < 3))
    # sanitizer reports / crashes without an oracle failure in the same history
    seen = set()
    for c in all_crashes:
        if c["kind"].startswith("harness:"):
            ctx.correspondence_broken(c["kind"], c)
            continue
        if c["had_oracle_failure"] or c["kind"] in seen:
            continue
        seen.add(c["kind"])
        ctx.violation("crash:" + c["kind"], "gcdrive on gc.c: %s while executing a history that the model accepts" % c["kind"],
                      {"case": {k: c.get(k) for k in ("profile", "gen_seed", "case")}, "history": c.get("history"),
                       "expected": "clean run under ASan/UBSan/LSan", "observed": c["stderr"]})
    ctx.coverage["sanitizer_or_crash_reports"] = len(all_crashes)
    ctx.coverage["cases_with_model_differences"] = ndiff_cases
    # a short real sample even if no worker produced one
    shutil.rmtree(workroot, ignore_errors=True)
    ctx.notes["c09_wall_s"] = round(time.time() - t_start, 1)
