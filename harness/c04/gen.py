#!/usr/bin/env python3
"""gen.py - seeded generator of allocation-heavy Never programs for the C04 (GC schedule
independence) harness.

    generate(seed, count) -> [(program_id, source_text)]      deterministic in (seed, index)
    python3 gen.py SEED COUNT OUTDIR                           writes OUTDIR/<program_id>.nev

Every program has `func main() -> int`, prints a digest of what it computed, returns an int that
depends on the computed data, reads no input and uses no randomness.  A program mixes 3..6 of the
eight families below; the digits after "-f" in the program id name them:

  1 closures (captured params/locals, env of env, closures in records/arrays, shared envs)
  2 records / linked lists / rings (cycles) / trees built in loops and by recursion
  3 arrays of records, of arrays, of strings, of closures; comprehensions; element replacement
  4 strings concatenated in loops, sliced, compared, hashed, printed
  5 nested calls whose temporaries live only on the operand stack while a callee returns
  6 run-time exceptions (division_by_zero, index_out_of_bounds, nil_pointer) crossing frames that
    hold temporaries, caught by handlers that use their parameters (Never has no `throw`)
  7 self tail calls with record/string/closure accumulators, bounded non-tail recursion
  8 long garbage-churning loops over a small live set
A trailing "u" in the id marks the few (~2%) programs that end, on purpose, with an unhandled
exception after the digest was printed.  The VM then prints a machine dump that contains the
lines "mem_size: <-m>" and "stack_size: <-s>": mask them when comparing runs with different -m.

Language facts the templates rely on (all observed on the pinned tree):
  * a variable is a heap cell; `var b = a`, record/array literals and calls pass the *cell*, so
    `h = Node(i, h)` makes a cycle.  Copies are made with `x + 0`, `dst = src`, `r.f = src`.
  * `var x = f()` is rejected for record/string/func results ("cannot assign const ..."):
    templates write `var x = T; x = f()`; elements of a `let` array are const.
  * there is no `throw`; catch handlers see only the function's parameters; no `<` on strings;
    `length` is for strings only; an array slice is a type of its own (not an array parameter).
  * collections happen at RET and at every SLIDE, and SLIDE is emitted not only for self tail
    calls but wherever a statement value is dropped (2 per `for` iteration), so loops are full
    of safe points.  Ctx.n() keeps the estimated number of safe points of a program around
    800..2600 (+ fixed costs): measured median 1400, max ~2900; under the ASan build that is
    <= 0.13 s with the plain CLI and <= ~0.3 s (median 0.13 s) with a collection *and* a full
    heap audit at every safe point.
  * the descent of a non-tail recursion has no safe point unless it calls something: templates
    put a call there so that allocation bursts stay small (all programs of seeds 1,2 run with
    -m 350, most with -m 250; peak live 200 cells median, ~300 max; 63 of those are the VM's own).
  * the default stack has 200 slots, 34 are in use when main starts and every let/var of main
    takes one; stack overflow trips an ASan report in vm_execute_mark before "stack too large"
    is printed.  Ctx.depth() caps recursion depths so that programs need <= ~165 slots.
"""
import hashlib
import os
import random
import sys
from string import Template


def T(text, **kw):
    return Template(text).substitute(**{k: str(v) for k, v in kw.items()})


# --------------------------------------------------------------------------------------------
# shared helpers (emitted once per program, on demand)
# --------------------------------------------------------------------------------------------

class Ctx:
    def __init__(self, rng, budget):
        self.rng = rng
        self.budget = budget        # safe points the whole program should stay near
        self.allow = budget         # what is left for the block being generated
        self.force_n = None         # calibration only: every loop count becomes this
        self.stack_avail = 90       # stack slots recursion may use (set per program)
        self.decls = []             # records / enums (must precede all functions)
        self.globals = []           # top-level let/var (roots in the global vector)
        self.count_calls = rng.random() < 0.5   # idi() bumps a global counter
        self.funcs = []
        self.have = set()
        self.k = 0
        self.gfields = rng.randint(2, 4)
        self.gstr = rng.random() < 0.7

    def uid(self):
        self.k += 1
        return self.k

    def n(self, lo, hi, per=10):
        """loop count: a random value in lo..hi, cut down so that count * per (= estimated safe
        points per iteration) stays within what is left of this block's allowance"""
        v = self.rng.randint(lo, hi)
        if self.force_n is not None:
            return self.force_n
        v = max(2, min(v, int(self.allow // per)))
        self.allow -= v * per
        return v

    def depth(self, lo, hi, slots, extra=0):
        """recursion depth: random in lo..hi, capped so that (depth + 1) frames of about `slots`
        stack slots each (plus `extra` slots of other frames) fit what main leaves free"""
        v = self.rng.randint(lo, hi)
        cap = (self.stack_avail - extra) // slots - 1
        return max(1, min(v, cap))

    def need(self, *names):
        for name in names:
            if name in self.have:
                continue
            self.have.add(name)
            getattr(self, "h_" + name)()

    # -- helper definitions ---------------------------------------------------------------
    def h_P(self):
        self.decls.append("record P { x : int; y : int; }")

    def h_mix(self):
        self.funcs.append(
            "func mix(a : int, x : int) -> int { (a * 31 + x % 10007 + 10007) % 65521 }")

    def h_idi(self):
        if self.count_calls:
            self.globals.append("var gcalls = 0;")
            self.funcs.append("func idi(x : int) -> int { gcalls = gcalls + 1; x }")
        else:
            self.funcs.append("func idi(x : int) -> int { x }")

    def h_mkp(self):
        self.need("P")
        self.funcs.append("func mkp(a : int, b : int) -> P { P(a + 0, b + 0) }")

    def h_churn(self):
        # garbage producer: every iteration allocates a record (+ string) that dies at once
        nf = self.gfields
        fields = "".join(" f%d : int;" % i for i in range(nf))
        args = ", ".join("i * %d + %d" % (i + 1, i) for i in range(nf))
        summ = " + ".join("g.f%d" % i for i in range(nf))
        if self.gstr:
            fields += " s : string;"
            args += ', "g" + i'
            summ += " + length(g.s)"
        self.decls.append("record G {%s }" % fields)
        self.funcs.append("func gsum(g : G) -> int { %s }" % summ)
        self.funcs.append(T("""func churn(n : int) -> int
{
    var i = 0;
    var t = 0;
    for (i = 0; i < n; i = i + 1)
    {
        t = (t + gsum(G($args))) % 1000
    };
    t
}""", args=args))

    def h_shash(self):
        self.funcs.append("""func shash(s : string) -> int
{
    var h = 7;
    var i = 0;
    for (i = 0; i < length(s); i = i + 1)
    {
        h = (h * 31 + ord(s[i])) % 10007
    };
    h
}""")

    def h_trunc(self):
        self.funcs.append("""func trunc(s : string, cap : int) -> string
{
    if (length(s) > cap) { s[length(s) - cap / 2 .. length(s) - 1] } else { s }
}""")


class Block:
    def __init__(self, *fams):
        self.fams = set(fams)
        self.setup = []   # main statements creating long-lived values
        self.use = []     # main statements using them (after other blocks ran)
        self.late = []    # main statements at the very end


# --------------------------------------------------------------------------------------------
# family 1: closures
# --------------------------------------------------------------------------------------------

def f1_adders(c):
    r = c.rng
    K = c.uid()
    c.need("mkp", "idi", "churn", "mix")
    b = Block(1)
    cap_rec = r.random() < 0.7
    cap_str = r.random() < 0.6
    body = ["idi(c)", "b"]
    pre = []
    if cap_rec:
        pre.append("let r = mkp(a, b * %d);" % r.randint(2, 5))
        body.append("r.x * %d" % r.randint(2, 9))
        body.append("r.y")
    if cap_str:
        pre.append('let s = "k" + a + "%s";' % r.choice(["", "-", "ab", "xyz"]))
        body.append("length(s)")
    body.append("churn(%d)" % r.randint(1, 4))
    r.shuffle(body)
    c.funcs.append(T("""func mkadd${K}(a : int, b : int) -> (int) -> int
{
    $pre
    let func(c : int) -> int { ($body) % 1009 }
}""", K=K, pre="\n    ".join(pre), body=" + ".join(body)))
    inner = ["churn(%d)" % r.randint(1, 3), "a * 100", "pb.x * 10", "idi(c)", "pb.y"]
    r.shuffle(inner)
    c.funcs.append(T("""func lev${K}(a : int) -> (int) -> (int) -> int
{
    let func(b : int) -> (int) -> int
    {
        let pb = mkp(b, a + b);
        let func(c : int) -> int { ($inner) % 1013 }
    }
}""", K=K, inner=" + ".join(inner)))
    v = lambda: r.randint(1, 9)
    b.setup.append("let fa%d = lev%d(%d)" % (K, K, v()))
    b.setup.append("let fb%d = fa%d(%d)" % (K, K, v()))
    if r.random() < 0.5:
        b.setup.append("let ad%d = mkadd%d(%d, %d)" % (K, K, v(), v()))
        b.late.append("acc = mix(acc, ad%d(%d) + ad%d(churn(%d)))" % (K, v(), K, v()))
    b.use.append("acc = mix(acc, mkadd%d(%d, %d)(%d) + mkadd%d(%d, %d)(churn(%d)))"
                 % (K, v(), v(), v(), K, v(), v(), v()))
    b.use.append("acc = mix(acc, fb%d(%d) + lev%d(%d)(%d)(%d) * 3 + fa%d(%d)(%d))"
                 % (K, v(), K, v(), v(), v(), K, v(), v()))
    b.use.append('prints("c%d " + fb%d(%d) + "\\n")' % (K, K, v()))
    n = c.n(3, 12, 85)
    b.use.append("var i%d = 0" % K)
    b.use.append(T("""for (i${K} = 0; i${K} < $n; i${K} = i${K} + 1)
    {
        acc = mix(acc, mkadd${K}(i${K}, $a)(fb${K}(i${K})) + fa${K}(i${K} % 4)($b))
    }""", K=K, n=n, a=v(), b=v()))
    b.late.append("acc = mix(acc, fb%d(%d) * 7 + fa%d(%d)(%d))" % (K, v(), K, v(), v()))
    return b


def f1_counters(c):
    r = c.rng
    K = c.uid()
    c.need("idi", "mix", "churn")
    b = Block(1, 3)
    c.decls.append("record Box%d { tag : int; nx() -> int; lbl : string; }" % K)
    tail = r.choice(["idi(v)", "v", "v + 0", "idi(v) % 1000"])
    c.funcs.append(T("""func counter${K}(start : int, step : int) -> () -> int
{
    var v = start + 0;
    func nx() -> int { v = (v + step) % 5003; $tail };
    nx
}""", K=K, tail=tail))
    ln = r.randint(2, 5)
    items = ", ".join("counter%d(%d, %d)" % (K, r.randint(0, 200), r.randint(1, 13))
                      for _ in range(ln))
    b.setup.append('let bx%d = Box%d(%d, counter%d(%d, %d), "b" + %d)'
                   % (K, K, r.randint(1, 50), K, r.randint(0, 99), r.randint(1, 9), r.randint(0, 9)))
    b.setup.append("var cs%d = [ %s ] : () -> int" % (K, items))
    b.setup.append("var i%d = 0" % K)
    n = c.n(5, 30, 35)
    repl = ""
    if r.random() < 0.6:
        # replace a closure in the array: the old one (and its env) becomes garbage
        repl = T("cs${K}[i${K} % $ln] = counter${K}(bx${K}.nx(), i${K} % 7 + 1);\n        ",
                 K=K, ln=ln)
    b.use.append(T("""for (i${K} = 0; i${K} < $n; i${K} = i${K} + 1)
    {
        ${repl}acc = mix(acc, bx${K}.nx() + cs${K}[i${K} % $ln]() * 2 + churn($g))
    }""", K=K, n=n, ln=ln, repl=repl, g=r.randint(1, 3)))
    b.use.append('prints(bx%d.lbl + " " + bx%d.nx() + " " + cs%d[%d]() + "\\n")'
                 % (K, K, K, r.randrange(ln)))
    b.late.append("acc = mix(acc, bx%d.nx() * 3 + cs%d[0]() + bx%d.tag)" % (K, K, K))
    return b


def f1_state(c):
    r = c.rng
    K = c.uid()
    c.need("mkp", "mix", "churn", "idi")
    b = Block(1)
    h = r.randint(2, 6)
    c.funcs.append(T("""func mkacc${K}(init : int) -> (int) -> int
{
    let st = mkp(init, 0);
    var hist = {[ $h ]} : int;
    let func(d : int) -> int
    {
        st.x = (st.x + d * $m) % 1000;
        st.y = st.y + 1;
        hist[st.y % $h] = st.x + 0;
        st.x + hist[(st.y + 1) % $h] + churn($g)
    }
}""", K=K, h=h, m=r.randint(1, 9), g=r.randint(1, 3)))
    c.decls.append("record Pair%d { inc(d : int) -> int; get() -> int; }" % K)
    c.funcs.append(T("""func mkpair${K}(s : int) -> Pair${K}
{
    var v = s + 0;
    let hold = mkp(s, s * 2);
    Pair${K}(let func(d : int) -> int { v = (v + d + hold.x) % 4001; idi(v) },
             let func() -> int { v * 2 + hold.y })
}""", K=K))
    b.setup.append("let ac%d = mkacc%d(%d)" % (K, K, r.randint(0, 20)))
    b.setup.append("let pr%d = mkpair%d(%d)" % (K, K, r.randint(1, 30)))
    b.setup.append("var i%d = 0" % K)
    n = c.n(5, 25, 45)
    parts = ["ac%d(i%d)" % (K, K), "pr%d.inc(i%d %% 5)" % (K, K), "pr%d.get()" % K]
    r.shuffle(parts)
    b.use.append(T("""for (i${K} = 0; i${K} < $n; i${K} = i${K} + 1)
    {
        acc = mix(acc, $e)
    }""", K=K, n=n, e=" + ".join(parts)))
    b.use.append('prints("st%d " + pr%d.get() + " " + ac%d(0) + "\\n")' % (K, K, K))
    b.late.append("acc = mix(acc, mkpair%d(%d).inc(ac%d(%d)) + pr%d.get())"
                  % (K, r.randint(1, 9), K, r.randint(1, 9), K))
    return b


def f1_chain(c):
    r = c.rng
    K = c.uid()
    c.need("mix", "idi", "churn")
    b = Block(1, 7)
    d = c.depth(2, 5, 9, 36)
    extra = r.choice(["n", "n * 2", "idi(n)", "churn(1) + n"])
    c.funcs.append(T("""func chain${K}(n : int, f(x : int) -> int) -> (int) -> int
{
    n == 0 ? f : chain${K}(n - 1, let func(x : int) -> int { (f(idi(x)) + $extra) % 2003 })
}""", K=K, extra=extra))
    c.funcs.append(T("""func comp${K}(f(x : int) -> int, g(x : int) -> int) -> (int) -> int
{
    let func(x : int) -> int { f(g(x) % 100) }
}""", K=K))
    b.setup.append("let ch%d = chain%d(%d, let func(x : int) -> int { x * %d + 1 })"
                   % (K, K, d, r.randint(2, 5)))
    b.use.append("acc = mix(acc, ch%d(%d) + chain%d(%d, ch%d)(%d))"
                 % (K, r.randint(1, 20), K, r.randint(1, 3), K, r.randint(1, 20)))
    b.use.append("let cc%d = comp%d(ch%d, let func(x : int) -> int { x + churn(%d) })"
                 % (K, K, K, r.randint(1, 4)))
    b.use.append("acc = mix(acc, cc%d(%d))" % (K, r.randint(1, 30)))
    b.use.append('prints("ch%d " + ch%d(%d) + "\\n")' % (K, K, r.randint(1, 9)))
    b.late.append("acc = mix(acc, cc%d(acc %% 50) + ch%d(%d))" % (K, K, r.randint(1, 9)))
    return b


# --------------------------------------------------------------------------------------------
# family 2: records, lists, rings, trees
# --------------------------------------------------------------------------------------------

def list_decl(c, K):
    """record N<K> with 'v', 'next' and a few random extra fields; returns the extra-argument
    text for the constructor (given the value expression name 'v')"""
    r = c.rng
    extras = []
    if r.random() < 0.5:
        extras.append(("w", "int", "v * 2 + 1"))
    if r.random() < 0.4:
        extras.append(("s", "string", '"n" + v'))
    if r.random() < 0.3:
        extras.append(("p", "P", "mkp(v, v + 1)"))
        c.need("mkp")
    fields = " v : int; next : N%d;" % K + "".join(" %s : %s;" % (n, t) for n, t, _ in extras)
    c.decls.append("record N%d {%s }" % (K, fields))
    ctor = lambda v, nxt: "N%d(%s, %s%s)" % (
        K, v, nxt, "".join(", " + e.replace("v", "(" + v + ")") for _, _, e in extras))
    val = "c.v"
    cells = 4 + sum({"int": 1, "string": 1, "P": 5}[t] for _, t, _ in extras)
    for n, t, _ in extras:
        if t == "int":
            val += " + c.w % 7"
        elif t == "string":
            val += " + length(c.s)"
        else:
            val += " + c.p.y % 3"
    return ctor, val, cells


def f2_list(c):
    r = c.rng
    K = c.uid()
    c.need("mix", "idi")
    b = Block(2)
    ctor, val, cells = list_decl(c, K)
    c.allow -= 350
    c.funcs.append(T("""func cons${K}(v : int, n : N${K}) -> N${K}
{
    var r = $ctor;
    r.next = n;
    r
}""", K=K, ctor=ctor("v + 0", "nil")))
    c.funcs.append(T("""func build${K}(n : int, m : int) -> N${K}
{
    var h = N${K};
    var i = 0;
    for (i = 0; i < n; i = i + 1)
    {
        h = cons${K}((i * m + $a) % $q, h)
    };
    h
}""", K=K, a=r.randint(0, 9), q=r.choice([17, 31, 53, 97])))
    c.funcs.append(T("""func sum${K}(h : N${K}) -> int
{
    var c = N${K};
    var s = 0;
    var k = 0;
    c = h;
    while (c != nil && k < 64)
    {
        s = (s + ($val) * (k + 1)) % 10007;
        c = c.next;
        k = k + 1
    };
    s
}""", K=K, val=val))
    # reverse into a fresh list; the old one becomes garbage when the caller drops it
    c.funcs.append(T("""func rev${K}(h : N${K}) -> N${K}
{
    var c = N${K};
    var o = N${K};
    var k = 0;
    c = h;
    while (c != nil && k < 64)
    {
        o = cons${K}(c.v, o);
        c = c.next;
        k = k + 1
    };
    o
}""", K=K))
    ln = r.randint(3, max(3, min(9, 40 // cells)))
    b.setup.append("var ls%d = N%d" % (K, K))
    b.setup.append("ls%d = build%d(%d, %d)" % (K, K, ln, r.randint(1, 9)))
    b.setup.append("var i%d = 0" % K)
    b.use.append("acc = mix(acc, sum%d(ls%d) + sum%d(rev%d(ls%d)))" % (K, K, K, K, K))
    n = c.n(3, 12, 18 * ln + 20)
    kind = r.randrange(3)
    if kind == 0:
        body = "ls%d = rev%d(ls%d);\n        acc = mix(acc, sum%d(ls%d))" % (K, K, K, K, K)
    elif kind == 1:
        body = ("acc = mix(acc, sum%d(build%d(%d + i%d %% 4, i%d + 1)) + sum%d(ls%d))"
                % (K, K, r.randint(2, 6), K, K, K, K))
    else:
        body = ("ls%d = cons%d(i%d, ls%d.next);\n        acc = mix(acc, sum%d(ls%d))"
                % (K, K, K, K, K, K))
    b.use.append(T("""for (i${K} = 0; i${K} < $n; i${K} = i${K} + 1)
    {
        $body
    }""", K=K, n=n, body=body))
    b.use.append('prints("l%d " + sum%d(ls%d) + "\\n")' % (K, K, K))
    b.late.append("acc = mix(acc, sum%d(ls%d))" % (K, K))
    return b


def f2_reclist(c):
    r = c.rng
    K = c.uid()
    c.need("mix", "idi")
    b = Block(2, 7)
    ctor, val, cells = list_decl(c, K)
    c.funcs.append(T("""func rb${K}(n : int, m : int) -> N${K}
{
    if (n == 0) { N${K} } else { $ctor }
}""", K=K, ctor=ctor("n * m % 23", "rb%d(idi(n) - 1, m)" % K)))
    val_h = val.replace("c.", "h.")
    c.funcs.append(T("""func rs${K}(h : N${K}) -> int
{
    if (h == nil) { 0 } else { ($val + rs${K}(h.next) * 2) % 10007 }
}""", K=K, val=val_h))
    c.funcs.append(T("""func rlen${K}(h : N${K}, k : int) -> int
{
    if (h == nil) { k } else { rlen${K}(h.next, k + 1) }
}""", K=K))
    d = c.depth(3, 7, 10)
    b.setup.append("let rl%d = rb%d(%d, %d)" % (K, K, d, r.randint(1, 9)))
    b.setup.append("var i%d = 0" % K)
    b.use.append("acc = mix(acc, rs%d(rl%d) + rlen%d(rl%d, 0))" % (K, K, K, K))
    n = c.n(2, 10, 8 * d + 10)
    b.use.append(T("""for (i${K} = 0; i${K} < $n; i${K} = i${K} + 1)
    {
        acc = mix(acc, rs${K}(rb${K}(i${K} % $d + 1, i${K})) + rlen${K}(rl${K}, i${K}))
    }""", K=K, n=n, d=d))
    b.use.append('prints("r%d " + rs%d(rl%d) + "\\n")' % (K, K, K))
    b.late.append("acc = mix(acc, rs%d(rl%d.next))" % (K, K))
    return b


def f2_ring(c):
    r = c.rng
    K = c.uid()
    c.need("mix")
    b = Block(2)
    dbl = r.random() < 0.5
    c.decls.append("record R%d { v : int; next : R%d;%s }"
                   % (K, K, (" prev : R%d;" % K) if dbl else ""))
    nilx = ", nil" if dbl else ""
    setprev = "\n        last.next.prev = last;" if dbl else ""
    closeprev = "\n    first.prev = last;" if dbl else ""
    c.funcs.append(T("""func ring${K}(n : int, m : int) -> R${K}
{
    let first = R${K}(m + 0, nil$nilx);
    var last = R${K};
    var i = 1;
    last = first;
    for (i = 1; i < n; i = i + 1)
    {
        last.next = R${K}(i * m % 19, nil$nilx);$setprev
        last = last.next
    };
    last.next = first;$closeprev
    first
}""", K=K, nilx=nilx, setprev=setprev, closeprev=closeprev))
    step = "c = c.next"
    if dbl:
        step = "c = if (k % 3 == 2) c.prev else c.next"
    c.funcs.append(T("""func walk${K}(h : R${K}, steps : int) -> int
{
    var c = R${K};
    var s = 0;
    var k = 0;
    c = h;
    for (k = 0; k < steps; k = k + 1)
    {
        s = (s * 3 + c.v) % 10007;
        $step
    };
    s
}""", K=K, step=step))
    ln = r.randint(1, 8)   # 1 = a record pointing at itself
    b.setup.append("let rg%d = ring%d(%d, %d)" % (K, K, ln, r.randint(1, 9)))
    b.setup.append("var i%d = 0" % K)
    b.use.append("acc = mix(acc, walk%d(rg%d, %d))" % (K, K, r.randint(3, 20)))
    n = c.n(3, 12, 110)
    # garbage rings (cyclic garbage) while the live ring is held by main
    b.use.append(T("""for (i${K} = 0; i${K} < $n; i${K} = i${K} + 1)
    {
        acc = mix(acc, walk${K}(ring${K}(i${K} % 5 + 1, i${K} + 1), $s) + walk${K}(rg${K}.next, i${K}))
    }""", K=K, n=n, s=r.randint(2, 9)))
    if r.random() < 0.5:
        b.use.append("rg%d.next.v = acc %% 100" % K)
    b.use.append('prints("g%d " + walk%d(rg%d, %d) + "\\n")' % (K, K, K, ln * 2 + 1))
    b.late.append("acc = mix(acc, walk%d(rg%d, %d))" % (K, K, r.randint(3, 15)))
    return b


def tree_depth(keys):
    root = None
    deepest = 0
    for k in keys:
        if root is None:
            root = [k, None, None]
            deepest = max(deepest, 1)
            continue
        n, d = root, 1
        while True:
            i = 1 if k < n[0] else 2
            d += 1
            if n[i] is None:
                n[i] = [k, None, None]
                break
            n = n[i]
        deepest = max(deepest, d)
    return deepest


def f2_tree(c):
    r = c.rng
    K = c.uid()
    c.need("mix")
    b = Block(2, 7)
    c.allow -= 400
    c.decls.append("record T%d { v : int; l : T%d; r : T%d; }" % (K, K, K))
    c.funcs.append(T("""func ins${K}(var t : T${K}, v : int) -> T${K}
{
    if (t == nil)
    {
        T${K}(v + 0, nil, nil)
    }
    else if (v < t.v)
    {
        t.l = ins${K}(t.l, v);
        t
    }
    else
    {
        t.r = ins${K}(t.r, v);
        t
    }
}""", K=K))
    c.funcs.append(T("""func tsum${K}(t : T${K}, d : int) -> int
{
    if (t == nil) { 0 } else { (tsum${K}(t.l, d + 1) + t.v * d + tsum${K}(t.r, d + 1)) % 10007 }
}""", K=K))
    # keys = (i * a + b) % q for i < cnt; pick parameters whose tree is at most `lim` deep
    lim = max(3, c.depth(6, 6, 10, 10))
    while True:
        q = r.choice([11, 13, 17, 19, 23])
        a = r.randint(2, q - 1)
        bb = r.randint(0, q - 1)
        cnt = r.randint(4, 11)
        keys = [(i * a + bb) % q for i in range(cnt)]
        if tree_depth(keys) <= lim:
            break
    c.funcs.append(T("""func grow${K}(cnt : int, a : int) -> T${K}
{
    var t = T${K};
    var i = 0;
    for (i = 0; i < cnt; i = i + 1)
    {
        t = ins${K}(t, (i * a + $bb) % $q)
    };
    t
}""", K=K, bb=bb, q=q))
    b.setup.append("let tr%d = grow%d(%d, %d)" % (K, K, cnt, a))
    b.use.append("acc = mix(acc, tsum%d(tr%d, 1))" % (K, K))
    # prune a subtree (garbage), grow a garbage tree
    if r.random() < 0.5:
        b.use.append("tr%d.%s = nil" % (K, r.choice("lr")))
    b.use.append("acc = mix(acc, tsum%d(tr%d, 1) + tsum%d(grow%d(%d, %d), 2))"
                 % (K, K, K, K, cnt, a))
    b.use.append('prints("t%d " + tsum%d(tr%d, 1) + "\\n")' % (K, K, K))
    b.late.append("acc = mix(acc, tsum%d(tr%d, 3))" % (K, K))
    return b


def f2_nested(c):
    r = c.rng
    K = c.uid()
    c.need("mix", "mkp", "idi")
    b = Block(2)
    nf = r.randint(1, 3)
    c.decls.append("record In%d { a : int; s : string; p : P; }" % K)
    c.decls.append("record Out%d { id : int; cur : In%d;%s old : In%d; }"
                   % (K, K, "".join(" e%d : int;" % i for i in range(nf)), K))
    c.funcs.append(T("""func mkin${K}(i : int) -> In${K}
{
    In${K}(i * $m % 101, "in" + i % 10, mkp(i, i % 3))
}""", K=K, m=r.randint(2, 9)))
    c.funcs.append(T("""func inval${K}(x : In${K}) -> int
{
    if (x == nil) { 1 } else { x.a + length(x.s) + idi(x.p.x) % 7 + x.p.y }
}""", K=K))
    es = "".join(", %d" % r.randint(0, 9) for _ in range(nf))
    b.setup.append("let ob%d = Out%d(%d, mkin%d(%d)%s, nil)"
                   % (K, K, r.randint(1, 9), K, r.randint(1, 9), es))
    b.setup.append("var i%d = 0" % K)
    n = c.n(5, 30, 32)
    b.use.append(T("""for (i${K} = 0; i${K} < $n; i${K} = i${K} + 1)
    {
        ob${K}.old = ob${K}.cur;
        ob${K}.cur = mkin${K}(i${K} + ob${K}.id);
        acc = mix(acc, inval${K}(ob${K}.cur) * 3 + inval${K}(ob${K}.old))
    }""", K=K, n=n))
    b.use.append('prints("o%d " + ob%d.cur.s + " " + inval%d(ob%d.old) + "\\n")' % (K, K, K, K))
    b.late.append("acc = mix(acc, inval%d(ob%d.cur) + ob%d.e0)" % (K, K, K))
    return b


def f2_global(c):
    """a list, a string and a counter held in global variables (roots in the global vector),
    updated from functions several frames deep"""
    r = c.rng
    K = c.uid()
    c.need("mix", "idi", "trunc", "mkp")
    b = Block(2, 4)
    cap = r.randint(3, 8)
    c.decls.append("record GN%d { v : int; p : P; next : GN%d; }" % (K, K))
    c.globals.append("var ghead%d = GN%d;" % (K, K))
    c.globals.append('var gname%d = "";' % K)
    c.globals.append("var glen%d = 0;" % K)
    c.globals.append("let gkeep%d = P(%d, %d);" % (K, r.randint(1, 99), r.randint(1, 99)))
    c.funcs.append(T("""func gpush${K}(v : int) -> int
{
    var n = GN${K}(v + 0, mkp(v, glen${K}), nil);
    if (glen${K} >= $cap)
    {
        ghead${K} = nil;
        glen${K} = 0
    }
    else
    {
        n.next = ghead${K};
        0
    };
    ghead${K} = n;
    glen${K} = glen${K} + 1;
    gname${K} = trunc(gname${K} + v % 10, $scap);
    idi(v) + gkeep${K}.x
}""", K=K, cap=cap, scap=r.randint(5, 12)))
    c.funcs.append(T("""func gtot${K}() -> int
{
    var c = GN${K};
    var s = 0;
    var k = 0;
    c = ghead${K};
    while (c != nil && k < 32)
    {
        s = (s * 3 + c.v + c.p.y) % 10007;
        c = c.next;
        k = k + 1
    };
    s + length(gname${K}) + gkeep${K}.y
}""", K=K))
    c.funcs.append(T("""func gwork${K}(i : int) -> int
{
    let t = mkp(i, gpush${K}(i * $m % 50));
    t.x + t.y + gtot${K}()
}""", K=K, m=r.randint(1, 9)))
    b.setup.append("gpush%d(%d)" % (K, r.randint(1, 9)))
    b.setup.append("var i%d = 0" % K)
    n = c.n(4, 20, 60)
    b.use.append(T("""for (i${K} = 0; i${K} < $n; i${K} = i${K} + 1)
    {
        acc = mix(acc, gwork${K}(i${K}))
    }""", K=K, n=n))
    b.use.append('prints("G%d " + gname%d + " " + gtot%d() + "\\n")' % (K, K, K))
    b.late.append("acc = mix(acc, gtot%d() + glen%d)" % (K, K))
    return b


def f2_enum(c):
    """enum values with record payloads, kept in an array and taken apart by match / if let"""
    r = c.rng
    K = c.uid()
    c.need("mix", "idi", "mkp")
    b = Block(2, 3)
    c.decls.append("enum Sh%d { Circle { r : int; c : P; }, Rect { w : int; h : int; }, Tag { s : string; }, Empty }" % K)
    arms = ["Sh%d::Circle(r, c) -> (3 * idi(r) * r + c.x) %% 1009;" % K,
            "Sh%d::Rect(w, h) -> idi(w) * h %% 1009;" % K,
            "Sh%d::Tag(t) -> length(t) + idi(%d);" % (K, r.randint(1, 9)),
            "Sh%d::Empty -> %d;" % (K, r.randint(0, 9))]
    r.shuffle(arms)
    c.funcs.append(T("""func area${K}(s : Sh${K}) -> int
{
    match s
    {
        $arms
    }
}""", K=K, arms="\n        ".join(arms)))
    order = [0, 1, 2, 3]
    r.shuffle(order)
    mk = ["Sh%d::Circle(i %% 30, mkp(i, 1))" % K, "Sh%d::Rect(i %% 20, i %% 7 + 1)" % K,
          'Sh%d::Tag("t" + i)' % K, "Sh%d::Empty" % K]
    c.funcs.append(T("""func mks${K}(i : int) -> Sh${K}
{
    if (i % 4 == 0) { $a } else if (i % 4 == 1) { $b } else if (i % 4 == 2) { $c } else { $d }
}""", K=K, a=mk[order[0]], b=mk[order[1]], c=mk[order[2]], d=mk[order[3]]))
    c.funcs.append(T("""func rad${K}(s : Sh${K}) -> int
{
    if let (Sh${K}::Circle(r, c) = s) { idi(r) + c.y } else { 0 - 1 }
}""", K=K))
    ln = r.randint(2, 6)
    b.setup.append("var shs%d = {[ %d ]} : Sh%d" % (K, ln, K))
    b.setup.append("var i%d = 0" % K)
    b.setup.append("for (i%d = 0; i%d < %d; i%d = i%d + 1) { shs%d[i%d] = mks%d(i%d + %d) }"
                   % (K, K, ln, K, K, K, K, K, K, r.randint(0, 3)))
    n = c.n(4, 24, 22)
    b.use.append(T("""for (i${K} = 0; i${K} < $n; i${K} = i${K} + 1)
    {
        shs${K}[i${K} % $ln] = mks${K}(i${K} * $m + area${K}(shs${K}[(i${K} + 1) % $ln]));
        acc = mix(acc, area${K}(shs${K}[i${K} % $ln]) + rad${K}(shs${K}[0]) + area${K}(mks${K}(i${K})))
    }""", K=K, n=n, ln=ln, m=r.randint(1, 5)))
    b.use.append('prints("E%d " + area%d(shs%d[%d]) + " " + rad%d(mks%d(%d)) + "\\n")'
                 % (K, K, K, ln - 1, K, K, r.randint(0, 12)))
    b.late.append("acc = mix(acc, area%d(shs%d[0]) + rad%d(shs%d[%d]))" % (K, K, K, K, ln - 1))
    return b


# --------------------------------------------------------------------------------------------
# family 3: arrays
# --------------------------------------------------------------------------------------------

def f3_recarr(c):
    r = c.rng
    K = c.uid()
    c.need("mix", "mkp")
    b = Block(3)
    c.funcs.append(T("""func fill${K}(var a[D] : P, base : int) -> int
{
    var i = 0;
    for (i = 0; i < D; i = i + 1)
    {
        a[i] = mkp(i + base, i * base % 7)
    };
    D
}""", K=K))
    c.funcs.append(T("""func asum${K}(a[D] : P) -> int
{
    var i = 0;
    var s = 0;
    for (i = 0; i < D; i = i + 1)
    {
        s = (s + a[i].x * (i + 1) + a[i].y) % 10007
    };
    s
}""", K=K))
    ln = r.randint(2, 8)
    b.setup.append("var ar%d = {[ %d ]} : P" % (K, ln))
    b.setup.append("fill%d(ar%d, %d)" % (K, K, r.randint(1, 9)))
    b.setup.append("var i%d = 0" % K)
    n = c.n(5, 30, 5 * ln + 12)
    st = r.choice([1, 2, 3, 5, 7])
    b.use.append(T("""for (i${K} = 0; i${K} < $n; i${K} = i${K} + 1)
    {
        ar${K}[(i${K} * $st) % $ln] = mkp(i${K}, asum${K}(ar${K}) % 50);
        acc = mix(acc, ar${K}[i${K} % $ln].x)
    }""", K=K, n=n, st=st, ln=ln))
    if r.random() < 0.5:
        # comprehension over the live array: a fresh array of fresh records, dropped at once
        c.funcs.append(T("""func dbl${K}(a[D] : P) -> [E] : P
{
    [ mkp(e.x * 2, e.y + 1) | e in a; e.x % 2 == $par ] : P
}""", K=K, par=r.randint(0, 1)))
        b.use.append("acc = mix(acc, asum%d(dbl%d(ar%d)) + asum%d(ar%d))" % (K, K, K, K, K))
    if ln >= 3 and r.random() < 0.5:
        lo = r.randint(0, ln - 3)
        hi = r.randint(lo + 1, ln - 1)
        b.use.append("let sl%d = ar%d[%d .. %d]" % (K, K, lo, hi))
        b.late.append("acc = mix(acc, sl%d[0].x + sl%d[%d].y)" % (K, K, hi - lo))
    b.use.append('prints("a%d " + asum%d(ar%d) + "\\n")' % (K, K, K))
    b.late.append("acc = mix(acc, asum%d(ar%d) + ar%d[%d].y)" % (K, K, K, r.randrange(ln)))
    return b


def f3_rows(c):
    r = c.rng
    K = c.uid()
    c.need("mix")
    b = Block(3)
    c.funcs.append(T("""func row${K}(n : int, b : int) -> [D] : int
{
    var a = {[ n ]} : int;
    var i = 0;
    for (i = 0; i < n; i = i + 1)
    {
        a[i] = (i * b + n) % 97
    };
    a
}""", K=K))
    c.funcs.append(T("""func rsum${K}(r[D] : int) -> int
{
    var i = 0;
    var s = 0;
    for (i = 0; i < D; i = i + 1)
    {
        s = (s * 3 + r[i]) % 10007
    };
    s + D
}""", K=K))
    ln = r.randint(2, 4)
    rows = ", ".join("row%d(%d, %d)" % (K, r.randint(1, 5), r.randint(1, 9)) for _ in range(ln))
    b.setup.append("var rows%d = [ %s ] : [_] : int" % (K, rows))
    b.setup.append("var i%d = 0" % K)
    n = c.n(4, 20, 25)
    b.use.append(T("""for (i${K} = 0; i${K} < $n; i${K} = i${K} + 1)
    {
        rows${K}[i${K} % $ln] = row${K}(1 + i${K} % $w, i${K});
        acc = mix(acc, rsum${K}(rows${K}[(i${K} + 1) % $ln]) + rows${K}[i${K} % $ln][0])
    }""", K=K, n=n, ln=ln, w=r.randint(2, 6)))
    if r.random() < 0.6:
        d1, d2 = r.randint(2, 4), r.randint(2, 4)
        b.use.append("var mx%d = {[ %d, %d ]} : int" % (K, d1, d2))
        b.use.append(T("""for (i${K} = 0; i${K} < $m; i${K} = i${K} + 1)
    {
        mx${K}[i${K} % $d1, (i${K} / $d1) % $d2] = rsum${K}(rows${K}[i${K} % $ln]) % 100
    }""", K=K, m=d1 * d2 + r.randint(0, 3), d1=d1, d2=d2, ln=ln))
        b.use.append("acc = mix(acc, mx%d[%d, %d] + mx%d[0, 0])" % (K, d1 - 1, d2 - 1, K))
    b.use.append('prints("w%d " + rsum%d(rows%d[0]) + "\\n")' % (K, K, K))
    b.late.append("acc = mix(acc, rsum%d(rows%d[%d]))" % (K, K, ln - 1))
    return b


def f3_strarr(c):
    r = c.rng
    K = c.uid()
    c.need("mix", "trunc", "shash")
    b = Block(3, 4)
    ln = r.randint(2, 6)
    lits = ", ".join('"%s"' % r.choice(["a", "bb", "ccc", "dd", "e", "xyz", "q1", ""]) for _ in range(ln))
    b.setup.append("var ss%d = [ %s ] : string" % (K, lits))
    b.setup.append("var i%d = 0" % K)
    n = c.n(5, 30, 15)
    cap = r.randint(6, 16)
    b.use.append(T("""for (i${K} = 0; i${K} < $n; i${K} = i${K} + 1)
    {
        ss${K}[i${K} % $ln] = trunc(ss${K}[(i${K} + 1) % $ln] + i${K} + "$sep", $cap);
        acc = mix(acc, length(ss${K}[i${K} % $ln]) + (if (ss${K}[0] == ss${K}[$o]) 100 else 0))
    }""", K=K, n=n, ln=ln, cap=cap, sep=r.choice(["", ".", "-", "ab"]), o=ln - 1))
    b.use.append('prints("s%d " + ss%d[0] + "|" + ss%d[%d] + "\\n")' % (K, K, K, ln - 1))
    b.use.append("acc = mix(acc, shash(ss%d[%d]))" % (K, r.randrange(ln)))
    b.late.append("acc = mix(acc, shash(ss%d[0] + ss%d[%d]))" % (K, K, ln - 1))
    return b


def f3_comp(c):
    r = c.rng
    K = c.uid()
    c.need("mix", "mkp")
    b = Block(3)
    c.funcs.append(T("""func psum${K}(a[D] : P) -> int
{
    var s = 0;
    for (e in a)
    {
        s = (s * 5 + e.x * 3 + e.y) % 10007
    };
    s + D
}""", K=K))
    c.funcs.append(T("""func tri${K}(n : int, k : int) -> [D] : P
{
    [ mkp(x * k, y) | x in [ 0 .. n ]; y in [ 0 .. x ]; x + y != $skip ] : P
}""", K=K, skip=r.randint(0, 4)))
    c.funcs.append(T("""func sel${K}(a[D] : P, m : int) -> [E] : int
{
    [ e.x + e.y | e in a; e.y % 2 == m ] : int
}""", K=K))
    c.funcs.append(T("""func isum${K}(a[D] : int) -> int
{
    var s = 0;
    for (e in a) { s = (s + e) % 10007 };
    s * 2 + D
}""", K=K))
    c.need("idi")
    c.funcs.append(T("""func over${K}(n : int, k : int) -> int
{
    var s = 0;
    for (e in tri${K}(n, k))
    {
        s = (s * 3 + idi(e.x) + mkp(e.y, 1).x) % 10007
    };
    s
}""", K=K))
    b.late.append("acc = mix(acc, over%d(%d, %d))" % (K, r.randint(1, 3), r.randint(1, 9)))
    b.setup.append("let tv%d = tri%d(%d, %d)" % (K, K, r.randint(1, 3), r.randint(1, 9)))
    b.setup.append("var i%d = 0" % K)
    n = c.n(2, 8, 120)
    b.use.append(T("""for (i${K} = 0; i${K} < $n; i${K} = i${K} + 1)
    {
        acc = mix(acc, psum${K}(tri${K}(i${K} % 3 + 1, i${K})) + isum${K}(sel${K}(tv${K}, i${K} % 2)) + over${K}(i${K} % 2 + 1, 3))
    }""", K=K, n=n))
    b.use.append('prints("v%d " + psum%d(tv%d) + "\\n")' % (K, K, K))
    b.late.append("acc = mix(acc, psum%d(tv%d))" % (K, K))
    return b


def f3_funarr(c):
    r = c.rng
    K = c.uid()
    c.need("mix", "idi", "mkp")
    b = Block(3, 1)
    c.funcs.append(T("""func mkf${K}(a : int) -> (int) -> int
{
    let p = mkp(a, a * a % 13);
    let func(x : int) -> int { (x * p.x + p.y + idi(a)) % 1021 }
}""", K=K))
    ln = r.randint(2, 5)
    items = ", ".join("mkf%d(%d)" % (K, r.randint(1, 20)) for _ in range(ln))
    b.setup.append("var fs%d = [ %s ] : (int) -> int" % (K, items))
    b.setup.append("var i%d = 0" % K)
    n = c.n(5, 30, 20)
    b.use.append(T("""for (i${K} = 0; i${K} < $n; i${K} = i${K} + 1)
    {
        fs${K}[i${K} % $ln] = mkf${K}(fs${K}[(i${K} + 1) % $ln](i${K}) % 30);
        acc = mix(acc, fs${K}[i${K} % $ln](fs${K}[0]($v)))
    }""", K=K, n=n, ln=ln, v=r.randint(1, 9)))
    b.use.append('prints("f%d " + fs%d[%d](%d) + "\\n")' % (K, K, ln - 1, r.randint(1, 9)))
    b.late.append("acc = mix(acc, fs%d[0](%d) + fs%d[%d](%d))"
                  % (K, r.randint(1, 9), K, ln - 1, r.randint(1, 9)))
    return b


# --------------------------------------------------------------------------------------------
# family 4: strings
# --------------------------------------------------------------------------------------------

def f4_build(c):
    r = c.rng
    K = c.uid()
    c.need("mix", "trunc", "shash")
    b = Block(4)
    form = r.choice(['"" + (i * %d %% 10)' % r.randint(1, 9),
                     'str(i %% %d)' % r.randint(3, 30),
                     '"<" + i % 7 + ">"',
                     '(if (i % 2 == 0) "e" else "o") + i % 5'])
    c.funcs.append("func dig%d(i : int) -> string { %s }" % (K, form))
    cap = r.randint(8, 30)
    c.funcs.append(T("""func sb${K}(n : int, seed : string) -> string
{
    var s = "";
    var i = 0;
    s = seed;
    for (i = 0; i < n; i = i + 1)
    {
        s = trunc(s + dig${K}(i), $cap)
    };
    s
}""", K=K, cap=cap))
    b.setup.append('var st%d = ""' % K)
    b.setup.append('st%d = sb%d(%d, "%s")' % (K, K, r.randint(3, 12), r.choice(["", "x", "ab", "seed"])))
    b.setup.append("var i%d = 0" % K)
    n = c.n(4, 20, 160)
    b.use.append(T("""for (i${K} = 0; i${K} < $n; i${K} = i${K} + 1)
    {
        st${K} = trunc(st${K} + sb${K}(i${K} % 5 + 1, "$p") + i${K}, $cap);
        acc = mix(acc, shash(st${K}) + (if (st${K} == sb${K}(i${K}, "")) 1 else 0))
    }""", K=K, n=n, p=r.choice(["", "p", "qq"]), cap=cap))
    b.use.append('prints("S%d " + st%d + " " + length(st%d) + "\\n")' % (K, K, K))
    if r.random() < 0.5:
        b.use.append('acc = mix(acc, if (st%d + "a" != st%d + "b") %d else 0)' % (K, K, r.randint(1, 99)))
    b.late.append('acc = mix(acc, shash(st%d + "%s"))' % (K, r.choice(["!", "??", "end"])))
    return b


def f4_rec(c):
    r = c.rng
    K = c.uid()
    c.need("mix", "shash", "idi")
    b = Block(4, 7)
    # the left operand string is a temporary on the operand stack while the recursion runs
    c.funcs.append(T("""func rep${K}(n : int, s : string) -> string
{
    n == 0 ? "$z" : s + rep${K}(n - 1, s + "$e") + idi(n)
}""", K=K, z=r.choice(["", ".", "0"]), e=r.choice(["", "a", "xy"])))
    c.funcs.append(T("""func rv${K}(s : string, i : int, acc : string) -> string
{
    i < 0 ? acc : rv${K}(s, i - 1, acc + s[i])
}""", K=K))
    d = c.depth(2, 6, 9)
    b.setup.append('let rp%d = rep%d(%d, "%s")' % (K, K, d, r.choice(["a", "bc", "q"])))
    b.use.append('let rr%d = rv%d(rp%d, length(rp%d) - 1, "")' % (K, K, K, K))
    b.use.append('prints("R%d " + rp%d + " " + rr%d + "\\n")' % (K, K, K))
    b.use.append("acc = mix(acc, shash(rp%d) + shash(rr%d) * 2 + shash(rep%d(%d, \"%s\")))"
                 % (K, K, K, c.depth(1, 5, 9, 12), r.choice(["z", "mn"])))
    b.late.append("acc = mix(acc, shash(rr%d + rp%d))" % (K, K))
    return b


# --------------------------------------------------------------------------------------------
# family 5: nested calls holding temporaries
# --------------------------------------------------------------------------------------------

class ExprGen:
    """random well-typed expressions over the helpers of one block; every call inside an
    argument list / operand leaves earlier-evaluated siblings on the operand stack"""

    def __init__(self, c, K, leaves):
        self.c, self.r, self.K, self.leaves = c, c.rng, K, leaves

    def int_(self, d):
        r, K = self.r, self.K
        if d <= 0:
            return r.choice(self.leaves + [str(r.randint(0, 20))])
        k = r.randrange(11)
        if k == 0:
            return "idi(%s)" % self.int_(d - 1)
        if k == 1:
            return "px%d(%s)" % (K, self.p_(d - 1))
        if k == 2:
            return "f2%d(%s, %s)" % (K, self.p_(d - 1), self.p_(d - 1))
        if k == 3:
            return "add3%d(%s, %s, %s)" % (K, self.int_(d - 1), self.int_(d - 1), self.int_(d - 1))
        if k == 4:
            return "%s.%s" % (self.p_(d - 1), r.choice("xy"))
        if k == 5:
            return "(%s + %s)" % (self.int_(d - 1), self.int_(d - 1))
        if k == 6:
            return "(%s * %d - %s)" % (self.int_(d - 1), r.randint(2, 3), self.int_(d - 1))
        if k == 7:
            return "sl%d(%s, %s)" % (K, self.s_(d - 1), self.s_(d - 1))
        if k == 8:
            return "length(%s)" % self.s_(d - 1)
        if k == 9:
            return "{ churn(%d); %s }" % (r.randint(1, 2), self.int_(d - 1))
        return "(if (%s %% 2 == 0) %s else %s)" % (self.int_(d - 1), self.int_(d - 1), self.int_(d - 1))

    def p_(self, d):
        r, K = self.r, self.K
        if d <= 0:
            return "mk%d(%s)" % (K, self.int_(0))
        k = r.randrange(5)
        if k == 0:
            return "mk%d(%s)" % (K, self.int_(d - 1))
        if k == 1:
            return "jn%d(%s, %s)" % (K, self.p_(d - 1), self.p_(d - 1))
        if k == 2:
            return "pk%d(%s, %s)" % (K, self.p_(d - 1), self.s_(d - 1))
        if k == 3:
            return "P(%s %% 500, %s %% 500)" % (self.int_(d - 1), self.int_(d - 1))
        return "mk%d(%s)" % (K, self.int_(d - 1))

    def s_(self, d):
        r, K = self.r, self.K
        if d <= 0:
            return r.choice(['"a"', '"bc"', '""', "ms%d(%s)" % (K, self.int_(0))])
        k = r.randrange(4)
        if k == 0:
            return "ms%d(%s)" % (K, self.int_(d - 1))
        if k == 1:
            return "(%s + %s)" % (self.s_(d - 1), self.s_(d - 1))
        if k == 2:
            return "(%s + %s)" % (self.s_(d - 1), self.int_(d - 1))
        return "ms%d(%s)" % (K, self.int_(d - 1))


def f5_helpers(c, K):
    r = c.rng
    c.need("P", "idi", "churn", "mix")
    c.funcs.append("func mk%d(v : int) -> P { P(v %% 500, v %% 50 * 2 + 1) }" % K)
    c.funcs.append("func px%d(p : P) -> int { idi(p.x) + p.y %% 5 }" % K)
    c.funcs.append("func f2%d(p : P, q : P) -> int { (p.x * 3 + q.y + idi(q.x)) %% 1009 }" % K)
    c.funcs.append("func jn%d(p : P, q : P) -> P { P((p.x + q.x) %% 500, (p.y + 50 - q.y %% 50)) }" % K)
    c.funcs.append("func add3%d(a : int, b : int, c : int) -> int { (a %% 1009 + 2 * (b %% 1009) + 3 * (c %% 1009)) %% 1009 }" % K)
    c.funcs.append('func ms%d(n : int) -> string { "s" + n %% 100 }' % K)
    c.funcs.append("func sl%d(s : string, t : string) -> int { length(s) * 10 + length(t) + (if (s == t) 1 else 0) }" % K)
    c.funcs.append("func pk%d(p : P, s : string) -> P { P(p.x + length(s), p.y + 0) }" % K)


def f5_exprs(c):
    r = c.rng
    K = c.uid()
    f5_helpers(c, K)
    b = Block(5)
    g = ExprGen(c, K, ["acc % 13", "%d" % r.randint(1, 9)])
    for _ in range(r.randint(2, 5)):
        b.use.append("acc = mix(acc, %s %% 1009)" % g.int_(r.randint(2, 4)))
    b.use.append('prints("e%d " + %s + "\\n")' % (K, g.s_(r.randint(1, 3))))
    gl = ExprGen(c, K, ["i%d" % K, "acc % 7", "%d" % r.randint(1, 9)])
    n = c.n(3, 14, 40)
    b.use.append("var i%d = 0" % K)
    b.use.append(T("""for (i${K} = 0; i${K} < $n; i${K} = i${K} + 1)
    {
        acc = mix(acc, $e % 1009)
    }""", K=K, n=n, e=gl.int_(r.randint(2, 3))))
    b.late.append("acc = mix(acc, %s %% 1009)" % g.int_(2))
    return b


def f5_funcs(c):
    """the same kind of expressions, but inside functions of their own (so the temporaries sit
    in a frame below main's), with locals that are used only after the nested calls"""
    r = c.rng
    K = c.uid()
    f5_helpers(c, K)
    b = Block(5)
    g = ExprGen(c, K, ["a", "b", "kp.x", "length(ks)"])
    c.funcs.append(T("""func calc${K}(a : int, b : int, kp : P, ks : string) -> int
{
    let l1 = mk${K}(a + b);
    let l2 = ms${K}(a * 3);
    let v = $e1 % 1009;
    (v + l1.x + length(l2) + $e2 % 1009 + kp.y) % 10007
}""", K=K, e1=g.int_(r.randint(2, 4)), e2=g.int_(r.randint(1, 3))))
    b.setup.append("let kp%d = mk%d(%d)" % (K, K, r.randint(1, 99)))
    b.setup.append('let ks%d = "ks" + %d' % (K, r.randint(1, 99)))
    b.setup.append("var i%d = 0" % K)
    n = c.n(3, 14, 38)
    b.use.append(T("""for (i${K} = 0; i${K} < $n; i${K} = i${K} + 1)
    {
        acc = mix(acc, calc${K}(i${K}, acc % 17, kp${K}, ks${K} + i${K}))
    }""", K=K, n=n))
    b.use.append("print(calc%d(%d, %d, kp%d, ks%d))" % (K, r.randint(0, 9), r.randint(0, 9), K, K))
    b.late.append("acc = mix(acc, calc%d(%d, %d, mk%d(%d), ks%d) + kp%d.x)"
                  % (K, r.randint(0, 9), r.randint(0, 9), K, r.randint(0, 9), K, K))
    return b


# --------------------------------------------------------------------------------------------
# family 6: exceptions
# --------------------------------------------------------------------------------------------

def f6_frames(c):
    r = c.rng
    K = c.uid()
    c.need("mkp", "mix", "idi", "churn")
    b = Block(6, 5)
    # raises iff d == 0; kind selects the exception
    c.funcs.append(T("""func boom${K}(kind : int, d : int) -> int
{
    let a = [ 3, 5, 8 ] : int;
    var np = P;
    let g = mkp(d, kind);
    if (kind == 0) { 1000 / d }
    else if (kind == 1) { a[if (d == 0) $oob else 1] + g.x }
    else { (if (d == 0) np else g).x + g.y }
}""", K=K, oob=r.choice([3, 7, 100, -1])))
    terms = ["idi(mkp(d, %d).y)" % r.randint(1, 9), "boom%d(kind, d) * 2" % K, "t.x",
             "length(s)", "p.y"]
    r.shuffle(terms)
    c.funcs.append(T("""func midb${K}(kind : int, d : int, p : P) -> int
{
    let t = mkp(d + 1, $a);
    let s = "m" + kind;
    $body
}""", K=K, a=r.randint(1, 9), body=" + ".join(terms)))
    args = ["idi(%d)" % r.randint(1, 9), "midb%d(kind, d, mkp(%d, %d))" % (K, r.randint(1, 9), r.randint(1, 9)),
            "mkp(%d, %d).x" % (r.randint(1, 9), r.randint(1, 9))]
    r.shuffle(args)
    partial = ""
    if r.random() < 0.6:
        partial = "\ncatch (%s)\n{\n    churn(%d) + d - %d\n}" % (
            r.choice(["index_out_of_bounds", "nil_pointer", "division_by_zero"]),
            r.randint(1, 3), r.randint(10, 90))
    c.funcs.append(T("""func mida${K}(kind : int, d : int) -> int
{
    let q = mkp(kind, d);
    (${a0} + 2 * ${a1} + 3 * ${a2} + q.x) % 1009
}$partial""", K=K, a0=args[0], a1=args[1], a2=args[2], partial=partial))
    handlers = [
        'catch (division_by_zero)\n{\n    prints("dz " + ks + "\\n");\n    keep.x + churn(%d)\n}' % r.randint(1, 3),
        'catch (index_out_of_bounds)\n{\n    keep.y + length(ks) + idi(d)\n}',
        'catch (nil_pointer)\n{\n    let h = mkp(keep.x, kind);\n    h.x * 2 + h.y + keep.y\n}',
    ]
    if r.random() < 0.4:
        handlers[r.randrange(3)] = 'catch\n{\n    prints("any " + kind + "\\n");\n    keep.x - keep.y\n}'
        # catch-all must come last
        handlers.sort(key=lambda h: h.startswith("catch\n"))
    else:
        r.shuffle(handlers)
    c.funcs.append(T("""func guard${K}(kind : int, d : int, keep : P, ks : string) -> int
{
    let loc = mkp($a, $b);
    mida${K}(kind, d) + loc.x
}
$handlers""", K=K, a=r.randint(1, 9), b=r.randint(1, 9), handlers="\n".join(handlers)))
    mod = r.randint(2, 4)
    c.funcs.append(T("""func run${K}(n : int) -> int
{
    let keep = mkp($a, $b);
    let ks = "keep" + n;
    var i = 0;
    var t = 0;
    for (i = 0; i < n; i = i + 1)
    {
        t = (t + guard${K}(i % 3, i % $mod, keep, ks) + keep.x) % 10007
    };
    t + length(ks) + keep.y
}""", K=K, a=r.randint(10, 60), b=r.randint(1, 9), mod=mod))
    n = c.n(4, 16, 30)
    b.use.append("acc = mix(acc, run%d(%d))" % (K, n))
    b.use.append("print(guard%d(%d, 0, mkp(%d, %d), \"k\"))" % (K, r.randrange(3), r.randint(1, 9), r.randint(1, 9)))
    b.late.append("acc = mix(acc, guard%d(%d, %d, mkp(acc %% 9, 2), \"late\"))"
                  % (K, r.randrange(3), r.randrange(2)))
    return b


def f6_ctor(c):
    """the exception leaves a callee while the caller is half way through building a record /
    array literal / argument list (the already evaluated parts are stack temporaries)"""
    r = c.rng
    K = c.uid()
    c.need("mkp", "mix", "idi")
    b = Block(6, 5, 3)
    c.decls.append("record Tr%d { a : int; b : P; c : int; }" % K)
    c.funcs.append(T("""func div${K}(n : int, d : int) -> int
{
    let g = mkp(n, d);
    g.x / g.y
}""", K=K))
    c.funcs.append(T("""func at${K}(i : int) -> int
{
    let a = [ $e0, $e1, $e2, $e3 ] : int;
    a[i]
}""", K=K, e0=r.randint(1, 50), e1=r.randint(1, 50), e2=r.randint(1, 50), e3=r.randint(1, 50)))
    kind = r.randrange(3)
    if kind == 0:
        body = "let t = Tr%d(div%d(100, d), mkp(idi(d), 2), idi(%d));\n    t.a + t.b.x + t.c" % (K, K, r.randint(1, 9))
    elif kind == 1:
        body = "let t = [ idi(%d), div%d(90, d), mkp(d, 1).x, at%d(d + %d) ] : int;\n    t[0] + t[1] * 2 + t[3]" % (r.randint(1, 9), K, K, r.randint(0, 2))
    else:
        body = "let t = [ mkp(1, d), mkp(div%d(50, d), at%d(d * 2)), mkp(idi(3), 4) ] : P;\n    t[0].y + t[1].x + t[1].y + t[2].x" % (K, K)
    c.funcs.append(T("""func half${K}(d : int, keep : P) -> int
{
    $body
}
catch (division_by_zero)
{
    keep.x + d
}
catch (index_out_of_bounds)
{
    keep.y - d
}""", K=K, body=body))
    b.setup.append("let kh%d = mkp(%d, %d)" % (K, r.randint(100, 200), r.randint(300, 400)))
    b.setup.append("var i%d = 0" % K)
    n = c.n(4, 14, 18)
    b.use.append(T("""for (i${K} = 0; i${K} < $n; i${K} = i${K} + 1)
    {
        acc = mix(acc, half${K}(i${K} % $m, kh${K}) + kh${K}.x)
    }""", K=K, n=n, m=r.randint(2, 5)))
    b.use.append("print(half%d(0, kh%d))" % (K, K))
    b.late.append("acc = mix(acc, half%d(%d, kh%d))" % (K, r.randint(0, 3), K))
    return b


def f6_deep(c):
    """exception out of a recursion (every frame holds a fresh record and a string), and out of
    a closure; handler two levels up"""
    r = c.rng
    K = c.uid()
    c.need("mkp", "mix", "idi")
    b = Block(6, 7, 1)
    c.funcs.append(T("""func dive${K}(n : int, d : int, s : string) -> int
{
    let p = mkp(n, d);
    if (n == 0) { p.x + 100 / d + length(s) } else { p.x + dive${K}(n - 1, d, s + "v") + idi(p.y) }
}""", K=K))
    c.funcs.append(T("""func mkdiv${K}(d : int) -> (int) -> int
{
    let keep = mkp(d, d + 1);
    let func(x : int) -> int { idi(x) / keep.x + keep.y }
}""", K=K))
    c.funcs.append(T("""func thru${K}(n : int, d : int) -> int
{
    let w = mkp(n, n);
    w.x + dive${K}(n, d, "") + mkdiv${K}(d)(100)
}""", K=K))
    c.funcs.append(T("""func safe${K}(n : int, d : int, keep : P) -> int
{
    thru${K}(n, d) % 1009
}
catch (division_by_zero)
{
    prints("deep$K " + n + "\\n");
    keep.x * 2 + n
}""", K=K))
    b.setup.append("let kd%d = mkp(%d, %d)" % (K, r.randint(1, 99), r.randint(1, 99)))
    b.setup.append("var i%d = 0" % K)
    n = c.n(3, 10, 32)
    dep = c.depth(2, 5, 13, 26) - 1
    dep = max(1, dep)
    b.use.append(T("""for (i${K} = 0; i${K} < $n; i${K} = i${K} + 1)
    {
        acc = mix(acc, safe${K}(i${K} % $dep + 1, i${K} % $m, kd${K}) + kd${K}.y)
    }""", K=K, n=n, dep=dep, m=r.randint(2, 3)))
    b.late.append("acc = mix(acc, safe%d(%d, 0, kd%d))" % (K, r.randint(1, dep), K))
    return b


# --------------------------------------------------------------------------------------------
# family 7: tail recursion / bounded deep recursion
# --------------------------------------------------------------------------------------------

def f7_tail(c):
    r = c.rng
    K = c.uid()
    c.need("mkp", "mix", "idi", "trunc")
    b = Block(7)
    exprs = []
    kinds = r.sample(["rec", "str", "clo", "nest", "list"], r.randint(2, 4))
    if "rec" in kinds:
        c.funcs.append(T("""func tr${K}(i : int, acc : P) -> P
{
    i == 0 ? acc : tr${K}(i - 1, P(acc.y + 0, (acc.x + i * $m) % 1000))
}""", K=K, m=r.randint(1, 9)))
        exprs.append("tr%d(%d, mkp(%d, %d)).x" % (K, c.n(20, 120, 4), r.randint(0, 9), r.randint(0, 9)))
    if "str" in kinds:
        c.funcs.append(T("""func ts${K}(n : int, acc : string) -> string
{
    if (n == 0) { acc } else { ts${K}(n - 1, trunc(acc + n % 10, $cap)) }
}""", K=K, cap=r.randint(6, 20)))
        exprs.append('length(ts%d(%d, "%s"))' % (K, c.n(20, 100, 4), r.choice(["", "t"])))
        b.use.append('prints("T%d " + ts%d(%d, "") + "\\n")' % (K, K, c.n(10, 40, 4)))
    if "clo" in kinds:
        c.funcs.append(T("""func mka${K}(a : int) -> (int) -> int
{
    let func(x : int) -> int { (x + a) % 997 }
}""", K=K))
        c.funcs.append(T("""func tf${K}(n : int, f(x : int) -> int) -> (int) -> int
{
    n == 0 ? f : tf${K}(n - 1, mka${K}(f(n) % 100))
}""", K=K))
        exprs.append("tf%d(%d, mka%d(%d))(%d)" % (K, c.n(10, 60, 5), K, r.randint(1, 9), r.randint(1, 9)))
    if "nest" in kinds:
        c.funcs.append(T("""func wr${K}(n : int, k : int) -> int
{
    let base = mkp(k, n);
    func go(i : int, acc : P) -> P
    {
        i == 0 ? acc : go(i - 1, P(acc.y + 0, (acc.x + i + base.x) % 1000))
    };
    go(n, mkp(0, base.y)).x
}""", K=K))
        exprs.append("wr%d(%d, %d)" % (K, c.n(20, 100, 4), r.randint(1, 9)))
    if "list" in kinds:
        c.decls.append("record L%d { v : int; next : L%d; }" % (K, K))
        c.funcs.append(T("""func tl${K}(n : int, acc : L${K}) -> L${K}
{
    if (n == 0) { acc } else { tl${K}(n - 1, L${K}(n * $m % 13, acc)) }
}""", K=K, m=r.randint(1, 9)))
        c.funcs.append(T("""func ln${K}(h : L${K}, k : int) -> int
{
    if (h == nil) { k } else { ln${K}(h.next, (k * 2 + h.v) % 1009) }
}""", K=K))
        exprs.append("ln%d(tl%d(%d, nil), 0)" % (K, K, r.randint(3, 14)))
    r.shuffle(exprs)
    b.use.append("acc = mix(acc, %s)" % " + ".join(exprs))
    if len(exprs) > 1:
        b.late.append("acc = mix(acc, %s)" % exprs[0])
    return b


def f7_deep(c):
    r = c.rng
    K = c.uid()
    c.need("mkp", "mix", "idi")
    b = Block(7)
    c.funcs.append(T("""func deep${K}(n : int, s : string) -> int
{
    let p = mkp(n, n + 1);
    if (n == 0) { length(s) } else { (p.x + deep${K}(n - 1, s + "$e") * $m - p.y + 1) % 1009 }
}""", K=K, e=r.choice(["a", "", "xy"]), m=r.randint(1, 3)))
    c.funcs.append(T("""func ev${K}(n : int, p : P) -> int
{
    if (n == 0) { p.x } else { od${K}(n - 1, mkp(p.y, p.x + 1)) }
}""", K=K))
    c.funcs.append(T("""func od${K}(n : int, p : P) -> int
{
    if (n == 0) { p.y } else { 1 + ev${K}(n - 1, mkp(p.y + n, p.x)) }
}""", K=K))
    b.setup.append("var i%d = 0" % K)
    n = c.n(2, 8, 45)
    b.use.append(T("""for (i${K} = 0; i${K} < $n; i${K} = i${K} + 1)
    {
        acc = mix(acc, deep${K}(i${K} % $d + 2, "") + ev${K}(i${K} % $d2 + 1, mkp(i${K}, 1)))
    }""", K=K, n=n, d=max(1, c.depth(2, 5, 11) - 1), d2=c.depth(2, 6, 10)))
    b.use.append('prints("D%d " + deep%d(%d, "%s") + "\\n")' % (K, K, c.depth(3, 7, 11), r.choice(["", "pre"])))
    return b


# --------------------------------------------------------------------------------------------
# family 8: long churning loops over a small live set
# --------------------------------------------------------------------------------------------

def f8_ring(c):
    r = c.rng
    K = c.uid()
    c.need("mkp", "mix")
    b = Block(8, 3)
    c.funcs.append(T("""func step${K}(i : int, prev : P) -> P
{
    P((prev.x + i * $a) % 997, (prev.y * 3 + 1) % 991)
}""", K=K, a=r.randint(1, 9)))
    ln = r.randint(2, 8)
    c.funcs.append(T("""func spin${K}(iters : int) -> int
{
    var ring = {[ $ln ]} : P;
    var i = 0;
    var s = 0;
    for (i = 0; i < $ln; i = i + 1) { ring[i] = mkp(i, $b) };
    for (i = 0; i < iters; i = i + 1)
    {
        ring[i % $ln] = step${K}(i, ring[(i + $ln - 1) % $ln])
    };
    for (i = 0; i < $ln; i = i + 1) { s = (s * 7 + ring[i].x + ring[i].y) % 10007 };
    s
}""", K=K, ln=ln, b=r.randint(1, 9)))
    b.use.append("acc = mix(acc, spin%d(%d))" % (K, c.n(80, 350, 5)))
    if r.random() < 0.4:
        b.late.append("acc = mix(acc, spin%d(%d))" % (K, c.n(20, 80, 5)))
    return b


def f8_mixed(c):
    r = c.rng
    K = c.uid()
    c.need("mkp", "mix", "trunc", "churn", "idi")
    b = Block(8)
    parts = r.sample(["str", "clo", "rec", "lst"], r.randint(2, 3))
    decl, body, fin = [], [], []
    if "str" in parts:
        decl.append('var s = "";')
        body.append('s = trunc(s + i %% 10 + "%s", %d)' % (r.choice(["", ".", "k"]), r.randint(6, 14)))
        fin.append("length(s)")
    if "clo" in parts:
        c.funcs.append(T("""func ad${K}(a : int) -> (int) -> int
{
    let func(x : int) -> int { (x * 3 + a) % 499 }
}""", K=K))
        decl.append("var f = let func(x : int) -> int { x };")
        decl.append("f = ad%d(%d);" % (K, r.randint(1, 9)))
        body.append("f = ad%d(f(i) %% 50)" % K)
        fin.append("f(%d)" % r.randint(1, 9))
    if "rec" in parts:
        decl.append("var p = P;")
        decl.append("p = mkp(%d, %d);" % (r.randint(1, 9), r.randint(1, 9)))
        body.append("p = mkp((p.y + i) % 500, p.x)")
        fin.append("p.x + p.y")
    if "lst" in parts:
        c.decls.append("record Q%d { v : int; next : Q%d; }" % (K, K))
        c.funcs.append(T("""func q3${K}(i : int) -> Q${K}
{
    Q${K}(i + 0, Q${K}(i + 1, Q${K}(i + 2, nil)))
}""", K=K))
        decl.append("var q = Q%d;" % K)
        decl.append("q = q3%d(0);" % K)
        body.append("q = q3%d((q.next.v + q.next.next.v + i) %% 300)" % K)
        fin.append("q.v")
    r.shuffle(body)
    c.funcs.append(T("""func grind${K}(iters : int) -> int
{
    var i = 0;
    $decl
    for (i = 0; i < iters; i = i + 1)
    {
        $body
    };
    ($fin) % 10007
}""", K=K, decl="\n    ".join(decl), body=";\n        ".join(body), fin=" + ".join(fin)))
    b.use.append("acc = mix(acc, grind%d(%d) + churn(%d))" % (K, c.n(60, 250, 20), c.n(10, 60, 7)))
    if r.random() < 0.4:
        b.late.append("acc = mix(acc, grind%d(%d))" % (K, c.n(10, 50, 20)))
    return b


# --------------------------------------------------------------------------------------------
# assembling a program
# --------------------------------------------------------------------------------------------

FAMILIES = {
    1: [f1_adders, f1_counters, f1_state, f1_chain],
    2: [f2_list, f2_reclist, f2_ring, f2_tree, f2_nested, f2_global, f2_enum],
    3: [f3_recarr, f3_rows, f3_strarr, f3_comp, f3_funarr],
    4: [f4_build, f4_rec, f3_strarr],
    5: [f5_exprs, f5_funcs],
    6: [f6_frames, f6_ctor, f6_deep],
    7: [f7_tail, f7_deep, f1_chain, f2_reclist],
    8: [f8_ring, f8_mixed],
}


def interleave(rng, blocks):
    """random merge of the blocks' statements: a block's setup precedes its use, each block keeps
    its own order, the `late` statements of all blocks come at the very end.  Mostly all setups
    come first (so that every block's long-lived data is live while the others work); sometimes
    the merge is completely free."""
    out = []
    if rng.random() < 0.7:
        pend = [list(b.setup) for b in blocks if b.setup]
        while pend:
            q = rng.choice(pend)
            out.append(q.pop(0))
            if not q:
                pend.remove(q)
        queues = [list(b.use) for b in blocks if b.use]
    else:
        queues = [list(b.setup) + list(b.use) for b in blocks if b.setup or b.use]
    rng.shuffle(queues)
    while queues:
        q = rng.choice(queues)
        for _ in range(rng.randint(1, 3)):     # a run of 1..3 statements of one block
            if q:
                out.append(q.pop(0))
        if not q:
            queues.remove(q)
    lates = [st for b in blocks for st in b.late]
    rng.shuffle(lates)
    return out + lates


def assemble(rng, c, blocks, wrap, unhandled):
    """program text for the given blocks (helpers/records/functions are already in c)"""
    body = interleave(rng, blocks)
    if unhandled:
        c.need("idi")
    if wrap:
        c.need("P")
    init = rng.randint(1, 999)
    stm = ["var acc = %s" % ("s0 + 0" if wrap else str(init))] + body
    stm.append('prints("acc " + acc + "\\n")')
    if unhandled:
        stm.append(rng.choice(["acc = acc + idi(acc) / idi(0)",
                               "acc = acc + [ 1, 2 ] : int[idi(acc) + 2]"]))
    if c.count_calls and "idi" in c.have:
        stm.append('prints("calls " + gcalls + "\\n")')
    text = "\n".join(c.decls) + "\n\n" + "\n".join(c.globals) + "\n\n" + "\n".join(c.funcs) + "\n"
    if wrap:
        a, bb = rng.randint(1, 99), rng.randint(1, 99)
        stm.append("acc + kp0.x")
        text += "\nfunc body(s0 : int, kp0 : P) -> int\n{\n    " + ";\n    ".join(stm) + "\n}\n"
        text += T("""
func main() -> int
{
    let kp = P($a, $b);
    let r = body($init, kp);
    prints("end " + kp.y + " " + r + "\\n");
    r
}
""", a=a, b=bb, init=init)
    else:
        stm.append("acc")
        text += "\nfunc main() -> int\n{\n    " + ";\n    ".join(stm) + "\n}\n"
    return text


def gen_one(seed, index):
    h = int(hashlib.sha256(("%d:%d" % (seed, index)).encode()).hexdigest()[:16], 16)
    rng = random.Random(h)
    budget = rng.choice([800, 1200, 1600, 2100, 2600])   # safe points, roughly
    c = Ctx(rng, budget)
    c.need("mix")
    nfam = rng.randint(3, 6)
    fams = rng.sample(sorted(FAMILIES), nfam)
    wrap = rng.random() < 0.5
    # 200 slots by default; keep the programs within about 170: 34 are in use when main starts,
    # main holds about 5 locals per block, the optional body() frame, and the non-recursive
    # frames/temporaries between main and a recursion
    c.stack_avail = 176 - 34 - 5 * nfam - (9 if wrap else 0) - 26
    blocks = []
    for f in fams:
        c.allow = budget / nfam
        blocks.append(rng.choice(FAMILIES[f])(c))
    covered = set()
    for b in blocks:
        covered |= b.fams
    unhandled = rng.random() < 0.02
    text = assemble(rng, c, blocks, wrap, unhandled)
    pid = "gen-s%d-%d-f%s%s" % (seed, index, "".join(str(f) for f in sorted(covered)),
                                "u" if unhandled else "")
    header = "# %s  (generated by harness/c04/gen.py, seed %d index %d)\n" % (pid, seed, index)
    return pid, header + text


def generate(seed, count):
    return [gen_one(seed, i) for i in range(count)]


if __name__ == "__main__":
    if len(sys.argv) != 4:
        sys.stderr.write("usage: gen.py SEED COUNT OUTDIR\n")
        sys.exit(2)
    seed, count, outdir = int(sys.argv[1]), int(sys.argv[2]), sys.argv[3]
    os.makedirs(outdir, exist_ok=True)
    for pid, src in generate(seed, count):
        with open(os.path.join(outdir, pid + ".nev"), "w") as f:
            f.write(src)
