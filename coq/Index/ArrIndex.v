(* Model of array addressing in never-lang/never (definitions only, executable).

   Mirrors, statement by statement:
     back/object.c   object_arr_dim_mult, object_arr_dim_fits, object_arr_dim_addr
     back/vmexec.c   vm_execute_array_deref_univ  (ARRAY_DEREF / ARRAYREF_DEREF)
                     vm_execute_mk_array_num      (MK_ARRAY_*: extents -> array, or an exception)

   C types: `unsigned int` everywhere in object_arr_dim {elems, mult}; the handler pops the
   indices as `int`, refuses e < 0, then stores them into an unsigned field.  Unsigned
   arithmetic is written with an explicit `u32`.  Values of unsigned variables are kept in
   [0, 2^32) by construction (inputs are assumed in that range, see ArrIndexProofs). *)
From Coq Require Import ZArith List Bool.
From NV Require Import Index.W32.
Import ListNotations.
Local Open Scope Z_scope.

(* object_arr_dim dv[] : (elems, mult) per dimension *)
Definition dimv := list (Z * Z).

(* ---- exceptions / handler outcomes (include/vm.h except_no) ---------------------------- *)
Inductive exc :=
| IndexOob (d : Z)     (* EXCEPT_NO_INDEX_OOB; d = dimension printed by the handler, -1 if silent *)
| NilPointer           (* EXCEPT_NIL_POINTER *)
| WrongArraySize.      (* EXCEPT_NO_ARR_SIZE *)

Inductive result (A : Type) :=
| Ok (a : A)
| Exc (e : exc).
Arguments Ok {A} a.
Arguments Exc {A} e.

(* ---- object_arr_dim_mult ---------------------------------------------------------------
     e = 1; for d: e *= dv[d].elems;  *elems = e;
     for d: if (dv[d].elems != 0) { e /= dv[d].elems; dv[d].mult = e; } else dv[d].mult = 1; *)
Fixpoint prod_wrap (e : Z) (exts : list Z) : Z :=
  match exts with
  | [] => e
  | n :: t => prod_wrap (u32 (e * n)) t
  end.

Fixpoint mults (e : Z) (exts : list Z) : dimv :=
  match exts with
  | [] => []
  | n :: t =>
      if n =? 0 then (n, 1) :: mults e t
      else let e' := e / n in (n, e') :: mults e' t
  end.

(* returns (dv with multipliers filled in, *elems) *)
Definition dim_mult (exts : list Z) : dimv * Z :=
  let e := prod_wrap 1 exts in (mults e exts, e).

(* ---- object_arr_dim_fits (fix 1f9996a) ---------------------------------------------------
     unsigned long long e = 1;
     for d: { e *= dv[d].elems; if (e > 0xFFFFFFFFULL) return 0; }   return 1;
   e <= 2^32 - 1 before each multiplication and dv[d].elems < 2^32, so the 64-bit product is
   the mathematical product, which is what the model writes. *)
Fixpoint dim_fits_loop (e : Z) (exts : list Z) : bool :=
  match exts with
  | [] => true
  | n :: t => let e' := e * n in if UINT_MAX <? e' then false else dim_fits_loop e' t
  end.

Definition dim_fits (exts : list Z) : bool := dim_fits_loop 1 exts.

(* ---- object_arr_dim_addr ---------------------------------------------------------------
     for (m = 0; m < dims; m++) {
         if (dv[m].elems <= addr[m].mult) { *oobounds = m; return 0; }
         addr_int += dv[m].mult * addr[m].mult; }
     *oobounds = -1; return addr_int;
   result: (returned value, *oobounds) *)
Fixpoint dim_addr_loop (m acc : Z) (dv : dimv) (addr : list Z) : Z * Z :=
  match dv, addr with
  | (n, mu) :: dv', i :: addr' =>
      if n <=? i then (0, m)
      else dim_addr_loop (m + 1) (u32 (acc + mu * i)) dv' addr'
  | _, _ => (acc, -1)
  end.

Definition dim_addr (dv : dimv) (addr : list Z) : Z * Z := dim_addr_loop 0 0 dv addr.

(* ---- vm_execute_array_deref_univ -------------------------------------------------------
   first loop: pop dims ints; `if (e < 0)` -> "array index d out of bounds", INDEX_OOB;
   otherwise addr[d].mult = e (int -> unsigned).  None = a negative index was met at d. *)
Fixpoint pop_indices (d : Z) (idx : list Z) : Z + list Z :=
  match idx with
  | [] => inr []
  | e :: t =>
      if e <? 0 then inl d
      else match pop_indices (d + 1) t with
           | inl d' => inl d'
           | inr l => inr (u32 e :: l)
           end
  end.

(* arr = None : the popped reference is nil.  idx in pop order (addr[0] first = leftmost
   index of a[i, j, k]).  Ok k : the handler pushes element number k of arr->value[]. *)
Definition array_deref (arr : option dimv) (idx : list Z) : result Z :=
  match pop_indices 0 idx with
  | inl d => Exc (IndexOob d)
  | inr addr =>
      match arr with
      | None => Exc NilPointer
      | Some dv =>
          let '(k, oob) := dim_addr dv addr in
          if 0 <=? oob then Exc (IndexOob oob) else Ok k
      end
  end.

(* an array object as the VM builds it (gc_alloc_arr -> object_new_arr): extents given,
   multipliers and element count computed by object_arr_dim_mult *)
Definition mk_arr (exts : list Z) : dimv := fst (dim_mult exts).
Definition arr_elems (exts : list Z) : Z := snd (dim_mult exts).

(* ---- vm_execute_mk_array_num (MK_ARRAY_INT .. MK_ARRAY_FUNC) -------------------------------
     for d: e = pop int; `if (e <= 0)` -> "array index d out of bounds", INDEX_OOB;
            dv[d].elems = e (int -> unsigned)
     `if (!object_arr_dim_fits(dims, dv))` -> "improper array size", WRONG_ARRAY_SIZE   (fix 1f9996a)
     array = gc_alloc_arr(dims, dv)  (object_new_arr: object_arr_dim_mult, value[] of `elems` cells)
   exts in pop order (dv[0] first).  Ok (dv, elems): the dimension vector and the number of
   cells of value[] of the array that is pushed. *)
Fixpoint pop_extents (d : Z) (exts : list Z) : Z + list Z :=
  match exts with
  | [] => inr []
  | e :: t =>
      if e <=? 0 then inl d
      else match pop_extents (d + 1) t with
           | inl d' => inl d'
           | inr l => inr (u32 e :: l)
           end
  end.

Definition mk_array (exts : list Z) : result (dimv * Z) :=
  match pop_extents 0 exts with
  | inl d => Exc (IndexOob d)
  | inr ns => if negb (dim_fits ns) then Exc WrongArraySize else Ok (dim_mult ns)
  end.
