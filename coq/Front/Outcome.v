(* Front/Outcome.v — classifier of what a compilation lets an observer see (C05).

   An observation is the integer returned by nev_compile_str/nev_compile_file and the text
   written to the diagnostics stream, as bytes.  The property allows exactly two shapes:
     ok         return 0 and no line containing "error:"
     diagnosed  return non-zero and at least one line of the form  <file>:<digits>: error:<rest>
   everything else (error printed but 0 returned, failure without a located error line) is
   inconsistent.  Bytes are numbers (N), a line is a list of bytes without the '\n'.
   The declarative reading (Contains, ErrLine, SpecOk, SpecDiagnosed) and the executable classifier are both
   here; OutcomeProofs.v proves that they agree. *)
From Coq Require Import ZArith NArith Bool List.
Import ListNotations.
Local Open Scope N_scope.

Definition line := list N.

Definition ERR : line := [101; 114; 114; 111; 114; 58].                 (* "error:" *)
Definition ERRTAG : line := [58; 32; 101; 114; 114; 111; 114; 58].      (* ": error:" *)
Definition COLON : N := 58.
Definition NL : N := 10.

Definition is_digit (c : N) : bool := (48 <=? c) && (c <=? 57).

(* ---- declarative ------------------------------------------------------------------- *)
Definition Contains (pat s : line) : Prop := exists a r, s = a ++ pat ++ r.

Definition ErrLine (l : line) : Prop :=
  exists f d r, d <> [] /\ Forall (fun c => is_digit c = true) d /\
                l = f ++ [COLON] ++ d ++ ERRTAG ++ r.

Definition SpecOk (ret : Z) (ls : list line) : Prop :=
  ret = 0%Z /\ forall l, In l ls -> ~ Contains ERR l.

Definition SpecDiagnosed (ret : Z) (ls : list line) : Prop :=
  ret <> 0%Z /\ exists l, In l ls /\ ErrLine l.

(* ---- executable -------------------------------------------------------------------- *)
Fixpoint prefixb (pat s : line) : bool :=
  match pat, s with
  | [], _ => true
  | a :: p', b :: s' => (a =? b) && prefixb p' s'
  | _ :: _, [] => false
  end.

Fixpoint containsb (pat s : line) : bool :=
  prefixb pat s || match s with [] => false | _ :: s' => containsb pat s' end.

Fixpoint skip_digits (s : line) : line :=
  match s with
  | c :: r => if is_digit c then skip_digits r else s
  | [] => []
  end.

(* ':' digit+ ": error:" starts here *)
Definition err_here (s : line) : bool :=
  match s with
  | c :: r => (c =? COLON) &&
              match r with d :: _ => is_digit d | [] => false end &&
              prefixb ERRTAG (skip_digits r)
  | [] => false
  end.

Fixpoint error_lineb (s : line) : bool :=
  err_here s || match s with [] => false | _ :: r => error_lineb r end.

Inductive verdict := VOk | VDiagnosed | VInconsistent.

Definition classify (ret : Z) (ls : list line) : verdict :=
  if (ret =? 0)%Z
  then if existsb (containsb ERR) ls then VInconsistent else VOk
  else if existsb error_lineb ls then VDiagnosed else VInconsistent.

(* splitting the raw diagnostics text at '\n' (a trailing fragment without '\n' is a line).
   rev_append, not rev: List.rev is quadratic and diagnostics can quote 10^5-character tokens *)
Fixpoint split_lines_aux (s : list N) (cur : line) : list line :=
  match s with
  | [] => match cur with [] => [] | _ => [rev_append cur []] end
  | c :: r => if c =? NL then rev_append cur [] :: split_lines_aux r [] else split_lines_aux r (c :: cur)
  end.

Definition split_lines (s : list N) : list line := split_lines_aux s [].

Definition classify_bytes (ret : Z) (text : list N) : verdict := classify ret (split_lines text).
