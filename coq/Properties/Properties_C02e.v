(* Properties_C02e.v — C02 (compile correctness), level 8: RECORDS with int fields on top of level 7
   (Properties_C02d.v: closures, copies of function objects, catch clauses, tail calls, int arrays).

   MODEL + TIE: Src/Compile4.v (cexpr: ERecNew = the fields last to first; RECORD n — ERecNil = NIL_RECORD_REF —
   EField a r f = the record; VECREF_VEC_DEREF 0 f; SLIDE 1 1 — EAssign (EField a r f) e = the field; e; OP_ASS_INT)
   and VM/ValueVM4.v (RECORD: the record's vector and its reference object are ONE heap cell HVec of the field
   cells' addresses; NIL_RECORD_REF: a cell HNil; VECREF_VEC_DEREF pushes the field cell's address above the
   reference, which stays; on HNil it raises nil_pointer through the exception table with nothing popped, as
   back/vmexec.c does) are tied at level 8 of checks/parts/compiletie.py (engine compile4) on generated programs
   of `prog_in_F4` with two record types, records bound by let / var (8% nil), field reads (also in closures and
   catch clauses, nil_pointer reaching catch clauses / the caller / unhandled) and field assignments: whole module
   image equal to front/emit.c's, result / prints / exception / peak sp / step count equal to back/vmexec.c's.

   PROOF: compile_program_correct_F8 (below, closed) — whole programs of `Compile4.prog_in_P 8` = level 7 +
   record construction `R(e1, …, en)` with every field `int_shaped`, the NIL record, field read `r.f` for any
   expression r of the fragment — on a nil record nil_pointer reaches the catch clauses / the caller / OUnhandled
   exactly as the evaluator says —, field assignment `r.f = e` (e `int_shaped`).  A record cell's image is the vector of its field
   cells' images (ghost list `mrc` of the morphism, cell_rel, MS clauses ms_rec / ms_recmi: the field cells of
   every record object are recorded int cells; vrel_rec, MS_newrec, case_ERecNew, case_EField, field_cell_int).
   A nil record cell's image is a cell HNil (cell_rel; MS clause ms_nonil: below level 8 no cell holds a nil
   record; vrel_nil, case_ERecNil, the nil branch of case_EField).  One restriction comes with nil cells: at level 8
   the RIGHT operand of == / != must be `int_shaped` (write `x == y + 0`): == / != of Src/Eval.v compares two
   references of which one is nil, where the emitted OP_EQ_INT is stuck (never's type checker would pick another
   opcode; the model has no types) — nil_cmp_mapped.  So `prog_in_P 8` is not a superset of `prog_in_P 7`.
   No side condition beyond the fragment predicate (the result must be an int or bool cell, as in F4 / F7).
   SHARED CELLS: an array element / a record field is `int_shaped` or the name of an int var in scope
   (Compile4.elem_ok): `[x, 7]`, `P(x, x)` hold x's own cell, a write through v[0] or p.y is a write to x on both
   sides (Example exS).
   TIED ONLY, not proved: elements / fields that are other expressions not int_shaped (calls, lets, function
   values); records as fields of records; == / != on records. *)
From Coq Require Import ZArith List Bool Lia.
From NV Require Import Gen.Opcodes Verifier.Effect Src.Syntax Src.Eval Src.EvalLemmas
  VM.ValueVM4 Src.Compile4 Src.CompileCorrect4Base Src.CompileCorrect4Rel Src.CompileCorrect4Shape
  Src.CompileCorrect4 Src.CompileCorrect4Prog.
Import ListNotations.
Local Open Scope Z_scope.

Theorem compile_program_correct_F8 : forall fuel p args,
  prog_in_P 8 p = true ->
  match run_program fuel p args with
  | OResult v printed =>
      CompileCorrect4Shape.is_intv v = true ->
      exists k z, run_vm p k args = VRet z printed /\ CompileCorrect4Rel.val_rel v z
  | OUnhandled ex printed => exists k, run_vm p k args = VExc ex printed
  | OFuel | OStuck => True
  end.
Proof. exact (fun fuel p args H => CompileCorrect4Prog.compile_program_correct_P8 p args H fuel). Qed.
Print Assumptions compile_program_correct_F8.

(* the machine side: RECORD n makes one vector of the n field addresses on top of the stack *)
Theorem step_record : forall X fr prog ip top stk h o,
  nth_error prog ip = Some (ins BYTECODE_RECORD (Z.of_nat (length top)) 0) ->
  step X prog (mkst ip (top ++ stk) h o fr) = SNext (mkst (S ip) (length h :: stk) (h ++ [HVec top]) o fr).
Proof. exact CompileCorrect4.step_record. Qed.
Print Assumptions step_record.

(* the image of a record cell is the recorded vector of its object *)
Theorem record_cell_image : forall AF ftab TL FS cp rc m st h c a r,
  CompileCorrect4Rel.MS AF ftab TL FS cp rc m st h -> vrel m c a ->
  nth_error (cells st) c = Some (CRec (Some r)) ->
  exists l, nth_error h a = Some (HVec l) /\ In (r, l) (mrc m).
Proof. exact CompileCorrect4Rel.vrel_rec. Qed.
Print Assumptions record_cell_image.

(* record P { x : int; y : int; }
   func main(a : int) -> int
   { var p = P(a + 1, 20);
     func bump(d : int) -> int { p.y = p.y + d; p.y + 0 };
     p.x = p.x * 2;
     bump(a) + bump(1) + p.x }
   the real VM: 47 on 1, 63 on 5 *)
Definition bumpR : fdef := FDef 3%N [(4%N, false, TInt)] TInt
  [IExpr (EAssign (EField (EVar 2%N) 1%N 1%nat) (EBin Add (EField (EVar 2%N) 1%N 1%nat) (EVar 4%N)));
   IExpr (EBin Add (EField (EVar 2%N) 1%N 1%nat) (EInt 0))] [] None.
Definition mainR : fdef := FDef 0%N [(1%N, false, TInt)] TInt
  [IVar 2%N (ERecNew 1%N [EBin Add (EVar 1%N) (EInt 1); EInt 20]); IFunc bumpR;
   IExpr (EAssign (EField (EVar 2%N) 1%N 0%nat) (EBin Mul (EField (EVar 2%N) 1%N 0%nat) (EInt 2)));
   IExpr (EBin Add (EBin Add (ECall (EVar 3%N) [EVar 1%N]) (ECall (EVar 3%N) [EInt 1])) (EField (EVar 2%N) 1%N 0%nat))]
  [] None.
Definition exR : program := {| p_recs := [(1%N, [TInt; TInt])]; p_funcs := [mainR]; p_main := 0%N |}.

Example exR_in_P : prog_in_F4 exR = true /\ prog_in_P 8 exR = true /\ prog_in_P 7 exR = false.
Proof. vm_compute. repeat split; reflexivity. Qed.

Example exR_runs :
  run_vm exR 3000 [1] = VRet 47 [] /\ run_program 300 exR [1] = OResult (CInt 47) [] /\
  run_vm exR 3000 [5] = VRet 63 [] /\ run_program 300 exR [5] = OResult (CInt 63) [].
Proof. vm_compute. repeat split; reflexivity. Qed.

(* the image of a nil record cell is a nil reference *)
Theorem nil_record_image : forall AF ftab TL FS cp rc m st h c a,
  CompileCorrect4Rel.MS AF ftab TL FS cp rc m st h -> vrel m c a ->
  nth_error (cells st) c = Some (CRec None) -> nth_error h a = Some HNil.
Proof. exact CompileCorrect4Rel.vrel_nil. Qed.
Print Assumptions nil_record_image.

(* nil records: nil_pointer unhandled, and caught by a clause of a closure
   record P { x : int; y : int; }
   func main(a : int) -> int
   { var q = P; let p = P(a + 0, 7);
     func get(k : int) -> int { ((k > 0) ? p : q).y + k } catch (nil_pointer) { k - 100 };
     get(a) + get(a - 1) }
   the real VM: -92 on 1, 17 on 2, -201 on 0 *)
Definition getN : fdef := FDef 4%N [(5%N, false, TInt)] TInt
  [IExpr (EBin Add (EField (ECond (EBin Gt (EVar 5%N) (EInt 0)) (EVar 3%N) (EVar 2%N)) 1%N 1%nat) (EVar 5%N))]
  [(ExNil, [IExpr (EBin Sub (EVar 5%N) (EInt 100))])] None.
Definition mainN : fdef := FDef 0%N [(1%N, false, TInt)] TInt
  [IVar 2%N (ERecNil 1%N); ILet 3%N (ERecNew 1%N [EBin Add (EVar 1%N) (EInt 0); EInt 7]); IFunc getN;
   IExpr (EBin Add (ECall (EVar 4%N) [EVar 1%N]) (ECall (EVar 4%N) [EBin Sub (EVar 1%N) (EInt 1)]))] [] None.
Definition exN : program := {| p_recs := [(1%N, [TInt; TInt])]; p_funcs := [mainN]; p_main := 0%N |}.

Example exN_in_P : prog_in_F4 exN = true /\ prog_in_P 8 exN = true.
Proof. vm_compute. split; reflexivity. Qed.

Example exN_runs :
  run_vm exN 3000 [1] = VRet (-92) [] /\ run_program 300 exN [1] = OResult (CInt (-92)) [] /\
  run_vm exN 3000 [2] = VRet 17 [] /\ run_program 300 exN [2] = OResult (CInt 17) [] /\
  run_vm exN 3000 [0] = VRet (-201) [] /\ run_program 300 exN [0] = OResult (CInt (-201)) [].
Proof. vm_compute. repeat split; reflexivity. Qed.

(* var q = P; q.x + a — nil_pointer unhandled on both sides *)
Definition mainU : fdef := FDef 0%N [(1%N, false, TInt)] TInt
  [IVar 2%N (ERecNil 1%N); IExpr (EBin Add (EField (EVar 2%N) 1%N 0%nat) (EVar 1%N))] [] None.
Definition exU : program := {| p_recs := [(1%N, [TInt; TInt])]; p_funcs := [mainU]; p_main := 0%N |}.

Example exU_runs : prog_in_P 8 exU = true /\
  run_vm exU 3000 [1] = VExc ExNil [] /\ run_program 300 exU [1] = OUnhandled ExNil [].
Proof. vm_compute. repeat split; reflexivity. Qed.

(* shared cells: the array and the record hold x's own cell
   record P { x : int; y : int; }
   func main(a : int) -> int
   { var x = a + 0; var v = [ x, 7 ] : int; var p = P(x, x);
     v[0] = 50 + a; p.y = x + 1000; x = x + 1;
     v[0] + p.x + p.y + x }
   the real VM: 4208 on 1 (all four summands are x = 1052) *)
Definition mainS : fdef := FDef 0%N [(1%N, false, TInt)] TInt
  [IVar 2%N (EBin Add (EVar 1%N) (EInt 0));
   IVar 3%N (EArrLit [EVar 2%N; EInt 7] TInt);
   IVar 4%N (ERecNew 1%N [EVar 2%N; EVar 2%N]);
   IExpr (EAssign (EIndex (EVar 3%N) (EInt 0)) (EBin Add (EInt 50) (EVar 1%N)));
   IExpr (EAssign (EField (EVar 4%N) 1%N 1%nat) (EBin Add (EVar 2%N) (EInt 1000)));
   IExpr (EAssign (EVar 2%N) (EBin Add (EVar 2%N) (EInt 1)));
   IExpr (EBin Add (EBin Add (EBin Add (EIndex (EVar 3%N) (EInt 0)) (EField (EVar 4%N) 1%N 0%nat))
                            (EField (EVar 4%N) 1%N 1%nat)) (EVar 2%N))] [] None.
Definition exS : program := {| p_recs := [(1%N, [TInt; TInt])]; p_funcs := [mainS]; p_main := 0%N |}.

Example exS_runs : prog_in_P 8 exS = true /\
  run_vm exS 3000 [1] = VRet 4208 [] /\ run_program 300 exS [1] = OResult (CInt 4208) [].
Proof. vm_compute. repeat split; reflexivity. Qed.
