(* String table back/strtab.c — statements in the style of coq/Properties/*.v (ONLY `Theorem …
   Proof. exact lemma. Qed.` + `Print Assumptions`), kept here because the property files of the
   properties it serves (C07 "every constant/string reference exists"; also C02/C17: string
   literals, extern library and function names are fetched through module->strtab_array) belong to
   other checks.  checks/parts/hashtab.py run_strtab(ctx) compiles this file and registers every
   theorem as an obligation of the calling check.  To adopt: copy to Properties_<id>x.v. *)
From Coq Require Import List Arith NArith Bool Permutation.
From NV Require Import Hash.OpenTabModel Hash.OpenTabProofs Hash.DlCacheModel Hash.StrTabModel Hash.StrTabProofs.
Import ListNotations.

(* From strtab_new(size), size >= 1 (back/module.c uses 32), for EVERY hash function and any
   sequence of strtab_add_string / strtab_lookup_string operations of any length: no abort (the
   assert(0) of the add loop is unreachable: the table is never full), every operation returns what
   the list of distinct strings in first-insertion order returns (order = 1-based position; the same
   order whenever the string is added or looked up again; 0 exactly for strings never added), and
   strtab_to_array yields [NULL; s1; s2; ...] without writing outside the array:
   the order stored in the bytecode indexes the very string it was given for. *)
Theorem strtab_refines_list :
  forall (name : Type) (name_eqb : name -> name -> bool) (hash : name -> N),
    (forall a b, name_eqb a b = true <-> a = b) ->
    forall (size : nat) (ops : list (sop name)),
      1 <= size ->
      exists t,
        srun name name_eqb hash (strtab_new name size) ops = Ok (t, snd (asrun name name_eqb [] ops)) /\
        (forall s, strtab_lookup_string name name_eqb hash t s =
                   Ok (alookup name name_eqb (fst (asrun name name_eqb [] ops)) s)) /\
        strtab_to_array name t = Some (None :: map Some (fst (asrun name name_eqb [] ops))) /\
        NoDup (fst (asrun name name_eqb [] ops)) /\
        t_count t = S (length (fst (asrun name name_eqb [] ops))) /\
        t_count t = S (nocc name nat (t_entries t)) /\
        nocc name nat (t_entries t) < t_size t.
Proof. exact StrTabProofs.strtab_refines_list. Qed.
Print Assumptions strtab_refines_list.

(* the rehash with the dedup add preserves the pairs when the names are pairwise different *)
Theorem strtab_entry_resize_preserves :
  forall (name : Type) (name_eqb : name -> name -> bool) (hash : name -> N) (V : Type),
    (forall a b, name_eqb a b = true <-> a = b) ->
    forall (old acc : entries name V) (size' : nat),
      0 < size' -> length acc = size' -> chain name hash V acc size' ->
      nocc name V acc + nocc name V old < size' ->
      NoDup (map fst (contents name V old)) ->
      (forall n, In n (map fst (contents name V old)) -> ~ In n (map fst (contents name V acc))) ->
      exists new, entry_resize name name_eqb hash V true old acc size' = AddOk new /\
                  length new = size' /\ chain name hash V new size' /\
                  Permutation (contents name V new) (contents name V old ++ contents name V acc).
Proof. exact OpenTabProofs.entry_resize_dedup_ok. Qed.
Print Assumptions strtab_entry_resize_preserves.

Example strtab_example :
  exists t,
    srun cname cname_eqb hash_string (str_new 1)
         [SAdd [97%N]; SAdd [98%N]; SAdd [97%N]; SAdd [99%N]; SLookup [98%N]; SLookup [100%N]] = Ok (t, [1; 2; 1; 3; 2; 0]) /\
    str_to_array t = Some [None; Some [97%N]; Some [98%N]; Some [99%N]] /\ t_size t = 8.
Proof. eexists. vm_compute. repeat split; reflexivity. Qed.
