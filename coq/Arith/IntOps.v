(* Arith/IntOps.v — what the C operators do on `int` (n = 32) and `long long` (n = 64) on the
   platform the implementation is built for (gcc, x86-64): wrap-around + - * and unary -,
   truncating / and % with the two hardware traps, comparisons, bit operations on the
   representation, shifts.  Definitions only (proofs: Arith/IntOpsProofs.v).

   Anchors: back/vmexec.c vm_execute_op_{add,sub,mul,div,mod,neg}_type,
   vm_execute_op_{lt,gt,lte,gte,eq,neq}_type, vm_execute_op_type (! ~),
   vm_execute_op_bin_type (& | ^ << >>); the same C operators are used on literals by
   front/constred.c and front/enumred.c.

   C undefined behaviour made total here as gcc/x86-64 executes it (stated in the evidence,
   excluded from the correspondence where noted):
     * signed overflow of + - * and unary -  : wraps (this IS the property's claim);
     * INT_MIN / -1, INT_MIN % -1 with the raw operators (cdiv/cmod; no evaluator of the tree
       uses them any more: VM 7c75cd1, constred.c b04663c + 355bd8f, enumred.c dfe213c; kept as
       the reference the guarded forms are compared with) : the idiv instruction traps -> ISigFpe;
     * shift count outside 0 <= k < n        : the count is masked to its low log2 n bits
                                               (excluded from the correspondence);
     * << of a negative / overflowing value  : wraps. *)
From Coq Require Import ZArith Bool.
From NV Require Import Arith.Bits.
Local Open Scope Z_scope.

Definition iadd (n a b : Z) : Z := wrap n (a + b).
Definition isub (n a b : Z) : Z := wrap n (a - b).
Definition imul (n a b : Z) : Z := wrap n (a * b).
Definition ineg (n a : Z) : Z := wrap n (- a).

Inductive ires := IVal (z : Z) | IDivZero | ISigFpe.

Definition div_overflows (n a b : Z) : bool := (a =? int_min n) && (b =? -1).

(* the raw C operators a / b and a % b (b != 0 is tested by every caller first): the idiv
   instruction traps on the overflow pair.  Like + - *, the quotient is the mathematical
   (truncated) result brought to n bits; for in-range operands outside the overflow pair
   the wrap is the identity (IntOpsProofs.div_truncates) *)
Definition cdiv (n a b : Z) : ires :=
  if b =? 0 then IDivZero
  else if div_overflows n a b then ISigFpe
  else IVal (wrap n (Z.quot a b)).

Definition cmod (n a b : Z) : ires :=
  if b =? 0 then IDivZero
  else if div_overflows n a b then ISigFpe
  else IVal (Z.rem a b).

(* division as the VM handlers (vm_execute_op_div_type / vm_execute_op_mod_type) and the
   int x int / long x long arms of the reducer perform it: `b == 0` raises division_by_zero,
   then  (b == -1) ? -a : a / b   resp.  (b == -1) ? 0 : a % b  — no trap is left *)
Definition idiv (n a b : Z) : ires :=
  if b =? 0 then IDivZero
  else if b =? -1 then IVal (wrap n (- a))
  else IVal (wrap n (Z.quot a b)).

Definition imod (n a b : Z) : ires :=
  if b =? 0 then IDivZero
  else if b =? -1 then IVal 0
  else IVal (Z.rem a b).

Definition b2z (b : bool) : Z := if b then 1 else 0.

Definition ilt (a b : Z) : Z := b2z (a <? b).
Definition igt (a b : Z) : Z := b2z (b <? a).
Definition ile (a b : Z) : Z := b2z (a <=? b).
Definition ige (a b : Z) : Z := b2z (b <=? a).
Definition ieq (a b : Z) : Z := b2z (a =? b).
Definition ine (a b : Z) : Z := b2z (negb (a =? b)).

(* `!a` *)
Definition inot (a : Z) : Z := b2z (a =? 0).

(* bit operations act on the n-bit patterns *)
Definition iand (n a b : Z) : Z := signed n (Z.land (unsigned n a) (unsigned n b)).
Definition ior  (n a b : Z) : Z := signed n (Z.lor  (unsigned n a) (unsigned n b)).
Definition ixor (n a b : Z) : Z := signed n (Z.lxor (unsigned n a) (unsigned n b)).
(* ~u on an n-bit pattern is 2^n - 1 - u *)
Definition ibnot (n a : Z) : Z := signed n (modulus n - 1 - unsigned n a).

(* shift count as the hardware uses it *)
Definition shcount (n k : Z) : Z := k mod n.
Definition shift_ok (n k : Z) : bool := (0 <=? k) && (k <? n).

(* a << k : the pattern shifted left, high bits dropped *)
Definition ishl (n a k : Z) : Z := wrap n (Z.shiftl (unsigned n a) (shcount n k)).
(* a >> k on a signed operand: arithmetic shift *)
Definition ishr (n a k : Z) : Z := Z.shiftr a (shcount n k).

(* widening / narrowing between the two integer types *)
Definition i2l (a : Z) : Z := a.                 (* (long long)a, exact *)
Definition l2i (a : Z) : Z := wrap 32 a.         (* (int)a : low 32 bits *)
