/* ffiseq — foreign calls IN SEQUENCE (property C17): several programs and VMs in one process, calls that
 * succeed and calls that must end in ffi_fail interleaved, against the tree's libnev.a.
 *
 *   ffiseq SCRIPT              (linked with -rdynamic: the executable itself is the library "host")
 *
 *   prog <h> <srcfile>         h := program_new(); nev_compile_str(contents of srcfile, h)      -> "@P <h> ret=<r>"
 *   vm <v>                     v := vm_new(DEFAULT_VM_MEM_SIZE, DEFAULT_VM_STACK_SIZE)
 *   call <h> <v> <entry> <n>   nev_prepare(h, entry); the (single, int) parameter := n; nev_execute(h, v, &res)
 *                                                                               -> "@X ret=<r> res=<int | ->"
 *   vmdel <v>                  vm_delete(v)
 *   progdel <h>                program_delete(h)
 *
 * Every operation is announced by "@O <index> <line>" on stdout before it runs; what the callee libraries print
 * ("@C <library tag> <function> <argument>") therefore lands between the "@O" of the call and its "@X".  stdout is
 * line buffered into one stream shared with the libraries (same libc), so the order is the order of events.
 * At the end "@END <ops>"; handles still alive are deleted (VMs first).  A crash leaves the transcript cut off.
 *
 * The executable exports the functions every generated library also exports under the same names, with its own
 * constant: a call declared for library X that lands here instead is visible in the transcript.
 */
#define _GNU_SOURCE
#include <stdio.h>
#include <stdlib.h>
#include <string.h>
#include "nev.h"

#define NH 16
#define HOST_CONST 90000000

typedef struct c17_pair { int a; long long b; } c17_pair;

int c17_who(int x) { printf("@C host who %d\n", x); return HOST_CONST + x; }
int c17_len(const char * s) { printf("@C host len %s\n", s ? s : "NULL"); return HOST_CONST + (s ? (int)strlen(s) : -1); }
int c17_rec(c17_pair p) { printf("@C host rec %d,%lld\n", p.a, p.b); return HOST_CONST + p.a; }
int c17_only_host(int x) { printf("@C host only %d\n", x); return HOST_CONST + 1000 + x; }

static program * progs[NH];
static char * srcs[NH];
static vm * vms[NH];

static char * read_file(const char * path)
{
    FILE * f = fopen(path, "rb");
    if (!f) return NULL;
    fseek(f, 0, SEEK_END); long n = ftell(f); fseek(f, 0, SEEK_SET);
    char * b = malloc((size_t)n + 1);
    if (fread(b, 1, (size_t)n, f) != (size_t)n) { }
    b[n] = 0; fclose(f);
    return b;
}

static int handle(const char * s)
{
    int h = atoi(s);
    return (h < 0 || h >= NH) ? -1 : h;
}

int main(int argc, char ** argv)
{
    if (argc < 2) { fprintf(stderr, "usage: ffiseq SCRIPT\n"); return 2; }
    FILE * sc = fopen(argv[1], "r");
    if (!sc) { perror(argv[1]); return 2; }
    setvbuf(stdout, NULL, _IOLBF, 0);
    char line[4096]; int index = 0;
    while (fgets(line, sizeof line, sc))
    {
        char * tok[8]; int nt = 0;
        size_t L = strlen(line);
        while (L > 0 && (line[L - 1] == '\n' || line[L - 1] == '\r')) line[--L] = 0;
        if (line[0] == '#' || line[0] == 0) continue;
        printf("@O %d %s\n", index, line);
        for (char * t = strtok(line, " "); t && nt < 8; t = strtok(NULL, " ")) tok[nt++] = t;
        if (!strcmp(tok[0], "prog") && nt == 3)
        {
            int h = handle(tok[1]);
            char * txt = h >= 0 && !progs[h] ? read_file(tok[2]) : NULL;
            if (txt == NULL) printf("@REFUSED prog\n");
            else
            {
                progs[h] = program_new(); srcs[h] = txt;
                int ret = nev_compile_str(txt, progs[h]);
                fflush(stdout);
                printf("\n@P %d ret=%d\n", h, ret);
            }
        }
        else if (!strcmp(tok[0], "vm") && nt == 2)
        {
            int v = handle(tok[1]);
            if (v < 0 || vms[v]) printf("@REFUSED vm\n");
            else vms[v] = vm_new(DEFAULT_VM_MEM_SIZE, DEFAULT_VM_STACK_SIZE);
        }
        else if (!strcmp(tok[0], "call") && nt == 5)
        {
            int h = handle(tok[1]), v = handle(tok[2]);
            if (h < 0 || v < 0 || !progs[h] || !vms[v]) printf("@REFUSED call\n");
            else
            {
                object result = { 0 };
                int ret = nev_prepare(progs[h], tok[3]);
                if (ret != 0) printf("\n@X prepare=%d\n", ret);
                else
                {
                    if (progs[h]->params_count >= 1 && progs[h]->params[0].type == OBJECT_INT)
                        progs[h]->params[0].int_value = atoi(tok[4]);
                    ret = nev_execute(progs[h], vms[v], &result);
                    fflush(stdout);
                    if (ret == 0 && result.type == OBJECT_INT) printf("\n@X ret=0 res=%d\n", result.int_value);
                    else if (ret == 0) printf("\n@X ret=0 res=other%d\n", (int)result.type);
                    else printf("\n@X ret=%d res=-\n", ret);
                }
            }
        }
        else if (!strcmp(tok[0], "vmdel") && nt == 2)
        {
            int v = handle(tok[1]);
            if (v < 0 || !vms[v]) printf("@REFUSED vmdel\n");
            else { vm_delete(vms[v]); vms[v] = NULL; }
        }
        else if (!strcmp(tok[0], "progdel") && nt == 2)
        {
            int h = handle(tok[1]);
            if (h < 0 || !progs[h]) printf("@REFUSED progdel\n");
            else { program_delete(progs[h]); progs[h] = NULL; free(srcs[h]); srcs[h] = NULL; }
        }
        else printf("@REFUSED unknown operation\n");
        index++;
    }
    fclose(sc);
    printf("@END %d\n", index);
    fflush(stdout);
    for (int i = 0; i < NH; i++) if (vms[i]) { vm_delete(vms[i]); vms[i] = NULL; }
    for (int i = 0; i < NH; i++) if (progs[i]) { program_delete(progs[i]); progs[i] = NULL; free(srcs[i]); }
    return 0;
}
