(* Src/CompileCorrect4Rel.v — the simulation relation of the stage-4 compile-correctness proof
   (Src/CompileCorrect4.v): evaluator states (Src/Eval.v) against states of VM/ValueVM4.v.

     morph        mm : cell id -> MA a (the VM address of its image) | MF fd (the cell of the top-level
                  function fd: no image, a use makes a fresh function object);
                  mv : the environment vectors made so far, (address, content) — a ghost list: vectors are
                  immutable, so "the running function's vector gp holds gl" is a fact about the morphism
                  that survives every extension
     cell_rel     CInt z ~ HInt z, CBool b ~ HInt 0/1, CFun fd cenv ~ HFun vec addr when addr is fd's code
                  address and vec is a recorded vector holding, per free variable of fd, the image of the
                  cell cenv binds it to
     MS m st h    mapped cells hold related payloads, m is injective on mapped cells, recorded vectors are in
                  the heap
     env_match    every name in scope is bound by the evaluator to a cell whose image the emitted access
                  yields: the slot ID_LOCAL{L, index} reads, or (captured name) entry i of the vector gl
   No axioms. *)
From Coq Require Import ZArith List Bool Lia.
From NV Require Import Gen.Opcodes Verifier.Effect Src.Syntax Src.Eval Src.EvalLemmas
  VM.ValueVM4 Src.Compile4 Src.CompileCorrect4Base.
Import ListNotations.
Local Open Scope Z_scope.

Lemma star_snoc : forall X prog s1 s2 s3, star X prog s1 s2 -> step X prog s2 = SNext s3 -> star X prog s1 s3.
Proof. intros. eapply star_trans; eauto. apply star_one; auto. Qed.

(* the fuelled runner follows a `star` run *)
Lemma run_star : forall X prog s s', star X prog s s' ->
  forall k r, run X prog k s' = r -> r <> VFuel -> exists k', run X prog k' s = r.
Proof.
  induction 1 as [s | s s1 s2 Hs _ IH]; intros k r Hr Hnf.
  - eauto.
  - destruct (IH k r Hr Hnf) as (k' & Hk'). exists (S k'). simpl. rewrite Hs. exact Hk'.
Qed.

(* ---- the heap morphism --------------------------------------------------------------------- *)

Inductive mcell := MA (a : nat) | MF (fd : fdef).
(* mc: the COPIES — (a, c): the function object at a was made (GLOBAL_VEC 0 / COPYGLOB; ID_FUNC_ADDR) where the
   evaluator read the function cell c *)
(* mi: the INT cells — cells bound (var x = <int_shaped>) to names that may be assigned to at level 6 *)
Record morph := { mm : list mcell; mv : list (nat * list nat); mf : list (nat * (fdef * env));
                  mc : list (nat * nat); mi : list nat;
                  mar : list (nat * list nat);
                  mrc : list (nat * list nat) }.   (* mrc: the RECORDS — (r, l): record object r is the vector l *)   (* mar: the ARRAYS — (ar, l): array object ar is the vector l *)

Definition mget (m : morph) (c : nat) : option mcell := nth_error (mm m) c.
Definition msnoc (m : morph) (x : mcell) : morph := {| mm := mm m ++ [x]; mv := mv m; mf := mf m; mc := mc m; mi := mi m; mar := mar m; mrc := mrc m |}.

(* the value relation: a is the image of the cell c, or a copy of the function c holds *)
Definition vrel (m : morph) (c a : nat) : Prop := mget m c = Some (MA a) \/ In (a, c) (mc m).

Definition val_rel (v : cellval) (z : Z) : Prop :=
  match v with
  | CInt n => z = n
  | CBool b => z = b2z b
  | _ => False
  end.

Lemma Forall2_imp : forall {A B} (P Q : A -> B -> Prop) l l',
  (forall x y, P x y -> Q x y) -> Forall2 P l l' -> Forall2 Q l l'.
Proof. intros A B P Q l l' H HF. induction HF; constructor; auto. Qed.

Lemma nth_error_combine_seq : forall {A B} (g : A -> B) (l : list A) c0 j x, nth_error l j = Some x ->
  nth_error (combine (seq c0 (length l)) (map g l)) j = Some ((c0 + j)%nat, g x).
Proof.
  intros A B g l. induction l as [|y t IH]; intros c0 j x H; [destruct j; discriminate|].
  destruct j; simpl in *.
  - inversion H. rewrite Nat.add_0_r. reflexivity.
  - rewrite (IH (S c0) j x H). f_equal. f_equal. lia.
Qed.

Section Rel.
(* code address of a function: the program's functions (all of them, Compile4.all_funcs) and the table *)
Variable AF : list (fkind * fdef).
Variable ftab : list nat.
Variable TL : list ident.
Variable FS : fsigs.
Variable cp : bool.       (* are copies of function objects in the fragment *)
Variable rc : bool.       (* are nil records in the fragment (level 8) *)

Definition fun_addr (fd : fdef) (addr : nat) : Prop :=
  exists k kd, kd <> KTop /\ nth_error AF k = Some (kd, fd) /\ addr = nth (nstd + k) ftab 0%nat.

(* the names that may be assigned to when copies are in the fragment *)
Definition ivs : list ident := if cp then int_vars AF else [].

Definition fun_rel (m : morph) (fd : fdef) (cenv : env) (vec addr : nat) : Prop :=
  fun_addr fd addr /\
  (forall x c, lookup x cenv = Some c -> is_fname FS x = false) /\
  exists l, In (vec, l) (mv m) /\
    Forall2 (fun y a => exists c, lookup y cenv = Some c /\ vrel m c a /\ (mem_id y ivs = true -> In c (mi m))) (fvs_fd TL fd) l.

Definition cell_rel (m : morph) (v : cellval) (hc : hcell) : Prop :=
  match v, hc with
  | CFun fd cenv, HFun vec addr => fun_rel m fd cenv vec addr
  | (CInt _ | CBool _), HInt z => val_rel v z
  | CArr (Some ar), HVec l => In (ar, l) (mar m)
  | CRec (Some r), HVec l => In (r, l) (mrc m)
  | CRec None, HNil => True
  | _, _ => False
  end.

(* a copy: the cell holds a function (cells of functions are not assigned to while copies exist), the object
   at a is that function's: a top-level one, or a closure with the vector of the original *)
Definition cp_ok (m : morph) (cs : list cellval) (h : list hcell) (a c : nat) : Prop :=
  exists fd cenv vec addr, nth_error cs c = Some (CFun fd cenv) /\ nth_error h a = Some (HFun vec addr) /\
    ((exists kidx, nth_error AF kidx = Some (KTop, fd) /\ addr = nth (nstd + kidx) ftab 0%nat /\ cenv = []) \/
     (fun_rel m fd cenv vec addr /\ In (c, (fd, cenv)) (mf m))).

Record MS (m : morph) (st : state) (h : list hcell) : Prop := {
  ms_len : length (mm m) = length (cells st);
  ms_rel : forall c a, mget m c = Some (MA a) ->
           exists v hc, nth_error (cells st) c = Some v /\ nth_error h a = Some hc /\ cell_rel m v hc /\
                        (forall fd cenv, v = CFun fd cenv -> In (c, (fd, cenv)) (mf m));
  ms_inj : forall c1 c2 a, mget m c1 = Some (MA a) -> mget m c2 = Some (MA a) -> c1 = c2;
  ms_fun : forall c fd, mget m c = Some (MF fd) -> nth_error (cells st) c = Some (CFun fd []);
  ms_vec : forall v l, In (v, l) (mv m) -> nth_error h v = Some (HVec l);
  (* the closures made so far: a recorded cell still holds its closure, or an int (after an assignment); the
     environment of a NAMED nested function binds the function's name to the cell itself *)
  ms_fcl : forall c fd cenv, In (c, (fd, cenv)) (mf m) ->
           nth_error (cells st) c = Some (CFun fd cenv) \/
           (cp = false /\
            exists v, nth_error (cells st) c = Some v /\ match v with CInt _ | CBool _ => True | _ => False end);
  ms_fself : forall c fd cenv k, In (c, (fd, cenv)) (mf m) -> nth_error AF k = Some (KNamed, fd) ->
             lookup (fd_name fd) cenv = Some c;
  ms_cp : forall a c, In (a, c) (mc m) -> cp_ok m (cells st) h a c;
  ms_nocp : cp = false -> mc m = [];
  ms_int : forall c, In c (mi m) ->
           exists v, nth_error (cells st) c = Some v /\ match v with CInt _ | CBool _ => True | _ => False end;
  (* arrays: a recorded array object has the recorded vector of its element cells' images; the element cells of
     every array object are int cells *)
  ms_arr : forall ar l, In (ar, l) (mar m) ->
           exists elems, nth_error (arrs st) ar = Some elems /\ Forall2 (vrel m) elems l;
  ms_arrmi : forall ar elems, nth_error (arrs st) ar = Some elems -> Forall (fun c => In c (mi m)) elems;
  ms_noarr : cp = false -> mar m = [];
  (* records: like arrays, over the record objects *)
  ms_rec : forall r l, In (r, l) (mrc m) ->
           exists flds, nth_error (recs st) r = Some flds /\ Forall2 (vrel m) flds l;
  ms_recmi : forall r flds, nth_error (recs st) r = Some flds -> Forall (fun c => In c (mi m)) flds;
  ms_norec : cp = false -> mrc m = [];
  ms_nonil : rc = false -> forall c, nth_error (cells st) c <> Some (CRec None)
}.

Definition ext (m m' : morph) : Prop :=
  (exists l, mm m' = mm m ++ l) /\ (exists l, mv m' = mv m ++ l) /\ (exists l, mf m' = mf m ++ l) /\
  (exists l, mc m' = mc m ++ l) /\ (exists l, mi m' = mi m ++ l) /\ (exists l, mar m' = mar m ++ l) /\ (exists l, mrc m' = mrc m ++ l).

Ltac ext_solve := unfold ext; simpl; repeat split; first [exists []; now rewrite app_nil_r | eexists; reflexivity].

Lemma ext_refl : forall m, ext m m.
Proof. intros m. ext_solve. Qed.

Lemma ext_trans : forall a b c, ext a b -> ext b c -> ext a c.
Proof.
  intros a b c ((l1 & E1) & (v1 & F1) & (w1 & G1) & (x1 & I1) & (y1 & J1) & (z1 & K1) & (u1 & M1)) ((l2 & E2) & (v2 & F2) & (w2 & G2) & (x2 & I2) & (y2 & J2) & (z2 & K2) & (u2 & M2)).
  split; [|split; [|split; [|split; [|split; [|split]]]]].
  - exists (l1 ++ l2). rewrite E2, E1. now rewrite app_assoc.
  - exists (v1 ++ v2). rewrite F2, F1. now rewrite app_assoc.
  - exists (w1 ++ w2). rewrite G2, G1. now rewrite app_assoc.
  - exists (x1 ++ x2). rewrite I2, I1. now rewrite app_assoc.
  - exists (y1 ++ y2). rewrite J2, J1. now rewrite app_assoc.
  - exists (z1 ++ z2). rewrite K2, K1. now rewrite app_assoc.
  - exists (u1 ++ u2). rewrite M2, M1. now rewrite app_assoc.
Qed.

Lemma ext_fcl : forall m m' x, ext m m' -> In x (mf m) -> In x (mf m').
Proof. intros m m' x (_ & _ & (l & E) & _) H. rewrite E. apply in_or_app. auto. Qed.

Lemma ext_nth : forall m m' c x, ext m m' -> mget m c = Some x -> mget m' c = Some x.
Proof.
  intros m m' c x ((l & E) & _) H. unfold mget in *. rewrite E. rewrite nth_error_app1; auto.
  apply nth_error_Some. congruence.
Qed.

Lemma ext_vec : forall m m' v l, ext m m' -> In (v, l) (mv m) -> In (v, l) (mv m').
Proof. intros m m' v l (_ & (l' & E) & _) H. rewrite E. apply in_or_app. auto. Qed.

Lemma ext_snoc : forall m x, ext m (msnoc m x).
Proof. intros. ext_solve. Qed.

Lemma ext_cp : forall m m' x, ext m m' -> In x (mc m) -> In x (mc m').
Proof. intros m m' x (_ & _ & _ & (l & E) & _) H. rewrite E. apply in_or_app. auto. Qed.

Lemma ext_mi : forall m m' x, ext m m' -> In x (mi m) -> In x (mi m').
Proof. intros m m' x (_ & _ & _ & _ & (l & E) & _) H. rewrite E. apply in_or_app. auto. Qed.

Lemma ext_mar : forall m m' x, ext m m' -> In x (mar m) -> In x (mar m').
Proof. intros m m' x (_ & _ & _ & _ & _ & (l & E) & _) H. rewrite E. apply in_or_app. auto. Qed.

Lemma ext_mrc : forall m m' x, ext m m' -> In x (mrc m) -> In x (mrc m').
Proof. intros m m' x (_ & _ & _ & _ & _ & _ & (l & E)) H. rewrite E. apply in_or_app. auto. Qed.

Lemma vrel_ext : forall m m' c a, ext m m' -> vrel m c a -> vrel m' c a.
Proof. intros m m' c a He [H | H]; [left; eapply ext_nth; eauto | right; eapply ext_cp; eauto]. Qed.

Lemma vrel_img : forall m c a, mget m c = Some (MA a) -> vrel m c a.
Proof. intros. left. assumption. Qed.

Lemma fun_rel_ext : forall m m' fd cenv vec addr, ext m m' -> fun_rel m fd cenv vec addr ->
  fun_rel m' fd cenv vec addr.
Proof.
  intros m m' fd cenv vec addr He (Ha & Hnf & l & Hin & HF). split; [exact Ha|]. split; [exact Hnf|]. exists l. split; [eapply ext_vec; eauto|].
  eapply Forall2_imp; [|exact HF]. intros y a (c & H1 & H2 & H3). exists c. split; [exact H1|]. split; [eapply vrel_ext; eauto|].
  intros Hy. eapply ext_mi; eauto.
Qed.

Lemma cell_rel_ext : forall m m' v hc, ext m m' -> cell_rel m v hc -> cell_rel m' v hc.
Proof.
  intros m m' v hc He H. destruct v as [z|b|fd ce|[ar|]|[r|]], hc; simpl in *; auto.
  - eapply fun_rel_ext; eauto.
  - eapply ext_mar; eauto.
  - eapply ext_mrc; eauto.
Qed.

Lemma cp_ok_mono : forall m m' cs cs' h h' a c, ext m m' ->
  (forall c fd cenv, nth_error cs c = Some (CFun fd cenv) -> nth_error cs' c = Some (CFun fd cenv)) ->
  (forall a vec addr, nth_error h a = Some (HFun vec addr) -> nth_error h' a = Some (HFun vec addr)) ->
  cp_ok m cs h a c -> cp_ok m' cs' h' a c.
Proof.
  intros m m' cs cs' h h' a c He Hcs Hh (fd & cenv & vec & addr & A & B & D).
  exists fd, cenv, vec, addr. split; [apply Hcs; exact A|]. split; [apply Hh; exact B|].
  destruct D as [D | (D1 & D2)]; [left; exact D | right]. split; [eapply fun_rel_ext; eauto | eapply ext_fcl; eauto].
Qed.

Lemma cell_rel_int : forall m v z, val_rel v z -> cell_rel m v (HInt z).
Proof. intros m v z H. destruct v; simpl in *; auto; contradiction. Qed.

Lemma cell_rel_intv : forall m v hc, cell_rel m v hc ->
  match v with CInt _ | CBool _ => True | _ => False end -> exists z, hc = HInt z /\ val_rel v z.
Proof. intros m v hc H Hv. destruct v; try contradiction; destruct hc; simpl in H; try contradiction; eauto. Qed.

Lemma MS_payload_int : forall m st h c a z, MS m st h -> vrel m c a ->
  get_int st c = Some z -> hint h a = Some z.
Proof.
  intros m st h c a z HMS [Hm | Hm] Hg.
  2:{ destruct (ms_cp _ _ _ HMS a c Hm) as (fd & cenv & vec & addr & Hc & _).
      unfold get_int, get_cell in Hg. rewrite Hc in Hg. discriminate. }
  destruct (ms_rel _ _ _ HMS c a Hm) as (v & hc & Hc & Hh & Hv & _).
  unfold get_int, get_cell in Hg. rewrite Hc in Hg. destruct v; try discriminate.
  inversion Hg; subst. unfold hint. rewrite Hh. destruct hc; simpl in Hv; try contradiction. subst. reflexivity.
Qed.

Lemma MS_payload_bool : forall m st h c a b, MS m st h -> vrel m c a ->
  get_bool st c = Some b -> hint h a = Some (b2z b).
Proof.
  intros m st h c a b HMS [Hm | Hm] Hg.
  2:{ destruct (ms_cp _ _ _ HMS a c Hm) as (fd & cenv & vec & addr & Hc & _).
      unfold get_bool, get_cell in Hg. rewrite Hc in Hg. discriminate. }
  destruct (ms_rel _ _ _ HMS c a Hm) as (v & hc & Hc & Hh & Hv & _).
  unfold get_bool, get_cell in Hg. rewrite Hc in Hg. destruct v; try discriminate.
  inversion Hg; subst. unfold hint. rewrite Hh. destruct hc; simpl in Hv; try contradiction. subst. reflexivity.
Qed.

Lemma MS_payload_cell : forall m st h c a v, MS m st h -> mget m c = Some (MA a) ->
  get_cell st c = Some v -> exists hc, nth_error h a = Some hc /\ cell_rel m v hc.
Proof.
  intros m st h c a v HMS Hm Hg. destruct (ms_rel _ _ _ HMS c a Hm) as (v' & z' & Hc & Hh & Hv & _).
  unfold get_cell in Hg. rewrite Hc in Hg. inversion Hg; subst. eauto.
Qed.

(* the cell of a value holds an int, a bool or a function, never nil *)
Lemma vrel_kind : forall m st h c a, MS m st h -> vrel m c a ->
  exists v, nth_error (cells st) c = Some v /\
    match v with CInt _ | CBool _ | CFun _ _ | CArr (Some _) | CRec _ => True | _ => False end.
Proof.
  intros m st h c a HMS [Hm | Hm].
  - destruct (ms_rel _ _ _ HMS c a Hm) as (v & hc & Hc & _ & Hv & _). exists v. split; [exact Hc|].
    destruct v as [z|b|fd ce|[ar|]|[r|]], hc; simpl in Hv; try contradiction; exact I.
  - destruct (ms_cp _ _ _ HMS a c Hm) as (fd & cenv & vec & addr & Hc & _). exists (CFun fd cenv). split; [exact Hc | exact I].
Qed.

(* the value in an int or bool cell *)
Lemma vrel_intv : forall m st h c a v, MS m st h -> vrel m c a -> get_cell st c = Some v ->
  match v with CInt _ | CBool _ => True | _ => False end ->
  exists z, nth_error h a = Some (HInt z) /\ val_rel v z.
Proof.
  intros m st h c a v HMS [Hm | Hm] Hg Hv.
  - destruct (ms_rel _ _ _ HMS c a Hm) as (v' & hc & Hc & Hh & Hr & _).
    unfold get_cell in Hg. rewrite Hc in Hg. inversion Hg; subst v'.
    destruct v; try contradiction; destruct hc; simpl in Hr; try contradiction; eauto.
  - destruct (ms_cp _ _ _ HMS a c Hm) as (fd & cenv & vec & addr & Hc & _).
    unfold get_cell in Hg. rewrite Hc in Hg. inversion Hg; subst v. contradiction.
Qed.

(* == / != with nil on two references of which one is nil does not apply: no nil cell exists, or the operator is
   another one, or the right operand's cell holds an int *)
Lemma nil_cmp_mapped : forall op m st h c1 a1 c2 a2, MS m st h ->
  vrel m c1 a1 -> vrel m c2 a2 ->
  (rc = false \/ (op <> Eq /\ op <> Ne) \/
   exists w, nth_error (cells st) c2 = Some w /\ match w with CInt _ | CBool _ => True | _ => False end) ->
  nil_cmp op (get_cell st c1) (get_cell st c2) = None.
Proof.
  intros op m st h c1 a1 c2 a2 HMS H1 H2 Hnil.
  destruct (vrel_kind _ _ _ _ _ HMS H1) as (v1 & Hc1 & Hv1).
  destruct (vrel_kind _ _ _ _ _ HMS H2) as (v2 & Hc2 & Hv2).
  unfold get_cell. rewrite Hc1, Hc2.
  destruct Hnil as [Hrc | [[Ho1 Ho2] | (w & Hw & Hk)]].
  - pose proof (ms_nonil _ _ _ HMS Hrc c1) as N1. pose proof (ms_nonil _ _ _ HMS Hrc c2) as N2.
    destruct v1 as [z1|b1|fd1 ce1|[ar1|]|[r1|]]; try contradiction; try (exfalso; apply N1; exact Hc1);
    destruct v2 as [z2|b2|fd2 ce2|[ar2|]|[r2|]]; try contradiction; try (exfalso; apply N2; exact Hc2); reflexivity.
  - destruct v1 as [z1|b1|fd1 ce1|[ar1|]|[r1|]]; try contradiction;
    destruct v2 as [z2|b2|fd2 ce2|[ar2|]|[r2|]]; try contradiction; try reflexivity;
    destruct op; try reflexivity; congruence.
  - rewrite Hc2 in Hw. inversion Hw; subst w.
    destruct v1 as [z1|b1|fd1 ce1|[ar1|]|[r1|]]; try contradiction;
    destruct v2 as [z2|b2|fd2 ce2|[ar2|]|[r2|]]; try contradiction; reflexivity.
Qed.

Lemma MS_addr_lt : forall m st h c a, MS m st h -> vrel m c a -> (a < length h)%nat.
Proof.
  intros m st h c a HMS [Hm | Hm].
  - destruct (ms_rel _ _ _ HMS c a Hm) as (? & ? & _ & Hh & _ & _).
    apply nth_error_Some. congruence.
  - destruct (ms_cp _ _ _ HMS a c Hm) as (fd & cenv & vec & addr & _ & Hh & _). apply nth_error_Some. congruence.
Qed.

(* the value in an array cell: the recorded vector *)
Lemma vrel_arr : forall m st h c a ar, MS m st h -> vrel m c a -> nth_error (cells st) c = Some (CArr (Some ar)) ->
  exists l, nth_error h a = Some (HVec l) /\ In (ar, l) (mar m).
Proof.
  intros m st h c a ar HMS [Hm | Hm] Hc.
  - destruct (ms_rel _ _ _ HMS c a Hm) as (v & hc & Hc' & Hh & Hr & _). rewrite Hc in Hc'. inversion Hc'; subst v.
    destruct hc as [ | | l | ]; simpl in Hr; try contradiction. exists l. split; [exact Hh | exact Hr].
  - destruct (ms_cp _ _ _ HMS a c Hm) as (fd & cenv & vec & addr & Hc' & _). rewrite Hc in Hc'. discriminate Hc'.
Qed.

Lemma vrel_rec : forall m st h c a r, MS m st h -> vrel m c a -> nth_error (cells st) c = Some (CRec (Some r)) ->
  exists l, nth_error h a = Some (HVec l) /\ In (r, l) (mrc m).
Proof.
  intros m st h c a r HMS [Hm | Hm] Hc.
  - destruct (ms_rel _ _ _ HMS c a Hm) as (v & hc & Hc' & Hh & Hr & _). rewrite Hc in Hc'. inversion Hc'; subst v.
    destruct hc as [ | | l | ]; simpl in Hr; try contradiction. exists l. split; [exact Hh | exact Hr].
  - destruct (ms_cp _ _ _ HMS a c Hm) as (fd & cenv & vec & addr & Hc' & _). rewrite Hc in Hc'. discriminate Hc'.
Qed.

Lemma vrel_nil : forall m st h c a, MS m st h -> vrel m c a -> nth_error (cells st) c = Some (CRec None) ->
  nth_error h a = Some HNil.
Proof.
  intros m st h c a HMS [Hm | Hm] Hc.
  - destruct (ms_rel _ _ _ HMS c a Hm) as (v & hc & Hc' & Hh & Hr & _). rewrite Hc in Hc'. inversion Hc'; subst v.
    destruct hc; simpl in Hr; try contradiction. exact Hh.
  - destruct (ms_cp _ _ _ HMS a c Hm) as (fd & cenv & vec & addr & Hc' & _). rewrite Hc in Hc'. discriminate Hc'.
Qed.

(* what a call through a value finds *)
Lemma vrel_fun : forall m st h c a fd cenv, MS m st h -> vrel m c a -> nth_error (cells st) c = Some (CFun fd cenv) ->
  exists vec addr, nth_error h a = Some (HFun vec addr) /\
    ((exists kidx, nth_error AF kidx = Some (KTop, fd) /\ addr = nth (nstd + kidx) ftab 0%nat /\ cenv = []) \/
     (fun_rel m fd cenv vec addr /\ In (c, (fd, cenv)) (mf m))).
Proof.
  intros m st h c a fd cenv HMS [Hm | Hm] Hc.
  - destruct (ms_rel _ _ _ HMS c a Hm) as (v & hc & Hc' & Hh & Hr & Hrec). rewrite Hc in Hc'. inversion Hc'; subst v.
    destruct hc as [ | vec addr | | ]; simpl in Hr; try contradiction.
    exists vec, addr. split; [exact Hh|]. right. split; [exact Hr | apply Hrec; reflexivity].
  - destruct (ms_cp _ _ _ HMS a c Hm) as (fd' & cenv' & vec & addr & Hc' & Hh & Hd). rewrite Hc in Hc'. inversion Hc'; subst fd' cenv'.
    exists vec, addr. split; [exact Hh | exact Hd].
Qed.

Lemma MS_vec_lt : forall m st h v l, MS m st h -> In (v, l) (mv m) -> (v < length h)%nat.
Proof. intros m st h v l HMS Hin. apply nth_error_Some. rewrite (ms_vec _ _ _ HMS v l Hin). discriminate. Qed.

Lemma MS_fcl_lt : forall m st h c x, MS m st h -> In (c, x) (mf m) -> (c < length (cells st))%nat.
Proof.
  intros m st h c [fd cenv] HMS Hin. apply nth_error_Some.
  destruct (ms_fcl _ _ _ HMS _ _ _ Hin) as [E | (_ & v & E & _)]; rewrite E; discriminate.
Qed.

(* the array clauses survive an extension of the morphism that records no array, when no array object is made *)
Lemma arr_keep : forall m m' st h (arrs' : list (list nat)), MS m st h -> ext m m' -> mar m' = mar m -> arrs' = arrs st ->
  forall ar l, In (ar, l) (mar m') -> exists elems, nth_error arrs' ar = Some elems /\ Forall2 (vrel m') elems l.
Proof.
  intros m m' st h arrs' HMS He Em Ea ar l Hin. rewrite Em in Hin. subst arrs'.
  destruct (ms_arr _ _ _ HMS ar l Hin) as (elems & A & B). exists elems. split; [exact A|].
  eapply Forall2_imp; [|exact B]. intros x y Hxy. eapply vrel_ext; eauto.
Qed.

Lemma arrmi_keep : forall m m' st h (arrs' : list (list nat)), MS m st h -> ext m m' -> arrs' = arrs st ->
  forall ar elems, nth_error arrs' ar = Some elems -> Forall (fun c => In c (mi m')) elems.
Proof.
  intros m m' st h arrs' HMS He Ea ar elems Hn. subst arrs'.
  pose proof (ms_arrmi _ _ _ HMS ar elems Hn) as H. rewrite Forall_forall in *. intros c Hc. eapply ext_mi; eauto.
Qed.

Lemma rec_keep : forall m m' st h (recs' : list (list nat)), MS m st h -> ext m m' -> mrc m' = mrc m -> recs' = recs st ->
  forall r l, In (r, l) (mrc m') -> exists flds, nth_error recs' r = Some flds /\ Forall2 (vrel m') flds l.
Proof.
  intros m m' st h recs' HMS He Em Ea r l Hin. rewrite Em in Hin. subst recs'.
  destruct (ms_rec _ _ _ HMS r l Hin) as (flds & A & B). exists flds. split; [exact A|].
  eapply Forall2_imp; [|exact B]. intros x y Hxy. eapply vrel_ext; eauto.
Qed.

Lemma recmi_keep : forall m m' st h (recs' : list (list nat)), MS m st h -> ext m m' -> recs' = recs st ->
  forall r flds, nth_error recs' r = Some flds -> Forall (fun c => In c (mi m')) flds.
Proof.
  intros m m' st h recs' HMS He Ea r flds Hn. subst recs'.
  pose proof (ms_recmi _ _ _ HMS r flds Hn) as H. rewrite Forall_forall in *. intros c Hc. eapply ext_mi; eauto.
Qed.

Definition frec (c : nat) (v : cellval) : list (nat * (fdef * env)) :=
  match v with CFun fd cenv => [(c, (fd, cenv))] | _ => [] end.

(* a fresh cell on both sides, after `pad` machine-only cells (vectors, temporaries); a closure is recorded *)
Lemma MS_alloc_gen : forall m st h v hc c st' pad,
  MS m st h -> cell_rel m v hc -> alloc st v = (c, st') ->
  (forall fd cenv k, v = CFun fd cenv -> nth_error AF k = Some (KNamed, fd) -> lookup (fd_name fd) cenv = Some c) ->
  (rc = false -> v <> CRec None) ->
  let m' := {| mm := mm m ++ [MA (length h + length pad)]; mv := mv m; mf := mf m ++ frec c v; mc := mc m; mi := mi m; mar := mar m; mrc := mrc m |} in
  MS m' st' (h ++ pad ++ [hc]) /\ vrel m' c (length h + length pad) /\ ext m m' /\
  out st' = out st.
Proof.
  intros m st h v hc c st' pad HMS Hv Ha Hself Hnn m'. unfold alloc in Ha. inversion Ha; subst c st'; clear Ha.
  set (a0 := (length h + length pad)%nat) in *.
  assert (He : ext m m') by ext_solve.
  assert (Hnew : forall c a, (length (mm m) <= c)%nat -> mget m' c = Some (MA a) -> c = length (mm m) /\ a = a0).
  { intros c a Hge Hc. unfold mget, m' in Hc. simpl in Hc. rewrite nth_error_app2 in Hc by assumption.
    destruct (c - length (mm m))%nat as [|d] eqn:Hd; simpl in Hc; [|destruct d; discriminate].
    inversion Hc. split; lia. }
  assert (Hold : forall c a, (c < length (mm m))%nat -> mget m' c = Some a -> mget m c = Some a).
  { intros c a Hlt Hc. unfold mget, m' in *. simpl in Hc. rewrite nth_error_app1 in Hc by assumption. exact Hc. }
  assert (Hlen := ms_len _ _ _ HMS).
  split; [|split; [|split]].
  - constructor; simpl.
    + rewrite !app_length, Hlen. reflexivity.
    + intros c a Hm. destruct (Nat.lt_ge_cases c (length (mm m))) as [Hlt | Hge].
      * apply Hold in Hm; [|exact Hlt].
        destruct (ms_rel _ _ _ HMS c a Hm) as (v' & z' & Hc & Hh & Hr & Hf).
        exists v', z'. split; [|split; [|split]].
        -- rewrite nth_error_app1; auto. apply nth_error_Some. congruence.
        -- rewrite nth_error_app1; auto. apply nth_error_Some. congruence.
        -- eapply cell_rel_ext; eauto.
        -- intros fd cenv E. apply in_or_app. left. apply Hf. exact E.
      * destruct (Hnew c a Hge Hm) as [-> ->].
        exists v, hc. split; [|split; [|split]].
        -- rewrite Hlen, nth_error_app2, Nat.sub_diag by lia. reflexivity.
        -- unfold a0. rewrite app_assoc, nth_error_app2 by (rewrite app_length; lia).
           rewrite app_length, Nat.sub_diag. reflexivity.
        -- eapply cell_rel_ext; eauto.
        -- intros fd cenv E. apply in_or_app. right. subst v. rewrite Hlen. left. reflexivity.
    + intros c1 c2 a H1 H2.
      destruct (Nat.lt_ge_cases c1 (length (mm m))) as [L1 | G1];
      destruct (Nat.lt_ge_cases c2 (length (mm m))) as [L2 | G2].
      * eapply (ms_inj _ _ _ HMS); eauto.
      * apply Hold in H1; [|exact L1]. apply vrel_img, (MS_addr_lt _ _ _ _ _ HMS) in H1.
        destruct (Hnew _ _ G2 H2). unfold a0 in *. lia.
      * apply Hold in H2; [|exact L2]. apply vrel_img, (MS_addr_lt _ _ _ _ _ HMS) in H2.
        destruct (Hnew _ _ G1 H1). unfold a0 in *. lia.
      * destruct (Hnew _ _ G1 H1), (Hnew _ _ G2 H2). lia.
    + intros c fd Hm. destruct (Nat.lt_ge_cases c (length (mm m))) as [Hlt | Hge].
      * apply Hold in Hm; [|exact Hlt].
        rewrite nth_error_app1 by (rewrite <- Hlen; assumption).
        apply (ms_fun _ _ _ HMS _ _ Hm).
      * unfold mget, m' in Hm. simpl in Hm. rewrite nth_error_app2 in Hm by assumption.
        destruct (c - length (mm m))%nat as [|d] eqn:Hd; simpl in Hm; [discriminate | destruct d; discriminate].
    + intros v0 l Hin. rewrite nth_error_app1; [apply (ms_vec _ _ _ HMS _ _ Hin)|].
      eapply MS_vec_lt; eauto.
    + intros c fd cenv Hin. apply in_app_or in Hin. destruct Hin as [Hin | Hin].
      * rewrite nth_error_app1 by (eapply MS_fcl_lt; eauto). apply (ms_fcl _ _ _ HMS _ _ _ Hin).
      * unfold frec in Hin. destruct v; try contradiction. destruct Hin as [Hin | []]. inversion Hin; subst.
        left. rewrite nth_error_app2, Nat.sub_diag by lia. reflexivity.
    + intros c fd cenv k Hin Hk. apply in_app_or in Hin. destruct Hin as [Hin | Hin].
      * eapply (ms_fself _ _ _ HMS); eauto.
      * unfold frec in Hin. destruct v; try contradiction. destruct Hin as [Hin | []]. inversion Hin; subst.
        eapply Hself; eauto.
    + intros a c Hin. eapply cp_ok_mono; [exact He | | | apply (ms_cp _ _ _ HMS _ _ Hin)].
      * intros c1 fd cenv Hc. rewrite nth_error_app1; [exact Hc | apply nth_error_Some; congruence].
      * intros a1 vec addr Hh. rewrite nth_error_app1; [exact Hh | apply nth_error_Some; congruence].
    + apply (ms_nocp _ _ _ HMS).
    + intros c Hin. destruct (ms_int _ _ _ HMS c Hin) as (w & Hw & Hk). exists w. split; [|exact Hk].
      rewrite nth_error_app1; [exact Hw | apply nth_error_Some; congruence].
    + exact (arr_keep _ _ _ _ _ HMS He eq_refl eq_refl).
    + exact (arrmi_keep _ _ _ _ _ HMS He eq_refl).
    + exact (ms_noarr _ _ _ HMS).
    + exact (rec_keep _ _ _ _ _ HMS He eq_refl eq_refl).
    + exact (recmi_keep _ _ _ _ _ HMS He eq_refl).
    + exact (ms_norec _ _ _ HMS).
    + intros Hrc c Hc. destruct (Nat.lt_ge_cases c (length (cells st))) as [Hlt | Hge].
      * rewrite nth_error_app1 in Hc by exact Hlt. exact (ms_nonil _ _ _ HMS Hrc c Hc).
      * rewrite nth_error_app2 in Hc by exact Hge. destruct (c - length (cells st))%nat as [|d]; simpl in Hc;
          [inversion Hc as [E]; exact (Hnn Hrc E) | destruct d; discriminate Hc].
  - left. unfold mget, m'. simpl. rewrite <- Hlen, nth_error_app2, Nat.sub_diag by lia. reflexivity.
  - exact He.
  - reflexivity.
Qed.

Lemma MS_alloc : forall m st h v z c st', MS m st h -> val_rel v z -> alloc st v = (c, st') ->
  MS (msnoc m (MA (length h))) st' (h ++ [HInt z]) /\
  vrel (msnoc m (MA (length h))) c (length h) /\
  out st' = out st.
Proof.
  intros m st h v z c st' HMS Hv Ha.
  assert (Hs : forall fd cenv k, v = CFun fd cenv -> nth_error AF k = Some (KNamed, fd) -> lookup (fd_name fd) cenv = Some c)
    by (intros fd cenv k E; subst v; simpl in Hv; contradiction).
  assert (Hnn : rc = false -> v <> CRec None) by (intros _ E; subst v; simpl in Hv; contradiction).
  pose proof (MS_alloc_gen m st h v (HInt z) c st' [] HMS (cell_rel_int m v z Hv) Ha Hs Hnn) as H.
  simpl in H. rewrite Nat.add_0_r in H.
  assert (Ef : frec c v = []) by (destruct v; simpl in Hv; try contradiction; reflexivity).
  rewrite Ef, app_nil_r in H. destruct H as (A & B & _ & C).
  unfold msnoc. split; [|split]; [| | exact C].
  - destruct m; exact A.
  - destruct m; exact B.
Qed.

Lemma MS_fresh : forall m st h v z c st', MS m st h -> val_rel v z -> fresh st v = (ROk c, st') ->
  MS (msnoc m (MA (length h))) st' (h ++ [HInt z]) /\
  vrel (msnoc m (MA (length h))) c (length h) /\
  out st' = out st.
Proof.
  intros m st h v z c st' HMS Hv Hf. unfold fresh in Hf.
  destruct (alloc st v) as [c0 st0] eqn:Ha. inversion Hf; subst. eapply MS_alloc; eauto.
Qed.

(* assignment: the payload of the left cell is overwritten on both sides (whatever it held: a mapped cell's
   image is never a vector; a recorded closure cell becomes an int cell) *)
Lemma MS_assign : forall m st h cl al v z, MS m st h -> cp = false \/ In cl (mi m) -> vrel m cl al ->
  val_rel v z -> MS m (set_cell st cl v) (list_upd h al (HInt z)).
Proof.
  intros m st h cl al v z HMS Hsafe Hl0 Hv.
  assert (Hiv : match v with CInt _ | CBool _ => True | _ => False end) by (destruct v; simpl in Hv; auto).
  (* the left cell has no copies: there are none, or it holds an int *)
  assert (Hnc : forall a c, In (a, c) (mc m) -> c <> cl /\ a <> al).
  { intros a c Hin. destruct Hsafe as [Hcp | Hmi].
    - rewrite (ms_nocp _ _ _ HMS Hcp) in Hin. destruct Hin.
    - destruct (ms_int _ _ _ HMS cl Hmi) as (w & Hw & Hk).
      destruct (ms_cp _ _ _ HMS a c Hin) as (fd & cenv & vec & addr & Hc & Hh & _).
      split; [intros ->; rewrite Hw in Hc; inversion Hc; subst w; contradiction|].
      intros ->. destruct Hl0 as [Hx | Hx].
      + destruct (ms_rel _ _ _ HMS cl al Hx) as (v' & hc & Hc' & Hh' & Hr & _).
        rewrite Hw in Hc'. inversion Hc'; subst v'. rewrite Hh in Hh'. inversion Hh'; subst hc.
        destruct w; simpl in Hr; contradiction.
      + destruct (ms_cp _ _ _ HMS al cl Hx) as (fd' & cenv' & vec' & addr' & Hc' & _).
        rewrite Hw in Hc'. inversion Hc'; subst w. contradiction. }
  assert (Hl : mget m cl = Some (MA al)).
  { destruct Hl0 as [Hx | Hx]; [exact Hx|]. exfalso. destruct (Hnc al cl Hx) as [Hy _]. apply Hy. reflexivity. }
  constructor; simpl.
  - rewrite list_upd_length. apply (ms_len _ _ _ HMS).
  - intros c a Hm. destruct (ms_rel _ _ _ HMS c a Hm) as (v' & z' & Hc & Hh & Hr & Hf).
    destruct (Nat.eq_dec c cl) as [-> | Hne].
    + assert (a = al) by congruence. subst a. exists v, (HInt z). split; [|split; [|split]].
      * apply nth_error_list_upd_same. apply nth_error_Some. congruence.
      * apply nth_error_list_upd_same. apply nth_error_Some. congruence.
      * apply cell_rel_int. exact Hv.
      * intros fd cenv E. subst v. contradiction.
    + exists v', z'. split; [|split; [|split]]; auto.
      * rewrite nth_error_list_upd_other; auto.
      * rewrite nth_error_list_upd_other; auto. intros ->. apply Hne.
        eapply (ms_inj _ _ _ HMS); eauto.
  - apply (ms_inj _ _ _ HMS).
  - intros c fd Hm. rewrite nth_error_list_upd_other; [apply (ms_fun _ _ _ HMS _ _ Hm) | congruence].
  - intros v0 l Hin. rewrite nth_error_list_upd_other; [apply (ms_vec _ _ _ HMS _ _ Hin)|].
    intros ->. destruct (ms_rel _ _ _ HMS cl v0 Hl) as (v' & hc & _ & Hh & Hr & _).
    rewrite (ms_vec _ _ _ HMS _ _ Hin) in Hh. inversion Hh; subst hc.
    destruct v' as [z0|b0|fd0 ce0|[ar0|]|[r0|]]; simpl in Hr; try contradiction.
    (* the left cell holds an array / a record: there are none without copies, and an int cell holds none *)
    2:{ destruct Hsafe as [Hcp | Hmi].
        + rewrite (ms_norec _ _ _ HMS Hcp) in Hr. destruct Hr.
        + destruct (ms_int _ _ _ HMS cl Hmi) as (w & Hw & Hk).
          destruct (ms_rel _ _ _ HMS cl v0 Hl) as (v'' & hc'' & Hc'' & Hh'' & Hr'' & _).
          rewrite Hw in Hc''. inversion Hc''; subst v''. rewrite (ms_vec _ _ _ HMS _ _ Hin) in Hh''. inversion Hh''; subst hc''.
          destruct w; simpl in Hr''; contradiction. }
    destruct Hsafe as [Hcp | Hmi].
    + rewrite (ms_noarr _ _ _ HMS Hcp) in Hr. destruct Hr.
    + destruct (ms_int _ _ _ HMS cl Hmi) as (w & Hw & Hk).
      destruct (ms_rel _ _ _ HMS cl v0 Hl) as (v'' & hc'' & Hc'' & Hh'' & Hr'' & _).
      rewrite Hw in Hc''. inversion Hc''; subst v''. rewrite (ms_vec _ _ _ HMS _ _ Hin) in Hh''. inversion Hh''; subst hc''.
      destruct w; simpl in Hr''; contradiction.
  - intros c fd cenv Hin. destruct (Nat.eq_dec c cl) as [-> | Hne].
    + destruct Hsafe as [Hcp | Hmi].
      * right. split; [exact Hcp|]. exists v. split; [|exact Hiv]. apply nth_error_list_upd_same. eapply MS_fcl_lt; eauto.
      * (* an int cell: a recorded cell that holds an int — only without copies *)
        destruct (ms_int _ _ _ HMS cl Hmi) as (w & Hw & Hk).
        destruct (ms_fcl _ _ _ HMS _ _ _ Hin) as [E | (Hcp & _)].
        -- rewrite Hw in E. inversion E; subst w. contradiction.
        -- right. split; [exact Hcp|]. exists v. split; [|exact Hiv]. apply nth_error_list_upd_same. eapply MS_fcl_lt; eauto.
    + rewrite nth_error_list_upd_other by congruence. apply (ms_fcl _ _ _ HMS _ _ _ Hin).
  - exact (ms_fself _ _ _ HMS).
  - intros a c Hin. destruct (Hnc a c Hin) as [N1 N2].
    destruct (ms_cp _ _ _ HMS a c Hin) as (fd & cenv & vec & addr & Hc & Hh & Hd).
    exists fd, cenv, vec, addr. split; [rewrite nth_error_list_upd_other by congruence; exact Hc|].
    split; [rewrite nth_error_list_upd_other by congruence; exact Hh | exact Hd].
  - exact (ms_nocp _ _ _ HMS).
  - intros c Hin. destruct (Nat.eq_dec c cl) as [-> | Hne].
    + exists v. split; [|exact Hiv]. apply nth_error_list_upd_same.
      destruct (ms_int _ _ _ HMS cl Hin) as (w & Hw & _). apply nth_error_Some. congruence.
    + destruct (ms_int _ _ _ HMS c Hin) as (w & Hw & Hk). exists w. split; [|exact Hk].
      rewrite nth_error_list_upd_other by congruence. exact Hw.
  - exact (arr_keep _ _ _ _ _ HMS (ext_refl m) eq_refl eq_refl).
  - exact (arrmi_keep _ _ _ _ _ HMS (ext_refl m) eq_refl).
  - exact (ms_noarr _ _ _ HMS).
  - exact (rec_keep _ _ _ _ _ HMS (ext_refl m) eq_refl eq_refl).
  - exact (recmi_keep _ _ _ _ _ HMS (ext_refl m) eq_refl).
  - exact (ms_norec _ _ _ HMS).
  - intros Hrc c Hc. destruct (Nat.eq_dec c cl) as [-> | Hne].
    + assert (Hlt : (cl < length (cells st))%nat) by (destruct (ms_rel _ _ _ HMS cl al Hl) as (? & ? & Hx & _); apply nth_error_Some; congruence).
      rewrite nth_error_list_upd_same in Hc by exact Hlt. inversion Hc; subst v. contradiction.
    + rewrite nth_error_list_upd_other in Hc by congruence. exact (ms_nonil _ _ _ HMS Hrc c Hc).
Qed.

(* a run of sibling functions: k new cells (the evaluator's closures over the common environment e'), their
   images the k slot cells, k new vectors *)
Lemma MS_run : forall m st h H' (fds : list fdef) (e : env) newvecs newcps,
  MS m st h -> NoDup (map fd_name fds) ->
  (forall a, (a < length h)%nat -> nth_error H' a = nth_error h a) ->
  (forall v l, In (v, l) newvecs -> nth_error H' v = Some (HVec l)) ->
  let c0 := length (cells st) in
  let e' := func_env fds c0 e in
  (forall x c, lookup x e' = Some c -> is_fname FS x = false) ->
  let m' := {| mm := mm m ++ map MA (seq (length h) (length fds)); mv := mv m ++ newvecs;
               mf := mf m ++ combine (seq c0 (length fds)) (map (fun f => (f, e')) fds); mc := mc m ++ newcps; mi := mi m; mar := mar m; mrc := mrc m |} in
  (forall j fd, nth_error fds j = Some fd ->
     exists v ad addr, nth_error H' (length h + j) = Some (HFun v addr) /\ In (v, ad) newvecs /\
       fun_addr fd addr /\
       Forall2 (fun y a => exists c, lookup y e' = Some c /\ vrel m' c a /\ (mem_id y ivs = true -> In c (mi m'))) (fvs_fd TL fd) ad) ->
  (cp = false -> newcps = []) ->
  (forall a c, In (a, c) newcps -> cp_ok m' (cells (add_cells st (map (fun f => CFun f e') fds))) H' a c) ->
  MS m' (add_cells st (map (fun f => CFun f e') fds)) H'.
Proof.
  intros m st h H' fds e newvecs newcps HMS Hnd Hpre Hnv c0 e' Hnf m' Hslots Hncp Hnew_cp.
  assert (He : ext m m') by ext_solve.
  assert (Hlen := ms_len _ _ _ HMS).
  assert (Hnew : forall c a, (length (mm m) <= c)%nat -> mget m' c = Some (MA a) ->
            exists j, c = (length (mm m) + j)%nat /\ a = (length h + j)%nat /\ (j < length fds)%nat).
  { intros c a Hge Hc. unfold mget, m' in Hc. simpl in Hc. rewrite nth_error_app2 in Hc by assumption.
    rewrite nth_error_map in Hc. destruct (nth_error (seq (length h) (length fds)) (c - length (mm m))) as [a0|] eqn:Es; [|discriminate].
    simpl in Hc. inversion Hc; subst a0.
    assert (Hj : (c - length (mm m) < length fds)%nat).
    { assert (Hx : nth_error (seq (length h) (length fds)) (c - length (mm m)) <> None) by congruence.
      apply nth_error_Some in Hx. rewrite seq_length in Hx. exact Hx. }
    rewrite (nth_error_nth' _ 0%nat) in Es by (rewrite seq_length; exact Hj).
    rewrite seq_nth in Es by exact Hj. inversion Es. exists (c - length (mm m))%nat. repeat split; lia. }
  assert (Hold : forall c x, (c < length (mm m))%nat -> mget m' c = Some x -> mget m c = Some x).
  { intros c x Hlt Hc. unfold mget, m' in *. simpl in Hc. rewrite nth_error_app1 in Hc by assumption. exact Hc. }
  assert (Hrec : forall c fd cenv, In (c, (fd, cenv)) (combine (seq c0 (length fds)) (map (fun f => (f, e')) fds)) ->
            exists j, c = (c0 + j)%nat /\ nth_error fds j = Some fd /\ cenv = e').
  { intros c fd cenv Hin. apply In_nth_error in Hin. destruct Hin as (j & Hj).
    assert (Hjl : (j < length fds)%nat).
    { assert (Hx : (j < length (combine (seq c0 (length fds)) (map (fun f => (f, e')) fds)))%nat) by (apply nth_error_Some; congruence).
      rewrite combine_length, seq_length, map_length in Hx. lia. }
    destruct (nth_error fds j) as [f|] eqn:Ef; [|apply nth_error_None in Ef; lia].
    pose proof (nth_error_combine_seq (fun f => (f, e')) fds c0 j f Ef) as Hc.
    rewrite Hc in Hj. inversion Hj; subst. exists j. auto. }
  constructor.
  - unfold m'. simpl. rewrite !app_length, !map_length, seq_length. lia.
  - intros c a Hm. destruct (Nat.lt_ge_cases c (length (mm m))) as [Hlt | Hge].
    + apply Hold in Hm; [|exact Hlt]. destruct (ms_rel _ _ _ HMS c a Hm) as (v & hc & Hc & Hh & Hr & Hf).
      exists v, hc. split; [|split; [|split]].
      * simpl. rewrite nth_error_app1; [exact Hc|]. apply nth_error_Some. congruence.
      * rewrite Hpre; [exact Hh|]. apply nth_error_Some. congruence.
      * eapply cell_rel_ext; eauto.
      * intros fd cenv E. unfold m'. simpl. apply in_or_app. left. apply Hf. exact E.
    + destruct (Hnew c a Hge Hm) as (j & -> & -> & Hj).
      destruct (nth_error fds j) as [fd|] eqn:Ef; [|apply nth_error_None in Ef; lia].
      destruct (Hslots j fd Ef) as (v & ad & addr & Hs & Hin & Hfa & HF2).
      exists (CFun fd e'), (HFun v addr). split; [|split; [|split]].
      * simpl. rewrite nth_error_app2 by lia. rewrite <- Hlen.
        replace (length (mm m) + j - length (mm m))%nat with j by lia. rewrite nth_error_map, Ef. reflexivity.
      * exact Hs.
      * simpl. split; [exact Hfa|]. split; [exact Hnf|]. exists ad. split; [|exact HF2].
        unfold m'. simpl. apply in_or_app. right. exact Hin.
      * intros fd0 cenv0 E. inversion E; subst fd0 cenv0. unfold m'. simpl. apply in_or_app. right.
        rewrite Hlen. fold c0.
        pose proof (nth_error_combine_seq (fun f => (f, e')) fds c0 j fd Ef) as Hc.
        eapply nth_error_In; eauto.
  - intros c1 c2 a H1 H2.
    destruct (Nat.lt_ge_cases c1 (length (mm m))) as [L1 | G1];
    destruct (Nat.lt_ge_cases c2 (length (mm m))) as [L2 | G2].
    + eapply (ms_inj _ _ _ HMS); eauto.
    + apply Hold in H1; [|exact L1]. apply vrel_img, (MS_addr_lt _ _ _ _ _ HMS) in H1.
      destruct (Hnew _ _ G2 H2) as (j & _ & -> & _). lia.
    + apply Hold in H2; [|exact L2]. apply vrel_img, (MS_addr_lt _ _ _ _ _ HMS) in H2.
      destruct (Hnew _ _ G1 H1) as (j & _ & -> & _). lia.
    + destruct (Hnew _ _ G1 H1) as (j1 & -> & E1 & _). destruct (Hnew _ _ G2 H2) as (j2 & -> & E2 & _). lia.
  - intros c fd Hm. destruct (Nat.lt_ge_cases c (length (mm m))) as [Hlt | Hge].
    + apply Hold in Hm; [|exact Hlt]. simpl. rewrite nth_error_app1 by (rewrite <- Hlen; exact Hlt).
      apply (ms_fun _ _ _ HMS _ _ Hm).
    + unfold mget, m' in Hm. simpl in Hm. rewrite nth_error_app2 in Hm by assumption.
      rewrite nth_error_map in Hm. destruct (nth_error (seq (length h) (length fds)) (c - length (mm m))); discriminate.
  - intros v l Hin. unfold m' in Hin. simpl in Hin. apply in_app_or in Hin. destruct Hin as [Hin | Hin].
    + rewrite Hpre; [apply (ms_vec _ _ _ HMS _ _ Hin) | eapply MS_vec_lt; eauto].
    + apply Hnv. exact Hin.
  - intros c fd cenv Hin. unfold m' in Hin. simpl in Hin. apply in_app_or in Hin. destruct Hin as [Hin | Hin].
    + simpl. rewrite nth_error_app1 by (eapply MS_fcl_lt; eauto). apply (ms_fcl _ _ _ HMS _ _ _ Hin).
    + destruct (Hrec _ _ _ Hin) as (j & -> & Hj & ->). left. simpl. fold c0.
      rewrite nth_error_app2 by (unfold c0; lia). replace (c0 + j - length (cells st))%nat with j by (unfold c0; lia).
      rewrite nth_error_map, Hj. reflexivity.
  - intros c fd cenv k Hin Hk. unfold m' in Hin. simpl in Hin. apply in_app_or in Hin. destruct Hin as [Hin | Hin].
    + eapply (ms_fself _ _ _ HMS); eauto.
    + destruct (Hrec _ _ _ Hin) as (j & -> & Hj & ->). unfold e'. apply func_env_nth; [exact Hj|].
      intros j' g Hlt Hg E.
      assert (H1 : nth_error (map fd_name fds) j = Some (fd_name fd)) by (rewrite nth_error_map, Hj; reflexivity).
      assert (H2 : nth_error (map fd_name fds) j' = Some (fd_name fd)) by (rewrite nth_error_map, Hg; simpl; rewrite E; reflexivity).
      assert (j = j'); [|lia].
      eapply (proj1 (NoDup_nth_error (map fd_name fds))); eauto.
      * apply nth_error_Some. congruence.
      * congruence.
  - intros a c Hin. unfold m' in Hin. simpl in Hin. apply in_app_or in Hin. destruct Hin as [Hin | Hin].
    + eapply cp_ok_mono; [exact He | | | apply (ms_cp _ _ _ HMS _ _ Hin)].
      * intros c1 fd cenv Hc. simpl. rewrite nth_error_app1; [exact Hc | apply nth_error_Some; congruence].
      * intros a1 vec addr Hh. rewrite Hpre; [exact Hh | apply nth_error_Some; congruence].
    + apply (Hnew_cp a c Hin).
  - intros Hcp. unfold m'. simpl. rewrite (ms_nocp _ _ _ HMS Hcp), (Hncp Hcp). reflexivity.
  - intros c Hin. destruct (ms_int _ _ _ HMS c Hin) as (w & Hw & Hk). exists w. split; [|exact Hk].
    simpl. rewrite nth_error_app1; [exact Hw | apply nth_error_Some; congruence].
  - exact (arr_keep _ _ _ _ _ HMS He eq_refl eq_refl).
  - exact (arrmi_keep _ _ _ _ _ HMS He eq_refl).
  - exact (ms_noarr _ _ _ HMS).
  - exact (rec_keep _ _ _ _ _ HMS He eq_refl eq_refl).
  - exact (recmi_keep _ _ _ _ _ HMS He eq_refl).
  - exact (ms_norec _ _ _ HMS).
  - intros Hrc c Hc. simpl in Hc. destruct (Nat.lt_ge_cases c (length (cells st))) as [Hlt | Hge].
    + rewrite nth_error_app1 in Hc by exact Hlt. exact (ms_nonil _ _ _ HMS Hrc c Hc).
    + rewrite nth_error_app2 in Hc by exact Hge. rewrite nth_error_map in Hc.
      destruct (nth_error fds (c - length (cells st))); discriminate Hc.
Qed.

(* one closure (a function expression): a new cell, a new function object after a new vector *)
Lemma MS_closure : forall m st h fd (e : env) addrs addr c st',
  MS m st h -> alloc st (CFun fd e) = (c, st') ->
  fun_addr fd addr -> (forall x c, lookup x e = Some c -> is_fname FS x = false) ->
  (forall k, nth_error AF k <> Some (KNamed, fd)) ->
  Forall2 (fun y a => exists c, lookup y e = Some c /\ vrel m c a /\ (mem_id y ivs = true -> In c (mi m))) (fvs_fd TL fd) addrs ->
  let m' := {| mm := mm m ++ [MA (S (length h))]; mv := mv m ++ [(length h, addrs)]; mf := mf m ++ [(c, (fd, e))]; mc := mc m; mi := mi m; mar := mar m; mrc := mrc m |} in
  MS m' st' (h ++ [HVec addrs; HFun (length h) addr]) /\ vrel m' c (S (length h)) /\ ext m m' /\
  out st' = out st.
Proof.
  intros m st h fd e addrs addr c st' HMS Ha Hfa Hnf Hnn HF m'.
  set (m1 := {| mm := mm m; mv := mv m ++ [(length h, addrs)]; mf := mf m; mc := mc m; mi := mi m; mar := mar m; mrc := mrc m |}).
  assert (He1 : ext m m1) by ext_solve.
  assert (HMS1 : MS m1 st (h ++ [HVec addrs])).
  { constructor.
    - apply (ms_len _ _ _ HMS).
    - intros c0 a Hm. destruct (ms_rel _ _ _ HMS c0 a Hm) as (v & hc & Hc & Hh & Hr & Hf).
      exists v, hc. split; [exact Hc|]. split; [rewrite nth_error_app1; [exact Hh | apply nth_error_Some; congruence]|].
      split; [eapply cell_rel_ext; eauto | exact Hf].
    - apply (ms_inj _ _ _ HMS).
    - apply (ms_fun _ _ _ HMS).
    - intros v l Hin. unfold m1 in Hin. simpl in Hin. apply in_app_or in Hin. destruct Hin as [Hin | [Hin | []]].
      + rewrite nth_error_app1; [apply (ms_vec _ _ _ HMS _ _ Hin) | eapply MS_vec_lt; eauto].
      + inversion Hin; subst. rewrite nth_error_app2, Nat.sub_diag by lia. reflexivity.
    - apply (ms_fcl _ _ _ HMS).
    - apply (ms_fself _ _ _ HMS).
    - intros a0 c0 Hin. eapply cp_ok_mono; [exact He1 | | | apply (ms_cp _ _ _ HMS _ _ Hin)].
      + auto.
      + intros a1 vec addr0 Hh. rewrite nth_error_app1; [exact Hh | apply nth_error_Some; congruence].
    - apply (ms_nocp _ _ _ HMS).
    - apply (ms_int _ _ _ HMS).
    - exact (arr_keep _ _ _ _ _ HMS He1 eq_refl eq_refl).
    - exact (arrmi_keep _ _ _ _ _ HMS He1 eq_refl).
    - exact (ms_noarr _ _ _ HMS).
    - exact (rec_keep _ _ _ _ _ HMS He1 eq_refl eq_refl).
    - exact (recmi_keep _ _ _ _ _ HMS He1 eq_refl).
    - exact (ms_norec _ _ _ HMS).
    - exact (ms_nonil _ _ _ HMS). }
  assert (Hrel : cell_rel m1 (CFun fd e) (HFun (length h) addr)).
  { simpl. split; [exact Hfa|]. split; [exact Hnf|]. exists addrs. split.
    - unfold m1. simpl. apply in_or_app. right. left. reflexivity.
    - eapply Forall2_imp; [|exact HF]. intros y a (c0 & H1 & H2). exists c0. split; [exact H1|]. exact H2. }
  assert (Hs : forall fd0 cenv k, CFun fd e = CFun fd0 cenv -> nth_error AF k = Some (KNamed, fd0) -> lookup (fd_name fd0) cenv = Some c).
  { intros fd0 cenv k E Hk. inversion E; subst. exfalso. eapply Hnn; eauto. }
  destruct (MS_alloc_gen m1 st (h ++ [HVec addrs]) (CFun fd e) (HFun (length h) addr) c st' [] HMS1 Hrel Ha Hs (fun _ E => ltac:(discriminate E))) as (A & B & _ & C).
  simpl in A, B. rewrite app_length in A, B. simpl in A, B. rewrite Nat.add_0_r in A, B.
  replace (length h + 1)%nat with (S (length h)) in A, B by lia.
  rewrite <- app_assoc in A. simpl in A.
  split; [exact A|]. split; [exact B|]. split; [|exact C].
  unfold m'. ext_solve.
Qed.

(* a copy of a function object: a new object (after `pad` machine-only cells) for the function the cell c holds *)
Lemma MS_copy : forall m st h c fd cenv vec addr pad,
  MS m st h -> cp = true -> nth_error (cells st) c = Some (CFun fd cenv) ->
  ((exists kidx, nth_error AF kidx = Some (KTop, fd) /\ addr = nth (nstd + kidx) ftab 0%nat /\ cenv = []) \/
   (fun_rel m fd cenv vec addr /\ In (c, (fd, cenv)) (mf m))) ->
  let m' := {| mm := mm m; mv := mv m; mf := mf m; mc := mc m ++ [((length h + length pad)%nat, c)]; mi := mi m; mar := mar m; mrc := mrc m |} in
  MS m' st (h ++ pad ++ [HFun vec addr]) /\ vrel m' c (length h + length pad) /\ ext m m'.
Proof.
  intros m st h c fd cenv vec addr pad HMS Hcp Hc Hd m'.
  assert (He : ext m m') by ext_solve.
  assert (Hh : forall a x, nth_error h a = Some x -> nth_error (h ++ pad ++ [HFun vec addr]) a = Some x).
  { intros a x Hx. rewrite nth_error_app1; [exact Hx | apply nth_error_Some; congruence]. }
  split; [|split; [|exact He]].
  - constructor.
    + apply (ms_len _ _ _ HMS).
    + intros c0 a Hm. destruct (ms_rel _ _ _ HMS c0 a Hm) as (v & hc & A & B & D & E).
      exists v, hc. split; [exact A|]. split; [apply Hh; exact B|]. split; [eapply cell_rel_ext; eauto | exact E].
    + apply (ms_inj _ _ _ HMS).
    + apply (ms_fun _ _ _ HMS).
    + intros v l Hin. apply Hh. apply (ms_vec _ _ _ HMS _ _ Hin).
    + apply (ms_fcl _ _ _ HMS).
    + apply (ms_fself _ _ _ HMS).
    + intros a c0 Hin. unfold m' in Hin. simpl in Hin. apply in_app_or in Hin. destruct Hin as [Hin | [Hin | []]].
      * eapply cp_ok_mono; [exact He | | | apply (ms_cp _ _ _ HMS _ _ Hin)]; [auto|]. intros; apply Hh; assumption.
      * inversion Hin; subst a c0. exists fd, cenv, vec, addr. split; [exact Hc|]. split.
        -- rewrite app_assoc, nth_error_app2 by (rewrite app_length; lia). rewrite app_length, Nat.sub_diag. reflexivity.
        -- destruct Hd as [Hd | (D1 & D2)]; [left; exact Hd | right]. split; [eapply fun_rel_ext; eauto | exact D2].
    + intros Hx. congruence.
    + apply (ms_int _ _ _ HMS).
    + exact (arr_keep _ _ _ _ _ HMS He eq_refl eq_refl).
    + exact (arrmi_keep _ _ _ _ _ HMS He eq_refl).
    + exact (ms_noarr _ _ _ HMS).
    + exact (rec_keep _ _ _ _ _ HMS He eq_refl eq_refl).
    + exact (recmi_keep _ _ _ _ _ HMS He eq_refl).
    + exact (ms_norec _ _ _ HMS).
    + exact (ms_nonil _ _ _ HMS).
  - right. unfold m'. simpl. apply in_or_app. right. left. reflexivity.
Qed.

(* a cell that holds an int is recorded as an int cell *)
Lemma MS_addint : forall m st h c v, MS m st h -> nth_error (cells st) c = Some v ->
  match v with CInt _ | CBool _ => True | _ => False end ->
  let m' := {| mm := mm m; mv := mv m; mf := mf m; mc := mc m; mi := mi m ++ [c]; mar := mar m; mrc := mrc m |} in
  MS m' st h /\ ext m m' /\ In c (mi m').
Proof.
  intros m st h c v HMS Hc Hv m'.
  assert (He : ext m m') by ext_solve.
  split; [|split; [exact He | unfold m'; simpl; apply in_or_app; right; left; reflexivity]].
  constructor.
  - apply (ms_len _ _ _ HMS).
  - intros c0 a Hm. destruct (ms_rel _ _ _ HMS c0 a Hm) as (v0 & hc & A & B & D & E).
    exists v0, hc. split; [exact A|]. split; [exact B|]. split; [eapply cell_rel_ext; eauto | exact E].
  - apply (ms_inj _ _ _ HMS).
  - apply (ms_fun _ _ _ HMS).
  - apply (ms_vec _ _ _ HMS).
  - apply (ms_fcl _ _ _ HMS).
  - apply (ms_fself _ _ _ HMS).
  - intros a c0 Hin. eapply cp_ok_mono; [exact He | | | apply (ms_cp _ _ _ HMS _ _ Hin)]; auto.
  - apply (ms_nocp _ _ _ HMS).
  - intros c0 Hin. unfold m' in Hin. simpl in Hin. apply in_app_or in Hin. destruct Hin as [Hin | [<- | []]].
    + apply (ms_int _ _ _ HMS _ Hin).
    + exists v. split; [exact Hc | exact Hv].
  - exact (arr_keep _ _ _ _ _ HMS He eq_refl eq_refl).
  - exact (arrmi_keep _ _ _ _ _ HMS He eq_refl).
  - exact (ms_noarr _ _ _ HMS).
  - exact (rec_keep _ _ _ _ _ HMS He eq_refl eq_refl).
  - exact (recmi_keep _ _ _ _ _ HMS He eq_refl).
  - exact (ms_norec _ _ _ HMS).
  - exact (ms_nonil _ _ _ HMS).
Qed.

(* a new array object over element cells that are int cells with images l *)
Lemma MS_newarr : forall m st h elems l,
  MS m st h -> cp = true -> Forall2 (vrel m) elems l -> Forall (fun c => In c (mi m)) elems ->
  let m' := {| mm := mm m; mv := mv m; mf := mf m; mc := mc m; mi := mi m; mar := mar m ++ [(length (arrs st), l)]; mrc := mrc m |} in
  MS m' (snd (new_arr st elems)) h /\ ext m m' /\ In (length (arrs st), l) (mar m').
Proof.
  intros m st h elems l HMS Hcp HF Hmi m'.
  assert (He : ext m m') by ext_solve.
  split; [|split; [exact He | unfold m'; simpl; apply in_or_app; right; left; reflexivity]].
  constructor; cbn [new_arr snd cells arrs].
  - apply (ms_len _ _ _ HMS).
  - intros c0 a Hm. destruct (ms_rel _ _ _ HMS c0 a Hm) as (v0 & hc & A & B & D & E).
    exists v0, hc. split; [exact A|]. split; [exact B|]. split; [eapply cell_rel_ext; eauto | exact E].
  - apply (ms_inj _ _ _ HMS).
  - apply (ms_fun _ _ _ HMS).
  - apply (ms_vec _ _ _ HMS).
  - apply (ms_fcl _ _ _ HMS).
  - apply (ms_fself _ _ _ HMS).
  - intros a c0 Hin. eapply cp_ok_mono; [exact He | | | apply (ms_cp _ _ _ HMS _ _ Hin)]; auto.
  - apply (ms_nocp _ _ _ HMS).
  - apply (ms_int _ _ _ HMS).
  - intros ar l0 Hin. unfold m' in Hin. simpl in Hin. apply in_app_or in Hin. destruct Hin as [Hin | [Hin | []]].
    + destruct (ms_arr _ _ _ HMS ar l0 Hin) as (el & A & B). exists el. split.
      * rewrite nth_error_app1; [exact A | apply nth_error_Some; congruence].
      * eapply Forall2_imp; [|exact B]. intros x y Hxy. eapply vrel_ext; eauto.
    + inversion Hin; subst ar l0. exists elems. split.
      * rewrite nth_error_app2, Nat.sub_diag by lia. reflexivity.
      * eapply Forall2_imp; [|exact HF]. intros x y Hxy. eapply vrel_ext; eauto.
  - intros ar el Hn. destruct (Nat.lt_ge_cases ar (length (arrs st))) as [Hlt | Hge].
    + rewrite nth_error_app1 in Hn by exact Hlt. apply (ms_arrmi _ _ _ HMS ar el Hn).
    + rewrite nth_error_app2 in Hn by exact Hge. destruct (ar - length (arrs st))%nat as [|d]; simpl in Hn.
      * inversion Hn; subst el. exact Hmi.
      * destruct d; discriminate Hn.
  - intros Hx. congruence.
  - exact (rec_keep _ _ _ _ _ HMS He eq_refl eq_refl).
  - exact (recmi_keep _ _ _ _ _ HMS He eq_refl).
  - exact (ms_norec _ _ _ HMS).
  - exact (ms_nonil _ _ _ HMS).
Qed.

(* a new record object over field cells that are int cells with images l *)
Lemma MS_newrec : forall m st h flds l,
  MS m st h -> cp = true -> Forall2 (vrel m) flds l -> Forall (fun c => In c (mi m)) flds ->
  let m' := {| mm := mm m; mv := mv m; mf := mf m; mc := mc m; mi := mi m; mar := mar m; mrc := mrc m ++ [(length (recs st), l)] |} in
  MS m' (snd (new_rec st flds)) h /\ ext m m' /\ In (length (recs st), l) (mrc m').
Proof.
  intros m st h flds l HMS Hcp HF Hmi m'.
  assert (He : ext m m') by ext_solve.
  split; [|split; [exact He | unfold m'; simpl; apply in_or_app; right; left; reflexivity]].
  constructor; cbn [new_rec snd cells arrs recs].
  - apply (ms_len _ _ _ HMS).
  - intros c0 a Hm. destruct (ms_rel _ _ _ HMS c0 a Hm) as (v0 & hc & A & B & D & E).
    exists v0, hc. split; [exact A|]. split; [exact B|]. split; [eapply cell_rel_ext; eauto | exact E].
  - apply (ms_inj _ _ _ HMS).
  - apply (ms_fun _ _ _ HMS).
  - apply (ms_vec _ _ _ HMS).
  - apply (ms_fcl _ _ _ HMS).
  - apply (ms_fself _ _ _ HMS).
  - intros a c0 Hin. eapply cp_ok_mono; [exact He | | | apply (ms_cp _ _ _ HMS _ _ Hin)]; auto.
  - apply (ms_nocp _ _ _ HMS).
  - apply (ms_int _ _ _ HMS).
  - exact (arr_keep _ _ _ _ _ HMS He eq_refl eq_refl).
  - exact (arrmi_keep _ _ _ _ _ HMS He eq_refl).
  - exact (ms_noarr _ _ _ HMS).
  - intros r l0 Hin. unfold m' in Hin. simpl in Hin. apply in_app_or in Hin. destruct Hin as [Hin | [Hin | []]].
    + destruct (ms_rec _ _ _ HMS r l0 Hin) as (el & A & B). exists el. split.
      * rewrite nth_error_app1; [exact A | apply nth_error_Some; congruence].
      * eapply Forall2_imp; [|exact B]. intros x y Hxy. eapply vrel_ext; eauto.
    + inversion Hin; subst r l0. exists flds. split.
      * rewrite nth_error_app2, Nat.sub_diag by lia. reflexivity.
      * eapply Forall2_imp; [|exact HF]. intros x y Hxy. eapply vrel_ext; eauto.
  - intros r el Hn. destruct (Nat.lt_ge_cases r (length (recs st))) as [Hlt | Hge].
    + rewrite nth_error_app1 in Hn by exact Hlt. apply (ms_recmi _ _ _ HMS r el Hn).
    + rewrite nth_error_app2 in Hn by exact Hge. destruct (r - length (recs st))%nat as [|d]; simpl in Hn.
      * inversion Hn; subst el. exact Hmi.
      * destruct d; discriminate Hn.
  - intros Hx. congruence.
  - exact (ms_nonil _ _ _ HMS).
Qed.

End Rel.

Ltac ext_solve := unfold ext; simpl; repeat split; first [exists []; now rewrite app_nil_r | eexists; reflexivity].

Lemma hint_app : forall h l a z, hint h a = Some z -> hint (h ++ l) a = Some z.
Proof.
  intros h l a z H. unfold hint in *. destruct (nth_error h a) as [hc|] eqn:E; [|discriminate].
  rewrite nth_error_app1 by (apply nth_error_Some; congruence). rewrite E. exact H.
Qed.

(* ---- facts about Compile4.fvs_fd ------------------------------------------------------------------ *)

Lemma mem_id_true_In : forall x l, mem_id x l = true -> In x l.
Proof.
  induction l as [|y t IH]; simpl; intros H; [discriminate|].
  apply orb_true_iff in H. destruct H as [H | H]; [left; symmetry; apply N.eqb_eq; exact H | right; auto].
Qed.

Lemma In_mem_id_true : forall x l, In x l -> mem_id x l = true.
Proof.
  induction l as [|y t IH]; simpl; intros H; [contradiction|].
  destruct H as [-> | H]; [rewrite N.eqb_refl; reflexivity | rewrite IH by exact H; apply orb_true_r].
Qed.

Lemma dedup_In : forall l seen y, In y (dedup l seen) -> In y l /\ mem_id y seen = false.
Proof.
  induction l as [|x t IH]; simpl; intros seen y H; [contradiction|].
  destruct (mem_id x seen) eqn:E.
  - destruct (IH seen y H). auto.
  - destruct H as [<- | H]; [auto|]. destruct (IH (x :: seen) y H) as [H1 H2]. split; [auto|].
    simpl in H2. apply orb_false_iff in H2. tauto.
Qed.

Lemma dedup_NoDup : forall l seen, NoDup (dedup l seen).
Proof.
  induction l as [|x t IH]; simpl; intros seen; [constructor|].
  destruct (mem_id x seen) eqn:E; [apply IH|]. constructor; [|apply IH].
  intros H. apply dedup_In in H. destruct H as [_ H]. simpl in H. rewrite N.eqb_refl in H. discriminate.
Qed.

Lemma gpos_nth : forall l i y b, NoDup l -> nth_error l i = Some y -> gpos y l b = b + Z.of_nat i.
Proof.
  induction l as [|z t IH]; intros i y b Hnd Hn; destruct i as [|i]; simpl in Hn; try discriminate.
  - inversion Hn; subst. simpl. rewrite N.eqb_refl. lia.
  - inversion Hnd as [|? ? Hz Hnd']; subst. simpl.
    destruct (N.eqb_spec y z) as [->|]; [exfalso; apply Hz; eapply nth_error_In; eauto|].
    rewrite (IH i y (b + 1) Hnd' Hn). lia.
Qed.

Lemma fvs_fd_shape : forall TL fd, exists l,
  fvs_fd TL fd = dedup (filter (nonlocal TL (fd_name fd) (locals fd)) l) [].
Proof. intros TL [name ps r body cs ca]. eexists. reflexivity. Qed.

Lemma fvs_fd_NoDup : forall TL fd, NoDup (fvs_fd TL fd).
Proof. intros TL fd. destruct (fvs_fd_shape TL fd) as (l & ->). apply dedup_NoDup. Qed.

(* a free variable is not a parameter (nor any other local), not a top-level function, not the function itself *)
Lemma fvs_fd_props : forall TL fd y, In y (fvs_fd TL fd) ->
  mem_id y (param_names (fd_params fd)) = false /\ mem_id y TL = false /\ N.eqb y (fd_name fd) = false.
Proof.
  intros TL fd y H. destruct (fvs_fd_shape TL fd) as (l & E). rewrite E in H. apply dedup_In in H.
  destruct H as [H _]. apply filter_In in H. destruct H as [_ H]. unfold nonlocal in H.
  apply andb_true_iff in H. destruct H as [H H3]. apply andb_true_iff in H. destruct H as [H1 H2].
  apply negb_true_iff in H1, H2, H3. split; [|split; assumption].
  destruct (mem_id y (param_names (fd_params fd))) eqn:Ep; [|reflexivity].
  exfalso. apply mem_id_true_In in Ep. assert (Hin : In y (locals fd)) by (unfold locals; apply in_or_app; auto).
  apply In_mem_id_true in Hin. congruence.
Qed.

Lemma mem_id_app' : forall x a b, mem_id x (a ++ b) = mem_id x a || mem_id x b.
Proof. intros x a b. induction a as [|y t IH]; simpl; [reflexivity|]. rewrite IH. apply orb_assoc. Qed.

Lemma lookup_app : forall x (a b : env),
  lookup x (a ++ b) = match lookup x a with Some c => Some c | None => lookup x b end.
Proof.
  intros x a b. induction a as [|[y c] t IH]; simpl; [reflexivity|]. destruct (N.eqb x y); auto.
Qed.

Lemma bind_params_not_param : forall ps cs penv y, bind_params ps cs = Some penv ->
  mem_id y (param_names ps) = false -> lookup y penv = None /\ forall i, clookup y (param_env ps i) = None.
Proof.
  induction ps as [|[[x v] t] ps IH]; intros cs penv y Hb Hy.
  - destruct cs; [|discriminate Hb]. inversion Hb. auto.
  - destruct cs as [|c cs]; [discriminate Hb|]. simpl in Hb.
    destruct (bind_params ps cs) as [e|] eqn:Eb; [|discriminate Hb]. inversion Hb; subst penv.
    simpl in Hy. apply orb_false_iff in Hy. destruct Hy as [Hx Hy]. simpl. rewrite Hx.
    destruct (IH cs e y Eb Hy) as [H1 H2]. auto.
Qed.

Lemma Forall2_nth_l : forall {A B} (P : A -> B -> Prop) l l' j x,
  Forall2 P l l' -> nth_error l j = Some x -> exists y, nth_error l' j = Some y /\ P x y.
Proof.
  intros A B P l l' j x HF. revert j. induction HF as [|a b l l' Hab HF IH]; intros j Hj; destruct j; simpl in *; try discriminate.
  - inversion Hj; subst. eauto.
  - apply IH. exact Hj.
Qed.

(* ---- environments -------------------------------------------------------------------------- *)

(* the program as the evaluator sees it: genv binds each top-level name to a cell; all functions of the
   image (Compile4.all_funcs) *)
Record ginfo := { g_genv : env; g_funcs : list fdef; g_all : list (fkind * fdef) }.

Fixpoint find_func (f : ident) (l : list fdef) : option fdef :=
  match l with [] => None | fd :: t => if N.eqb f (fd_name fd) then Some fd else find_func f t end.

Definition g_sigs (G : ginfo) : fsigs := map (fun fd => (fd_name fd, length (fd_params fd))) (g_funcs G).
Definition g_tl (G : ginfo) : list ident := map fd_name (g_funcs G).

(* where the emitted access finds the image a of the cell of x: a slot of the running frame, or an entry of
   the running function's vector gl *)
Definition access (G : ginfo) (fc : fctx) (ce : cenv) (L : Z) (stk gl : list nat) (x : ident) (a : nat) : Prop :=
  match clookup x ce with
  | Some i => i <= L /\ nth_error stk (Z.to_nat (L - i)) = Some a
  | None => self_is (fc_self fc) x = false /\ mem_id x (g_tl G) = false /\
            nth_error gl (Z.to_nat (gpos x (fc_fvs fc) 0)) = Some a
  end.

(* every name in scope: bound by the evaluator to a mapped cell whose image the access yields; no local
   name hides a top-level function; every top-level function's cell is known to hold it; the running
   function's vector gp holds gl *)
(* the running function is a NAMED nested function f (and its name is not hidden by a slot): the evaluator's
   environment binds f to the recorded cell of f's own closure, whose captured environment the vector gp holds *)
Definition self_match (G : ginfo) (IV : list ident) (fc : fctx) (gp : nat) (gl : list nat) (m : morph) (e : env) (ce : cenv) : Prop :=
  forall f, fc_self fc = Some f -> clookup f ce = None ->
    exists cf kself sfd scenv,
      lookup f e = Some cf /\ In (cf, (sfd, scenv)) (mf m) /\ fd_name sfd = f /\
      nth_error (g_all G) kself = Some (KNamed, sfd) /\ In (gp, gl) (mv m) /\
      Forall2 (fun y a => exists c, lookup y scenv = Some c /\ vrel m c a /\ (mem_id y IV = true -> In c (mi m))) (fvs_fd (g_tl G) sfd) gl /\
      (forall x c, lookup x scenv = Some c -> is_fname (g_sigs G) x = false) /\ mem_id f IV = false.

Lemma self_match_ext : forall G IV fc gp gl m m' e ce, self_match G IV fc gp gl m e ce -> ext m m' ->
  self_match G IV fc gp gl m' e ce.
Proof.
  intros G IV fc gp gl m m' e ce H He f Hf Hc. destruct (H f Hf Hc) as (cf & k & sfd & scenv & A & B & C & D & E & F & I).
  exists cf, k, sfd, scenv. split; [exact A|]. split; [eapply ext_fcl; eauto|]. split; [exact C|]. split; [exact D|].
  split; [eapply ext_vec; eauto|]. split; [|exact I].
  eapply Forall2_imp; [|exact F]. intros y a (c & Y1 & Y2 & Y3). exists c. split; [exact Y1|]. split; [eapply vrel_ext; eauto|].
  intros Hy. eapply ext_mi; eauto.
Qed.

Definition env_match (G : ginfo) (IV : list ident) (fc : fctx) (gp : nat) (gl : list nat) (m : morph) (e : env) (ce : cenv)
  (sc : list ident) (L : Z) (stk : list nat) : Prop :=
  (forall x, mem_id x sc = true ->
    exists c a, lookup x e = Some c /\ vrel m c a /\ access G fc ce L stk gl x a) /\
  (forall x c, lookup x e = Some c -> is_fname (g_sigs G) x = false) /\
  (forall f fd, find_func f (g_funcs G) = Some fd ->
    exists cf, lookup f (g_genv G) = Some cf /\ mget m cf = Some (MF fd)) /\
  (gl = [] \/ In (gp, gl) (mv m)) /\
  ((forall x i, clookup x ce = Some i -> is_fname (g_sigs G) x = false /\ mem_id x sc = true) /\
   self_match G IV fc gp gl m e ce /\
   (forall f, fc_self fc = Some f -> mem_id f sc = false) /\
   (forall x c, mem_id x sc = true -> mem_id x IV = true -> lookup x e = Some c -> In c (mi m))).

Lemma env_match_ext : forall G IV fc gp gl m m' e ce sc L stk, env_match G IV fc gp gl m e ce sc L stk -> ext m m' ->
  env_match G IV fc gp gl m' e ce sc L stk.
Proof.
  intros G IV fc gp gl m m' e ce sc L stk (H & Hn & Hf & Hv & Hc & Hs & Hsc & Hiv) He. split; [|split; [|split; [|split; [|split; [|split; [|split]]]]]]; auto.
  - intros x Hx. destruct (H x Hx) as (c & a & H3 & H4 & H5).
    exists c, a. split; [exact H3|]. split; [eapply vrel_ext; eauto | exact H5].
  - intros f fd Hfd. destruct (Hf f fd Hfd) as (cf & H1 & H2). exists cf. split; auto.
    eapply ext_nth; eauto.
  - destruct Hv as [Hv | Hv]; [left; exact Hv | right; eapply ext_vec; eauto].
  - eapply self_match_ext; eauto.
  - intros x c Hs0 Hx Hl. eapply ext_mi; eauto.
Qed.

Lemma access_push : forall G fc ce L stk gl x a a0, access G fc ce L stk gl x a ->
  access G fc ce (L + 1) (a0 :: stk) gl x a.
Proof.
  intros G fc ce L stk gl x a a0 H. unfold access in *. destruct (clookup x ce) as [i|]; [|exact H].
  destruct H as [H1 H2]. split; [lia|].
  replace (Z.to_nat (L + 1 - i)) with (S (Z.to_nat (L - i))) by lia. exact H2.
Qed.

Lemma env_match_push : forall G IV fc gp gl m e ce sc L stk a0, env_match G IV fc gp gl m e ce sc L stk ->
  env_match G IV fc gp gl m e ce sc (L + 1) (a0 :: stk).
Proof.
  intros G IV fc gp gl m e ce sc L stk a0 (H & Hn & Hf & Hv & Hc). split; [|split; [|split; [|split]]]; auto.
  intros x Hx. destruct (H x Hx) as (c & a & H3 & H4 & H5).
  exists c, a. repeat split; auto. apply access_push. exact H5.
Qed.

Lemma env_match_bind : forall G IV fc gp gl m e ce sc L stk x c a, env_match G IV fc gp gl m e ce sc L stk ->
  vrel m c a -> is_fname (g_sigs G) x = false -> self_is (fc_self fc) x = false ->
  (mem_id x IV = true -> In c (mi m)) ->
  env_match G IV fc gp gl m ((x, c) :: e) ((x, L + 1) :: ce) (x :: sc) (L + 1) (a :: stk).
Proof.
  intros G IV fc gp gl m e ce sc L stk x c a H Hm Hx Hsx Hxi.
  pose proof (env_match_push _ _ _ _ _ _ _ _ _ _ _ a H) as (Hp & _ & _ & _ & _).
  destruct H as (H & Hn & Hf & Hv & Hc & Hs & Hsc & Hiv). split; [|split; [|split; [|split; [|split; [|split; [|split]]]]]]; auto.
  - intros y Hy. simpl in Hy. simpl. destruct (N.eqb y x) eqn:Exy.
    + exists c, a. repeat split; auto. unfold access. simpl. rewrite Exy. split; [lia|].
      replace (Z.to_nat (L + 1 - (L + 1))) with 0%nat by lia. reflexivity.
    + simpl in Hy. destruct (Hp y Hy) as (c' & a' & H3 & H4 & H5).
      exists c', a'. repeat split; auto. unfold access in *. simpl. rewrite Exy. exact H5.
  - intros y c' Hy. simpl in Hy. destruct (N.eqb y x) eqn:Exy.
    + apply N.eqb_eq in Exy. subst y. exact Hx.
    + eapply Hn; eauto.
  - intros y i Hy. simpl in Hy. simpl. destruct (N.eqb y x) eqn:Exy.
    + apply N.eqb_eq in Exy. subst y. split; [exact Hx | reflexivity].
    + destruct (Hc y i Hy) as [A B]. split; [exact A | exact B].
  - intros f Hf0 Hcl. simpl in Hcl. destruct (N.eqb f x) eqn:Efx; [discriminate|].
    destruct (Hs f Hf0 Hcl) as (cf & k & sfd & scenv & A & B). exists cf, k, sfd, scenv. split; [|exact B].
    simpl. rewrite Efx. exact A.
  - intros f Hf0. simpl. unfold self_is in Hsx. rewrite Hf0 in Hsx. rewrite N.eqb_sym in Hsx. rewrite Hsx. simpl. apply Hsc. exact Hf0.
  - intros y c' Hys Hy Hl. simpl in Hl, Hys. destruct (N.eqb y x) eqn:Exy.
    + apply N.eqb_eq in Exy. subst y. inversion Hl; subst c'. auto.
    + simpl in Hys. eapply Hiv; eauto.
Qed.

(* ---- runs of sibling functions: the two environments ------------------------------------------------ *)

Lemma func_cenv_other : forall fds i ce x, (forall f, In f fds -> fd_name f <> x) ->
  clookup x (func_cenv fds i ce) = clookup x ce.
Proof.
  induction fds as [|fd t IH]; intros i ce x H; simpl; auto.
  rewrite IH by (intros f Hf; apply H; simpl; auto). simpl.
  destruct (N.eqb_spec x (fd_name fd)) as [->|]; auto.
  exfalso. apply (H fd); simpl; auto.
Qed.

Lemma func_cenv_nth : forall fds i ce j f, nth_error fds j = Some f ->
  (forall j' g, (j < j')%nat -> nth_error fds j' = Some g -> fd_name g <> fd_name f) ->
  clookup (fd_name f) (func_cenv fds i ce) = Some (i + Z.of_nat j).
Proof.
  induction fds as [|fd t IH]; intros i ce j f Hn Hl; destruct j as [|j]; simpl in Hn; try discriminate.
  - inversion Hn; subst. simpl. rewrite func_cenv_other.
    + simpl. rewrite N.eqb_refl. f_equal. lia.
    + intros g Hg. destruct (In_nth_error _ _ Hg) as (j' & Hj'). apply (Hl (S j') g); [lia | exact Hj'].
  - simpl. rewrite (IH (i + 1) _ j f Hn).
    + f_equal. lia.
    + intros j' g Hlt Hg. apply (Hl (S j') g); [lia | exact Hg].
Qed.

Lemma clookup_func_cenv_cases : forall fds i ce x j, clookup x (func_cenv fds i ce) = Some j ->
  (exists f, In f fds /\ fd_name f = x) \/ clookup x ce = Some j.
Proof.
  induction fds as [|fd t IH]; intros i ce x j H; simpl in H; [right; exact H|].
  destruct (IH _ _ _ _ H) as [(f & Hf & E) | H']; [left; exists f; simpl; auto|].
  simpl in H'. destruct (N.eqb_spec x (fd_name fd)) as [->|]; [left; exists fd; simpl; auto | right; exact H'].
Qed.

Lemma clookup_func_cenv_none : forall fds i ce x, clookup x (func_cenv fds i ce) = None ->
  (forall f, In f fds -> fd_name f <> x) /\ clookup x ce = None.
Proof.
  induction fds as [|fd t IH]; intros i ce x H; simpl in H; [split; [intros f [] | exact H]|].
  destruct (IH _ _ _ H) as [H1 H2]. simpl in H2. destruct (N.eqb_spec x (fd_name fd)) as [->|Hne]; [discriminate|].
  split; [|exact H2]. intros f [<- | Hf]; [congruence | apply H1; exact Hf].
Qed.

Lemma lookup_func_env_cases : forall fds c e x c', lookup x (func_env fds c e) = Some c' ->
  (exists f, In f fds /\ fd_name f = x) \/ lookup x e = Some c'.
Proof.
  induction fds as [|fd t IH]; intros c e x c' H; simpl in H; [right; exact H|].
  destruct (IH _ _ _ _ H) as [(f & Hf & E) | H']; [left; exists f; simpl; auto|].
  simpl in H'. destruct (N.eqb_spec x (fd_name fd)) as [->|]; [left; exists fd; simpl; auto | right; exact H'].
Qed.

Lemma nodup_ids_NoDup : forall l, nodup_ids l = true -> NoDup l.
Proof.
  induction l as [|x t IH]; simpl; intros H; [constructor|].
  apply andb_true_iff in H. destruct H as [H1 H2]. constructor; [|apply IH; exact H2].
  intros Hin. apply In_mem_id_true in Hin. rewrite Hin in H1. discriminate.
Qed.

Lemma NoDup_later : forall (fds : list fdef) j j' f g, NoDup (map fd_name fds) ->
  (j < j')%nat -> nth_error fds j = Some f -> nth_error fds j' = Some g -> fd_name g <> fd_name f.
Proof.
  intros fds j j' f g Hnd Hlt Hf Hg E.
  assert (H1 : nth_error (map fd_name fds) j = Some (fd_name f)) by (rewrite nth_error_map, Hf; reflexivity).
  assert (H2 : nth_error (map fd_name fds) j' = Some (fd_name f)) by (rewrite nth_error_map, Hg; simpl; rewrite E; reflexivity).
  assert (j = j'); [|lia].
  eapply (proj1 (NoDup_nth_error (map fd_name fds))); eauto.
  - apply nth_error_Some. congruence.
  - congruence.
Qed.

Lemma nth_error_rev_seq' : forall a n i, (i < n)%nat ->
  nth_error (rev (seq a n)) i = Some (a + n - 1 - i)%nat.
Proof. exact nth_error_rev_seq. Qed.

(* the evaluator's recursive environment and the machine's slots agree, at the level after ALLOC, before any
   closure of the run is made (env_match does not look at the heap), whatever vectors will be recorded *)
Lemma env_match_run : forall G IV fc gp gl m e ce sc L stk fds (st : state) (h : list hcell) nv nf ncp,
  env_match G IV fc gp gl m e ce sc L stk ->
  NoDup (map fd_name fds) ->
  (forall f, In f fds -> mem_id (fd_name f) sc = false /\ is_fname (g_sigs G) (fd_name f) = false /\
                         self_is (fc_self fc) (fd_name f) = false /\ mem_id (fd_name f) IV = false) ->
  length (mm m) = length (cells st) ->
  let k := length fds in
  env_match G IV fc gp gl {| mm := mm m ++ map MA (seq (length h) k); mv := mv m ++ nv; mf := mf m ++ nf; mc := mc m ++ ncp; mi := mi m; mar := mar m; mrc := mrc m |}
            (func_env fds (length (cells st)) e) (func_cenv fds (L + 1) ce)
            (map fd_name fds ++ sc) (L + Z.of_nat k) (rev (seq (length h) k) ++ stk).
Proof.
  intros G IV fc gp gl m e ce sc L stk fds st h nv nf ncp Hem Hnd Hnew Hlen k.
  set (m' := {| mm := mm m ++ map MA (seq (length h) k); mv := mv m ++ nv; mf := mf m ++ nf; mc := mc m ++ ncp; mi := mi m; mar := mar m; mrc := mrc m |}).
  assert (He : ext m m') by ext_solve.
  destruct Hem as (H1 & H2 & H3 & H4 & H5 & H6 & H7 & H8).
  assert (Hne : forall y, mem_id y sc = true -> forall f, In f fds -> fd_name f <> y).
  { intros y Hy f Hf E. destruct (Hnew f Hf) as [Hx _]. rewrite E in Hx. congruence. }
  split; [|split; [|split; [|split; [|split; [|split; [|split]]]]]].
  - intros y Hy. rewrite mem_id_app' in Hy. apply orb_true_iff in Hy.
    destruct (mem_id y (map fd_name fds)) eqn:Erun.
    + (* a function of the run *)
      apply mem_id_true_In in Erun. apply in_map_iff in Erun. destruct Erun as (f & <- & Hf).
      destruct (In_nth_error _ _ Hf) as (j & Hj).
      assert (Hjk : (j < k)%nat) by (apply nth_error_Some; congruence).
      exists (length (cells st) + j)%nat, (length h + j)%nat. split; [|split].
      * apply func_env_nth; [exact Hj|]. intros j' g Hlt Hg. eapply NoDup_later; eauto.
      * left. unfold mget, m'. simpl. rewrite nth_error_app2 by lia.
        replace (length (cells st) + j - length (mm m))%nat with j by lia.
        rewrite nth_error_map, (nth_error_nth' _ 0%nat) by (rewrite seq_length; exact Hjk).
        rewrite seq_nth by exact Hjk. reflexivity.
      * unfold access. rewrite (func_cenv_nth fds (L + 1) ce j f Hj)
          by (intros j' g Hlt Hg; eapply NoDup_later; eauto).
        split; [lia|].
        replace (Z.to_nat (L + Z.of_nat k - (L + 1 + Z.of_nat j))) with (k - 1 - j)%nat by lia.
        rewrite nth_error_app1 by (rewrite rev_length, seq_length; lia).
        rewrite nth_error_rev_seq by lia. f_equal. lia.
    + destruct Hy as [Hy | Hy]; [discriminate|].
      destruct (H1 y Hy) as (c & a & Hl & Hm & Hacc). exists c, a. split; [|split].
      * rewrite func_env_other by (apply Hne; exact Hy). exact Hl.
      * eapply vrel_ext; eauto.
      * unfold access in *. rewrite func_cenv_other by (apply Hne; exact Hy).
        destruct (clookup y ce) as [i|]; [|exact Hacc].
        destruct Hacc as [Hle Hn]. split; [lia|].
        replace (Z.to_nat (L + Z.of_nat k - i)) with (k + Z.to_nat (L - i))%nat by lia.
        rewrite nth_error_app2 by (rewrite rev_length, seq_length; lia).
        rewrite rev_length, seq_length. replace (k + Z.to_nat (L - i) - k)%nat with (Z.to_nat (L - i)) by lia.
        exact Hn.
  - intros x c Hl. destruct (lookup_func_env_cases _ _ _ _ _ Hl) as [(f & Hf & <-) | Hl'].
    + apply (proj1 (proj2 (Hnew f Hf))).
    + eapply H2; eauto.
  - intros f fd Hfd. destruct (H3 f fd Hfd) as (cf & A & B). exists cf. split; [exact A | eapply ext_nth; eauto].
  - destruct H4 as [H4 | H4]; [left; exact H4 | right; eapply ext_vec; eauto].
  - intros x i Hc. rewrite mem_id_app'. destruct (clookup_func_cenv_cases _ _ _ _ _ Hc) as [(f & Hf & <-) | Hc'].
    + split; [apply (proj1 (proj2 (Hnew f Hf)))|]. rewrite (In_mem_id_true _ _ (in_map fd_name _ _ Hf)). reflexivity.
    + destruct (H5 x i Hc') as [A B]. split; [exact A|]. rewrite B. apply orb_true_r.
  - intros f Hf0 Hcl. destruct (clookup_func_cenv_none _ _ _ _ Hcl) as [Hnf Hcl0].
    destruct (self_match_ext _ _ _ _ _ _ _ _ _ H6 He f Hf0 Hcl0) as (cf & k0 & sfd & scenv & A & B).
    exists cf, k0, sfd, scenv. split; [|exact B]. rewrite func_env_other by exact Hnf. exact A.
  - intros f Hf0. rewrite mem_id_app'. rewrite (H7 f Hf0), orb_false_r.
    destruct (mem_id f (map fd_name fds)) eqn:Em; [|reflexivity]. exfalso.
    apply mem_id_true_In in Em. apply in_map_iff in Em. destruct Em as (g0 & E & Hg0).
    destruct (Hnew g0 Hg0) as (_ & _ & Hx & _). unfold self_is in Hx. rewrite Hf0, E, N.eqb_refl in Hx. discriminate.
  - intros x c Hys Hx Hl. rewrite mem_id_app' in Hys. destruct (mem_id x (map fd_name fds)) eqn:Em.
    + exfalso. apply mem_id_true_In in Em. apply in_map_iff in Em. destruct Em as (f & E & Hf).
      destruct (Hnew f Hf) as (_ & _ & _ & Hy). rewrite E in Hy. congruence.
    + cbn [orb] in Hys. destruct (lookup_func_env_cases _ _ _ _ _ Hl) as [(f & Hf & E) | Hl'].
      * exfalso. destruct (Hnew f Hf) as (_ & _ & _ & Hy). rewrite E in Hy. congruence.
      * eapply ext_mi; [exact He | eapply H8; eauto].
Qed.

(* ---- small arithmetic facts ---------------------------------------------------------------- *)

Lemma wrap32_small : forall z, int_lit_ok z = true -> wrap32 z = z.
Proof.
  intros z H. unfold int_lit_ok in H. apply andb_true_iff in H. destruct H as [H1 H2].
  apply Z.leb_le in H1, H2. unfold wrap32. rewrite Z.mod_small by lia. lia.
Qed.

Lemma jump_target_fwd : forall ip off, 0 <= off ->
  jump_target ip off = Some (ip + 1 + Z.to_nat off)%nat.
Proof.
  intros ip off H. unfold jump_target.
  destruct (Z.of_nat ip + 1 + off <? 0) eqn:E; [apply Z.ltb_lt in E; lia|].
  f_equal. lia.
Qed.
