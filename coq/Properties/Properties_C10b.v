(* C10, continued — "enum values": the int the compiler assigns to every enumerator of a set
   of enum declarations (plain `Id`, valued `Id = <expr>`, record style `Id { ... }`; default
   numbering previous+1; initialisers may refer to enumerators declared before or AFTER, in
   the same or in another enum).

   Only statements here; every proof is `exact <lemma>` into Arith/EnumIndexProofs.v.
   index_of E k   = the index front/enumred.c computes for enumerator k of the equation
                    system E (Arith/EnumIndex.v: written from never_add_enumerator,
                    expr_enumerator_enumred, enumerator_index_enumred); bodies are evaluated by
                    Enumred.efold, the evaluator the other C10 theorems are about
   decl_indices   = the same for a whole list of enum declarations + the distinctness check
   The extracted decl_indices runs against the real compiler on generated enum sets
   (checks/c10.py, family `enumdecl`), and every enumerator read back at run time is compared
   with its initialiser evaluated by the VM on variables. *)
From Coq Require Import ZArith Bool List Permutation Relations.
From NV Require Import Arith.NumTy Arith.Promote Arith.Constred Arith.Enumred Arith.EnumIndex
  Arith.EnumIndexProofs.
Import ListNotations.

(* evaluation terminates, whatever the references look like (cyclic systems included) *)
Theorem enum_index_terminates : forall E k, index_of E k <> XFuel.
Proof. exact EnumIndexProofs.no_fuel_needed. Qed.
Print Assumptions enum_index_terminates.

(* the indices satisfy the declarations read as equations ... *)
Theorem enum_index_satisfies_its_initialiser : forall E k z,
  index_of E k = XOk z ->
  exists body, lookup E k = Some body /\ eval_body (index_of E) body = XOk z.
Proof. exact EnumIndexProofs.index_fixpoint. Qed.
Print Assumptions enum_index_satisfies_its_initialiser.

(* ... and are the only values doing so: no dependence on the visiting order *)
Theorem enum_index_is_the_unique_solution : forall E rho k z,
  solution E rho -> index_of E k = XOk z -> rho k = z.
Proof. exact EnumIndexProofs.index_unique. Qed.
Print Assumptions enum_index_is_the_unique_solution.

(* forward = backward: reordering the equations changes no index *)
Theorem enum_index_independent_of_declaration_order : forall E E' k,
  Permutation E E' -> NoDup (map fst E) -> index_of E k = index_of E' k.
Proof. exact EnumIndexProofs.index_order_independent. Qed.
Print Assumptions enum_index_independent_of_declaration_order.

(* the index does not depend on what was being reduced when it was asked for, nor on fuel *)
Theorem enum_index_stable : forall f E st k z,
  resolve f E st k = XOk z ->
  forall f' st', (f <= f')%nat -> incl st' st -> resolve f' E st' k = XOk z.
Proof. exact EnumIndexProofs.resolve_stable. Qed.
Print Assumptions enum_index_stable.

(* "cyclic reference detected" is reported only if there is a dependency cycle below k ... *)
Theorem cyclic_reference_reported_only_for_cycles : forall E k,
  index_of E k = XCyclic -> exists k1, reaches E k k1 /\ on_cycle E k1.
Proof. exact EnumIndexProofs.cyclic_reported_sound. Qed.
Print Assumptions cyclic_reference_reported_only_for_cycles.

(* ... and an enumerator on or above a cycle never silently gets an index *)
Theorem enumerator_above_a_cycle_gets_no_index : forall E k k1 z,
  reaches E k k1 -> on_cycle E k1 -> index_of E k <> XOk z.
Proof. exact EnumIndexProofs.cyclic_never_ok. Qed.
Print Assumptions enumerator_above_a_cycle_gets_no_index.

(* the seeded situation: a forward reference to a record-style enumerator *)
Example forward_reference_to_record_enumerator :
  decl_indices [[ItValue (XBin Mul (XRef (0, 2)%nat) (XLit (LInt 10)));
                 ItValue (XLit (LInt 7)); ItRecord;
                 ItValue (XBin Add (XRef (0, 2)%nat) (XLit (LInt 1)))]]
  = DOk [[80; 7; 8; 9]%Z].
Proof. exact EnumIndexProofs.forward_record_reference. Qed.
