(* Mem/TraceMonitorProofs.v — the monitor decides the declarative trace semantics (C16).
   Simulation invariant [Rel] between the monitor's maps and the live set of [run];
   [step] is deterministic, so the live set reached by a trace is unique.  No axioms. *)
From Coq Require Import NArith Bool List Lia.
From NV Require Import Base.TMap Mem.TraceMonitor.
Import ListNotations.
Local Open Scope N_scope.

Record Rel (s : mstate) (L : lset) : Prop := {
  r_live : forall q, tget (m_live s) q = true <-> L q;
  r_seen : forall q, tget (m_live s) q = true -> tget (m_seen s) q = true;
  r_ids : forall q, tget (m_seen s) q = true <-> In q (m_ids s);
  r_nodup : NoDup (m_ids s)
}.

Lemma rel_init : Rel m_init lempty.
Proof.
  constructor; cbn.
  - intros q. rewrite tget_init. split; [discriminate|intros []].
  - intros q H. exact H.
  - intros q. rewrite tget_init. split; [discriminate|intros []].
  - constructor.
Qed.

Lemma step_det L e L1 L2 : step L e L1 -> step L e L2 -> L1 = L2.
Proof. intros H1 H2. inversion H1; inversion H2; subst. reflexivity. Qed.

Lemma run_det : forall tr L L1 L2, run L tr L1 -> run L tr L2 -> L1 = L2.
Proof.
  induction tr as [|e tr IH]; intros L L1 L2 H1 H2; inversion H1; inversion H2; subst.
  - reflexivity.
  - match goal with A : step L e ?X, B : step L e ?Y |- _ => pose proof (step_det _ _ _ _ A B); subst end.
    eapply IH; eauto.
Qed.

Lemma kill_rel s L o : Rel s L -> Rel (m_kill s o) (ldel L o).
Proof.
  intros [H1 H2 H3 H4]. constructor; cbn; auto.
  - intros q. rewrite tget_set. unfold ldel. destruct (N.eqb_spec o q) as [->|Hne].
    + split; [discriminate|intros [C _]; congruence].
    + rewrite H1. split; [intros; split; auto|tauto].
  - intros q. rewrite tget_set. destruct (N.eqb_spec o q); [discriminate|auto].
Qed.

Lemma acquire_sim s L o : Rel s L ->
  match m_acquire s o with
  | inl s' => may_acquire L o /\ Rel s' (acquire L o)
  | inr _ => ~ may_acquire L o
  end.
Proof.
  intros R. destruct o as [p|]; cbn; [|split; [exact I|exact R]].
  destruct R as [H1 H2 H3 H4].
  destruct (tget (m_live s) p) eqn:El.
  - intros C. apply C. now apply H1.
  - split.
    + intros C. apply H1 in C. congruence.
    + constructor; cbn.
      * intros q. rewrite tget_set. unfold ladd. destruct (N.eqb_spec p q) as [->|Hne].
        -- split; auto.
        -- rewrite H1. split; [auto|]. intros [C|C]; [congruence|exact C].
      * intros q. rewrite !tget_set. destruct (N.eqb_spec p q); auto.
      * intros q. rewrite tget_set. destruct (N.eqb_spec p q) as [->|Hne].
        -- split; [intros _|reflexivity].
           destruct (tget (m_seen s) q) eqn:Es; [now apply H3|now left].
        -- rewrite H3. destruct (tget (m_seen s) p); [reflexivity|].
           cbn. split; [auto|]. intros [C|C]; [congruence|exact C].
      * destruct (tget (m_seen s) p) eqn:Es; [exact H4|].
        constructor; [|exact H4]. intros C. apply H3 in C. congruence.
Qed.

Lemma mstep_sim s L e : Rel s L ->
  match mstep s e with
  | inl s' => exists L', step L e L' /\ Rel s' L'
  | inr _ => forall L', ~ step L e L'
  end.
Proof.
  intros R. unfold mstep. destruct (rel e) as [o|] eqn:Er.
  - destruct (tget (m_live s) o) eqn:El.
    + assert (Lo : L o) by (apply (r_live _ _ R); exact El).
      pose proof (acquire_sim (m_kill s o) (ldel L o) (acq e) (kill_rel s L o R)) as A.
      destruct (m_acquire (m_kill s o) (acq e)) as [s'|err].
      * destruct A as [Ha Rs]. exists (acquire (ldel L o) (acq e)). split; [|exact Rs].
        pose proof (step_intro L e) as S. rewrite Er in S. cbn in S. apply S; assumption.
      * intros L' S. inversion S; subst. rewrite Er in *. cbn in *. contradiction.
    + intros L' S. inversion S; subst. rewrite Er in *. cbn in *.
      match goal with H : L o |- _ => apply (r_live _ _ R) in H end. congruence.
  - pose proof (acquire_sim s L (acq e) R) as A.
    destruct (m_acquire s (acq e)) as [s'|err].
    + destruct A as [Ha Rs]. exists (acquire L (acq e)). split; [|exact Rs].
      pose proof (step_intro L e) as S. rewrite Er in S. cbn in S. apply S; [exact I|assumption].
    + intros L' S. inversion S; subst. rewrite Er in *. cbn in *. contradiction.
Qed.

Lemma mrun_sim : forall tr s L pos, Rel s L ->
  match mrun s tr pos with
  | inl s' => exists L', run L tr L' /\ Rel s' L'
  | inr _ => forall L', ~ run L tr L'
  end.
Proof.
  induction tr as [|e tr IH]; intros s L pos R; cbn.
  - exists L. split; [constructor|exact R].
  - pose proof (mstep_sim s L e R) as M. destruct (mstep s e) as [s1|err].
    + destruct M as [L1 [S1 R1]]. specialize (IH s1 L1 (S pos) R1).
      destruct (mrun s1 tr (S pos)) as [s2|[p er]].
      * destruct IH as [L2 [Hr R2]]. exists L2. split; [econstructor; eauto|exact R2].
      * intros L' Hr. inversion Hr; subst.
        match goal with A : step L e ?X |- _ => pose proof (step_det _ _ _ _ S1 A); subst end.
        eapply IH; eauto.
    + intros L' Hr. inversion Hr; subst. eapply M; eauto.
Qed.

Lemma leaked_spec s L : Rel s L -> forall q, In q (leaked s) <-> L q.
Proof.
  intros R q. unfold leaked. rewrite rev_append_rev, app_nil_r, filter_In, <- in_rev. split.
  - intros [_ H]. now apply (r_live _ _ R).
  - intros H. apply (r_live _ _ R) in H. split; [|exact H].
    apply (r_ids _ _ R). now apply (r_seen _ _ R).
Qed.

Lemma leaked_nodup s L : Rel s L -> NoDup (leaked s).
Proof.
  intros R. unfold leaked. rewrite rev_append_rev, app_nil_r.
  apply NoDup_filter. apply NoDup_rev. exact (r_nodup _ _ R).
Qed.

(* the monitor accepts exactly the traces in which every free/realloc hits a block live at
   that moment, no allocation returns a live block, and nothing is live at the end *)
Theorem monitor_sound_complete : forall tr, monitor tr = Accept <-> balanced tr.
Proof.
  intros tr. unfold monitor, balanced.
  pose proof (mrun_sim tr m_init lempty 0%nat rel_init) as M.
  destruct (mrun m_init tr 0) as [s|[pos err]].
  - destruct M as [L [Hr R]]. pose proof (leaked_spec s L R) as LS.
    destruct (leaked s) as [|x l] eqn:El.
    + split; [intros _|reflexivity]. exists L. split; [exact Hr|].
      intros q Hq. apply LS in Hq. destruct Hq.
    + split; [discriminate|]. intros [L' [Hr' Hd]].
      pose proof (run_det _ _ _ _ Hr Hr'); subst L'.
      exfalso. apply (Hd x). apply LS. now left.
  - split; [discriminate|]. intros [L [Hr _]]. exfalso. eapply M; eauto.
Qed.

(* a Leak verdict lists exactly the blocks live at the end, each once *)
Theorem monitor_leak_exact : forall tr l, monitor tr = Leak l ->
  exists L, run lempty tr L /\ (forall q, In q l <-> L q) /\ NoDup l /\ l <> [].
Proof.
  intros tr l. unfold monitor.
  pose proof (mrun_sim tr m_init lempty 0%nat rel_init) as M.
  destruct (mrun m_init tr 0) as [s|[pos err]]; [|discriminate].
  destruct M as [L [Hr R]]. pose proof (leaked_spec s L R) as LS.
  pose proof (leaked_nodup s L R) as ND.
  destruct (leaked s) as [|x r] eqn:El; [discriminate|].
  intros E. inversion E; subst l. exists L. repeat split; auto; try apply LS; try discriminate.
Qed.

(* a Reject verdict means the trace cannot be executed at all *)
Theorem monitor_reject_sound : forall tr pos err, monitor tr = Reject pos err ->
  forall L, ~ run lempty tr L.
Proof.
  intros tr pos err. unfold monitor.
  pose proof (mrun_sim tr m_init lempty 0%nat rel_init) as M.
  destruct (mrun m_init tr 0) as [s|[p e]].
  - destruct (leaked s); discriminate.
  - intros _. exact M.
Qed.

(* ---- examples: the hypotheses are satisfiable and every verdict occurs ------------------ *)
Example ex_accept : monitor [Malloc 1 8; Strdup 2; Realloc 1 3 16; Free 2; Free 0; Free 3] = Accept.
Proof. vm_compute. reflexivity. Qed.
Example ex_reuse : monitor [Malloc 1 8; Free 1; Calloc 1 4; Realloc 0 2 4; Free 1; Realloc 2 0 0] = Accept.
Proof. vm_compute. reflexivity. Qed.
Example ex_double_free : monitor [Malloc 1 8; Free 1; Free 1] = Reject 2 (DoubleFree 1).
Proof. vm_compute. reflexivity. Qed.
Example ex_free_unknown : monitor [Malloc 1 8; Free 7] = Reject 1 (FreeUnknown 7).
Proof. vm_compute. reflexivity. Qed.
Example ex_realloc_dead : monitor [Malloc 1 8; Free 1; Realloc 1 2 9] = Reject 2 (ReallocDead 1).
Proof. vm_compute. reflexivity. Qed.
Example ex_leak : monitor [Malloc 1 8; Strdup 2; Malloc 3 1; Free 2] = Leak [1; 3].
Proof. vm_compute. reflexivity. Qed.
Example ex_balanced : balanced [Malloc 1 8; Free 1].
Proof. apply monitor_sound_complete. vm_compute. reflexivity. Qed.
