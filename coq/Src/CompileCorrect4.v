(* Src/CompileCorrect3.v — compiler correctness on the machine WITH FRAMES (VM/ValueVM4.v) for the
   code of Src/Compile4.v, all three levels of the fragment (stage 3 of Src/CompileCorrect.v, whose
   theorems on the frameless machine of stages 1-2 stay).

   By one induction on the evaluator's fuel (`spec_all`), jointly for
     expr_spec     an expression anywhere in a function of a program that is laid out as the function
                   table says (`pcode_at`): `eval` yields cell c => the VM reaches the end of the
                   block with the image of c pushed and the frame registers (fp, exception, suspended
                   activations) unchanged; `eval` raises => the exception has been DISPATCHED: ip =
                   exception_tab_search(address of the faulting instruction), machine->exception set,
                   registers otherwise unchanged (`raises`)
     items_spec, while_spec, dowhile_spec   blocks and loops (as in stages 1-2)
     tail_spec, titems_spec   expressions / blocks in TAIL POSITION of a function (cexpr (Some f) true):
                   as above, or the whole activation has already RETurned to / RETHROWn at its caller
                   (`returned`, `rethrown`) — through a self tail call `args; f; SLIDE; CALL` that
                   reuses the frame (`tcase_ECall`)
   and, derived at each fuel, body_spec: one activation of a program function from FUNC_DEF to the
   state after its RET (result on the caller's stack, caller's registers restored) or after its
   LABEL; RETHROW (exception re-raised at the caller's CALL).
   Calls (`case_ECall`): MARK pushes the five header words, the arguments are evaluated right to left
   at levels L+5, L+6, … (`args_spec_of`), GLOBAL_VEC 0; ID_FUNC_ADDR f; CALL suspend the caller
   (`enter_call`), body_spec runs the callee, LABEL continues; a fault inside an argument unwinds the
   pending header through the function's LABEL; RETHROW and re-raises at the CALL (`unwind_pending`);
   a fault inside the callee comes back through RETHROW.  print(e) is the call of the stdlib body
   FUNC_DEF; ID_LOCAL 0 0; BUILD_IN print; RET (`case_EPrint`).
   Theorem compile_expr_correct_frames; whole programs (layout facts, entry stub,
   compile_program_correct_F3) are in Src/CompileCorrect3Prog.v.  No axioms. *)
From Coq Require Import ZArith List Bool Lia.
From NV Require Import Gen.Opcodes Verifier.Effect Src.Syntax Src.Eval Src.EvalLemmas Src.EvalProps
  VM.ValueVM4 Src.Compile4 Src.CompileCorrect4Base Src.CompileCorrect4Rel Src.CompileCorrect4Shape.
Import ListNotations.
Local Open Scope Z_scope.

Ltac inv H := inversion H; subst; clear H.

Section Correct.
Variable X : xinfo.          (* exception table, entry address, arguments, function table *)
Variable G : ginfo.          (* the program's functions and the evaluator's genv *)
Variable lv : nat.           (* fragment level *)
Let genv : env := g_genv G.
Let FS : fsigs := g_sigs G.
Let FT : list ident := map (fun kf => fd_name (snd kf)) (g_all G).
Let TL : list ident := g_tl G.
Let cp : bool := Nat.leb 6 lv.   (* level 6: copies of function objects, assignment only to int vars *)
Let IV : list ident := CompileCorrect4Rel.ivs (g_all G) cp.
Let rcn : bool := Nat.leb 8 lv.   (* level 8: nil records *)

Local Notation step := (ValueVM4.step X).
Local Notation star := (ValueVM4.star X).
Local Notation star_one := (CompileCorrect4Base.star_one X).
Local Notation star_trans := (CompileCorrect4Base.star_trans X).
Local Notation star_snoc := (CompileCorrect4Rel.star_snoc X).
Local Notation in_F := (Compile4.in_F FS TL (g_all G)).
Local Notation items_F := (Compile4.items_F FS TL (g_all G)).
Local Notation compile_expr := (Compile4.compile_expr FT TL).
Local Notation compile_items := (Compile4.compile_items0 FT TL).
Local Notation compile_block := (Compile4.compile_block FT TL).
Local Notation compile_items_let := (Compile4.compile_items_let FT TL).
Local Notation compile_items_var := (Compile4.compile_items_var FT TL).
Local Notation compile_items_expr := (Compile4.compile_items_expr FT TL).
Local Notation compile_for := (Compile4.compile_for FT TL).
Local Notation MS := (CompileCorrect4Rel.MS (g_all G) (x_ftab X) TL FS cp rcn).
Local Notation MS_fresh := (CompileCorrect4Rel.MS_fresh (g_all G) (x_ftab X) TL FS cp rcn).
Local Notation MS_alloc := (CompileCorrect4Rel.MS_alloc (g_all G) (x_ftab X) TL FS cp rcn).
Local Notation MS_alloc_gen := (CompileCorrect4Rel.MS_alloc_gen (g_all G) (x_ftab X) TL FS cp rcn).
Local Notation MS_assign := (CompileCorrect4Rel.MS_assign (g_all G) (x_ftab X) TL FS cp rcn).
Local Notation MS_payload_int := (CompileCorrect4Rel.MS_payload_int (g_all G) (x_ftab X) TL FS cp rcn).
Local Notation MS_payload_bool := (CompileCorrect4Rel.MS_payload_bool (g_all G) (x_ftab X) TL FS cp rcn).
Local Notation MS_payload_cell := (CompileCorrect4Rel.MS_payload_cell (g_all G) (x_ftab X) TL FS cp rcn).
Local Notation nil_cmp_mapped := (CompileCorrect4Rel.nil_cmp_mapped (g_all G) (x_ftab X) TL FS cp rcn).
Local Notation MS_addr_lt := (CompileCorrect4Rel.MS_addr_lt (g_all G) (x_ftab X) TL FS cp rcn).
Local Notation MS_vec_lt := (CompileCorrect4Rel.MS_vec_lt (g_all G) (x_ftab X) TL FS cp rcn).
Local Notation ms_rel := (CompileCorrect4Rel.ms_rel (g_all G) (x_ftab X) TL FS cp rcn).
Local Notation ms_inj := (CompileCorrect4Rel.ms_inj (g_all G) (x_ftab X) TL FS cp rcn).
Local Notation ms_len := (CompileCorrect4Rel.ms_len (g_all G) (x_ftab X) TL FS cp rcn).
Local Notation ms_fun := (CompileCorrect4Rel.ms_fun (g_all G) (x_ftab X) TL FS cp rcn).
Local Notation ms_fcl := (CompileCorrect4Rel.ms_fcl (g_all G) (x_ftab X) TL FS cp rcn).
Local Notation ms_fself := (CompileCorrect4Rel.ms_fself (g_all G) (x_ftab X) TL FS cp rcn).
Local Notation ms_vec := (CompileCorrect4Rel.ms_vec (g_all G) (x_ftab X) TL FS cp rcn).
Local Notation MS_closure := (CompileCorrect4Rel.MS_closure (g_all G) (x_ftab X) TL FS cp rcn).
Local Notation MS_run := (CompileCorrect4Rel.MS_run (g_all G) (x_ftab X) TL FS cp rcn).
Local Notation MS_copy := (CompileCorrect4Rel.MS_copy (g_all G) (x_ftab X) TL FS cp rcn).
Local Notation ms_cp := (CompileCorrect4Rel.ms_cp (g_all G) (x_ftab X) TL FS cp rcn).
Local Notation ms_nocp := (CompileCorrect4Rel.ms_nocp (g_all G) (x_ftab X) TL FS cp rcn).
Local Notation ms_int := (CompileCorrect4Rel.ms_int (g_all G) (x_ftab X) TL FS cp rcn).
Local Notation MS_addint := (CompileCorrect4Rel.MS_addint (g_all G) (x_ftab X) TL FS cp rcn).
Local Notation MS_newarr := (CompileCorrect4Rel.MS_newarr (g_all G) (x_ftab X) TL FS cp rcn).
Local Notation ms_arr := (CompileCorrect4Rel.ms_arr (g_all G) (x_ftab X) TL FS cp rcn).
Local Notation ms_arrmi := (CompileCorrect4Rel.ms_arrmi (g_all G) (x_ftab X) TL FS cp rcn).
Local Notation ms_noarr := (CompileCorrect4Rel.ms_noarr (g_all G) (x_ftab X) TL FS cp rcn).
Local Notation MS_newrec := (CompileCorrect4Rel.MS_newrec (g_all G) (x_ftab X) TL FS cp rcn).
Local Notation ms_rec := (CompileCorrect4Rel.ms_rec (g_all G) (x_ftab X) TL FS cp rcn).
Local Notation ms_recmi := (CompileCorrect4Rel.ms_recmi (g_all G) (x_ftab X) TL FS cp rcn).
Local Notation ms_norec := (CompileCorrect4Rel.ms_norec (g_all G) (x_ftab X) TL FS cp rcn).
Local Notation ms_nonil := (CompileCorrect4Rel.ms_nonil (g_all G) (x_ftab X) TL FS cp rcn).
Local Notation vrel_rec := (CompileCorrect4Rel.vrel_rec (g_all G) (x_ftab X) TL FS cp rcn).
Local Notation vrel_nil := (CompileCorrect4Rel.vrel_nil (g_all G) (x_ftab X) TL FS cp rcn).
Local Notation vrel_fun := (CompileCorrect4Rel.vrel_fun (g_all G) (x_ftab X) TL FS cp rcn).
Local Notation vrel_intv := (CompileCorrect4Rel.vrel_intv (g_all G) (x_ftab X) TL FS cp rcn).
Local Notation vrel_kind := (CompileCorrect4Rel.vrel_kind (g_all G) (x_ftab X) TL FS cp rcn).
Local Notation vrel_arr := (CompileCorrect4Rel.vrel_arr (g_all G) (x_ftab X) TL FS cp rcn).
Local Notation fun_addr := (CompileCorrect4Rel.fun_addr (g_all G) (x_ftab X)).
Local Notation cell_rel_intv := (CompileCorrect4Rel.cell_rel_intv (g_all G) (x_ftab X) TL FS).
Local Notation env_match_g := (CompileCorrect4Rel.env_match G IV).
Local Notation env_match_ext := (CompileCorrect4Rel.env_match_ext G IV).
Local Notation env_match_push := (CompileCorrect4Rel.env_match_push G IV).
Local Notation env_match_bind := (CompileCorrect4Rel.env_match_bind G IV).

(* ---- what the proofs need to know about the program the code sits in ------------------------- *)

Definition faddr (k : nat) : nat := nth k (x_ftab X) 0%nat.

(* a level-6 condition of the fragment, for a name that may be assigned to *)
Lemma at6_iv : forall b x, at6 lv b = true -> mem_id x IV = true ->
  mem_id x (int_vars (g_all G)) = true /\ b = true.
Proof.
  intros b x H Hx. unfold IV, CompileCorrect4Rel.ivs, cp in Hx. unfold at6 in H.
  destruct (Nat.leb 6 lv) eqn:E6; [|simpl in Hx; discriminate Hx].
  assert (E5 : Nat.leb lv 5 = false) by (apply Nat.leb_le in E6; apply Nat.leb_gt; lia).
  rewrite E5 in H. split; [exact Hx | exact H].
Qed.

Definition print_body : list rinstr := std_body (1%nat, lib_math_print).

(* the stdlib function print and every function of the program are where the function table says,
   and the exception table sends every address of a segment of a program function (the body, each
   catch clause) to the LABEL that ends the segment *)
Record prog_ok (prog : list rinstr) : Prop := {
  po_print : CompileCorrect4Base.code_at prog (faddr 13) print_body;
  po_top : forall k fd, nth_error (g_funcs G) k = Some fd -> nth_error (g_all G) k = Some (KTop, fd);
  po_top_inv : forall k fd, nth_error (g_all G) k = Some (KTop, fd) -> nth_error (g_funcs G) k = Some fd;
  po_find : forall k fd, nth_error (g_funcs G) k = Some fd -> find_func (fd_name fd) (g_funcs G) = Some fd;
  po_fidx : forall f kidx fd, nth_error (g_funcs G) kidx = Some fd ->
            fpos f (map fd_name (g_funcs G)) 0 = Some (0 + Z.of_nat kidx) ->
            Compile4.fidx FT f = Z.of_nat (nstd + kidx);
  po_named : forall kk kd fd, nth_error (g_all G) kk = Some (kd, fd) ->
             Compile4.fidx FT (fd_name fd) = Z.of_nat (nstd + kk);
  po_nz13 : faddr 13 <> 0%nat;
  po_nz : forall k kf, nth_error (g_all G) k = Some kf -> faddr (nstd + k) <> 0%nat;
  po_fun : forall k kf, nth_error (g_all G) k = Some kf ->
           CompileCorrect4Base.code_at prog (faddr (nstd + k)) (compile_func FT TL kf);
  po_tab : forall k kf pre seg post i, nth_error (g_all G) k = Some kf ->
           fsegs FT TL kf = pre ++ seg :: post ->
           (faddr (nstd + k) + length (concat pre) <= i <
            faddr (nstd + k) + length (concat pre) + length seg)%nat ->
           hsearch (x_tab X) i 0 = (faddr (nstd + k) + length (concat pre) + length seg - 1)%nat
}.

Definition pcode_at (prog : list rinstr) (pc : nat) (c : list rinstr) : Prop :=
  CompileCorrect4Base.code_at prog pc c /\ prog_ok prog.

Lemma pcode_at_app_l : forall prog pc c1 c2, pcode_at prog pc (c1 ++ c2) -> pcode_at prog pc c1.
Proof. intros prog pc c1 c2 (H & Hp). split; [eapply CompileCorrect4Base.code_at_app_l; eauto | exact Hp]. Qed.

Lemma pcode_at_app_r : forall prog pc c1 c2, pcode_at prog pc (c1 ++ c2) ->
  pcode_at prog (pc + length c1)%nat c2.
Proof. intros prog pc c1 c2 (H & Hp). split; [eapply CompileCorrect4Base.code_at_app_r; eauto | exact Hp]. Qed.

Lemma pcode_at_head : forall prog pc i c, pcode_at prog pc (i :: c) -> nth_error prog pc = Some i.
Proof. intros prog pc i c (H & _). eapply CompileCorrect4Base.code_at_head; eauto. Qed.

Lemma pcode_at_tail : forall prog pc i c, pcode_at prog pc (i :: c) -> pcode_at prog (S pc) c.
Proof. intros prog pc i c (H & Hp). split; [eapply CompileCorrect4Base.code_at_tail; eauto | exact Hp]. Qed.

Local Notation code_at := pcode_at.
Local Notation code_at_app_l := pcode_at_app_l.
Local Notation code_at_app_r := pcode_at_app_r.
Local Notation code_at_head := pcode_at_head.
Local Notation code_at_tail := pcode_at_tail.

Section Frame.
Variable fr : fregs.         (* the registers fp / gp / exception and the suspended activations *)
Variable fc : fctx.          (* the function whose code this is: own name if named nested, free variables *)
Variable gl : list nat.      (* the content of its environment vector (r_gp fr) *)
Local Notation mkst ip stk h o := (ValueVM4.mkst ip stk h o fr).
Local Notation env_match := (CompileCorrect4Rel.env_match G IV fc (r_gp fr) gl).

(* ---- single steps ---------------------------------------------------------------------- *)

Lemma step_int : forall prog ip stk h o z w,
  nth_error prog ip = Some (ins BYTECODE_INT z w) ->
  step prog (mkst ip stk h o) = SNext (mkst (S ip) (length h :: stk) (h ++ [HInt z]) o).
Proof. intros. unfold ValueVM4.step. simpl. rewrite H. reflexivity. Qed.

Lemma step_id_local : forall prog ip stk h o L i a,
  nth_error prog ip = Some (ins BYTECODE_ID_LOCAL L i) -> i <= L ->
  nth_error stk (Z.to_nat (L - i)) = Some a ->
  step prog (mkst ip stk h o) = SNext (mkst (S ip) (a :: stk) h o).
Proof.
  intros. unfold ValueVM4.step. simpl. rewrite H. simpl. unfold zn.
  destruct (L - i <? 0) eqn:E; [apply Z.ltb_lt in E; lia|]. rewrite H1. reflexivity.
Qed.

Lemma step_neg : forall prog ip a stk h o z,
  nth_error prog ip = Some (ins0 BYTECODE_OP_NEG_INT) -> hint h a = Some z ->
  step prog (mkst ip (a :: stk) h o) = SNext (mkst (S ip) (length h :: stk) (h ++ [HInt (wrap32 (- z))]) o).
Proof. intros. unfold ValueVM4.step. simpl. rewrite H. simpl. rewrite H0. reflexivity. Qed.

Lemma step_not : forall prog ip a stk h o z,
  nth_error prog ip = Some (ins0 BYTECODE_OP_NOT_INT) -> hint h a = Some z ->
  step prog (mkst ip (a :: stk) h o) = SNext (mkst (S ip) (length h :: stk) (h ++ [HInt (b2z (z =? 0))]) o).
Proof. intros. unfold ValueVM4.step. simpl. rewrite H. simpl. rewrite H0. reflexivity. Qed.

Lemma step_binop : forall prog ip stk h o op ab aa za zb,
  f1_binop op = true ->
  nth_error prog ip = Some (ins0 (binop_opcode op)) ->
  hint h aa = Some za -> hint h ab = Some zb ->
  step prog (mkst ip (ab :: aa :: stk) h o) =
  match vm_binop (binop_opcode op) za zb with
  | Some (BVal v) => SNext (mkst (S ip) (length h :: stk) (h ++ [HInt v]) o)
  | Some BDivZero => SNext (ValueVM4.mkst (hsearch (x_tab X) ip 0) (ab :: aa :: stk) h o (set_exc fr ExDivision))
  | None => SStuck
  end.
Proof.
  intros prog ip stk h o op ab aa za zb Hop Hn Ha Hb.
  destruct op; try discriminate Hop; unfold ValueVM4.step; simpl; rewrite Hn; simpl; rewrite Ha, Hb; reflexivity.
Qed.

Lemma step_ass : forall prog ip ar al stk h o z,
  nth_error prog ip = Some (ins0 BYTECODE_OP_ASS_INT) -> hint h ar = Some z ->
  (al < length h)%nat ->
  step prog (mkst ip (ar :: al :: stk) h o) = SNext (mkst (S ip) (al :: stk) (list_upd h al (HInt z)) o).
Proof.
  intros. unfold ValueVM4.step. simpl. rewrite H. simpl. rewrite H0.
  apply Nat.ltb_lt in H1. rewrite H1. reflexivity.
Qed.

Lemma step_jumpz_zero : forall prog ip a stk h o off w,
  nth_error prog ip = Some (ins BYTECODE_JUMPZ off w) -> hint h a = Some 0 -> 0 <= off ->
  step prog (mkst ip (a :: stk) h o) = SNext (mkst (ip + 1 + Z.to_nat off) stk h o).
Proof.
  intros. unfold ValueVM4.step. simpl. rewrite H. simpl. rewrite H0. simpl.
  rewrite jump_target_fwd by assumption. reflexivity.
Qed.

Lemma step_jumpz_nonzero : forall prog ip a stk h o off w z,
  nth_error prog ip = Some (ins BYTECODE_JUMPZ off w) -> hint h a = Some z -> z <> 0 ->
  step prog (mkst ip (a :: stk) h o) = SNext (mkst (S ip) stk h o).
Proof.
  intros. unfold ValueVM4.step. simpl. rewrite H. simpl. rewrite H0.
  destruct (z =? 0) eqn:E; [apply Z.eqb_eq in E; contradiction|]. reflexivity.
Qed.

Lemma step_jump_fwd : forall prog ip stk h o off w,
  nth_error prog ip = Some (ins BYTECODE_JUMP off w) -> 0 <= off ->
  step prog (mkst ip stk h o) = SNext (mkst (ip + 1 + Z.to_nat off) stk h o).
Proof.
  intros. unfold ValueVM4.step. simpl. rewrite H. simpl. rewrite jump_target_fwd by assumption. reflexivity.
Qed.

Lemma step_label : forall prog ip stk h o,
  nth_error prog ip = Some (ins0 BYTECODE_LABEL) ->
  step prog (mkst ip stk h o) = SNext (mkst (S ip) stk h o).
Proof. intros. unfold ValueVM4.step. simpl. rewrite H. reflexivity. Qed.

Lemma step_line : forall prog ip stk h o,
  nth_error prog ip = Some (ins0 BYTECODE_LINE) ->
  step prog (mkst ip stk h o) = SNext (mkst (S ip) stk h o).
Proof. intros. unfold ValueVM4.step. simpl. rewrite H. reflexivity. Qed.

Lemma step_func_def : forall prog ip stk h o,
  nth_error prog ip = Some (ins0 BYTECODE_FUNC_DEF) ->
  step prog (mkst ip stk h o) = SNext (mkst (S ip) stk h o).
Proof. intros. unfold ValueVM4.step. simpl. rewrite H. reflexivity. Qed.

Lemma step_slide_pop : forall prog ip a stk h o,
  nth_error prog ip = Some (ins BYTECODE_SLIDE 1 0) ->
  step prog (mkst ip (a :: stk) h o) = SNext (mkst (S ip) stk h o).
Proof. intros. unfold ValueVM4.step. simpl. rewrite H. reflexivity. Qed.

Lemma zn_nonneg : forall z, 0 <= z -> zn z = Some (Z.to_nat z).
Proof. intros. unfold zn. destruct (z <? 0) eqn:E; [apply Z.ltb_lt in E; lia|]. reflexivity. Qed.

Lemma step_slide_block : forall prog ip a locals stk h o n,
  nth_error prog ip = Some (ins BYTECODE_SLIDE n 1) -> 0 < n -> Z.of_nat (length locals) = n ->
  step prog (mkst ip (a :: locals ++ stk) h o) = SNext (mkst (S ip) (a :: stk) h o).
Proof.
  intros prog ip a locals stk h o n H Hn Hl. unfold ValueVM4.step. simpl v_ip. rewrite H.
  cbn [r_op ins r_w0 r_w1]. rewrite (zn_nonneg n), (zn_nonneg 1) by lia.
  change (Z.to_nat 1) with 1%nat.
  assert (Hq : Z.to_nat n = length locals) by lia. rewrite Hq.
  destruct (Nat.eqb (length locals) 0) eqn:E0; [apply Nat.eqb_eq in E0; lia|].
  cbn [v_stk v_heap v_out v_fr ValueVM4.mkst].
  replace (Nat.leb (length locals + 1) (length (a :: locals ++ stk))) with true
    by (symmetry; apply Nat.leb_le; simpl; rewrite app_length; lia).
  replace (1 + length locals)%nat with (S (length locals)) by lia.
  cbn [firstn skipn app]. rewrite skipn_app, skipn_all, Nat.sub_diag. reflexivity.
Qed.

(* ---- the handlers compute what the evaluator computes ------------------------------------ *)

Lemma quot_m1 : forall a, Z.quot a (-1) = - a.
Proof. intros. change (-1) with (- (1)). rewrite Z.quot_opp_r by lia. now rewrite Z.quot_1_r. Qed.

Lemma rem_m1 : forall a, Z.rem a (-1) = 0.
Proof. intros. change (-1) with (- (1)). rewrite Z.rem_opp_r by lia. apply Z.rem_1_r. Qed.

Definition bres_of (o : option cellval) : bres :=
  match o with
  | Some (CInt v) => BVal v
  | Some (CBool b) => BVal (b2z b)
  | _ => BDivZero
  end.

Lemma vm_binop_int : forall op z1 z2, f1_binop op = true ->
  match op with Shl | Shr => 0 <= z2 < 32 | _ => True end ->
  vm_binop (binop_opcode op) z1 z2 = Some (bres_of (int_binop op z1 z2)).
Proof.
  intros op z1 z2 Hop Hsh. destruct op; try discriminate Hop; simpl; try reflexivity.
  - destruct (z2 =? 0) eqn:E0; [reflexivity|]. simpl.
    destruct (z2 =? -1) eqn:E1; [|reflexivity]. apply Z.eqb_eq in E1. subst. now rewrite quot_m1.
  - destruct (z2 =? 0) eqn:E0; [reflexivity|]. simpl.
    destruct (z2 =? -1) eqn:E1; [|reflexivity]. apply Z.eqb_eq in E1. subst. now rewrite rem_m1.
  - rewrite Z.mod_small by lia. reflexivity.
  - rewrite Z.mod_small by lia. reflexivity.
Qed.

Lemma int_binop_shape : forall op z1 z2 v, int_binop op z1 z2 = Some v ->
  (exists n, v = CInt n) \/ (exists b, v = CBool b).
Proof.
  intros op z1 z2 v H. destruct op; simpl in H;
    try (destruct (z2 =? 0); try discriminate); inv H; eauto.
Qed.

Lemma vm_eq_bool : forall b1 b2,
  vm_binop BYTECODE_OP_EQ_INT (b2z b1) (b2z b2) = Some (BVal (b2z (Bool.eqb b1 b2))).
Proof. destruct b1, b2; reflexivity. Qed.

Lemma vm_neq_bool : forall b1 b2,
  vm_binop BYTECODE_OP_NEQ_INT (b2z b1) (b2z b2) = Some (BVal (b2z (negb (Bool.eqb b1 b2)))).
Proof. destruct b1, b2; reflexivity. Qed.

(* ---- the statement ------------------------------------------------------------------------ *)

(* normal termination of a code block: one more slot, holding the image of the result cell; the
   frame registers are what they were *)
Definition post_ok (prog : list rinstr) (s : vstate) (pc' : nat) (m : morph) (c : nat) (st' : state) : Prop :=
  exists s' m' a, star prog s s' /\ v_ip s' = pc' /\ v_stk s' = a :: v_stk s /\
    vrel m' c a /\ MS m' st' (v_heap s') /\ ext m m' /\ v_out s' = out st' /\
    v_fr s' = v_fr s.

(* the handler at H is a bare LABEL; RETHROW (a function without catch clauses, or the end of the last
   clause) *)
Definition is_rethrow (prog : list rinstr) (H : nat) : bool :=
  match nth_error prog H, nth_error prog (S H) with
  | Some i, Some j =>
    match r_op i, r_op j with BYTECODE_LABEL, BYTECODE_RETHROW => true | _, _ => false end
  | _, _ => false
  end.

(* an exception has been raised by an instruction at an address in [lo, hi) — the DIV/MOD handler,
   or the RETHROW of a callee re-raising at the CALL — and dispatched: ip is the handler the
   exception table gives for that address, machine->exception is set, the suspended activations are
   unchanged, the stack has only grown, the stores are still related.  fp is the one of the start
   state if the handler is a bare LABEL; RETHROW (a fault under a pending MARK has then been unwound
   already); if the handler is a catch clause (CLEAR_STACK resets fp) a MARK may still be pending. *)
Definition raises (prog : list rinstr) (s : vstate) (lo hi : nat) (m : morph) (st' : state) (ex : exn) : Prop :=
  exists s' fip m' fp', star prog s s' /\ (lo <= fip < hi)%nat /\
    v_ip s' = hsearch (x_tab X) fip 0 /\ v_fr s' = set_exc (set_fp (v_fr s) fp') ex /\
    (is_rethrow prog (v_ip s') = true -> fp' = r_fp (v_fr s)) /\
    (exists t top, v_stk s' = t :: top ++ v_stk s) /\ v_out s' = out st' /\
    MS m' st' (v_heap s') /\ ext m m'.

Definition concl (prog : list rinstr) (s : vstate) (pc n : nat) (m : morph) (r : res) (st' : state) : Prop :=
  match r with
  | ROk c => post_ok prog s (pc + n) m c st'
  | RExc ex => ex = ex /\ raises prog s pc (pc + n) m st' ex
  | _ => True
  end.

Lemma post_ok_intro : forall prog s pc' m c st' s' m' a,
  star prog s s' -> v_ip s' = pc' -> v_stk s' = a :: v_stk s ->
  vrel m' c a -> MS m' st' (v_heap s') -> ext m m' -> v_out s' = out st' ->
  v_fr s' = v_fr s ->
  post_ok prog s pc' m c st'.
Proof. intros. exists s', m', a. tauto. Qed.

Lemma set_fp_same : forall f : fregs, set_fp f (r_fp f) = f.
Proof. intros [a b c]. reflexivity. Qed.

Lemma raises_weaken : forall prog s lo hi lo' hi' m st' ex, raises prog s lo hi m st' ex ->
  (lo' <= lo)%nat -> (hi <= hi')%nat -> raises prog s lo' hi' m st' ex.
Proof.
  intros prog s lo hi lo' hi' m st' ex (s' & fip & m' & fp' & H1 & H2 & H3 & H4 & H5 & H6 & H7 & H8 & H9) Hl Hh.
  exists s', fip, m', fp'. split; [exact H1|]. split; [lia|]. tauto.
Qed.

(* a run in front of the raising one: same registers, the stack of s on top of the stack of s0 *)
Lemma raises_star : forall prog s0 s lo hi m0 m st' ex, star prog s0 s ->
  v_fr s = v_fr s0 -> (exists pre, v_stk s = pre ++ v_stk s0) ->
  raises prog s lo hi m st' ex -> ext m0 m -> raises prog s0 lo hi m0 st' ex.
Proof.
  intros prog s0 s lo hi m0 m st' ex Hs Hfr (pre & Hpre)
         (s' & fip & m' & fp' & H1 & H2 & H3 & H4 & H5 & (t & top & H6) & H7 & H8 & H9) Hext.
  exists s', fip, m', fp'. split; [eapply star_trans; eauto|]. split; [exact H2|]. split; [exact H3|].
  split; [congruence|]. split; [rewrite <- Hfr; exact H5|]. split.
  - exists t, (top ++ pre). rewrite H6, Hpre, app_assoc. reflexivity.
  - split; [exact H7|]. split; [exact H8 | eapply ext_trans; eauto].
Qed.

Ltac ext_tac :=
  first [ assumption | apply ext_refl
        | eapply ext_trans; [eassumption | eassumption]
        | eapply ext_trans; [eassumption | eapply ext_trans; [eassumption | eassumption]] ].

Ltac stk_ext :=
  simpl;
  match goal with
  | |- exists pre, ?s = pre ++ ?s => exists []; reflexivity
  | |- exists pre, ?a :: ?s = pre ++ ?s => exists [a]; reflexivity
  | |- exists pre, ?l ++ ?s = pre ++ ?s => exists l; reflexivity
  end.

Lemma fresh_inv : forall st v r st', fresh st v = (r, st') -> exists c, r = ROk c.
Proof. intros st v r st' H. unfold fresh in H. destruct (alloc st v). inv H. eauto. Qed.


Definition expr_case (k : nat) (e : expr) : Prop :=
  forall env st r st', eval genv k env st e = (r, st') ->
  forall sc, in_F (fc_self fc) lv sc e = true ->
  forall prog pc L ce s m,
    code_at prog pc (compile_expr fc L ce e) -> v_ip s = pc ->
    MS m st (v_heap s) -> v_out s = out st -> env_match_g fc (r_gp (v_fr s)) gl m env ce sc L (v_stk s) ->
    concl prog s pc (length (compile_expr fc L ce e)) m r st'.

Definition expr_spec (k : nat) : Prop := forall e, expr_case k e.

(* the same for states with the registers `fr` of this section *)
Definition expr_case_at (k : nat) (e : expr) : Prop :=
  forall env st r st', eval genv k env st e = (r, st') ->
  forall sc, in_F (fc_self fc) lv sc e = true ->
  forall prog L ce ip stk h o m,
    code_at prog ip (compile_expr fc L ce e) ->
    MS m st h -> o = out st -> env_match m env ce sc L stk ->
    concl prog (mkst ip stk h o) ip (length (compile_expr fc L ce e)) m r st'.

Definition items_concl (prog : list rinstr) (s : vstate) (pc : nat) (code : list rinstr)
  (nb : Z) (m : morph) (r : res) (st' : state) : Prop :=
    match r with
    | ROk c =>
      exists s' m' a locals, star prog s s' /\
        v_ip s' = (pc + length code)%nat /\
        v_stk s' = a :: locals ++ v_stk s /\ Z.of_nat (length locals) = nb /\
        vrel m' c a /\ MS m' st' (v_heap s') /\ ext m m' /\ v_out s' = out st' /\
        v_fr s' = v_fr s
    | RExc ex => ex = ex /\ raises prog s pc (pc + length code) m st' ex
    | _ => True
    end.

Definition items_spec (k : nat) : Prop :=
  forall items env st last r st', eval_items genv k env st items last = (r, st') ->
  forall sc, items_F (fc_self fc) lv sc items = true ->
  forall prog pc L ce s m,
    code_at prog pc (compile_items fc L ce items) -> v_ip s = pc ->
    MS m st (v_heap s) -> v_out s = out st -> env_match_g fc (r_gp (v_fr s)) gl m env ce sc L (v_stk s) ->
    items_concl prog s pc (compile_items fc L ce items) (nbinds items) m r st'.

Definition items_spec_at (k : nat) : Prop :=
  forall items env st last r st', eval_items genv k env st items last = (r, st') ->
  forall sc, items_F (fc_self fc) lv sc items = true ->
  forall prog L ce ip stk h o m,
    code_at prog ip (compile_items fc L ce items) ->
    MS m st h -> o = out st -> env_match m env ce sc L stk ->
    items_concl prog (mkst ip stk h o) ip (compile_items fc L ce items) (nbinds items) m r st'.

Lemma case_EInt : forall k z, expr_case_at (S k) (EInt z).
Proof.
  intros k z env st r st' He sc HF prog L ce ip stk h o m Hc HMS Hout Hem.
  rewrite eval_EInt in He. simpl in HF. simpl in Hc |- *.
  destruct (fresh_inv _ _ _ _ He) as (c & ->). simpl.
  assert (Hv : val_rel (CInt (wrap32 z)) z) by (simpl; now rewrite wrap32_small).
  destruct (MS_fresh _ _ _ _ _ _ _ HMS Hv He) as (HMS' & Hm' & Hout').
  apply (post_ok_intro _ _ _ _ _ _ (mkst (S ip) (length h :: stk) (h ++ [HInt z]) o)
           (msnoc m (MA (length h))) (length h)); simpl; auto.
  - apply star_one, (step_int _ _ _ _ _ _ 0), (code_at_head _ _ _ _ Hc).
  - lia.
  - apply ext_snoc.
  - congruence.
Qed.

Lemma case_EBool : forall k b, expr_case_at (S k) (EBool b).
Proof.
  intros k b env st r st' He sc HF prog L ce ip stk h o m Hc HMS Hout Hem.
  rewrite eval_EBool in He. simpl in Hc |- *.
  destruct (fresh_inv _ _ _ _ He) as (c & ->). simpl.
  assert (Hv : val_rel (CBool b) (b2z b)) by reflexivity.
  destruct (MS_fresh _ _ _ _ _ _ _ HMS Hv He) as (HMS' & Hm' & Hout').
  apply (post_ok_intro _ _ _ _ _ _ (mkst (S ip) (length h :: stk) (h ++ [HInt (b2z b)]) o)
           (msnoc m (MA (length h))) (length h)); simpl; auto.
  - apply star_one, (step_int _ _ _ _ _ _ 0), (code_at_head _ _ _ _ Hc).
  - lia.
  - apply ext_snoc.
  - congruence.
Qed.

(* the vector of the running function is in the heap *)
Lemma gp_vec : forall m st h (env : Eval.env) ce sc L stk, MS m st h -> env_match m env ce sc L stk ->
  gl = [] \/ nth_error h (r_gp fr) = Some (HVec gl).
Proof.
  intros m st h env ce sc L stk HMS (_ & _ & _ & [Hv | Hv] & _); [left; exact Hv | right].
  apply (ms_vec _ _ _ HMS _ _ Hv).
Qed.

(* reading a name in scope: its slot (ID_LOCAL) or its entry of the vector (ID_GLOBAL) *)
Lemma read_var : forall prog ip stk h o m st (env : Eval.env) ce sc L x,
  MS m st h -> env_match m env ce sc L stk -> mem_id x sc = true ->
  code_at prog ip (var_code FT TL fc L ce x) ->
  exists c a, lookup x env = Some c /\ vrel m c a /\
    length (var_code FT TL fc L ce x) = 1%nat /\
    step prog (mkst ip stk h o) = SNext (mkst (S ip) (a :: stk) h o).
Proof.
  intros prog ip stk h o m st env ce sc L x HMS Hem Hx Hc.
  destruct (proj1 Hem x Hx) as (c & a & Hl & Hm & Hacc). exists c, a. split; [exact Hl|]. split; [exact Hm|].
  unfold access, var_code in *. destruct (clookup x ce) as [i|] eqn:Ei.
  - destruct Hacc as [Hle Hn]. split; [reflexivity|]. eapply step_id_local; eauto. eapply code_at_head; eauto.
  - destruct Hacc as (Hs & Ht & Hn). fold TL in Ht. rewrite Hs, Ht in *. split; [reflexivity|].
    destruct (gp_vec _ _ _ _ _ _ _ _ HMS Hem) as [-> | Hgp]; [destruct (Z.to_nat _); discriminate Hn|].
    assert (Hg := gpos_nonneg x (fc_fvs fc) 0 ltac:(lia)).
    eapply (CompileCorrect4Base.step_id_global X prog ip stk h o fr (Z.to_nat (gpos x (fc_fvs fc) 0))); [| exact Hgp | exact Hn].
    rewrite Z2Nat.id by lia. eapply code_at_head; eauto.
Qed.

Lemma case_EVar_sc : forall k x,
  forall env st r st', eval genv (S k) env st (EVar x) = (r, st') ->
  forall sc, mem_id x sc = true ->
  forall prog L ce ip stk h o m,
    code_at prog ip (compile_expr fc L ce (EVar x)) ->
    MS m st h -> o = out st -> env_match m env ce sc L stk ->
    concl prog (mkst ip stk h o) ip (length (compile_expr fc L ce (EVar x))) m r st'.
Proof.
  intros k x env st r st' He sc HF prog L ce ip stk h o m Hc HMS Hout Hem.
  rewrite eval_EVar in He.
  change (compile_expr fc L ce (EVar x)) with (var_code FT TL fc L ce x) in *.
  destruct (read_var prog ip stk h o m st env ce sc L x HMS Hem HF Hc) as (c & a & Hl & Hm & Hlen & Hstep).
  unfold lookup_var in He. rewrite Hl in He. inv He. simpl. rewrite Hlen.
  apply (post_ok_intro _ _ _ _ _ _ (mkst (S ip) (a :: stk) h (out st')) m a); simpl; auto.
  - apply star_one. exact Hstep.
  - lia.
  - apply ext_refl.
Qed.

Ltac exc_here Ha :=
  let Hr := fresh "Hr" in
  destruct Ha as [_ Hr]; split; [reflexivity |
    eapply raises_weaken; [exact Hr | lia | rewrite ?app_length; simpl; lia]].

Lemma get_int_not_bool : forall st c z, get_int st c = Some z -> get_bool st c = None.
Proof.
  unfold get_int, get_bool. intros st c z H. destruct (get_cell st c) as [[]|]; try discriminate; reflexivity.
Qed.

Lemma case_ENeg : forall k a, expr_spec k -> expr_case_at (S k) (ENeg a).
Proof.
  intros k a IH env st r st' He sc HF prog L ce ip stk h o m Hc HMS Hout Hem.
  rewrite eval_ENeg in He. simpl in HF. apply andb_true_iff in HF. destruct HF as [_ Fa].
  change (compile_expr fc L ce (ENeg a)) with (compile_expr fc L ce a ++ [ins0 BYTECODE_OP_NEG_INT]) in *.
  set (ca := compile_expr fc L ce a) in *.
  destruct (eval genv k env st a) as [r1 st1] eqn:Ea.
  pose proof (IH a _ _ _ _ Ea sc Fa prog ip L ce (mkst ip stk h o) m
                (code_at_app_l _ _ _ _ Hc) eq_refl HMS Hout Hem) as Ha. fold ca in Ha.
  destruct r1 as [c1|ex| |]; simpl in Ha; [| inv He; simpl; exc_here Ha | inv He; exact I | inv He; exact I].
  destruct Ha as (s1 & m1 & a1 & Hst1 & Hip1 & Hstk1 & Hm1 & HMS1 & Hext1 & Hout1 & Hfr1).
  destruct s1 as [ip1 stk1 h1 o1 fr1]; simpl in Hip1, Hstk1, HMS1, Hout1, Hfr1; subst ip1 stk1 fr1.
  destruct (get_int st1 c1) as [z|] eqn:Eg; [|inv He; exact I].
  destruct (fresh_inv _ _ _ _ He) as (c & ->). simpl.
  pose proof (MS_payload_int _ _ _ _ _ _ HMS1 Hm1 Eg) as Hp.
  assert (Hv : val_rel (CInt (wrap32 (- z))) (wrap32 (- z))) by reflexivity.
  destruct (MS_fresh _ _ _ _ _ _ _ HMS1 Hv He) as (HMS' & Hm' & Hout').
  apply (post_ok_intro _ _ _ _ _ _ (mkst (S (ip + length ca)) (length h1 :: stk) (h1 ++ [HInt (wrap32 (- z))]) o1)
           (msnoc m1 (MA (length h1))) (length h1)); simpl; auto.
  - eapply star_snoc; [exact Hst1|]. apply step_neg; auto.
    eapply code_at_head. apply code_at_app_r. exact Hc.
  - rewrite app_length. simpl. lia.
  - eapply ext_trans; [exact Hext1 | apply ext_snoc].
  - congruence.
Qed.

Lemma case_ENot : forall k a, expr_spec k -> expr_case_at (S k) (ENot a).
Proof.
  intros k a IH env st r st' He sc HF prog L ce ip stk h o m Hc HMS Hout Hem.
  rewrite eval_ENot in He. simpl in HF. apply andb_true_iff in HF. destruct HF as [_ Fa].
  change (compile_expr fc L ce (ENot a)) with (compile_expr fc L ce a ++ [ins0 BYTECODE_OP_NOT_INT]) in *.
  set (ca := compile_expr fc L ce a) in *.
  destruct (eval genv k env st a) as [r1 st1] eqn:Ea.
  pose proof (IH a _ _ _ _ Ea sc Fa prog ip L ce (mkst ip stk h o) m
                (code_at_app_l _ _ _ _ Hc) eq_refl HMS Hout Hem) as Ha. fold ca in Ha.
  destruct r1 as [c1|ex| |]; simpl in Ha; [| inv He; simpl; exc_here Ha | inv He; exact I | inv He; exact I].
  destruct Ha as (s1 & m1 & a1 & Hst1 & Hip1 & Hstk1 & Hm1 & HMS1 & Hext1 & Hout1 & Hfr1).
  destruct s1 as [ip1 stk1 h1 o1 fr1]; simpl in Hip1, Hstk1, HMS1, Hout1, Hfr1; subst ip1 stk1 fr1.
  destruct (get_bool st1 c1) as [b|] eqn:Eg; [|inv He; exact I].
  destruct (fresh_inv _ _ _ _ He) as (c & ->). simpl.
  pose proof (MS_payload_bool _ _ _ _ _ _ HMS1 Hm1 Eg) as Hp.
  assert (Hv : val_rel (CBool (negb b)) (b2z (b2z b =? 0))) by (destruct b; reflexivity).
  destruct (MS_fresh _ _ _ _ _ _ _ HMS1 Hv He) as (HMS' & Hm' & Hout').
  apply (post_ok_intro _ _ _ _ _ _ (mkst (S (ip + length ca)) (length h1 :: stk) (h1 ++ [HInt (b2z (b2z b =? 0))]) o1)
           (msnoc m1 (MA (length h1))) (length h1)); simpl; auto.
  - eapply star_snoc; [exact Hst1|]. apply step_not; auto.
    eapply code_at_head. apply code_at_app_r. exact Hc.
  - rewrite app_length. simpl. lia.
  - eapply ext_trans; [exact Hext1 | apply ext_snoc].
  - congruence.
Qed.

(* the operator instruction(s) on two evaluated operands *)
Lemma exec_binop_ok : forall prog ip op stk h o a2 a1 za zb zr,
  f1_binop op = true -> code_at prog ip (binop_code op) ->
  hint h a1 = Some za -> hint h a2 = Some zb ->
  vm_binop (binop_opcode op) za zb = Some (BVal zr) ->
  star prog (mkst ip (a2 :: a1 :: stk) h o)
            (mkst (ip + length (binop_code op)) (length h :: stk) (h ++ [HInt (zr)]) o).
Proof.
  intros prog ip op stk h o a2 a1 za zb zr Hop Hc H1 H2 Hvm.
  assert (Hone : forall ip', nth_error prog ip' = Some (ins0 (binop_opcode op)) ->
            step prog (mkst ip' (a2 :: a1 :: stk) h o) = SNext (mkst (S ip') (length h :: stk) (h ++ [HInt (zr)]) o)).
  { intros ip' Hn. rewrite (step_binop _ _ _ _ _ op _ _ za zb Hop Hn H1 H2), Hvm. reflexivity. }
  destruct op; try discriminate Hop; simpl binop_code in *; simpl length;
    try (replace (ip + 1)%nat with (S ip) by lia; apply star_one, Hone; eapply code_at_head; exact Hc).
  - replace (ip + 2)%nat with (S (S ip)) by lia.
    eapply star_step; [apply step_line; eapply code_at_head; exact Hc|].
    apply star_one, Hone. eapply code_at_head, code_at_tail. exact Hc.
  - replace (ip + 2)%nat with (S (S ip)) by lia.
    eapply star_step; [apply step_line; eapply code_at_head; exact Hc|].
    apply star_one, Hone. eapply code_at_head, code_at_tail. exact Hc.
Qed.

Lemma exec_binop_div : forall prog ip op stk h o a2 a1 za zb,
  f1_binop op = true -> code_at prog ip (binop_code op) ->
  hint h a1 = Some za -> hint h a2 = Some zb ->
  vm_binop (binop_opcode op) za zb = Some BDivZero ->
  exists fip, (ip <= fip < ip + length (binop_code op))%nat /\
    star prog (mkst ip (a2 :: a1 :: stk) h o)
         (ValueVM4.mkst (hsearch (x_tab X) fip 0) (a2 :: a1 :: stk) h o (set_exc fr ExDivision)).
Proof.
  intros prog ip op stk h o a2 a1 za zb Hop Hc H1 H2 Hvm.
  assert (Hone : forall ip', nth_error prog ip' = Some (ins0 (binop_opcode op)) ->
            step prog (mkst ip' (a2 :: a1 :: stk) h o) =
            SNext (ValueVM4.mkst (hsearch (x_tab X) ip' 0) (a2 :: a1 :: stk) h o (set_exc fr ExDivision))).
  { intros ip' Hn. rewrite (step_binop _ _ _ _ _ op _ _ za zb Hop Hn H1 H2), Hvm. reflexivity. }
  destruct op; try discriminate Hop; simpl binop_code in *; simpl length;
    try (exists ip; split; [lia|]; apply star_one, Hone; eapply code_at_head; exact Hc).
  - exists (S ip). split; [lia|].
    eapply star_step; [apply step_line; eapply code_at_head; exact Hc|].
    apply star_one, Hone. eapply code_at_head, code_at_tail. exact Hc.
  - exists (S ip). split; [lia|].
    eapply star_step; [apply step_line; eapply code_at_head; exact Hc|].
    apply star_one, Hone. eapply code_at_head, code_at_tail. exact Hc.
Qed.

Lemma finish_binop : forall prog s0 ip op stk h o a2 a1 za zb zr v m0 m st r st' pc n,
  star prog s0 (mkst ip (a2 :: a1 :: stk) h o) -> v_stk s0 = stk -> v_fr s0 = fr ->
  f1_binop op = true -> code_at prog ip (binop_code op) ->
  hint h a1 = Some za -> hint h a2 = Some zb ->
  vm_binop (binop_opcode op) za zb = Some (BVal zr) -> val_rel v zr ->
  MS m st h -> o = out st -> ext m0 m -> fresh st v = (r, st') ->
  (ip + length (binop_code op) = pc + n)%nat ->
  concl prog s0 pc n m0 r st'.
Proof.
  intros prog s0 ip op stk h o a2 a1 za zb zr v m0 m st r st' pc n
         Hst Hstk Hfr0 Hop Hc H1 H2 Hvm Hv HMS Ho Hext Hf Hn.
  destruct (fresh_inv _ _ _ _ Hf) as (c & ->). simpl.
  destruct (MS_fresh _ _ _ _ _ _ _ HMS Hv Hf) as (HMS' & Hm' & Hout').
  apply (post_ok_intro _ _ _ _ _ _ (mkst (ip + length (binop_code op)) (length h :: stk) (h ++ [HInt (zr)]) o)
           (msnoc m (MA (length h))) (length h)); simpl; auto.
  - eapply star_trans; [exact Hst|]. eapply exec_binop_ok; eauto.
  - congruence.
  - eapply ext_trans; [exact Hext | apply ext_snoc].
  - congruence.
Qed.

Lemma bres_of_val : forall op z1 z2 v, int_binop op z1 z2 = Some v ->
  exists z, bres_of (Some v) = BVal z /\ val_rel v z.
Proof.
  intros op z1 z2 v H. destruct (int_binop_shape _ _ _ _ H) as [(n & ->) | (b & ->)]; simpl; eauto.
Qed.

Lemma eval_EInt_value : forall k env st z c st', eval genv k env st (EInt z) = (ROk c, st') ->
  get_int st' c = Some (wrap32 z).
Proof.
  intros k env st z c st' H. destruct k; [rewrite eval_O in H; discriminate|].
  rewrite eval_EInt in H. unfold fresh, alloc in H. inv H.
  unfold get_int, get_cell. simpl. rewrite nth_error_app2, Nat.sub_diag by lia. reflexivity.
Qed.

Lemma compile_EBin : forall L ce op a b, f1_binop op = true ->
  compile_expr fc L ce (EBin op a b) = compile_expr fc L ce a ++ compile_expr fc (L + 1) ce b ++ binop_code op.
Proof. intros L ce op a b H. destruct op; try discriminate H; reflexivity. Qed.

Lemma case_EBin : forall k op a b, f1_binop op = true -> expr_spec k -> expr_case_at (S k) (EBin op a b).
Proof.
  intros k op a b Hop IH env st r st' He sc HF prog L ce ip stk h o m Hc HMS Hout Hem.
  cbn [Compile4.in_F] in HF. apply andb_true_iff in HF; destruct HF as [H8 HF].
  apply andb_true_iff in HF; destruct HF as [HF Fb].
  apply andb_true_iff in HF; destruct HF as [HF Fa].
  apply andb_true_iff in HF; destruct HF as [HF Hsh].
  assert (Hno : op <> And /\ op <> Or) by (destruct op; simpl in Hop; try discriminate; split; discriminate).
  rewrite eval_EBin in He by tauto.
  rewrite (compile_EBin _ _ _ _ _ Hop) in *.
  set (ca := compile_expr fc L ce a) in *. set (cb := compile_expr fc (L + 1) ce b) in *.
  destruct (eval genv k env st a) as [r1 st1] eqn:Ea.
  pose proof (IH a _ _ _ _ Ea sc Fa prog ip L ce (mkst ip stk h o) m
                (code_at_app_l _ _ _ _ Hc) eq_refl HMS Hout Hem) as Ha. fold ca in Ha.
  destruct r1 as [c1|ex| |]; simpl in Ha; [| inv He; simpl; exc_here Ha | inv He; exact I | inv He; exact I].
  destruct Ha as (s1 & m1 & a1 & Hst1 & Hip1 & Hstk1 & Hm1 & HMS1 & Hext1 & Hout1 & Hfr1).
  destruct s1 as [ip1 stk1 h1 o1 fr1]; simpl in Hip1, Hstk1, HMS1, Hout1, Hfr1; subst ip1 stk1 fr1.
  destruct (eval genv k env st1 b) as [r2 st2] eqn:Eb.
  assert (Hcb : code_at prog (ip + length ca) cb).
  { apply code_at_app_l with (c2 := binop_code op). apply code_at_app_r. exact Hc. }
  assert (Hcop : code_at prog (ip + length ca + length cb) (binop_code op)).
  { apply code_at_app_r. apply code_at_app_r. exact Hc. }
  pose proof (IH b _ _ _ _ Eb sc Fb prog (ip + length ca)%nat (L + 1) ce
                (mkst (ip + length ca) (a1 :: stk) h1 o1) m1 Hcb eq_refl HMS1 Hout1
                (env_match_push _ _ _ _ _ _ _ _ _ a1 (env_match_ext _ _ _ _ _ _ _ _ _ _ Hem Hext1))) as Hb.
  fold cb in Hb.
  destruct r2 as [c2|ex| |]; simpl in Hb; [| inv He; simpl | inv He; exact I | inv He; exact I].
  2:{ destruct Hb as [_ Hr]. split; [reflexivity|]. eapply raises_star; [exact Hst1 | reflexivity | stk_ext | eapply raises_weaken; [exact Hr | lia | rewrite !app_length; lia] | ext_tac]. }
  destruct Hb as (s2 & m2 & a2 & Hst2 & Hip2 & Hstk2 & Hm2 & HMS2 & Hext2 & Hout2 & Hfr2).
  destruct s2 as [ip2 stk2 h2 o2 fr2]; simpl in Hip2, Hstk2, HMS2, Hout2, Hfr2; subst ip2 stk2 fr2.
  assert (Hm1' : vrel m2 c1 a1) by (eapply vrel_ext; eauto).
  assert (Hst : star prog (mkst ip stk h o) (mkst (ip + length ca + length cb) (a2 :: a1 :: stk) h2 o2))
    by (eapply star_trans; eauto).
  assert (Hlen : (ip + length ca + length cb + length (binop_code op) =
                  ip + length (ca ++ cb ++ binop_code op))%nat) by (rewrite !app_length; lia).
  assert (Hext : ext m m2) by (eapply ext_trans; eauto).
  unfold binop_result in He.
  assert (Hnil : rcn = false \/ (op <> Eq /\ op <> Ne) \/
            exists w, nth_error (cells st2) c2 = Some w /\ match w with CInt _ | CBool _ => True | _ => False end).
  { destruct (Nat.leb lv 7) eqn:E7.
    - left. unfold rcn. apply Nat.leb_le in E7. apply Nat.leb_gt. lia.
    - cbn [orb] in H8. clear - H8 Eb HMS2 Hm2.
      destruct op; try (right; left; split; discriminate); right; right;
        (destruct (vrel_kind _ _ _ _ _ HMS2 Hm2) as (w & Hw & _); exists w; split; [exact Hw|];
         assert (Hi : is_intv w = true) by (eapply int_shaped_cell; [exact H8 | exact Eb | exact Hw]);
         destruct w; try discriminate Hi; exact I). }
  rewrite (nil_cmp_mapped op _ _ _ c1 a1 c2 a2 HMS2 Hm1' Hm2 Hnil) in He.
  destruct (get_int st2 c1) as [z1|] eqn:G1.
  - destruct (get_int st2 c2) as [z2|] eqn:G2.
    + pose proof (MS_payload_int _ _ _ _ _ _ HMS2 Hm1' G1) as P1.
      pose proof (MS_payload_int _ _ _ _ _ _ HMS2 Hm2 G2) as P2.
      assert (Hshift : match op with Shl | Shr => 0 <= z2 < 32 | _ => True end).
      { destruct op; auto; simpl in Hsh; destruct b; try discriminate Hsh;
          apply andb_true_iff in Hsh; destruct Hsh as [S1 S2]; apply Z.leb_le in S1; apply Z.ltb_lt in S2;
          pose proof (eval_EInt_value _ _ _ _ _ _ Eb) as Hz; rewrite G2 in Hz; inv Hz;
          unfold wrap32; rewrite Z.mod_small by lia; lia. }
      pose proof (vm_binop_int op z1 z2 Hop Hshift) as Hvm.
      destruct (int_binop op z1 z2) as [v|] eqn:Ei.
      * destruct (bres_of_val _ _ _ _ Ei) as (zr & Hbr & Hv). rewrite Hbr in Hvm.
        eapply finish_binop; eauto.
      * inv He. simpl in Hvm |- *. split; [reflexivity|].
        destruct (exec_binop_div _ _ _ stk _ (out st') _ _ _ _ Hop Hcop P1 P2 Hvm) as (fip & Hrange & Hs').
        exists (ValueVM4.mkst (hsearch (x_tab X) fip 0) (a2 :: a1 :: stk) h2 (out st') (set_exc fr ExDivision)), fip, m2, (r_fp fr).
        split; [eapply star_trans; eauto|]. split; [lia|]. split; [reflexivity|].
        split; [simpl; rewrite set_fp_same; reflexivity|]. split; [reflexivity|].
        split; [exists a2, [a1]; reflexivity|]. split; [reflexivity|]. split; [exact HMS2 | exact Hext].
    + rewrite (get_int_not_bool _ _ _ G1) in He. destruct op; inv He; exact I.
  - destruct (get_bool st2 c1) as [b1|] eqn:B1; destruct (get_bool st2 c2) as [b2|] eqn:B2;
      destruct op; try (inv He; exact I); try discriminate Hop.
    + pose proof (MS_payload_bool _ _ _ _ _ _ HMS2 Hm1' B1) as P1.
      pose proof (MS_payload_bool _ _ _ _ _ _ HMS2 Hm2 B2) as P2.
      eapply (finish_binop _ _ _ Eq); eauto. apply vm_eq_bool. reflexivity.
    + pose proof (MS_payload_bool _ _ _ _ _ _ HMS2 Hm1' B1) as P1.
      pose proof (MS_payload_bool _ _ _ _ _ _ HMS2 Hm2 B2) as P2.
      eapply (finish_binop _ _ _ Ne); eauto. apply vm_neq_bool. reflexivity.
Qed.

Lemma case_ECond : forall k c a b, expr_spec k -> expr_case_at (S k) (ECond c a b).
Proof.
  intros k c a b IH env st r st' He sc HF prog L ce ip stk h o m Hc HMS Hout Hem.
  simpl in HF.
  apply andb_true_iff in HF; destruct HF as [HF Fb].
  apply andb_true_iff in HF; destruct HF as [HF Fa].
  apply andb_true_iff in HF; destruct HF as [_ Fc].
  rewrite eval_ECond in He.
  change (compile_expr fc L ce (ECond c a b)) with
    (compile_expr fc L ce c ++ ins BYTECODE_JUMPZ (len (compile_expr fc L ce a) + 2) 0 :: compile_expr fc L ce a ++
     ins BYTECODE_JUMP (len (compile_expr fc L ce b) + 2) 0 :: ins0 BYTECODE_LABEL ::
     compile_expr fc L ce b ++ [ins0 BYTECODE_LABEL]) in *.
  set (cc := compile_expr fc L ce c) in *. set (ca := compile_expr fc L ce a) in *.
  set (cb := compile_expr fc L ce b) in *.
  assert (Htot : forall X : list rinstr,
            length (cc ++ ins BYTECODE_JUMPZ (len ca + 2) 0 :: ca ++
                    ins BYTECODE_JUMP (len cb + 2) 0 :: ins0 BYTECODE_LABEL :: cb ++ [ins0 BYTECODE_LABEL])
            = (length cc + length ca + length cb + 4)%nat).
  { intros _. rewrite !app_length. simpl. rewrite !app_length. simpl. rewrite app_length. simpl. lia. }
  specialize (Htot []). rewrite Htot.
  pose proof (code_at_app_l _ _ _ _ Hc) as Hcc.
  pose proof (code_at_app_r _ _ _ _ Hc) as H1.
  pose proof (code_at_head _ _ _ _ H1) as HJZ.
  pose proof (code_at_tail _ _ _ _ H1) as H2.
  pose proof (code_at_app_l _ _ _ _ H2) as Hca.
  pose proof (code_at_app_r _ _ _ _ H2) as H3.
  pose proof (code_at_head _ _ _ _ H3) as HJ.
  pose proof (code_at_tail _ _ _ _ (code_at_tail _ _ _ _ H3)) as H4.
  pose proof (code_at_app_l _ _ _ _ H4) as Hcb.
  pose proof (code_at_head _ _ _ _ (code_at_app_r _ _ _ _ H4)) as HL.
  destruct (eval genv k env st c) as [r1 st1] eqn:Ec.
  pose proof (IH c _ _ _ _ Ec sc Fc prog ip L ce (mkst ip stk h o) m Hcc eq_refl HMS Hout Hem) as Hcnd.
  fold cc in Hcnd.
  destruct r1 as [c1|ex| |]; simpl in Hcnd; [| inv He; simpl | inv He; exact I | inv He; exact I].
  2:{ destruct Hcnd as [_ Hr]. split; [reflexivity|]. eapply raises_weaken; [exact Hr | lia | lia]. }
  destruct Hcnd as (s1 & m1 & a1 & Hst1 & Hip1 & Hstk1 & Hm1 & HMS1 & Hext1 & Hout1 & Hfr1).
  destruct s1 as [ip1 stk1 h1 o1 fr1]; simpl in Hip1, Hstk1, HMS1, Hout1, Hfr1; subst ip1 stk1 fr1.
  destruct (get_bool st1 c1) as [bv|] eqn:Eg; [|inv He; exact I].
  pose proof (MS_payload_bool _ _ _ _ _ _ HMS1 Hm1 Eg) as Hp.
  pose proof (env_match_ext _ _ _ _ _ _ _ _ _ _ Hem Hext1) as Hem1.
  destruct bv.
  - (* condition true: fall through into a, then JUMP over b *)
    assert (Hj : star prog (mkst ip stk h o) (mkst (S (ip + length cc)) stk h1 o1)).
    { eapply star_snoc; [exact Hst1|]. eapply step_jumpz_nonzero; eauto. simpl. lia. }
    pose proof (IH a _ _ _ _ He sc Fa prog (S (ip + length cc)) L ce
                  (mkst (S (ip + length cc)) stk h1 o1) m1 Hca eq_refl HMS1 Hout1 Hem1) as Ha.
    fold ca in Ha.
    destruct r as [c2|ex| |]; simpl in Ha |- *; auto.
    + destruct Ha as (s2 & m2 & a2 & Hst2 & Hip2 & Hstk2 & Hm2 & HMS2 & Hext2 & Hout2 & Hfr2).
      destruct s2 as [ip2 stk2 h2 o2 fr2]; simpl in Hip2, Hstk2, HMS2, Hout2, Hfr2; subst ip2 stk2 fr2.
      apply (post_ok_intro _ _ _ _ _ _ (mkst (ip + (length cc + length ca + length cb + 4)) (a2 :: stk) h2 o2) m2 a2);
        simpl; auto.
      * eapply star_trans; [exact Hj|]. eapply star_snoc; [exact Hst2|].
        rewrite (step_jump_fwd _ _ _ _ _ _ _ HJ) by (unfold len; lia).
        f_equal. f_equal. unfold len. lia.
      * eapply ext_trans; eauto.
    + destruct Ha as [_ Hr]. split; [reflexivity|]. eapply raises_star; [exact Hj | reflexivity | stk_ext | eapply raises_weaken; [exact Hr | lia | lia] | ext_tac].
  - (* condition false: JUMPZ to b *)
    assert (Hj : star prog (mkst ip stk h o) (mkst (S (S (S (ip + length cc) + length ca))) stk h1 o1)).
    { eapply star_snoc; [exact Hst1|].
      rewrite (step_jumpz_zero _ _ _ _ _ _ _ _ HJZ Hp) by (unfold len; lia).
      f_equal. f_equal. unfold len. lia. }
    pose proof (IH b _ _ _ _ He sc Fb prog (S (S (S (ip + length cc) + length ca))) L ce
                  (mkst (S (S (S (ip + length cc) + length ca))) stk h1 o1) m1 Hcb eq_refl HMS1 Hout1 Hem1) as Hb.
    fold cb in Hb.
    destruct r as [c2|ex| |]; simpl in Hb |- *; auto.
    + destruct Hb as (s2 & m2 & a2 & Hst2 & Hip2 & Hstk2 & Hm2 & HMS2 & Hext2 & Hout2 & Hfr2).
      destruct s2 as [ip2 stk2 h2 o2 fr2]; simpl in Hip2, Hstk2, HMS2, Hout2, Hfr2; subst ip2 stk2 fr2.
      apply (post_ok_intro _ _ _ _ _ _ (mkst (S (S (S (S (ip + length cc) + length ca)) + length cb)) (a2 :: stk) h2 o2) m2 a2);
        simpl; auto.
      * eapply star_trans; [exact Hj|]. eapply star_snoc; [exact Hst2|].
        apply step_label. exact HL.
      * lia.
      * eapply ext_trans; eauto.
    + destruct Hb as [_ Hr]. split; [reflexivity|]. eapply raises_star; [exact Hj | reflexivity | stk_ext | eapply raises_weaken; [exact Hr | lia | lia] | ext_tac].
Qed.

(* an assignment, whatever the left side: a name (case_EAssign below) or an array element; the left cell is safe to
   assign to: no copies exist, or it is a known int cell *)
Lemma assign_core : forall k l rhs, expr_spec k ->
  forall env st r st', eval genv (S k) env st (EAssign l rhs) = (r, st') ->
  forall sc, in_F (fc_self fc) lv sc l = true -> int_shaped rhs = true -> in_F (fc_self fc) lv sc rhs = true ->
  forall prog L ce ip stk h o m,
    code_at prog ip (compile_expr fc L ce (EAssign l rhs)) ->
    MS m st h -> o = out st -> env_match m env ce sc L stk ->
    (forall c1 st1, eval genv k env st l = (ROk c1, st1) ->
       forall m1 h1, MS m1 st1 h1 -> ext m m1 -> cp = false \/ In c1 (mi m1)) ->
    concl prog (mkst ip stk h o) ip (length (compile_expr fc L ce (EAssign l rhs))) m r st'.
Proof.
  intros k l rhs IH env st r st' He sc Fa Fsh Fb prog L ce ip stk h o m Hc HMS Hout Hem Hsafe.
  rewrite eval_EAssign in He.
  change (compile_expr fc L ce (EAssign l rhs))
    with (compile_expr fc L ce l ++ compile_expr fc (L + 1) ce rhs ++ [ins0 BYTECODE_OP_ASS_INT]) in *.
  set (ca := compile_expr fc L ce l) in *. set (cb := compile_expr fc (L + 1) ce rhs) in *.
  destruct (eval genv k env st l) as [r1 st1] eqn:Ea.
  pose proof (IH l _ _ _ _ Ea sc Fa prog ip L ce (mkst ip stk h o) m
                (code_at_app_l _ _ _ _ Hc) eq_refl HMS Hout Hem) as Ha. fold ca in Ha.
  destruct r1 as [c1|ex| |]; simpl in Ha; [| inv He; simpl; exc_here Ha | inv He; exact I | inv He; exact I].
  destruct Ha as (s1 & m1 & a1 & Hst1 & Hip1 & Hstk1 & Hm1 & HMS1 & Hext1 & Hout1 & Hfr1).
  destruct s1 as [ip1 stk1 h1 o1 fr1]; simpl in Hip1, Hstk1, HMS1, Hout1, Hfr1; subst ip1 stk1 fr1.
  destruct (eval genv k env st1 rhs) as [r2 st2] eqn:Eb.
  assert (Hcb : code_at prog (ip + length ca) cb).
  { apply code_at_app_l with (c2 := [ins0 BYTECODE_OP_ASS_INT]). apply code_at_app_r. exact Hc. }
  assert (Hcop : nth_error prog (ip + length ca + length cb) = Some (ins0 BYTECODE_OP_ASS_INT)).
  { eapply code_at_head. apply code_at_app_r. apply code_at_app_r. exact Hc. }
  pose proof (IH rhs _ _ _ _ Eb sc Fb prog (ip + length ca)%nat (L + 1) ce
                (mkst (ip + length ca) (a1 :: stk) h1 o1) m1 Hcb eq_refl HMS1 Hout1
                (env_match_push _ _ _ _ _ _ _ _ _ a1 (env_match_ext _ _ _ _ _ _ _ _ _ _ Hem Hext1))) as Hb.
  fold cb in Hb.
  destruct r2 as [c2|ex| |]; simpl in Hb; [| inv He; simpl | inv He; exact I | inv He; exact I].
  2:{ destruct Hb as [_ Hr]. split; [reflexivity|]. eapply raises_star; [exact Hst1 | reflexivity | stk_ext | eapply raises_weaken; [exact Hr | lia | rewrite !app_length; lia] | ext_tac]. }
  destruct Hb as (s2 & m2 & a2 & Hst2 & Hip2 & Hstk2 & Hm2 & HMS2 & Hext2 & Hout2 & Hfr2).
  destruct s2 as [ip2 stk2 h2 o2 fr2]; simpl in Hip2, Hstk2, HMS2, Hout2, Hfr2; subst ip2 stk2 fr2.
  assert (Hm1' : vrel m2 c1 a1) by (eapply vrel_ext; eauto).
  destruct (get_cell st2 c2) as [v|] eqn:G2; [|inv He; exact I].
  assert (Hiv : is_intv v = true) by (eapply int_shaped_cell; eauto).
  destruct (vrel_intv _ _ _ _ _ v HMS2 Hm2 G2 ltac:(destruct v; try discriminate Hiv; exact I)) as (z & P2 & Hv).
  assert (P2' : hint h2 a2 = Some z) by (unfold hint; rewrite P2; reflexivity).
  pose proof (MS_addr_lt _ _ _ _ _ HMS2 Hm1') as Hlt.
  assert (Hsafe2 : cp = false \/ In c1 (mi m2)).
  { destruct (Hsafe c1 st1 eq_refl m1 h1 HMS1 Hext1) as [Hx | Hx]; [left; exact Hx | right].
    eapply ext_mi; [exact Hext2 | exact Hx]. }
  pose proof (MS_assign _ _ _ _ _ _ _ HMS2 Hsafe2 Hm1' Hv) as HMS3.
  inv He. simpl.
  apply (post_ok_intro _ _ _ _ _ _ (mkst (S (ip + length ca + length cb)) (a1 :: stk) (list_upd h2 a1 (HInt z)) (out st2)) m2 a1);
    simpl; auto.
  - eapply star_trans; [exact Hst1|]. eapply star_snoc; [exact Hst2|].
    apply step_ass; auto.
  - rewrite !app_length. simpl. lia.
  - eapply ext_trans; eauto.
Qed.

(* the element cells of the arrays are int cells *)
Lemma index_cell_int : forall k env st a i c1 st1 m1 h1,
  eval genv k env st (EIndex a i) = (ROk c1, st1) -> MS m1 st1 h1 -> In c1 (mi m1).
Proof.
  intros k env st a i c1 st1 m1 h1 He HMS1.
  destruct k as [|k]; [rewrite eval_O in He; discriminate|].
  rewrite eval_EIndex in He.
  destruct (eval genv k env st a) as [[ca|?| |] sta]; try (inversion He; fail).
  destruct (eval genv k env sta i) as [[ci|?| |] sti]; try (inversion He; fail).
  unfold index_result in He.
  destruct (get_cell sti ca) as [[?|?|? ?|[ar|]|?]|]; try (destruct (get_int sti ci); inversion He; fail).
  destruct (get_int sti ci) as [z|]; [|inversion He].
  destruct (nth_error (arrs sti) ar) as [elems|] eqn:Ear; [|inversion He].
  destruct ((z <? 0) || (Z.of_nat (length elems) <=? z)); [inversion He|].
  destruct (nth_error elems (Z.to_nat z)) as [c|] eqn:En; inversion He; subst c sti.
  pose proof (ms_arrmi _ _ _ HMS1 ar elems Ear) as Hall. rewrite Forall_forall in Hall.
  apply Hall. eapply nth_error_In; eauto.
Qed.

(* the field cells of the records are int cells *)
Lemma field_cell_int : forall k env st a rn fld c1 st1 m1 h1,
  eval genv k env st (EField a rn fld) = (ROk c1, st1) -> MS m1 st1 h1 -> In c1 (mi m1).
Proof.
  intros k env st a rn fld c1 st1 m1 h1 He HMS1.
  destruct k as [|k]; [rewrite eval_O in He; discriminate|].
  rewrite eval_EField in He.
  destruct (eval genv k env st a) as [[ca|?| |] sta]; try (inversion He; fail).
  unfold field_result in He.
  destruct (get_cell sta ca) as [[?|?|? ?|?|[rr|]]|]; try (inversion He; fail).
  destruct (nth_error (recs sta) rr) as [flds|] eqn:Er; [|inversion He].
  destruct (nth_error flds fld) as [c|] eqn:En; inversion He; subst c sta.
  pose proof (ms_recmi _ _ _ HMS1 rr flds Er) as Hall. rewrite Forall_forall in Hall.
  apply Hall. eapply nth_error_In; eauto.
Qed.

Lemma case_EAssign : forall k l rhs, expr_spec k -> expr_case_at (S k) (EAssign l rhs).
Proof.
  intros k l rhs IH env st r st' He sc HF prog L ce ip stk h o m Hc HMS Hout Hem.
  cbn [Compile4.in_F] in HF. destruct l; try discriminate HF.
  - (* a name *)
    apply andb_true_iff in HF; destruct HF as [Fx Fb].
    apply andb_true_iff in Fx; destruct Fx as [Fx Fsh].
    apply andb_true_iff in Fx; destruct Fx as [Flv Fx].
    assert (Fa : in_F (fc_self fc) lv sc (EVar x) = true) by (cbn [Compile4.in_F]; rewrite Fx; reflexivity).
    eapply assign_core; eauto.
    intros c1 st1 Ea m1 h1 HMS1 Hext1. unfold at6 in Flv. destruct (Nat.leb lv 5) eqn:E5.
    + left. unfold cp. apply Nat.leb_le in E5. apply Nat.leb_gt. lia.
    + right. cbn [orb] in Flv.
      assert (Hcp : cp = true) by (unfold cp; apply Nat.leb_gt in E5; apply Nat.leb_le; lia).
      assert (Hxi : mem_id x IV = true) by (unfold IV, CompileCorrect4Rel.ivs; rewrite Hcp; exact Flv).
      destruct (proj1 Hem x Fx) as (c & a & Hl & _).
      destruct k as [|k']; [rewrite eval_O in Ea; discriminate|].
      rewrite eval_EVar in Ea. unfold lookup_var in Ea. rewrite Hl in Ea. inversion Ea; subst.
      eapply ext_mi; [exact Hext1|].
      exact (proj2 (proj2 (proj2 (proj2 (proj2 (proj2 (proj2 Hem)))))) x c1 Fx Hxi Hl).
  - (* an array element *)
    apply andb_true_iff in HF; destruct HF as [HF Fb].
    apply andb_true_iff in HF; destruct HF as [HF Fsh].
    apply andb_true_iff in HF; destruct HF as [HF Fi].
    apply andb_true_iff in HF; destruct HF as [Flv Fa0].
    assert (Fa : in_F (fc_self fc) lv sc (EIndex l1 l2) = true).
    { cbn [Compile4.in_F]. rewrite Flv, Fa0, Fi. reflexivity. }
    eapply assign_core; eauto.
    intros c1 st1 Ea m1 h1 HMS1 Hext1. right. eapply index_cell_int; eauto.
  - (* a record field *)
    apply andb_true_iff in HF; destruct HF as [HF Fb].
    apply andb_true_iff in HF; destruct HF as [HF Fsh].
    apply andb_true_iff in HF; destruct HF as [Flv Fa0].
    eapply assign_core; [exact IH | exact He | cbn [Compile4.in_F]; rewrite Flv, Fa0; reflexivity | exact Fsh | exact Fb
                        | exact Hc | exact HMS | exact Hout | exact Hem |].
    intros c1 st1 Ea m1 h1 HMS1 Hext1. right. eapply field_cell_int; eauto.
Qed.

(* ---- one-dimensional int arrays (level 7) ------------------------------------------------------- *)

Lemma step_aderef : forall prog ip stk h o ai aa z l,
  nth_error prog ip = Some (ins BYTECODE_ARRAYREF_DEREF 1 0) -> hint h ai = Some z -> nth_error h aa = Some (HVec l) ->
  step prog (mkst ip (ai :: aa :: stk) h o) =
  if (z <? 0) || (Z.of_nat (length l) <=? z)
  then SNext (ValueVM4.mkst (hsearch (x_tab X) ip 0) (aa :: stk) h o (set_exc fr ExIndexOob))
  else match nth_error l (Z.to_nat z) with
       | Some a => SNext (mkst (S ip) (a :: stk) h o)
       | None => SStuck end.
Proof. intros prog ip stk h o ai aa z l H H0 H1. unfold ValueVM4.step. simpl. rewrite H. simpl. rewrite H0, H1. reflexivity. Qed.

(* a[i]: the array, the index, ARRAYREF_DEREF 1 — the element cell's image, or index_out_of_bounds dispatched *)
Lemma case_EIndex : forall k a i, expr_spec k -> expr_case_at (S k) (EIndex a i).
Proof.
  intros k a b IH env st r st' He sc HF prog L ce ip stk h o m Hc HMS Hout Hem.
  cbn [Compile4.in_F] in HF.
  apply andb_true_iff in HF; destruct HF as [HF Fb].
  apply andb_true_iff in HF; destruct HF as [_ Fa].
  rewrite eval_EIndex in He.
  change (compile_expr fc L ce (EIndex a b))
    with (compile_expr fc L ce a ++ compile_expr fc (L + 1) ce b ++ [ins BYTECODE_ARRAYREF_DEREF 1 0]) in *.
  set (ca := compile_expr fc L ce a) in *. set (cb := compile_expr fc (L + 1) ce b) in *.
  destruct (eval genv k env st a) as [r1 st1] eqn:Ea.
  pose proof (IH a _ _ _ _ Ea sc Fa prog ip L ce (mkst ip stk h o) m
                (code_at_app_l _ _ _ _ Hc) eq_refl HMS Hout Hem) as Ha. fold ca in Ha.
  destruct r1 as [c1|ex| |]; simpl in Ha; [| inv He; simpl; exc_here Ha | inv He; exact I | inv He; exact I].
  destruct Ha as (s1 & m1 & a1 & Hst1 & Hip1 & Hstk1 & Hm1 & HMS1 & Hext1 & Hout1 & Hfr1).
  destruct s1 as [ip1 stk1 h1 o1 fr1]; simpl in Hip1, Hstk1, HMS1, Hout1, Hfr1; subst ip1 stk1 fr1.
  destruct (eval genv k env st1 b) as [r2 st2] eqn:Eb.
  assert (Hcb : code_at prog (ip + length ca) cb).
  { apply code_at_app_l with (c2 := [ins BYTECODE_ARRAYREF_DEREF 1 0]). apply code_at_app_r. exact Hc. }
  assert (Hcop : nth_error prog (ip + length ca + length cb) = Some (ins BYTECODE_ARRAYREF_DEREF 1 0)).
  { eapply code_at_head. apply code_at_app_r. apply code_at_app_r. exact Hc. }
  pose proof (IH b _ _ _ _ Eb sc Fb prog (ip + length ca)%nat (L + 1) ce
                (mkst (ip + length ca) (a1 :: stk) h1 o1) m1 Hcb eq_refl HMS1 Hout1
                (env_match_push _ _ _ _ _ _ _ _ _ a1 (env_match_ext _ _ _ _ _ _ _ _ _ _ Hem Hext1))) as Hb.
  fold cb in Hb.
  destruct r2 as [c2|ex| |]; simpl in Hb; [| inv He; simpl | inv He; exact I | inv He; exact I].
  2:{ destruct Hb as [_ Hr]. split; [reflexivity|]. eapply raises_star; [exact Hst1 | reflexivity | stk_ext | eapply raises_weaken; [exact Hr | lia | rewrite !app_length; lia] | ext_tac]. }
  destruct Hb as (s2 & m2 & a2 & Hst2 & Hip2 & Hstk2 & Hm2 & HMS2 & Hext2 & Hout2 & Hfr2).
  destruct s2 as [ip2 stk2 h2 o2 fr2]; simpl in Hip2, Hstk2, HMS2, Hout2, Hfr2; subst ip2 stk2 fr2.
  assert (Hm1' : vrel m2 c1 a1) by (eapply vrel_ext; eauto).
  assert (Hst : star prog (mkst ip stk h o) (mkst (ip + length ca + length cb) (a2 :: a1 :: stk) h2 o2))
    by (eapply star_trans; eauto).
  assert (Hext : ext m m2) by (eapply ext_trans; eauto).
  unfold index_result in He.
  destruct (vrel_kind _ _ _ _ _ HMS2 Hm1') as (v1 & Hcv1 & Hk1).
  unfold get_cell in He. rewrite Hcv1 in He.
  destruct v1 as [?|?|? ?|[ar|]|?]; try contradiction; try (destruct (get_int st2 c2); inv He; exact I).
  destruct (get_int st2 c2) as [z|] eqn:G2; [|inv He; exact I].
  pose proof (MS_payload_int _ _ _ _ _ _ HMS2 Hm2 G2) as P2.
  destruct (vrel_arr _ _ _ _ _ _ HMS2 Hm1' Hcv1) as (l & Hhl & Hrec).
  destruct (ms_arr _ _ _ HMS2 ar l Hrec) as (elems & Hel & HFel).
  rewrite Hel in He.
  assert (Hlen : length l = length elems) by (clear -HFel; induction HFel; simpl; congruence).
  pose proof (step_aderef prog (ip + length ca + length cb) stk h2 o2 a2 a1 z l Hcop P2 Hhl) as Hstep.
  rewrite Hlen in Hstep.
  destruct ((z <? 0) || (Z.of_nat (length elems) <=? z)) eqn:Eoob.
  - (* index_out_of_bounds *)
    inv He. simpl. split; [reflexivity|].
    exists (ValueVM4.mkst (hsearch (x_tab X) (ip + length ca + length cb) 0) (a1 :: stk) h2 (out st') (set_exc fr ExIndexOob)),
           (ip + length ca + length cb)%nat, m2, (r_fp fr).
    split; [eapply star_snoc; [exact Hst | exact Hstep]|]. split; [rewrite !app_length; simpl; lia|]. split; [reflexivity|].
    split; [simpl; rewrite set_fp_same; reflexivity|]. split; [reflexivity|].
    split; [exists a1, []; reflexivity|]. split; [reflexivity|]. split; [exact HMS2 | exact Hext].
  - destruct (nth_error elems (Z.to_nat z)) as [c|] eqn:En; [|inv He; exact I].
    inv He. simpl.
    destruct (Forall2_nth_l _ _ _ _ _ HFel En) as (ae & Hae & Hvae).
    rewrite Hae in Hstep.
    apply (post_ok_intro _ _ _ _ _ _ (mkst (S (ip + length ca + length cb)) (ae :: stk) h2 (out st')) m2 ae); simpl; auto.
    + eapply star_snoc; [exact Hst | exact Hstep].
    + rewrite !app_length. simpl. lia.
Qed.

(* ---- records (level 8) ---------------------------------------------------------------------------- *)

Lemma step_vderef : forall prog ip stk h o ar l k a,
  nth_error prog ip = Some (ins BYTECODE_VECREF_VEC_DEREF 0 (Z.of_nat k)) ->
  nth_error h ar = Some (HVec l) -> nth_error l k = Some a ->
  step prog (mkst ip (ar :: stk) h o) = SNext (mkst (S ip) (a :: ar :: stk) h o).
Proof.
  intros prog ip stk h o ar l k a H H0 H1. unfold ValueVM4.step. simpl v_ip. rewrite H.
  cbn [r_op ins r_w0 r_w1 v_stk v_heap ValueVM4.mkst]. rewrite (zn_nonneg 0), (zn_nonneg (Z.of_nat k)) by lia.
  change (Z.to_nat 0) with 0%nat. rewrite Nat2Z.id, H0, H1. reflexivity.
Qed.

Lemma step_nilrec : forall prog ip stk h o,
  nth_error prog ip = Some (ins0 BYTECODE_NIL_RECORD_REF) ->
  step prog (mkst ip stk h o) = SNext (mkst (S ip) (length h :: stk) (h ++ [HNil]) o).
Proof. intros prog ip stk h o H. unfold ValueVM4.step. simpl. rewrite H. reflexivity. Qed.

(* the nil record: NIL_RECORD_REF makes a new reference to nil; the evaluator a new cell CRec None *)
Lemma case_ERecNil : forall k rn, expr_case_at (S k) (ERecNil rn).
Proof.
  intros k rn env st r st' He sc HF prog L ce ip stk h o m Hc HMS Hout Hem.
  rewrite eval_ERecNil in He. cbn [Compile4.in_F] in HF.
  change (compile_expr fc L ce (ERecNil rn)) with [ins0 BYTECODE_NIL_RECORD_REF] in *.
  unfold fresh in He. destruct (alloc st (CRec None)) as [c st1] eqn:Ea. inv He. simpl.
  assert (Hrc : rcn = false -> CRec None <> CRec None) by (intros E; unfold rcn in E; rewrite HF in E; discriminate E).
  assert (Hs : forall fd cenv k0, CRec None = CFun fd cenv -> nth_error (g_all G) k0 = Some (KNamed, fd) ->
                 lookup (fd_name fd) cenv = Some c) by (intros fd cenv k0 E; discriminate E).
  destruct (MS_alloc_gen m st h (CRec None) HNil c st' [] HMS I Ea Hs Hrc) as (HMS' & Hm' & Hext' & Hout').
  cbn [length app] in HMS', Hm', Hext'. rewrite Nat.add_0_r in HMS', Hm', Hext'.
  eapply (post_ok_intro _ _ _ _ _ _ (mkst (S ip) (length h :: stk) (h ++ [HNil]) (out st)) _ (length h)); simpl;
    [ | lia | reflexivity | exact Hm' | exact HMS' | exact Hext' | congruence | reflexivity].
  apply star_one. apply step_nilrec. eapply code_at_head; eauto.
Qed.

Lemma step_vderef_nil : forall prog ip stk h o ar k,
  nth_error prog ip = Some (ins BYTECODE_VECREF_VEC_DEREF 0 (Z.of_nat k)) -> nth_error h ar = Some HNil ->
  step prog (mkst ip (ar :: stk) h o) =
  SNext (ValueVM4.mkst (hsearch (x_tab X) ip 0) (ar :: stk) h o (set_exc fr ExNil)).
Proof.
  intros prog ip stk h o ar k H H0. unfold ValueVM4.step. simpl v_ip. rewrite H.
  cbn [r_op ins r_w0 r_w1 v_stk v_heap ValueVM4.mkst]. rewrite (zn_nonneg 0), (zn_nonneg (Z.of_nat k)) by lia.
  change (Z.to_nat 0) with 0%nat. rewrite H0. reflexivity.
Qed.

(* r.f: the record, VECREF_VEC_DEREF 0 f (the field cell's image above the reference), SLIDE 1 1; on a nil record
   nil_pointer is dispatched *)
Lemma case_EField : forall k a rn fld, expr_spec k -> expr_case_at (S k) (EField a rn fld).
Proof.
  intros k a rn fld IH env st r st' He sc HF prog L ce ip stk h o m Hc HMS Hout Hem.
  cbn [Compile4.in_F] in HF. apply andb_true_iff in HF; destruct HF as [_ Fa].
  rewrite eval_EField in He.
  change (compile_expr fc L ce (EField a rn fld))
    with (compile_expr fc L ce a ++ [ins BYTECODE_VECREF_VEC_DEREF 0 (Z.of_nat fld); ins BYTECODE_SLIDE 1 1]) in *.
  set (ca := compile_expr fc L ce a) in *.
  destruct (eval genv k env st a) as [r1 st1] eqn:Ea.
  pose proof (IH a _ _ _ _ Ea sc Fa prog ip L ce (mkst ip stk h o) m
                (code_at_app_l _ _ _ _ Hc) eq_refl HMS Hout Hem) as Ha. fold ca in Ha.
  destruct r1 as [c1|ex| |]; simpl in Ha; [| inv He; simpl; exc_here Ha | inv He; exact I | inv He; exact I].
  destruct Ha as (s1 & m1 & a1 & Hst1 & Hip1 & Hstk1 & Hm1 & HMS1 & Hext1 & Hout1 & Hfr1).
  destruct s1 as [ip1 stk1 h1 o1 fr1]; simpl in Hip1, Hstk1, HMS1, Hout1, Hfr1; subst ip1 stk1 fr1.
  pose proof (code_at_app_r _ _ _ _ Hc) as Hc2.
  pose proof (code_at_head _ _ _ _ Hc2) as HVD.
  pose proof (code_at_head _ _ _ _ (code_at_tail _ _ _ _ Hc2)) as HSL.
  unfold field_result in He.
  destruct (vrel_kind _ _ _ _ _ HMS1 Hm1) as (v1 & Hcv1 & Hk1).
  unfold get_cell in He. rewrite Hcv1 in He.
  destruct v1 as [?|?|? ?|[?|]|[rr|]]; try contradiction; try (inv He; exact I).
  2:{ (* a nil record: nil_pointer *)
      inv He. simpl. split; [reflexivity|].
      pose proof (vrel_nil _ _ _ _ _ HMS1 Hm1 Hcv1) as Hnl.
      exists (ValueVM4.mkst (hsearch (x_tab X) (ip + length ca) 0) (a1 :: stk) h1 (out st') (set_exc fr ExNil)),
             (ip + length ca)%nat, m1, (r_fp fr).
      split; [eapply star_snoc; [exact Hst1 | apply (step_vderef_nil prog (ip + length ca) stk h1 (out st') a1 fld HVD Hnl)]|].
      split; [rewrite app_length; simpl; lia|]. split; [reflexivity|].
      split; [simpl; rewrite set_fp_same; reflexivity|]. split; [reflexivity|].
      split; [exists a1, []; reflexivity|]. split; [reflexivity|]. split; [exact HMS1 | exact Hext1]. }
  destruct (vrel_rec _ _ _ _ _ _ HMS1 Hm1 Hcv1) as (l & Hhl & Hrec).
  destruct (ms_rec _ _ _ HMS1 rr l Hrec) as (flds & Hfl & HFfl). rewrite Hfl in He.
  destruct (nth_error flds fld) as [c|] eqn:En; [|inv He; exact I].
  inv He. simpl.
  destruct (Forall2_nth_l _ _ _ _ _ HFfl En) as (af & Haf & Hvaf).
  apply (post_ok_intro _ _ _ _ _ _ (mkst (S (S (ip + length ca))) (af :: stk) h1 (out st')) m1 af); simpl; auto.
  - eapply star_trans; [exact Hst1|].
    eapply star_step; [apply (step_vderef prog (ip + length ca) stk h1 (out st') a1 l fld af HVD Hhl Haf)|].
    apply star_one. apply (step_slide_block prog (S (ip + length ca)) af [a1] stk h1 (out st') 1 HSL); [lia | reflexivity].
  - rewrite app_length. simpl. lia.
Qed.

Lemma items_F1_let : forall sc x e t, items_F (fc_self fc) lv sc (ILet x e :: t) =
  at6 lv (negb (mem_id x (int_vars (g_all G)))) &&
  (negb (is_fname FS x) && negb (self_is (fc_self fc) x) && in_F (fc_self fc) lv sc e && items_F (fc_self fc) lv (x :: sc) t).
Proof. reflexivity. Qed.
Lemma items_F1_var : forall sc x e t, items_F (fc_self fc) lv sc (IVar x e :: t) =
  at6 lv (negb (mem_id x (int_vars (g_all G))) || int_shaped e) &&
  (negb (is_fname FS x) && negb (self_is (fc_self fc) x) && in_F (fc_self fc) lv sc e && items_F (fc_self fc) lv (x :: sc) t).
Proof. reflexivity. Qed.
Lemma items_F1_expr : forall sc e t, items_F (fc_self fc) lv sc (IExpr e :: t) =
  in_F (fc_self fc) lv sc e && match t with [] => true | _ => items_F (fc_self fc) lv sc t end.
Proof. reflexivity. Qed.

Lemma nbinds_nonneg : forall l, 0 <= nbinds l.
Proof. induction l as [|i t IH]; [simpl; lia|]. destruct i; cbn [nbinds]; lia. Qed.

Lemma case_EBlock : forall k items, items_spec k -> expr_case_at (S k) (EBlock items).
Proof.
  intros k items IHi env st r st' He sc HF prog L ce ip stk h o m Hc HMS Hout Hem.
  rewrite eval_EBlock in He. rewrite compile_block in *.
  change (in_F (fc_self fc) lv sc (EBlock items)) with (items_F (fc_self fc) lv sc items) in HF.
  pose proof (IHi items env st None r st' He sc HF prog ip L ce (mkst ip stk h o) m
                (code_at_app_l _ _ _ _ Hc) eq_refl HMS Hout Hem) as Hi.
  destruct r as [c|ex| |]; simpl in Hi |- *; auto.
  - destruct Hi as (s1 & m1 & a & locals & Hst1 & Hip1 & Hstk1 & Hlen & Hm1 & HMS1 & Hext1 & Hout1 & Hfr1).
    destruct s1 as [ip1 stk1 h1 o1 fr1]; simpl in Hip1, Hstk1, HMS1, Hout1, Hfr1; subst ip1 stk1 fr1.
    pose proof (code_at_app_r _ _ _ _ Hc) as Hce.
    unfold block_end in *. destruct (0 <? nbinds items) eqn:En.
    + apply Z.ltb_lt in En.
      apply (post_ok_intro _ _ _ _ _ _ (mkst (S (ip + length (compile_items fc L ce items))) (a :: stk) h1 o1) m1 a);
        simpl; auto.
      * eapply star_snoc; [exact Hst1|]. eapply step_slide_block; eauto. eapply code_at_head; exact Hce.
      * rewrite app_length. simpl. lia.
    + apply Z.ltb_ge in En. pose proof (nbinds_nonneg items).
      assert (locals = []) by (destruct locals; [reflexivity | simpl in Hlen; lia]). subst locals.
      apply (post_ok_intro _ _ _ _ _ _ (mkst (ip + length (compile_items fc L ce items)) (a :: stk) h1 o1) m1 a);
        simpl; auto.
      rewrite app_nil_r. reflexivity.
  - destruct Hi as [_ Hr]. split; [reflexivity|].
    eapply raises_weaken; [exact Hr | lia | rewrite app_length; lia].
Qed.

Lemma eval_items_nil_inv : forall k env st c r st',
  eval_items genv k env st [] (Some c) = (r, st') -> r = RFuel \/ (r = ROk c /\ st' = st).
Proof.
  intros k env st c r st' H. destruct k.
  - rewrite eval_items_O in H. inv H. auto.
  - rewrite eval_items_nil in H. inv H. auto.
Qed.

(* one binding item followed by the rest of the block *)
Lemma items_bind_step : forall k x e t, expr_spec k -> items_spec k ->
  forall env st r st',
  match eval genv k env st e with
  | (ROk c, st1) => eval_items genv k ((x, c) :: env) st1 t (Some c)
  | r => r end = (r, st') ->
  forall sc, negb (is_fname FS x) && negb (self_is (fc_self fc) x) && in_F (fc_self fc) lv sc e && items_F (fc_self fc) lv (x :: sc) t = true ->
  (mem_id x IV = true -> int_shaped e = true) ->
  forall prog L ce ip stk h o m,
    code_at prog ip (compile_expr fc L ce e ++ compile_items fc (L + 1) ((x, L + 1) :: ce) t) ->
    MS m st h -> o = out st -> env_match m env ce sc L stk ->
    items_concl prog (mkst ip stk h o) ip
      (compile_expr fc L ce e ++ compile_items fc (L + 1) ((x, L + 1) :: ce) t) (1 + nbinds t) m r st'.
Proof.
  intros k x e t IHe IHi env st r st' He sc HF Hxi prog L ce ip stk h o m Hc HMS Hout Hem.
  apply andb_true_iff in HF; destruct HF as [HF Ft].
  apply andb_true_iff in HF; destruct HF as [HF Fe].
  apply andb_true_iff in HF; destruct HF as [Hnx Hsx]. apply negb_true_iff in Hnx. apply negb_true_iff in Hsx.
  set (ca := compile_expr fc L ce e) in *. set (ct := compile_items fc (L + 1) ((x, L + 1) :: ce) t) in *.
  destruct (eval genv k env st e) as [r1 st1] eqn:Ea.
  pose proof (IHe e _ _ _ _ Ea sc Fe prog ip L ce (mkst ip stk h o) m
                (code_at_app_l _ _ _ _ Hc) eq_refl HMS Hout Hem) as Ha. fold ca in Ha.
  destruct r1 as [c1|ex| |]; simpl in Ha; [| inv He; simpl; exc_here Ha | inv He; exact I | inv He; exact I].
  destruct Ha as (s1 & m1 & a1 & Hst1 & Hip1 & Hstk1 & Hm1 & HMS1 & Hext1 & Hout1 & Hfr1).
  destruct s1 as [ip1 stk1 h1 o1 fr1]; simpl in Hip1, Hstk1, HMS1, Hout1, Hfr1; subst ip1 stk1 fr1.
  (* a name that may be assigned to: its cell, an int cell, is recorded *)
  assert (Hadd : exists m1', MS m1' st1 h1 /\ ext m1 m1' /\ (mem_id x IV = true -> In c1 (mi m1'))).
  { destruct (mem_id x IV) eqn:Exi.
    - destruct (vrel_kind _ _ _ _ _ HMS1 Hm1) as (v & Hcv & _).
      assert (Hiv : is_intv v = true) by (eapply int_shaped_cell; [apply Hxi; reflexivity | exact Ea | exact Hcv]).
      destruct (MS_addint m1 st1 h1 c1 v HMS1 Hcv ltac:(destruct v; try discriminate Hiv; exact I)) as (A & B & C).
      eexists. split; [exact A|]. split; [exact B|]. intros _. exact C.
    - exists m1. split; [exact HMS1|]. split; [apply ext_refl|]. intros Hx; discriminate Hx. }
  destruct Hadd as (m1' & HMS1' & Hext1' & Hci).
  assert (Hext1n : ext m m1') by (eapply ext_trans; [exact Hext1 | exact Hext1']).
  assert (Hm1n : vrel m1' c1 a1) by (eapply vrel_ext; [exact Hext1' | exact Hm1]).
  clear Hext1 Hm1 HMS1 Hext1'. clear m1. rename m1' into m1. rename Hext1n into Hext1. rename Hm1n into Hm1. rename HMS1' into HMS1.
  pose proof (IHi t _ _ _ _ _ He (x :: sc) Ft prog (ip + length ca)%nat (L + 1) ((x, L + 1) :: ce)
                (mkst (ip + length ca) (a1 :: stk) h1 o1) m1 (code_at_app_r _ _ _ _ Hc) eq_refl HMS1 Hout1
                (env_match_bind _ _ _ _ _ _ _ _ _ x c1 a1 (env_match_ext _ _ _ _ _ _ _ _ _ _ Hem Hext1) Hm1 Hnx Hsx Hci)) as Ht.
  fold ct in Ht. unfold items_concl in Ht |- *.
  destruct r as [c|ex| |]; cbv beta iota in Ht |- *; auto.
  - destruct Ht as (s2 & m2 & a2 & locals & Hst2 & Hip2 & Hstk2 & Hlen & Hm2 & HMS2 & Hext2 & Hout2 & Hfr2).
    destruct s2 as [ip2 stk2 h2 o2 fr2]; simpl in Hip2, Hstk2, HMS2, Hout2, Hfr2; subst ip2 stk2 fr2.
    exists (mkst (ip + length ca + length ct) (a2 :: locals ++ a1 :: stk) h2 o2), m2, a2, (locals ++ [a1]).
    cbn [v_ip v_stk v_heap v_out v_fr ValueVM4.mkst]. split; [eapply star_trans; eauto|]. split; [rewrite app_length; lia|].
    split; [rewrite <- app_assoc; reflexivity|]. split; [rewrite app_length; cbn [length]; lia|].
    split; [exact Hm2|]. split; [exact HMS2|]. split; [eapply ext_trans; eauto|]. split; [exact Hout2 | reflexivity].
  - destruct Ht as [_ Hr]. split; [reflexivity|]. eapply raises_star; [exact Hst1 | reflexivity | stk_ext | eapply raises_weaken; [exact Hr | lia | rewrite app_length; lia] | ext_tac].
Qed.

Lemma Forall2_build : forall {A B} (P : A -> B -> Prop) (l : list A),
  (forall x, In x l -> exists y, P x y) -> exists l', Forall2 P l l'.
Proof.
  intros A B P l. induction l as [|x t IH]; intros H.
  - exists []. constructor.
  - destruct (H x (or_introl eq_refl)) as (y & Hy).
    destruct IH as (l' & Hl'); [intros; apply H; simpl; auto|]. exists (y :: l'). constructor; auto.
Qed.

(* ---- closures: a function expression ---------------------------------------------------------- *)

(* the cells a closure captures: where the emitted captures find them, and what the evaluator binds *)
Lemma env_addrs : forall (m : morph) (env : Eval.env) ce sc L stk l,
  env_match m env ce sc L stk -> forallb (fun y => mem_id y sc) l = true ->
  exists addrs, Forall2 (resolves fc L ce stk gl) l addrs /\
                Forall2 (fun y a => exists c, lookup y env = Some c /\ vrel m c a /\ (mem_id y IV = true -> In c (mi m))) l addrs.
Proof.
  intros m env ce sc L stk l Hem. induction l as [|y t IH]; intros H.
  - exists []. split; constructor.
  - simpl in H. apply andb_true_iff in H. destruct H as [Hy Ht].
    destruct (IH Ht) as (addrs & H1 & H2).
    destruct (proj1 Hem y Hy) as (c & a & Hl & Hm & Hacc).
    exists (a :: addrs). split; constructor; eauto.
    2:{ exists c. split; [exact Hl|]. split; [exact Hm|]. intros Hyi.
        exact (proj2 (proj2 (proj2 (proj2 (proj2 (proj2 (proj2 Hem)))))) y c Hy Hyi Hl). }
    unfold access in Hacc. unfold resolves. destruct (clookup y ce); [exact Hacc | exact (conj (proj1 Hacc) (proj2 (proj2 Hacc)))].
Qed.

(* ---- closures that capture the running named nested function (the repaired emitter) ---------------- *)

Lemma Forall2_imp_in : forall {A B} (P Q : A -> B -> Prop) l l',
  (forall x y, In x l -> P x y -> Q x y) -> Forall2 P l l' -> Forall2 Q l l'.
Proof.
  intros A B P Q l l' H HF. induction HF; constructor.
  - apply H; [left; reflexivity | assumption].
  - apply IHHF. intros x0 y0 Hin. apply H. right. exact Hin.
Qed.

(* the index of the running function, when its name can be captured at all *)
Lemma self_idx : forall prog m (env : Eval.env) ce sc L stk, prog_ok prog -> env_match m env ce sc L stk ->
  exists ks, forall y, self_is (fc_self fc) y = true -> clookup y ce = None -> Compile4.fidx FT y = Z.of_nat ks.
Proof.
  intros prog m env ce sc L stk Hpo Hem.
  destruct (fc_self fc) as [f|] eqn:Ef.
  - destruct (clookup f ce) eqn:Ecl.
    + exists 0%nat. intros y Hy Hc. cbn [self_is] in Hy. apply N.eqb_eq in Hy. subst. congruence.
    + destruct (proj1 (proj2 (proj2 (proj2 (proj2 (proj2 Hem))))) f Ef Ecl)
        as (cf & kself & sfd & scenv & _ & _ & Hname & Hk & _).
      exists (nstd + kself)%nat. intros y Hy _. cbn [self_is] in Hy. apply N.eqb_eq in Hy. subst y.
      rewrite <- Hname. apply (po_named _ Hpo kself KNamed sfd Hk).
  - exists 0%nat. intros y Hy. discriminate Hy.
Qed.

(* what a capture yields: the image of the cell of a name in scope, or — for the running function itself — the
   copy made at heap address hl *)
Definition cap_rel (m : morph) (env : Eval.env) (ce : cenv) (hl : nat) (y : ident) (a : nat) : Prop :=
  exists c, lookup y env = Some c /\
    (vrel m c a \/ (clookup y ce = None /\ self_is (fc_self fc) y = true /\ a = hl)) /\
    (mem_id y IV = true -> In c (mi m)).

Lemma env_addrs_s : forall (m : morph) (env : Eval.env) ce sc L stk l hl,
  env_match m env ce sc L stk ->
  forallb (fun y => mem_id y sc || (cp && self_is (fc_self fc) y)) l = true ->
  exists addrs, Forall2 (resolves_s fc L ce stk gl hl) l addrs /\ Forall2 (cap_rel m env ce hl) l addrs.
Proof.
  intros m env ce sc L stk l hl Hem. induction l as [|y t IH]; intros H.
  - exists []. split; constructor.
  - simpl in H. apply andb_true_iff in H. destruct H as [Hy Ht].
    destruct (IH Ht) as (addrs & H1 & H2).
    destruct (mem_id y sc) eqn:Eys.
    + destruct (proj1 Hem y Eys) as (c & a & Hl & Hm & Hacc).
      exists (a :: addrs). split; constructor; auto.
      * unfold access in Hacc. unfold resolves_s. destruct (clookup y ce); [exact Hacc|].
        destruct Hacc as (Hs & _ & Hn). rewrite Hs. exact Hn.
      * exists c. split; [exact Hl|]. split; [left; exact Hm|]. intros Hyi.
        exact (proj2 (proj2 (proj2 (proj2 (proj2 (proj2 (proj2 Hem)))))) y c Eys Hyi Hl).
    + cbn [orb] in Hy. apply andb_true_iff in Hy. destruct Hy as [_ Hsy].
      assert (Hcl : clookup y ce = None).
      { destruct (clookup y ce) as [i|] eqn:E; [|reflexivity].
        destruct Hem as (_ & _ & _ & _ & Hce & _). destruct (Hce y i E) as [_ Hx]. congruence. }
      assert (Hfs : fc_self fc = Some y).
      { unfold self_is in Hsy. destruct (fc_self fc) as [g|]; [|discriminate]. apply N.eqb_eq in Hsy. congruence. }
      destruct (proj1 (proj2 (proj2 (proj2 (proj2 (proj2 Hem))))) y Hfs Hcl)
        as (cf & kself & sfd & scenv & Hlf & _ & _ & _ & _ & _ & _ & Hniv).
      exists (hl :: addrs). split; constructor; auto.
      * unfold resolves_s. rewrite Hcl, Hsy. reflexivity.
      * exists cf. split; [exact Hlf|]. split; [right; auto|]. intros Hyi. congruence.
Qed.

(* the copy of the running function a closure captures, if it does *)
Lemma self_copy : forall prog m st h (env : Eval.env) ce sc L stk ks (l : list ident),
  prog_ok prog -> MS m st h -> env_match m env ce sc L stk ->
  (forall y, self_is (fc_self fc) y = true -> clookup y ce = None -> Compile4.fidx FT y = Z.of_nat ks) ->
  forallb (fun y => mem_id y sc || (cp && self_is (fc_self fc) y)) l = true ->
  exists m1, MS m1 st (h ++ if selfcap fc ce l then [HFun (r_gp fr) (faddr ks)] else []) /\ ext m m1 /\
    (forall y c, In y l -> clookup y ce = None -> self_is (fc_self fc) y = true -> lookup y env = Some c ->
                 In (length h, c) (mc m1)).
Proof.
  intros prog m st h env ce sc L stk ks l Hpo HMS Hem Hks Hfv.
  destruct (selfcap fc ce l) eqn:Hs.
  2:{ exists m. rewrite app_nil_r. split; [exact HMS|]. split; [apply ext_refl|].
      intros y c Hin Hcl Hsy _. exfalso.
      assert (Hx : selfcap fc ce l = true).
      { unfold selfcap. apply existsb_exists. exists y. split; [exact Hin|]. rewrite Hcl. exact Hsy. }
      congruence. }
  unfold selfcap in Hs. apply existsb_exists in Hs. destruct Hs as (y & Hin & Hy).
  destruct (clookup y ce) eqn:Hcl; [discriminate|].
  assert (Hfs : fc_self fc = Some y).
  { unfold self_is in Hy. destruct (fc_self fc) as [g|]; [|discriminate]. apply N.eqb_eq in Hy. congruence. }
  assert (Hysc : mem_id y sc = false).
  { destruct (mem_id y sc) eqn:E; [|reflexivity]. destruct (proj1 Hem y E) as (c & a & _ & _ & Hacc).
    unfold access in Hacc. rewrite Hcl in Hacc. destruct Hacc as (Hx & _). congruence. }
  assert (Hcp : cp = true).
  { rewrite forallb_forall in Hfv. specialize (Hfv y Hin). rewrite Hysc in Hfv. cbn [orb] in Hfv.
    apply andb_true_iff in Hfv. exact (proj1 Hfv). }
  destruct (proj1 (proj2 (proj2 (proj2 (proj2 (proj2 Hem))))) y Hfs Hcl)
    as (cf & kself & sfd & scenv & Hlf & Hrec & Hname & Hk & Hgv & HFv & Hnf & _).
  pose proof (po_named _ Hpo kself KNamed sfd Hk) as Hfi. rewrite Hname in Hfi.
  assert (Eks : ks = (nstd + kself)%nat) by (pose proof (Hks y Hy Hcl) as Hx; rewrite Hfi in Hx; lia).
  subst ks.
  assert (Hcell : nth_error (cells st) cf = Some (CFun sfd scenv)).
  { destruct (ms_fcl _ _ _ HMS _ _ _ Hrec) as [Hx | (Hx & _)]; [exact Hx | congruence]. }
  assert (Hfr : CompileCorrect4Rel.fun_rel (g_all G) (x_ftab X) TL FS cp m sfd scenv (r_gp fr) (faddr (nstd + kself))).
  { split; [exists kself, KNamed; split; [discriminate | split; [exact Hk | reflexivity]]|].
    split; [exact Hnf|]. exists gl. split; [exact Hgv | exact HFv]. }
  destruct (MS_copy m st h cf sfd scenv (r_gp fr) (faddr (nstd + kself)) [] HMS Hcp Hcell
              (or_intror (conj Hfr Hrec))) as (HMS' & _ & Hext').
  cbn [length app] in HMS', Hext'. rewrite Nat.add_0_r in HMS', Hext'.
  eexists. split; [exact HMS'|]. split; [exact Hext'|].
  intros y' c _ Hcl' Hsy' Hl'. cbn [mc]. apply in_or_app. right. left.
  assert (y' = y). { unfold self_is in Hsy'. rewrite Hfs in Hsy'. apply N.eqb_eq in Hsy'. exact Hsy'. }
  subst y'. rewrite Hlf in Hl'. inversion Hl'. reflexivity.
Qed.

Lemma cap_rel_vrel : forall m m1 (env : Eval.env) ce hl l addrs, ext m m1 ->
  (forall y c, In y l -> clookup y ce = None -> self_is (fc_self fc) y = true -> lookup y env = Some c ->
               In (hl, c) (mc m1)) ->
  Forall2 (cap_rel m env ce hl) l addrs ->
  Forall2 (fun y a => exists c, lookup y env = Some c /\ vrel m1 c a /\ (mem_id y IV = true -> In c (mi m1))) l addrs.
Proof.
  intros m m1 env ce hl l addrs Hext Hcp HF. eapply Forall2_imp_in; [|exact HF].
  intros y a Hin (c & Y1 & Y2 & Y3). exists c. split; [exact Y1|]. split.
  - destruct Y2 as [Y2 | (E1 & E2 & ->)]; [eapply vrel_ext; eauto|]. right. apply (Hcp y c Hin E1 E2 Y1).
  - intros Yi. eapply ext_mi; eauto.
Qed.

(* the running function's closure, when a closure captures it *)
Lemma self_data : forall prog m (st : state) (env : Eval.env) ce sc L stk ks y,
  prog_ok prog ->
  (forall c fd cenv, In (c, (fd, cenv)) (mf m) -> nth_error (cells st) c = Some (CFun fd cenv)) ->
  env_match m env ce sc L stk ->
  (forall y, self_is (fc_self fc) y = true -> clookup y ce = None -> Compile4.fidx FT y = Z.of_nat ks) ->
  clookup y ce = None -> self_is (fc_self fc) y = true ->
  exists cf sfd scenv, lookup y env = Some cf /\ nth_error (cells st) cf = Some (CFun sfd scenv) /\
    CompileCorrect4Rel.fun_rel (g_all G) (x_ftab X) TL FS cp m sfd scenv (r_gp fr) (faddr ks) /\
    In (cf, (sfd, scenv)) (mf m).
Proof.
  intros prog m st env ce sc L stk ks y Hpo Hfcl Hem Hks Hcl Hy.
  assert (Hfs : fc_self fc = Some y).
  { unfold self_is in Hy. destruct (fc_self fc) as [g|]; [|discriminate]. apply N.eqb_eq in Hy. congruence. }
  destruct (proj1 (proj2 (proj2 (proj2 (proj2 (proj2 Hem))))) y Hfs Hcl)
    as (cf & kself & sfd & scenv & Hlf & Hrec & Hname & Hk & Hgv & HFv & Hnf & _).
  pose proof (po_named _ Hpo kself KNamed sfd Hk) as Hfi. rewrite Hname in Hfi.
  assert (Eks : ks = (nstd + kself)%nat) by (pose proof (Hks y Hy Hcl) as Hx; rewrite Hfi in Hx; lia).
  subst ks. exists cf, sfd, scenv. split; [exact Hlf|]. split; [exact (Hfcl _ _ _ Hrec)|].
  split; [|exact Hrec].
  split; [exists kself, KNamed; split; [discriminate | split; [exact Hk | reflexivity]]|].
  split; [exact Hnf|]. exists gl. split; [exact Hgv | exact HFv].
Qed.

Lemma Forall2_conj : forall {A B} (P Q : A -> B -> Prop) l l', Forall2 P l l' -> Forall2 Q l l' ->
  Forall2 (fun x y => P x y /\ Q x y) l l'.
Proof.
  intros A B P Q l l' H1. induction H1; intros H2; inversion H2; subst; constructor; auto.
Qed.

Lemma rrP_length : forall (P : nat -> ident -> nat -> Prop) ce rest hl addrss,
  rrP TL fc P ce hl rest addrss -> length addrss = length rest.
Proof.
  intros P ce rest. induction rest as [|f t IH]; intros hl addrss H; destruct addrss as [|ad at_]; simpl in *;
    try contradiction; auto.
  f_equal. eapply IH. exact (proj2 H).
Qed.

(* the captures of every function of a run *)
Lemma env_addrs_run : forall (m : morph) (env : Eval.env) ce sc L stk fds hl,
  env_match m env ce sc L stk ->
  (forall f, In f fds -> forallb (fun y => mem_id y sc || (cp && self_is (fc_self fc) y)) (fvs_fd TL f) = true) ->
  exists addrss, rrP TL fc (fun hl y a => resolves_s fc L ce stk gl hl y a /\ cap_rel m env ce hl y a) ce hl fds addrss.
Proof.
  intros m env ce sc L stk fds. induction fds as [|f t IH]; intros hl Hem Hfv.
  - exists []. exact I.
  - destruct (env_addrs_s m env ce sc L stk _ hl Hem (Hfv f (or_introl eq_refl))) as (ad & A & B).
    destruct (IH (hl + grow TL fc ce f)%nat Hem (fun g Hg => Hfv g (or_intror Hg))) as (at_ & C).
    exists (ad :: at_). split; [apply Forall2_conj; assumption | exact C].
Qed.

Lemma case_ELambda : forall k fd, expr_case_at (S k) (ELambda fd).
Proof.
  intros k fd env st r st' He sc HF prog L ce ip stk h o m Hc HMS Hout Hem.
  rewrite eval_ELambda in He. cbn [Compile4.in_F] in HF.
  apply andb_true_iff in HF; destruct HF as [HF Hfv]. apply andb_true_iff in HF; destruct HF as [_ Hkn].
  change (compile_expr fc L ce (ELambda fd)) with (closure_code FT TL fc L ce fd) in *.
  destruct (known_nth _ _ _ Hkn) as (kk & Hkk). pose proof Hc as (Hcc & Hpo).
  pose proof (po_named _ Hpo kk KLam fd Hkk) as Hfi.
  destruct (self_idx prog m env ce sc L stk Hpo Hem) as (ks & Hks).
  destruct (env_addrs_s m env ce sc L stk _ (length h) Hem Hfv) as (addrs & HR & HL).
  pose proof (CompileCorrect4Base.closure_run_s X prog FT TL fc ce stk gl h o fr L fd addrs ip (nstd + kk) ks
                (fvs_fd_NoDup TL fd) Hks (gp_vec _ _ _ _ _ _ _ _ HMS Hem) HR Hfi Hcc) as R.
  cbv zeta in R.
  destruct (self_copy prog m st h env ce sc L stk ks _ Hpo HMS Hem Hks Hfv) as (m1 & HMS1 & Hext1 & Hcp1).
  set (cps := if selfcap fc ce (fvs_fd TL fd) then [HFun (r_gp fr) (faddr ks)] else []) in *.
  pose proof (cap_rel_vrel m m1 env ce (length h) _ _ Hext1 Hcp1 HL) as HL1.
  unfold fresh in He. destruct (alloc st (CFun fd env)) as [c st1] eqn:Ea. inv He. simpl.
  assert (Hfa : fun_addr fd (faddr (nstd + kk))) by (exists kk, KLam; split; [discriminate | split; [exact Hkk | reflexivity]]).
  assert (Hnn : forall k0, nth_error (g_all G) k0 <> Some (KNamed, fd)).
  { intros k0 Hk0. pose proof (po_named _ Hpo k0 KNamed fd Hk0) as Hx. rewrite Hfi in Hx.
    assert (k0 = kk) by lia. subst k0. congruence. }
  destruct (MS_closure m1 st (h ++ cps) fd env addrs (faddr (nstd + kk)) c st' HMS1 Ea Hfa (proj1 (proj2 Hem)) Hnn HL1)
    as (HMS' & Hm' & Hext & Hout').
  rewrite app_length in HMS', Hm', Hext. rewrite <- app_assoc in HMS'.
  eapply (post_ok_intro _ _ _ _ _ _ _ _ (S (length h + length cps)) R); simpl;
    [reflexivity | reflexivity | exact Hm' | exact HMS' | eapply ext_trans; [exact Hext1 | exact Hext] | congruence | reflexivity].
Qed.

(* ---- closures: a run of sibling functions ------------------------------------------------------- *)

Lemma items_F_pending : forall t sc,
  Compile4.items_F_f FS TL (g_all G) (fc_self fc) lv (in_F (fc_self fc) lv) sc (length (run_funcs t)) t = items_F (fc_self fc) lv sc (run_rest t).
Proof.
  induction t as [|it t IH]; intros sc; [reflexivity|].
  destruct it as [x e | x e | fd | e]; try reflexivity.
  cbn [run_funcs run_rest length Compile4.items_F_f]. apply IH.
Qed.

Lemma nbinds_run : forall t, nbinds t = Z.of_nat (length (run_funcs t)) + nbinds (run_rest t).
Proof.
  induction t as [|it t IH]; [reflexivity|]. destruct it as [x e | x e | fd | e]; try (simpl; lia).
  cbn [nbinds run_funcs run_rest length]. rewrite IH. lia.
Qed.

Lemma nth_error_combine : forall {A B} (l1 : list A) (l2 : list B) j a b,
  nth_error l1 j = Some a -> nth_error l2 j = Some b -> nth_error (combine l1 l2) j = Some (a, b).
Proof.
  intros A B l1. induction l1 as [|x t IH]; intros l2 j a b H1 H2; destruct j, l2; simpl in *; try discriminate.
  - inversion H1; inversion H2; reflexivity.
  - apply IH; assumption.
Qed.

Lemma In_combine_nth : forall {A B} (l1 : list A) (l2 : list B) a b, In (a, b) (combine l1 l2) ->
  exists j, nth_error l1 j = Some a /\ nth_error l2 j = Some b.
Proof.
  intros A B l1. induction l1 as [|x t IH]; intros l2 a b H; destruct l2; simpl in H; try contradiction.
  destruct H as [H | H]; [inversion H; exists 0%nat; auto|].
  destruct (IH _ _ _ H) as (j & H1 & H2). exists (S j). auto.
Qed.

(* the run itself: from the ALLOC to the state in which the slots are filled, for the items of any block
   (ordinary or in tail position): the states are related again and the extended environment is related at the
   level after the run *)
Lemma run_prefix : forall fd t env st sc, items_F (fc_self fc) lv sc (IFunc fd :: t) = true ->
  forall prog L ce ip stk h o m,
    let fds := fd :: run_funcs t in
    let kk := length fds in
    let L' := L + Z.of_nat kk in
    let ce' := func_cenv fds (L + 1) ce in
    let rc := run_code_f (closure_code FT TL fc L' ce') fds kk in
    let Sk := rev (seq (length h) kk) ++ stk in
    CompileCorrect4Base.code_at prog ip (ins BYTECODE_ALLOC (Z.of_nat kk) 0 :: rc) -> prog_ok prog ->
    MS m st h -> env_match m env ce sc L stk ->
    exists H' m',
      star prog (mkst ip stk h o) (mkst (ip + S (length rc)) Sk H' o) /\
      MS m' (run_state fds env st) H' /\
      env_match m' (run_env fds env st) ce' (map fd_name fds ++ sc) L' Sk /\ ext m m' /\
      items_F (fc_self fc) lv (map fd_name fds ++ sc) (run_rest t) = true.
Proof.
  intros fd t env st sc HF prog L ce ip stk h o m fds kk L' ce' rc Sk Hc1 Hpo HMS Hem.
  (* the fragment *)
  unfold Compile4.items_F in HF. cbn [Compile4.items_F_f] in HF. cbv zeta in HF. fold fds in HF.
  apply andb_true_iff in HF; destruct HF as [HF HFr]. apply andb_true_iff in HF; destruct HF as [_ Hrun].
  rewrite items_F_pending in HFr.
  apply andb_true_iff in Hrun; destruct Hrun as [Hrun H6].
  unfold run_ok in Hrun. apply andb_true_iff in Hrun; destruct Hrun as [Hrun Hfv].
  apply andb_true_iff in Hrun; destruct Hrun as [Hnd Hnames].
  apply nodup_ids_NoDup in Hnd.
  assert (Hnew : forall f, In f fds -> mem_id (fd_name f) sc = false /\ is_fname (g_sigs G) (fd_name f) = false /\
                                        self_is (fc_self fc) (fd_name f) = false /\ mem_id (fd_name f) IV = false).
  { intros f Hf. rewrite forallb_forall in Hnames. specialize (Hnames (fd_name f) (in_map fd_name _ _ Hf)).
    apply andb_true_iff in Hnames. destruct Hnames as [AB C]. apply andb_true_iff in AB. destruct AB as [A B].
    apply negb_true_iff in A, B, C. split; [exact B|]. split; [exact A|]. split; [exact C|].
    destruct (mem_id (fd_name f) IV) eqn:Ei; [|reflexivity]. destruct (at6_iv _ _ H6 Ei) as [A' B'].
    rewrite forallb_forall in B'. specialize (B' f Hf). rewrite A' in B'. discriminate B'. }
  (* the evaluator *)
  set (e' := run_env fds env st) in *. set (st1 := run_state fds env st) in *.
  assert (Hlen := ms_len _ _ _ HMS).
  (* the extended environment, for any recorded vectors and copies *)
  assert (Hem' : forall nv nf ncp, CompileCorrect4Rel.env_match G IV fc (r_gp fr) gl
                   {| mm := mm m ++ map MA (seq (length h) kk); mv := mv m ++ nv; mf := mf m ++ nf; mc := mc m ++ ncp; mi := mi m; mar := mar m; mrc := mrc m |} e' ce'
                   (map fd_name fds ++ sc) L' Sk).
  { intros nv nf ncp. apply (env_match_run G IV fc (r_gp fr) gl m env ce sc L stk fds st h nv nf ncp Hem Hnd Hnew Hlen). }
  (* what every function of the run captures *)
  set (m0 := {| mm := mm m ++ map MA (seq (length h) kk); mv := mv m ++ []; mf := mf m ++ []; mc := mc m ++ []; mi := mi m; mar := mar m; mrc := mrc m |}).
  assert (Hfv' : forall f, In f fds ->
            forallb (fun y => mem_id y (map fd_name fds ++ sc) || (cp && self_is (fc_self fc) y)) (fvs_fd TL f) = true).
  { intros f Hf. rewrite forallb_forall in Hfv. specialize (Hfv f Hf). apply andb_true_iff in Hfv. exact (proj2 Hfv). }
  destruct (self_idx prog m0 e' ce' _ L' Sk Hpo (Hem' [] [] [])) as (kself & Hks).
  destruct (env_addrs_run m0 e' ce' _ L' Sk fds (length h + kk)%nat (Hem' [] [] []) Hfv') as (addrss & HA).
  destruct (Forall2_build (fun f (kidx : nat) => nth_error (g_all G) kidx = Some (KNamed, f)) fds) as (ks0 & HK0).
  { intros f Hf. rewrite forallb_forall in Hfv. specialize (Hfv f Hf). apply andb_true_iff in Hfv. destruct Hfv as [Hkn _].
    apply known_nth in Hkn. exact Hkn. }
  set (ks := map (fun i => (nstd + i)%nat) ks0).
  assert (HK : Forall2 (fun f kidx => Compile4.fidx FT (fd_name f) = Z.of_nat kidx) fds ks).
  { unfold ks. clear -HK0 Hpo. induction HK0; simpl; constructor; auto. eapply (po_named _ Hpo); eauto. }
  assert (HA1 : rr TL fc L' ce' Sk gl (length h + kk) fds addrss).
  { unfold rr. eapply rrP_imp; [|exact HA]. intros ? ? ? [? ?]; assumption. }
  destruct (CompileCorrect4Base.sibling_run_s X prog FT TL fc ce' gl stk h o fr L' fds addrss ks ip kself Hks
              (fun f _ => fvs_fd_NoDup TL f) (gp_vec _ _ _ _ _ _ _ _ HMS Hem) HA1 HK Hc1) as (H' & Hst & Hlow & Hfill).
  fold kk Sk rc in Hst. fold kk in Hfill.
  destruct (CompileCorrect4Base.filled_vecs X addrss ks H' _ _ (filled_s_filled X TL fc _ _ _ _ _ _ _ _ _ _ Hfill))
    as (vs & Hlvs & Hvs).
  (* the cell of the running function's own closure *)
  set (cf := match fc_self fc with
             | Some f => match lookup f e' with Some c => c | None => 0%nat end
             | None => 0%nat end).
  set (ncp := cps_of TL fc cf ce' (length h + kk) fds).
  set (nv := combine vs addrss).
  set (nf := combine (seq (length (cells st)) kk) (map (fun f => (f, e')) fds)).
  set (m' := {| mm := mm m ++ map MA (seq (length h) kk); mv := mv m ++ nv; mf := mf m ++ nf; mc := mc m ++ ncp; mi := mi m; mar := mar m; mrc := mrc m |}).
  assert (Hext : ext m m') by ext_solve.
  assert (Hext0' : ext m0 m').
  { unfold ext, m0, m'. cbn [mm mv mf mc mi]. rewrite !app_nil_r. repeat split; first [exists []; now rewrite app_nil_r | eexists; reflexivity]. }
  assert (Hfcl0 : cp = true -> forall c fd0 cenv, In (c, (fd0, cenv)) (mf m0) -> nth_error (cells st) c = Some (CFun fd0 cenv)).
  { intros Hcp c fd0 cenv Hin. unfold m0 in Hin. cbn [mf] in Hin. rewrite app_nil_r in Hin.
    destruct (ms_fcl _ _ _ HMS _ _ _ Hin) as [Hx | (Hx & _)]; [exact Hx | congruence]. }
  assert (Hl2 : length ks = kk) by (unfold kk; symmetry; clear -HK; induction HK; simpl; auto).
  assert (Hl1 : length addrss = kk) by (unfold kk; eapply rrP_length; exact HA).
  (* a function of the run that captures the running function: the copies are in the fragment *)
  assert (Hwit : forall f, In f fds -> selfcap fc ce' (fvs_fd TL f) = true ->
            exists y, In y (fvs_fd TL f) /\ clookup y ce' = None /\ self_is (fc_self fc) y = true /\ cp = true).
  { intros f Hf Hs. unfold selfcap in Hs. apply existsb_exists in Hs. destruct Hs as (y & Hin & Hy).
    destruct (clookup y ce') eqn:Hcl; [discriminate|]. exists y. split; [exact Hin|]. split; [exact Hcl|]. split; [exact Hy|].
    specialize (Hfv' f Hf). rewrite forallb_forall in Hfv'. specialize (Hfv' y Hin).
    destruct (mem_id y (map fd_name fds ++ sc)) eqn:E.
    - exfalso. destruct (proj1 (Hem' [] [] []) y E) as (c & a & _ & _ & Hacc).
      unfold access in Hacc. rewrite Hcl in Hacc. destruct Hacc as (Hx & _). congruence.
    - cbn [orb] in Hfv'. apply andb_true_iff in Hfv'. exact (proj1 Hfv'). }
  exists H', m'. split; [exact Hst|]. split; [|split; [exact (Hem' nv nf ncp) | split; [exact Hext | exact HFr]]].
  (* the states are related again *)
  unfold st1, run_state. fold e'.
  apply (MS_run m st h H' fds env nv ncp HMS Hnd Hlow).
  - intros v l Hin. destruct (In_combine_nth _ _ _ _ Hin) as (j & Hv & Ha).
    destruct (nth_error ks j) as [kj|] eqn:Ek; [|apply nth_error_None in Ek; assert (j < length addrss)%nat by (apply nth_error_Some; congruence); lia].
    destruct (Hvs j l kj Ha Ek) as (v' & A & _ & C). congruence.
  - exact (proj1 (proj2 (Hem' [] [] []))).
  - intros j f Hj.
    destruct (run_facts X TL fc _ ce' (r_gp fr) kself fds addrss ks H' _ _ _ HA Hfill j f Hj)
      as (ad & kj & v0 & Had & Hkj & HPQ & _ & _ & _ & _).
    destruct (Forall2_nth_l _ _ _ _ _ HK0 Hj) as (k0 & Hk0 & Hg0).
    assert (Hkj' : nth_error ks j = Some (nstd + k0)%nat) by (unfold ks; rewrite nth_error_map, Hk0; reflexivity).
    destruct (Hvs j ad _ Had Hkj') as (v & A & B & C).
    exists v, ad, (faddr (nstd + k0)). split; [exact B|]. split; [unfold nv; eapply nth_error_In, nth_error_combine; eauto|].
    split; [exists k0, KNamed; split; [discriminate | split; [exact Hg0 | reflexivity]]|].
    apply (cap_rel_vrel m0 m' e' ce' (hl_at TL fc ce' (length h + kk) fds j) (fvs_fd TL f) ad Hext0').
    + intros y c Hin Hcl Hsy Hl.
      assert (Hsc : selfcap fc ce' (fvs_fd TL f) = true).
      { unfold selfcap. apply existsb_exists. exists y. split; [exact Hin|]. rewrite Hcl. exact Hsy. }
      assert (Ec : c = cf).
      { unfold cf. unfold self_is in Hsy. destruct (fc_self fc) as [g|]; [|discriminate]. apply N.eqb_eq in Hsy. subst g.
        rewrite Hl. reflexivity. }
      subst c. unfold m'. cbn [mc]. apply in_or_app. right. unfold ncp. apply (cps_of_in TL fc cf ce' fds _ j f Hj Hsc).
    + eapply Forall2_imp; [|exact HPQ]. intros ? ? [? ?]; assumption.
  - intros Hcpf. unfold ncp. apply cps_of_nil. intros f Hf. destruct (selfcap fc ce' (fvs_fd TL f)) eqn:E; [|reflexivity].
    destruct (Hwit f Hf E) as (y & _ & _ & _ & Hx). congruence.
  - intros a c Hin. unfold ncp in Hin. destruct (cps_of_inv TL fc cf ce' fds _ a c Hin) as (-> & j & f & Hj & Hsc & ->).
    destruct (Hwit f (nth_error_In _ _ Hj) Hsc) as (y & Hyin & Hcl & Hsy & Hcp).
    destruct (self_data prog m0 st e' ce' _ L' Sk kself y Hpo (Hfcl0 Hcp) (Hem' [] [] []) Hks Hcl Hsy)
      as (cf' & sfd & scenv & Hlf & Hcell & Hfr & Hrec).
    assert (Ecf : cf' = cf).
    { unfold cf. unfold self_is in Hsy. destruct (fc_self fc) as [g|]; [|discriminate]. apply N.eqb_eq in Hsy. subst g.
      rewrite Hlf. reflexivity. }
    subst cf'.
    destruct (run_facts X TL fc _ ce' (r_gp fr) kself fds addrss ks H' _ _ _ HA Hfill j f Hj)
      as (ad & kj & v0 & _ & _ & _ & _ & _ & _ & Hcopy).
    destruct (Hcopy Hsc) as [Hh _].
    exists sfd, scenv, (r_gp fr), (faddr kself). split.
    { cbn [cells add_cells]. rewrite nth_error_app1; [exact Hcell | apply nth_error_Some; congruence]. }
    split; [exact Hh|]. right. split.
    + eapply (CompileCorrect4Rel.fun_rel_ext (g_all G) (x_ftab X) TL FS cp); [exact Hext0' | exact Hfr].
    + eapply ext_fcl; [exact Hext0' | exact Hrec].
Qed.

Lemma items_run_step : forall k, items_spec k ->
  forall fd t env st last r st', eval_items genv (S k) env st (IFunc fd :: t) last = (r, st') ->
  forall sc, items_F (fc_self fc) lv sc (IFunc fd :: t) = true ->
  forall prog L ce ip stk h o m,
    code_at prog ip (compile_items fc L ce (IFunc fd :: t)) ->
    MS m st h -> o = out st -> env_match m env ce sc L stk ->
    items_concl prog (mkst ip stk h o) ip (compile_items fc L ce (IFunc fd :: t)) (nbinds (IFunc fd :: t)) m r st'.
Proof.
  intros k IHi fd t env st last r st' He sc HF prog L ce ip stk h o m Hc HMS Hout Hem.
  set (fds := fd :: run_funcs t) in *. set (kk := length fds).
  (* the code *)
  unfold compile_items0, Compile4.compile_items in Hc |- *.
  rewrite (CompileCorrect4Base.compile_items_run) in Hc |- *. cbv zeta in Hc |- *. fold fds kk in Hc |- *.
  set (L' := L + Z.of_nat kk) in *. set (ce' := func_cenv fds (L + 1) ce) in *.
  set (rc := run_code_f (closure_code FT TL fc L' ce') fds kk) in *.
  set (rest := compile_items_f (Compile4.compile_expr FT TL fc) (Compile4.compile_expr FT TL fc) (closure_code FT TL fc) L' ce' 0 (run_rest t)) in *.
  pose proof Hc as (Hcc & Hpo).
  assert (Hc1 : CompileCorrect4Base.code_at prog ip (ins BYTECODE_ALLOC (Z.of_nat kk) 0 :: rc)).
  { change (ins BYTECODE_ALLOC (Z.of_nat kk) 0 :: rc ++ rest) with ((ins BYTECODE_ALLOC (Z.of_nat kk) 0 :: rc) ++ rest) in Hcc.
    eapply CompileCorrect4Base.code_at_app_l; eauto. }
  assert (Hc2 : code_at prog (ip + S (length rc)) rest).
  { change (ins BYTECODE_ALLOC (Z.of_nat kk) 0 :: rc ++ rest) with ((ins BYTECODE_ALLOC (Z.of_nat kk) 0 :: rc) ++ rest) in Hc.
    apply code_at_app_r in Hc. exact Hc. }
  rewrite eval_items_IFunc in He. fold fds in He.
  set (e' := run_env fds env st) in *. set (st1 := run_state fds env st) in *.
  set (Sk := rev (seq (length h) kk) ++ stk).
  destruct (run_prefix fd t env st sc HF prog L ce ip stk h o m Hc1 Hpo HMS Hem) as (H' & m' & Hst & HMS' & Hem' & Hext & HFr).
  fold fds kk L' ce' rc Sk e' st1 in Hst, HMS', Hem', HFr.
  (* the rest of the block *)
  pose proof (IHi (run_rest t) e' st1 _ r st' He (map fd_name fds ++ sc) HFr prog (ip + S (length rc))%nat L' ce'
                (mkst (ip + S (length rc)) Sk H' o) m' Hc2 eq_refl HMS'
                (eq_trans Hout (eq_sym (eq_refl : out st1 = out st))) Hem') as Ht.
  change (compile_items fc L' ce' (run_rest t)) with rest in Ht. unfold items_concl in Ht |- *.
  assert (Hnb : nbinds (IFunc fd :: t) = Z.of_nat kk + nbinds (run_rest t)).
  { rewrite (nbinds_run (IFunc fd :: t)). reflexivity. }
  assert (HlenS : length (rev (seq (length h) kk)) = kk) by (rewrite rev_length, seq_length; reflexivity).
  destruct r as [c|ex| |]; cbv beta iota in Ht |- *; auto.
  - destruct Ht as (s2 & m2 & a2 & locals & Hst2 & Hip2 & Hstk2 & Hlen2 & Hm2 & HMS2 & Hext2 & Hout2 & Hfr2).
    exists s2, m2, a2, (locals ++ rev (seq (length h) kk)).
    split; [eapply star_trans; [exact Hst | exact Hst2]|].
    split; [rewrite Hip2; cbn [length]; rewrite app_length; lia|].
    split; [rewrite Hstk2; unfold Sk; cbn [v_stk ValueVM4.mkst]; rewrite <- app_assoc; reflexivity|].
    split; [rewrite app_length, HlenS, Hnb; lia|].
    split; [exact Hm2|]. split; [exact HMS2|]. split; [eapply ext_trans; eauto|]. split; [exact Hout2 | exact Hfr2].
  - destruct Ht as [_ Hr]. split; [reflexivity|].
    eapply raises_star; [exact Hst | reflexivity | exists (rev (seq (length h) kk)); reflexivity
                        | eapply raises_weaken; [exact Hr | lia | cbn [length]; rewrite app_length; lia] | exact Hext].
Qed.

Lemma items_step : forall k, expr_spec k -> items_spec k -> items_spec_at (S k).
Proof.
  intros k IHe IHi items env st last r st' He sc HF prog L ce ip stk h o m Hc HMS Hout Hem.
  destruct items as [|it t]; [discriminate HF|].
  destruct it as [x e | x e | fd | e].
  - rewrite eval_items_ILet in He. rewrite items_F1_let in HF. rewrite compile_items_let in *.
    apply andb_true_iff in HF; destruct HF as [H6 HF].
    assert (Hxi : mem_id x IV = true -> int_shaped e = true).
    { intros Hx. destruct (at6_iv _ _ H6 Hx) as [A B]. rewrite A in B. discriminate B. }
    change (nbinds (ILet x e :: t)) with (1 + nbinds t).
    eapply items_bind_step; eauto.
  - rewrite eval_items_IVar in He. rewrite items_F1_var in HF. rewrite compile_items_var in *.
    apply andb_true_iff in HF; destruct HF as [H6 HF].
    assert (Hxi : mem_id x IV = true -> int_shaped e = true).
    { intros Hx. destruct (at6_iv _ _ H6 Hx) as [A B]. rewrite A in B. exact B. }
    change (nbinds (IVar x e :: t)) with (1 + nbinds t).
    eapply items_bind_step; eauto.
  - eapply items_run_step; eauto.
  - rewrite eval_items_IExpr in He. rewrite items_F1_expr in HF. rewrite compile_items_expr in *.
    change (nbinds (IExpr e :: t)) with (nbinds t).
    apply andb_true_iff in HF; destruct HF as [Fe Ft].
    set (ca := compile_expr fc L ce e) in *.
    destruct (eval genv k env st e) as [r1 st1] eqn:Ea.
    pose proof (IHe e _ _ _ _ Ea sc Fe prog ip L ce (mkst ip stk h o) m
                  (code_at_app_l _ _ _ _ Hc) eq_refl HMS Hout Hem) as Ha. fold ca in Ha.
    destruct r1 as [c1|ex| |]; simpl in Ha; [| inv He; simpl; exc_here Ha | inv He; exact I | inv He; exact I].
    destruct Ha as (s1 & m1 & a1 & Hst1 & Hip1 & Hstk1 & Hm1 & HMS1 & Hext1 & Hout1 & Hfr1).
    destruct s1 as [ip1 stk1 h1 o1 fr1]; simpl in Hip1, Hstk1, HMS1, Hout1, Hfr1; subst ip1 stk1 fr1.
    destruct t as [|it2 t2].
    + destruct (eval_items_nil_inv _ _ _ _ _ _ He) as [-> | [-> ->]]; [exact I|].
      exists (mkst (ip + length ca) (a1 :: stk) h1 o1), m1, a1, []. simpl.
      rewrite app_nil_r. repeat (split; auto).
    + set (t := it2 :: t2) in *.
      pose proof (code_at_app_r _ _ _ _ Hc) as Hc2.
      pose proof (code_at_head _ _ _ _ Hc2) as Hsl. pose proof (code_at_tail _ _ _ _ Hc2) as Hct.
      assert (Hpop : star prog (mkst ip stk h o) (mkst (S (ip + length ca)) stk h1 o1)).
      { eapply star_snoc; [exact Hst1|]. apply step_slide_pop. exact Hsl. }
      pose proof (IHi t _ _ _ _ _ He sc Ft prog (S (ip + length ca)) L ce
                    (mkst (S (ip + length ca)) stk h1 o1) m1 Hct eq_refl HMS1 Hout1
                    (env_match_ext _ _ _ _ _ _ _ _ _ _ Hem Hext1)) as Ht.
      destruct r as [c|ex| |]; simpl in Ht |- *; auto.
      * destruct Ht as (s2 & m2 & a2 & locals & Hst2 & Hip2 & Hstk2 & Hlen & Hm2 & HMS2 & Hext2 & Hout2 & Hfr2).
        exists s2, m2, a2, locals. split; [eapply star_trans; eauto|].
        split; [rewrite Hip2, app_length; simpl; lia|].
        split; [exact Hstk2|]. split; [exact Hlen|]. split; [exact Hm2|]. split; [exact HMS2|].
        split; [eapply ext_trans; eauto|]. split; [exact Hout2 | exact Hfr2].
      * destruct Ht as [_ Hr]. split; [reflexivity|]. eapply raises_star; [exact Hpop | reflexivity | stk_ext | eapply raises_weaken; [exact Hr | lia | rewrite app_length; simpl; lia] | ext_tac].
Qed.

(* ---- stage 2: short-circuit operators, loops, print ------------------------------------------- *)

Lemma step_jump_to : forall prog ip stk h o off w t,
  nth_error prog ip = Some (ins BYTECODE_JUMP off w) -> Z.of_nat ip + 1 + off = Z.of_nat t ->
  step prog (mkst ip stk h o) = SNext (mkst t stk h o).
Proof.
  intros. unfold ValueVM4.step. simpl. rewrite H. simpl. unfold jump_target. rewrite H0.
  destruct (Z.of_nat t <? 0) eqn:E; [apply Z.ltb_lt in E; lia|]. rewrite Nat2Z.id. reflexivity.
Qed.

Lemma step_jumpz_to : forall prog ip a stk h o off w t,
  nth_error prog ip = Some (ins BYTECODE_JUMPZ off w) -> hint h a = Some 0 ->
  Z.of_nat ip + 1 + off = Z.of_nat t ->
  step prog (mkst ip (a :: stk) h o) = SNext (mkst t stk h o).
Proof.
  intros. unfold ValueVM4.step. simpl. rewrite H. simpl. rewrite H0. simpl. unfold jump_target. rewrite H1.
  destruct (Z.of_nat t <? 0) eqn:E; [apply Z.ltb_lt in E; lia|]. rewrite Nat2Z.id. reflexivity.
Qed.

Lemma MS_heap_app : forall m st h l, MS m st h -> MS m st (h ++ l).
Proof.
  intros m st h l HMS. constructor.
  - apply (ms_len _ _ _ HMS).
  - intros c a Hm. destruct (ms_rel _ _ _ HMS c a Hm) as (v & z & H1 & H2 & H3 & H4).
    exists v, z. split; [|split; [|split]]; auto. rewrite nth_error_app1; auto. apply nth_error_Some. congruence.
  - apply (ms_inj _ _ _ HMS).
  - apply (ms_fun _ _ _ HMS).
  - intros v l0 Hin. rewrite nth_error_app1; [apply (ms_vec _ _ _ HMS _ _ Hin) | eapply MS_vec_lt; eauto].
  - apply (ms_fcl _ _ _ HMS).
  - apply (ms_fself _ _ _ HMS).
  - intros a c Hin. eapply (CompileCorrect4Rel.cp_ok_mono (g_all G) (x_ftab X) TL FS); [apply ext_refl | | | apply (ms_cp _ _ _ HMS _ _ Hin)].
    + auto.
    + intros a1 vec addr Hh. rewrite nth_error_app1; [exact Hh | apply nth_error_Some; congruence].
  - apply (ms_nocp _ _ _ HMS).
  - apply (ms_int _ _ _ HMS).
  - apply (ms_arr _ _ _ HMS).
  - apply (ms_arrmi _ _ _ HMS).
  - apply (ms_noarr _ _ _ HMS).
  - apply (ms_rec _ _ _ HMS).
  - apply (ms_recmi _ _ _ HMS).
  - apply (ms_norec _ _ _ HMS).
  - apply (ms_nonil _ _ _ HMS).
Qed.

Lemma MS_print : forall m st h z, MS m st h -> MS m (print_num st z) h.
Proof. intros m st h z HMS. constructor; [apply (ms_len _ _ _ HMS) | apply (ms_rel _ _ _ HMS) | apply (ms_inj _ _ _ HMS) | apply (ms_fun _ _ _ HMS) | apply (ms_vec _ _ _ HMS) | apply (ms_fcl _ _ _ HMS) | apply (ms_fself _ _ _ HMS) | apply (ms_cp _ _ _ HMS) | apply (ms_nocp _ _ _ HMS) | apply (ms_int _ _ _ HMS) | apply (ms_arr _ _ _ HMS) | apply (ms_arrmi _ _ _ HMS) | apply (ms_noarr _ _ _ HMS) | apply (ms_rec _ _ _ HMS) | apply (ms_recmi _ _ _ HMS) | apply (ms_norec _ _ _ HMS) | apply (ms_nonil _ _ _ HMS)]. Qed.


(* a run that ends where it started (same stack, extended morphism) can be put in front *)
Lemma concl_star : forall prog s s2 pc n m m2 r st',
  star prog s s2 -> v_stk s2 = v_stk s -> v_fr s2 = v_fr s -> ext m m2 ->
  concl prog s2 pc n m2 r st' -> concl prog s pc n m r st'.
Proof.
  intros prog s s2 pc n m m2 r st' Hst Hstk Hfr Hext Hc. destruct r as [c|ex| |]; simpl in *; auto.
  - destruct Hc as (s' & m' & a & H1 & H2 & H3 & H4 & H5 & H6 & H7 & H8).
    exists s', m', a. split; [eapply star_trans; eauto|]. split; [exact H2|].
    split; [congruence|]. split; [exact H4|]. split; [exact H5|]. split; [eapply ext_trans; eauto|].
    split; [exact H7 | congruence].
  - destruct Hc as [_ Hr]. split; [reflexivity|].
    eapply raises_star; [exact Hst | exact Hfr | exists []; simpl; congruence | exact Hr | exact Hext].
Qed.

(* pushing the constant of a finished loop / short-circuit form *)
Lemma concl_int_const : forall prog s0 ip stk h o z v m0 m st r st' pc n,
  star prog s0 (mkst ip stk h o) -> v_stk s0 = stk -> v_fr s0 = fr ->
  nth_error prog ip = Some (ins BYTECODE_INT z 0) -> val_rel v z ->
  MS m st h -> o = out st -> ext m0 m -> fresh st v = (r, st') ->
  forall tail, star prog (mkst (S ip) (length h :: stk) (h ++ [HInt (z)]) o)
                         (mkst tail (length h :: stk) (h ++ [HInt (z)]) o) ->
  tail = (pc + n)%nat ->
  concl prog s0 pc n m0 r st'.
Proof.
  intros prog s0 ip stk h o z v m0 m st r st' pc n Hst Hstk Hfr0 Hn Hv HMS Ho Hext Hf tail Htail Ht.
  destruct (fresh_inv _ _ _ _ Hf) as (c & ->). simpl.
  destruct (MS_fresh _ _ _ _ _ _ _ HMS Hv Hf) as (HMS' & Hm' & Hout').
  apply (post_ok_intro _ _ _ _ _ _ (mkst tail (length h :: stk) (h ++ [HInt (z)]) o)
           (msnoc m (MA (length h))) (length h)); simpl; auto.
  - eapply star_trans; [exact Hst|]. eapply star_step; [apply (step_int _ _ _ _ _ z 0); exact Hn|]. exact Htail.
  - congruence.
  - eapply ext_trans; [exact Hext | apply ext_snoc].
  - congruence.
Qed.

Lemma and_code_length : forall ca cb, length (and_code ca cb) = (length ca + length cb + 7)%nat.
Proof. intros. unfold and_code. rewrite !app_length. simpl. rewrite app_length. simpl. lia. Qed.
Lemma or_code_length : forall ca cb, length (or_code ca cb) = (length ca + length cb + 10)%nat.
Proof. intros. unfold or_code. rewrite !app_length. simpl. rewrite app_length. simpl. lia. Qed.
Lemma while_code_length : forall cc cb, length (while_code cc cb) = (length cc + length cb + 6)%nat.
Proof. intros. unfold while_code. simpl. rewrite !app_length. simpl. rewrite app_length. simpl. lia. Qed.
Lemma dowhile_code_length : forall cb cc, length (dowhile_code cb cc) = (length cb + length cc + 6)%nat.
Proof. intros. unfold dowhile_code. simpl. rewrite !app_length. simpl. rewrite app_length. simpl. lia. Qed.
Lemma print_code_length : forall ca, length (print_code ca) = (length ca + 6)%nat.
Proof. intros. unfold print_code. simpl. rewrite app_length. simpl. lia. Qed.

Lemma case_EAnd : forall k a b, expr_spec k -> expr_case_at (S k) (EBin And a b).
Proof.
  intros k a b IH env st r st' He sc HF prog L ce ip stk h o m Hc HMS Hout Hem.
  simpl in HF. apply andb_true_iff in HF; destruct HF as [_ HF].
  apply andb_true_iff in HF; destruct HF as [HF Fb].
  apply andb_true_iff in HF; destruct HF as [_ Fa].
  rewrite eval_EAnd in He.
  change (compile_expr fc L ce (EBin And a b)) with (and_code (compile_expr fc L ce a) (compile_expr fc L ce b)) in *.
  set (ca := compile_expr fc L ce a) in *. set (cb := compile_expr fc L ce b) in *.
  rewrite and_code_length. unfold and_code in Hc.
  pose proof (code_at_app_l _ _ _ _ Hc) as Hca.
  pose proof (code_at_app_r _ _ _ _ Hc) as H1.
  pose proof (code_at_head _ _ _ _ H1) as HJA.
  pose proof (code_at_tail _ _ _ _ H1) as H2.
  pose proof (code_at_app_l _ _ _ _ H2) as Hcb.
  pose proof (code_at_app_r _ _ _ _ H2) as H3.
  pose proof (code_at_head _ _ _ _ H3) as HJB.
  pose proof (code_at_tail _ _ _ _ H3) as H4.
  pose proof (code_at_head _ _ _ _ H4) as HI1.
  pose proof (code_at_tail _ _ _ _ H4) as H5.
  pose proof (code_at_head _ _ _ _ H5) as HJE.
  pose proof (code_at_tail _ _ _ _ (code_at_tail _ _ _ _ H5)) as H6.
  pose proof (code_at_head _ _ _ _ H6) as HI0.
  pose proof (code_at_head _ _ _ _ (code_at_tail _ _ _ _ H6)) as HLE.
  destruct (eval genv k env st a) as [r1 st1] eqn:Ea.
  pose proof (IH a _ _ _ _ Ea sc Fa prog ip L ce (mkst ip stk h o) m Hca eq_refl HMS Hout Hem) as Ha.
  fold ca in Ha.
  destruct r1 as [c1|ex| |]; simpl in Ha; [| inv He; simpl | inv He; exact I | inv He; exact I].
  2:{ destruct Ha as [_ Hr]. split; [reflexivity|]. eapply raises_weaken; [exact Hr | lia | lia]. }
  destruct Ha as (s1 & m1 & a1 & Hst1 & Hip1 & Hstk1 & Hm1 & HMS1 & Hext1 & Hout1 & Hfr1).
  destruct s1 as [ip1 stk1 h1 o1 fr1]; simpl in Hip1, Hstk1, HMS1, Hout1, Hfr1; subst ip1 stk1 fr1.
  destruct (get_bool st1 c1) as [bv|] eqn:Eg; [|inv He; exact I].
  pose proof (MS_payload_bool _ _ _ _ _ _ HMS1 Hm1 Eg) as Hp.
  (* the false exit: INT 0; LABEL *)
  assert (Hfalse : forall hx ox, star prog (mkst (S (S (ip + length ca + length cb + 4))) (length hx :: stk) (hx ++ [HInt (0)]) ox)
                                      (mkst (ip + (length ca + length cb + 7)) (length hx :: stk) (hx ++ [HInt (0)]) ox)).
  { intros. replace (ip + (length ca + length cb + 7))%nat with (S (S (S (ip + length ca + length cb + 4)))) by lia.
    apply star_one, step_label.
    replace (S (S (ip + length ca + length cb + 4))) with (S (S (S (S (S (S (ip + length ca) + length cb)))))) by lia.
    exact HLE. }
  destruct bv.
  - assert (Hj : star prog (mkst ip stk h o) (mkst (S (ip + length ca)) stk h1 o1)).
    { eapply star_snoc; [exact Hst1|]. eapply step_jumpz_nonzero; eauto. simpl. lia. }
    destruct (eval genv k env st1 b) as [r2 st2] eqn:Eb.
    pose proof (IH b _ _ _ _ Eb sc Fb prog (S (ip + length ca)) L ce (mkst (S (ip + length ca)) stk h1 o1) m1
                  Hcb eq_refl HMS1 Hout1 (env_match_ext _ _ _ _ _ _ _ _ _ _ Hem Hext1)) as Hb.
    fold cb in Hb.
    destruct r2 as [c2|ex| |]; simpl in Hb; [| inv He; simpl | inv He; exact I | inv He; exact I].
    2:{ destruct Hb as [_ Hr]. split; [reflexivity|]. eapply raises_star; [exact Hj | reflexivity | stk_ext | eapply raises_weaken; [exact Hr | lia | lia] | ext_tac]. }
    destruct Hb as (s2 & m2 & a2 & Hst2 & Hip2 & Hstk2 & Hm2 & HMS2 & Hext2 & Hout2 & Hfr2).
    destruct s2 as [ip2 stk2 h2 o2 fr2]; simpl in Hip2, Hstk2, HMS2, Hout2, Hfr2; subst ip2 stk2 fr2.
    destruct (get_bool st2 c2) as [bv2|] eqn:Eg2; [|inv He; exact I].
    pose proof (MS_payload_bool _ _ _ _ _ _ HMS2 Hm2 Eg2) as Hp2.
    assert (Hext : ext m m2) by (eapply ext_trans; eauto).
    destruct bv2.
    + (* both true: INT 1; JUMP E *)
      eapply (concl_int_const _ _ (S (S (ip + length ca) + length cb)) stk h2 o2 1 (CBool true)); eauto.
      * eapply star_trans; [exact Hj|]. eapply star_snoc; [exact Hst2|].
        eapply step_jumpz_nonzero; eauto. simpl. lia.
      * reflexivity.
      * apply star_one. eapply step_jump_to; [exact HJE | lia].
    + eapply (concl_int_const _ _ (S (ip + length ca + length cb + 4)) stk h2 o2 0 (CBool false)); eauto.
      * eapply star_trans; [exact Hj|]. eapply star_snoc; [exact Hst2|].
        eapply step_jumpz_to; [exact HJB | exact Hp2 | lia].
      * replace (S (ip + length ca + length cb + 4)) with (S (S (S (S (S (ip + length ca) + length cb))))) by lia.
        exact HI0.
      * reflexivity.
  - eapply (concl_int_const _ _ (S (ip + length ca + length cb + 4)) stk h1 o1 0 (CBool false)); eauto.
    + eapply star_snoc; [exact Hst1|]. eapply step_jumpz_to; [exact HJA | exact Hp | unfold len; lia].
    + replace (S (ip + length ca + length cb + 4)) with (S (S (S (S (S (ip + length ca) + length cb))))) by lia.
      exact HI0.
    + reflexivity.
Qed.

Lemma case_EOr : forall k a b, expr_spec k -> expr_case_at (S k) (EBin Or a b).
Proof.
  intros k a b IH env st r st' He sc HF prog L ce ip stk h o m Hc HMS Hout Hem.
  simpl in HF. apply andb_true_iff in HF; destruct HF as [_ HF].
  apply andb_true_iff in HF; destruct HF as [HF Fb].
  apply andb_true_iff in HF; destruct HF as [_ Fa].
  rewrite eval_EOr in He.
  change (compile_expr fc L ce (EBin Or a b)) with (or_code (compile_expr fc L ce a) (compile_expr fc L ce b)) in *.
  set (ca := compile_expr fc L ce a) in *. set (cb := compile_expr fc L ce b) in *.
  rewrite or_code_length. unfold or_code in Hc.
  pose proof (code_at_app_l _ _ _ _ Hc) as Hca.
  pose proof (code_at_app_r _ _ _ _ Hc) as H1.
  pose proof (code_at_head _ _ _ _ H1) as HJA.
  pose proof (code_at_tail _ _ _ _ H1) as H1a.
  pose proof (code_at_head _ _ _ _ H1a) as HJET.
  pose proof (code_at_tail _ _ _ _ (code_at_tail _ _ _ _ H1a)) as H2.
  pose proof (code_at_app_l _ _ _ _ H2) as Hcb.
  pose proof (code_at_app_r _ _ _ _ H2) as H3.
  set (p1 := (ip + length ca)%nat) in *. set (p2 := (S (S (S p1)) + length cb)%nat) in *.
  pose proof (code_at_head _ _ _ _ H3) as HJB.
  pose proof (code_at_tail _ _ _ _ H3) as H4.
  pose proof (code_at_head _ _ _ _ H4) as HLET.
  pose proof (code_at_tail _ _ _ _ H4) as H5.
  pose proof (code_at_head _ _ _ _ H5) as HI1.
  pose proof (code_at_tail _ _ _ _ H5) as H6.
  pose proof (code_at_head _ _ _ _ H6) as HJE.
  pose proof (code_at_tail _ _ _ _ (code_at_tail _ _ _ _ H6)) as H8.
  pose proof (code_at_head _ _ _ _ H8) as HI0.
  pose proof (code_at_head _ _ _ _ (code_at_tail _ _ _ _ H8)) as HLE.
  assert (Hend : (S (S (S (S (S (S (S p2)))))) = ip + (length ca + length cb + 10))%nat) by (subst p1 p2; lia).
  assert (Htrue : forall hx ox, star prog (mkst (S (S (S p2))) (length hx :: stk) (hx ++ [HInt (1)]) ox)
                                     (mkst (S (S (S (S (S (S (S p2))))))) (length hx :: stk) (hx ++ [HInt (1)]) ox)).
  { intros. apply star_one. eapply step_jump_to; [exact HJE | lia]. }
  assert (Hfalse : forall hx ox, star prog (mkst (S (S (S (S (S (S p2)))))) (length hx :: stk) (hx ++ [HInt (0)]) ox)
                                      (mkst (S (S (S (S (S (S (S p2))))))) (length hx :: stk) (hx ++ [HInt (0)]) ox)).
  { intros. apply star_one, step_label. exact HLE. }
  destruct (eval genv k env st a) as [r1 st1] eqn:Ea.
  pose proof (IH a _ _ _ _ Ea sc Fa prog ip L ce (mkst ip stk h o) m Hca eq_refl HMS Hout Hem) as Ha.
  fold ca in Ha. fold p1 in Ha.
  destruct r1 as [c1|ex| |]; simpl in Ha; [| inv He; simpl | inv He; exact I | inv He; exact I].
  2:{ destruct Ha as [_ Hr]. split; [reflexivity|]. eapply raises_weaken; [exact Hr | lia | subst p1; lia]. }
  destruct Ha as (s1 & m1 & a1 & Hst1 & Hip1 & Hstk1 & Hm1 & HMS1 & Hext1 & Hout1 & Hfr1).
  destruct s1 as [ip1 stk1 h1 o1 fr1]; simpl in Hip1, Hstk1, HMS1, Hout1, Hfr1; subst ip1 stk1 fr1.
  destruct (get_bool st1 c1) as [bv|] eqn:Eg; [|inv He; exact I].
  pose proof (MS_payload_bool _ _ _ _ _ _ HMS1 Hm1 Eg) as Hp.
  destruct bv.
  - (* a true: JUMPZ falls through, JUMP T, INT 1, JUMP E *)
    eapply (concl_int_const _ _ (S (S p2)) stk h1 o1 1 (CBool true)); eauto.
    + eapply star_snoc; [eapply star_snoc; [exact Hst1|]|].
      * eapply step_jumpz_nonzero; eauto. simpl. lia.
      * eapply step_jump_to; [exact HJET | subst p2; unfold len; lia].
    + reflexivity.
  - assert (Hj : star prog (mkst ip stk h o) (mkst (S (S (S p1))) stk h1 o1)).
    { eapply star_snoc; [exact Hst1|]. eapply step_jumpz_to; [exact HJA | exact Hp | lia]. }
    destruct (eval genv k env st1 b) as [r2 st2] eqn:Eb.
    pose proof (IH b _ _ _ _ Eb sc Fb prog (S (S (S p1))) L ce (mkst (S (S (S p1))) stk h1 o1) m1
                  Hcb eq_refl HMS1 Hout1 (env_match_ext _ _ _ _ _ _ _ _ _ _ Hem Hext1)) as Hb.
    fold cb in Hb. fold p2 in Hb.
    destruct r2 as [c2|ex| |]; simpl in Hb; [| inv He; simpl | inv He; exact I | inv He; exact I].
    2:{ destruct Hb as [_ Hr]. split; [reflexivity|]. eapply raises_star; [exact Hj | reflexivity | stk_ext | eapply raises_weaken; [exact Hr | subst p1; lia | lia] | ext_tac]. }
    destruct Hb as (s2 & m2 & a2 & Hst2 & Hip2 & Hstk2 & Hm2 & HMS2 & Hext2 & Hout2 & Hfr2).
    destruct s2 as [ip2 stk2 h2 o2 fr2]; simpl in Hip2, Hstk2, HMS2, Hout2, Hfr2; subst ip2 stk2 fr2.
    destruct (get_bool st2 c2) as [bv2|] eqn:Eg2; [|inv He; exact I].
    pose proof (MS_payload_bool _ _ _ _ _ _ HMS2 Hm2 Eg2) as Hp2.
    assert (Hext : ext m m2) by (eapply ext_trans; eauto).
    destruct bv2.
    + eapply (concl_int_const _ _ (S (S p2)) stk h2 o2 1 (CBool true)); eauto.
      * eapply star_trans; [exact Hj|]. eapply star_snoc; [eapply star_snoc; [exact Hst2|]|].
        -- eapply step_jumpz_nonzero; eauto. simpl. lia.
        -- apply step_label. exact HLET.
      * reflexivity.
    + eapply (concl_int_const _ _ (S (S (S (S (S p2))))) stk h2 o2 0 (CBool false)); eauto.
      * eapply star_trans; [exact Hj|]. eapply star_snoc; [exact Hst2|].
        eapply step_jumpz_to; [exact HJB | exact Hp2 | lia].
      * reflexivity.
Qed.

(* ---- loops: the statement for a run that starts after the loop's first LABEL -------------------- *)

Definition while_spec (k : nat) : Prop :=
  forall c b env st r st', eval genv k env st (EWhile c b) = (r, st') ->
  forall sc, in_F (fc_self fc) lv sc c = true -> in_F (fc_self fc) lv sc b = true ->
  forall prog pc L ce s m,
    code_at prog pc (while_code (compile_expr fc L ce c) (compile_expr fc L ce b)) -> v_ip s = S pc ->
    MS m st (v_heap s) -> v_out s = out st -> env_match_g fc (r_gp (v_fr s)) gl m env ce sc L (v_stk s) ->
    concl prog s pc (length (while_code (compile_expr fc L ce c) (compile_expr fc L ce b))) m r st'.

Definition dowhile_spec (k : nat) : Prop :=
  forall b c env st r st', eval genv k env st (EDoWhile b c) = (r, st') ->
  forall sc, in_F (fc_self fc) lv sc b = true -> in_F (fc_self fc) lv sc c = true ->
  forall prog pc L ce s m,
    code_at prog pc (dowhile_code (compile_expr fc L ce b) (compile_expr fc L ce c)) -> v_ip s = S pc ->
    MS m st (v_heap s) -> v_out s = out st -> env_match_g fc (r_gp (v_fr s)) gl m env ce sc L (v_stk s) ->
    concl prog s pc (length (dowhile_code (compile_expr fc L ce b) (compile_expr fc L ce c))) m r st'.

Definition while_spec_at (k : nat) : Prop :=
  forall c b env st r st', eval genv k env st (EWhile c b) = (r, st') ->
  forall sc, in_F (fc_self fc) lv sc c = true -> in_F (fc_self fc) lv sc b = true ->
  forall prog pc L ce stk h o m,
    code_at prog pc (while_code (compile_expr fc L ce c) (compile_expr fc L ce b)) ->
    MS m st h -> o = out st -> env_match m env ce sc L stk ->
    concl prog (mkst (S pc) stk h o) pc (length (while_code (compile_expr fc L ce c) (compile_expr fc L ce b))) m r st'.

Definition dowhile_spec_at (k : nat) : Prop :=
  forall b c env st r st', eval genv k env st (EDoWhile b c) = (r, st') ->
  forall sc, in_F (fc_self fc) lv sc b = true -> in_F (fc_self fc) lv sc c = true ->
  forall prog pc L ce stk h o m,
    code_at prog pc (dowhile_code (compile_expr fc L ce b) (compile_expr fc L ce c)) ->
    MS m st h -> o = out st -> env_match m env ce sc L stk ->
    concl prog (mkst (S pc) stk h o) pc (length (dowhile_code (compile_expr fc L ce b) (compile_expr fc L ce c))) m r st'.

Lemma while_step : forall k, expr_spec k -> while_spec k -> while_spec_at (S k).
Proof.
  intros k IH IHw c b env st r st' He sc Fc Fb prog pc L ce stk h o m Hc HMS Hout Hem.
  rewrite eval_EWhile in He.
  set (cc := compile_expr fc L ce c) in *. set (cb := compile_expr fc L ce b) in *.
  rewrite while_code_length. pose proof Hc as Hc0. unfold while_code in Hc.
  pose proof (code_at_tail _ _ _ _ Hc) as H0.
  pose proof (code_at_app_l _ _ _ _ H0) as Hcc.
  pose proof (code_at_app_r _ _ _ _ H0) as H1.
  pose proof (code_at_head _ _ _ _ H1) as HJZ.
  pose proof (code_at_tail _ _ _ _ H1) as H2.
  pose proof (code_at_app_l _ _ _ _ H2) as Hcb.
  pose proof (code_at_app_r _ _ _ _ H2) as H3.
  set (q := (S (S pc + length cc) + length cb)%nat) in *.
  pose proof (code_at_head _ _ _ _ H3) as HSL.
  pose proof (code_at_head _ _ _ _ (code_at_tail _ _ _ _ H3)) as HJ.
  pose proof (code_at_head _ _ _ _ (code_at_tail _ _ _ _ (code_at_tail _ _ _ _ (code_at_tail _ _ _ _ H3)))) as HI0.
  assert (Hend : (S (S (S (S q))) = pc + (length cc + length cb + 6))%nat) by (subst q; lia).
  destruct (eval genv k env st c) as [r1 st1] eqn:Ec.
  pose proof (IH c _ _ _ _ Ec sc Fc prog (S pc) L ce (mkst (S pc) stk h o) m Hcc eq_refl HMS Hout Hem) as Hcnd.
  fold cc in Hcnd.
  destruct r1 as [c1|ex| |]; simpl in Hcnd; [| inv He; simpl | inv He; exact I | inv He; exact I].
  2:{ destruct Hcnd as [_ Hr]. split; [reflexivity|]. eapply raises_weaken; [exact Hr | lia | lia]. }
  destruct Hcnd as (s1 & m1 & a1 & Hst1 & Hip1 & Hstk1 & Hm1 & HMS1 & Hext1 & Hout1 & Hfr1).
  destruct s1 as [ip1 stk1 h1 o1 fr1]; simpl in Hip1, Hstk1, HMS1, Hout1, Hfr1; subst ip1 stk1 fr1.
  destruct (get_bool st1 c1) as [bv|] eqn:Eg; [|inv He; exact I].
  pose proof (MS_payload_bool _ _ _ _ _ _ HMS1 Hm1 Eg) as Hp.
  pose proof (env_match_ext _ _ _ _ _ _ _ _ _ _ Hem Hext1) as Hem1.
  destruct bv.
  - assert (Hj : star prog (mkst (S pc) stk h o) (mkst (S (S pc + length cc)) stk h1 o1)).
    { eapply star_snoc; [exact Hst1|]. eapply step_jumpz_nonzero; eauto. simpl. lia. }
    destruct (eval genv k env st1 b) as [r2 st2] eqn:Eb.
    pose proof (IH b _ _ _ _ Eb sc Fb prog (S (S pc + length cc)) L ce (mkst (S (S pc + length cc)) stk h1 o1) m1
                  Hcb eq_refl HMS1 Hout1 Hem1) as Hb.
    fold cb in Hb. fold q in Hb.
    destruct r2 as [c2|ex| |]; simpl in Hb; [| inv He; simpl | inv He; exact I | inv He; exact I].
    2:{ destruct Hb as [_ Hr]. split; [reflexivity|]. eapply raises_star; [exact Hj | reflexivity | stk_ext | eapply raises_weaken; [exact Hr | lia | lia] | ext_tac]. }
    destruct Hb as (s2 & m2 & a2 & Hst2 & Hip2 & Hstk2 & Hm2 & HMS2 & Hext2 & Hout2 & Hfr2).
    destruct s2 as [ip2 stk2 h2 o2 fr2]; simpl in Hip2, Hstk2, HMS2, Hout2, Hfr2; subst ip2 stk2 fr2.
    assert (Hback : star prog (mkst (S pc) stk h o) (mkst (S pc) stk h2 o2)).
    { eapply star_trans; [exact Hj|]. eapply star_snoc; [eapply star_snoc; [exact Hst2|]|].
      - apply step_slide_pop. exact HSL.
      - eapply step_jump_to; [exact HJ | subst q; unfold len; lia]. }
    pose proof (IHw c b _ _ _ _ He sc Fc Fb prog pc L ce (mkst (S pc) stk h2 o2) m2 Hc0 eq_refl HMS2 Hout2
                  (env_match_ext _ _ _ _ _ _ _ _ _ _ Hem1 Hext2)) as Hloop.
    fold cc cb in Hloop. rewrite while_code_length in Hloop.
    eapply concl_star; [exact Hback | reflexivity | reflexivity | eapply ext_trans; eauto | exact Hloop].
  - eapply (concl_int_const _ _ (S (S (S q))) stk h1 o1 0 (CInt 0)); eauto.
    + eapply star_snoc; [exact Hst1|]. eapply step_jumpz_to; [exact HJZ | exact Hp | subst q; unfold len; lia].
    + reflexivity.
    + apply star_refl.
Qed.

Lemma case_EWhile : forall k c b, while_spec (S k) -> expr_case_at (S k) (EWhile c b).
Proof.
  intros k c b IHw env st r st' He sc HF prog L ce ip stk h o m Hc HMS Hout Hem.
  simpl in HF.
  apply andb_true_iff in HF; destruct HF as [HF Fb].
  apply andb_true_iff in HF; destruct HF as [_ Fc].
  change (compile_expr fc L ce (EWhile c b)) with (while_code (compile_expr fc L ce c) (compile_expr fc L ce b)) in *.
  pose proof (IHw c b _ _ _ _ He sc Fc Fb prog ip L ce (mkst (S ip) stk h o) m Hc eq_refl HMS Hout Hem) as Hx.
  eapply (concl_star _ _ (mkst (S ip) stk h o)); [| reflexivity | reflexivity | apply ext_refl | exact Hx].
  apply star_one, step_label. unfold while_code in Hc. eapply code_at_head; exact Hc.
Qed.

Lemma dowhile_step : forall k, expr_spec k -> dowhile_spec k -> dowhile_spec_at (S k).
Proof.
  intros k IH IHw b c env st r st' He sc Fb Fc prog pc L ce stk h o m Hc HMS Hout Hem.
  rewrite eval_EDoWhile in He.
  set (cb := compile_expr fc L ce b) in *. set (cc := compile_expr fc L ce c) in *.
  rewrite dowhile_code_length. pose proof Hc as Hc0. unfold dowhile_code in Hc.
  pose proof (code_at_tail _ _ _ _ Hc) as H0.
  pose proof (code_at_app_l _ _ _ _ H0) as Hcb.
  pose proof (code_at_app_r _ _ _ _ H0) as H1.
  pose proof (code_at_head _ _ _ _ H1) as HSL.
  pose proof (code_at_tail _ _ _ _ H1) as H2.
  pose proof (code_at_app_l _ _ _ _ H2) as Hcc.
  pose proof (code_at_app_r _ _ _ _ H2) as H3.
  set (q := (S (S pc + length cb) + length cc)%nat) in *.
  pose proof (code_at_head _ _ _ _ H3) as HJZ.
  pose proof (code_at_head _ _ _ _ (code_at_tail _ _ _ _ H3)) as HJ.
  pose proof (code_at_head _ _ _ _ (code_at_tail _ _ _ _ (code_at_tail _ _ _ _ (code_at_tail _ _ _ _ H3)))) as HI0.
  assert (Hend : (S (S (S (S q))) = pc + (length cb + length cc + 6))%nat) by (subst q; lia).
  destruct (eval genv k env st b) as [r1 st1] eqn:Eb.
  pose proof (IH b _ _ _ _ Eb sc Fb prog (S pc) L ce (mkst (S pc) stk h o) m Hcb eq_refl HMS Hout Hem) as Hbd.
  fold cb in Hbd.
  destruct r1 as [c1|ex| |]; simpl in Hbd; [| inv He; simpl | inv He; exact I | inv He; exact I].
  2:{ destruct Hbd as [_ Hr]. split; [reflexivity|]. eapply raises_weaken; [exact Hr | lia | lia]. }
  destruct Hbd as (s1 & m1 & a1 & Hst1 & Hip1 & Hstk1 & Hm1 & HMS1 & Hext1 & Hout1 & Hfr1).
  destruct s1 as [ip1 stk1 h1 o1 fr1]; simpl in Hip1, Hstk1, HMS1, Hout1, Hfr1; subst ip1 stk1 fr1.
  pose proof (env_match_ext _ _ _ _ _ _ _ _ _ _ Hem Hext1) as Hem1.
  assert (Hj : star prog (mkst (S pc) stk h o) (mkst (S (S pc + length cb)) stk h1 o1)).
  { eapply star_snoc; [exact Hst1|]. apply step_slide_pop. exact HSL. }
  destruct (eval genv k env st1 c) as [r2 st2] eqn:Ec.
  pose proof (IH c _ _ _ _ Ec sc Fc prog (S (S pc + length cb)) L ce (mkst (S (S pc + length cb)) stk h1 o1) m1
                Hcc eq_refl HMS1 Hout1 Hem1) as Hcnd.
  fold cc in Hcnd. fold q in Hcnd.
  destruct r2 as [c2|ex| |]; simpl in Hcnd; [| inv He; simpl | inv He; exact I | inv He; exact I].
  2:{ destruct Hcnd as [_ Hr]. split; [reflexivity|]. eapply raises_star; [exact Hj | reflexivity | stk_ext | eapply raises_weaken; [exact Hr | lia | lia] | ext_tac]. }
  destruct Hcnd as (s2 & m2 & a2 & Hst2 & Hip2 & Hstk2 & Hm2 & HMS2 & Hext2 & Hout2 & Hfr2).
  destruct s2 as [ip2 stk2 h2 o2 fr2]; simpl in Hip2, Hstk2, HMS2, Hout2, Hfr2; subst ip2 stk2 fr2.
  destruct (get_bool st2 c2) as [bv|] eqn:Eg; [|inv He; exact I].
  pose proof (MS_payload_bool _ _ _ _ _ _ HMS2 Hm2 Eg) as Hp.
  assert (Hext : ext m m2) by (eapply ext_trans; eauto).
  destruct bv.
  - assert (Hback : star prog (mkst (S pc) stk h o) (mkst (S pc) stk h2 o2)).
    { eapply star_trans; [exact Hj|]. eapply star_snoc; [eapply star_snoc; [exact Hst2|]|].
      - eapply step_jumpz_nonzero; eauto. simpl. lia.
      - eapply step_jump_to; [exact HJ | subst q; unfold len; lia]. }
    pose proof (IHw b c _ _ _ _ He sc Fb Fc prog pc L ce (mkst (S pc) stk h2 o2) m2 Hc0 eq_refl HMS2 Hout2
                  (env_match_ext _ _ _ _ _ _ _ _ _ _ Hem1 Hext2)) as Hloop.
    fold cb cc in Hloop. rewrite dowhile_code_length in Hloop.
    eapply concl_star; [exact Hback | reflexivity | reflexivity | exact Hext | exact Hloop].
  - eapply (concl_int_const _ _ (S (S (S q))) stk h2 o2 0 (CInt 0)); eauto.
    + eapply star_trans; [exact Hj|]. eapply star_snoc; [exact Hst2|].
      eapply step_jumpz_to; [exact HJZ | exact Hp | lia].
    + reflexivity.
    + apply star_refl.
Qed.

Lemma case_EDoWhile : forall k b c, dowhile_spec (S k) -> expr_case_at (S k) (EDoWhile b c).
Proof.
  intros k b c IHw env st r st' He sc HF prog L ce ip stk h o m Hc HMS Hout Hem.
  simpl in HF.
  apply andb_true_iff in HF; destruct HF as [HF Fc].
  apply andb_true_iff in HF; destruct HF as [_ Fb].
  change (compile_expr fc L ce (EDoWhile b c)) with (dowhile_code (compile_expr fc L ce b) (compile_expr fc L ce c)) in *.
  pose proof (IHw b c _ _ _ _ He sc Fb Fc prog ip L ce (mkst (S ip) stk h o) m Hc eq_refl HMS Hout Hem) as Hx.
  eapply (concl_star _ _ (mkst (S ip) stk h o)); [| reflexivity | reflexivity | apply ext_refl | exact Hx].
  apply star_one, step_label. unfold dowhile_code in Hc. eapply code_at_head; exact Hc.
Qed.

Lemma case_EFor : forall k i c st0 b, expr_spec k -> expr_case_at (S k) (EFor i c st0 b).
Proof.
  intros k i c st0 b IH env st r st' He sc HF prog L ce ip stk h o m Hc HMS Hout Hem.
  simpl in HF.
  apply andb_true_iff in HF; destruct HF as [HF Fb].
  apply andb_true_iff in HF; destruct HF as [HF Fs].
  apply andb_true_iff in HF; destruct HF as [HF Fc].
  apply andb_true_iff in HF; destruct HF as [Hlv Fi].
  assert (Fw : in_F (fc_self fc) lv sc (EWhile c (EBlock [IExpr b; IExpr st0])) = true).
  { simpl. rewrite Hlv, Fc, Fb, Fs. reflexivity. }
  rewrite eval_EFor in He. rewrite compile_for in *.
  set (ci := compile_expr fc L ce i) in *.
  set (cw := compile_expr fc L ce (EWhile c (EBlock [IExpr b; IExpr st0]))) in *.
  destruct (eval genv k env st i) as [r1 st1] eqn:Ei.
  pose proof (IH i _ _ _ _ Ei sc Fi prog ip L ce (mkst ip stk h o) m (code_at_app_l _ _ _ _ Hc) eq_refl HMS Hout Hem) as Hi.
  fold ci in Hi.
  destruct r1 as [c1|ex| |]; simpl in Hi; [| inv He; simpl | inv He; exact I | inv He; exact I].
  2:{ destruct Hi as [_ Hr]. split; [reflexivity|]. eapply raises_weaken; [exact Hr | lia | rewrite app_length; lia]. }
  destruct Hi as (s1 & m1 & a1 & Hst1 & Hip1 & Hstk1 & Hm1 & HMS1 & Hext1 & Hout1 & Hfr1).
  destruct s1 as [ip1 stk1 h1 o1 fr1]; simpl in Hip1, Hstk1, HMS1, Hout1, Hfr1; subst ip1 stk1 fr1.
  pose proof (code_at_app_r _ _ _ _ Hc) as H1.
  assert (Hpop : star prog (mkst ip stk h o) (mkst (S (ip + length ci)) stk h1 o1)).
  { eapply star_snoc; [exact Hst1|]. apply step_slide_pop. eapply code_at_head; exact H1. }
  pose proof (IH _ _ _ _ _ He sc Fw prog (S (ip + length ci)) L ce (mkst (S (ip + length ci)) stk h1 o1) m1
                (code_at_tail _ _ _ _ H1) eq_refl HMS1 Hout1 (env_match_ext _ _ _ _ _ _ _ _ _ _ Hem Hext1)) as Hw.
  fold cw in Hw.
  replace (length (ci ++ ins BYTECODE_SLIDE 1 0 :: cw)) with (S (length ci) + length cw)%nat
    by (rewrite app_length; simpl; lia).
  destruct r as [c2|ex| |]; simpl in Hw |- *; auto.
  - destruct Hw as (s2 & m2 & a2 & Hst2 & Hip2 & Hstk2 & Hm2 & HMS2 & Hext2 & Hout2 & Hfr2).
    exists s2, m2, a2. split; [eapply star_trans; eauto|]. split; [rewrite Hip2; lia|].
    split; [exact Hstk2|]. split; [exact Hm2|]. split; [exact HMS2|].
    split; [eapply ext_trans; eauto|]. split; [exact Hout2 | exact Hfr2].
  - destruct Hw as [_ Hr]. split; [reflexivity|]. eapply raises_star; [exact Hpop | reflexivity | stk_ext | eapply raises_weaken; [exact Hr | lia | lia] | ext_tac].
Qed.

End Frame.

(* ---- stage 3: frames ---------------------------------------------------------------------------- *)

Local Notation mk := ValueVM4.mkst.

Lemma fregs_eta : forall fr, {| r_fp := r_fp fr; r_gp := r_gp fr; r_exc := r_exc fr; r_frames := r_frames fr |} = fr.
Proof. destruct fr; reflexivity. Qed.

Lemma step_mark : forall fr prog ip stk h o rel w t,
  nth_error prog ip = Some (ins BYTECODE_MARK rel w) -> Z.of_nat ip + rel = Z.of_nat t ->
  step prog (mk ip stk h o fr) =
  SNext (mk (S ip) (t :: r_fp fr :: r_gp fr :: 0 :: 0 :: stk)%nat h o (set_fp fr (length stk + 5))).
Proof.
  intros. unfold ValueVM4.step. simpl. rewrite H. simpl. rewrite H0, zn_nonneg by lia.
  rewrite Nat2Z.id. reflexivity.
Qed.

Lemma step_global_vec0 : forall fr prog ip stk h o,
  nth_error prog ip = Some (ins BYTECODE_GLOBAL_VEC 0 0) ->
  step prog (mk ip stk h o fr) = SNext (mk (S ip) (length h :: stk) (h ++ [HVec []]) o fr).
Proof. intros. unfold ValueVM4.step. simpl. rewrite H. simpl. destruct stk; reflexivity. Qed.

Lemma step_id_func_addr : forall fr prog ip v stk h o k w,
  nth_error prog ip = Some (ins BYTECODE_ID_FUNC_ADDR (Z.of_nat k) w) ->
  step prog (mk ip (v :: stk) h o fr) =
  SNext (mk (S ip) (length h :: stk) (h ++ [HFun v (faddr k)]) o fr).
Proof.
  intros. unfold ValueVM4.step. simpl. rewrite H. simpl. rewrite zn_nonneg by lia.
  rewrite Nat2Z.id. reflexivity.
Qed.

Lemma step_call_frame : forall fr prog ip f args ret fpo x1 x2 x3 below h o vec target,
  nth_error prog ip = Some (ins0 BYTECODE_CALL) -> nth_error h f = Some (HFun vec target) -> target <> 0%nat ->
  r_fp fr = (length below + 5)%nat ->
  step prog (mk ip (f :: args ++ ret :: fpo :: x1 :: x2 :: x3 :: below) h o fr) =
  SNext (mk target args h o
            {| r_fp := 0; r_gp := vec; r_exc := r_exc fr;
               r_frames := {| f_ret := ret; f_fp := fpo; f_gp := x1; f_below := below; f_exc := r_exc fr |} :: r_frames fr |}).
Proof.
  intros fr prog ip f args ret fpo x1 x2 x3 below h o vec target H H0 Hnz Hfp.
  exact (CompileCorrect4Base.step_call_closure X prog ip f args ret fpo x1 x2 x3 below h o fr vec target H H0 Hnz Hfp).
Qed.

Lemma step_ret_frame : forall prog ip res rest h o g e F fs,
  nth_error prog ip = Some (ins0 BYTECODE_RET) ->
  step prog (mk ip (res :: rest) h o {| r_fp := 0; r_gp := g; r_exc := e; r_frames := F :: fs |}) =
  SNext (mk (f_ret F) (res :: f_below F) h o {| r_fp := f_fp F; r_gp := f_gp F; r_exc := f_exc F; r_frames := fs |}).
Proof. intros. unfold ValueVM4.step. simpl. rewrite H. reflexivity. Qed.

Lemma step_rethrow_frame : forall prog ip res rest h o g e F fs,
  nth_error prog ip = Some (ins0 BYTECODE_RETHROW) ->
  step prog (mk ip (res :: rest) h o {| r_fp := 0; r_gp := g; r_exc := e; r_frames := F :: fs |}) =
  SNext (mk (hsearch (x_tab X) (Nat.pred (f_ret F)) 0) (res :: f_below F) h o
            {| r_fp := f_fp F; r_gp := f_gp F; r_exc := e; r_frames := fs |}).
Proof. intros. unfold ValueVM4.step. simpl. rewrite H. reflexivity. Qed.

Lemma do_ret_pending : forall fr t top ret fpo x1 x2 x3 below,
  r_fp fr = (length below + 5)%nat ->
  do_ret (t :: top ++ ret :: fpo :: x1 :: x2 :: x3 :: below) fr = Some (ret, t :: below, set_fp_gp fr fpo x1).
Proof.
  intros fr t top ret fpo x1 x2 x3 below Hfp. unfold do_ret. rewrite Hfp.
  replace (Nat.eqb (length below + 5) 0) with false by (symmetry; apply Nat.eqb_neq; lia).
  assert (Hlen : length (t :: top ++ ret :: fpo :: x1 :: x2 :: x3 :: below) =
                 (S (length top) + (length below + 5))%nat).
  { cbn [length]. rewrite app_length. cbn [length]. lia. }
  rewrite Hlen.
  replace (Nat.ltb (length below + 5) (S (length top) + (length below + 5))) with true
    by (symmetry; apply Nat.ltb_lt; lia).
  replace (S (length top) + (length below + 5) - (length below + 5))%nat with (S (length top)) by lia.
  change (skipn (S (length top)) (t :: top ++ ret :: fpo :: x1 :: x2 :: x3 :: below))
    with (skipn (length top) (top ++ ret :: fpo :: x1 :: x2 :: x3 :: below)).
  rewrite skipn_app, skipn_all, Nat.sub_diag. reflexivity.
Qed.

(* RETHROW while a MARK of the running activation is pending: the pending header is unwound *)
Lemma step_rethrow_pending : forall fr prog ip t top ret fpo x1 x2 x3 below h o,
  nth_error prog ip = Some (ins0 BYTECODE_RETHROW) -> r_fp fr = (length below + 5)%nat ->
  step prog (mk ip (t :: top ++ ret :: fpo :: x1 :: x2 :: x3 :: below) h o fr) =
  SNext (mk (hsearch (x_tab X) (Nat.pred ret) 0) (t :: below) h o (set_fp_gp fr fpo x1)).
Proof.
  intros fr prog ip t top ret fpo x1 x2 x3 below h o H Hfp.
  unfold ValueVM4.step. cbn [v_ip v_stk v_heap v_out v_fr ValueVM4.mkst]. rewrite H.
  cbn [r_op ins0 ins]. rewrite (do_ret_pending _ _ _ _ _ _ _ _ _ Hfp). reflexivity.
Qed.

Lemma step_build_in_print : forall fr prog ip a stk h o z,
  nth_error prog ip = Some (ins BYTECODE_BUILD_IN lib_math_print 0) -> hint h a = Some z ->
  step prog (mk ip (a :: stk) h o fr) = SNext (mk (S ip) (length h :: stk) (h ++ [HInt (z)]) (z :: o) fr).
Proof. intros. unfold ValueVM4.step. simpl. rewrite H. simpl. rewrite H0. reflexivity. Qed.

(* GLOBAL_VEC 0; ID_FUNC_ADDR k; CALL with the arguments above the header MARK pushed *)
Lemma enter_call : forall fr prog p k args stk h o ret,
  nth_error prog p = Some (ins BYTECODE_GLOBAL_VEC 0 0) ->
  nth_error prog (S p) = Some (ins BYTECODE_ID_FUNC_ADDR (Z.of_nat k) 0) ->
  nth_error prog (S (S p)) = Some (ins0 BYTECODE_CALL) -> faddr k <> 0%nat ->
  star prog (mk p (args ++ ret :: r_fp fr :: r_gp fr :: 0 :: 0 :: stk)%nat h o (set_fp fr (length stk + 5)))
       (mk (faddr k) args ((h ++ [HVec []]) ++ [HFun (length h) (faddr k)]) o
           {| r_fp := 0; r_gp := length h; r_exc := r_exc fr;
              r_frames := {| f_ret := ret; f_fp := r_fp fr; f_gp := r_gp fr; f_below := stk; f_exc := r_exc fr |} :: r_frames fr |}).
Proof.
  intros fr prog p k args stk h o ret H1 H2 H3 Hnz.
  eapply star_step; [apply step_global_vec0; exact H1|].
  eapply star_step; [eapply step_id_func_addr; exact H2|].
  apply star_one.
  rewrite (step_call_frame (set_fp fr (length stk + 5)) prog (S (S p)) (length (h ++ [HVec []])) args ret
             (r_fp fr) (r_gp fr) 0%nat 0%nat stk _ o (length h) (faddr k) H3); [reflexivity | | exact Hnz | reflexivity].
  rewrite nth_error_app2, Nat.sub_diag by lia. reflexivity.
Qed.

Lemma step_label_op : forall fr prog ip i stk h o,
  nth_error prog ip = Some i -> r_op i = BYTECODE_LABEL ->
  step prog (mk ip stk h o fr) = SNext (mk (S ip) stk h o fr).
Proof. intros fr prog ip i stk h o H Hop. unfold ValueVM4.step. simpl. rewrite H, Hop. reflexivity. Qed.

Lemma step_rethrow_pending_op : forall fr prog ip i t top ret fpo x1 x2 x3 below h o,
  nth_error prog ip = Some i -> r_op i = BYTECODE_RETHROW -> r_fp fr = (length below + 5)%nat ->
  step prog (mk ip (t :: top ++ ret :: fpo :: x1 :: x2 :: x3 :: below) h o fr) =
  SNext (mk (hsearch (x_tab X) (Nat.pred ret) 0) (t :: below) h o (set_fp_gp fr fpo x1)).
Proof.
  intros fr prog ip i t top ret fpo x1 x2 x3 below h o H Hop Hfp.
  unfold ValueVM4.step. cbn [v_ip v_stk v_heap v_out v_fr ValueVM4.mkst]. rewrite H, Hop.
  rewrite (do_ret_pending _ _ _ _ _ _ _ _ _ Hfp). reflexivity.
Qed.

Lemma is_rethrow_inv : forall prog H, is_rethrow prog H = true ->
  exists i j, nth_error prog H = Some i /\ r_op i = BYTECODE_LABEL /\
              nth_error prog (S H) = Some j /\ r_op j = BYTECODE_RETHROW.
Proof.
  intros prog H Hr. unfold is_rethrow in Hr.
  destruct (nth_error prog H) as [i|]; [|discriminate]. destruct (nth_error prog (S H)) as [j|]; [|discriminate].
  exists i, j. destruct (r_op i) eqn:Ei; try discriminate. destruct (r_op j) eqn:Ej; try discriminate. auto.
Qed.

(* a fault while the MARK of a call is pending (an argument is being evaluated): if the handler is a
   bare LABEL; RETHROW it unwinds the pending header and re-raises at the CALL; if it is a catch
   clause the dispatched state is passed on (CLEAR_STACK will reset fp) *)
Lemma call_arg_fault : forall fr prog s0 sm stk retL lo hi pc n m st' ex,
  star prog s0 sm -> v_fr s0 = fr -> v_stk s0 = stk ->
  v_stk sm = (retL :: r_fp fr :: r_gp fr :: 0 :: 0 :: stk)%nat -> v_fr sm = set_fp fr (length stk + 5) ->
  (pc <= lo)%nat -> (hi <= pc + n)%nat -> (pc <= Nat.pred retL < pc + n)%nat ->
  raises prog sm lo hi m st' ex -> raises prog s0 pc (pc + n) m st' ex.
Proof.
  intros fr prog s0 sm stk retL lo hi pc n m st' ex Hst Hfr0 Hstk0 Hstkm Hfrm Hlo Hhi Hret
         (s' & fip & m' & fp' & H1 & H2 & H3 & H4 & H5 & (t & top & H6) & H7 & H8 & H9).
  destruct s' as [ip' stk' h' o' fr']. simpl in H3, H4, H5, H6, H7, H8. subst stk' fr'.
  destruct (is_rethrow prog ip') eqn:Er.
  - specialize (H5 eq_refl). subst fp'.
    destruct (is_rethrow_inv _ _ Er) as (i & j & Hi & Hiop & Hj & Hjop).
    exists (mk (hsearch (x_tab X) (Nat.pred retL) 0) (t :: stk) h' o' (set_exc fr ex)),
           (Nat.pred retL), m', (r_fp fr).
    split.
    { eapply star_trans; [exact Hst|]. eapply star_trans; [exact H1|].
      eapply star_step; [eapply step_label_op; eauto|]. apply star_one.
      rewrite Hstkm.
      rewrite (step_rethrow_pending_op _ prog (S ip') j t top retL (r_fp fr) (r_gp fr) 0%nat 0%nat stk h' o' Hj Hjop).
      - rewrite Hfrm. unfold set_fp, set_exc. simpl. reflexivity.
      - rewrite Hfrm. reflexivity. }
    split; [lia|]. split; [reflexivity|].
    split; [simpl; rewrite Hfr0, set_fp_same; reflexivity|]. split; [intros _; rewrite Hfr0; reflexivity|].
    split; [exists t, []; simpl; rewrite Hstk0; reflexivity|]. split; [exact H7|]. split; [exact H8 | exact H9].
  - exists (mk ip' (t :: top ++ v_stk sm) h' o' (set_exc (set_fp (v_fr sm) fp') ex)), fip, m', fp'.
    split; [eapply star_trans; eauto|]. split; [lia|]. split; [exact H3|].
    split; [simpl; rewrite Hfrm, Hfr0; reflexivity|].
    split; [simpl; intros Hx; rewrite Hx in Er; discriminate|].
    split; [exists t, (top ++ [retL; r_fp fr; r_gp fr; 0; 0]%nat); simpl; rewrite Hstkm, Hstk0, <- app_assoc; reflexivity|].
    split; [exact H7|]. split; [exact H8 | exact H9].
Qed.

Lemma env_match_pushn : forall fc gp gl m e ce sc L stk pre, env_match_g fc gp gl m e ce sc L stk ->
  env_match_g fc gp gl m e ce sc (L + Z.of_nat (length pre)) (pre ++ stk).
Proof.
  induction pre as [|a pre IH]; intros H.
  - simpl. replace (L + 0) with L by lia. exact H.
  - simpl app. replace (L + Z.of_nat (length (a :: pre))) with (L + Z.of_nat (length pre) + 1)
      by (simpl length; lia).
    apply env_match_push. apply IH. exact H.
Qed.


Section Act.
Variable fc : fctx.
Variable gl : list nat.

Lemma call_code_length : forall ca cf, length (call_code ca cf) = (length ca + length cf + 4)%nat.
Proof. intros. unfold call_code. simpl. rewrite !app_length. simpl. lia. Qed.

(* print(a): LINE; MARK; a; GLOBAL_VEC 0; ID_FUNC_ADDR print; CALL — the callee's FUNC_DEF;
   ID_LOCAL 0 0; BUILD_IN print; RET — LABEL *)
Lemma case_EPrint : forall fr k a, expr_spec fc gl k -> expr_case_at fr fc gl (S k) (EPrint a).
Proof.
  intros fr k a IH env st r st' He sc HF prog L ce ip stk h o m Hc HMS Hout Hem.
  simpl in HF. apply andb_true_iff in HF; destruct HF as [_ Fa].
  rewrite eval_EPrint in He.
  change (compile_expr fc L ce (EPrint a))
    with (call_code (compile_expr fc (L + num_frame_ptrs) ce a) (top_code print_idx)) in *.
  set (ca := compile_expr fc (L + num_frame_ptrs) ce a) in *.
  rewrite call_code_length. pose proof Hc as (_ & Hpo). unfold call_code, top_code in Hc.
  change (length (top_code print_idx)) with 2%nat.
  pose proof (code_at_head _ _ _ _ Hc) as HLN.
  pose proof (code_at_tail _ _ _ _ Hc) as H1.
  pose proof (code_at_head _ _ _ _ H1) as HMK.
  pose proof (code_at_tail _ _ _ _ H1) as H2.
  pose proof (code_at_app_l _ _ _ _ H2) as Hca.
  pose proof (code_at_app_r _ _ _ _ H2) as H3. cbn [app] in H3.
  set (q := (S (S ip) + length ca)%nat) in *.
  pose proof (code_at_head _ _ _ _ H3) as HGV.
  pose proof (code_at_head _ _ _ _ (code_at_tail _ _ _ _ H3)) as HFA.
  pose proof (code_at_head _ _ _ _ (code_at_tail _ _ _ _ (code_at_tail _ _ _ _ H3))) as HCL.
  pose proof (code_at_head _ _ _ _ (code_at_tail _ _ _ _ (code_at_tail _ _ _ _ (code_at_tail _ _ _ _ H3)))) as HLB.
  set (retL := S (S (S q))) in *.
  set (hdr := [retL; r_fp fr; r_gp fr; 0; 0]%nat).
  set (fr' := set_fp fr (length stk + 5)).
  assert (Hmk : star prog (mk ip stk h o fr) (mk (S (S ip)) (hdr ++ stk) h o fr')).
  { eapply star_step; [apply step_line; exact HLN|]. apply star_one.
    eapply step_mark; [exact HMK | subst retL q; unfold len; simpl length; lia]. }
  destruct (eval genv k env st a) as [r1 st1] eqn:Ea.
  pose proof (env_match_pushn _ _ _ _ _ _ _ _ _ hdr Hem) as Hem5.
  change (Z.of_nat (length hdr)) with num_frame_ptrs in Hem5.
  pose proof (IH a _ _ _ _ Ea sc Fa prog (S (S ip)) (L + num_frame_ptrs) ce (mk (S (S ip)) (hdr ++ stk) h o fr') m
                Hca eq_refl HMS Hout Hem5) as Ha.
  fold ca in Ha. fold q in Ha.
  destruct r1 as [c1|ex| |]; simpl in Ha; [| inv He; simpl | inv He; exact I | inv He; exact I].
  2:{ destruct Ha as [_ Hr]. split; [reflexivity|].
      eapply (call_arg_fault fr prog _ _ stk retL (S (S ip)) q ip (length ca + 2 + 4) _ _ _ Hmk);
        [reflexivity | reflexivity | reflexivity | reflexivity | lia | subst q; lia | subst retL q; simpl; lia | exact Hr]. }
  destruct Ha as (s1 & m1 & a1 & Hst1 & Hip1 & Hstk1 & Hm1 & HMS1 & Hext1 & Hout1 & Hfr1).
  destruct s1 as [ip1 stk1 h1 o1 fr1]; simpl in Hip1, Hstk1, HMS1, Hout1, Hfr1; subst ip1 stk1 fr1.
  destruct (get_int st1 c1) as [z|] eqn:Eg; [|inv He; exact I].
  pose proof (MS_payload_int _ _ _ _ _ _ HMS1 Hm1 Eg) as Hp.
  destruct (fresh_inv _ _ _ _ He) as (c & ->). simpl.
  set (h3 := (h1 ++ [HVec []]) ++ [HFun (length h1) (faddr 13)]).
  assert (HMS3 : MS m1 (print_num st1 z) h3).
  { apply MS_print. unfold h3. apply MS_heap_app. apply MS_heap_app. exact HMS1. }
  assert (Hv : val_rel (CInt z) z) by reflexivity.
  destruct (MS_fresh _ _ _ _ _ _ _ HMS3 Hv He) as (HMS' & Hm' & Hout').
  (* the callee *)
  pose proof (po_print _ Hpo) as Hpb. unfold print_body, std_body in Hpb. cbn [fst snd app] in Hpb.
  pose proof (CompileCorrect4Base.code_at_head _ _ _ _ Hpb) as PB0.
  pose proof (CompileCorrect4Base.code_at_tail _ _ _ _ Hpb) as Hpb1.
  pose proof (CompileCorrect4Base.code_at_head _ _ _ _ Hpb1) as PB1.
  pose proof (CompileCorrect4Base.code_at_tail _ _ _ _ Hpb1) as Hpb2.
  pose proof (CompileCorrect4Base.code_at_head _ _ _ _ Hpb2) as PB2.
  pose proof (CompileCorrect4Base.code_at_head _ _ _ _ (CompileCorrect4Base.code_at_tail _ _ _ _ Hpb2)) as PB3.
  set (frc := {| r_fp := 0; r_gp := length h1; r_exc := r_exc fr;
                 r_frames := {| f_ret := retL; f_fp := r_fp fr; f_gp := r_gp fr; f_below := stk; f_exc := r_exc fr |} :: r_frames fr |}).
  assert (Hp3 : hint h3 a1 = Some z) by (unfold h3; apply hint_app, hint_app; exact Hp).
  apply (post_ok_intro _ _ _ _ _ _ (mk (S retL) (length h3 :: stk) (h3 ++ [HInt z]) (z :: o1) fr)
           (msnoc m1 (MA (length h3))) (length h3)); simpl; auto.
  - eapply star_trans; [exact Hmk|]. eapply star_trans; [exact Hst1|].
    eapply star_trans; [apply (enter_call fr prog q 13 [a1] stk h1 o1 retL HGV HFA HCL (po_nz13 _ Hpo))|].
    fold h3. fold frc.
    eapply star_step; [apply (step_func_def frc); exact PB0|].
    eapply star_step; [eapply (step_id_local frc _ _ _ _ _ 0 0 a1); [exact PB1 | lia | reflexivity]|].
    eapply star_step; [eapply (step_build_in_print frc); [exact PB2 | exact Hp3]|].
    eapply star_step; [apply step_ret_frame; exact PB3|].
    cbn [f_ret f_fp f_gp f_below f_exc]. rewrite fregs_eta.
    apply star_one. apply step_label. exact HLB.
  - subst retL q. lia.
  - eapply ext_trans; [exact Hext1 | apply ext_snoc].
  - rewrite Hout'. simpl. congruence.
Qed.

(* ---- calls ------------------------------------------------------------------------------------------ *)

Local Notation compile_args := (Compile4.compile_args FT TL fc).

Lemma in_F_call : forall sc f args, in_F (fc_self fc) lv sc (ECall f args) =
  Nat.leb 3 lv && args_F FS TL (g_all G) (fc_self fc) lv sc args &&
  match f with
  | EVar g => match fsig_lookup g FS with
              | Some n => Nat.eqb n (length args)
              | None => Nat.leb 4 lv && (mem_id g sc || self_is (fc_self fc) g)
              end
  | _ => Nat.leb 4 lv && in_F (fc_self fc) lv sc f
  end.
Proof.
  intros. cbn [Compile4.in_F]. f_equal. f_equal. induction args as [|a t IH]; [reflexivity|].
  cbn [args_F]. rewrite <- IH. reflexivity.
Qed.

Lemma compile_args_cons : forall ce L a t, compile_args ce L (a :: t) =
  compile_args ce L t ++ compile_expr fc (L + Z.of_nat (length t)) ce a.
Proof. reflexivity. Qed.

Lemma Forall2_ext_m : forall m m' (cs astk : list nat), ext m m' ->
  Forall2 (fun c a => vrel m c a) cs astk ->
  Forall2 (fun c a => vrel m' c a) cs astk.
Proof. intros m m' cs astk He H. induction H; constructor; auto. eapply vrel_ext; eauto. Qed.

(* the argument list, last argument first; the images end up on the stack in source order *)
Definition args_concl (prog : list rinstr) (s : vstate) (pc : nat) (code : list rinstr) (n : nat)
  (m : morph) (ocs : option (list nat)) (r : res) (st1 : state) : Prop :=
  match ocs with
  | Some cs =>
    exists s' m' astk, star prog s s' /\ v_ip s' = (pc + length code)%nat /\
      v_stk s' = astk ++ v_stk s /\ length astk = n /\
      Forall2 (fun c a => vrel m' c a) cs astk /\
      MS m' st1 (v_heap s') /\ ext m m' /\ v_out s' = out st1 /\ v_fr s' = v_fr s
  | None =>
    match r with
    | RExc ex => ex = ex /\ raises prog s pc (pc + length code) m st1 ex
    | _ => True
    end
  end.

Lemma args_spec_of : forall k, expr_spec fc gl k ->
  forall args env st ocs r st1, eval_args genv k env args st = ((ocs, r), st1) ->
  forall sc, args_F FS TL (g_all G) (fc_self fc) lv sc args = true ->
  forall prog pc L ce s m,
    code_at prog pc (compile_args ce L args) -> v_ip s = pc ->
    MS m st (v_heap s) -> v_out s = out st -> env_match_g fc (r_gp (v_fr s)) gl m env ce sc L (v_stk s) ->
    args_concl prog s pc (compile_args ce L args) (length args) m ocs r st1.
Proof.
  intros k IH. induction args as [|a t IHt]; intros env st ocs r st1 He sc HF prog pc L ce s m Hc Hip HMS Hout Hem.
  - unfold eval_args in He. rewrite eval_args_f_nil in He. inv He. simpl.
    exists s, m, []. simpl. rewrite Nat.add_0_r.
    split; [apply star_refl|]. split; [auto|]. split; [reflexivity|]. split; [reflexivity|].
    split; [constructor|]. split; [exact HMS|]. split; [apply ext_refl|]. split; [exact Hout | reflexivity].
  - unfold eval_args in He. rewrite eval_args_f_cons in He. fold (eval_args genv k env) in He.
    cbn [args_F] in HF. apply andb_true_iff in HF; destruct HF as [Fa Ft].
    rewrite compile_args_cons in *.
    set (ct := compile_args ce L t) in *. set (ca := compile_expr fc (L + Z.of_nat (length t)) ce a) in *.
    destruct (eval_args genv k env t st) as [[ocs1 r1] st2] eqn:Et.
    pose proof (IHt env st ocs1 r1 st2 Et sc Ft prog pc L ce s m (code_at_app_l _ _ _ _ Hc) Hip HMS Hout Hem) as Ht.
    fold ct in Ht.
    destruct ocs1 as [cs|].
    + destruct Ht as (s1 & m1 & astk & Hst1 & Hip1 & Hstk1 & Hlen1 & HF1 & HMS1 & Hext1 & Hout1 & Hfr1).
      pose proof (env_match_pushn _ _ _ _ _ _ _ _ _ astk (env_match_ext _ _ _ _ _ _ _ _ _ _ Hem Hext1)) as Hem1.
      rewrite Hlen1, <- Hstk1, <- Hfr1 in Hem1.
      destruct (eval genv k env st2 a) as [ra st3] eqn:Ea.
      pose proof (IH a _ _ _ _ Ea sc Fa prog (pc + length ct)%nat (L + Z.of_nat (length t)) ce s1 m1
                    (code_at_app_r _ _ _ _ Hc) Hip1 HMS1 Hout1 Hem1) as Ha. fold ca in Ha.
      destruct ra as [c|ex| |]; inv He; simpl in Ha |- *; auto.
      * destruct Ha as (s2 & m2 & a2 & Hst2 & Hip2 & Hstk2 & Hm2 & HMS2 & Hext2 & Hout2 & Hfr2).
        exists s2, m2, (a2 :: astk). split; [eapply star_trans; eauto|].
        split; [rewrite Hip2, app_length; lia|]. split; [rewrite Hstk2, Hstk1; reflexivity|].
        split; [simpl; lia|].
        split; [constructor; [exact Hm2 | eapply Forall2_ext_m; eauto]|].
        split; [exact HMS2|]. split; [eapply ext_trans; eauto|]. split; [exact Hout2 | congruence].
      * destruct Ha as [_ Hr]. split; [reflexivity|].
        eapply raises_star; [exact Hst1 | exact Hfr1 | exists astk; exact Hstk1
                            | eapply raises_weaken; [exact Hr | lia | rewrite app_length; lia] | exact Hext1].
    + inv He. simpl in Ht |- *. destruct r as [c|ex| |]; auto.
      destruct Ht as [_ Hr]. split; [reflexivity|].
      eapply raises_weaken; [exact Hr | lia | rewrite app_length; lia].
Qed.

Lemma eval_args_none_not_ok : forall k env args st r st1 c,
  eval_args genv k env args st = ((None, r), st1) -> r <> ROk c.
Proof.
  intros k env. induction args as [|a t IH]; intros st r st1 c He.
  - unfold eval_args in He. rewrite eval_args_f_nil in He. discriminate.
  - unfold eval_args in He. rewrite eval_args_f_cons in He. fold (eval_args genv k env) in He.
    destruct (eval_args genv k env t st) as [[o1 r1] st2] eqn:Et.
    destruct o1 as [cs|].
    + destruct (eval genv k env st2 a) as [ra st3]. destruct ra; inv He; discriminate.
    + inv He. eapply IH; eauto.
Qed.

(* ---- array literals (level 7): the elements like an argument list, each an int cell that is recorded ---- *)

Lemma elems_spec_of : forall k, expr_spec fc gl k ->
  forall args env st ocs r st1, eval_args genv k env args st = ((ocs, r), st1) ->
  forall sc, args_F FS TL (g_all G) (fc_self fc) lv sc args = true -> forallb (elem_ok (g_all G) sc) args = true -> cp = true ->
  forall prog pc L ce s m,
    code_at prog pc (compile_args ce L args) -> v_ip s = pc ->
    MS m st (v_heap s) -> v_out s = out st -> env_match_g fc (r_gp (v_fr s)) gl m env ce sc L (v_stk s) ->
    match ocs with
    | Some cs =>
      exists s' m' astk, star prog s s' /\ v_ip s' = (pc + length (compile_args ce L args))%nat /\
        v_stk s' = astk ++ v_stk s /\ length astk = length args /\
        Forall2 (fun c a => vrel m' c a) cs astk /\ Forall (fun c => In c (mi m')) cs /\
        MS m' st1 (v_heap s') /\ ext m m' /\ v_out s' = out st1 /\ v_fr s' = v_fr s
    | None =>
      match r with
      | RExc ex => ex = ex /\ raises prog s pc (pc + length (compile_args ce L args)) m st1 ex
      | _ => True
      end
    end.
Proof.
  intros k IH. induction args as [|a t IHt]; intros env st ocs r st1 He sc HF Hsh Hcp prog pc L ce s m Hc Hip HMS Hout Hem.
  - unfold eval_args in He. rewrite eval_args_f_nil in He. inv He. simpl.
    exists s, m, []. simpl. rewrite Nat.add_0_r.
    split; [apply star_refl|]. split; [auto|]. split; [reflexivity|]. split; [reflexivity|].
    split; [constructor|]. split; [constructor|]. split; [exact HMS|]. split; [apply ext_refl|]. split; [exact Hout | reflexivity].
  - unfold eval_args in He. rewrite eval_args_f_cons in He. fold (eval_args genv k env) in He.
    cbn [args_F] in HF. apply andb_true_iff in HF; destruct HF as [Fa Ft].
    cbn [forallb] in Hsh. apply andb_true_iff in Hsh; destruct Hsh as [Sa St].
    rewrite compile_args_cons in *.
    set (ct := compile_args ce L t) in *. set (ca := compile_expr fc (L + Z.of_nat (length t)) ce a) in *.
    destruct (eval_args genv k env t st) as [[ocs1 r1] st2] eqn:Et.
    pose proof (IHt env st ocs1 r1 st2 Et sc Ft St Hcp prog pc L ce s m (code_at_app_l _ _ _ _ Hc) Hip HMS Hout Hem) as Ht.
    fold ct in Ht.
    destruct ocs1 as [cs|].
    + destruct Ht as (s1 & m1 & astk & Hst1 & Hip1 & Hstk1 & Hlen1 & HF1 & Hmi1 & HMS1 & Hext1 & Hout1 & Hfr1).
      pose proof (env_match_pushn _ _ _ _ _ _ _ _ _ astk (env_match_ext _ _ _ _ _ _ _ _ _ _ Hem Hext1)) as Hem1.
      rewrite Hlen1, <- Hstk1, <- Hfr1 in Hem1.
      destruct (eval genv k env st2 a) as [ra st3] eqn:Ea.
      pose proof (IH a _ _ _ _ Ea sc Fa prog (pc + length ct)%nat (L + Z.of_nat (length t)) ce s1 m1
                    (code_at_app_r _ _ _ _ Hc) Hip1 HMS1 Hout1 Hem1) as Ha. fold ca in Ha.
      destruct ra as [c|ex| |]; inv He; simpl in Ha |- *; auto.
      * destruct Ha as (s2 & m2 & a2 & Hst2 & Hip2 & Hstk2 & Hm2 & HMS2 & Hext2 & Hout2 & Hfr2).
        assert (Hadd : exists m3, MS m3 st1 (v_heap s2) /\ ext m2 m3 /\ In c (mi m3)).
        { unfold elem_ok in Sa. destruct (int_shaped a) eqn:Eis.
          - (* a new int cell: it is recorded *)
            destruct (vrel_kind _ _ _ _ _ HMS2 Hm2) as (v & Hcv & _).
            assert (Hiv : is_intv v = true) by (eapply int_shaped_cell; [exact Eis | exact Ea | exact Hcv]).
            destruct (MS_addint m2 st1 (v_heap s2) c v HMS2 Hcv ltac:(destruct v; try discriminate Hiv; exact I)) as (A & B & C).
            eexists. split; [exact A|]. split; [exact B | exact C].
          - (* an int var in scope: its cell, shared, is a recorded int cell already *)
            cbn [orb] in Sa. destruct a; try discriminate Sa. apply andb_true_iff in Sa. destruct Sa as [Sx Si].
            exists m2. split; [exact HMS2|]. split; [apply ext_refl|]. eapply ext_mi; [exact Hext2|].
            assert (Hxi : mem_id x IV = true) by (unfold IV, CompileCorrect4Rel.ivs; rewrite Hcp; exact Si).
            destruct (proj1 Hem1 x Sx) as (c' & a' & Hl & _).
            destruct k as [|k']; [rewrite eval_O in Ea; discriminate Ea|].
            rewrite eval_EVar in Ea. unfold lookup_var in Ea. rewrite Hl in Ea. inversion Ea; subst.
            exact (proj2 (proj2 (proj2 (proj2 (proj2 (proj2 (proj2 Hem1)))))) x c Sx Hxi Hl). }
        destruct Hadd as (m3 & A & B & C).
        eexists s2, _, (a2 :: astk). split; [eapply star_trans; eauto|].
        split; [rewrite Hip2, app_length; lia|]. split; [rewrite Hstk2, Hstk1; reflexivity|].
        split; [simpl; lia|].
        split; [constructor; [eapply vrel_ext; [exact B | exact Hm2]
                             | eapply Forall2_ext_m; [exact B|]; eapply Forall2_ext_m; [exact Hext2 | exact HF1]]|].
        split; [constructor; [exact C|]; rewrite Forall_forall in Hmi1 |- *; intros x Hx;
                eapply ext_mi; [exact B|]; eapply ext_mi; [exact Hext2 | exact (Hmi1 x Hx)]|].
        split; [exact A|]. split; [eapply ext_trans; [exact Hext1|]; eapply ext_trans; [exact Hext2 | exact B]|].
        split; [exact Hout2 | congruence].
      * destruct Ha as [_ Hr]. split; [reflexivity|].
        eapply raises_star; [exact Hst1 | exact Hfr1 | exists astk; exact Hstk1
                            | eapply raises_weaken; [exact Hr | lia | rewrite app_length; lia] | exact Hext1].
    + inv He. simpl in Ht |- *. destruct r as [c|ex| |]; auto.
      destruct Ht as [_ Hr]. split; [reflexivity|].
      eapply raises_weaken; [exact Hr | lia | rewrite app_length; lia].
Qed.

Lemma step_mkarr : forall fr prog ip an top stk h o,
  nth_error prog ip = Some (ins BYTECODE_MK_INIT_ARRAY 1 0) -> hint h an = Some (Z.of_nat (length top)) ->
  step prog (mk ip (an :: top ++ stk) h o fr) = SNext (mk (S ip) (length h :: stk) (h ++ [HVec top]) o fr).
Proof.
  intros fr prog ip an top stk h o H H0. unfold ValueVM4.step. simpl. rewrite H. simpl. rewrite H0.
  rewrite zn_nonneg by lia. rewrite Nat2Z.id, app_length.
  replace (Nat.leb (length top) (length top + length stk)) with true by (symmetry; apply Nat.leb_le; lia).
  rewrite skipn_app, skipn_all, Nat.sub_diag, firstn_app, firstn_all, Nat.sub_diag. simpl.
  rewrite app_nil_r. reflexivity.
Qed.

(* [e1, …, en] : int — the elements last to first; INT n; MK_INIT_ARRAY 1: one new vector of the element cells'
   images; the evaluator makes a new array object over the element cells and a new cell referring to it *)
Lemma case_EArrLit : forall fr k es t, expr_spec fc gl k -> expr_case_at fr fc gl (S k) (EArrLit es t).
Proof.
  intros fr k es t IH env st r st' He sc HF prog L ce ip stk h o m Hc HMS Hout Hem.
  cbn [Compile4.in_F] in HF.
  apply andb_true_iff in HF; destruct HF as [HF Fall]. apply andb_true_iff in HF; destruct HF as [HF Fsh].
  apply andb_true_iff in HF; destruct HF as [Flv _].
  assert (Fargs : args_F FS TL (g_all G) (fc_self fc) lv sc es = true).
  { clear -Fall. induction es as [|a t0 IHes]; [reflexivity|]. cbn [args_F].
    apply andb_true_iff in Fall. destruct Fall as [A B]. rewrite A. simpl. apply IHes. exact B. }
  assert (Hcp : cp = true) by (unfold cp; apply Nat.leb_le in Flv; apply Nat.leb_le; lia).
  rewrite eval_EArrLit in He.
  change (compile_expr fc L ce (EArrLit es t))
    with (compile_args ce L es ++ [ins BYTECODE_INT (Z.of_nat (length es)) 0; ins BYTECODE_MK_INIT_ARRAY 1 0]) in *.
  set (ca := compile_args ce L es) in *.
  destruct (eval_args genv k env es st) as [[ocs ra] st1] eqn:Eargs.
  pose proof (elems_spec_of k IH es env st ocs ra st1 Eargs sc Fargs Fsh Hcp prog ip L ce (mk ip stk h o fr) m
                (code_at_app_l _ _ _ _ Hc) eq_refl HMS Hout Hem) as Ha.
  fold ca in Ha.
  destruct ocs as [cs|].
  2:{ inv He. destruct r as [c|ex| |]; simpl; auto.
      { exfalso. eapply eval_args_none_not_ok; eauto. }
      destruct Ha as [_ Hr]. split; [reflexivity|].
      eapply raises_weaken; [exact Hr | lia | rewrite app_length; simpl; lia]. }
  destruct Ha as (s1 & m1 & astk & Hst1 & Hip1 & Hstk1 & Hlen1 & HF1 & Hmi1 & HMS1 & Hext1 & Hout1 & Hfr1).
  destruct s1 as [ip1 stk1 h1 o1 fr1]; simpl in Hip1, Hstk1, HMS1, Hout1, Hfr1; subst ip1 stk1 fr1.
  pose proof (code_at_app_r _ _ _ _ Hc) as Hc2.
  pose proof (code_at_head _ _ _ _ Hc2) as HIN.
  pose proof (code_at_head _ _ _ _ (code_at_tail _ _ _ _ Hc2)) as HMK.
  destruct (MS_newarr m1 st1 h1 cs astk HMS1 Hcp HF1 Hmi1) as (HMSa & Hexta & Hina).
  unfold new_arr in He. cbn [snd new_arr] in HMSa.
  set (st2 := {| cells := cells st1; arrs := arrs st1 ++ [cs]; recs := recs st1; out := out st1 |}) in *.
  set (ar := length (arrs st1)) in *.
  set (ma := {| mm := mm m1; mv := mv m1; mf := mf m1; mc := mc m1; mi := mi m1; mar := mar m1 ++ [(ar, astk)]; mrc := mrc m1 |}) in *.
  unfold fresh in He. destruct (alloc st2 (CArr (Some ar))) as [c st3] eqn:Ea. inv He. simpl.
  set (n := Z.of_nat (length es)) in *.
  assert (Hs : forall fd cenv k0, CArr (Some ar) = CFun fd cenv -> nth_error (g_all G) k0 = Some (KNamed, fd) ->
                 lookup (fd_name fd) cenv = Some c) by (intros fd cenv k0 E; discriminate E).
  destruct (MS_alloc_gen ma st2 h1 (CArr (Some ar)) (HVec astk) c st' [HInt n] HMSa Hina Ea Hs (fun _ E => ltac:(discriminate E))) as (HMS' & Hm' & Hext' & Hout').
  cbn [length] in HMS', Hm', Hext'.
  eapply (post_ok_intro _ _ _ _ _ _ (mk (S (S (ip + length ca))) ((length h1 + 1)%nat :: stk) (h1 ++ [HInt n] ++ [HVec astk]) (out st1) fr)
           _ (length h1 + 1)%nat); cbn [v_ip v_stk v_heap v_out v_fr ValueVM4.mkst].
  - eapply star_trans; [exact Hst1|].
    eapply star_step; [apply (step_int fr prog (ip + length ca) (astk ++ stk) h1 (out st1) n 0); exact HIN|].
    apply star_one.
    rewrite (step_mkarr fr prog (S (ip + length ca)) (length h1) astk stk (h1 ++ [HInt n]) (out st1) HMK).
    + rewrite app_length, <- app_assoc. reflexivity.
    + unfold hint. rewrite nth_error_app2, Nat.sub_diag by lia. cbn [nth_error]. unfold n. rewrite Hlen1. reflexivity.
  - rewrite app_length. cbn [length]. lia.
  - reflexivity.
  - exact Hm'.
  - exact HMS'.
  - eapply ext_trans; [exact Hext1|]. eapply ext_trans; [exact Hexta | exact Hext'].
  - rewrite Hout'. reflexivity.
  - reflexivity.
Qed.

Lemma step_record : forall fr prog ip top stk h o,
  nth_error prog ip = Some (ins BYTECODE_RECORD (Z.of_nat (length top)) 0) ->
  step prog (mk ip (top ++ stk) h o fr) = SNext (mk (S ip) (length h :: stk) (h ++ [HVec top]) o fr).
Proof.
  intros fr prog ip top stk h o H. unfold ValueVM4.step. simpl. rewrite H. simpl.
  rewrite zn_nonneg by lia. rewrite Nat2Z.id, app_length.
  replace (Nat.leb (length top) (length top + length stk)) with true by (symmetry; apply Nat.leb_le; lia).
  rewrite skipn_app, skipn_all, Nat.sub_diag, firstn_app, firstn_all, Nat.sub_diag. simpl.
  rewrite app_nil_r. reflexivity.
Qed.

(* R(e1, …, en): the fields last to first, RECORD n: one new vector of the field cells' images *)
Lemma case_ERecNew : forall fr k rn es, expr_spec fc gl k -> expr_case_at fr fc gl (S k) (ERecNew rn es).
Proof.
  intros fr k rn es IH env st r st' He sc HF prog L ce ip stk h o m Hc HMS Hout Hem.
  cbn [Compile4.in_F] in HF.
  apply andb_true_iff in HF; destruct HF as [HF Fall]. apply andb_true_iff in HF; destruct HF as [Flv Fsh].
  assert (Fargs : args_F FS TL (g_all G) (fc_self fc) lv sc es = true).
  { clear -Fall. induction es as [|a t0 IHes]; [reflexivity|]. cbn [args_F].
    apply andb_true_iff in Fall. destruct Fall as [A B]. rewrite A. simpl. apply IHes. exact B. }
  assert (Hcp : cp = true) by (unfold cp; apply Nat.leb_le in Flv; apply Nat.leb_le; lia).
  rewrite eval_ERecNew in He.
  change (compile_expr fc L ce (ERecNew rn es))
    with (compile_args ce L es ++ [ins BYTECODE_RECORD (Z.of_nat (length es)) 0]) in *.
  set (ca := compile_args ce L es) in *.
  destruct (eval_args genv k env es st) as [[ocs ra] st1] eqn:Eargs.
  pose proof (elems_spec_of k IH es env st ocs ra st1 Eargs sc Fargs Fsh Hcp prog ip L ce (mk ip stk h o fr) m
                (code_at_app_l _ _ _ _ Hc) eq_refl HMS Hout Hem) as Ha.
  fold ca in Ha.
  destruct ocs as [cs|].
  2:{ inv He. destruct r as [c|ex| |]; simpl; auto.
      { exfalso. eapply eval_args_none_not_ok; eauto. }
      destruct Ha as [_ Hr]. split; [reflexivity|].
      eapply raises_weaken; [exact Hr | lia | rewrite app_length; simpl; lia]. }
  destruct Ha as (s1 & m1 & astk & Hst1 & Hip1 & Hstk1 & Hlen1 & HF1 & Hmi1 & HMS1 & Hext1 & Hout1 & Hfr1).
  destruct s1 as [ip1 stk1 h1 o1 fr1]; simpl in Hip1, Hstk1, HMS1, Hout1, Hfr1; subst ip1 stk1 fr1.
  pose proof (code_at_head _ _ _ _ (code_at_app_r _ _ _ _ Hc)) as HRC.
  destruct (MS_newrec m1 st1 h1 cs astk HMS1 Hcp HF1 Hmi1) as (HMSa & Hexta & Hina).
  unfold new_rec in He. cbn [snd new_rec] in HMSa.
  set (st2 := {| cells := cells st1; arrs := arrs st1; recs := recs st1 ++ [cs]; out := out st1 |}) in *.
  set (rr := length (recs st1)) in *.
  set (ma := {| mm := mm m1; mv := mv m1; mf := mf m1; mc := mc m1; mi := mi m1; mar := mar m1; mrc := mrc m1 ++ [(rr, astk)] |}) in *.
  unfold fresh in He. destruct (alloc st2 (CRec (Some rr))) as [c st3] eqn:Ea. inv He. simpl.
  assert (Hs : forall fd cenv k0, CRec (Some rr) = CFun fd cenv -> nth_error (g_all G) k0 = Some (KNamed, fd) ->
                 lookup (fd_name fd) cenv = Some c) by (intros fd cenv k0 E; discriminate E).
  destruct (MS_alloc_gen ma st2 h1 (CRec (Some rr)) (HVec astk) c st' [] HMSa Hina Ea Hs (fun _ E => ltac:(discriminate E))) as (HMS' & Hm' & Hext' & Hout').
  cbn [length app] in HMS', Hm', Hext'. rewrite Nat.add_0_r in HMS', Hm', Hext'.
  eapply (post_ok_intro _ _ _ _ _ _ (mk (S (ip + length ca)) (length h1 :: stk) (h1 ++ [HVec astk]) (out st1) fr)
           _ (length h1)); cbn [v_ip v_stk v_heap v_out v_fr ValueVM4.mkst].
  - eapply star_trans; [exact Hst1|]. apply star_one.
    apply (step_record fr prog (ip + length ca) astk stk h1 (out st1)). rewrite Hlen1. exact HRC.
  - rewrite app_length. cbn [length]. lia.
  - reflexivity.
  - exact Hm'.
  - exact HMS'.
  - eapply ext_trans; [exact Hext1|]. eapply ext_trans; [exact Hexta | exact Hext'].
  - rewrite Hout'. reflexivity.
  - reflexivity.
Qed.

(* the function a name denotes *)
Lemma fsig_find : forall f (l : list fdef) n,
  fsig_lookup f (map (fun fd => (fd_name fd, length (fd_params fd))) l) = Some n ->
  exists kidx fd, nth_error l kidx = Some fd /\ find_func f l = Some fd /\
    length (fd_params fd) = n /\
    forall i, fpos f (map fd_name l) i = Some (i + Z.of_nat kidx).
Proof.
  induction l as [|g t IH]; intros n H; [discriminate|]. simpl in H |- *.
  destruct (N.eqb f (fd_name g)) eqn:E.
  - inv H. exists 0%nat, g. repeat split; auto. intros i. f_equal. lia.
  - destruct (IH n H) as (kidx & fd & H1 & H2 & H3 & H4).
    exists (S kidx), fd. repeat split; auto. intros i. rewrite H4. f_equal. lia.
Qed.


Lemma fsig_mem : forall f n, fsig_lookup f FS = Some n -> mem_id f TL = true.
Proof.
  intros f n H. unfold FS, g_sigs, TL, g_tl in *. induction (g_funcs G) as [|g t IH]; [discriminate|].
  simpl in H |- *. destruct (N.eqb f (fd_name g)); [reflexivity|]. simpl. apply IH. exact H.
Qed.

Hypothesis Hfc : forall g, fc_self fc = Some g -> is_fname FS g = false.

(* the code of a top-level function's name *)
Lemma var_code_top : forall (m : morph) (env : Eval.env) ce sc L stk gp f n,
  env_match_g fc gp gl m env ce sc L stk -> fsig_lookup f FS = Some n ->
  forall L', var_code FT TL fc L' ce f = top_code (Compile4.fidx FT f).
Proof.
  intros m env ce sc L stk gp f n (_ & _ & _ & _ & Hce & _) Hs L'. unfold var_code.
  destruct (clookup f ce) as [i|] eqn:Ec.
  - pose proof (proj1 (Hce f i Ec)) as Hx. unfold is_fname in Hx. fold FS in Hx. rewrite Hs in Hx. discriminate.
  - destruct (fc_self fc) as [g|] eqn:Es; cbn [self_is].
    + destruct (N.eqb_spec f g) as [->|]; [|rewrite (fsig_mem _ _ Hs); reflexivity].
      pose proof (Hfc g eq_refl) as Hx. unfold is_fname in Hx. rewrite Hs in Hx. discriminate.
    + rewrite (fsig_mem _ _ Hs). reflexivity.
Qed.

Lemma callee_of : forall (m : morph) (env : Eval.env) ce sc L stk gp f n, env_match_g fc gp gl m env ce sc L stk ->
  fsig_lookup f FS = Some n ->
  exists kidx fd cf, nth_error (g_funcs G) kidx = Some fd /\ length (fd_params fd) = n /\
    lookup_var genv f env = Some cf /\ mget m cf = Some (MF fd) /\
    forall i, fpos f (map fd_name (g_funcs G)) i = Some (i + Z.of_nat kidx).
Proof.
  intros m env ce sc L stk gp f n (_ & Hn & Hf & _) Hs.
  destruct (fsig_find f (g_funcs G) n Hs) as (kidx & fd & H1 & H2 & H3 & H4).
  destruct (Hf f fd H2) as (cf & Hg & Hm).
  exists kidx, fd, cf. repeat split; auto.
  unfold lookup_var. destruct (lookup f env) as [c|] eqn:El; [|exact Hg].
  pose proof (Hn f c El) as Hx. unfold is_fname in Hx. fold FS in Hx. rewrite Hs in Hx. discriminate.
Qed.

End Act.

(* one activation of a program function, from its FUNC_DEF (arguments on the stack, gp = the vector of the
   function object that was called, the caller suspended in the first frame) to the state after its RET — the
   result on the caller's stack, the caller's registers restored — or after its RETHROW: the exception
   re-raised at the caller's CALL *)
Definition genv_ok (m : morph) : Prop :=
  forall f fd, find_func f (g_funcs G) = Some fd ->
    exists cf, lookup f genv = Some cf /\ mget m cf = Some (MF fd).

(* the closure environment of the evaluator and the vector of the machine *)
Definition act_rel (m : morph) (kd : fkind) (fd : fdef) (cenv : Eval.env) (vec : nat) (gl : list nat) : Prop :=
  match kd with
  | KTop => cenv = [] /\ gl = []
  | _ => In (vec, gl) (mv m) /\
         Forall2 (fun y a => exists c, lookup y cenv = Some c /\ vrel m c a /\ (mem_id y IV = true -> In c (mi m))) (fvs_fd TL fd) gl /\
         (forall x c, lookup x cenv = Some c -> is_fname FS x = false) /\
         (kd = KNamed -> exists cf, lookup (fd_name fd) cenv = Some cf /\ In (cf, (fd, cenv)) (mf m))
  end.

Definition act_done (prog : list rinstr) (s0 : vstate) (m : morph) (r : res) (st' : state)
  (F : frame) (fs : list frame) : Prop :=
  match r with
  | ROk c =>
    exists h' o' m' a,
      star prog s0 (mk (f_ret F) (a :: f_below F) h' o'
                       {| r_fp := f_fp F; r_gp := f_gp F; r_exc := f_exc F; r_frames := fs |}) /\
      vrel m' c a /\ MS m' st' h' /\ ext m m' /\ o' = out st'
  | RExc ex =>
    ex = ex /\
    exists h' t m',
      star prog s0 (mk (hsearch (x_tab X) (Nat.pred (f_ret F)) 0) (t :: f_below F) h' (out st')
                       {| r_fp := f_fp F; r_gp := f_gp F; r_exc := Some ex; r_frames := fs |}) /\
      MS m' st' h' /\ ext m m'
  | _ => True
  end.

Definition body_spec (k : nat) : Prop :=
  forall kidx kd fd, nth_error (g_all G) kidx = Some (kd, fd) ->
  forall cenv vec gl cs penv st r st', bind_params (fd_params fd) cs = Some penv ->
    call_body genv k (penv ++ cenv) st fd = (r, st') ->
  forall prog astk h o m e0 F fs, prog_ok prog ->
    MS m st h -> o = out st ->
    Forall2 (fun c a => vrel m c a) cs astk -> genv_ok m -> act_rel m kd fd cenv vec gl ->
    act_done prog (mk (faddr (nstd + kidx)) astk h o {| r_fp := 0; r_gp := vec; r_exc := e0; r_frames := F :: fs |})
             m r st' F fs.

Hypothesis funcs_ok : forall kidx kf, nth_error (g_all G) kidx = Some kf ->
  Compile4.func_in_P FS TL (g_all G) lv kf = true /\
  (fst kf <> KTop -> is_fname FS (fd_name (snd kf)) = false /\
                     forallb (fun x => negb (is_fname FS x)) (fvs_fd TL (snd kf)) = true).

Section Act2.
Variable fc : fctx.
Variable gl : list nat.
Hypothesis Hfc : forall g, fc_self fc = Some g -> is_fname FS g = false.
Local Notation compile_args := (Compile4.compile_args FT TL fc).

(* the name of a top-level function as a VALUE: GLOBAL_VEC 0; ID_FUNC_ADDR f makes a new function object, a
   copy; the evaluator yields the function's cell *)
Lemma case_EVar_top : forall fr k f n, fsig_lookup f FS = Some n -> cp = true ->
  forall env st r st', eval genv (S k) env st (EVar f) = (r, st') ->
  forall sc prog L ce ip stk h o m,
    code_at prog ip (compile_expr fc L ce (EVar f)) ->
    MS m st h -> o = out st -> env_match_g fc (r_gp fr) gl m env ce sc L stk ->
    concl prog (mk ip stk h o fr) ip (length (compile_expr fc L ce (EVar f))) m r st'.
Proof.
  intros fr k f n Hs Hcp env st r st' He sc prog L ce ip stk h o m Hc HMS Hout Hem.
  destruct (callee_of fc gl _ _ _ _ _ _ _ f n Hem Hs) as (kidx & fd & cf & Hk & Hnp & Hlv & Hmcf & Hfp).
  rewrite eval_EVar, Hlv in He. injection He as Er Est. subst r st' o.
  change (compile_expr fc L ce (EVar f)) with (var_code FT TL fc L ce f) in *.
  rewrite (var_code_top fc gl Hfc _ _ _ _ _ _ _ f n Hem Hs) in *.
  pose proof Hc as (_ & Hpo).
  assert (Hkall : nth_error (g_all G) kidx = Some (KTop, fd)) by (apply (po_top _ Hpo); exact Hk).
  rewrite (po_fidx _ Hpo f kidx fd Hk (Hfp 0)) in *.
  unfold top_code in Hc. cbn [length top_code].
  pose proof (code_at_head _ _ _ _ Hc) as HGV.
  pose proof (code_at_head _ _ _ _ (code_at_tail _ _ _ _ Hc)) as HFA.
  destruct (MS_copy m st h cf fd [] (length h) (faddr (nstd + kidx)) [HVec []] HMS Hcp (ms_fun _ _ _ HMS cf fd Hmcf)
              (or_introl (ex_intro _ kidx (conj Hkall (conj eq_refl eq_refl))))) as (HMS' & Hv' & Hext').
  cbn [length] in HMS', Hv', Hext'. replace (length h + 1)%nat with (S (length h)) in HMS', Hv', Hext' by lia.
  simpl.
  eapply (post_ok_intro _ _ _ _ _ _ (mk (S (S ip)) (S (length h) :: stk) (h ++ [HVec []] ++ [HFun (length h) (faddr (nstd + kidx))]) (out st) fr) _ (S (length h)));
    [ | simpl; lia | reflexivity | exact Hv' | exact HMS' | exact Hext' | reflexivity | reflexivity].
  eapply star_step; [apply step_global_vec0; exact HGV|]. apply star_one.
  rewrite (step_id_func_addr fr prog (S ip) (length h) stk (h ++ [HVec []]) (out st) (nstd + kidx) 0 HFA).
  rewrite app_length, <- app_assoc. simpl. replace (length h + 1)%nat with (S (length h)) by lia. reflexivity.
Qed.

(* the running named nested function's own name as a VALUE: COPYGLOB; ID_FUNC_ADDR f makes a new function object
   with the vector the function runs under; the evaluator yields the cell of the closure that is running *)
Lemma case_EVar_self : forall fr k g, cp = true ->
  forall env st r st', eval genv (S k) env st (EVar g) = (r, st') ->
  forall sc, mem_id g sc = false -> self_is (fc_self fc) g = true ->
  forall prog L ce ip stk h o m,
    code_at prog ip (compile_expr fc L ce (EVar g)) ->
    MS m st h -> o = out st -> env_match_g fc (r_gp fr) gl m env ce sc L stk ->
    concl prog (mk ip stk h o fr) ip (length (compile_expr fc L ce (EVar g))) m r st'.
Proof.
  intros fr k g Hcp env st r st' He sc Hnsc Hself prog L ce ip stk h o m Hc HMS Hout Hem.
  assert (Hfs : fc_self fc = Some g).
  { unfold self_is in Hself. destruct (fc_self fc) as [g'|]; [|discriminate]. apply N.eqb_eq in Hself. congruence. }
  assert (Hcl : clookup g ce = None).
  { destruct (clookup g ce) as [i|] eqn:E; [|reflexivity].
    destruct Hem as (_ & _ & _ & _ & Hce & _). destruct (Hce g i E) as [_ Hx]. congruence. }
  destruct (proj1 (proj2 (proj2 (proj2 (proj2 (proj2 Hem))))) g Hfs Hcl)
    as (cf & kself & sfd & scenv & Hlf & Hrec & Hname & Hk & Hgv & HFv & Hnf & Hniv).
  rewrite eval_EVar in He. unfold lookup_var in He. rewrite Hlf in He. injection He as Er Est. subst r st' o.
  pose proof Hc as (_ & Hpo).
  pose proof (po_named _ Hpo kself KNamed sfd Hk) as Hfi. rewrite Hname in Hfi.
  assert (Ecode : compile_expr fc L ce (EVar g) =
                  [ins0 BYTECODE_COPYGLOB; ins BYTECODE_ID_FUNC_ADDR (Z.of_nat (nstd + kself)) 0]).
  { unfold Compile4.compile_expr. cbn [Compile4.cexpr]. unfold var_code. rewrite Hcl, Hself, Hfi. reflexivity. }
  rewrite Ecode in *. clear Ecode. cbn [length].
  assert (Hcell : nth_error (cells st) cf = Some (CFun sfd scenv)).
  { destruct (ms_fcl _ _ _ HMS _ _ _ Hrec) as [Hx | (Hx & _)]; [exact Hx | congruence]. }
  assert (Hfr : CompileCorrect4Rel.fun_rel (g_all G) (x_ftab X) TL FS cp m sfd scenv (r_gp fr) (faddr (nstd + kself))).
  { split; [exists kself, KNamed; split; [discriminate | split; [exact Hk | reflexivity]]|].
    split; [exact Hnf|]. exists gl. split; [exact Hgv | exact HFv]. }
  destruct (MS_copy m st h cf sfd scenv (r_gp fr) (faddr (nstd + kself)) [] HMS Hcp Hcell
              (or_intror (conj Hfr Hrec))) as (HMS' & Hv' & Hext').
  cbn [length app] in HMS', Hv', Hext'. rewrite Nat.add_0_r in HMS', Hv', Hext'.
  simpl.
  eapply (post_ok_intro _ _ _ _ _ _ (mk (S (S ip)) (length h :: stk) (h ++ [HFun (r_gp fr) (faddr (nstd + kself))]) (out st) fr) _ (length h));
    [ | simpl; lia | reflexivity | exact Hv' | exact HMS' | exact Hext' | reflexivity | reflexivity].
  apply (CompileCorrect4Base.step_copyglob_self X prog ip stk h (out st) fr (nstd + kself) 0). exact (proj1 Hc).
Qed.

Lemma case_EVar : forall fr k x, expr_case_at fr fc gl (S k) (EVar x).
Proof.
  intros fr k x env st r st' He sc HF prog L ce ip stk h o m Hc HMS Hout Hem.
  cbn [Compile4.in_F] in HF. destruct (mem_id x sc) eqn:Ex.
  - eapply case_EVar_sc; eauto.
  - cbn [orb] in HF. apply andb_true_iff in HF. destruct HF as [Hlv6 HF].
    destruct (fsig_lookup x FS) as [n|] eqn:Hs.
    + eapply case_EVar_top; eauto.
    + unfold is_fname in HF. fold FS in HF. rewrite Hs in HF. cbn [orb] in HF. eapply case_EVar_self; eauto.
Qed.

(* a call of a top-level function by its name *)
Lemma case_ECall_top : forall fr k f args n, fsig_lookup f FS = Some n -> expr_spec fc gl k -> body_spec k ->
  expr_case_at fr fc gl (S k) (ECall (EVar f) args).
Proof.
  intros fr k f args n Hs IH IHb env st r st' He sc HF prog L ce ip stk h o m Hc HMS Hout Hem.
  rewrite in_F_call in HF.
  apply andb_true_iff in HF; destruct HF as [HF Hsig].
  apply andb_true_iff in HF; destruct HF as [_ Fargs].
  rewrite Hs in Hsig. apply Nat.eqb_eq in Hsig.
  destruct (callee_of fc gl _ _ _ _ _ _ _ f n Hem Hs) as (kidx & fd & cf & Hk & Hnp & Hlv & Hmcf & Hfp).
  rewrite eval_ECall in He.
  change (compile_expr fc L ce (ECall (EVar f) args))
    with (call_code (compile_args ce (L + num_frame_ptrs) args)
                    (var_code FT TL fc (L + num_frame_ptrs + Z.of_nat (length args)) ce f)) in *.
  rewrite (var_code_top fc gl Hfc _ _ _ _ _ _ _ f n Hem Hs) in *.
  pose proof Hc as (_ & Hpo).
  assert (Hkall : nth_error (g_all G) kidx = Some (KTop, fd)) by (apply (po_top _ Hpo); exact Hk).
  assert (Hfi : Compile4.fidx FT f = Z.of_nat (nstd + kidx)).
  { (* the position of f among ALL names is its position among the top-level ones *)
    exact (po_fidx _ Hpo f kidx fd Hk (Hfp 0)). }
  rewrite Hfi in *.
  set (ca := compile_args ce (L + num_frame_ptrs) args) in *.
  rewrite call_code_length. unfold call_code, top_code in Hc. change (length (top_code (Z.of_nat (nstd + kidx)))) with 2%nat.
  pose proof (code_at_head _ _ _ _ Hc) as HLN.
  pose proof (code_at_tail _ _ _ _ Hc) as H1.
  pose proof (code_at_head _ _ _ _ H1) as HMK.
  pose proof (code_at_tail _ _ _ _ H1) as H2.
  pose proof (code_at_app_l _ _ _ _ H2) as Hca.
  pose proof (code_at_app_r _ _ _ _ H2) as H3. cbn [app] in H3.
  set (q := (S (S ip) + length ca)%nat) in *.
  pose proof (code_at_head _ _ _ _ H3) as HGV.
  pose proof (code_at_head _ _ _ _ (code_at_tail _ _ _ _ H3)) as HFA.
  pose proof (code_at_head _ _ _ _ (code_at_tail _ _ _ _ (code_at_tail _ _ _ _ H3))) as HCL.
  pose proof (code_at_head _ _ _ _ (code_at_tail _ _ _ _ (code_at_tail _ _ _ _ (code_at_tail _ _ _ _ H3)))) as HLB.
  set (retL := S (S (S q))) in *.
  set (hdr := [retL; r_fp fr; r_gp fr; 0; 0]%nat).
  set (fr' := set_fp fr (length stk + 5)).
  assert (Hmk : star prog (mk ip stk h o fr) (mk (S (S ip)) (hdr ++ stk) h o fr')).
  { eapply star_step; [apply step_line; exact HLN|]. apply star_one.
    eapply step_mark; [exact HMK | subst retL q; unfold len; simpl length; lia]. }
  destruct (eval_args genv k env args st) as [[ocs ra] st1] eqn:Eargs.
  pose proof (env_match_pushn _ _ _ _ _ _ _ _ _ hdr Hem) as Hem5.
  change (Z.of_nat (length hdr)) with num_frame_ptrs in Hem5.
  pose proof (args_spec_of fc gl k IH args env st ocs ra st1 Eargs sc Fargs prog (S (S ip)) (L + num_frame_ptrs) ce
                (mk (S (S ip)) (hdr ++ stk) h o fr') m Hca eq_refl HMS Hout Hem5) as Ha.
  fold ca in Ha. fold q in Ha. unfold args_concl in Ha.
  destruct ocs as [cs|].
  2:{ inv He. simpl in Ha. destruct r as [c|ex| |]; simpl; auto.
      { exfalso. eapply eval_args_none_not_ok; eauto. }
      destruct Ha as [_ Hr]. split; [reflexivity|].
      eapply (call_arg_fault fr prog _ _ stk retL (S (S ip)) q ip (length ca + 2 + 4) _ _ _ Hmk);
        [reflexivity | reflexivity | reflexivity | reflexivity | lia | subst q; lia | subst retL q; simpl; lia | exact Hr]. }
  destruct Ha as (s1 & m1 & astk & Hst1 & Hip1 & Hstk1 & Hlen1 & HF1 & HMS1 & Hext1 & Hout1 & Hfr1).
  destruct s1 as [ip1 stk1 h1 o1 fr1]; simpl in Hip1, Hstk1, HMS1, Hout1, Hfr1; subst ip1 stk1 fr1.
  (* the callee expression: a name of a top-level function *)
  destruct k as [|k']; [rewrite eval_O in He; inv He; exact I|].
  rewrite eval_EVar, Hlv in He.
  pose proof (ext_nth _ _ _ _ Hext1 Hmcf) as Hmcf1.
  unfold apply_fun in He. unfold get_cell in He. rewrite (ms_fun _ _ _ HMS1 cf fd Hmcf1) in He.
  destruct (bind_params (fd_params fd) cs) as [penv|] eqn:Hb; [|inv He; exact I].
  assert (Hg1 : genv_ok m1).
  { intros g gd Hgd. destruct Hem as (_ & _ & Hf3 & _). destruct (Hf3 g gd Hgd) as (cg & Hl & Hm).
    exists cg. split; [exact Hl | eapply ext_nth; eauto]. }
  set (h1' := (h1 ++ [HVec []]) ++ [HFun (length h1) (faddr (nstd + kidx))]).
  assert (HMS1' : MS m1 st1 h1') by (unfold h1'; apply MS_heap_app, MS_heap_app; exact HMS1).
  pose proof (IHb kidx KTop fd Hkall [] (length h1) [] cs penv st1 r st' Hb He prog astk h1' o1 m1 (r_exc fr)
                {| f_ret := retL; f_fp := r_fp fr; f_gp := r_gp fr; f_below := stk; f_exc := r_exc fr |} (r_frames fr)
                Hpo HMS1' Hout1 HF1 Hg1 (conj eq_refl eq_refl)) as Hbody.
  unfold act_done in Hbody. cbn [f_ret f_fp f_gp f_below f_exc] in Hbody.
  assert (Henter : star prog (mk ip stk h o fr)
                     (mk (faddr (nstd + kidx)) astk h1' o1
                         {| r_fp := 0; r_gp := length h1; r_exc := r_exc fr;
                            r_frames := {| f_ret := retL; f_fp := r_fp fr; f_gp := r_gp fr; f_below := stk; f_exc := r_exc fr |} :: r_frames fr |})).
  { eapply star_trans; [exact Hmk|]. eapply star_trans; [exact Hst1|].
    apply (enter_call fr prog q (nstd + kidx) astk stk h1 o1 retL HGV HFA HCL (po_nz _ Hpo _ _ Hkall)). }
  destruct r as [cb|exb| |]; try exact I.
  - simpl.
    destruct Hbody as (h' & o' & m' & a & Hrun & Hm' & HMS' & Hext' & Ho').
    rewrite fregs_eta in Hrun.
    apply (post_ok_intro _ _ _ _ _ _ (mk (S retL) (a :: stk) h' o' fr) m' a); simpl; auto.
    + eapply star_trans; [exact Henter|]. eapply star_snoc; [exact Hrun|]. apply step_label. exact HLB.
    + subst retL q. lia.
    + eapply ext_trans; eauto.
  - simpl.
    destruct Hbody as (_ & h' & t & m' & Hrun & HMS' & Hext'). split; [reflexivity|].
    exists (mk (hsearch (x_tab X) (Nat.pred retL) 0) (t :: stk) h' (out st')
               {| r_fp := r_fp fr; r_gp := r_gp fr; r_exc := Some exb; r_frames := r_frames fr |}), (Nat.pred retL), m', (r_fp fr).
    split; [eapply star_trans; [exact Henter | exact Hrun]|].
    split; [subst retL q; simpl; lia|]. split; [reflexivity|]. split; [reflexivity|].
    split; [reflexivity|]. split; [exists t, []; reflexivity|]. split; [reflexivity|].
    split; [exact HMS' | eapply ext_trans; eauto].
Qed.

(* a call through a function VALUE: the callee is any expression of the fragment that is not the name of a
   top-level function — a slot (parameter, let, nested function), a captured name, a call, a conditional, a
   function expression.  MARK; args; the callee expression; CALL enters the code of the function object on the
   stack with gp = its vector; the body runs under the closure's environment *)
Lemma call_val : forall fr k f args, expr_spec fc gl k -> body_spec k ->
  forall env st r st', eval genv (S k) env st (ECall f args) = (r, st') ->
  forall sc, args_F FS TL (g_all G) (fc_self fc) lv sc args = true -> in_F (fc_self fc) lv sc f = true ->
  forall prog L ce ip stk h o m,
    code_at prog ip (compile_expr fc L ce (ECall f args)) ->
    MS m st h -> o = out st -> env_match_g fc (r_gp fr) gl m env ce sc L stk ->
    concl prog (mk ip stk h o fr) ip (length (compile_expr fc L ce (ECall f args))) m r st'.
Proof.
  intros fr k f args IH IHb env st r st' He sc Fargs Ff prog L ce ip stk h o m Hc HMS Hout Hem.
  rewrite eval_ECall in He.
  set (n := Z.of_nat (length args)).
  assert (Ecode : compile_expr fc L ce (ECall f args) =
                  call_code (compile_args ce (L + num_frame_ptrs) args)
                            (compile_expr fc (L + num_frame_ptrs + n) ce f)).
  { unfold Compile4.compile_expr. cbn [Compile4.cexpr andb]. reflexivity. }
  rewrite Ecode in *. clear Ecode.
  set (ca := compile_args ce (L + num_frame_ptrs) args) in *.
  set (cf := compile_expr fc (L + num_frame_ptrs + n) ce f) in *.
  rewrite call_code_length. pose proof Hc as (_ & Hpo). unfold call_code in Hc.
  pose proof (code_at_head _ _ _ _ Hc) as HLN.
  pose proof (code_at_tail _ _ _ _ Hc) as H1.
  pose proof (code_at_head _ _ _ _ H1) as HMK.
  pose proof (code_at_tail _ _ _ _ H1) as H2.
  pose proof (code_at_app_l _ _ _ _ H2) as Hca.
  pose proof (code_at_app_r _ _ _ _ H2) as H3.
  set (q := (S (S ip) + length ca)%nat) in *.
  pose proof (code_at_app_l _ _ _ _ H3) as Hcf.
  pose proof (code_at_app_r _ _ _ _ H3) as H4.
  set (qf := (q + length cf)%nat) in *.
  pose proof (code_at_head _ _ _ _ H4) as HCL.
  pose proof (code_at_head _ _ _ _ (code_at_tail _ _ _ _ H4)) as HLB.
  set (retL := S qf) in *.
  set (hdr := [retL; r_fp fr; r_gp fr; 0; 0]%nat).
  set (fr' := set_fp fr (length stk + 5)).
  assert (Hmk : star prog (mk ip stk h o fr) (mk (S (S ip)) (hdr ++ stk) h o fr')).
  { eapply star_step; [apply step_line; exact HLN|]. apply star_one.
    eapply step_mark; [exact HMK | subst retL qf q; unfold len; lia]. }
  destruct (eval_args genv k env args st) as [[ocs ra] st1] eqn:Eargs.
  pose proof (env_match_pushn _ _ _ _ _ _ _ _ _ hdr Hem) as Hem5.
  change (Z.of_nat (length hdr)) with num_frame_ptrs in Hem5.
  pose proof (args_spec_of fc gl k IH args env st ocs ra st1 Eargs sc Fargs prog (S (S ip)) (L + num_frame_ptrs) ce
                (mk (S (S ip)) (hdr ++ stk) h o fr') m Hca eq_refl HMS Hout Hem5) as Ha.
  fold ca in Ha. fold q in Ha. unfold args_concl in Ha.
  destruct ocs as [cs|].
  2:{ inv He. simpl in Ha. destruct r as [c|ex| |]; simpl; auto.
      { exfalso. eapply eval_args_none_not_ok; eauto. }
      destruct Ha as [_ Hr]. split; [reflexivity|].
      eapply (call_arg_fault fr prog _ _ stk retL (S (S ip)) q ip (length ca + length cf + 4) _ _ _ Hmk);
        [reflexivity | reflexivity | reflexivity | reflexivity | lia | subst q; lia | subst retL qf q; simpl; lia | exact Hr]. }
  destruct Ha as (s1 & m1 & astk & Hst1 & Hip1 & Hstk1 & Hlen1 & HF1 & HMS1 & Hext1 & Hout1 & Hfr1).
  destruct s1 as [ip1 stk1 h1 o1 fr1]; simpl in Hip1, Hstk1, HMS1, Hout1, Hfr1; subst ip1 stk1 fr1.
  (* the callee expression *)
  destruct (eval genv k env st1 f) as [rf st2] eqn:Ef.
  pose proof (env_match_pushn _ _ _ _ _ _ _ _ _ astk (env_match_ext _ _ _ _ _ _ _ _ _ _ Hem5 Hext1)) as Hem6.
  rewrite Hlen1 in Hem6. replace (L + num_frame_ptrs + Z.of_nat (length args)) with (L + num_frame_ptrs + n) in Hem6 by reflexivity.
  pose proof (IH f _ _ _ _ Ef sc Ff prog q (L + num_frame_ptrs + n) ce (mk q (astk ++ hdr ++ stk) h1 o1 fr') m1
                Hcf eq_refl HMS1 Hout1 Hem6) as Hf. fold cf in Hf. fold qf in Hf.
  destruct rf as [cfn|ex| |]; simpl in Hf; [| inv He; simpl | inv He; exact I | inv He; exact I].
  2:{ destruct Hf as [_ Hr]. split; [reflexivity|].
      eapply (call_arg_fault fr prog _ _ stk retL q qf ip (length ca + length cf + 4) _ _ _ Hmk);
        [reflexivity | reflexivity | reflexivity | reflexivity | subst q; lia | subst qf q; lia | subst retL qf q; simpl; lia |].
      eapply raises_star; [exact Hst1 | reflexivity | exists astk; reflexivity | exact Hr | exact Hext1]. }
  destruct Hf as (s2 & m2 & af & Hst2 & Hip2 & Hstk2 & Hm2 & HMS2 & Hext2 & Hout2 & Hfr2).
  destruct s2 as [ip2 stk2 h2 o2 fr2]; simpl in Hip2, Hstk2, HMS2, Hout2, Hfr2; subst ip2 stk2 fr2.
  unfold apply_fun in He.
  destruct (get_cell st2 cfn) as [vfn|] eqn:Eg; [|inv He; exact I].
  destruct vfn as [ | | fd cenv | | ]; try (inv He; exact I).
  unfold get_cell in Eg.
  destruct (vrel_fun _ _ _ _ _ _ _ HMS2 Hm2 Eg) as (vec & addr & Hhc & Hd).
  destruct (bind_params (fd_params fd) cs) as [penv|] eqn:Hb; [|inv He; exact I].
  assert (Hg2 : genv_ok m2).
  { intros g gd Hgd. destruct Hem as (_ & _ & Hf3 & _). destruct (Hf3 g gd Hgd) as (cg & Hl & Hm).
    exists cg. split; [exact Hl | eapply ext_nth; [eapply ext_trans; [exact Hext1 | exact Hext2] | exact Hm]]. }
  assert (Hcal : exists kidx kd l, nth_error (g_all G) kidx = Some (kd, fd) /\
                   addr = nth (nstd + kidx) (x_ftab X) 0%nat /\ act_rel m2 kd fd cenv vec l).
  { destruct Hd as [(kidx & Hk & Haddr & ->) | (((kidx & kd & Hkd & Hk & Haddr) & Hnf & l & Hvl & HFl) & Hrec)].
    - (* a copy of a top-level function *)
      exists kidx, KTop, []. split; [exact Hk|]. split; [exact Haddr|]. split; reflexivity.
    - exists kidx, kd, l. split; [exact Hk|]. split; [exact Haddr|].
      destruct kd; [congruence | |]; (split; [exact Hvl | split; [exact HFl | split; [exact Hnf|]]]).
      + intros _. exists cfn. split; [|exact Hrec]. eapply (ms_fself _ _ _ HMS2); [exact Hrec | exact Hk].
      + intros Hx. discriminate Hx. }
  destruct Hcal as (kidx & kd & l & Hk & Haddr & Hact).
  set (Fr := {| f_ret := retL; f_fp := r_fp fr; f_gp := r_gp fr; f_below := stk; f_exc := r_exc fr |}).
  pose proof (IHb kidx kd fd Hk cenv vec l cs penv st2 r st' Hb He prog astk h2 o2 m2 (r_exc fr) Fr (r_frames fr)
                Hpo HMS2 Hout2 (Forall2_ext_m _ _ _ _ Hext2 HF1) Hg2 Hact) as Hbody.
  unfold act_done in Hbody. cbn [Fr f_ret f_fp f_gp f_below f_exc] in Hbody.
  assert (Henter : star prog (mk ip stk h o fr)
                     (mk (faddr (nstd + kidx)) astk h2 o2
                         {| r_fp := 0; r_gp := vec; r_exc := r_exc fr; r_frames := Fr :: r_frames fr |})).
  { eapply star_trans; [exact Hmk|]. eapply star_trans; [exact Hst1|]. eapply star_trans; [exact Hst2|].
    apply star_one. change (faddr (nstd + kidx)) with (nth (nstd + kidx) (x_ftab X) 0%nat). rewrite <- Haddr.
    apply (step_call_frame fr' prog qf af astk retL (r_fp fr) (r_gp fr) 0%nat 0%nat stk h2 o2 vec addr HCL Hhc).
    - rewrite Haddr. apply (po_nz _ Hpo _ _ Hk).
    - reflexivity. }
  destruct r as [cb|exb| |]; try exact I.
  - simpl.
    destruct Hbody as (h' & o' & m' & a & Hrun & Hm' & HMS' & Hext' & Ho').
    rewrite fregs_eta in Hrun.
    apply (post_ok_intro _ _ _ _ _ _ (mk (S retL) (a :: stk) h' o' fr) m' a); simpl; auto.
    + eapply star_trans; [exact Henter|]. eapply star_snoc; [exact Hrun|]. apply step_label. exact HLB.
    + subst retL qf q. lia.
    + eapply ext_trans; [exact Hext1|]. eapply ext_trans; eauto.
  - simpl.
    destruct Hbody as (_ & h' & t & m' & Hrun & HMS' & Hext'). split; [reflexivity|].
    exists (mk (hsearch (x_tab X) (Nat.pred retL) 0) (t :: stk) h' (out st')
               {| r_fp := r_fp fr; r_gp := r_gp fr; r_exc := Some exb; r_frames := r_frames fr |}), (Nat.pred retL), m', (r_fp fr).
    split; [eapply star_trans; [exact Henter | exact Hrun]|].
    split; [subst retL qf q; simpl; lia|]. split; [reflexivity|]. split; [reflexivity|].
    split; [reflexivity|]. split; [exists t, []; reflexivity|]. split; [reflexivity|].
    split; [exact HMS' | eapply ext_trans; [exact Hext1|]; eapply ext_trans; eauto].
Qed.

(* the callee is an expression other than a name *)
Lemma case_ECall_val : forall fr k f args,
  match f with EVar _ => False | _ => True end ->
  expr_spec fc gl k -> body_spec k -> expr_case_at fr fc gl (S k) (ECall f args).
Proof.
  intros fr k f args Hnv IH IHb env st r st' He sc HF prog L ce ip stk h o m Hc HMS Hout Hem.
  rewrite in_F_call in HF.
  apply andb_true_iff in HF; destruct HF as [HF Hcal].
  apply andb_true_iff in HF; destruct HF as [_ Fargs].
  assert (Ff : in_F (fc_self fc) lv sc f = true).
  { destruct f; try contradiction; apply andb_true_iff in Hcal; destruct Hcal as [_ Hx]; exact Hx. }
  eapply call_val; eauto.
Qed.

(* a named nested function calls ITSELF: the callee code is COPYGLOB; ID_FUNC_ADDR f — a new function object
   with the vector the function runs under; the evaluator reads the cell its environment binds f to, which holds
   (still: cells of closures are only ever overwritten by ints) the closure that is running *)
Lemma case_ECall_self : forall fr k g args, fsig_lookup g FS = None ->
  expr_spec fc gl k -> body_spec k ->
  forall env st r st', eval genv (S k) env st (ECall (EVar g) args) = (r, st') ->
  forall sc, args_F FS TL (g_all G) (fc_self fc) lv sc args = true ->
  mem_id g sc = false -> self_is (fc_self fc) g = true ->
  forall prog L ce ip stk h o m,
    code_at prog ip (compile_expr fc L ce (ECall (EVar g) args)) ->
    MS m st h -> o = out st -> env_match_g fc (r_gp fr) gl m env ce sc L stk ->
    concl prog (mk ip stk h o fr) ip (length (compile_expr fc L ce (ECall (EVar g) args))) m r st'.
Proof.
  intros fr k g args Hs IH IHb env st r st' He sc Fargs Hnsc Hself prog L ce ip stk h o m Hc HMS Hout Hem.
  assert (Hfs : fc_self fc = Some g).
  { unfold self_is in Hself. destruct (fc_self fc) as [g'|]; [|discriminate]. apply N.eqb_eq in Hself. congruence. }
  assert (Hcl : clookup g ce = None).
  { destruct (clookup g ce) as [i|] eqn:E; [|reflexivity].
    destruct Hem as (_ & _ & _ & _ & Hce & _). destruct (Hce g i E) as [_ Hx]. congruence. }
  destruct (proj1 (proj2 (proj2 (proj2 (proj2 (proj2 Hem))))) g Hfs Hcl)
    as (cf & kself & sfd & scenv & Hlf & Hrec & Hname & Hk & Hgv & HFv & Hnf & Hniv).
  rewrite eval_ECall in He.
  set (n := Z.of_nat (length args)).
  pose proof Hc as (_ & Hpo).
  pose proof (po_named _ Hpo kself KNamed sfd Hk) as Hfi. rewrite Hname in Hfi.
  assert (Ecode : compile_expr fc L ce (ECall (EVar g) args) =
                  call_code (compile_args ce (L + num_frame_ptrs) args)
                            [ins0 BYTECODE_COPYGLOB; ins BYTECODE_ID_FUNC_ADDR (Z.of_nat (nstd + kself)) 0]).
  { unfold Compile4.compile_expr. cbn [Compile4.cexpr andb]. unfold var_code. rewrite Hcl, Hself, Hfi. reflexivity. }
  rewrite Ecode in *. clear Ecode.
  set (ca := compile_args ce (L + num_frame_ptrs) args) in *.
  rewrite call_code_length. unfold call_code in Hc. cbn [length].
  pose proof (code_at_head _ _ _ _ Hc) as HLN.
  pose proof (code_at_tail _ _ _ _ Hc) as H1.
  pose proof (code_at_head _ _ _ _ H1) as HMK.
  pose proof (code_at_tail _ _ _ _ H1) as H2.
  pose proof (code_at_app_l _ _ _ _ H2) as Hca.
  pose proof (code_at_app_r _ _ _ _ H2) as H3. cbn [app] in H3.
  set (q := (S (S ip) + length ca)%nat) in *.
  pose proof (code_at_head _ _ _ _ H3) as HCG.
  pose proof (code_at_head _ _ _ _ (code_at_tail _ _ _ _ H3)) as HFA.
  pose proof (code_at_head _ _ _ _ (code_at_tail _ _ _ _ (code_at_tail _ _ _ _ H3))) as HCL.
  pose proof (code_at_head _ _ _ _ (code_at_tail _ _ _ _ (code_at_tail _ _ _ _ (code_at_tail _ _ _ _ H3)))) as HLB.
  set (retL := S (S (S q))) in *.
  set (hdr := [retL; r_fp fr; r_gp fr; 0; 0]%nat).
  set (fr' := set_fp fr (length stk + 5)).
  assert (Hmk : star prog (mk ip stk h o fr) (mk (S (S ip)) (hdr ++ stk) h o fr')).
  { eapply star_step; [apply step_line; exact HLN|]. apply star_one.
    eapply step_mark; [exact HMK | subst retL q; unfold len; simpl length; lia]. }
  destruct (eval_args genv k env args st) as [[ocs ra] st1] eqn:Eargs.
  pose proof (env_match_pushn _ _ _ _ _ _ _ _ _ hdr Hem) as Hem5.
  change (Z.of_nat (length hdr)) with num_frame_ptrs in Hem5.
  pose proof (args_spec_of fc gl k IH args env st ocs ra st1 Eargs sc Fargs prog (S (S ip)) (L + num_frame_ptrs) ce
                (mk (S (S ip)) (hdr ++ stk) h o fr') m Hca eq_refl HMS Hout Hem5) as Ha.
  fold ca in Ha. fold q in Ha. unfold args_concl in Ha.
  destruct ocs as [cs|].
  2:{ inv He. simpl in Ha. destruct r as [c|ex| |]; simpl; auto.
      { exfalso. eapply eval_args_none_not_ok; eauto. }
      destruct Ha as [_ Hr]. split; [reflexivity|].
      eapply (call_arg_fault fr prog _ _ stk retL (S (S ip)) q ip (length ca + 2 + 4) _ _ _ Hmk);
        [reflexivity | reflexivity | reflexivity | reflexivity | lia | subst q; lia | subst retL q; simpl; lia | exact Hr]. }
  destruct Ha as (s1 & m1 & astk & Hst1 & Hip1 & Hstk1 & Hlen1 & HF1 & HMS1 & Hext1 & Hout1 & Hfr1).
  destruct s1 as [ip1 stk1 h1 o1 fr1]; simpl in Hip1, Hstk1, HMS1, Hout1, Hfr1; subst ip1 stk1 fr1.
  (* the callee expression: the function's own name *)
  destruct k as [|k']; [rewrite eval_O in He; inv He; exact I|].
  rewrite eval_EVar in He. unfold lookup_var in He. rewrite Hlf in He.
  unfold apply_fun in He.
  pose proof (ext_fcl _ _ _ Hext1 Hrec) as Hrec1.
  destruct (ms_fcl _ _ _ HMS1 _ _ _ Hrec1) as [Hcell | (_ & w & Hcell & Hw)].
  2:{ unfold get_cell in He. rewrite Hcell in He. destruct w; try contradiction; inv He; exact I. }
  unfold get_cell in He. rewrite Hcell in He.
  destruct (bind_params (fd_params sfd) cs) as [penv|] eqn:Hb; [|inv He; exact I].
  assert (Hg1 : genv_ok m1).
  { intros f0 gd Hgd. destruct Hem as (_ & _ & Hf3 & _). destruct (Hf3 f0 gd Hgd) as (cg & Hl & Hm).
    exists cg. split; [exact Hl | eapply ext_nth; eauto]. }
  assert (Hact : act_rel m1 KNamed sfd scenv (r_gp fr) gl).
  { split; [eapply ext_vec; eauto|]. split; [|split; [exact Hnf|]].
    - eapply Forall2_imp; [|exact HFv]. intros y a (c & Y1 & Y2 & Y3). exists c. split; [exact Y1|]. split; [eapply vrel_ext; eauto | intros Yi; eapply ext_mi; eauto].
    - intros _. exists cf. split; [|exact Hrec1]. eapply (ms_fself _ _ _ HMS1); eauto. }
  set (h1' := h1 ++ [HFun (r_gp fr) (faddr (nstd + kself))]).
  assert (HMS1' : MS m1 st1 h1') by (unfold h1'; apply MS_heap_app; exact HMS1).
  set (Fr := {| f_ret := retL; f_fp := r_fp fr; f_gp := r_gp fr; f_below := stk; f_exc := r_exc fr |}).
  pose proof (IHb kself KNamed sfd Hk scenv (r_gp fr) gl cs penv st1 r st' Hb He prog astk h1' o1 m1 (r_exc fr) Fr (r_frames fr)
                Hpo HMS1' Hout1 HF1 Hg1 Hact) as Hbody.
  unfold act_done in Hbody. cbn [Fr f_ret f_fp f_gp f_below f_exc] in Hbody.
  assert (Henter : star prog (mk ip stk h o fr)
                     (mk (faddr (nstd + kself)) astk h1' o1
                         {| r_fp := 0; r_gp := r_gp fr; r_exc := r_exc fr; r_frames := Fr :: r_frames fr |})).
  { eapply star_trans; [exact Hmk|]. eapply star_trans; [exact Hst1|].
    eapply star_trans.
    { apply (CompileCorrect4Base.step_copyglob_self X prog q (astk ++ hdr ++ stk) h1 o1 fr' (nstd + kself) 0).
      apply (CompileCorrect4Base.code_at_app_l prog q
               [ins0 BYTECODE_COPYGLOB; ins BYTECODE_ID_FUNC_ADDR (Z.of_nat (nstd + kself)) 0]
               [ins0 BYTECODE_CALL; ins0 BYTECODE_LABEL]). exact (proj1 H3). }
    apply star_one. cbn [r_gp fr' set_fp]. fold h1'.
    apply (step_call_frame fr' prog (S (S q)) (length h1) astk retL (r_fp fr) (r_gp fr) 0%nat 0%nat stk h1' o1
             (r_gp fr) (faddr (nstd + kself)) HCL).
    - unfold h1'. rewrite nth_error_app2, Nat.sub_diag by lia. reflexivity.
    - apply (po_nz _ Hpo _ _ Hk).
    - reflexivity. }
  destruct r as [cb|exb| |]; try exact I.
  - simpl.
    destruct Hbody as (h' & o' & m' & a & Hrun & Hm' & HMS' & Hext' & Ho').
    rewrite fregs_eta in Hrun.
    apply (post_ok_intro _ _ _ _ _ _ (mk (S retL) (a :: stk) h' o' fr) m' a); simpl; auto.
    + eapply star_trans; [exact Henter|]. eapply star_snoc; [exact Hrun|]. apply step_label. exact HLB.
    + subst retL q. lia.
    + eapply ext_trans; eauto.
  - simpl.
    destruct Hbody as (_ & h' & t & m' & Hrun & HMS' & Hext'). split; [reflexivity|].
    exists (mk (hsearch (x_tab X) (Nat.pred retL) 0) (t :: stk) h' (out st')
               {| r_fp := r_fp fr; r_gp := r_gp fr; r_exc := Some exb; r_frames := r_frames fr |}), (Nat.pred retL), m', (r_fp fr).
    split; [eapply star_trans; [exact Henter | exact Hrun]|].
    split; [subst retL q; simpl; lia|]. split; [reflexivity|]. split; [reflexivity|].
    split; [reflexivity|]. split; [exists t, []; reflexivity|]. split; [reflexivity|].
    split; [exact HMS' | eapply ext_trans; eauto].
Qed.

(* the callee is a name that is not a top-level function: a function value in scope, or the running function *)
Lemma case_ECall_var : forall fr k g args, fsig_lookup g FS = None ->
  expr_spec fc gl k -> body_spec k -> expr_case_at fr fc gl (S k) (ECall (EVar g) args).
Proof.
  intros fr k g args Hs IH IHb env st r st' He sc HF prog L ce ip stk h o m Hc HMS Hout Hem.
  rewrite in_F_call, Hs in HF.
  apply andb_true_iff in HF; destruct HF as [HF Hcal].
  apply andb_true_iff in HF; destruct HF as [_ Fargs].
  apply andb_true_iff in Hcal; destruct Hcal as [_ Hcal].
  destruct (mem_id g sc) eqn:Eg.
  - eapply call_val; eauto. cbn [Compile4.in_F]. rewrite Eg. reflexivity.
  - cbn [orb] in Hcal. eapply case_ECall_self; eauto.
Qed.

End Act2.

(* ---- the environment of a function body ---------------------------------------------------------- *)

Lemma param_env_names : forall ps cs penv stk (m : morph) pre,
  bind_params ps cs = Some penv ->
  Forall2 (fun c a => vrel m c a) cs stk ->
  forall x, mem_id x (param_names ps) = true ->
    exists i c a, clookup x (param_env ps (- Z.of_nat (length pre))) = Some i /\ i <= 0 /\
      lookup x penv = Some c /\ vrel m c a /\
      nth_error (pre ++ stk) (Z.to_nat (0 - i)) = Some a.
Proof.
  induction ps as [|[[x v] t] ps IH]; intros cs penv stk m pre Hb HF y Hy.
  - discriminate Hy.
  - destruct cs as [|c cs]; [discriminate Hb|]. simpl in Hb.
    destruct (bind_params ps cs) as [e|] eqn:Eb; [|discriminate Hb]. inv Hb.
    inversion HF as [|c0 a cs0 stk' Hca HF']; subst.
    simpl in Hy |- *. destruct (N.eqb y x) eqn:Exy.
    + exists (- Z.of_nat (length pre)), c, a. repeat split; auto; try lia.
      match goal with |- nth_error _ ?k = _ => replace k with (length pre) by lia end.
      rewrite nth_error_app2, Nat.sub_diag by lia. reflexivity.
    + simpl in Hy.
      specialize (IH cs e stk' m (pre ++ [a]) Eb HF' y Hy).
      rewrite app_length in IH. simpl in IH.
      replace (- Z.of_nat (length pre + 1)) with (- Z.of_nat (length pre) - 1) in IH by lia.
      rewrite <- app_assoc in IH. exact IH.
Qed.

Lemma bind_params_lookup : forall ps cs penv x c, bind_params ps cs = Some penv ->
  lookup x penv = Some c -> In x (param_names ps).
Proof.
  induction ps as [|[[y v] t] ps IH]; intros cs penv x c Hb Hl.
  - destruct cs; inv Hb. discriminate Hl.
  - destruct cs as [|c0 cs]; [discriminate Hb|]. simpl in Hb.
    destruct (bind_params ps cs) as [e|] eqn:Eb; [|discriminate Hb]. inv Hb.
    simpl in Hl |- *. destruct (N.eqb x y) eqn:E.
    + left. symmetry. apply N.eqb_eq. exact E.
    + right. eapply IH; eauto.
Qed.

Lemma param_env_clookup_in : forall ps i x j, clookup x (param_env ps i) = Some j -> In x (param_names ps).
Proof.
  induction ps as [|[[y v] t] ps IH]; intros i x j H; [discriminate|].
  simpl in H |- *. destruct (N.eqb x y) eqn:E; [left; symmetry; apply N.eqb_eq; exact E | right; eapply IH; eauto].
Qed.

Lemma mem_id_app : forall x a b, mem_id x (a ++ b) = mem_id x a || mem_id x b.
Proof. intros x a b. induction a as [|y t IH]; simpl; [reflexivity|]. rewrite IH. apply orb_assoc. Qed.

Lemma body_env_match : forall kidx kd fd cenv vec gl cs penv astk (m : morph),
  nth_error (g_all G) kidx = Some (kd, fd) ->
  Compile4.func_in_P FS TL (g_all G) lv (kd, fd) = true ->
  (kd <> KTop -> is_fname FS (fd_name fd) = false /\
                 forallb (fun x => negb (is_fname FS x)) (fvs_fd TL fd) = true) ->
  bind_params (fd_params fd) cs = Some penv ->
  Forall2 (fun c a => vrel m c a) cs astk -> genv_ok m -> act_rel m kd fd cenv vec gl ->
  env_match_g (ctx_of TL kd fd) vec gl m (penv ++ cenv) (param_env (fd_params fd) 0)
              (body_scope TL kd fd) 0 astk.
Proof.
  intros kidx kd fd cenv vec gl cs penv astk m Hk Hok Hnt Hb HF Hg Hact.
  unfold Compile4.func_in_P in Hok. cbn [fst snd] in Hok.
  apply andb_true_iff in Hok; destruct Hok as [Hok _].
  apply andb_true_iff in Hok; destruct Hok as [Hok Ho6].
  apply andb_true_iff in Hok; destruct Hok as [Hok Hp6].
  apply andb_true_iff in Hok; destruct Hok as [Hok Hpn]. apply andb_true_iff in Hok; destruct Hok as [_ Hown].
  apply negb_true_iff in Hown.
  split; [|split; [|split; [|split; [|split; [|split; [|split]]]]]].
  - intros x Hx. unfold body_scope in Hx. rewrite mem_id_app in Hx.
    destruct (mem_id x (param_names (fd_params fd))) eqn:Ep.
    + destruct (param_env_names _ _ _ _ m [] Hb HF x Ep) as (i & c & a & H1 & H2 & H3 & H4 & H5).
      exists c, a. split; [rewrite lookup_app, H3; reflexivity|]. split; [exact H4|].
      unfold access. simpl in H1. rewrite H1. split; [exact H2 | exact H5].
    + cbn [orb] in Hx. destruct kd; [discriminate Hx | |];
        (destruct Hact as (Hin & HF2 & Hnf & _);
         apply mem_id_true_In in Hx; destruct (In_nth_error _ _ Hx) as (i & Hi);
         destruct (Forall2_nth_l _ _ _ _ _ HF2 Hi) as (a & Ha & c & Hl & Hm & Hmi);
         destruct (fvs_fd_props TL fd x Hx) as (P1 & P2 & P3);
         destruct (bind_params_not_param _ _ _ x Hb P1) as [Hn1 Hn2];
         exists c, a; split; [rewrite lookup_app, Hn1; exact Hl|]; split; [exact Hm|];
         unfold access; rewrite Hn2; cbn [ctx_of fc_self fc_fvs self_is];
         split; [try exact P3; reflexivity|]; split; [exact P2|];
         rewrite (gpos_nth _ i x 0 (fvs_fd_NoDup TL fd) Hi); simpl; rewrite Nat2Z.id; exact Ha).
  - intros x c Hl. rewrite lookup_app in Hl. destruct (lookup x penv) as [c'|] eqn:El.
    + pose proof (bind_params_lookup _ _ _ _ _ Hb El) as Hin.
      rewrite forallb_forall in Hpn. specialize (Hpn x Hin). apply negb_true_iff in Hpn. exact Hpn.
    + destruct kd; [destruct Hact as [-> _]; discriminate Hl | |]; destruct Hact as (_ & _ & Hnf & _); eapply Hnf; eauto.
  - exact Hg.
  - destruct kd; [left; exact (proj2 Hact) | right; exact (proj1 Hact) | right; exact (proj1 Hact)].
  - intros x i Hc. apply param_env_clookup_in in Hc. split.
    + rewrite forallb_forall in Hpn. specialize (Hpn x Hc). apply negb_true_iff in Hpn. exact Hpn.
    + unfold body_scope. rewrite mem_id_app. rewrite (In_mem_id_true _ _ Hc). reflexivity.
  - intros f Hf Hcl. unfold ctx_of in Hf. cbn [fc_self] in Hf. destruct kd; try discriminate Hf. inv Hf.
    destruct Hact as (Hin & HF2 & Hnf & Hself). destruct (Hself eq_refl) as (cf & Hlc & Hrec).
    destruct (bind_params_not_param _ _ _ (fd_name fd) Hb Hown) as [Hn1 _].
    exists cf, kidx, fd, cenv. split; [rewrite lookup_app, Hn1; exact Hlc|]. split; [exact Hrec|].
    split; [reflexivity|]. split; [exact Hk|]. split; [exact Hin|]. split; [exact HF2|]. split; [exact Hnf|].
    destruct (mem_id (fd_name fd) IV) eqn:Ei; [|reflexivity]. destruct (at6_iv _ _ Ho6 Ei) as [A B]. rewrite A in B. discriminate B.
  - intros f Hf. unfold ctx_of in Hf. cbn [fc_self] in Hf. destruct kd; try discriminate Hf. inv Hf.
    unfold body_scope. rewrite mem_id_app, Hown. cbn [orb].
    destruct (mem_id (fd_name fd) (fvs_fd TL fd)) eqn:Em; [|reflexivity]. exfalso.
    apply mem_id_true_In in Em. destruct (fvs_fd_props TL fd _ Em) as (_ & _ & P3). rewrite N.eqb_refl in P3. discriminate.
  - intros x c Hxs Hx Hl. unfold body_scope in Hxs. rewrite mem_id_app in Hxs.
    destruct (mem_id x (param_names (fd_params fd))) eqn:Ep.
    + exfalso. apply mem_id_true_In in Ep. destruct (at6_iv _ _ Hp6 Hx) as [A B].
      rewrite forallb_forall in B. specialize (B x Ep). rewrite A in B. discriminate B.
    + cbn [orb] in Hxs. destruct kd; [discriminate Hxs | |];
        (destruct Hact as (_ & HF2 & _);
         apply mem_id_true_In in Hxs; destruct (In_nth_error _ _ Hxs) as (i & Hi);
         destruct (Forall2_nth_l _ _ _ _ _ HF2 Hi) as (a & Ha & c0 & Hl0 & Hm & Hmi);
         destruct (fvs_fd_props TL fd x Hxs) as (P1 & _ & _);
         destruct (bind_params_not_param _ _ _ x Hb P1) as [Hn1 _];
         rewrite lookup_app, Hn1 in Hl; rewrite Hl0 in Hl; inversion Hl; subst c0; exact (Hmi Hx)).
Qed.

Lemma step_rethrow_any : forall prog ip stk h o g e F fs,
  nth_error prog ip = Some (ins0 BYTECODE_RETHROW) ->
  exists t, step prog (mk ip stk h o {| r_fp := 0; r_gp := g; r_exc := e; r_frames := F :: fs |}) =
  SNext (mk (hsearch (x_tab X) (Nat.pred (f_ret F)) 0) (t :: f_below F) h o
            {| r_fp := f_fp F; r_gp := f_gp F; r_exc := e; r_frames := fs |}).
Proof.
  intros. exists (match stk with res :: _ => res | [] => f_ret F end).
  unfold ValueVM4.step. simpl. rewrite H. reflexivity.
Qed.

Lemma compile_func_nocatch : forall kd fd, no_catch fd = true ->
  compile_func FT TL (kd, fd) =
  ins0 BYTECODE_FUNC_DEF :: compile_body FT TL kd fd ++
  [ins0 BYTECODE_LINE; ins0 BYTECODE_RET; ins0 BYTECODE_LABEL; ins0 BYTECODE_RETHROW] /\
  fsegs FT TL (kd, fd) = [] ++ body_seg FT TL kd fd :: [].
Proof.
  intros kd fd H. unfold no_catch in H. unfold compile_func, fsegs, clause_segs. cbn [fst snd].
  destruct (fd_catches fd); [|discriminate]. destruct (fd_catch_all fd); [discriminate|].
  cbn [map app concat]. unfold body_seg. rewrite app_nil_r. cbn [app]. rewrite <- app_assoc. split; reflexivity.
Qed.

Definition good_ctx (fc : fctx) : Prop := forall g, fc_self fc = Some g -> is_fname FS g = false.

Lemma act_rel_ext : forall m m' kd fd cenv vec gl, ext m m' -> act_rel m kd fd cenv vec gl -> act_rel m' kd fd cenv vec gl.
Proof.
  intros m m' kd fd cenv vec gl He H. destruct kd; [exact H | |];
    (destruct H as (A & B & C & D); split; [eapply ext_vec; eauto|]; split; [|split; [exact C|]];
     [eapply Forall2_imp; [|exact B]; intros y a (c & Y1 & Y2 & Y3); exists c; split; [exact Y1 | split; [eapply vrel_ext; eauto | intros Yi; eapply ext_mi; eauto]]
     | intros E; destruct (D E) as (cf & D1 & D2); exists cf; split; [exact D1 | eapply ext_fcl; eauto]]).
Qed.

Lemma seg_shape_body : forall (i x y z : rinstr) (b rest : list rinstr),
  (i :: b ++ [x; y; z]) ++ rest = i :: b ++ x :: y :: z :: rest.
Proof. intros. simpl. rewrite <- app_assoc. reflexivity. Qed.

Lemma items_spec_mono : forall fc gl k j, (j <= k)%nat -> items_spec fc gl k -> items_spec fc gl j.
Proof.
  intros fc gl k j Hle H items env st last r st' He.
  destruct r as [c|ex| |]; try (intros; exact I).
  - refine (H items env st last (ROk c) st' _).
    apply (eval_items_fuel_mono genv j k env st items last (ROk c) st' Hle He). discriminate.
  - refine (H items env st last (RExc ex) st' _).
    apply (eval_items_fuel_mono genv j k env st items last (RExc ex) st' Hle He). discriminate.
Qed.

Lemma seg_at : forall prog fa kf pre seg post,
  CompileCorrect4Base.code_at prog fa (compile_func FT TL kf) -> fsegs FT TL kf = pre ++ seg :: post ->
  CompileCorrect4Base.code_at prog (fa + length (concat pre))
    (seg ++ concat post ++ [ins0 BYTECODE_RETHROW]).
Proof.
  intros prog fa kf pre seg post Hc Hs. unfold compile_func in Hc. rewrite Hs, concat_app in Hc.
  cbn [concat] in Hc. rewrite <- !app_assoc in Hc.
  apply (CompileCorrect4Base.code_at_app_r _ _ _ _ Hc).
Qed.

Lemma step_clear_stack : forall fr prog ip top astk h o,
  nth_error prog ip = Some (ins BYTECODE_CLEAR_STACK (Z.of_nat (length astk)) 0) ->
  step prog (mk ip (top ++ astk) h o fr) = SNext (mk (S ip) astk h o (set_fp fr 0)).
Proof.
  intros. unfold ValueVM4.step. cbn [v_ip v_stk v_heap v_out v_fr ValueVM4.mkst]. rewrite H.
  cbn [r_op ins r_w0]. rewrite zn_nonneg by lia. rewrite Nat2Z.id, app_length.
  replace (Nat.leb (length astk) (length top + length astk)) with true by (symmetry; apply Nat.leb_le; lia).
  replace (length top + length astk - length astk)%nat with (length top) by lia.
  rewrite skipn_app, skipn_all, Nat.sub_diag. reflexivity.
Qed.

Lemma step_push_except : forall fr prog ip stk h o e,
  nth_error prog ip = Some (ins0 BYTECODE_PUSH_EXCEPT) -> r_exc fr = Some e ->
  step prog (mk ip stk h o fr) = SNext (mk (S ip) (length h :: stk) (h ++ [HInt (exn_no e)]) o fr).
Proof. intros. unfold ValueVM4.step. simpl. rewrite H. simpl. rewrite H0. reflexivity. Qed.

Lemma exn_match_no : forall ex0 ex, exn_eqb ex0 ex = (exn_no ex =? exn_no ex0).
Proof. intros ex0 ex. destruct ex0, ex; reflexivity. Qed.

(* the clause segments that remain when the named clauses cs are still to be tried *)
Definition tail_segs (kd : fkind) (fd : fdef) (cs : list (exn * list item)) : list (list rinstr) :=
  map (clause_seg FT TL kd fd) cs ++
  match fd_catch_all fd with Some b => [all_seg FT TL kd fd b] | None => [] end.

Lemma bind_params_length : forall ps cs penv, bind_params ps cs = Some penv -> length cs = length ps.
Proof.
  induction ps as [|[[x v] t] ps IH]; intros cs penv Hb; destruct cs; simpl in Hb; try discriminate; [reflexivity|].
  destruct (bind_params ps cs) eqn:E; [|discriminate]. simpl. f_equal. eapply IH; eauto.
Qed.

Lemma Forall2_len : forall A B (P : A -> B -> Prop) l1 l2, Forall2 P l1 l2 -> length l1 = length l2.
Proof. intros A B P l1 l2 H. induction H; simpl; congruence. Qed.

(* one clause block: CLEAR_STACK has been executed, the parameters are the stack, gp is the function's vector *)
Lemma clause_block : forall k, (forall fc gl, good_ctx fc -> items_spec fc gl k) ->
  forall kidx kd fd, nth_error (g_all G) kidx = Some (kd, fd) ->
  forall j body cenv penv st r st', (j <= k)%nat ->
    eval_items genv j (penv ++ cenv) st body None = (r, st') ->
    items_F (fc_self (ctx_of TL kd fd)) lv (body_scope TL kd fd) body = true ->
  forall prog pc astk h o m cs0 vec gl e F fs,
    pcode_at prog pc (clause_body FT TL kd fd body) ->
    bind_params (fd_params fd) cs0 = Some penv ->
    Forall2 (fun c a => vrel m c a) cs0 astk -> genv_ok m -> act_rel m kd fd cenv vec gl ->
    MS m st h -> o = out st ->
    concl prog (mk pc astk h o {| r_fp := 0; r_gp := vec; r_exc := e; r_frames := F :: fs |}) pc
          (length (clause_body FT TL kd fd body)) m r st'.
Proof.
  intros k IHi kidx kd fd Hk j body cenv penv st r st' Hj He HFb prog pc astk h o m cs0 vec gl e F fs Hc Hb HF Hg Hact HMS Hout.
  destruct (funcs_ok kidx (kd, fd) Hk) as [Hfok Hnt]. cbn [fst snd] in Hnt.
  set (fc := ctx_of TL kd fd).
  assert (Hself : good_ctx fc).
  { intros g Hgs. unfold fc, ctx_of in Hgs. cbn [fc_self] in Hgs. destruct kd; try discriminate Hgs.
    inv Hgs. apply Hnt. discriminate. }
  assert (IHj : items_spec fc gl j) by (apply (items_spec_mono fc gl k); [assumption | apply IHi; exact Hself]).
  assert (He' : eval genv (S j) (penv ++ cenv) st (EBlock body) = (r, st')) by (rewrite eval_EBlock; exact He).
  pose proof (body_env_match kidx kd fd cenv vec gl cs0 penv astk m Hk Hfok Hnt Hb HF Hg Hact) as Hem.
  exact (case_EBlock {| r_fp := 0; r_gp := vec; r_exc := e; r_frames := F :: fs |} fc gl j body IHj (penv ++ cenv) st r st' He'
           (body_scope TL kd fd) HFb prog 0 (param_env (fd_params fd) 0) pc astk h o m Hc HMS Hout Hem).
Qed.

Lemma act_done_star : forall prog s0 s1 m m1 r st' F fs,
  star prog s0 s1 -> ext m m1 -> act_done prog s1 m1 r st' F fs -> act_done prog s0 m r st' F fs.
Proof.
  intros prog s0 s1 m m1 r st' F fs Hst Hext H. destruct r as [c|ex| |]; simpl in *; auto.
  - destruct H as (h' & o' & m' & a & H1 & H2 & H3 & H4 & H5). exists h', o', m', a.
    split; [eapply star_trans; eauto|]. split; [exact H2|]. split; [exact H3|].
    split; [eapply ext_trans; eauto | exact H5].
  - destruct H as (_ & h' & t & m' & H1 & H2 & H3). split; [reflexivity|]. exists h', t, m'.
    split; [eapply star_trans; eauto|]. split; [exact H2 | eapply ext_trans; eauto].
Qed.

(* a finished clause block: RET, or the fault goes on *)
Lemma concat_snoc_len : forall (pre : list (list rinstr)) seg,
  length (concat (pre ++ [seg])) = (length (concat pre) + length seg)%nat.
Proof. intros. rewrite concat_app, app_length. simpl. rewrite app_nil_r. reflexivity. Qed.

Lemma seg_shape_all : forall (i r l w : rinstr) (cb : list rinstr),
  (i :: cb ++ [r; l]) ++ concat [] ++ [w] = i :: cb ++ [r; l; w].
Proof. intros. simpl. rewrite <- app_assoc. reflexivity. Qed.

Lemma seg_shape_clause : forall (i1 i2 i3 i4 i5 r l : rinstr) (cb rest : list rinstr),
  (i1 :: i2 :: i3 :: i4 :: i5 :: cb ++ [r; l]) ++ rest =
  i1 :: i2 :: i3 :: i4 :: i5 :: cb ++ r :: l :: rest.
Proof. intros. simpl. rewrite <- app_assoc. reflexivity. Qed.

Lemma handlers_run : forall k, (forall fc gl, good_ctx fc -> items_spec fc gl k) ->
  forall kidx kd fd, nth_error (g_all G) kidx = Some (kd, fd) ->
  forall cenv vec gl cs pre, fsegs FT TL (kd, fd) = pre ++ tail_segs kd fd cs ->
    (forall c, In c cs -> items_F (fc_self (ctx_of TL kd fd)) lv (body_scope TL kd fd) (snd c) = true) ->
    (forall b, fd_catch_all fd = Some b -> items_F (fc_self (ctx_of TL kd fd)) lv (body_scope TL kd fd) b = true) ->
  forall j penv st ex0 r st', (j <= k)%nat ->
    handlers genv j (penv ++ cenv) st ex0 cs (fd_catch_all fd) = (r, st') ->
  forall prog top astk h o m cs0 fp F fs, prog_ok prog ->
    bind_params (fd_params fd) cs0 = Some penv ->
    Forall2 (fun c a => vrel m c a) cs0 astk -> genv_ok m -> act_rel m kd fd cenv vec gl ->
    MS m st h -> o = out st ->
    (cs = [] -> fd_catch_all fd = None -> fp = 0%nat) ->
    act_done prog (mk (faddr (nstd + kidx) + length (concat pre)) (top ++ astk) h o
                      {| r_fp := fp; r_gp := vec; r_exc := Some ex0; r_frames := F :: fs |}) m r st' F fs.
Proof.
  intros k IHi kidx kd fd Hk cenv vec gl.
  set (fa := faddr (nstd + kidx)). set (np := length (fd_params fd)).
  induction cs as [|[ex' body] t IHcs];
    intros pre Hsegs Hcs Hall j penv st ex0 r st' Hj He prog top astk h o m cs0 fp F fs Hpo Hb HF Hg Hact HMS Hout Hfp.
  - (* no named clause left *)
    destruct j as [|j]; [rewrite handlers_O in He; inv He; exact I|]. rewrite handlers_nil in He.
    pose proof (po_fun _ Hpo kidx (kd, fd) Hk) as Hcode. fold fa in Hcode.
    assert (Hnp : length astk = np).
    { rewrite <- (Forall2_len _ _ _ _ _ HF). apply (bind_params_length _ _ _ Hb). }
    destruct (fd_catch_all fd) as [b|] eqn:Eall.
    + unfold tail_segs in Hsegs. rewrite Eall in Hsegs. cbn [map app] in Hsegs.
      pose proof (seg_at prog fa (kd, fd) pre (all_seg FT TL kd fd b) [] Hcode Hsegs) as Hseg.
      set (A := (fa + length (concat pre))%nat) in *.
      unfold all_seg in Hseg. fold np in Hseg.
      set (cb := clause_body FT TL kd fd b) in *. rewrite seg_shape_all in Hseg.
      pose proof (CompileCorrect4Base.code_at_head _ _ _ _ Hseg) as HCS.
      pose proof (CompileCorrect4Base.code_at_tail _ _ _ _ Hseg) as H1.
      pose proof (CompileCorrect4Base.code_at_app_l _ _ _ _ H1) as Hcb.
      pose proof (CompileCorrect4Base.code_at_app_r _ _ _ _ H1) as H2.
      pose proof (CompileCorrect4Base.code_at_head _ _ _ _ H2) as HRT.
      pose proof (CompileCorrect4Base.code_at_head _ _ _ _ (CompileCorrect4Base.code_at_tail _ _ _ _ H2)) as HLB.
      pose proof (CompileCorrect4Base.code_at_head _ _ _ _
                   (CompileCorrect4Base.code_at_tail _ _ _ _ (CompileCorrect4Base.code_at_tail _ _ _ _ H2))) as HRW.
      set (frc := {| r_fp := 0; r_gp := vec; r_exc := Some ex0; r_frames := F :: fs |}).
      assert (H0 : star prog (mk A (top ++ astk) h o {| r_fp := fp; r_gp := vec; r_exc := Some ex0; r_frames := F :: fs |})
                        (mk (S A) astk h o frc)).
      { apply star_one. rewrite <- Hnp in HCS. rewrite (step_clear_stack _ prog A top astk h o HCS). reflexivity. }
      assert (Hlenseg : length (all_seg FT TL kd fd b) = (length cb + 3)%nat).
      { unfold all_seg. fold cb. cbn [length]. rewrite app_length. cbn [length]. lia. }
      pose proof (clause_block k IHi kidx kd fd Hk j b cenv penv st r st' ltac:(lia) He (Hall b eq_refl) prog (S A) astk h o m cs0
                    vec gl (Some ex0) F fs (conj Hcb Hpo) Hb HF Hg Hact HMS Hout) as Hx. fold cb frc in Hx.
      destruct r as [c|ex| |]; simpl in Hx |- *; auto.
      * destruct Hx as (s1 & m1 & a & Hst1 & Hip1 & Hstk1 & Hm1 & HMS1 & Hext1 & Hout1 & Hfr1).
        destruct s1 as [ip1 stk1 h1 o1 fr1]; simpl in Hip1, Hstk1, HMS1, Hout1, Hfr1; subst ip1 stk1 fr1.
        exists h1, o1, m1, a. split; [|auto].
        eapply star_trans; [exact H0|]. eapply star_snoc; [exact Hst1|]. apply step_ret_frame. exact HRT.
      * destruct Hx as (_ & s1 & fip & m1 & fp' & Hst1 & Hrng & Hip1 & Hfr1 & Hrt & (t0 & top' & Hstk1) & Hout1 & HMS1 & Hext1).
        split; [reflexivity|].
        destruct s1 as [ip1 stk1 h1 o1 fr1]; simpl in Hip1, Hstk1, Hout1, Hfr1, Hrt, HMS1; subst stk1 o1 fr1.
        rewrite (po_tab _ Hpo kidx (kd, fd) pre (all_seg FT TL kd fd b) [] fip Hk Hsegs) in Hip1
          by (fold fa; fold A; rewrite Hlenseg; lia).
        fold fa in Hip1. fold A in Hip1. rewrite Hlenseg in Hip1.
        replace (A + (length cb + 3) - 1)%nat with (S (S A + length cb)) in Hip1 by lia. subst ip1.
        assert (Hir : is_rethrow prog (S (S A + length cb)) = true).
        { unfold is_rethrow. rewrite HLB, HRW. reflexivity. }
        specialize (Hrt Hir). subst fp'.
        destruct (step_rethrow_any prog (S (S (S A + length cb))) (t0 :: top' ++ astk) h1 (out st') vec (Some ex) F fs HRW)
          as (t1 & Hrw).
        exists h1, t1, m1. split; [|split; [exact HMS1 | exact Hext1]].
        eapply star_trans; [exact H0|]. eapply star_trans; [exact Hst1|].
        eapply star_step; [apply (step_label _ prog (S (S A + length cb))); exact HLB|].
        apply star_one. exact Hrw.
    + inv He. unfold tail_segs in Hsegs. rewrite Eall in Hsegs. cbn [map app] in Hsegs. rewrite app_nil_r in Hsegs.
      unfold compile_func in Hcode. rewrite Hsegs in Hcode.
      pose proof (CompileCorrect4Base.code_at_head _ _ _ _ (CompileCorrect4Base.code_at_app_r _ _ _ _ Hcode)) as HRW.
      rewrite (Hfp eq_refl eq_refl). simpl. split; [reflexivity|].
      destruct (step_rethrow_any prog (fa + length (concat pre)) (top ++ astk) h (out st') vec (Some ex0) F fs HRW)
        as (t1 & Hrw).
      exists h, t1, m. split; [apply star_one; exact Hrw|]. split; [exact HMS | apply ext_refl].
  - (* a named clause *)
    destruct j as [|j]; [rewrite handlers_O in He; inv He; exact I|]. rewrite handlers_cons in He.
    pose proof (po_fun _ Hpo kidx (kd, fd) Hk) as Hcode. fold fa in Hcode.
    assert (Hnp : length astk = np).
    { rewrite <- (Forall2_len _ _ _ _ _ HF). apply (bind_params_length _ _ _ Hb). }
    assert (Hsegs' : fsegs FT TL (kd, fd) = pre ++ clause_seg FT TL kd fd (ex', body) :: tail_segs kd fd t) by exact Hsegs.
    pose proof (seg_at prog fa (kd, fd) pre _ _ Hcode Hsegs') as Hseg.
    set (A := (fa + length (concat pre))%nat) in *.
    unfold clause_seg in Hseg. cbn [fst snd] in Hseg. fold np in Hseg.
    set (cb := clause_body FT TL kd fd body) in *. rewrite seg_shape_clause in Hseg.
    pose proof (CompileCorrect4Base.code_at_head _ _ _ _ Hseg) as HCS.
    pose proof (CompileCorrect4Base.code_at_tail _ _ _ _ Hseg) as T1.
    pose proof (CompileCorrect4Base.code_at_head _ _ _ _ T1) as HIN.
    pose proof (CompileCorrect4Base.code_at_tail _ _ _ _ T1) as T2.
    pose proof (CompileCorrect4Base.code_at_head _ _ _ _ T2) as HPE.
    pose proof (CompileCorrect4Base.code_at_tail _ _ _ _ T2) as T3.
    pose proof (CompileCorrect4Base.code_at_head _ _ _ _ T3) as HEQ.
    pose proof (CompileCorrect4Base.code_at_tail _ _ _ _ T3) as T4.
    pose proof (CompileCorrect4Base.code_at_head _ _ _ _ T4) as HJZ.
    pose proof (CompileCorrect4Base.code_at_tail _ _ _ _ T4) as T5.
    pose proof (CompileCorrect4Base.code_at_app_l _ _ _ _ T5) as Hcb.
    pose proof (CompileCorrect4Base.code_at_app_r _ _ _ _ T5) as T6.
    pose proof (CompileCorrect4Base.code_at_head _ _ _ _ T6) as HRT.
    pose proof (CompileCorrect4Base.code_at_head _ _ _ _ (CompileCorrect4Base.code_at_tail _ _ _ _ T6)) as HLB.
    set (frc := {| r_fp := 0; r_gp := vec; r_exc := Some ex0; r_frames := F :: fs |}).
    set (h3 := ((h ++ [HInt (exn_no ex')]) ++ [HInt (exn_no ex0)]) ++ [HInt (b2z (exn_no ex' =? exn_no ex0))]).
    assert (Hlenseg : length (clause_seg FT TL kd fd (ex', body)) = (length cb + 7)%nat).
    { unfold clause_seg. cbn [fst snd]. fold cb. cbn [length]. rewrite app_length. cbn [length]. lia. }
    assert (Hpro : star prog (mk A (top ++ astk) h o {| r_fp := fp; r_gp := vec; r_exc := Some ex0; r_frames := F :: fs |})
                        (mk (S (S (S (S A)))) (length ((h ++ [HInt (exn_no ex')]) ++ [HInt (exn_no ex0)]) :: astk) h3 o frc)).
    { eapply star_step. { rewrite <- Hnp in HCS. rewrite (step_clear_stack _ prog A top astk h o HCS). reflexivity. }
      change (set_fp {| r_fp := fp; r_gp := vec; r_exc := Some ex0; r_frames := F :: fs |} 0) with frc.
      eapply star_step; [apply (step_int frc prog (S A) astk h o (exn_no ex') 0); exact HIN|].
      eapply star_step; [apply (step_push_except frc _ _ _ _ _ ex0 HPE); reflexivity|].
      apply star_one.
      rewrite (step_binop frc prog (S (S (S A))) astk ((h ++ [HInt (exn_no ex')]) ++ [HInt (exn_no ex0)]) o Eq
                 (length (h ++ [HInt (exn_no ex')])) (length h) (exn_no ex') (exn_no ex0) eq_refl HEQ).
      - reflexivity.
      - unfold hint. rewrite nth_error_app1 by (rewrite app_length; simpl; lia).
        rewrite nth_error_app2, Nat.sub_diag by lia. reflexivity.
      - unfold hint. rewrite nth_error_app2, Nat.sub_diag by lia. reflexivity. }
    assert (HMS3 : MS m st h3) by (unfold h3; repeat apply MS_heap_app; exact HMS).
    assert (Hp3 : hint h3 (length ((h ++ [HInt (exn_no ex')]) ++ [HInt (exn_no ex0)])) = Some (b2z (exn_no ex' =? exn_no ex0))).
    { unfold hint, h3. rewrite nth_error_app2, Nat.sub_diag by lia. reflexivity. }
    rewrite exn_match_no in He.
    assert (Hpost : fsegs FT TL (kd, fd) = (pre ++ [clause_seg FT TL kd fd (ex', body)]) ++ tail_segs kd fd t).
    { rewrite <- app_assoc. exact Hsegs'. }
    assert (Hcs' : forall c, In c t -> items_F (fc_self (ctx_of TL kd fd)) lv (body_scope TL kd fd) (snd c) = true).
    { intros c Hc. apply Hcs. right. exact Hc. }
    assert (HAnext : (fa + length (concat (pre ++ [clause_seg FT TL kd fd (ex', body)])) = S (S (S (S (S (S (S A))))) + length cb))%nat).
    { rewrite concat_snoc_len, Hlenseg. fold A. lia. }
    destruct (exn_no ex' =? exn_no ex0) eqn:Em.
    + (* the clause matches *)
      assert (Hin : star prog (mk A (top ++ astk) h o {| r_fp := fp; r_gp := vec; r_exc := Some ex0; r_frames := F :: fs |})
                         (mk (S (S (S (S (S A))))) astk h3 o frc)).
      { eapply star_snoc; [exact Hpro|]. eapply (step_jumpz_nonzero frc); [exact HJZ | exact Hp3 | simpl; lia]. }
      destruct (eval_items genv j (penv ++ cenv) st body None) as [r1 st1] eqn:Eb.
      pose proof (clause_block k IHi kidx kd fd Hk j body cenv penv st r1 st1 ltac:(lia) Eb (Hcs (ex', body) (or_introl eq_refl))
                    prog (S (S (S (S (S A))))) astk h3 o m cs0 vec gl (Some ex0) F fs (conj Hcb Hpo) Hb HF Hg Hact HMS3 Hout) as Hx.
      fold cb frc in Hx.
      destruct r1 as [c|ex| |]; simpl in Hx.
      * inv He. simpl.
        destruct Hx as (s1 & m1 & a & Hst1 & Hip1 & Hstk1 & Hm1 & HMS1 & Hext1 & Hout1 & Hfr1).
        destruct s1 as [ip1 stk1 h1 o1 fr1]; simpl in Hip1, Hstk1, HMS1, Hout1, Hfr1; subst ip1 stk1 fr1.
        exists h1, o1, m1, a. split; [|auto].
        eapply star_trans; [exact Hin|]. eapply star_snoc; [exact Hst1|]. apply step_ret_frame. exact HRT.
      * destruct Hx as (_ & s1 & fip & m1 & fp' & Hst1 & Hrng & Hip1 & Hfr1 & Hrt & (t0 & top' & Hstk1) & Hout1 & HMS1 & Hext1).
        destruct s1 as [ip1 stk1 h1 o1 fr1]; simpl in Hip1, Hstk1, Hout1, Hfr1, Hrt, HMS1; subst stk1 o1 fr1.
        rewrite (po_tab _ Hpo kidx (kd, fd) pre _ _ fip Hk Hsegs') in Hip1
          by (fold fa; fold A; rewrite Hlenseg; lia).
        fold fa in Hip1. fold A in Hip1. rewrite Hlenseg in Hip1.
        replace (A + (length cb + 7) - 1)%nat with (S (S (S (S (S (S A)))) + length cb)) in Hip1 by lia. subst ip1.
        assert (Hfp' : t = [] -> fd_catch_all fd = None -> fp' = 0%nat).
        { intros -> Hn. apply Hrt. unfold is_rethrow. rewrite HLB.
          unfold tail_segs in T6. rewrite Hn in T6. cbn [map app concat] in T6.
          rewrite (CompileCorrect4Base.code_at_head _ _ _ _
                     (CompileCorrect4Base.code_at_tail _ _ _ _ (CompileCorrect4Base.code_at_tail _ _ _ _ T6))).
          reflexivity. }
        pose proof (IHcs (pre ++ [clause_seg FT TL kd fd (ex', body)]) Hpost Hcs' Hall j penv st1 ex r st' ltac:(lia) He
                      prog (t0 :: top') astk h1 (out st1) m1 cs0 fp' F fs Hpo Hb
                      (Forall2_ext_m _ _ _ _ Hext1 HF)
                      (fun g gd Hgd => match Hg g gd Hgd with ex_intro _ cg (conj Hl Hm) =>
                                         ex_intro _ cg (conj Hl (ext_nth _ _ _ _ Hext1 Hm)) end)
                      (act_rel_ext _ _ _ _ _ _ _ Hext1 Hact)
                      HMS1 eq_refl Hfp') as Hrest.
        fold fa in Hrest. rewrite HAnext in Hrest.
        eapply act_done_star; [| exact Hext1 | exact Hrest].
        eapply star_trans; [exact Hin|]. eapply star_snoc; [exact Hst1|].
        apply (step_label _ prog (S (S (S (S (S (S A)))) + length cb))). exact HLB.
      * inv He. exact I.
      * inv He. exact I.
    + (* another exception is named: the next clause *)
      assert (Hjz : star prog (mk A (top ++ astk) h o {| r_fp := fp; r_gp := vec; r_exc := Some ex0; r_frames := F :: fs |})
                         (mk (S (S (S (S (S (S (S A))))) + length cb)) astk h3 o frc)).
      { eapply star_snoc; [exact Hpro|].
        eapply (step_jumpz_to frc); [exact HJZ | exact Hp3 | unfold len; lia]. }
      pose proof (IHcs (pre ++ [clause_seg FT TL kd fd (ex', body)]) Hpost Hcs' Hall j penv st ex0 r st' ltac:(lia) He
                    prog [] astk h3 o m cs0 0%nat F fs Hpo Hb HF Hg Hact HMS3 Hout (fun _ _ => eq_refl)) as Hrest.
      fold fa in Hrest. rewrite HAnext in Hrest. cbn [app] in Hrest.
      eapply act_done_star; [exact Hjz | apply ext_refl | exact Hrest].
Qed.


(* ---- expressions in tail position of a function --------------------------------------------------
   The activation of function fd runs with r_fp = 0 (no MARK pending: a tail position is never inside
   an argument list), its caller suspended in the first frame F.  An expression in tail position
   either ends like any other (its value pushed) or, through a self tail call that reuses the
   frame, the whole activation has already RETurned / RETHROWn to the caller. *)
Section Tail.
Variables (kidx : nat) (kd : fkind) (fd : fdef).
Hypothesis Hk : nth_error (g_all G) kidx = Some (kd, fd).
Variable gl : list nat.
Local Notation fc := (ctx_of TL kd fd).
Local Notation self := (tail_self kd fd).
Hypothesis Hgood : good_ctx fc.

Definition mkfr (g : nat) (e0 : option exn) (F : frame) (fs : list frame) : fregs :=
  {| r_fp := 0; r_gp := g; r_exc := e0; r_frames := F :: fs |}.

Definition returned (prog : list rinstr) (s : vstate) (m : morph) (c : nat) (st' : state)
  (e0 : option exn) (F : frame) (fs : list frame) : Prop :=
  exists h' o' m' a,
    star prog s (mk (f_ret F) (a :: f_below F) h' o' {| r_fp := f_fp F; r_gp := f_gp F; r_exc := f_exc F; r_frames := fs |}) /\
    vrel m' c a /\ MS m' st' h' /\ ext m m' /\ o' = out st'.

Definition rethrown (prog : list rinstr) (s : vstate) (m : morph) (st' : state) (F : frame)
  (fs : list frame) (ex : exn) : Prop :=
  exists h' t m',
    star prog s (mk (hsearch (x_tab X) (Nat.pred (f_ret F)) 0) (t :: f_below F) h' (out st')
                    {| r_fp := f_fp F; r_gp := f_gp F; r_exc := Some ex; r_frames := fs |}) /\
    MS m' st' h' /\ ext m m'.

Definition tconcl (prog : list rinstr) (s : vstate) (pc n : nat) (m : morph) (r : res) (st' : state)
  (e0 : option exn) (F : frame) (fs : list frame) : Prop :=
  match r with
  | ROk c => post_ok prog s (pc + n) m c st' \/ returned prog s m c st' e0 F fs
  | RExc ex => ex = ex /\ (raises prog s pc (pc + n) m st' ex \/ rethrown prog s m st' F fs ex)
  | _ => True
  end.

Lemma concl_tconcl : forall prog s pc n m r st' e0 F fs,
  concl prog s pc n m r st' -> tconcl prog s pc n m r st' e0 F fs.
Proof. intros. destruct r; simpl in *; auto. destruct H. auto. Qed.

(* a run in front (same stack, same registers) and pure control steps behind *)
Lemma tconcl_lift : forall prog s s1 pc n pc1 n1 m m1 r st' e0 F fs,
  star prog s s1 -> v_fr s1 = v_fr s -> v_stk s1 = v_stk s -> ext m m1 ->
  (pc <= pc1)%nat -> (pc1 + n1 <= pc + n)%nat ->
  (forall stk2 h2 o2 fr2, star prog (mk (pc1 + n1) stk2 h2 o2 fr2) (mk (pc + n) stk2 h2 o2 fr2)) ->
  tconcl prog s1 pc1 n1 m1 r st' e0 F fs -> tconcl prog s pc n m r st' e0 F fs.
Proof.
  intros prog s s1 pc n pc1 n1 m m1 r st' e0 F fs Hst Hfr Hstk Hext Hlo Hhi Hfin H.
  destruct r as [c|ex| |]; simpl in *; auto.
  - destruct H as [(s2 & m2 & a & H1 & H2 & H3 & H4 & H5 & H6 & H7 & H8) | (h' & o' & m' & a & H1 & H2 & H3 & H4 & H5)].
    + left. destruct s2 as [ip2 stk2 h2 o2 fr2]. simpl in H2, H3, H7, H8. subst ip2.
      exists (mk (pc + n) stk2 h2 o2 fr2), m2, a. simpl.
      split; [eapply star_trans; [exact Hst|]; eapply star_trans; [exact H1 | apply Hfin]|].
      split; [reflexivity|]. split; [congruence|]. split; [exact H4|]. split; [exact H5|].
      split; [eapply ext_trans; eauto|]. split; [exact H7 | congruence].
    + right. exists h', o', m', a. split; [eapply star_trans; eauto|]. split; [exact H2|].
      split; [exact H3|]. split; [eapply ext_trans; eauto | exact H5].
  - destruct H as (_ & [Hr | (h' & t & m' & H1 & H2 & H3)]); split; auto.
    + left. eapply raises_star; [exact Hst | exact Hfr | exists []; simpl; congruence
                                | eapply raises_weaken; [exact Hr | lia | lia] | exact Hext].
    + right. exists h', t, m'. split; [eapply star_trans; eauto|]. split; [exact H2 | eapply ext_trans; eauto].
Qed.

Definition tail_case (k : nat) (e : expr) : Prop :=
  forall env st r st', eval genv k env st e = (r, st') ->
  forall sc, in_F (fc_self fc) lv sc e = true ->
  forall prog pc L ce stk h o m g e0 F fs,
    code_at prog pc (Compile4.cexpr FT TL fc self true L ce e) ->
    MS m st h -> o = out st -> env_match_g fc g gl m env ce sc L stk ->
    Z.of_nat (length stk) = L + Z.of_nat (length (fd_params fd)) ->
    tconcl prog (mk pc stk h o (mkfr g e0 F fs)) pc
           (length (Compile4.cexpr FT TL fc self true L ce e)) m r st' e0 F fs.

Definition tail_spec (k : nat) : Prop := forall e, tail_case k e.

Lemma tcase_ECond : forall k c a b, expr_spec fc gl k -> tail_spec k -> tail_case (S k) (ECond c a b).
Proof.
  intros k c a b IH IHt env st r st' He sc HF prog ip L ce stk h o m g e0 F fs Hc HMS Hout Hem Hlen.
  set (frc := mkfr g e0 F fs) in *.
  simpl in HF.
  apply andb_true_iff in HF; destruct HF as [HF Fb].
  apply andb_true_iff in HF; destruct HF as [HF Fa].
  apply andb_true_iff in HF; destruct HF as [_ Fc].
  rewrite eval_ECond in He.
  change (Compile4.cexpr FT TL fc self true L ce (ECond c a b)) with
    (compile_expr fc L ce c ++ ins BYTECODE_JUMPZ (len (Compile4.cexpr FT TL fc self true L ce a) + 2) 0 ::
     Compile4.cexpr FT TL fc self true L ce a ++
     ins BYTECODE_JUMP (len (Compile4.cexpr FT TL fc self true L ce b) + 2) 0 :: ins0 BYTECODE_LABEL ::
     Compile4.cexpr FT TL fc self true L ce b ++ [ins0 BYTECODE_LABEL]) in *.
  set (cc := compile_expr fc L ce c) in *. set (ca := Compile4.cexpr FT TL fc self true L ce a) in *.
  set (cb := Compile4.cexpr FT TL fc self true L ce b) in *.
  assert (Htot : length (cc ++ ins BYTECODE_JUMPZ (len ca + 2) 0 :: ca ++
                    ins BYTECODE_JUMP (len cb + 2) 0 :: ins0 BYTECODE_LABEL :: cb ++ [ins0 BYTECODE_LABEL])
            = (length cc + length ca + length cb + 4)%nat).
  { rewrite !app_length. simpl. rewrite !app_length. simpl. rewrite app_length. simpl. lia. }
  rewrite Htot.
  pose proof (code_at_app_l _ _ _ _ Hc) as Hcc.
  pose proof (code_at_app_r _ _ _ _ Hc) as H1.
  pose proof (code_at_head _ _ _ _ H1) as HJZ.
  pose proof (code_at_tail _ _ _ _ H1) as H2.
  pose proof (code_at_app_l _ _ _ _ H2) as Hca.
  pose proof (code_at_app_r _ _ _ _ H2) as H3.
  pose proof (code_at_head _ _ _ _ H3) as HJ.
  pose proof (code_at_tail _ _ _ _ (code_at_tail _ _ _ _ H3)) as H4.
  pose proof (code_at_app_l _ _ _ _ H4) as Hcb.
  pose proof (code_at_head _ _ _ _ (code_at_app_r _ _ _ _ H4)) as HL.
  destruct (eval genv k env st c) as [r1 st1] eqn:Ec.
  pose proof (IH c _ _ _ _ Ec sc Fc prog ip L ce (mk ip stk h o frc) m Hcc eq_refl HMS Hout Hem) as Hcnd.
  fold cc in Hcnd.
  destruct r1 as [c1|ex| |]; simpl in Hcnd; [| inv He; simpl | inv He; exact I | inv He; exact I].
  2:{ destruct Hcnd as [_ Hr]. split; [reflexivity|]. left. eapply raises_weaken; [exact Hr | lia | lia]. }
  destruct Hcnd as (s1 & m1 & a1 & Hst1 & Hip1 & Hstk1 & Hm1 & HMS1 & Hext1 & Hout1 & Hfr1).
  destruct s1 as [ip1 stk1 h1 o1 fr1]; simpl in Hip1, Hstk1, HMS1, Hout1, Hfr1; subst ip1 stk1 fr1.
  destruct (get_bool st1 c1) as [bv|] eqn:Eg; [|inv He; exact I].
  pose proof (MS_payload_bool _ _ _ _ _ _ HMS1 Hm1 Eg) as Hp.
  pose proof (env_match_ext _ _ _ _ _ _ _ _ _ _ Hem Hext1) as Hem1.
  destruct bv.
  - assert (Hj : star prog (mk ip stk h o frc) (mk (S (ip + length cc)) stk h1 o1 frc)).
    { eapply star_snoc; [exact Hst1|]. eapply (step_jumpz_nonzero frc); eauto. simpl. lia. }
    pose proof (IHt a _ _ _ _ He sc Fa prog (S (ip + length cc)) L ce stk h1 o1 m1 g e0 F fs
                  Hca HMS1 Hout1 Hem1 Hlen) as Ha.
    fold ca frc in Ha.
    eapply (tconcl_lift _ _ _ _ _ (S (ip + length cc)) (length ca)); [exact Hj | reflexivity | reflexivity | exact Hext1 | lia | lia | | exact Ha].
    intros stk2 h2 o2 fr2. apply star_one.
    rewrite (step_jump_fwd fr2 _ _ _ _ _ _ _ HJ) by (unfold len; lia).
    f_equal. f_equal. unfold len. lia.
  - assert (Hj : star prog (mk ip stk h o frc) (mk (S (S (S (ip + length cc) + length ca))) stk h1 o1 frc)).
    { eapply star_snoc; [exact Hst1|].
      rewrite (step_jumpz_zero frc _ _ _ _ _ _ _ _ HJZ Hp) by (unfold len; lia).
      f_equal. f_equal. unfold len. lia. }
    pose proof (IHt b _ _ _ _ He sc Fb prog (S (S (S (ip + length cc) + length ca))) L ce stk h1 o1 m1 g e0 F fs
                  Hcb HMS1 Hout1 Hem1 Hlen) as Hb.
    fold cb frc in Hb.
    eapply (tconcl_lift _ _ _ _ _ (S (S (S (ip + length cc) + length ca))) (length cb)); [exact Hj | reflexivity | reflexivity | exact Hext1 | lia | lia | | exact Hb].
    intros stk2 h2 o2 fr2. apply star_one.
    replace (ip + (length cc + length ca + length cb + 4))%nat
      with (S (S (S (S (ip + length cc) + length ca)) + length cb)) by lia.
    apply step_label. exact HL.
Qed.

(* blocks in tail position: the last expression item is in tail position *)
Local Notation compile_items_tl := (Compile4.compile_items_tl FT TL fc).
Local Notation compile_items_tl_let := (Compile4.compile_items_tl_let FT TL fc).
Local Notation compile_items_tl_var := (Compile4.compile_items_tl_var FT TL fc).
Local Notation compile_items_tl_last := (Compile4.compile_items_tl_last FT TL fc).
Local Notation compile_items_tl_expr := (Compile4.compile_items_tl_expr FT TL fc).
Local Notation cexpr_block_tl := (Compile4.cexpr_block_tl FT TL fc).

Definition titems_concl (prog : list rinstr) (s : vstate) (pc : nat) (code : list rinstr) (nb : Z)
  (m : morph) (r : res) (st' : state) (e0 : option exn) (F : frame) (fs : list frame) : Prop :=
  match r with
  | ROk c =>
    (exists s' m' a locals, star prog s s' /\ v_ip s' = (pc + length code)%nat /\
       v_stk s' = a :: locals ++ v_stk s /\ Z.of_nat (length locals) = nb /\
       vrel m' c a /\ MS m' st' (v_heap s') /\ ext m m' /\ v_out s' = out st' /\
       v_fr s' = v_fr s) \/
    returned prog s m c st' e0 F fs
  | RExc ex => ex = ex /\ (raises prog s pc (pc + length code) m st' ex \/ rethrown prog s m st' F fs ex)
  | _ => True
  end.

Lemma titems_lift : forall prog s s1 pre pc code pc1 code1 nb1 m m1 r st' e0 F fs,
  star prog s s1 -> v_fr s1 = v_fr s -> v_stk s1 = pre ++ v_stk s -> ext m m1 ->
  (pc <= pc1)%nat -> (pc1 + length code1 = pc + length code)%nat ->
  titems_concl prog s1 pc1 code1 nb1 m1 r st' e0 F fs ->
  titems_concl prog s pc code (nb1 + Z.of_nat (length pre)) m r st' e0 F fs.
Proof.
  intros prog s s1 pre pc code pc1 code1 nb1 m m1 r st' e0 F fs Hst Hfr Hstk Hext Hlo Hend H.
  destruct r as [c|ex| |]; simpl in *; auto.
  - destruct H as [(s2 & m2 & a & locals & H1 & H2 & H3 & H4 & H5 & H6 & H7 & H8 & H9) | (h' & o' & m' & a & H1 & H2 & H3 & H4 & H5)].
    + left. exists s2, m2, a, (locals ++ pre). split; [eapply star_trans; eauto|].
      split; [lia|]. split; [rewrite H3, Hstk, app_assoc; reflexivity|].
      split; [rewrite app_length; lia|]. split; [exact H5|]. split; [exact H6|].
      split; [eapply ext_trans; eauto|]. split; [exact H8 | congruence].
    + right. exists h', o', m', a. split; [eapply star_trans; eauto|]. split; [exact H2|].
      split; [exact H3|]. split; [eapply ext_trans; eauto | exact H5].
  - destruct H as (_ & [Hr | (h' & t & m' & H1 & H2 & H3)]); split; auto.
    + left. eapply raises_star; [exact Hst | exact Hfr | exists pre; exact Hstk
                                | eapply raises_weaken; [exact Hr | lia | lia] | exact Hext].
    + right. exists h', t, m'. split; [eapply star_trans; eauto|]. split; [exact H2 | eapply ext_trans; eauto].
Qed.

Definition titems_spec (k : nat) : Prop :=
  forall items env st last r st', eval_items genv k env st items last = (r, st') ->
  forall sc, items_F (fc_self fc) lv sc items = true ->
  forall prog pc L ce stk h o m g e0 F fs,
    code_at prog pc (compile_items_tl self L ce items) ->
    MS m st h -> o = out st -> env_match_g fc g gl m env ce sc L stk ->
    Z.of_nat (length stk) = L + Z.of_nat (length (fd_params fd)) ->
    titems_concl prog (mk pc stk h o (mkfr g e0 F fs)) pc
      (compile_items_tl self L ce items) (nbinds items) m r st' e0 F fs.

Lemma titems_bind_step : forall k x e t, expr_spec fc gl k -> titems_spec k ->
  forall env st r st',
  match eval genv k env st e with
  | (ROk c, st1) => eval_items genv k ((x, c) :: env) st1 t (Some c)
  | r => r end = (r, st') ->
  forall sc, negb (is_fname FS x) && negb (self_is (fc_self fc) x) && in_F (fc_self fc) lv sc e && items_F (fc_self fc) lv (x :: sc) t = true ->
  (mem_id x IV = true -> int_shaped e = true) ->
  forall prog pc L ce stk h o m g e0 F fs,
    code_at prog pc (compile_expr fc L ce e ++ compile_items_tl self (L + 1) ((x, L + 1) :: ce) t) ->
    MS m st h -> o = out st -> env_match_g fc g gl m env ce sc L stk ->
    Z.of_nat (length stk) = L + Z.of_nat (length (fd_params fd)) ->
    titems_concl prog (mk pc stk h o (mkfr g e0 F fs)) pc
      (compile_expr fc L ce e ++ compile_items_tl self (L + 1) ((x, L + 1) :: ce) t)
      (1 + nbinds t) m r st' e0 F fs.
Proof.
  intros k x e t IHe IHi env st r st' He sc HF Hxi prog ip L ce stk h o m g e0 F fs Hc HMS Hout Hem Hlen.
  set (frc := mkfr g e0 F fs) in *.
  apply andb_true_iff in HF; destruct HF as [HF Ft].
  apply andb_true_iff in HF; destruct HF as [HF Fe].
  apply andb_true_iff in HF; destruct HF as [Hnx Hsx]. apply negb_true_iff in Hnx. apply negb_true_iff in Hsx.
  set (ca := compile_expr fc L ce e) in *.
  set (ct := compile_items_tl self (L + 1) ((x, L + 1) :: ce) t) in *.
  destruct (eval genv k env st e) as [r1 st1] eqn:Ea.
  pose proof (IHe e _ _ _ _ Ea sc Fe prog ip L ce (mk ip stk h o frc) m
                (code_at_app_l _ _ _ _ Hc) eq_refl HMS Hout Hem) as Ha. fold ca in Ha.
  destruct r1 as [c1|ex| |]; simpl in Ha; [| inv He; simpl | inv He; exact I | inv He; exact I].
  2:{ destruct Ha as [_ Hr]. split; [reflexivity|]. left.
      eapply raises_weaken; [exact Hr | lia | rewrite app_length; lia]. }
  destruct Ha as (s1 & m1 & a1 & Hst1 & Hip1 & Hstk1 & Hm1 & HMS1 & Hext1 & Hout1 & Hfr1).
  destruct s1 as [ip1 stk1 h1 o1 fr1]; simpl in Hip1, Hstk1, HMS1, Hout1, Hfr1; subst ip1 stk1 fr1.
  (* a name that may be assigned to: its cell, an int cell, is recorded *)
  assert (Hadd : exists m1', MS m1' st1 h1 /\ ext m1 m1' /\ (mem_id x IV = true -> In c1 (mi m1'))).
  { destruct (mem_id x IV) eqn:Exi.
    - destruct (vrel_kind _ _ _ _ _ HMS1 Hm1) as (v & Hcv & _).
      assert (Hiv : is_intv v = true) by (eapply int_shaped_cell; [apply Hxi; reflexivity | exact Ea | exact Hcv]).
      destruct (MS_addint m1 st1 h1 c1 v HMS1 Hcv ltac:(destruct v; try discriminate Hiv; exact I)) as (A & B & C).
      eexists. split; [exact A|]. split; [exact B|]. intros _. exact C.
    - exists m1. split; [exact HMS1|]. split; [apply ext_refl|]. intros Hx; discriminate Hx. }
  destruct Hadd as (m1' & HMS1' & Hext1' & Hci).
  assert (Hext1n : ext m m1') by (eapply ext_trans; [exact Hext1 | exact Hext1']).
  assert (Hm1n : vrel m1' c1 a1) by (eapply vrel_ext; [exact Hext1' | exact Hm1]).
  clear Hext1 Hm1 HMS1 Hext1'. clear m1. rename m1' into m1. rename Hext1n into Hext1. rename Hm1n into Hm1. rename HMS1' into HMS1.
  assert (Hlen1 : Z.of_nat (length (a1 :: stk)) = L + 1 + Z.of_nat (length (fd_params fd))) by (simpl length; lia).
  pose proof (IHi t _ _ _ _ _ He (x :: sc) Ft prog (ip + length ca)%nat (L + 1) ((x, L + 1) :: ce)
                (a1 :: stk) h1 o1 m1 g e0 F fs (code_at_app_r _ _ _ _ Hc) HMS1 Hout1
                (env_match_bind _ _ _ _ _ _ _ _ _ x c1 a1 (env_match_ext _ _ _ _ _ _ _ _ _ _ Hem Hext1) Hm1 Hnx Hsx Hci) Hlen1) as Ht.
  fold ct frc in Ht.
  replace (1 + nbinds t) with (nbinds t + Z.of_nat (length [a1])) by (simpl length; lia).
  eapply (titems_lift _ _ _ [a1] _ _ (ip + length ca)%nat ct); [exact Hst1 | reflexivity | reflexivity | exact Hext1 | lia | rewrite app_length; lia | exact Ht].
Qed.

Lemma titems_run_step : forall k, titems_spec k ->
  forall fd0 t env st last r st', eval_items genv (S k) env st (IFunc fd0 :: t) last = (r, st') ->
  forall sc, items_F (fc_self fc) lv sc (IFunc fd0 :: t) = true ->
  forall prog ip L ce stk h o m g e0 F fs,
    code_at prog ip (compile_items_tl self L ce (IFunc fd0 :: t)) ->
    MS m st h -> o = out st -> env_match_g fc g gl m env ce sc L stk ->
    Z.of_nat (length stk) = L + Z.of_nat (length (fd_params fd)) ->
    titems_concl prog (mk ip stk h o (mkfr g e0 F fs)) ip (compile_items_tl self L ce (IFunc fd0 :: t))
      (nbinds (IFunc fd0 :: t)) m r st' e0 F fs.
Proof.
  intros k IHi fd0 t env st last r st' He sc HF prog ip L ce stk h o m g e0 F fs Hc HMS Hout Hem Hlen.
  set (frc := mkfr g e0 F fs) in *.
  set (fds := fd0 :: run_funcs t) in *. set (kk := length fds).
  unfold Compile4.compile_items_tl in Hc |- *.
  rewrite (CompileCorrect4Base.compile_items_run) in Hc |- *. cbv zeta in Hc |- *. fold fds kk in Hc |- *.
  set (L' := L + Z.of_nat kk) in *. set (ce' := func_cenv fds (L + 1) ce) in *.
  set (rc := run_code_f (closure_code FT TL fc L' ce') fds kk) in *.
  set (rest := compile_items_f (Compile4.compile_expr FT TL fc) (Compile4.cexpr FT TL fc self true) (closure_code FT TL fc) L' ce' 0 (run_rest t)) in *.
  pose proof Hc as (Hcc & Hpo).
  assert (Hc1 : CompileCorrect4Base.code_at prog ip (ins BYTECODE_ALLOC (Z.of_nat kk) 0 :: rc)).
  { change (ins BYTECODE_ALLOC (Z.of_nat kk) 0 :: rc ++ rest) with ((ins BYTECODE_ALLOC (Z.of_nat kk) 0 :: rc) ++ rest) in Hcc.
    eapply CompileCorrect4Base.code_at_app_l; eauto. }
  assert (Hc2 : code_at prog (ip + S (length rc)) rest).
  { change (ins BYTECODE_ALLOC (Z.of_nat kk) 0 :: rc ++ rest) with ((ins BYTECODE_ALLOC (Z.of_nat kk) 0 :: rc) ++ rest) in Hc.
    apply code_at_app_r in Hc. exact Hc. }
  rewrite eval_items_IFunc in He. fold fds in He.
  set (e' := run_env fds env st) in *. set (st1 := run_state fds env st) in *.
  set (Sk := rev (seq (length h) kk) ++ stk).
  destruct (run_prefix frc fc gl fd0 t env st sc HF prog L ce ip stk h o m Hc1 Hpo HMS Hem) as (H' & m' & Hst & HMS' & Hem' & Hext & HFr).
  fold fds kk L' ce' rc Sk e' st1 in Hst, HMS', Hem', HFr.
  assert (HlenS : length (rev (seq (length h) kk)) = kk) by (rewrite rev_length, seq_length; reflexivity).
  assert (Hlen' : Z.of_nat (length Sk) = L' + Z.of_nat (length (fd_params fd))).
  { unfold Sk, L'. rewrite app_length, HlenS. lia. }
  pose proof (IHi (run_rest t) e' st1 _ r st' He (map fd_name fds ++ sc) HFr prog (ip + S (length rc))%nat L' ce'
                Sk H' o m' g e0 F fs Hc2 HMS'
                (eq_trans Hout (eq_sym (eq_refl : out st1 = out st))) Hem' Hlen') as Ht.
  change (compile_items_tl self L' ce' (run_rest t)) with rest in Ht. fold frc in Ht.
  rewrite (nbinds_run (IFunc fd0 :: t)). cbn [run_funcs run_rest]. fold fds kk.
  replace (Z.of_nat kk + nbinds (run_rest t)) with (nbinds (run_rest t) + Z.of_nat (length (rev (seq (length h) kk)))) by (rewrite HlenS; lia).
  eapply (titems_lift _ _ _ (rev (seq (length h) kk)) _ _ (ip + S (length rc))%nat rest);
    [exact Hst | reflexivity | reflexivity | exact Hext | lia | cbn [length]; rewrite app_length; lia | exact Ht].
Qed.

Lemma titems_step : forall k, expr_spec fc gl k -> tail_spec k -> titems_spec k -> titems_spec (S k).
Proof.
  intros k IHe IHt IHi items env st last r st' He sc HF prog ip L ce stk h o m g e0 F fs Hc HMS Hout Hem Hlen.
  set (frc := mkfr g e0 F fs) in *.
  destruct items as [|it t]; [discriminate HF|].
  destruct it as [x e | x e | fd0 | e].
  - rewrite eval_items_ILet in He. rewrite items_F1_let in HF. rewrite compile_items_tl_let in *.
    apply andb_true_iff in HF; destruct HF as [H6 HF].
    assert (Hxi : mem_id x IV = true -> int_shaped e = true).
    { intros Hx. destruct (at6_iv _ _ H6 Hx) as [A B]. rewrite A in B. discriminate B. }
    change (nbinds (ILet x e :: t)) with (1 + nbinds t).
    eapply titems_bind_step; eauto.
  - rewrite eval_items_IVar in He. rewrite items_F1_var in HF. rewrite compile_items_tl_var in *.
    apply andb_true_iff in HF; destruct HF as [H6 HF].
    assert (Hxi : mem_id x IV = true -> int_shaped e = true).
    { intros Hx. destruct (at6_iv _ _ H6 Hx) as [A B]. rewrite A in B. exact B. }
    change (nbinds (IVar x e :: t)) with (1 + nbinds t).
    eapply titems_bind_step; eauto.
  - eapply titems_run_step; eauto.
  - rewrite eval_items_IExpr in He. rewrite items_F1_expr in HF.
    change (nbinds (IExpr e :: t)) with (nbinds t).
    apply andb_true_iff in HF; destruct HF as [Fe Ft].
    destruct t as [|it2 t2].
    + (* the last item: tail position *)
      rewrite compile_items_tl_last in *. rewrite app_nil_r in *.
      destruct (eval genv k env st e) as [r1 st1] eqn:Ea.
      pose proof (IHt e _ _ _ _ Ea sc Fe prog ip L ce stk h o m g e0 F fs Hc HMS Hout Hem Hlen) as Ha.
      fold frc in Ha.
      destruct r1 as [c1|ex| |]; simpl in Ha; [| inv He; simpl; exact Ha | inv He; exact I | inv He; exact I].
      destruct (eval_items_nil_inv _ _ _ _ _ _ He) as [-> | [-> ->]]; [exact I|]. simpl.
      destruct Ha as [(s1 & m1 & a1 & Hst1 & Hip1 & Hstk1 & Hm1 & HMS1 & Hext1 & Hout1 & Hfr1) | Hret].
      * left. exists s1, m1, a1, []. simpl. repeat (split; auto).
      * right. exact Hret.
    + rewrite compile_items_tl_expr in *.
      set (t := it2 :: t2) in *. set (ca := compile_expr fc L ce e) in *.
      destruct (eval genv k env st e) as [r1 st1] eqn:Ea.
      pose proof (IHe e _ _ _ _ Ea sc Fe prog ip L ce (mk ip stk h o frc) m
                    (code_at_app_l _ _ _ _ Hc) eq_refl HMS Hout Hem) as Ha. fold ca in Ha.
      destruct r1 as [c1|ex| |]; simpl in Ha; [| inv He; simpl | inv He; exact I | inv He; exact I].
      2:{ destruct Ha as [_ Hr]. split; [reflexivity|]. left.
          eapply raises_weaken; [exact Hr | lia | rewrite app_length; lia]. }
      destruct Ha as (s1 & m1 & a1 & Hst1 & Hip1 & Hstk1 & Hm1 & HMS1 & Hext1 & Hout1 & Hfr1).
      destruct s1 as [ip1 stk1 h1 o1 fr1]; simpl in Hip1, Hstk1, HMS1, Hout1, Hfr1; subst ip1 stk1 fr1.
      pose proof (code_at_app_r _ _ _ _ Hc) as Hc2.
      pose proof (code_at_head _ _ _ _ Hc2) as Hsl. pose proof (code_at_tail _ _ _ _ Hc2) as Hct.
      assert (Hpop : star prog (mk ip stk h o frc) (mk (S (ip + length ca)) stk h1 o1 frc)).
      { eapply star_snoc; [exact Hst1|]. apply (step_slide_pop frc). exact Hsl. }
      pose proof (IHi t _ _ _ _ _ He sc Ft prog (S (ip + length ca)) L ce stk h1 o1 m1 g e0 F fs
                    Hct HMS1 Hout1 (env_match_ext _ _ _ _ _ _ _ _ _ _ Hem Hext1) Hlen) as Ht.
      fold frc in Ht.
      replace (nbinds t) with (nbinds t + Z.of_nat (length (@nil nat))) by (simpl; lia).
      eapply (titems_lift _ _ _ [] _ _ (S (ip + length ca)) (compile_items_tl self L ce t));
        [exact Hpop | reflexivity | reflexivity | exact Hext1 | lia | rewrite app_length; simpl; lia | exact Ht].
Qed.

Lemma tcase_EBlock : forall k items, titems_spec k -> tail_case (S k) (EBlock items).
Proof.
  intros k items IHi env st r st' He sc HF prog ip L ce stk h o m g e0 F fs Hc HMS Hout Hem Hlen.
  set (frc := mkfr g e0 F fs) in *.
  rewrite eval_EBlock in He. rewrite cexpr_block_tl in *.
  change (in_F (fc_self fc) lv sc (EBlock items)) with (items_F (fc_self fc) lv sc items) in HF.
  pose proof (IHi items env st None r st' He sc HF prog ip L ce stk h o m g e0 F fs
                (code_at_app_l _ _ _ _ Hc) HMS Hout Hem Hlen) as Hi.
  fold frc in Hi. unfold titems_concl in Hi.
  destruct r as [c|ex| |]; simpl in Hi |- *; auto.
  - destruct Hi as [(s1 & m1 & a & locals & Hst1 & Hip1 & Hstk1 & Hlenl & Hm1 & HMS1 & Hext1 & Hout1 & Hfr1) | Hret];
      [left | right; exact Hret].
    destruct s1 as [ip1 stk1 h1 o1 fr1]; simpl in Hip1, Hstk1, HMS1, Hout1, Hfr1; subst ip1 stk1 fr1.
    pose proof (code_at_app_r _ _ _ _ Hc) as Hce.
    unfold block_end in *. destruct (0 <? nbinds items) eqn:En.
    + apply Z.ltb_lt in En.
      apply (post_ok_intro _ _ _ _ _ _ (mk (S (ip + length (compile_items_tl self L ce items))) (a :: stk) h1 o1 frc) m1 a);
        simpl; auto.
      * eapply star_snoc; [exact Hst1|]. eapply (step_slide_block frc); eauto. eapply code_at_head; exact Hce.
      * rewrite app_length. simpl. lia.
    + apply Z.ltb_ge in En. pose proof (nbinds_nonneg items).
      assert (locals = []) by (destruct locals; [reflexivity | simpl in Hlenl; lia]). subst locals.
      apply (post_ok_intro _ _ _ _ _ _ (mk (ip + length (compile_items_tl self L ce items)) (a :: stk) h1 o1 frc) m1 a);
        simpl; auto.
      rewrite app_nil_r. reflexivity.
  - destruct Hi as (_ & [Hr | Hre]); split; auto.
    left. eapply raises_weaken; [exact Hr | lia | rewrite app_length; lia].
Qed.

(* everything that is not ?: / a block / a call is compiled in tail position like anywhere else *)
Lemma tcase_other : forall k e, expr_case fc gl k e ->
  (forall L ce, Compile4.cexpr FT TL fc self true L ce e = compile_expr fc L ce e) -> tail_case k e.
Proof.
  intros k e H Heq env st r st' He sc HF prog ip L ce stk h o m g e0 F fs Hc HMS Hout Hem Hlen.
  rewrite Heq in *. apply concl_tconcl.
  exact (H env st r st' He sc HF prog ip L ce (mk ip stk h o (mkfr g e0 F fs)) m Hc eq_refl HMS Hout Hem).
Qed.

(* ---- the self tail call: args; f; SLIDE (L+v) (v+1); CALL — the frame is reused ------------------ *)

Lemma step_slide_all : forall fr prog ip top stk h o q mm,
  nth_error prog ip = Some (ins BYTECODE_SLIDE q mm) ->
  q = Z.of_nat (length stk) -> mm = Z.of_nat (length top) ->
  step prog (mk ip (top ++ stk) h o fr) = SNext (mk (S ip) top h o fr).
Proof.
  intros fr prog ip top stk h o q mm H -> ->. unfold ValueVM4.step. cbn [v_ip v_stk v_heap v_out v_fr ValueVM4.mkst].
  rewrite H. cbn [r_op ins r_w0 r_w1]. rewrite !zn_nonneg by lia. rewrite !Nat2Z.id.
  destruct (Nat.eqb (length stk) 0) eqn:E0.
  - apply Nat.eqb_eq in E0. destruct stk; [|discriminate E0]. rewrite app_nil_r. reflexivity.
  - replace (Nat.leb (length stk + length top) (length (top ++ stk))) with true
      by (symmetry; apply Nat.leb_le; rewrite app_length; lia).
    rewrite firstn_app, firstn_all, Nat.sub_diag. simpl firstn. rewrite app_nil_r.
    rewrite skipn_all2 by (rewrite app_length; lia). rewrite app_nil_r. reflexivity.
Qed.

Lemma step_call_tail : forall prog ip f rest h o g e0 F fs vec target,
  nth_error prog ip = Some (ins0 BYTECODE_CALL) -> nth_error h f = Some (HFun vec target) -> target <> 0%nat ->
  step prog (mk ip (f :: rest) h o (mkfr g e0 F fs)) = SNext (mk target rest h o (mkfr vec e0 F fs)).
Proof.
  intros. unfold ValueVM4.step. simpl. rewrite H. simpl. rewrite H0.
  destruct (Nat.eqb target 0) eqn:E0; [apply Nat.eqb_eq in E0; congruence|]. reflexivity.
Qed.

Lemma last_call_code_length : forall L v ca cf, length (last_call_code L v ca cf) = (length ca + length cf + 2)%nat.
Proof. intros. unfold last_call_code. rewrite !app_length. simpl. lia. Qed.



(* the self call in tail position of a TOP-LEVEL function: args; GLOBAL_VEC 0; ID_FUNC_ADDR f; SLIDE; CALL with
   the frame reused — gp becomes the new (empty) vector *)
Lemma tcase_ECall_top : forall k args, kd = KTop -> expr_spec fc gl k -> body_spec k ->
  tail_case (S k) (ECall (EVar (fd_name fd)) args).
Proof.
  intros k args Ekd IH IHb env st r st' He sc HF prog ip L ce stk h o m g e0 F fs Hc HMS Hout Hem Hlen.
  set (frc := mkfr g e0 F fs) in *.
  pose proof Hc as (_ & Hpo).
  assert (Hkt : nth_error (g_all G) kidx = Some (KTop, fd)) by (rewrite <- Ekd; exact Hk).
  pose proof (po_top_inv _ Hpo kidx fd Hkt) as Hkf.
  pose proof (po_find _ Hpo kidx fd Hkf) as Hfind.
  destruct (proj1 (proj2 (proj2 Hem)) _ _ Hfind) as (cf & Hgl & Hmcf).
  assert (Hs : exists n, fsig_lookup (fd_name fd) FS = Some n /\ n = length (fd_params fd)).
  { unfold FS, g_sigs. clear -Hfind. induction (g_funcs G) as [|g0 t IHt]; [discriminate|]. simpl in Hfind |- *.
    destruct (N.eqb (fd_name fd) (fd_name g0)); [inv Hfind; eauto | apply IHt; exact Hfind]. }
  destruct Hs as (n & Hs & Hn).
  rewrite in_F_call, Hs in HF.
  apply andb_true_iff in HF; destruct HF as [HF Hsig].
  apply andb_true_iff in HF; destruct HF as [_ Fargs]. apply Nat.eqb_eq in Hsig.
  assert (Hlv : lookup_var genv (fd_name fd) env = Some cf).
  { unfold lookup_var. destruct (lookup (fd_name fd) env) as [c|] eqn:El; [|exact Hgl].
    pose proof (proj1 (proj2 Hem) _ c El) as Hx. unfold is_fname in Hx. fold FS in Hx. rewrite Hs in Hx. discriminate. }
  pose proof (po_named _ Hpo kidx KTop fd Hkt) as Hfi.
  rewrite eval_ECall in He.
  set (v := Z.of_nat (length args)) in *.
  assert (Ecode : Compile4.cexpr FT TL fc self true L ce (ECall (EVar (fd_name fd)) args) =
                  last_call_code L v (Compile4.compile_args FT TL fc ce L args) (top_code (Z.of_nat (nstd + kidx)))).
  { cbn [Compile4.cexpr andb]. unfold tail_self. rewrite Ekd. cbn [self_is]. rewrite N.eqb_refl.
    change (Compile4.cexpr FT TL (ctx_of TL KTop fd) None false (L + Z.of_nat (length args)) ce (EVar (fd_name fd)))
      with (var_code FT TL (ctx_of TL KTop fd) (L + Z.of_nat (length args)) ce (fd_name fd)).
    rewrite <- Ekd. rewrite (var_code_top fc gl Hgood _ _ _ _ _ _ _ (fd_name fd) n Hem Hs), Hfi. reflexivity. }
  rewrite Ecode in *. clear Ecode.
  set (ca := Compile4.compile_args FT TL fc ce L args) in *.
  rewrite last_call_code_length. unfold last_call_code, top_code in Hc. change (length (top_code (Z.of_nat (nstd + kidx)))) with 2%nat.
  pose proof (code_at_app_l _ _ _ _ Hc) as Hca.
  pose proof (code_at_app_r _ _ _ _ Hc) as H3. cbn [app] in H3.
  set (q := (ip + length ca)%nat) in *.
  pose proof (code_at_head _ _ _ _ H3) as HGV.
  pose proof (code_at_head _ _ _ _ (code_at_tail _ _ _ _ H3)) as HFA.
  pose proof (code_at_head _ _ _ _ (code_at_tail _ _ _ _ (code_at_tail _ _ _ _ H3))) as HSL.
  pose proof (code_at_head _ _ _ _ (code_at_tail _ _ _ _ (code_at_tail _ _ _ _ (code_at_tail _ _ _ _ H3)))) as HCL.
  destruct (eval_args genv k env args st) as [[ocs ra] st1] eqn:Eargs.
  pose proof (args_spec_of fc gl k IH args env st ocs ra st1 Eargs sc Fargs prog ip L ce
                (mk ip stk h o frc) m Hca eq_refl HMS Hout Hem) as Ha.
  fold ca in Ha. fold q in Ha. unfold args_concl in Ha.
  destruct ocs as [cs|].
  2:{ inv He. simpl in Ha. destruct r as [c|ex| |]; simpl; auto.
      { exfalso. eapply eval_args_none_not_ok; eauto. }
      destruct Ha as [_ Hr]. split; [reflexivity|]. left.
      eapply raises_weaken; [exact Hr | lia | subst q; lia]. }
  destruct Ha as (s1 & m1 & astk & Hst1 & Hip1 & Hstk1 & Hlen1 & HF1 & HMS1 & Hext1 & Hout1 & Hfr1).
  destruct s1 as [ip1 stk1 h1 o1 fr1]; simpl in Hip1, Hstk1, HMS1, Hout1, Hfr1; subst ip1 stk1 fr1.
  destruct k as [|k']; [rewrite eval_O in He; inv He; exact I|].
  rewrite eval_EVar, Hlv in He.
  pose proof (ext_nth _ _ _ _ Hext1 Hmcf) as Hmcf1.
  unfold apply_fun in He. unfold get_cell in He. rewrite (ms_fun _ _ _ HMS1 cf fd Hmcf1) in He.
  destruct (bind_params (fd_params fd) cs) as [penv|] eqn:Hb; [|inv He; exact I].
  assert (Hg1 : genv_ok m1).
  { intros g1 gd Hgd. destruct Hem as (_ & _ & Hf3 & _). destruct (Hf3 g1 gd Hgd) as (cg & Hl & Hm).
    exists cg. split; [exact Hl | eapply ext_nth; eauto]. }
  set (h1' := (h1 ++ [HVec []]) ++ [HFun (length h1) (faddr (nstd + kidx))]).
  assert (HMS1' : MS m1 st1 h1') by (unfold h1'; apply MS_heap_app, MS_heap_app; exact HMS1).
  pose proof (IHb kidx KTop fd Hkt [] (length h1) [] cs penv st1 r st' Hb He prog astk h1' o1 m1 e0 F fs
                Hpo HMS1' Hout1 HF1 Hg1 (conj eq_refl eq_refl)) as Hbody.
  unfold act_done in Hbody.
  assert (Henter : star prog (mk ip stk h o frc) (mk (faddr (nstd + kidx)) astk h1' o1 (mkfr (length h1) e0 F fs))).
  { eapply star_trans; [exact Hst1|].
    eapply star_step; [apply (step_global_vec0 frc); exact HGV|].
    eapply star_step; [eapply (step_id_func_addr frc); exact HFA|]. fold h1'.
    eapply star_step.
    - change (length (h1 ++ [HVec []]) :: astk ++ stk) with ((length (h1 ++ [HVec []]) :: astk) ++ stk).
      apply (step_slide_all frc prog (S (S q)) (length (h1 ++ [HVec []]) :: astk) stk h1' o1 _ _ HSL).
      + unfold v. lia.
      + unfold v. simpl length. lia.
    - apply star_one. apply (step_call_tail prog (S (S (S q))) (length (h1 ++ [HVec []])) astk h1' o1 g e0 F fs (length h1) (faddr (nstd + kidx)) HCL).
      + unfold h1'. rewrite nth_error_app2, Nat.sub_diag by lia. reflexivity.
      + apply (po_nz _ Hpo _ _ Hkt). }
  destruct r as [cb|exb| |]; try exact I.
  - simpl. right.
    destruct Hbody as (h' & o' & m' & a & Hrun & Hm' & HMS' & Hext' & Ho').
    exists h', o', m', a. split; [eapply star_trans; eauto|]. split; [exact Hm'|]. split; [exact HMS'|].
    split; [eapply ext_trans; eauto | exact Ho'].
  - simpl.
    destruct Hbody as (_ & h' & t & m' & Hrun & HMS' & Hext'). split; [reflexivity|]. right.
    exists h', t, m'. split; [eapply star_trans; eauto|]. split; [exact HMS' | eapply ext_trans; eauto].
Qed.

(* the self call in tail position of a NAMED NESTED function: args; COPYGLOB; ID_FUNC_ADDR f; SLIDE; CALL — the
   frame and the vector are reused *)
Lemma tcase_ECall_self : forall k args, kd = KNamed -> expr_spec fc gl k -> body_spec k ->
  tail_case (S k) (ECall (EVar (fd_name fd)) args).
Proof.
  intros k args Ekd IH IHb env st r st' He sc HF prog ip L ce stk h o m g e0 F fs Hc HMS Hout Hem Hlen.
  set (frc := mkfr g e0 F fs) in *.
  pose proof Hc as (_ & Hpo).
  assert (Hfs : fc_self fc = Some (fd_name fd)) by (unfold ctx_of; rewrite Ekd; reflexivity).
  assert (Hs : fsig_lookup (fd_name fd) FS = None).
  { pose proof (Hgood _ Hfs) as Hx. unfold is_fname in Hx. destruct (fsig_lookup (fd_name fd) FS); [discriminate | reflexivity]. }
  rewrite in_F_call, Hs in HF.
  apply andb_true_iff in HF; destruct HF as [HF _].
  apply andb_true_iff in HF; destruct HF as [_ Fargs].
  assert (Hnsc : mem_id (fd_name fd) sc = false) by (apply (proj2 (proj2 (proj2 (proj2 (proj2 (proj2 Hem)))))); exact Hfs).
  assert (Hcl : clookup (fd_name fd) ce = None).
  { destruct (clookup (fd_name fd) ce) as [i|] eqn:E; [|reflexivity].
    destruct Hem as (_ & _ & _ & _ & Hce & _). destruct (Hce _ i E) as [_ Hx]. congruence. }
  destruct (proj1 (proj2 (proj2 (proj2 (proj2 (proj2 Hem))))) _ Hfs Hcl)
    as (cf & kself & sfd & scenv & Hlf & Hrec & Hname & Hks & Hgv & HFv & Hnf & Hniv).
  pose proof (po_named _ Hpo kself KNamed sfd Hks) as Hfi. rewrite Hname in Hfi.
  rewrite eval_ECall in He.
  set (v := Z.of_nat (length args)) in *.
  assert (Ecode : Compile4.cexpr FT TL fc self true L ce (ECall (EVar (fd_name fd)) args) =
                  last_call_code L v (Compile4.compile_args FT TL fc ce L args)
                    [ins0 BYTECODE_COPYGLOB; ins BYTECODE_ID_FUNC_ADDR (Z.of_nat (nstd + kself)) 0]).
  { cbn [Compile4.cexpr andb]. unfold tail_self. rewrite Ekd. cbn [self_is]. rewrite N.eqb_refl.
    change (Compile4.cexpr FT TL (ctx_of TL KNamed fd) None false (L + Z.of_nat (length args)) ce (EVar (fd_name fd)))
      with (var_code FT TL (ctx_of TL KNamed fd) (L + Z.of_nat (length args)) ce (fd_name fd)).
    unfold var_code. rewrite Hcl. cbn [ctx_of fc_self self_is]. rewrite N.eqb_refl, Hfi. rewrite <- Ekd. reflexivity. }
  rewrite Ecode in *. clear Ecode.
  set (ca := Compile4.compile_args FT TL fc ce L args) in *.
  rewrite last_call_code_length. unfold last_call_code in Hc. cbn [length].
  pose proof (code_at_app_l _ _ _ _ Hc) as Hca.
  pose proof (code_at_app_r _ _ _ _ Hc) as H3. cbn [app] in H3.
  set (q := (ip + length ca)%nat) in *.
  pose proof (code_at_head _ _ _ _ (code_at_tail _ _ _ _ (code_at_tail _ _ _ _ H3))) as HSL.
  pose proof (code_at_head _ _ _ _ (code_at_tail _ _ _ _ (code_at_tail _ _ _ _ (code_at_tail _ _ _ _ H3)))) as HCL.
  destruct (eval_args genv k env args st) as [[ocs ra] st1] eqn:Eargs.
  pose proof (args_spec_of fc gl k IH args env st ocs ra st1 Eargs sc Fargs prog ip L ce
                (mk ip stk h o frc) m Hca eq_refl HMS Hout Hem) as Ha.
  fold ca in Ha. fold q in Ha. unfold args_concl in Ha.
  destruct ocs as [cs|].
  2:{ inv He. simpl in Ha. destruct r as [c|ex| |]; simpl; auto.
      { exfalso. eapply eval_args_none_not_ok; eauto. }
      destruct Ha as [_ Hr]. split; [reflexivity|]. left.
      eapply raises_weaken; [exact Hr | lia | subst q; lia]. }
  destruct Ha as (s1 & m1 & astk & Hst1 & Hip1 & Hstk1 & Hlen1 & HF1 & HMS1 & Hext1 & Hout1 & Hfr1).
  destruct s1 as [ip1 stk1 h1 o1 fr1]; simpl in Hip1, Hstk1, HMS1, Hout1, Hfr1; subst ip1 stk1 fr1.
  destruct k as [|k']; [rewrite eval_O in He; inv He; exact I|].
  rewrite eval_EVar in He. unfold lookup_var in He. rewrite Hlf in He.
  unfold apply_fun in He.
  pose proof (ext_fcl _ _ _ Hext1 Hrec) as Hrec1.
  destruct (ms_fcl _ _ _ HMS1 _ _ _ Hrec1) as [Hcell | (_ & w & Hcell & Hw)].
  2:{ unfold get_cell in He. rewrite Hcell in He. destruct w; try contradiction; inv He; exact I. }
  unfold get_cell in He. rewrite Hcell in He.
  destruct (bind_params (fd_params sfd) cs) as [penv|] eqn:Hb; [|inv He; exact I].
  assert (Hg1 : genv_ok m1).
  { intros f0 gd Hgd. destruct Hem as (_ & _ & Hf3 & _). destruct (Hf3 f0 gd Hgd) as (cg & Hl & Hm).
    exists cg. split; [exact Hl | eapply ext_nth; eauto]. }
  assert (Hact : act_rel m1 KNamed sfd scenv g gl).
  { split; [eapply ext_vec; eauto|]. split; [|split; [exact Hnf|]].
    - eapply Forall2_imp; [|exact HFv]. intros y a (c & Y1 & Y2 & Y3). exists c. split; [exact Y1|]. split; [eapply vrel_ext; eauto | intros Yi; eapply ext_mi; eauto].
    - intros _. exists cf. split; [|exact Hrec1]. eapply (ms_fself _ _ _ HMS1); eauto. }
  assert (Esfd : sfd = fd).
  { pose proof (po_named _ Hpo kidx kd fd Hk) as Hfi2. rewrite Hfi in Hfi2.
    assert (kself = kidx) by lia. subst kself. rewrite Hk in Hks. inv Hks. reflexivity. }
  assert (Harity : length args = length (fd_params fd)).
  { rewrite <- Esfd, <- (bind_params_length _ _ _ Hb), (Forall2_len _ _ _ _ _ HF1). symmetry. exact Hlen1. }
  set (h1' := h1 ++ [HFun g (faddr (nstd + kself))]).
  assert (HMS1' : MS m1 st1 h1') by (unfold h1'; apply MS_heap_app; exact HMS1).
  pose proof (IHb kself KNamed sfd Hks scenv g gl cs penv st1 r st' Hb He prog astk h1' o1 m1 e0 F fs
                Hpo HMS1' Hout1 HF1 Hg1 Hact) as Hbody.
  unfold act_done in Hbody.
  assert (Henter : star prog (mk ip stk h o frc) (mk (faddr (nstd + kself)) astk h1' o1 (mkfr g e0 F fs))).
  { eapply star_trans; [exact Hst1|].
    eapply star_trans.
    { apply (CompileCorrect4Base.step_copyglob_self X prog q (astk ++ stk) h1 o1 frc (nstd + kself) 0).
      apply (CompileCorrect4Base.code_at_app_l prog q
               [ins0 BYTECODE_COPYGLOB; ins BYTECODE_ID_FUNC_ADDR (Z.of_nat (nstd + kself)) 0]
               [ins BYTECODE_SLIDE (L + v) (v + 1) ; ins0 BYTECODE_CALL]). exact (proj1 H3). }
    cbn [r_gp frc mkfr]. fold h1'.
    eapply star_step.
    - change (length h1 :: astk ++ stk) with ((length h1 :: astk) ++ stk).
      apply (step_slide_all frc prog (S (S q)) (length h1 :: astk) stk h1' o1 _ _ HSL).
      + unfold v. lia.
      + unfold v. simpl length. lia.
    - apply star_one. apply (step_call_tail prog (S (S (S q))) (length h1) astk h1' o1 g e0 F fs g (faddr (nstd + kself)) HCL).
      + unfold h1'. rewrite nth_error_app2, Nat.sub_diag by lia. reflexivity.
      + apply (po_nz _ Hpo _ _ Hks). }
  destruct r as [cb|exb| |]; try exact I.
  - simpl. right.
    destruct Hbody as (h' & o' & m' & a & Hrun & Hm' & HMS' & Hext' & Ho').
    exists h', o', m', a. split; [eapply star_trans; eauto|]. split; [exact Hm'|]. split; [exact HMS'|].
    split; [eapply ext_trans; eauto | exact Ho'].
  - simpl.
    destruct Hbody as (_ & h' & t & m' & Hrun & HMS' & Hext'). split; [reflexivity|]. right.
    exists h', t, m'. split; [eapply star_trans; eauto|]. split; [exact HMS' | eapply ext_trans; eauto].
Qed.

(* a call in tail position: the self call reuses the frame, any other call is an ordinary call *)
Lemma tcase_ECall : forall k f args, expr_spec fc gl k -> body_spec k ->
  expr_case fc gl (S k) (ECall f args) -> tail_case (S k) (ECall f args).
Proof.
  intros k f args IH IHb Hplain.
  assert (Hother : Compile4.cexpr FT TL fc self true = Compile4.cexpr FT TL fc self true) by reflexivity.
  destruct f; try (apply tcase_other; [exact Hplain | intros; reflexivity]).
  destruct (self_is self x) eqn:Es.
  - assert (Hx : x = fd_name fd /\ (kd = KTop \/ kd = KNamed)).
    { clear - Es. unfold self_is, tail_self in Es. destruct kd; try discriminate Es; apply N.eqb_eq in Es; auto. }
    destruct Hx as [-> [Ekd | Ekd]].
    + apply tcase_ECall_top; auto.
    + apply tcase_ECall_self; auto.
  - apply tcase_other; [exact Hplain|]. intros L ce. cbn [Compile4.cexpr]. rewrite Es. reflexivity.
Qed.

Lemma tail_step : forall k, expr_spec fc gl k -> tail_spec k -> titems_spec k -> body_spec k ->
  expr_spec fc gl (S k) -> tail_spec (S k).
Proof.
  intros k IHe IHt IHi IHb IHe' e.
  destruct e; try (apply tcase_other; [apply IHe' | reflexivity]).
  - apply tcase_ECond; assumption.
  - apply tcase_ECall; [assumption | assumption | apply IHe'].
  - apply tcase_EBlock; assumption.
Qed.

End Tail.

(* one activation: FUNC_DEF; the body; LINE; RET — or a fault: the catch clauses, or LABEL; RETHROW *)
Lemma body_of_specs : forall k,
  (forall fc gl, good_ctx fc -> items_spec fc gl k) ->
  (forall kidx kd fd gl, nth_error (g_all G) kidx = Some (kd, fd) -> good_ctx (ctx_of TL kd fd) -> titems_spec kd fd gl k) ->
  body_spec k.
Proof.
  intros k IHi IHti kidx kd fd Hk cenv vec gl cs penv st r st' Hb He prog astk h o m e0 F fs Hpo HMS Hout HF Hg Hact.
  destruct (funcs_ok kidx (kd, fd) Hk) as [Hfok Hnt]. cbn [fst snd] in Hnt.
  pose proof (po_fun _ Hpo kidx (kd, fd) Hk) as Hcode.
  set (fa := faddr (nstd + kidx)) in *.
  set (frc := {| r_fp := 0; r_gp := vec; r_exc := e0; r_frames := F :: fs |}) in *.
  pose proof Hfok as Hfok0.
  unfold Compile4.func_in_P in Hfok0. cbn [fst snd] in Hfok0.
  apply andb_true_iff in Hfok0; destruct Hfok0 as [Hfok0 Hcat].
  apply andb_true_iff in Hfok0; destruct Hfok0 as [Hfok0 _].
  apply andb_true_iff in Hfok0; destruct Hfok0 as [Hfok0 _].
  apply andb_true_iff in Hfok0; destruct Hfok0 as [Hfok0 _].
  apply andb_true_iff in Hfok0; destruct Hfok0 as [HFb _].
  set (fc := ctx_of TL kd fd).
  assert (Hsegs : fsegs FT TL (kd, fd) = [] ++ body_seg FT TL kd fd :: tail_segs kd fd (fd_catches fd)) by reflexivity.
  pose proof (seg_at prog fa (kd, fd) [] _ _ Hcode Hsegs) as Hseg. cbn [concat length] in Hseg.
  rewrite Nat.add_0_r in Hseg. unfold body_seg in Hseg. rewrite seg_shape_body in Hseg.
  set (body := compile_body FT TL kd fd) in *.
  pose proof (CompileCorrect4Base.code_at_head _ _ _ _ Hseg) as HFD.
  pose proof (CompileCorrect4Base.code_at_tail _ _ _ _ Hseg) as Hc1.
  pose proof (CompileCorrect4Base.code_at_app_l _ _ _ _ Hc1) as Hbody.
  pose proof (CompileCorrect4Base.code_at_app_r _ _ _ _ Hc1) as Hc2.
  pose proof (CompileCorrect4Base.code_at_head _ _ _ _ Hc2) as HLN.
  pose proof (CompileCorrect4Base.code_at_head _ _ _ _ (CompileCorrect4Base.code_at_tail _ _ _ _ Hc2)) as HRT.
  pose proof (CompileCorrect4Base.code_at_tail _ _ _ _ (CompileCorrect4Base.code_at_tail _ _ _ _ Hc2)) as Hc3.
  pose proof (CompileCorrect4Base.code_at_head _ _ _ _ Hc3) as HLB.
  pose proof (CompileCorrect4Base.code_at_tail _ _ _ _ Hc3) as Hc4.
  assert (Hlenseg : length (body_seg FT TL kd fd) = (length body + 4)%nat).
  { unfold body_seg. fold body. cbn [length]. rewrite app_length. cbn [length]. lia. }
  assert (H0 : star prog (mk fa astk h o frc) (mk (S fa) astk h o frc)).
  { apply star_one. apply (step_func_def frc). exact HFD. }
  assert (Htab : forall i, (S fa <= i < S fa + length body)%nat ->
                   hsearch (x_tab X) i 0 = (S (S (S fa + length body)))%nat).
  { intros i Hi. rewrite (po_tab _ Hpo kidx (kd, fd) [] _ _ i Hk Hsegs) by (fold fa; cbn [concat length]; rewrite Hlenseg; lia).
    fold fa. cbn [concat length]. rewrite Hlenseg. lia. }
  assert (Hself : good_ctx fc).
  { intros g Hgs. unfold fc, ctx_of in Hgs. cbn [fc_self] in Hgs. destruct kd; try discriminate Hgs.
    inv Hgs. apply Hnt. discriminate. }
  unfold call_body in He.
  destruct (eval_items genv k (penv ++ cenv) st (fd_body fd) None) as [rb st3] eqn:Eb.
  assert (Hpc : pcode_at prog (S fa) body) by (split; [exact Hbody | exact Hpo]).
  assert (He' : eval genv (S k) (penv ++ cenv) st (EBlock (fd_body fd)) = (rb, st3)) by (rewrite eval_EBlock; exact Eb).
  pose proof (body_env_match kidx kd fd cenv vec gl cs penv astk m Hk Hfok Hnt Hb HF Hg Hact) as Hem.
  assert (Hlen : Z.of_nat (length astk) = 0 + Z.of_nat (length (fd_params fd))).
  { rewrite <- (Forall2_len _ _ _ _ _ HF), (bind_params_length _ _ _ Hb). lia. }
  (* what follows the body *)
  assert (Hpost : forall c, rb = ROk c -> post_ok prog (mk (S fa) astk h o frc) (S fa + length body) m c st3 ->
            act_done prog (mk fa astk h o frc) m r st' F fs).
  { intros c -> Hx. inv He. simpl.
    destruct Hx as (s1 & m1 & a & Hst1 & Hip1 & Hstk1 & Hm1 & HMS1 & Hext1 & Hout1 & Hfr1).
    destruct s1 as [ip1 stk1 h1 o1 fr1]; simpl in Hip1, Hstk1, HMS1, Hout1, Hfr1; subst ip1 stk1 fr1.
    exists h1, o1, m1, a. split; [|auto].
    eapply star_trans; [exact H0|]. eapply star_trans; [exact Hst1|].
    eapply star_step; [apply (step_line frc); exact HLN|].
    apply star_one. apply step_ret_frame. exact HRT. }
  assert (Hraise : forall ex, rb = RExc ex -> ex = ex ->
            raises prog (mk (S fa) astk h o frc) (S fa) (S fa + length body) m st3 ex ->
            act_done prog (mk fa astk h o frc) m r st' F fs).
  { intros ex -> _ (s1 & fip & m1 & fp' & Hst1 & Hrng & Hip1 & Hfr1 & Hrt & (t & top & Hstk1) & Hout1 & HMS1 & Hext1).
    destruct s1 as [ip1 stk1 h1 o1 fr1]; simpl in Hip1, Hstk1, Hout1, Hfr1, Hrt, HMS1; subst stk1 o1 fr1.
    rewrite Htab in Hip1 by lia. subst ip1.
    assert (Hsegs2 : fsegs FT TL (kd, fd) = [body_seg FT TL kd fd] ++ tail_segs kd fd (fd_catches fd)) by reflexivity.
    assert (Hcs' : forall c, In c (fd_catches fd) -> items_F (fc_self fc) lv (body_scope TL kd fd) (snd c) = true).
    { intros c Hc. destruct (no_catch fd) eqn:Enc.
      - unfold no_catch in Enc. destruct (fd_catches fd); [destruct Hc | discriminate Enc].
      - cbn [orb] in Hcat. apply andb_true_iff in Hcat. destruct Hcat as [Hcat _].
        apply andb_true_iff in Hcat. destruct Hcat as [Hcat _]. rewrite forallb_forall in Hcat. exact (Hcat c Hc). }
    assert (Hall' : forall b, fd_catch_all fd = Some b -> items_F (fc_self fc) lv (body_scope TL kd fd) b = true).
    { intros b Hbq. destruct (no_catch fd) eqn:Enc.
      - unfold no_catch in Enc. rewrite Hbq in Enc. destruct (fd_catches fd); discriminate Enc.
      - cbn [orb] in Hcat. apply andb_true_iff in Hcat. destruct Hcat as [Hcat _].
        apply andb_true_iff in Hcat. destruct Hcat as [_ Hcat]. rewrite Hbq in Hcat. exact Hcat. }
    assert (Hfp' : fd_catches fd = [] -> fd_catch_all fd = None -> fp' = 0%nat).
    { intros C1 C2. apply Hrt. unfold is_rethrow. rewrite HLB.
      unfold tail_segs in Hc4. rewrite C1, C2 in Hc4. cbn [map app concat] in Hc4.
      rewrite (CompileCorrect4Base.code_at_head _ _ _ _ Hc4). reflexivity. }
    pose proof (handlers_run k IHi kidx kd fd Hk cenv vec gl (fd_catches fd) [body_seg FT TL kd fd] Hsegs2 Hcs' Hall' k penv st3 ex r st'
                  (le_n _) He prog (t :: top) astk h1 (out st3) m1 cs fp' F fs Hpo Hb
                  (Forall2_ext_m _ _ _ _ Hext1 HF)
                  (fun g gd Hgd => match Hg g gd Hgd with ex_intro _ cg (conj Hl Hm) =>
                                     ex_intro _ cg (conj Hl (ext_nth _ _ _ _ Hext1 Hm)) end)
                  (act_rel_ext _ _ _ _ _ _ _ Hext1 Hact)
                  HMS1 eq_refl Hfp') as Hrest.
    fold fa in Hrest. cbn [concat] in Hrest. rewrite app_nil_r, Hlenseg in Hrest.
    replace (fa + (length body + 4))%nat with (S (S (S (S fa + length body)))) in Hrest by lia.
    eapply act_done_star; [| exact Hext1 | exact Hrest].
    eapply star_trans; [exact H0|]. eapply star_snoc; [exact Hst1|].
    apply (step_label _ prog (S (S (S fa + length body)))). exact HLB. }
  destruct (no_catch fd) eqn:Enc.
  - (* no catch clauses: the body is in tail position *)
    pose proof (tcase_EBlock kd fd gl k (fd_body fd) (IHti kidx kd fd gl Hk Hself) (penv ++ cenv) st rb st3 He'
                  (body_scope TL kd fd) HFb prog (S fa) 0 (param_env (fd_params fd) 0) astk h o m vec e0 F fs
                  Hpc HMS Hout Hem Hlen) as Hx.
    fold body frc in Hx.
    destruct rb as [c|ex| |].
    + simpl in Hx. destruct Hx as [Hx | (h' & o' & m' & a & H1 & H2 & H3 & H4 & H5)]; [eapply Hpost; eauto|].
      assert (Er : r = ROk c /\ st' = st3) by (inversion He; auto). destruct Er as [-> ->].
      simpl. exists h', o', m', a. split; [eapply star_trans; eauto | auto].
    + simpl in Hx. destruct Hx as (_ & [Hx | (h' & t & m' & H1 & H2 & H3)]); [eapply Hraise; eauto|].
      assert (C12 : fd_catches fd = [] /\ fd_catch_all fd = None).
      { unfold no_catch in Enc. destruct (fd_catches fd); [destruct (fd_catch_all fd); [discriminate | auto] | discriminate]. }
      destruct C12 as [C1 C2]. rewrite C1, C2 in He.
      destruct k as [|k']; [rewrite eval_items_O in Eb; discriminate|]. rewrite handlers_nil in He. inv He. simpl.
      split; [reflexivity|]. exists h', t, m'. split; [eapply star_trans; eauto | auto].
    + inv He. exact I.
    + inv He. exact I.
  - (* catch clauses: no self tail call, the body is compiled like any block *)
    cbn [orb] in Hcat. pose proof Hcat as Hcat0. apply andb_true_iff in Hcat0. destruct Hcat0 as [_ Hnst].
    assert (Hbd : body = compile_expr fc 0 (param_env (fd_params fd) 0) (EBlock (fd_body fd))).
    { unfold body. apply no_self_tail_body. exact Hnst. }
    pose proof Hpc as Hpc'. rewrite Hbd in Hpc'.
    pose proof (case_EBlock frc fc gl k (fd_body fd) (IHi fc gl Hself) (penv ++ cenv) st rb st3 He'
                  (body_scope TL kd fd) HFb prog 0 (param_env (fd_params fd) 0) (S fa) astk h o m Hpc' HMS Hout Hem) as Hx.
    rewrite <- Hbd in Hx.
    destruct rb as [c|ex| |].
    + simpl in Hx. eapply Hpost; eauto.
    + simpl in Hx. destruct Hx as [_ Hx]. eapply Hraise; eauto.
    + inv He. exact I.
    + inv He. exact I.
Qed.

Section Ind.
Variable fc : fctx.
Variable gl : list nat.
Hypothesis Hfc : forall g, fc_self fc = Some g -> is_fname FS g = false.

(* ---- from the statements at given registers to the general ones ------------------------------ *)

Lemma expr_case_of_at : forall k e, (forall fr, expr_case_at fr fc gl k e) -> expr_case fc gl k e.
Proof.
  intros k e H env st r st' He sc HF prog pc L ce s m Hc Hip HMS Hout Hem.
  destruct s as [ip stk h o fr]; simpl in Hip, HMS, Hout, Hem; subst pc.
  exact (H fr env st r st' He sc HF prog L ce ip stk h o m Hc HMS Hout Hem).
Qed.

Lemma items_spec_of_at : forall k, (forall fr, items_spec_at fr fc gl k) -> items_spec fc gl k.
Proof.
  intros k H items env st last r st' He sc HF prog pc L ce s m Hc Hip HMS Hout Hem.
  destruct s as [ip stk h o fr]; simpl in Hip, HMS, Hout, Hem; subst pc.
  exact (H fr items env st last r st' He sc HF prog L ce ip stk h o m Hc HMS Hout Hem).
Qed.

Lemma while_spec_of_at : forall k, (forall fr, while_spec_at fr fc gl k) -> while_spec fc gl k.
Proof.
  intros k H c b env st r st' He sc Fc Fb prog pc L ce s m Hc Hip HMS Hout Hem.
  destruct s as [ip stk h o fr]; simpl in Hip, HMS, Hout, Hem; subst ip.
  exact (H fr c b env st r st' He sc Fc Fb prog pc L ce stk h o m Hc HMS Hout Hem).
Qed.

Lemma dowhile_spec_of_at : forall k, (forall fr, dowhile_spec_at fr fc gl k) -> dowhile_spec fc gl k.
Proof.
  intros k H b c env st r st' He sc Fb Fc prog pc L ce s m Hc Hip HMS Hout Hem.
  destruct s as [ip stk h o fr]; simpl in Hip, HMS, Hout, Hem; subst ip.
  exact (H fr b c env st r st' He sc Fb Fc prog pc L ce stk h o m Hc HMS Hout Hem).
Qed.

(* ---- the induction ------------------------------------------------------------------------------ *)


Lemma expr_step : forall k, expr_spec fc gl k -> items_spec fc gl k -> while_spec fc gl (S k) -> dowhile_spec fc gl (S k) ->
  body_spec k -> expr_spec fc gl (S k).
Proof.
  intros k IHe IHi IHw IHd IHb e. apply expr_case_of_at. intro fr.
  destruct e; try (intros ? ? ? ? ? ? HF; simpl in HF; discriminate HF).
  - apply case_EInt.
  - apply case_EBool.
  - apply case_EVar; assumption.
  - apply case_ENeg; assumption.
  - apply case_ENot; assumption.
  - destruct op; try (apply case_EBin; [reflexivity | assumption]).
    + apply case_EAnd; assumption.
    + apply case_EOr; assumption.
  - apply case_ECond; assumption.
  - apply case_EAssign; assumption.
  - destruct e; try (apply case_ECall_val; [exact I | assumption | assumption]).
    match goal with |- context [ECall (EVar ?g) _] => destruct (fsig_lookup g FS) as [n|] eqn:Hs end.
    + eapply case_ECall_top; eauto.
    + apply case_ECall_var; assumption.
  - apply case_EBlock; assumption.
  - apply case_EWhile; assumption.
  - apply case_EDoWhile; assumption.
  - apply case_EFor; assumption.
  - apply case_ELambda.
  - apply case_EArrLit; assumption.
  - apply case_EIndex; assumption.
  - apply case_ERecNew; assumption.
  - apply case_ERecNil.
  - apply case_EField; assumption.
  - apply case_EPrint; assumption.
Qed.

End Ind.

Lemma spec_all : forall k,
  (forall fc gl, good_ctx fc ->
     expr_spec fc gl k /\ items_spec fc gl k /\ while_spec fc gl k /\ dowhile_spec fc gl k) /\
  (forall kidx kd fd gl, nth_error (g_all G) kidx = Some (kd, fd) -> good_ctx (ctx_of TL kd fd) ->
     tail_spec kd fd gl k /\ titems_spec kd fd gl k).
Proof.
  induction k as [|k [IH IHT]].
  - split.
    + intros fc gl Hfc. repeat split.
      * intros e env st r st' He. rewrite eval_O in He. inv He. intros; exact I.
      * intros items env st last r st' He. rewrite eval_items_O in He. inv He. intros; exact I.
      * intros c b env st r st' He. rewrite eval_O in He. inv He. intros; exact I.
      * intros b c env st r st' He. rewrite eval_O in He. inv He. intros; exact I.
    + intros kidx kd fd gl Hk Hfc. split.
      * intros e env st r st' He. rewrite eval_O in He. inv He. intros; exact I.
      * intros items env st last r st' He. rewrite eval_items_O in He. inv He. intros; exact I.
  - assert (IHb : body_spec k).
    { apply body_of_specs.
      - intros fc' gl' Hfc'. apply (IH fc' gl' Hfc').
      - intros kidx kd fd gl Hk Hfc'. apply (IHT kidx kd fd gl Hk Hfc'). }
    assert (Hplain : forall fc gl, good_ctx fc ->
              expr_spec fc gl (S k) /\ items_spec fc gl (S k) /\ while_spec fc gl (S k) /\ dowhile_spec fc gl (S k)).
    { intros fc gl Hfc. destruct (IH fc gl Hfc) as (IHe & IHi & IHw & IHd).
      assert (IHw' : while_spec fc gl (S k)).
      { apply while_spec_of_at. intro fr. apply while_step; assumption. }
      assert (IHd' : dowhile_spec fc gl (S k)).
      { apply dowhile_spec_of_at. intro fr. apply dowhile_step; assumption. }
      assert (IHe' : expr_spec fc gl (S k)) by (apply expr_step; assumption).
      split; [exact IHe'|]. split; [apply items_spec_of_at; intro fr; apply items_step; assumption|].
      split; [exact IHw' | exact IHd']. }
    split; [exact Hplain|].
    intros kidx kd fd gl Hk Hfc. destruct (IHT kidx kd fd gl Hk Hfc) as [IHt IHti].
    destruct (IH (ctx_of TL kd fd) gl Hfc) as (IHe & _).
    destruct (Hplain (ctx_of TL kd fd) gl Hfc) as (IHe' & _).
    split.
    + eapply tail_step; eauto.
    + eapply titems_step; eauto.
Qed.

Lemma body_all : forall k, body_spec k.
Proof.
  intros k. destruct (spec_all k) as [H1 H2]. apply body_of_specs.
  - intros fc gl Hfc. apply (H1 fc gl Hfc).
  - intros kidx kd fd gl Hk Hfc. apply (H2 kidx kd fd gl Hk Hfc).
Qed.

(* ---- compile_expr_correct on the machine with frames and closures ------------------------------- *)

Theorem compile_expr_correct_frames : forall fc gl, good_ctx fc -> forall fuel e env st r st' sc,
  eval genv fuel env st e = (r, st') -> in_F (fc_self fc) lv sc e = true ->
  forall prog pc L ce s m,
    pcode_at prog pc (compile_expr fc L ce e) -> v_ip s = pc ->
    MS m st (v_heap s) -> v_out s = out st -> env_match_g fc (r_gp (v_fr s)) gl m env ce sc L (v_stk s) ->
    concl prog s pc (length (compile_expr fc L ce e)) m r st'.
Proof.
  intros fc gl Hfc fuel e env st r st' sc He HF prog pc L ce s m Hc Hip HMS Hout Hem.
  exact (proj1 (proj1 (spec_all fuel) fc gl Hfc) e env st r st' He sc HF prog pc L ce s m Hc Hip HMS Hout Hem).
Qed.

End Correct.
