(* Surface-level rules that the core AST of Src/Syntax.v cannot express (property C06):

     - `match` exhaustiveness (front/tcmatch.c expr_match_guard_list_exhaustive): without an
       `else` guard every enumerator of the enum must be marked by some guard;
     - exception names of catch clauses (front/typecheck.c except_check_id): a fixed table;
     - attribute names (expr_attr_check_type / record_find_param): the name must be a field.

   Names are numbers.  Definitions + their (small) theorems; no axioms. *)
From Coq Require Import NArith List Bool Arith Lia.
From NV Require Import Src.Syntax Src.Types Src.Typecheck.
Import ListNotations.

(* ---- match ------------------------------------------------------------------------------- *)
Inductive guard := GItem (k : nat) | GElse.     (* E::<k-th enumerator> -> e   |   else -> e *)

Definition is_else (g : guard) : bool := match g with GElse => true | _ => false end.
Definition guards (k : nat) (g : guard) : bool := match g with GItem j => Nat.eqb j k | GElse => false end.
Definition guard_valid (n : nat) (g : guard) : bool := match g with GItem j => Nat.ltb j n | GElse => true end.

(* enumerator marking: mark k iff some guard names it *)
Definition marked (arms : list guard) (k : nat) : bool := existsb (guards k) arms.

Definition match_check (n : nat) (arms : list guard) : tc_result :=
  if negb (forallb (guard_valid n) arms) then Error RUndefined      (* "cannot find enum E::x" *)
  else if existsb is_else arms then OK
  else if forallb (marked arms) (seq 0 n) then OK
  else Error RMatch.                                               (* "does not cover E::x enum" *)

Theorem match_check_sound : forall n arms,
  match_check n arms = OK ->
  existsb is_else arms = true \/ forall k, k < n -> In (GItem k) arms.
Proof.
  intros n arms H. unfold match_check in H.
  destruct (negb (forallb (guard_valid n) arms)); [discriminate|].
  destruct (existsb is_else arms) eqn:E; [now left|].
  destruct (forallb (marked arms) (seq 0 n)) eqn:F; [|discriminate].
  right. intros k Hk. rewrite forallb_forall in F.
  assert (Hin : In k (seq 0 n)) by (apply in_seq; lia).
  specialize (F k Hin). unfold marked in F. apply existsb_exists in F.
  destruct F as [g [Hg Hk']]. destruct g as [j|]; cbn in Hk'; [|discriminate].
  apply Nat.eqb_eq in Hk'. now subst.
Qed.

(* the mutation: a match without else from which every guard of enumerator k is gone *)
Theorem match_mutant_rejected : forall n arms k,
  forallb (guard_valid n) arms = true ->
  existsb is_else arms = false ->
  k < n ->
  (forall g, In g arms -> guards k g = false) ->
  match_check n arms = Error RMatch.
Proof.
  intros n arms k Hv He Hk Hno. unfold match_check. rewrite Hv, He. cbn.
  destruct (forallb (marked arms) (seq 0 n)) eqn:F; [|reflexivity].
  exfalso. rewrite forallb_forall in F.
  assert (Hin : In k (seq 0 n)) by (apply in_seq; lia).
  specialize (F k Hin). unfold marked in F. apply existsb_exists in F.
  destruct F as [g [Hg Hgk]]. rewrite (Hno g Hg) in Hgk. discriminate.
Qed.

(* removing the guards of k from an exhaustive else-less match is such a mutant *)
Definition drop_enumerator (k : nat) (arms : list guard) : list guard :=
  filter (fun g => negb (guards k g)) arms.

Theorem match_drop_rejected : forall n arms k,
  match_check n arms = OK -> existsb is_else arms = false -> k < n ->
  match_check n (drop_enumerator k arms) = Error RMatch.
Proof.
  intros n arms k H He Hk.
  assert (Hv : forallb (guard_valid n) arms = true).
  { unfold match_check in H. destruct (forallb (guard_valid n) arms); [reflexivity|discriminate]. }
  apply match_mutant_rejected with (k := k); auto.
  - unfold drop_enumerator. rewrite forallb_forall in *. intros g Hg.
    apply filter_In in Hg. now apply Hv.
  - unfold drop_enumerator. destruct (existsb is_else (filter _ arms)) eqn:E; [|reflexivity].
    apply existsb_exists in E. destruct E as [g [Hg Hg']]. apply filter_In in Hg.
    assert (existsb is_else arms = true) by (apply existsb_exists; exists g; tauto). congruence.
  - intros g Hg. unfold drop_enumerator in Hg. apply filter_In in Hg.
    destruct Hg as [_ Hg]. now apply negb_true_iff in Hg.
Qed.

(* ---- exception names ----------------------------------------------------------------------- *)
(* the table of except_check_id, in its order; a catch clause names an entry by its spelling, the
   surface form here is the index of the spelling in a dictionary whose first 9 entries are these *)
Definition exn_table : list exn :=
  [ExIndexOob; ExArrSize; ExDivision; ExInvalid; ExOverflow; ExUnderflow; ExInexact; ExNil; ExFfi].

Definition catch_name_check (k : nat) : tc_result :=
  match nth_error exn_table k with Some _ => OK | None => Error RException end.

Theorem unknown_exception_rejected : forall k, length exn_table <= k -> catch_name_check k = Error RException.
Proof.
  intros k H. unfold catch_name_check. now rewrite (proj2 (nth_error_None exn_table k) H).
Qed.

Theorem every_exception_named : forall e : exn, exists k, nth_error exn_table k = Some e.
Proof.
  destruct e; [exists 2|exists 1|exists 0|exists 3|exists 4|exists 5|exists 6|exists 7|exists 8]; reflexivity.
Qed.

(* ---- attribute names ------------------------------------------------------------------------- *)
Fixpoint find_attr (names : list ident) (a : ident) : option nat :=
  match names with
  | [] => None
  | x :: t => if N.eqb a x then Some 0 else option_map S (find_attr t a)
  end.

(* surface `e.a` on a record whose fields are named `names`: resolves to EField _ _ pos or fails *)
Definition attr_check (names : list ident) (a : ident) : res nat :=
  match find_attr names a with Some pos => Ok pos | None => Err RAttr end.

Theorem unknown_attribute_rejected : forall names a, ~ In a names -> attr_check names a = Err RAttr.
Proof.
  intros names a H. unfold attr_check.
  assert (E : find_attr names a = None).
  { induction names as [|x t IH]; [reflexivity|]. cbn.
    destruct (N.eqb a x) eqn:Ex.
    - apply N.eqb_eq in Ex. subst. exfalso. apply H. now left.
    - rewrite IH; [reflexivity|]. intro Hin. apply H. now right. }
  now rewrite E.
Qed.

Theorem attr_check_sound : forall names a pos, attr_check names a = Ok pos -> nth_error names pos = Some a.
Proof.
  intros names a. unfold attr_check. induction names as [|x t IH]; intros pos H; cbn in *; [discriminate|].
  destruct (N.eqb a x) eqn:Ex.
  - inversion H; subst. apply N.eqb_eq in Ex. now subst.
  - destruct (find_attr t a) as [p|] eqn:E; cbn in H; [|discriminate].
    inversion H; subst. cbn. now apply IH.
Qed.

(* a resolved position always passes the core model's own bound check, an unresolved one (any
   position >= the number of fields, which is what the harness prints as `.f17`) never does *)
Theorem field_beyond_record_rejected : forall R G a r fld t k fs,
  tc_expr R G a = Ok (t, k) -> t = CRec r -> find_rec r R = Some fs -> length fs <= fld ->
  tc_expr R G (EField a r fld) = Err RAttr.
Proof.
  intros R G a r fld t k fs Ha -> Hr Hlen. cbn. rewrite Ha. cbn. unfold check_field. cbn.
  rewrite N.eqb_refl, Hr. now rewrite (proj2 (nth_error_None fs fld) Hlen).
Qed.
