(* Properties_C02c.v — C02 (compile correctness), stage 4: NESTED FUNCTIONS AND CLOSURES.

   State of stage 4.
   MODEL + TIE (complete): Src/Compile4.v and VM/ValueVM4.v are tied at level 4 of checks/parts/compiletie.py on
   generated programs of `prog_in_F4` (F5 + closures).
   PROOF: compile_program_correct_F4 (below) — whole programs with nested functions and closures, for the
   fragment `Compile4.prog_in_P 5 p || Compile4.prog_in_P 6 p`; compile_program_correct_F4_partial is level 5
   alone.  Both levels = F5 (F2 + calls of top-level functions by name, self tail calls, catch clauses) + CLOSURES:
     runs of sibling function items (mutually visible, the ALLOC / REWRITE knot), function expressions, captured
     parameters / let / var / nested functions at any depth (ID_GLOBAL), function values bound, passed, returned
     and called after the definer returned, calls whose callee is any expression that yields a function value,
     nested functions that call themselves (also in tail position) or each other; faults inside closures
     (RETHROW chain); self calls in TAIL position (top-level and nested: frame and vector reused); CATCH CLAUSES
     (CLEAR_STACK keeps gp; the clause blocks see the parameters and the captured names).
   Level 5: assignment to any name in scope (also through a capture), but no function object is used BY COPY.
   Level 6: BY-VALUE COPIES of function objects — the name of a top-level function as a value (GLOBAL_VEC 0;
     ID_FUNC_ADDR f) and the name of the running named nested function as a value (COPYGLOB; ID_FUNC_ADDR f):
     bound, passed, stored in vectors, returned, called; the machine makes a new function object where the
     evaluator yields the one cell, so the value relation is CompileCorrect4Rel.vrel: "a is the image of c, or a
     copy of the function c holds" (ghost list `mc` of the morphism, MS clause ms_cp; a call through a copy:
     vrel_fun) — and assignment ONLY to names of `Compile4.int_vars`: names bound by `var x = <int_shaped e>`
     somewhere in the program and nowhere bound otherwise (not by let, not as a parameter, not as a function:
     items_F_f / func_in_P at level 6), directly or through a capture (ghost list `mi` of int cells of the morphism,
     MS clause ms_int, the last clause of env_match and of fun_rel's vector relation; Example ex10).  The two
     levels cannot simply be merged into "assignment to any name": Src/Eval.v is untyped, and with copies the
     morphism is no longer injective on function cells — `let g = f; g = x + 1; f + 1` (Example exbad below, in
     the tie's prog_in_F4, rejected by never's typechecker) evaluates to x + 2 in Src/Eval.v and is stuck on
     the machine.  So the side conditions cannot be reduced to naming ones: once copies are in the fragment a
     typing-like restriction on assignment targets is needed (level 5 keeps assignment to any name in scope —
     e.g. to `var` parameters — without copies).
   By one induction on the evaluator's fuel over ValueVM4 / Compile4 (Src/CompileCorrect4.v: expr / items /
   while / do-while specs for every function context, body_spec quantified over (kind, fd, closure environment,
   vector) with the relation of Src/CompileCorrect4Rel.v: env_match with captured slots, fun_rel, the ghost lists
   of vectors, recorded closures and copies) and the layout of `all_funcs` + the entry stub
   (Src/CompileCorrect4Prog.v).
   Side conditions of both levels:
     (a) a function WITH catch clauses has no self call in tail position (as in F5);
     (b) the right-hand side of an assignment must be `int_shaped` (Src/CompileCorrect4Shape.v proves that such an
         expression yields an int cell: no typing hypothesis is needed; `x = y + 0` for `x = y`);
     (c) bound names: a block's function run does not shadow a name in scope (run_ok), nested functions are not
         named like top-level functions; all function names pairwise different (prog_in_P);
     (d) at level 5 only: a function nested in a NAMED nested function f does not mention f.  At level 6 it may
         (the repaired emitter's shape: the closure maker captures f by COPYGLOB; ID_FUNC_ADDR f — a copy;
         Compile4.capture, the level-4 tie, CompileCorrect4Base.capture_run_s / closure_run_s / sibling_run_s,
         Example ex11).
   The lemmas of the first proof round (machine side, C08 facts, simulation cases over MS4) stay below.
   No axioms. *)
From Coq Require Import ZArith List Bool Lia.
From NV Require Import Gen.Opcodes Verifier.Effect Src.Syntax Src.Eval Src.EvalLemmas
  VM.ValueVM4 Src.Compile4 Src.CompileCorrect4Base Src.CompileCorrect4Sim.
From NV Require Src.CompileCorrect4Rel Src.CompileCorrect4Shape Src.CompileCorrect4 Src.CompileCorrect4Prog.
Import ListNotations.
Local Open Scope Z_scope.

(* ==== whole programs with closures ================================================================== *)

(* ValueVM4 on the module image of Compile4 — from the entry stub to HALT / UNHANDLED_EXCEPTION — returns /
   prints / raises what the evaluator says, for programs of the fragment prog_in_P 5 (see the header: closures,
   tail self calls, catch clauses, assignment; no by-value copies of function objects) *)
Theorem compile_program_correct_F4_partial : forall fuel p args,
  prog_in_P 5 p = true ->
  match run_program fuel p args with
  | OResult v printed =>
      CompileCorrect4Shape.is_intv v = true ->
      exists k z, run_vm p k args = VRet z printed /\ CompileCorrect4Rel.val_rel v z
  | OUnhandled ex printed => exists k, run_vm p k args = VExc ex printed
  | OFuel | OStuck => True
  end.
Proof. exact (fun fuel p args H => CompileCorrect4Prog.compile_program_correct_P p args 5 H fuel). Qed.
Print Assumptions compile_program_correct_F4_partial.

(* the same with function objects used BY COPY: at level 6 the name of a top-level function, and the name of the
   running named nested function, may be used as a value (GLOBAL_VEC 0 / COPYGLOB; ID_FUNC_ADDR f make a new
   function object: the value relation is "the image of the cell, or a copy of the function the cell holds",
   CompileCorrect4Rel.vrel) — stored, passed, returned, called.  At level 6 only names bound by
   `var x = <int_shaped>` (Compile4.int_vars) are assigned to: Src/Eval.v is untyped, an assignment through an
   alias of a function's cell (let g = f; g = 5) goes on in the evaluator and is stuck on the machine, so with
   copies in the fragment a static restriction on assignment targets is needed; level 5 is the fragment of
   compile_program_correct_F4_partial (assignment to any name in scope, no copies) *)
Theorem compile_program_correct_F4 : forall fuel p args,
  prog_in_P 5 p || prog_in_P 6 p = true ->
  match run_program fuel p args with
  | OResult v printed =>
      CompileCorrect4Shape.is_intv v = true ->
      exists k z, run_vm p k args = VRet z printed /\ CompileCorrect4Rel.val_rel v z
  | OUnhandled ex printed => exists k, run_vm p k args = VExc ex printed
  | OFuel | OStuck => True
  end.
Proof. exact (fun fuel p args H => CompileCorrect4Prog.compile_program_correct_P56 p args H fuel). Qed.
Print Assumptions compile_program_correct_F4.

(* the evaluator-only fact behind side condition (c): an int_shaped expression yields an int / bool cell *)
Theorem int_shaped_cell : forall genv k e env st c st' v, int_shaped e = true ->
  eval genv k env st e = (ROk c, st') -> get_cell st' c = Some v -> CompileCorrect4Shape.is_intv v = true.
Proof. exact CompileCorrect4Shape.int_shaped_cell. Qed.
Print Assumptions int_shaped_cell.

(* ==== machine side =================================================================================== *)

(* func_emit_native: ONE new vector holding the captured ADDRESSES (no copies), ONE new function object *)
Theorem closure_run : forall X prog FT TL fc ce stk gl h o fr L g addrs pc k,
  gl = [] \/ nth_error h (r_gp fr) = Some (HVec gl) ->
  Forall2 (resolves fc L ce stk gl) (fvs_fd TL g) addrs ->
  fidx FT (fd_name g) = Z.of_nat k ->
  code_at prog pc (closure_code FT TL fc L ce g) ->
  star X prog (mkst pc stk h o fr)
       (mkst (pc + length (closure_code FT TL fc L ce g)) (S (length h) :: stk)
             (h ++ [HVec addrs; HFun (length h) (nth k (x_ftab X) 0%nat)]) o fr).
Proof. exact CompileCorrect4Base.closure_run. Qed.
Print Assumptions closure_run.

(* seq_func_emit, the knot: ALLOC k; (closure; REWRITE j)*.  Slot i (address length h + i) ends up holding
   function i with a vector of the addresses its free variables resolve to — a sibling's name resolves to the
   sibling's SLOT CELL (Compile4.func_cenv), also when that sibling is filled later — and the old heap is kept *)
Theorem sibling_run : forall X prog FT TL fc ce gl stk h o fr L fds addrss ks pc,
  gl = [] \/ nth_error h (r_gp fr) = Some (HVec gl) ->
  let k := length fds in
  let Sk := rev (seq (length h) k) ++ stk in
  Forall2 (fun fd addrs => Forall2 (resolves fc L ce Sk gl) (fvs_fd TL fd) addrs) fds addrss ->
  Forall2 (fun fd kk => fidx FT (fd_name fd) = Z.of_nat kk) fds ks ->
  code_at prog pc (ins BYTECODE_ALLOC (Z.of_nat k) 0 :: run_code_f (closure_code FT TL fc L ce) fds k) ->
  exists H',
    star X prog (mkst pc stk h o fr)
         (mkst (pc + S (length (run_code_f (closure_code FT TL fc L ce) fds k))) Sk H' o fr) /\
    (forall a, (a < length h)%nat -> nth_error H' a = nth_error h a) /\
    filled X H' (length h + k) (length h) addrss ks.
Proof. exact CompileCorrect4Base.sibling_run. Qed.
Print Assumptions sibling_run.

(* the same for the repaired emitter: a closure made in the code of the NAMED nested function fc_self fc may capture
   that function itself — COPYGLOB; ID_FUNC_ADDR f makes one new function object (a copy, with the running
   vector) at the heap's end before the closure's vector; `resolves_s … hl` gives the copy's address hl *)
Theorem closure_run_self : forall X prog FT TL fc ce stk gl h o fr L g addrs pc k ks,
  NoDup (fvs_fd TL g) ->
  (forall y, self_is (fc_self fc) y = true -> clookup y ce = None -> fidx FT y = Z.of_nat ks) ->
  gl = [] \/ nth_error h (r_gp fr) = Some (HVec gl) ->
  Forall2 (resolves_s fc L ce stk gl (length h)) (fvs_fd TL g) addrs ->
  fidx FT (fd_name g) = Z.of_nat k ->
  code_at prog pc (closure_code FT TL fc L ce g) ->
  let cps := if selfcap fc ce (fvs_fd TL g) then [HFun (r_gp fr) (nth ks (x_ftab X) 0%nat)] else [] in
  star X prog (mkst pc stk h o fr)
       (mkst (pc + length (closure_code FT TL fc L ce g)) (S (length h + length cps) :: stk)
             (h ++ cps ++ [HVec addrs; HFun (length h + length cps) (nth k (x_ftab X) 0%nat)]) o fr).
Proof. exact CompileCorrect4Base.closure_run_s. Qed.
Print Assumptions closure_run_self.

Theorem sibling_run_self : forall X prog FT TL fc ce gl stk h o fr L fds addrss ks pc kself,
  (forall y, self_is (fc_self fc) y = true -> clookup y ce = None -> fidx FT y = Z.of_nat kself) ->
  (forall fd, In fd fds -> NoDup (fvs_fd TL fd)) ->
  gl = [] \/ nth_error h (r_gp fr) = Some (HVec gl) ->
  let k := length fds in
  let Sk := rev (seq (length h) k) ++ stk in
  rr TL fc L ce Sk gl (length h + k) fds addrss ->
  Forall2 (fun fd kk => fidx FT (fd_name fd) = Z.of_nat kk) fds ks ->
  code_at prog pc (ins BYTECODE_ALLOC (Z.of_nat k) 0 :: run_code_f (closure_code FT TL fc L ce) fds k) ->
  exists H',
    star X prog (mkst pc stk h o fr)
         (mkst (pc + S (length (run_code_f (closure_code FT TL fc L ce) fds k))) Sk H' o fr) /\
    (forall a, (a < length h)%nat -> nth_error H' a = nth_error h a) /\
    filled_s X TL fc H' (length h + k) (length h) (length h + k) ce (r_gp fr) kself fds addrss ks.
Proof. exact CompileCorrect4Base.sibling_run_s. Qed.
Print Assumptions sibling_run_self.

(* the code of a block that starts with a run of function items is that ALLOC … sequence *)
Theorem compile_items_run : forall cx cxl cf L ce fd t,
  compile_items_f cx cxl cf L ce 0%nat (IFunc fd :: t) =
  let fds := fd :: run_funcs t in
  let k := length fds in
  let ce' := func_cenv fds (L + 1) ce in
  let L' := L + Z.of_nat k in
  ins BYTECODE_ALLOC (Z.of_nat k) 0 :: run_code_f (cf L' ce') fds k ++
  compile_items_f cx cxl cf L' ce' 0%nat (run_rest t).
Proof. exact CompileCorrect4Base.compile_items_run. Qed.
Print Assumptions compile_items_run.

(* property C08 on the machine: (1) captured cells outlive the activation that made them *)
Theorem C08_cells_outlive_activation : forall X prog s s', step X prog s = SNext s' ->
  (length (v_heap s) <= length (v_heap s'))%nat /\
  (forall a c, nth_error (v_heap s) a = Some c ->
     nth_error (v_heap s') a = Some c \/
     exists i, nth_error prog (v_ip s) = Some i /\
               (r_op i = BYTECODE_OP_ASS_INT \/ r_op i = BYTECODE_REWRITE)) /\
  (forall i, nth_error prog (v_ip s) = Some i ->
     r_op i = BYTECODE_RET \/ r_op i = BYTECODE_RETHROW \/ r_op i = BYTECODE_SLIDE \/
     r_op i = BYTECODE_CLEAR_STACK \/ r_op i = BYTECODE_CALL \/ r_op i = BYTECODE_MARK ->
     v_heap s' = v_heap s).
Proof. exact CompileCorrect4Base.C08_cells_outlive_activation. Qed.
Print Assumptions C08_cells_outlive_activation.

(* (2) distinct activations have distinct environments: a closure's vector is allocated at `length heap`
   (closure_run), which after any run is a new address *)
Theorem C08_fresh_environment : forall X prog s1 s2, star X prog s1 s2 ->
  forall v1, (v1 < length (v_heap s1))%nat ->
  v1 <> length (v_heap s2) /\ nth_error (v_heap s2) (length (v_heap s2)) = None.
Proof. exact CompileCorrect4Base.C08_fresh_environment. Qed.
Print Assumptions C08_fresh_environment.

(* (3) a write through a captured variable is visible to all holders *)
Theorem C08_write_visible_to_holders : forall X prog ip ip2 ar al rest stk2 h o o2 fr fr2 z l2 j,
  nth_error prog ip = Some (ins0 BYTECODE_OP_ASS_INT) ->
  hint h ar = Some z -> (al < length h)%nat ->
  nth_error h (r_gp fr2) = Some (HVec l2) -> nth_error l2 j = Some al -> r_gp fr2 <> al ->
  nth_error prog ip2 = Some (ins BYTECODE_ID_GLOBAL (Z.of_nat j) 0) ->
  let h' := list_upd h al (HInt z) in
  step X prog (mkst ip (ar :: al :: rest) h o fr) = SNext (mkst (S ip) (al :: rest) h' o fr) /\
  step X prog (mkst ip2 stk2 h' o2 fr2) = SNext (mkst (S ip2) (al :: stk2) h' o2 fr2) /\
  hint h' al = Some z.
Proof. exact CompileCorrect4Base.C08_write_visible_to_holders. Qed.
Print Assumptions C08_write_visible_to_holders.

(* ==== simulation cases (evaluator against machine) ===================================================== *)

(* a function expression: the evaluator's new cell CFun g e and the machine's new function object are
   related (the vector holds the images of the cells e binds g's free variables to) *)
Theorem lambda_creation_sim : forall X FT TL genv prog fc m e ce L stk gl sc g kk k st h o fr pc,
  MS4 X FT TL m st h -> env_rel fc m e ce L stk gl sc ->
  (forall y, In y (fvs_fd TL g) -> In y sc) ->
  nth_error h (r_gp fr) = Some (HVec gl) ->
  fidx FT (fd_name g) = Z.of_nat kk ->
  code_at prog pc (closure_code FT TL fc L ce g) ->
  exists c st' a h' m',
    eval genv (S k) e st (ELambda g) = (ROk c, st') /\
    star X prog (mkst pc stk h o fr)
                (mkst (pc + length (closure_code FT TL fc L ce g)) (a :: stk) h' o fr) /\
    maps m' c a /\ MS4 X FT TL m' st' h' /\ mext m m' /\ hpre h h' /\
    nth_error (cells st') c = Some (CFun g e) /\ nth_error h a = None.
Proof. exact CompileCorrect4Sim.lambda_creation_sim. Qed.
Print Assumptions lambda_creation_sim.

(* a run of sibling functions: evaluator state run_state / environment run_env (every function of the run
   closed over the environment that binds all of them) against ALLOC k; (closure; REWRITE)*: the slot cells
   are the images of the new cells, the states are related again, the extended environment is related at the
   level after the run *)
Theorem sibling_run_sim : forall X FT TL prog fc m e ce L stk gl sc fds ks st h o fr pc,
  MS4 X FT TL m st h -> env_rel fc m e ce L stk gl sc ->
  NoDup (map fd_name fds) -> (forall f, In f fds -> ~ In (fd_name f) sc) ->
  (forall f y, In f fds -> In y (fvs_fd TL f) -> In y (map fd_name fds ++ sc)) ->
  nth_error h (r_gp fr) = Some (HVec gl) ->
  Forall2 (fun fd kk => fidx FT (fd_name fd) = Z.of_nat kk) fds ks ->
  let k := length fds in
  let L' := L + Z.of_nat k in
  let ce' := func_cenv fds (L + 1) ce in
  let Sk := rev (seq (length h) k) ++ stk in
  let e' := run_env fds e st in
  let st' := run_state fds e st in
  let m' := m ++ map Some (seq (length h) k) in
  code_at prog pc (ins BYTECODE_ALLOC (Z.of_nat k) 0 :: run_code_f (closure_code FT TL fc L' ce') fds k) ->
  exists h',
    star X prog (mkst pc stk h o fr)
      (mkst (pc + S (length (run_code_f (closure_code FT TL fc L' ce') fds k))) Sk h' o fr) /\
    MS4 X FT TL m' st' h' /\ env_rel fc m' e' ce' L' Sk gl (map fd_name fds ++ sc) /\
    mext m m' /\ hpre h h' /\
    (forall j f, nth_error fds j = Some f ->
       maps m' (length (cells st) + j) (length h + j) /\
       nth_error (cells st') (length (cells st) + j) = Some (CFun f e')).
Proof. exact CompileCorrect4Sim.sibling_run_sim. Qed.
Print Assumptions sibling_run_sim.

(* entering a closure: parameters and captured names of the callee are related at level 0 under the
   function object's vector — for the evaluator's environment penv ++ cenv *)
Theorem closure_entry_env : forall X FT TL kd fd cenv m h vec addr cs penv astk,
  fun_rel X FT TL m h fd cenv vec addr ->
  bind_params (fd_params fd) cs = Some penv -> Forall2 (maps m) cs astk ->
  exists gl, nth_error h vec = Some (HVec gl) /\
    env_rel (ctx_of TL kd fd) m (penv ++ cenv) (param_env (fd_params fd) 0) 0 astk gl
            (param_names (fd_params fd) ++ fvs_fd TL fd).
Proof. exact CompileCorrect4Sim.closure_entry_env. Qed.
Print Assumptions closure_entry_env.

(* reading a parameter / let / nested function's slot / captured name *)
Theorem var_read_sim : forall X FT TL genv prog fc m e ce L stk gl sc x k st h o fr pc,
  env_rel fc m e ce L stk gl sc -> In x sc ->
  nth_error h (r_gp fr) = Some (HVec gl) ->
  (clookup x ce <> None \/ (self_is (fc_self fc) x = false /\ mem_id x TL = false)) ->
  code_at prog pc (var_code FT TL fc L ce x) ->
  exists c a, eval genv (S k) e st (EVar x) = (ROk c, st) /\ maps m c a /\
    star X prog (mkst pc stk h o fr) (mkst (pc + length (var_code FT TL fc L ce x)) (a :: stk) h o fr).
Proof. exact CompileCorrect4Sim.var_read_sim. Qed.
Print Assumptions var_read_sim.

(* ==== a program of F4 ================================================================================
     func mk(a : int) -> (int) -> int
     { var c = a * 2;
       func inc(d : int) -> int { c = c + d + a };           (captures c and a)
       func get(d : int) -> int { inc(0) + d };              (captures its sibling inc)
       let func (z : int) -> int { (z > 0) ? inc(z) : get(z) } }     (captures both; returned)
     func main(x : int) -> int
     { let f = mk(x); let g = mk(x + 1); print(f(1)); print(g(2)); print(f(3)); f(-1) + 0 } *)
Definition inc4 : fdef := FDef 4%N [(5%N, false, TInt)] TInt
  [IExpr (EAssign (EVar 3%N) (EBin Add (EBin Add (EVar 3%N) (EVar 5%N)) (EVar 2%N)))] [] None.
Definition get4 : fdef := FDef 6%N [(7%N, false, TInt)] TInt
  [IExpr (EBin Add (ECall (EVar 4%N) [EInt 0]) (EVar 7%N))] [] None.
Definition lam4 : fdef := FDef 8%N [(9%N, false, TInt)] TInt
  [IExpr (ECond (EBin Gt (EVar 9%N) (EInt 0)) (ECall (EVar 4%N) [EVar 9%N]) (ECall (EVar 6%N) [EVar 9%N]))] [] None.
Definition mk4 : fdef := FDef 1%N [(2%N, false, TInt)] (TFun [TInt] TInt)
  [IVar 3%N (EBin Mul (EVar 2%N) (EInt 2)); IFunc inc4; IFunc get4; IExpr (ELambda lam4)] [] None.
Definition main4 : fdef := FDef 0%N [(10%N, false, TInt)] TInt
  [ILet 11%N (ECall (EVar 1%N) [EVar 10%N]);
   ILet 12%N (ECall (EVar 1%N) [EBin Add (EVar 10%N) (EInt 1)]);
   IExpr (EPrint (ECall (EVar 11%N) [EInt 1]));
   IExpr (EPrint (ECall (EVar 12%N) [EInt 2]));
   IExpr (EPrint (ECall (EVar 11%N) [EInt 3]));
   IExpr (EBin Add (ECall (EVar 11%N) [EInt (-1)]) (EInt 0))] [] None.
Definition ex4 : program := {| p_recs := []; p_funcs := [mk4; main4]; p_main := 0%N |}.

(* in the fragment; the bodies come in the order mk, main, inc, get, the function expression (breadth
   first); the free-variable lists are those of front/gencode.c; the image has 470 instructions, like the
   real module *)
Example ex4_in_F4 :
  prog_in_F4 ex4 = true /\ map (fun kf => fd_name (snd kf)) (all_funcs ex4) = [1; 0; 4; 6; 8]%N /\
  fvs_fd (tnames ex4) inc4 = [3; 2]%N /\ fvs_fd (tnames ex4) get4 = [4%N] /\
  fvs_fd (tnames ex4) lam4 = [4; 6]%N /\ length (compile_program ex4) = 470%nat.
Proof. vm_compute. repeat split; reflexivity. Qed.

(* the program is in the fragment of compile_program_correct_F4_partial *)
Example ex4_in_P : prog_in_P 5 ex4 = true.
Proof. vm_compute. reflexivity. Qed.

(* on 5: f = mk(5) has c = 10, g = mk(6) its OWN c = 12 (distinct activations, distinct cells);
   f(1) adds 1 + 5 -> 16, g(2) adds 2 + 6 -> 20, f(3) -> 24 (f's c outlived mk's activation and is not g's);
   f(-1) goes through get, which calls the sibling inc: the same c -> 29, minus 1.  The real VM prints
   16 20 24 and returns 28; so do the machine model and the evaluator *)
Example ex4_runs :
  run_vm ex4 3000 [5] = VRet 28 [16; 20; 24] /\
  run_program 300 ex4 [5] = OResult (CInt 28) [16; 20; 24].
Proof. vm_compute. split; reflexivity. Qed.

(* a nested function that calls itself and reads a captured let:
     func main(x : int) -> int
     { let base = x * 2; func fact(n : int) -> int { (n <= 0) ? base : (n * fact(n - 1)) }; fact(3) + 0 } *)
Definition fact6 : fdef := FDef 3%N [(4%N, false, TInt)] TInt
  [IExpr (ECond (EBin Le (EVar 4%N) (EInt 0)) (EVar 2%N)
                (EBin Mul (EVar 4%N) (ECall (EVar 3%N) [EBin Sub (EVar 4%N) (EInt 1)])))] [] None.
Definition main6 : fdef := FDef 0%N [(1%N, false, TInt)] TInt
  [ILet 2%N (EBin Mul (EVar 1%N) (EInt 2)); IFunc fact6;
   IExpr (EBin Add (ECall (EVar 3%N) [EInt 3]) (EInt 0))] [] None.
Definition ex6 : program := {| p_recs := []; p_funcs := [main6]; p_main := 0%N |}.

Example ex6_in_P : prog_in_P 5 ex6 = true.
Proof. vm_compute. reflexivity. Qed.

Example ex6_runs :
  run_vm ex6 3000 [1] = VRet 12 [] /\ run_program 300 ex6 [1] = OResult (CInt 12) [].
Proof. vm_compute. split; reflexivity. Qed.

(* the theorem applied: for every fuel on which the evaluator answers, the machine answers the same *)
Example ex6_correct : forall fuel z printed, run_program fuel ex6 [1] = OResult (CInt z) printed ->
  exists k, run_vm ex6 k [1] = VRet z printed.
Proof.
  intros fuel z printed H. pose proof (compile_program_correct_F4_partial fuel ex6 [1] ex6_in_P) as T.
  rewrite H in T. destruct (T eq_refl) as (k & z' & Hk & Hv). simpl in Hv. subst z'. exists k. exact Hk.
Qed.

(* catch clauses in a closure that captures: 
     func mk(a : int) -> (int) -> int
     { func dv(b : int) -> int { (a * 2) / b } catch (division_by_zero) { print(a); a + 100 }; dv }
     func main(x : int) -> int { let f = mk(x); f(2) + f(0) } *)
Definition dv7 : fdef := FDef 3%N [(4%N, false, TInt)] TInt
  [IExpr (EBin Div (EBin Mul (EVar 2%N) (EInt 2)) (EVar 4%N))]
  [(ExDivision, [IExpr (EPrint (EVar 2%N)); IExpr (EBin Add (EVar 2%N) (EInt 100))])] None.
Definition mk7 : fdef := FDef 1%N [(2%N, false, TInt)] (TFun [TInt] TInt)
  [IFunc dv7; IExpr (EVar 3%N)] [] None.
Definition main7 : fdef := FDef 0%N [(5%N, false, TInt)] TInt
  [ILet 6%N (ECall (EVar 1%N) [EVar 5%N]);
   IExpr (EBin Add (ECall (EVar 6%N) [EInt 2]) (ECall (EVar 6%N) [EInt 0]))] [] None.
Definition ex7 : program := {| p_recs := []; p_funcs := [mk7; main7]; p_main := 0%N |}.

Example ex7_in_P : prog_in_P 5 ex7 = true.
Proof. vm_compute. reflexivity. Qed.

(* on 7: f(2) = 14 / 2 = 7; f(0) faults inside the closure, its clause prints the captured a and gives 107 *)
Example ex7_runs :
  run_vm ex7 3000 [7] = VRet 114 [7] /\ run_program 300 ex7 [7] = OResult (CInt 114) [7].
Proof. vm_compute. split; reflexivity. Qed.

(* function objects by copy (level 6):
     func inc(x : int) -> int { x + 1 }
     func twice(f(int) -> int, x : int) -> int { f(f(x)) }
     func main(x : int) -> int
     { let g = inc; func cnt(n : int) -> int { let me = cnt; (n <= 0) ? 0 : me(n - 1) + 1 };
       twice(g, x) + twice(inc, cnt(3)) }
   the real VM returns 12 on 5 *)
Definition inc9 : fdef := FDef 1%N [(2%N, false, TInt)] TInt [IExpr (EBin Add (EVar 2%N) (EInt 1))] [] None.
Definition twice9 : fdef := FDef 3%N [(4%N, false, TFun [TInt] TInt); (5%N, false, TInt)] TInt
  [IExpr (ECall (EVar 4%N) [ECall (EVar 4%N) [EVar 5%N]])] [] None.
Definition cnt9 : fdef := FDef 8%N [(9%N, false, TInt)] TInt
  [ILet 10%N (EVar 8%N);
   IExpr (ECond (EBin Le (EVar 9%N) (EInt 0)) (EInt 0)
                (EBin Add (ECall (EVar 10%N) [EBin Sub (EVar 9%N) (EInt 1)]) (EInt 1)))] [] None.
Definition main9 : fdef := FDef 0%N [(6%N, false, TInt)] TInt
  [ILet 7%N (EVar 1%N); IFunc cnt9;
   IExpr (EBin Add (ECall (EVar 3%N) [EVar 7%N; EVar 6%N])
                   (ECall (EVar 3%N) [EVar 1%N; ECall (EVar 8%N) [EInt 3]]))] [] None.
Definition ex9 : program := {| p_recs := []; p_funcs := [inc9; twice9; main9]; p_main := 0%N |}.

Example ex9_in_P : prog_in_P 6 ex9 = true /\ prog_in_P 5 ex9 = false /\ prog_in_F4 ex9 = true.
Proof. vm_compute. repeat split; reflexivity. Qed.

Example ex9_runs :
  run_vm ex9 3000 [5] = VRet 12 [] /\ run_program 300 ex9 [5] = OResult (CInt 12) [].
Proof. vm_compute. split; reflexivity. Qed.

(* the repaired emitter's shape (level 6): a helper nested in the NAMED nested function f mentions f — the closure
   of h captures f by COPYGLOB; ID_FUNC_ADDR f:
     func main(x : int) -> int
     { func f(n : int, a : int) -> int
       { func h(m : int) -> int { f(m - 1, a) + n }; (n <= 0) ? a : (n + h(n)) };
       f(x, 1) + 0 }
   the real VM (repaired /repo) returns 13 on 3 *)
Definition h11 : fdef := FDef 5%N [(6%N, false, TInt)] TInt
  [IExpr (EBin Add (ECall (EVar 2%N) [EBin Sub (EVar 6%N) (EInt 1); EVar 4%N]) (EVar 3%N))] [] None.
Definition f11 : fdef := FDef 2%N [(3%N, false, TInt); (4%N, false, TInt)] TInt
  [IFunc h11;
   IExpr (ECond (EBin Le (EVar 3%N) (EInt 0)) (EVar 4%N) (EBin Add (EVar 3%N) (ECall (EVar 5%N) [EVar 3%N])))] [] None.
Definition main11 : fdef := FDef 0%N [(1%N, false, TInt)] TInt
  [IFunc f11; IExpr (EBin Add (ECall (EVar 2%N) [EVar 1%N; EInt 1]) (EInt 0))] [] None.
Definition ex11 : program := {| p_recs := []; p_funcs := [main11]; p_main := 0%N |}.

Example ex11_in_P : prog_in_P 6 ex11 = true /\ prog_in_P 5 ex11 = false /\ prog_in_F4 ex11 = true /\
  fvs_fd (tnames ex11) h11 = [2; 4; 3]%N.
Proof. vm_compute. repeat split; reflexivity. Qed.

Example ex11_runs :
  run_vm ex11 3000 [3] = VRet 13 [] /\ run_program 300 ex11 [3] = OResult (CInt 13) [].
Proof. vm_compute. split; reflexivity. Qed.

(* why level 6 restricts the assigned names: with copies AND assignment to any name the untyped evaluator and the
   machine part —
     func f(x : int) -> int { x + 0 }
     func main(x : int) -> int { let g = f; g = x + 1; f + 1 }
   (never's typechecker rejects `g = x + 1`; Src/Eval.v does not: g and f are the same cell there) *)
Definition fbad : fdef := FDef 1%N [(2%N, false, TInt)] TInt [IExpr (EBin Add (EVar 2%N) (EInt 0))] [] None.
Definition mainbad : fdef := FDef 0%N [(3%N, false, TInt)] TInt
  [ILet 4%N (EVar 1%N); IExpr (EAssign (EVar 4%N) (EBin Add (EVar 3%N) (EInt 1)));
   IExpr (EBin Add (EVar 1%N) (EInt 1))] [] None.
Definition exbad : program := {| p_recs := []; p_funcs := [fbad; mainbad]; p_main := 0%N |}.

Example exbad_parts :
  run_program 300 exbad [5] = OResult (CInt 7) [] /\ run_vm exbad 3000 [5] = VStuck /\
  prog_in_P 5 exbad = false /\ prog_in_P 6 exbad = false.
Proof. vm_compute. repeat split; reflexivity. Qed.

(* a nested function with a self call in TAIL position that assigns a captured var:
     func main(x : int) -> int
     { var acc = x - x; func loop(n : int) -> int { (n <= 0) ? acc : { acc = acc + n; loop(n - 1) } }; loop(x) + 0 } *)
Definition loop8 : fdef := FDef 3%N [(4%N, false, TInt)] TInt
  [IExpr (ECond (EBin Le (EVar 4%N) (EInt 0)) (EVar 2%N)
                (EBlock [IExpr (EAssign (EVar 2%N) (EBin Add (EVar 2%N) (EVar 4%N)));
                         IExpr (ECall (EVar 3%N) [EBin Sub (EVar 4%N) (EInt 1)])]))] [] None.
Definition main8 : fdef := FDef 0%N [(1%N, false, TInt)] TInt
  [IVar 2%N (EBin Sub (EVar 1%N) (EVar 1%N)); IFunc loop8;
   IExpr (EBin Add (ECall (EVar 3%N) [EVar 1%N]) (EInt 0))] [] None.
Definition ex8 : program := {| p_recs := []; p_funcs := [main8]; p_main := 0%N |}.

Example ex8_in_P : prog_in_P 5 ex8 = true /\ no_self_tail_fd loop8 = false /\ prog_in_P 6 ex8 = true.
Proof. vm_compute. repeat split; reflexivity. Qed.

(* copies AND assignment (level 6): a counter closure over `var c`, bumped through a copy of the top-level function
   `add` passed as a value:
     func add(a : int, b : int) -> int { a + b }
     func main(x : int) -> int
     { var c = x + 0; let op = add;
       func bump(d : int) -> int { c = op(c, d) + 0; c + 0 };
       let f = bump; bump(1) + f(2) + c } *)
Definition add10 : fdef := FDef 1%N [(2%N, false, TInt); (3%N, false, TInt)] TInt
  [IExpr (EBin Add (EVar 2%N) (EVar 3%N))] [] None.
Definition bump10 : fdef := FDef 7%N [(8%N, false, TInt)] TInt
  [IExpr (EAssign (EVar 5%N) (EBin Add (ECall (EVar 6%N) [EVar 5%N; EVar 8%N]) (EInt 0)));
   IExpr (EBin Add (EVar 5%N) (EInt 0))] [] None.
Definition main10 : fdef := FDef 0%N [(4%N, false, TInt)] TInt
  [IVar 5%N (EBin Add (EVar 4%N) (EInt 0)); ILet 6%N (EVar 1%N); IFunc bump10; ILet 9%N (EVar 7%N);
   IExpr (EBin Add (EBin Add (ECall (EVar 7%N) [EInt 1]) (ECall (EVar 9%N) [EInt 2])) (EVar 5%N))] [] None.
Definition ex10 : program := {| p_recs := []; p_funcs := [add10; main10]; p_main := 0%N |}.

Example ex10_in_P : prog_in_P 6 ex10 = true /\ prog_in_P 5 ex10 = false /\ int_vars (all_funcs ex10) = [5%N].
Proof. vm_compute. repeat split; reflexivity. Qed.

(* on 10: c = 11 after bump(1), 13 after f(2): 11 + 13 + 13 *)
Example ex10_runs :
  run_vm ex10 3000 [10] = VRet 37 [] /\ run_program 300 ex10 [10] = OResult (CInt 37) [].
Proof. vm_compute. split; reflexivity. Qed.

Example ex8_runs :
  run_vm ex8 3000 [10] = VRet 55 [] /\ run_program 300 ex8 [10] = OResult (CInt 55) [].
Proof. vm_compute. split; reflexivity. Qed.
