(* C12 — indexing is bounds-checked and exact.
   "Indexing an n-dimensional array with in-range indices reaches the row-major element and an
    out-of-range or negative index in any dimension raises index_out_of_bounds instead of
    touching another element or foreign memory.  Ranges (ascending or descending), slices of
    arrays, slices of slices and string slices select exactly the positions their bounds
    denote, slices alias the underlying array, and element-wise and matrix arithmetic require
    conforming shapes or raise wrong_array_size."

   Only statements here; every proof is `exact <lemma>` into Index/*Proofs.v.  The models
   (Index/ArrIndex.v, SliceRange.v, StrIndex.v, Shapes.v) mirror back/object.c and
   back/vmexec.c statement by statement and are tied to the tree by checks/c12.py.
   No `…_refuted` theorem (an input on which the mirrored code does NOT have the property) is
   left.  `…_regression` theorems state the property on the witnesses of a former `_refuted`
   theorem whose finding has been fixed in the tree:
     range_deref:int-overflow (fix acecad0): vm_get_slice_range forms range_from +- index in 64
       bits and tests the bounds on the exact values.  The range and slice theorems hold for ALL
       int bounds and indices: the hypotheses no_wrap / compose_ok / inner_ok are gone.
     array_deref:extent-product-overflow (fix 1f9996a): MK_ARRAY and the matrix product refuse
       extents whose product does not fit unsigned int (object_arr_dim_fits, wrong_array_size).
       mk_array_deref_spec / mk_array_slice_deref_spec / the matrix-product clause of
       shape_conformance state the property for every array the VM creates, with no hypothesis
       on the product; the theorems about object_arr_dim_mult / object_arr_dim_addr themselves
       (dim_addr_row_major, array_deref_spec on mk_arr) keep it, that function still wraps.
   The witnesses are generated and run on the real VM by the check on every seed. *)
From Coq Require Import ZArith List Bool.
From NV Require Import Index.W32 Index.ArrIndex Index.SliceRange Index.StrIndex Index.Shapes
  Index.IndexSpec Index.ArrIndexProofs Index.SliceRangeProofs Index.StrIndexProofs Index.ShapesProofs.
Import ListNotations.
Local Open Scope Z_scope.

(* ---- arrays ------------------------------------------------------------------------------------ *)

(* for every number of dimensions and all extents whose product fits 32 bits: an in-range
   index tuple is not reported out of bounds, the address is the row-major sum
   sum_k i_k * prod_{j>k} n_j, and it lies inside value[0 .. elems) *)
Theorem dim_addr_row_major : forall exts idx,
  prodZ exts < two32 -> in_range exts idx ->
  snd (dim_mult exts) = prodZ exts /\
  dim_addr (fst (dim_mult exts)) idx = (row_major exts idx, -1) /\
  0 <= row_major exts idx < snd (dim_mult exts).
Proof. exact ArrIndexProofs.dim_addr_row_major. Qed.
Print Assumptions dim_addr_row_major.

(* distinct in-range tuples reach distinct elements *)
Theorem row_major_injective : forall exts idx1 idx2,
  in_range exts idx1 -> in_range exts idx2 ->
  row_major exts idx1 = row_major exts idx2 -> idx1 = idx2.
Proof. exact ArrIndexProofs.row_major_injective. Qed.
Print Assumptions row_major_injective.

(* ... and every element is reached: for positive extents each element number below the product is
   the row-major number of an in-range tuple (`unrank`, quotient/remainder by the trailing products).
   With row_major_injective: indexing is a bijection between the in-range tuples and value[0 .. elems),
   no stored element is unreachable and none is reached twice. *)
Theorem row_major_surjective : forall exts a,
  Forall (fun n => 0 < n) exts -> 0 <= a < prodZ exts ->
  in_range exts (unrank exts a) /\ row_major exts (unrank exts a) = a.
Proof. exact ArrIndexProofs.unrank_spec. Qed.
Print Assumptions row_major_surjective.

Theorem unrank_row_major : forall exts idx,
  in_range exts idx -> unrank exts (row_major exts idx) = idx.
Proof. exact ArrIndexProofs.unrank_row_major. Qed.
Print Assumptions unrank_row_major.

(* row-major order is the lexicographic order of the in-range tuples: the element numbers grow with
   the first differing index, the last index varies fastest (what linear iteration over value[] visits) *)
Theorem row_major_lex : forall exts idx1 idx2,
  in_range exts idx1 -> in_range exts idx2 ->
  lex_lt idx1 idx2 -> row_major exts idx1 < row_major exts idx2.
Proof. exact ArrIndexProofs.row_major_lex. Qed.
Print Assumptions row_major_lex.

(* the hypotheses are met by a concrete 3-dimensional array *)
Example row_major_bijection_nonvacuous :
  Forall (fun n => 0 < n) [2; 3; 4] /\ 0 <= 17 < prodZ [2; 3; 4] /\
  unrank [2; 3; 4] 17 = [1; 1; 1] /\ row_major [2; 3; 4] [1; 1; 1] = 17.
Proof.
  split; [repeat constructor|]. split; [split; [discriminate|reflexivity]|]. split; reflexivity.
Qed.

(* any dimension vector, any multipliers: the first dimension whose index is >= the extent is
   reported and the returned address is 0 (the handler reads nothing) *)
Theorem dim_addr_oob : forall dv addr k,
  (k < length dv)%nat -> length addr = length dv ->
  (forall j, (j < k)%nat -> nthZ addr j < fst (nth j dv (0, 0))) ->
  fst (nth k dv (0, 0)) <= nthZ addr k ->
  dim_addr dv addr = (0, Z.of_nat k).
Proof. exact ArrIndexProofs.dim_addr_oob. Qed.
Print Assumptions dim_addr_oob.

(* the ARRAY_DEREF / ARRAYREF_DEREF handler on the dimension vector object_arr_dim_mult builds for
   given extents (for arrays created by MK_ARRAY see mk_array_deref_spec: no product hypothesis) *)
Theorem array_deref_spec : forall exts idx,
  Forall is_s32 idx -> length idx = length exts ->
  (prodZ exts < two32 -> in_range exts idx ->
     array_deref (Some (mk_arr exts)) idx = Ok (row_major exts idx) /\
     0 <= row_major exts idx < arr_elems exts) /\
  (~ in_range exts idx ->
     exists d, array_deref (Some (mk_arr exts)) idx = Exc (IndexOob (Z.of_nat d)) /\
               (d < length exts)%nat /\ (nthZ idx d < 0 \/ nthZ exts d <= nthZ idx d)).
Proof. exact ArrIndexProofs.array_deref_spec. Qed.
Print Assumptions array_deref_spec.

(* object_arr_dim_fits on positive extents: true exactly when the product fits unsigned int *)
Theorem dim_fits_spec : forall exts, Forall (fun n => 0 < n) exts ->
  (dim_fits exts = true <-> prodZ exts < two32).
Proof. exact ArrIndexProofs.dim_fits_spec. Qed.
Print Assumptions dim_fits_spec.

(* the MK_ARRAY handler: a non-positive extent raises index_out_of_bounds naming it, a product
   that does not fit raises wrong_array_size, otherwise the array has exactly prod(extents) cells *)
Theorem mk_array_spec : forall exts, Forall is_s32 exts ->
  (Forall (fun n => 0 < n) exts -> prodZ exts < two32 ->
     mk_array exts = Ok (mk_arr exts, prodZ exts) /\ arr_elems exts = prodZ exts) /\
  (Forall (fun n => 0 < n) exts -> two32 <= prodZ exts -> mk_array exts = Exc WrongArraySize) /\
  (~ Forall (fun n => 0 < n) exts ->
     exists d, mk_array exts = Exc (IndexOob (Z.of_nat d)) /\ (d < length exts)%nat /\ nthZ exts d <= 0) /\
  (forall dv elems, mk_array exts = Ok (dv, elems) ->
     Forall (fun n => 0 < n) exts /\ prodZ exts < two32 /\ dv = mk_arr exts /\ elems = prodZ exts).
Proof. exact ArrIndexProofs.mk_array_spec. Qed.
Print Assumptions mk_array_spec.

(* C12 for every array the VM creates, no hypothesis on the product: an in-range index tuple
   denotes the row-major element and that element lies inside value[0 .. elems); any other tuple
   raises index_out_of_bounds naming an offending dimension *)
Theorem mk_array_deref_spec : forall exts dv elems idx,
  Forall is_s32 exts -> Forall is_s32 idx -> length idx = length exts ->
  mk_array exts = Ok (dv, elems) ->
  (in_range exts idx ->
     array_deref (Some dv) idx = Ok (row_major exts idx) /\ 0 <= row_major exts idx < elems) /\
  (~ in_range exts idx ->
     exists d, array_deref (Some dv) idx = Exc (IndexOob (Z.of_nat d)) /\
               (d < length exts)%nat /\ (nthZ idx d < 0 \/ nthZ exts d <= nthZ idx d)).
Proof. exact ArrIndexProofs.mk_array_deref_spec. Qed.
Print Assumptions mk_array_deref_spec.

(* regression, former witness of dim_mult_overflow_refuted (finding
   array_deref:extent-product-overflow): {[65536, 65536]} got 0 cells and no value[] while
   [1, 1] passed the guards; 3 * 1431655766 wrapped to 2 cells with all multipliers 0 *)
Theorem dim_mult_overflow_regression :
  mk_array [65536; 65536] = Exc WrongArraySize /\
  mk_array [65537; 65537] = Exc WrongArraySize /\
  mk_array [3; 1431655766] = Exc WrongArraySize /\
  mk_array [46341; 46341; 2] = Exc WrongArraySize /\
  mk_array [2147483647; 3] = Exc WrongArraySize /\
  mk_array [2147483647; 2147483647; 2147483647] = Exc WrongArraySize /\
  mk_array [65535; 65537] = Ok ([(65535, 65537); (65537, 1)], 4294967295) /\
  mk_array [65536; 65535] = Ok ([(65536, 65535); (65535, 1)], 4294901760) /\
  mk_array [2; 0] = Exc (IndexOob 1) /\ mk_array [-1; 65536] = Exc (IndexOob 0).
Proof. exact ArrIndexProofs.dim_mult_overflow_regression. Qed.
Print Assumptions dim_mult_overflow_regression.

(* ---- ranges and slices ----------------------------------------------------------------------- *)

(* [a..b][c..d], all four direction cases, all int bounds: the composition is refused exactly
   when an inner bound is not an index of [a..b] (negative, or too large by any amount), otherwise
   the result denotes [a..b][ [c..d][k] ] position by position *)
Theorem slice_range_denotes : forall a b c d rf rt oob,
  is_s32 a -> is_s32 b ->
  get_slice_range a b c d = (rf, rt, oob) ->
  (oob = false <-> 0 <= c < range_len a b /\ 0 <= d < range_len a b) /\
  (oob = false ->
     range_len rf rt = range_len c d /\
     forall k, 0 <= k < range_len c d ->
       range_nth rf rt k = range_nth a b (range_nth c d k) /\
       0 <= range_nth c d k < range_len a b /\
       range_lo a b <= range_nth rf rt k <= range_hi a b).
Proof. exact SliceRangeProofs.slice_range_denotes. Qed.
Print Assumptions slice_range_denotes.

(* an index at or beyond the length of the range is refused whatever the magnitudes, and
   res_from / res_to keep the caller's preset 0 *)
Theorem slice_range_index_out : forall a b i,
  range_len a b <= i -> get_slice_range a b i i = (0, 0, true).
Proof. exact SliceRangeProofs.gsr_index_out. Qed.
Print Assumptions slice_range_index_out.

(* the results are ints (the narrowing (int)from is exact) and untouched when oob is reported *)
Theorem slice_range_results : forall a b c d rf rt oob,
  get_slice_range a b c d = (rf, rt, oob) ->
  is_s32 rf /\ is_s32 rt /\ (oob = true -> rf = 0 /\ rt = 0).
Proof. exact SliceRangeProofs.slice_range_results. Qed.
Print Assumptions slice_range_results.

(* regression, former witnesses of slice_range_overflow_refuted (finding range_deref:int-overflow):
   an index far beyond the end of a range next to INT_MAX (ascending) or INT_MIN (descending) *)
Theorem slice_range_overflow_regression :
  get_slice_range 2147483640 2147483647 20 20 = (0, 0, true) /\
  get_slice_range (-2147483640) (-2147483647) 20 20 = (0, 0, true) /\
  get_slice_range (-2147483648) (-2147483648) 2147483647 2147483647 = (0, 0, true) /\
  get_slice_range 2147483647 2147483647 2147483647 2147483647 = (0, 0, true) /\
  get_slice_range 2147483640 2147483647 3 20 = (0, 0, true) /\
  get_slice_range 2147483640 2147483647 20 3 = (0, 0, true) /\
  get_slice_range (-2147483640) (-2147483647) 3 20 = (0, 0, true) /\
  get_slice_range (-2147483640) (-2147483647) 20 3 = (0, 0, true) /\
  get_slice_range 2147483640 2147483647 7 7 = (2147483647, 2147483647, false) /\
  get_slice_range (-2147483641) (-2147483648) 7 7 = (-2147483648, -2147483648, false).
Proof. exact SliceRangeProofs.slice_range_overflow_regression. Qed.
Print Assumptions slice_range_overflow_regression.

(* SLICE_RANGE / SLICE_SLICE over all dimensions *)
Theorem compose_ranges_denotes : forall r1 r2,
  range_s32 r1 -> length r1 = length r2 ->
  (inner_within r1 r2 ->
     exists r, compose_ranges r1 r2 = Ok r /\ range_s32 r /\ length r = length r2 /\
       forall idx, idx_in_ranges r2 idx ->
         idx_in_ranges r idx /\ idx_in_ranges r1 (ranges_nth r2 idx) /\
         ranges_nth r idx = ranges_nth r1 (ranges_nth r2 idx)) /\
  (~ inner_within r1 r2 -> compose_ranges r1 r2 = Exc (IndexOob (-1))).
Proof. exact SliceRangeProofs.compose_ranges_denotes. Qed.
Print Assumptions compose_ranges_denotes.

(* RANGE_DEREF: every index inside its range selects the denoted position; any other index, of
   whatever magnitude, raises index_out_of_bounds *)
Theorem range_deref_spec : forall r idx,
  range_s32 r -> Forall is_s32 idx -> length idx = length r ->
  (idx_in_ranges r idx -> range_deref (Some r) idx = Ok (ranges_nth r idx)) /\
  (~ idx_in_ranges r idx -> exists d, range_deref (Some r) idx = Exc (IndexOob d)).
Proof. exact SliceRangeProofs.range_deref_spec. Qed.
Print Assumptions range_deref_spec.

(* regression, former witness of range_deref_overflow_refuted: [2147483640..2147483647][20]
   returned -2147483636, [-2147483640..-2147483647][20] returned 2147483636 *)
Theorem range_deref_overflow_regression :
  range_deref (Some [(2147483640, 2147483647)]) [20] = Exc (IndexOob 0) /\
  range_deref (Some [(-2147483640, -2147483647)]) [20] = Exc (IndexOob 0) /\
  range_deref (Some [(-2147483648, -2147483648)]) [2147483647] = Exc (IndexOob 0) /\
  range_deref (Some [(1, 5); (2147483640, 2147483647)]) [2; 2147483647] = Exc (IndexOob 1) /\
  range_deref (Some [(2147483640, 2147483647)]) [7] = Ok [2147483647] /\
  range_deref (Some [(-2147483641, -2147483648)]) [7] = Ok [-2147483648].
Proof. exact SliceRangeProofs.range_deref_overflow_regression. Qed.
Print Assumptions range_deref_overflow_regression.

(* SLICE_DEREF on a slice of an array built by the VM *)
Theorem slice_deref_spec : forall exts r idx,
  Forall ext_ok exts -> range_s32 r -> Forall is_s32 idx ->
  length r = length exts -> length idx = length exts ->
  let s := Some {| sl_arr := Some (mk_arr exts); sl_range := Some r |} in
  (prodZ exts < two32 -> idx_in_ranges r idx -> in_range exts (ranges_nth r idx) ->
     slice_deref s idx = Ok (row_major exts (ranges_nth r idx))) /\
  (idx_in_ranges r idx -> ~ in_range exts (ranges_nth r idx) ->
     exists d, slice_deref s idx = Exc (IndexOob d)) /\
  (~ idx_in_ranges r idx -> exists d, slice_deref s idx = Exc (IndexOob d)).
Proof. exact SliceRangeProofs.slice_deref_spec. Qed.
Print Assumptions slice_deref_spec.

(* regression, slice variants of the same finding: through a descending slice range at INT_MIN
   the difference INT_MIN - INT_MAX wrapped to +1 (-2147483643 - INT_MAX to 6), passed the bound
   test and element 1 (6) of the array was returned; SLICE_SLICE / SLICE_RANGE of such a range
   with [INT_MAX..INT_MAX] produced [1..1] *)
Theorem slice_deref_overflow_regression :
  let sl a b := Some {| sl_arr := Some (mk_arr [8]); sl_range := Some [(a, b)] |} in
  slice_deref (sl (-2147483648) (-2147483648)) [2147483647] = Exc (IndexOob 0) /\
  slice_deref (sl (-2147483643) (-2147483648)) [2147483647] = Exc (IndexOob 0) /\
  slice_deref (sl 2147483640 2147483647) [20] = Exc (IndexOob 0) /\
  slice_deref (sl 0 7) [2147483647] = Exc (IndexOob 0) /\
  slice_deref (sl 7 0) [2147483647] = Exc (IndexOob 0) /\
  slice_slice (sl (-2147483648) (-2147483648)) (Some [(2147483647, 2147483647)]) = Exc (IndexOob (-1)) /\
  slice_slice (sl 2147483640 2147483647) (Some [(3, 20)]) = Exc (IndexOob (-1)) /\
  slice_range (Some [(-2147483648, -2147483648)]) (Some [(2147483647, 2147483647)]) = Exc (IndexOob (-1)) /\
  slice_range (Some [(2147483640, 2147483647)]) (Some [(20, 3)]) = Exc (IndexOob (-1)) /\
  slice_deref (sl 0 7) [7] = Ok 7 /\ slice_deref (sl 7 0) [7] = Ok 0 /\
  slice_range (Some [(2147483640, 2147483647)]) (Some [(7, 0)]) = Ok [(2147483647, 2147483640)].
Proof. exact SliceRangeProofs.slice_deref_overflow_regression. Qed.
Print Assumptions slice_deref_overflow_regression.

(* a slice reaches the very cell that indexing the array at the denoted position reaches *)
Theorem slice_aliases : forall exts r idx,
  Forall ext_ok exts -> prodZ exts < two32 -> range_s32 r -> Forall is_s32 idx ->
  length r = length exts ->
  idx_in_ranges r idx -> in_range exts (ranges_nth r idx) ->
  slice_deref (Some {| sl_arr := Some (mk_arr exts); sl_range := Some r |}) idx =
  array_deref (Some (mk_arr exts)) (ranges_nth r idx).
Proof. exact SliceRangeProofs.slice_aliases. Qed.
Print Assumptions slice_aliases.

(* SLICE_DEREF on a slice of an array the VM has created: no hypothesis on the product *)
Theorem mk_array_slice_deref_spec : forall exts dv elems r idx,
  Forall is_s32 exts -> mk_array exts = Ok (dv, elems) ->
  range_s32 r -> Forall is_s32 idx -> length r = length exts -> length idx = length exts ->
  let s := Some {| sl_arr := Some dv; sl_range := Some r |} in
  (idx_in_ranges r idx -> in_range exts (ranges_nth r idx) ->
     slice_deref s idx = Ok (row_major exts (ranges_nth r idx)) /\
     0 <= row_major exts (ranges_nth r idx) < elems /\
     slice_deref s idx = array_deref (Some dv) (ranges_nth r idx)) /\
  (idx_in_ranges r idx -> ~ in_range exts (ranges_nth r idx) ->
     exists d, slice_deref s idx = Exc (IndexOob d)) /\
  (~ idx_in_ranges r idx -> exists d, slice_deref s idx = Exc (IndexOob d)).
Proof. exact SliceRangeProofs.mk_array_slice_deref_spec. Qed.
Print Assumptions mk_array_slice_deref_spec.

(* a[r1][r2][idx] = a[r1][ r2[idx] ] *)
Theorem slice_slice_assoc : forall dv r1 r2 idx s2,
  range_s32 r1 -> range_s32 r2 -> Forall is_s32 idx -> length r1 = length r2 ->
  slice_slice (Some {| sl_arr := Some dv; sl_range := Some r1 |}) (Some r2) = Ok s2 ->
  idx_in_ranges r2 idx ->
  slice_deref (Some s2) idx =
  slice_deref (Some {| sl_arr := Some dv; sl_range := Some r1 |}) (ranges_nth r2 idx).
Proof. exact SliceRangeProofs.slice_slice_assoc. Qed.
Print Assumptions slice_slice_assoc.

(* ---- layout of range vectors -------------------------------------------------------------------- *)
(* a range value is the vector [from0; to0; from1; to1; ...]; the handlers read slot d*2 and
   d*2+1 for dimension d < dims.  flatten / unflatten round-trip, the indexing denotes
   (from_d, to_d), and the handlers restated on vectors (the functions the check runs against the
   VM) are the handlers on lists of pairs, to which the theorems above apply *)
Theorem unflatten_flatten : forall r, unflatten (flatten r) = r.
Proof. exact SliceRangeProofs.unflatten_flatten. Qed.
Print Assumptions unflatten_flatten.

Theorem flatten_unflatten : forall n v, length v = (2 * n)%nat -> flatten (unflatten v) = v.
Proof. exact SliceRangeProofs.flatten_unflatten. Qed.
Print Assumptions flatten_unflatten.

Theorem vec_layout : forall r d,
  vec_get (flatten r) (d * 2) = fst (nth d r (0, 0)) /\
  vec_get (flatten r) (d * 2 + 1) = snd (nth d r (0, 0)).
Proof. exact SliceRangeProofs.vec_layout. Qed.
Print Assumptions vec_layout.

Theorem vec_dims_flatten : forall r, vec_dims (length r) (flatten r) = r.
Proof. exact SliceRangeProofs.vec_dims_flatten. Qed.
Print Assumptions vec_dims_flatten.

Theorem slice_range_vec_spec : forall r1 r2, length r2 = length r1 ->
  slice_range_vec (length r1) (Some (flatten r1)) (Some (flatten r2)) =
  lift_flatten (slice_range (Some r1) (Some r2)).
Proof. exact SliceRangeProofs.slice_range_vec_spec. Qed.
Print Assumptions slice_range_vec_spec.

Theorem range_deref_vec_spec : forall r idx,
  range_deref_vec (length r) (Some (flatten r)) idx = range_deref (Some r) idx.
Proof. exact SliceRangeProofs.range_deref_vec_spec. Qed.
Print Assumptions range_deref_vec_spec.

Theorem slice_deref_vec_spec : forall arr r idx,
  slice_deref_vec (length r) (Some {| slv_arr := arr; slv_range := Some (flatten r) |}) idx =
  slice_deref (Some {| sl_arr := arr; sl_range := Some r |}) idx.
Proof. exact SliceRangeProofs.slice_deref_vec_spec. Qed.
Print Assumptions slice_deref_vec_spec.

Theorem slice_slice_vec_spec : forall arr r1 r2, length r2 = length r1 ->
  slice_slice_vec (length r1) (Some {| slv_arr := arr; slv_range := Some (flatten r1) |}) (Some (flatten r2)) =
  match slice_slice (Some {| sl_arr := arr; sl_range := Some r1 |}) (Some r2) with
  | Ok s => Ok {| slv_arr := sl_arr s;
                  slv_range := match sl_range s with Some r => Some (flatten r) | None => None end |}
  | Exc e => Exc e
  end.
Proof. exact SliceRangeProofs.slice_slice_vec_spec. Qed.
Print Assumptions slice_slice_vec_spec.

(* names of the bounds of a slice parameter s[n0 .. n1, n2 .. n3, ..] (ID_DIM_SLICE): the lower
   name of every dimension is 0, the upper name is the last valid index of that dimension; of a
   range parameter: the bounds themselves *)
Theorem slice_dim_name_spec : forall r d,
  (d < length r)%nat ->
  let '(a, b) := nth d r (0, 0) in
  is_s32 (b - a) -> is_s32 (a - b) ->
  slice_dim_name (flatten r) (d * 2) = 0 /\
  slice_dim_name (flatten r) (d * 2 + 1) = range_len a b - 1 /\
  range_dim_name (flatten r) (d * 2) = a /\
  range_dim_name (flatten r) (d * 2 + 1) = b.
Proof. exact SliceRangeProofs.slice_dim_name_spec. Qed.
Print Assumptions slice_dim_name_spec.

Example vec_layout_example :
  flatten [(5, 1); (10, 13); (7, 2)] = [5; 1; 10; 13; 7; 2] /\
  unflatten [5; 1; 10; 13; 7; 2] = [(5, 1); (10, 13); (7, 2)] /\
  vec_dims 3 [5; 1; 10; 13; 7; 2] = [(5, 1); (10, 13); (7, 2)] /\
  slice_range_vec 2 (Some [5; 1; 10; 13]) (Some [1; 3; 2; 0]) = Ok [4; 2; 12; 10] /\
  range_deref_vec 2 (Some [4; 2; 12; 10]) [2; 1] = Ok [2; 11].
Proof. exact SliceRangeProofs.vec_layout_example. Qed.

(* ---- strings ----------------------------------------------------------------------------------- *)

(* a character is produced <-> 0 <= index < length *)
Theorem string_index_guard : forall s i,
  strlen s < two31 ->
  (0 <= i < strlen s <-> exists k, string_deref (Some s) i = Ok k) /\
  (0 <= i < strlen s ->
     string_deref (Some s) i = Ok i /\ exists c, string_char s i = Some c) /\
  (~ (0 <= i < strlen s) -> string_deref (Some s) i = Exc (IndexOob (-1))).
Proof. exact StrIndexProofs.string_index_guard. Qed.
Print Assumptions string_index_guard.

(* SLICE_STRING, ascending and descending *)
Theorem string_slice_exact : forall s from to,
  strlen s < two31 -> is_s32 from -> is_s32 to ->
  (0 <= from < strlen s /\ 0 <= to < strlen s ->
     exists l, slice_string s from to = Ok l /\ strlen l = range_len from to /\
       forall k, 0 <= k < range_len from to ->
         nth (Z.to_nat k) l 0 = nth (Z.to_nat (range_nth from to k)) s 0 /\
         0 <= range_nth from to k < strlen s) /\
  (~ (0 <= from < strlen s /\ 0 <= to < strlen s) ->
     slice_string s from to = Exc (IndexOob (-1))).
Proof. exact StrIndexProofs.string_slice_exact. Qed.
Print Assumptions string_slice_exact.

(* ---- array arithmetic -------------------------------------------------------------------------- *)
Theorem shape_conformance : forall e1 e2,
  let a1 := Some (new_arr e1) in
  let a2 := Some (new_arr e2) in
  (can_add a1 a2 = true <-> e1 = e2) /\
  (arr_addsub a1 a2 = Exc WrongArraySize <-> e1 <> e2) /\
  (e1 = e2 -> exists acc, arr_addsub a1 a2 = Ok acc /\ acc_shape acc = e2 /\
     forall w r1 r2, In (w, r1, r2) (acc_reads acc) ->
       0 <= r1 < a_elems (new_arr e1) /\ 0 <= r2 < a_elems (new_arr e2) /\ 0 <= w < a_elems (new_arr e2)) /\
  (can_mult a1 a2 = true <-> exists m k n, e1 = [m; k] /\ e2 = [k; n]) /\
  ((~ exists m k n, e1 = [m; k] /\ e2 = [k; n]) -> arr_matmul a1 a2 = Exc WrongArraySize) /\
  (forall m k n, e1 = [m; k] -> e2 = [k; n] -> 0 < m -> 0 < n ->
     (arr_matmul a1 a2 = Exc WrongArraySize <-> two32 <= m * n) /\
     (m * n < two32 -> exists acc, arr_matmul a1 a2 = Ok acc)) /\
  (forall m k n acc, e1 = [m; k] -> e2 = [k; n] -> 0 < m -> 0 < k -> 0 < n ->
     m * k < two32 -> k * n < two32 ->
     arr_matmul a1 a2 = Ok acc ->
     acc_shape acc = [m; n] /\ m * n < two32 /\ a_elems (new_arr [m; n]) = m * n /\
       forall w r1 r2, In (w, r1, r2) (acc_reads acc) ->
         0 <= r1 < a_elems (new_arr e1) /\ 0 <= r2 < a_elems (new_arr e2) /\
         0 <= w < a_elems (new_arr [m; n])) /\
  (arr_addsub None a2 = Exc NilPointer /\ arr_addsub a1 None = Exc NilPointer /\
   arr_matmul None a2 = Exc NilPointer /\ arr_matmul a1 None = Exc NilPointer).
Proof. exact ShapesProofs.shape_conformance. Qed.
Print Assumptions shape_conformance.

(* regression, matrix-product variant of array_deref:extent-product-overflow: the 65536 x 65536
   result of [65536 x 1] * [1 x 65536] got 0 cells and the handler stored through a NULL value[] *)
Theorem matmul_overflow_regression :
  arr_matmul (Some (new_arr [65536; 1])) (Some (new_arr [1; 65536])) = Exc WrongArraySize /\
  arr_matmul (Some (new_arr [65537; 2])) (Some (new_arr [2; 65537])) = Exc WrongArraySize /\
  arr_matmul (Some (new_arr [3; 1])) (Some (new_arr [1; 1431655766])) = Exc WrongArraySize /\
  (exists acc, arr_matmul (Some (new_arr [3; 1])) (Some (new_arr [1; 4])) = Ok acc /\ acc_shape acc = [3; 4]).
Proof. exact ShapesProofs.matmul_overflow_regression. Qed.
Print Assumptions matmul_overflow_regression.

(* results of add/sub, negation, scalar multiple (copied shape: object_arr_copy /
   object_arr_dim_copy) and of the matrix product carry the dimension vector of a freshly
   built array of their shape, for every number of dimensions: array_deref_spec applies to them *)
Theorem arith_result_indexing : forall e,
  (exists acc, arr_addsub (Some (new_arr e)) (Some (new_arr e)) = Ok acc /\ acc_dv acc = mk_arr e) /\
  (exists acc, arr_unary (Some (new_arr e)) = Ok acc /\ acc_shape acc = e /\ acc_dv acc = mk_arr e /\
     forall w r1 r2, In (w, r1, r2) (acc_reads acc) -> w = r1 /\ 0 <= r1 < a_elems (new_arr e)) /\
  arr_unary None = Exc NilPointer /\
  (forall m k n acc, arr_matmul (Some (new_arr [m; k])) (Some (new_arr [k; n])) = Ok acc ->
     acc_dv acc = mk_arr [m; n]) /\
  (forall idx, array_deref (Some (a_dv (arr_copy (new_arr e)))) idx = array_deref (Some (mk_arr e)) idx).
Proof. exact ShapesProofs.arith_result_indexing. Qed.
Print Assumptions arith_result_indexing.

(* ---- the hypotheses of the implications above are satisfiable ----------------------------------- *)
Example dim_addr_row_major_example :
  prodZ [2; 3; 4] < two32 /\ in_range [2; 3; 4] [1; 2; 3] /\
  dim_addr (fst (dim_mult [2; 3; 4])) [1; 2; 3] = (23, -1) /\ row_major [2; 3; 4] [1; 2; 3] = 23.
Proof. exact ArrIndexProofs.dim_addr_row_major_example. Qed.

Example dim_addr_oob_example :
  dim_addr (fst (dim_mult [2; 3; 4])) [1; 3; 4] = (0, 1) /\
  array_deref (Some (mk_arr [2; 3; 4])) [1; -1; 9] = Exc (IndexOob 1) /\
  ~ in_range [2; 3; 4] [1; -1; 9].
Proof. exact ArrIndexProofs.dim_addr_oob_example. Qed.

Example slice_range_denotes_example :
  is_s32 10 /\ is_s32 3 /\
  get_slice_range 10 3 5 1 = (5, 9, false) /\
  get_slice_range 10 3 1 8 = (0, 0, true) /\
  get_slice_range 2 7 1 3 = (3, 5, false) /\ get_slice_range 2 7 3 1 = (5, 3, false) /\
  get_slice_range 7 2 1 3 = (6, 4, false).
Proof. exact SliceRangeProofs.slice_range_denotes_example. Qed.

Example slice_deref_example :
  let exts := [3; 4] in
  let r := [(2, 0); (1, 3)] in
  Forall ext_ok exts /\ range_s32 r /\ idx_in_ranges r [1; 2] /\ in_range exts (ranges_nth r [1; 2]) /\
  slice_deref (Some {| sl_arr := Some (mk_arr exts); sl_range := Some r |}) [1; 2] = Ok 7 /\
  slice_deref (Some {| sl_arr := Some (mk_arr exts); sl_range := Some r |}) [3; 0] = Exc (IndexOob 0) /\
  slice_deref (Some {| sl_arr := Some (mk_arr exts); sl_range := Some r |}) [0; -1] = Exc (IndexOob 1).
Proof. exact SliceRangeProofs.slice_deref_example. Qed.

Example slice_slice_example :
  let r1 := [(1, 6)] in let r2 := [(4, 2)] in
  range_s32 r1 /\ inner_within r1 r2 /\
  compose_ranges r1 r2 = Ok [(5, 3)] /\ idx_in_ranges r2 [1] /\
  ranges_nth [(5, 3)] [1] = ranges_nth r1 (ranges_nth r2 [1]).
Proof. exact SliceRangeProofs.slice_slice_example. Qed.

Example string_slice_example :
  let s := [104; 101; 108; 108; 111] in
  strlen s < two31 /\
  slice_string s 1 3 = Ok [101; 108; 108] /\
  slice_string s 3 1 = Ok [108; 108; 101] /\
  slice_string s 4 0 = Ok [111; 108; 108; 101; 104] /\
  slice_string s 2 2 = Ok [108] /\
  slice_string s 1 5 = Exc (IndexOob (-1)) /\ slice_string s (-1) 2 = Exc (IndexOob (-1)) /\
  string_deref (Some s) 4 = Ok 4 /\ string_deref (Some s) 5 = Exc (IndexOob (-1)) /\
  string_deref (Some s) (-1) = Exc (IndexOob (-1)).
Proof. exact StrIndexProofs.string_slice_example. Qed.

Example shape_conformance_example :
  can_add (Some (new_arr [2; 3])) (Some (new_arr [2; 3])) = true /\
  can_add (Some (new_arr [2; 3])) (Some (new_arr [3; 2])) = false /\
  can_add (Some (new_arr [6])) (Some (new_arr [2; 3])) = false /\
  can_mult (Some (new_arr [2; 3])) (Some (new_arr [3; 4])) = true /\
  can_mult (Some (new_arr [2; 3])) (Some (new_arr [2; 3])) = false /\
  arr_matmul (Some (new_arr [2; 3])) (Some (new_arr [2; 3])) = Exc WrongArraySize /\
  (exists acc, arr_matmul (Some (new_arr [2; 3])) (Some (new_arr [3; 4])) = Ok acc /\
               acc_shape acc = [2; 4] /\ length (acc_reads acc) = 24%nat).
Proof. exact ShapesProofs.shape_conformance_example. Qed.
