(* Extraction of the compiler model (Src/Compile.v) and of the value-level VM (VM/ValueVM.v) for
   the tie harness/ocaml/compile + checks/parts/compiletie.py (C02, compile correctness).
   ExtrOcamlBasic only: nat, N, Z, positive stay extracted datatypes.
   Model sources: NV.Src.Syntax NV.Src.Eval NV.Src.Compile NV.VM.ValueVM NV.Gen.Opcodes NV.Verifier.Effect *)
From Coq Require Import ExtrOcamlBasic.
From NV Require Import Gen.Opcodes Verifier.Effect Src.Syntax Src.Eval Src.Compile VM.ValueVM.

Extraction "compilemodel.ml"
  fd_name fd_params fd_ret fd_body fd_catches fd_catch_all
  N_of_opcode opcode_of_N
  wrap32 run_program
  compile_func func_in_F run_func print_addr.
