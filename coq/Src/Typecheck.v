(* Executable model of the static rules of Never for the core of Src/Syntax.v (property C06).
   Definitions only (extracted by Extract/ExtractTc.v).  Written from front/typecheck.c:

     expr_check_type       -> tc_expr          (type + comb_const of every expression form)
     expr_id_check_type    -> EVar             symtab_lookup through the chain of scopes
     expr_ass_check_type   -> EAssign          left side must be COMB_CONST_TYPE_VAR, then types
     bind_check_type       -> ILet / IVar      `var x = e` rejects a CONST e; dup names per scope
     expr_call_check_type  -> ECall / ERecNew  param_expr_list_cmp: count, kinds, const -> var param
     expr_cond_check_type  -> ECond / EIf      bool condition, expr_comb_cmp_and_set on the branches
     EXPR_WHILE/DO/FOR     -> bool condition;  while/do yield CONST int, for yields TEMP int
     expr_forin_check_type -> EForInRange / EForInArr: the iterable first (range: from, to, then
                                               both must be int); the loop variable lives in a scope
                                               of its own around the body: CONST int over a range, the
                                               element type with the constness of the array expression
                                               over an array; the body may have any type; TEMP int
     array_check_type      -> EArrLit          elements accepted by the declared type; literal is VAR
     expr_array_deref_*    -> EIndex           CONST iff the array expression is CONST, else VAR
     expr_attr_check_type  -> EField           record fields are VAR (param_list_set_default_var)
     expr_seq_check_type   -> EBlock           own scope; last item must be an expression; the block
                                               has the type AND constness of its last expression
     seq_list_check_type   -> tc_items         consecutive functions are declared together
     func_native_check_type-> tc_fdef          own scope {f, params}; catch clauses first, then body;
                                               each must be accepted by the declared result type
     libmath print         -> EPrint           print(int) -> int, result VAR (libmath.c: ret is VAR)

   The first error in the C traversal order is the one reported. *)
From Coq Require Import NArith List Bool.
From NV Require Import Src.Syntax Src.Types.
Import ListNotations.

Definition cst_eqb (a b : cst) : bool :=
  match a, b with
  | KTemp, KTemp | KConst, KConst | KVar, KVar => true
  | _, _ => false
  end.

(* param_expr_cmp on one argument: kinds, and (const_cmp) no CONST expression to a var parameter *)
Definition arg_ok (const_cmp : bool) (p : bool * cty) (a : binding) : bool :=
  accepts (snd p) (fst a) && negb (const_cmp && fst p && cst_eqb (snd a) KConst).

(* param_expr_list_cmp *)
Fixpoint args_ok (const_cmp : bool) (ps : list (bool * cty)) (args : list binding) : bool :=
  match ps, args with
  | [], [] => true
  | p :: ps', a :: args' => arg_ok const_cmp p a && args_ok const_cmp ps' args'
  | _, _ => false
  end.

Definition check_call (tf : binding) (targs : list binding) : res binding :=
  match fst tf with
  | CFun ps r => if args_ok true ps targs then Ok (r, KConst) else Err RArgs
  | _ => Err RNotCallable
  end.

Definition check_recnew (R : list recdecl) (r : ident) (targs : list binding) : res binding :=
  match find_rec r R with
  | None => Err RUndefined
  | Some fs => if args_ok false (map (fun t => (false, cty_of t)) fs) targs
               then Ok (CRec r, KTemp) else Err RRecordArgs
  end.

Definition check_assign (l r : binding) : res binding :=
  if cst_eqb (snd l) KVar then
    if accepts (fst l) (fst r) then Ok (fst l, snd r) else Err RAssignType
  else Err RAssignConst.

Definition check_cond (c a b : binding) : res binding :=
  if is_bool (fst c) then
    if merge (fst a) (fst b) then Ok (fst a, KTemp) else Err RBranches
  else Err RCond.

Definition check_index (a i : binding) : res binding :=
  match fst a with
  | CArr e => if is_int (fst i)
              then Ok (e, if cst_eqb (snd a) KConst then KConst else KVar)
              else Err RIndex
  | _ => Err RIndex
  end.

Definition check_field (R : list recdecl) (a : binding) (r : ident) (fld : nat) : res binding :=
  match fst a with
  | CRec r' =>
      if N.eqb r r' then
        match find_rec r' R with
        | Some fs => match nth_error fs fld with
                     | Some t => Ok (cty_of t, KVar)
                     | None => Err RAttr           (* "cannot find attribute" *)
                     end
        | None => Err RAttr
        end
      else Err RAttr
  | _ => Err RAttr                                 (* "cannot get record attribute of type T" *)
  end.

Definition check_elems (t : ty) (es : list binding) : bool :=
  forallb (fun b => accepts (cty_of t) (fst b)) es.

Section Lists.
  Variable f : expr -> res binding.
  (* expr_list_check_type: source order *)
  Fixpoint tc_list (l : list expr) : res (list binding) :=
    match l with
    | [] => Ok []
    | a :: t => bind (f a) (fun b => bind (tc_list t) (fun bs => Ok (b :: bs)))
    end.
End Lists.

(* the leading run of function items of a block: declared together (seq_list_check_type) *)
Fixpoint run_sigs (l : list item) : list (ident * cty) :=
  match l with
  | IFunc fd :: t => (fd_name fd, fd_cty fd) :: run_sigs t
  | _ => []
  end.

Fixpoint declare_all (sigs : list (ident * cty)) (G : env) : res env :=
  match sigs with
  | [] => Ok G
  | (x, t) :: rest => bind (declare x (t, KTemp) G) (declare_all rest)
  end.

Fixpoint declare_params (ps : list (ident * bool * ty)) (G : env) : res env :=
  match ps with
  | [] => Ok G
  | (x, v, t) :: rest =>
      bind (declare x (cty_of t, if v then KVar else KConst) G) (declare_params rest)
  end.

Definition sig_wf (R : list recdecl) (ps : list (ident * bool * ty)) (ret : ty) : bool :=
  forallb (fun p => ty_wf R (snd p)) ps && ty_wf R ret.

(* scope of a function: its own name (not for lambdas), then the parameters *)
Definition fun_env (G : env) (lam : bool) (name : ident) (ps : list (ident * bool * ty)) (ret : ty)
  : res env :=
  declare_params ps ((if lam then [] else [(name, (sig_cty ps ret, KTemp))]) :: G).

Definition check_ret (ret : ty) (b : res binding) : res unit :=
  bind b (fun b => if accepts (cty_of ret) (fst b) then Ok tt else Err RReturn).

Section Items.
  Variable tce : env -> expr -> res binding.
  Variable tcf : env -> bool -> fdef -> res unit.

  Fixpoint tc_items (G : env) (inrun : bool) (last : option binding) (l : list item)
    : res binding :=
    match l with
    | [] => match last with Some b => Ok b | None => Err RSeq end
    | i :: rest =>
      match i with
      | ILet x e =>
          bind (tce G e) (fun b =>
          bind (declare x (fst b, KConst) G) (fun G' => tc_items G' false None rest))
      | IVar x e =>
          bind (tce G e) (fun b =>
          if cst_eqb (snd b) KConst then Err RVarInitConst else
          bind (declare x (fst b, KVar) G) (fun G' => tc_items G' false None rest))
      | IFunc fd =>
          bind (if inrun then Ok G else declare_all (run_sigs (i :: rest)) G) (fun G1 =>
          bind (tcf G1 false fd) (fun _ => tc_items G1 true None rest))
      | IExpr e =>
          bind (tce G e) (fun b => tc_items G false (Some b) rest)
      end
    end.

  (* a `{ ... }` : new scope *)
  Definition tc_block (G : env) (l : list item) : res binding := tc_items ([] :: G) false None l.

  Fixpoint tc_catches (G : env) (ret : ty) (cs : list (exn * list item)) : res unit :=
    match cs with
    | [] => Ok tt
    | (_, body) :: t => bind (check_ret ret (tc_block G body)) (fun _ => tc_catches G ret t)
    end.
End Items.

Section TC.
Variable R : list recdecl.

Fixpoint tc_expr (G : env) (e : expr) {struct e} : res binding :=
  match e with
  | EInt _ => Ok (CInt, KTemp)
  | EBool _ => Ok (CBool, KTemp)
  | EVar x => match lookup x G with Some b => Ok b | None => Err RUndefined end
  | ENeg a => bind (tc_expr G a) (fun b => if is_int (fst b) then Ok (CInt, KTemp) else Err ROperator)
  | ENot a => bind (tc_expr G a) (fun b => if is_bool (fst b) then Ok (CBool, KTemp) else Err ROperator)
  | EBNot a => bind (tc_expr G a) (fun b => if is_int (fst b) then Ok (CInt, KTemp) else Err ROperator)
  | EBin op a b =>
      bind (tc_expr G a) (fun ta => bind (tc_expr G b) (fun tb =>
      match binop_type op (fst ta) (fst tb) with
      | Some t => Ok (t, KTemp)
      | None => Err ROperator
      end))
  | ECond c a b =>
      bind (tc_expr G c) (fun tc => bind (tc_expr G a) (fun ta => bind (tc_expr G b) (fun tb =>
      check_cond tc ta tb)))
  | EIf c a =>
      bind (tc_expr G c) (fun tc => bind (tc_expr G a) (fun ta =>
      check_cond tc ta (CInt, KTemp)))
  | EAssign l r =>
      bind (tc_expr G l) (fun tl => bind (tc_expr G r) (fun tr => check_assign tl tr))
  | ECall f args =>
      bind (tc_expr G f) (fun tf => bind (tc_list (tc_expr G) args) (fun targs =>
      check_call tf targs))
  | EBlock items => tc_block tc_expr tc_fdef G items
  | EWhile c body =>
      bind (tc_expr G c) (fun tc => bind (tc_expr G body) (fun _ =>
      if is_bool (fst tc) then Ok (CInt, KConst) else Err RCond))
  | EDoWhile body c =>
      bind (tc_expr G c) (fun tc => bind (tc_expr G body) (fun _ =>
      if is_bool (fst tc) then Ok (CInt, KConst) else Err RCond))
  | EFor init c incr body =>
      bind (tc_expr G init) (fun _ => bind (tc_expr G c) (fun tc =>
      bind (tc_expr G incr) (fun _ => bind (tc_expr G body) (fun _ =>
      if is_bool (fst tc) then Ok (CInt, KTemp) else Err RCond))))
  | EForInRange x a b body =>
      bind (tc_expr G a) (fun ta => bind (tc_expr G b) (fun tb =>
      if is_int (fst ta) && is_int (fst tb) then
        bind (tc_expr ([(x, (CInt, KConst))] :: G) body) (fun _ => Ok (CInt, KTemp))
      else Err RForIn))
  | EForInArr x arr body =>
      bind (tc_expr G arr) (fun ta =>
      match fst ta with
      | CArr e => bind (tc_expr ([(x, (e, snd ta))] :: G) body) (fun _ => Ok (CInt, KTemp))
      | _ => Err RForIn
      end)
  | ELambda fd => bind (tc_fdef G true fd) (fun _ => Ok (fd_cty fd, KTemp))
  | EArrLit es t =>
      bind (tc_list (tc_expr G) es) (fun tes =>
      if ty_wf R t then
        if check_elems t tes then Ok (CArr (cty_of t), KVar) else Err RArray
      else Err RUnknownType)
  | EIndex a i =>
      bind (tc_expr G a) (fun ta => bind (tc_expr G i) (fun ti => check_index ta ti))
  | ERecNew r args =>
      bind (tc_list (tc_expr G) args) (fun targs => check_recnew R r targs)
  | ERecNil _ => Ok (CNil, KTemp)
  | EField a r fld => bind (tc_expr G a) (fun ta => check_field R ta r fld)
  | EPrint a =>
      bind (tc_expr G a) (fun ta => if accepts CInt (fst ta) then Ok (CInt, KVar) else Err RArgs)
  end

with tc_fdef (G : env) (lam : bool) (fd : fdef) {struct fd} : res unit :=
  match fd with
  | FDef name ps ret body catches call =>
      if sig_wf R ps ret then
        bind (fun_env G lam name ps ret) (fun G' =>
        bind (tc_catches tc_expr tc_fdef G' ret catches) (fun _ =>
        bind (match call with
              | None => Ok tt
              | Some b => check_ret ret (tc_block tc_expr tc_fdef G' b)
              end) (fun _ =>
        check_ret ret (tc_block tc_expr tc_fdef G' body))))
      else Err RUnknownType
  end.

Fixpoint tc_funcs (G : env) (fs : list fdef) : res unit :=
  match fs with
  | [] => Ok tt
  | fd :: t => bind (tc_fdef G false fd) (fun _ => tc_funcs G t)
  end.

End TC.

(* never_add_decl_list / decl_list_check_type: record names unique, field types exist *)
Fixpoint recs_ok (R : list recdecl) (l : list recdecl) (seen : list ident) : res unit :=
  match l with
  | [] => Ok tt
  | (n, fs) :: t =>
      if existsb (N.eqb n) seen then Err RRedefined
      else if forallb (ty_wf R) fs then recs_ok R t (n :: seen)
      else Err RUnknownType
  end.

Definition top_sigs (fs : list fdef) : list (ident * cty) :=
  map (fun fd => (fd_name fd, fd_cty fd)) fs.

Inductive tc_result := OK | Error (r : rule).

(* never_check_type: records, then the top-level functions (one run: mutually visible) *)
Definition tc_program (p : program) : tc_result :=
  match bind (recs_ok (p_recs p) (p_recs p) [])
             (fun _ => bind (declare_all (top_sigs (p_funcs p)) [[]])
             (fun G => tc_funcs (p_recs p) G (p_funcs p))) with
  | Ok _ => OK
  | Err r => Error r
  end.

(* ---- small ids for the harness ------------------------------------------------------ *)
Definition rule_id (r : rule) : nat :=
  match r with
  | RAssignConst => 0 | RAssignType => 1 | RVarInitConst => 2 | RArgs => 3 | RNotCallable => 4
  | RUndefined => 5 | RAttr => 6 | ROperator => 7 | RCond => 8 | RBranches => 9 | RReturn => 10
  | RRecordArgs => 11 | RArray => 12 | RIndex => 13 | RRedefined => 14 | RSeq => 15
  | RUnknownType => 16 | RMatch => 17 | RException => 18 | RForIn => 19
  end.
