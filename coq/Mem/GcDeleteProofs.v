(* Mem/GcDeleteProofs.v — gc_delete frees the object of every allocated cell exactly once,
   in every collector state (no well-formedness needed: the statement is per cell).  No axioms. *)
From Coq Require Import NArith List Lia FinFun.
From NV Require Import Base.TMap GC.GCModel GC.GCSpec Mem.GcDelete.
Import ListNotations.
Local Open Scope N_scope.

Lemma in_nrange n i : In i (nrange n) <-> i < n.
Proof.
  unfold nrange. rewrite in_map_iff. split.
  - intros [k [<- Hk]]. apply in_seq in Hk. lia.
  - intros H. exists (N.to_nat i). split; [lia|]. apply in_seq. lia.
Qed.

Lemma nodup_nrange n : NoDup (nrange n).
Proof.
  unfold nrange. apply FinFun.Injective_map_NoDup; [|apply seq_NoDup].
  intros a b H. now apply Nat2N.inj.
Qed.

Definition cell_objs (objs : tmap (option obj)) (i : N) : list (N * obj) :=
  match tget objs i with Some o => [(i, o)] | None => [] end.

Lemma fold_is_flat_map objs : forall l acc,
  fold_left (gc_delete_step objs) l acc = acc ++ flat_map (cell_objs objs) l.
Proof.
  induction l as [|i l IH]; intros acc; cbn.
  - now rewrite app_nil_r.
  - rewrite IH. unfold gc_delete_step, cell_objs. destruct (tget objs i); cbn.
    + now rewrite <- app_assoc.
    + reflexivity.
Qed.

Lemma in_flat objs l i o : In (i, o) (flat_map (cell_objs objs) l) <-> In i l /\ tget objs i = Some o.
Proof.
  rewrite in_flat_map. unfold cell_objs. split.
  - intros [j [Hj Hin]]. destruct (tget objs j) eqn:E; [|destruct Hin].
    destruct Hin as [Hin|[]]. inversion Hin; subst. auto.
  - intros [Hi E]. exists i. split; [exact Hi|]. rewrite E. now left.
Qed.

Lemma nodup_flat objs : forall l, NoDup l -> NoDup (map fst (flat_map (cell_objs objs) l)).
Proof.
  induction l as [|i l IH]; intros H; cbn; [constructor|].
  inversion H as [|? ? Hni Hl]; subst. rewrite map_app. unfold cell_objs at 1.
  destruct (tget objs i) eqn:E; cbn; [|now apply IH].
  constructor; [|now apply IH].
  intros Hin. apply in_map_iff in Hin. destruct Hin as [[j o'] [Hj Hin]]. cbn in Hj; subst j.
  apply in_flat in Hin. tauto.
Qed.

(* every allocated cell's object is handed to object_delete exactly once, nothing else is *)
Theorem gc_delete_frees_each_object_once : forall g,
  NoDup (map fst (gc_delete_freed g)) /\
  (forall i o, In (i, o) (gc_delete_freed g) <-> i < g_size g /\ tget (g_obj g) i = Some o).
Proof.
  intros g. unfold gc_delete_freed. rewrite fold_is_flat_map. cbn [app]. split.
  - apply nodup_flat, nodup_nrange.
  - intros i o. rewrite in_flat, in_nrange. reflexivity.
Qed.

(* the same as a count: cell i is freed once if it is allocated and inside the table, never otherwise *)
Corollary gc_delete_count : forall g i,
  count_occ N.eq_dec (map fst (gc_delete_freed g)) i =
  (if (i <? g_size g) then match tget (g_obj g) i with Some _ => 1 | None => 0 end else 0)%nat.
Proof.
  intros g i. destruct (gc_delete_frees_each_object_once g) as [ND HI].
  assert (Hin : In i (map fst (gc_delete_freed g)) <-> i < g_size g /\ allocated g i).
  { rewrite in_map_iff. unfold allocated. split.
    - intros [[j o] [Hj Hin]]. cbn in Hj; subst j. apply HI in Hin. destruct Hin as [Hl E].
      split; [exact Hl|congruence].
    - intros [Hl Ha]. destruct (tget (g_obj g) i) as [o|] eqn:E; [|congruence].
      exists (i, o). split; [reflexivity|]. apply HI. auto. }
  destruct (N.ltb_spec i (g_size g)) as [Hl|Hl].
  - destruct (tget (g_obj g) i) as [o|] eqn:E.
    + apply NoDup_count_occ'; [exact ND|]. apply Hin. split; [exact Hl|]. unfold allocated. congruence.
    + apply count_occ_not_In. intros C. apply Hin in C. unfold allocated in C. tauto.
  - apply count_occ_not_In. intros C. apply Hin in C. lia.
Qed.

Example gc_delete_two :
  let g := {| g_free := 0; g_size := 4; g_obj := tset (tset (tm_init None) 1 (Some (OScalar 1 [7]))) 3 (Some (OVec [1]));
              g_next := tm_init 0; g_mark := tm_init false; g_w := false; g_l0 := [1; 3]; g_l1 := [] |} in
  map fst (gc_delete_freed g) = [1; 3].
Proof. vm_compute. reflexivity. Qed.
