(* Front/MsgBufPinned.v — what the print_msg arithmetic of the CURRENT tree amounts to (C05).
   These statements are about the regenerated values and are expected to stop compiling the
   day print_msg hands vsnprintf the remaining room (MAX_MSG_SIZE - msg_len): then
   [msg_write_within_buffer_verdict] (MsgBufProofs.v) reads as the universal statement and
   this file is to be replaced by it.  No axioms. *)
From Coq Require Import ZArith Bool List Lia.
From NV Require Import Gen.FrontConsts Front.MsgBuf Front.MsgBufProofs.
Import ListNotations.
Local Open Scope Z_scope.

(* "<stdin>:1: error: " has 18 characters; a body of 1100 characters (e.g. a diagnostic that
   quotes a 1100-character identifier) makes vsnprintf write offsets 18 .. 1041 of a
   1024-byte array. *)
Theorem msg_write_within_buffer_refuted :
  exists p b, 0 <= p < MSG_BUF_SIZE /\ 0 <= b /\ ~ writes_within_buffer p b.
Proof.
  exists 18, 1100. split; [split; [discriminate|reflexivity]|]. split; [discriminate|].
  intros W. apply within_buffer_spec in W; [|discriminate|discriminate].
  vm_compute in W. discriminate.
Qed.

(* what the decision procedure computes on this tree: prefix length 1 is already unsafe *)
Lemma msg_verdict_current_tree : msg_safe_all = false.
Proof. vm_compute. reflexivity. Qed.

Example msg_ok_short : within_buffer 18 100 = true.
Proof. vm_compute. reflexivity. Qed.
Example msg_boundary_last_safe : within_buffer 18 1005 = true.
Proof. vm_compute. reflexivity. Qed.
Example msg_boundary_first_unsafe : within_buffer 18 1006 = false.
Proof. vm_compute. reflexivity. Qed.
