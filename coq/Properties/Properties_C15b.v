(* C15 (continuation) — the ISOLATION half over the process-global state: "Compiling the same source always
   yields the same code and diagnostics, whatever was compiled (successfully or not) before it in the same
   process ... Several programs and VMs alive at once do not affect each other."

   Model: VM/ApiGlobal.v threads the state that belongs to the PROCESS — the IEEE status word (raised silently
   by float arithmetic of the VM, of the constant folder and of the host; cleared and tested by
   libvm_execute_build_in) and the scanner's pending string buffer (scanner.l `string_value`, left behind by an
   input that ends inside a literal) — through a history of compiles, calls and host arithmetic.
   PROVED: under the hypothesis `reinitialises` (every tested flag is cleared first; the opening quote always
   starts a new buffer, or the end of the input inside a literal frees it) every compile and every call of any history gives what it gives in a fresh process;
   the hypothesis is necessary (a history exists that shows the difference as soon as it fails).
   TIE: checks/c15.py reads the two masks of back/libvm.c and the opening-quote rule of front/scanner.l from
   the tree (policy_measured) and checks the hypothesis behaviourally on the real code: the host raises each flag
   (`fpraise`), programs raise them at run time and in constant folding, compiles end in every scanner
   situation; then observers run and are compared with a fresh process (residue family, oracles 1, 2, 2b).
   NOT modelled: the other scanner statics (start condition, use stack, line_no), utils.c's file name.

   Only statements here; every proof is `exact <lemma>` into VM/ApiGlobalProofs.v. *)
From Coq Require Import List Bool.
From NV Require Import VM.ApiGlobal VM.ApiGlobalProofs.
Import ListNotations.

(* built-in functions: outcomes do not depend on the status word they find *)
Theorem fp_outcomes_independent_of_status_word :
  forall pol, fl_sub (tested pol) (cleared pol) = true ->
  forall ss p1 p2, fst (run_steps pol p1 ss) = fst (run_steps pol p2 ss).
Proof. exact ApiGlobalProofs.fp_outcomes_independent. Qed.
Print Assumptions fp_outcomes_independent_of_status_word.

Theorem fp_outcomes_as_in_fresh_process :
  forall pol, fl_sub (tested pol) (cleared pol) = true ->
  forall pre ss p,
    fst (run_steps pol p (pre ++ ss)) = fst (run_steps pol p pre) ++ fst (run_steps pol fl_none ss).
Proof. exact ApiGlobalProofs.fp_outcomes_as_in_fresh_process. Qed.
Print Assumptions fp_outcomes_as_in_fresh_process.

Theorem fp_reinit_necessary :
  forall pol, fl_sub (tested pol) (cleared pol) = false ->
    fst (run_steps pol fl_all [Builtin fl_none]) <> fst (run_steps pol fl_none [Builtin fl_none]).
Proof. exact ApiGlobalProofs.fp_reinit_necessary. Qed.
Print Assumptions fp_reinit_necessary.

(* string literals of a compile do not depend on the buffer an earlier compile left pending *)
Theorem scan_literals_independent_of_pending_buffer :
  forall pol, alloc_always pol = true ->
  forall src pend1 pend2, fst (compile_literals pol pend1 src) = fst (compile_literals pol pend2 src).
Proof. exact ApiGlobalProofs.scan_literals_independent. Qed.
Print Assumptions scan_literals_independent_of_pending_buffer.

Theorem eof_inside_literal_leaves_text :
  forall pol c d, eof_frees pol = false -> snd (compile_literals pol None [Quote; Ch c; Ch d]) = Some [c; d].
Proof. exact ApiGlobalProofs.eof_inside_literal_leaves_text. Qed.
Print Assumptions eof_inside_literal_leaves_text.

Theorem compile_leaves_nothing_pending :
  forall pol, eof_frees pol = true -> forall src, snd (compile_literals pol None src) = None.
Proof. exact ApiGlobalProofs.compile_leaves_nothing_pending. Qed.
Print Assumptions compile_leaves_nothing_pending.

Theorem scan_alloc_necessary :
  forall pol, alloc_always pol = false ->
    fst (compile_literals pol (Some [1]) [Quote; Quote]) <> fst (compile_literals pol None [Quote; Quote]).
Proof. exact ApiGlobalProofs.scan_alloc_necessary. Qed.
Print Assumptions scan_alloc_necessary.

(* any history: compiles (good or failing anywhere), calls on any VM, host arithmetic *)
Theorem process_history_independent_of_process_state :
  forall fp sp, reinitialises fp sp = true ->
  forall os p1 p2, alike sp p1 p2 -> fst (grun fp sp p1 os) = fst (grun fp sp p2 os).
Proof. exact ApiGlobalProofs.process_history_independent. Qed.
Print Assumptions process_history_independent_of_process_state.

Theorem process_history_as_in_fresh_process :
  forall fp sp, reinitialises fp sp = true ->
  forall pre os,
    fst (grun fp sp fresh_process (pre ++ os)) = fst (grun fp sp fresh_process pre) ++ fst (grun fp sp fresh_process os).
Proof. exact ApiGlobalProofs.process_history_as_in_fresh_process. Qed.
Print Assumptions process_history_as_in_fresh_process.

Theorem process_reinit_necessary :
  forall fp sp, reinitialises fp sp = false ->
  exists pre o,
    fst (grun fp sp fresh_process (pre ++ [o])) <> fst (grun fp sp fresh_process pre) ++ fst (grun fp sp fresh_process [o]).
Proof. exact ApiGlobalProofs.process_reinit_necessary. Qed.
Print Assumptions process_reinit_necessary.

(* ---- the hypotheses are satisfiable (the tree's policies before and since a3bcc72), the seeded policies violate them ---- *)
Example c15b_pinned_policies_reinitialise :
  reinitialises pinned_fp pinned_scan = true /\ reinitialises pinned_fp current_scan = true.
Proof. exact ApiGlobalProofs.pinned_policies_reinitialise. Qed.
Example c15b_narrowed_mask_does_not : reinitialises narrowed_fp current_scan = false.
Proof. exact ApiGlobalProofs.narrowed_mask_does_not. Qed.
Example c15b_guarded_allocation_does_not : reinitialises pinned_fp guarded_scan = false.
Proof. exact ApiGlobalProofs.guarded_allocation_does_not. Qed.
Example c15b_guarded_allocation_harmless_with_eof_rule : reinitialises pinned_fp guarded_eof_scan = true.
Proof. exact ApiGlobalProofs.guarded_allocation_harmless_with_eof_rule. Qed.
