(* Proofs about the function table model FuncTabModel.v (no axioms): corollaries of the dlcache
   theorems with no "host" entry (the two tables are the same code shape). *)
From Coq Require Import List Arith NArith Bool Lia Permutation.
From NV Require Import Hash.OpenTabModel Hash.OpenTabProofs Hash.DlCacheModel Hash.DlCacheProofs Hash.FuncTabModel.
Import ListNotations.

Section FuncTabProofs.
  Variable name : Type.
  Variable name_eqb : name -> name -> bool.
  Variable hash : name -> N.
  Variable V : Type.
  Hypothesis name_eqb_spec : forall a b, name_eqb a b = true <-> a = b.

  Lemma add_all_is_run_adds : forall l (t : functab name V),
      functab_add_all name name_eqb hash V t l = run_adds name name_eqb hash V t l.
  Proof.
    induction l as [|[id v] rest IH]; intros t; simpl.
    { reflexivity. }
    unfold functab_add_func, dlcache_add_dl.
    destruct (tab_add name name_eqb hash V t id v); reflexivity.
  Qed.

  (* any sequence of functab_add_func from functab_new(size >= 1): nothing aborts, every pair is
     stored, count = number of adds <= size*3/4, a lookup yields one of the payloads added under the id *)
  Theorem functab_add_sequences : forall size l,
      1 <= size ->
      exists t,
        functab_add_all name name_eqb hash V (functab_new name V size) l = Ok t /\
        Permutation (contents name V (t_entries t)) l /\
        t_count t = length l /\ t_count t <= t_size t * 3 / 4 /\
        forall id, match functab_lookup name name_eqb hash V t id with
                   | Some v => In (id, v) l
                   | None => ~ In id (map fst l)
                   end.
  Proof.
    intros size l Hsz.
    destruct (add_dl_sequences name name_eqb hash V name_eqb_spec size None l Hsz) as [c0 [c [Hn [Hr [Hp [Hc [Hle Hl]]]]]]].
    simpl in Hn. injection Hn as <-. simpl in *.
    exists c. rewrite add_all_is_run_adds. repeat split; assumption.
  Qed.

  (* distinct ids (what the typechecker guarantees for top-level functions): the table is the
     association list *)
  Theorem functab_distinct_refines_map : forall size l,
      1 <= size -> NoDup (map fst l) ->
      exists t,
        functab_add_all name name_eqb hash V (functab_new name V size) l = Ok t /\
        forall id, functab_lookup name name_eqb hash V t id = afind name name_eqb V l id.
  Proof.
    intros size l Hsz Hnd.
    destruct (adds_distinct_refine name name_eqb hash V name_eqb_spec size None l Hsz Hnd) as [c0 [c [Hn [Hr Hl]]]].
    simpl in Hn. injection Hn as <-. simpl in *.
    exists c. rewrite add_all_is_run_adds. split; assumption.
  Qed.
End FuncTabProofs.
