(* FFI/LayoutProofs.v — proofs about FFI/Layout.v (property C17).  No axioms.

   Main statements (re-exported by Properties/Properties_C17.v):
     layout_is_c_layout            the running-offset loop of vmffi.c yields the System V layout
     marshal_within_bounds         _record_value writes only inside [0, size) of the malloc'ed buffer
     marshal_unmarshal_roundtrip   _record_new o _record_value = identity on nil-free values
     marshal_ret_iff_nil           _record_value returns 1 exactly when the value contains a nil
     descriptor_stream_wellformed  emit.c descriptors re-parse to the type; total_count skips
                                   exactly the sub-tree of a nil record
     nil_arg_is_ffi_fail (+ _partial, _refuted for the pinned tree's `prep_vals = ...`)        *)
From Coq Require Import NArith PeanoNat List Bool Lia.
From NV Require Import FFI.Layout.
Import ListNotations.
Local Open Scope N_scope.

(* ---------------------------------------------------------------------------------------- *)
(* Induction over nested record types / values                                                *)

Lemma fty_ind' (P : fty -> Prop) :
  P TBool -> P TInt -> P TLong -> P TFloat -> P TDouble -> P TChar -> P TString -> P TCPtr ->
  (forall fs, Forall P fs -> P (TRec fs)) -> forall t, P t.
Proof.
  intros Hb Hi Hl Hf Hd Hc Hs Hp Hr.
  fix IH 1. intros [| | | | | | | |fs]; try assumption.
  apply Hr. induction fs as [|f r IHr]; constructor; [apply IH | exact IHr].
Qed.

Lemma fval_ind' (P : fval -> Prop) :
  (forall b, P (VScalar b)) -> (forall p, P (VStr p)) -> P (VRec None) ->
  (forall vs, Forall P vs -> P (VRec (Some vs))) -> forall v, P v.
Proof.
  intros Hs Hp Hn Hr.
  fix IH 1. intros [b|p|[vs|]]; [apply Hs | apply Hp | | exact Hn].
  apply Hr. induction vs as [|v r IHr]; constructor; [apply IH | exact IHr].
Qed.

Lemma forallb'_Forall {A} (p : A -> bool) l : forallb' p l = true <-> Forall (fun x => p x = true) l.
Proof.
  induction l as [|x r IH]; simpl.
  - split; auto.
  - rewrite andb_true_iff, IH. split.
    + intros [H1 H2]. constructor; auto.
    + intros H. inversion H; auto.
Qed.

(* ---------------------------------------------------------------------------------------- *)
(* Alignment arithmetic                                                                       *)

Definition pow2 (a : N) : Prop := exists k, a = 2 ^ k.

Lemma pow2_pos a : pow2 a -> 0 < a.
Proof. intros [k ->]. apply N.neq_0_lt_0. apply N.pow_nonzero. discriminate. Qed.

Lemma pow2_max a b : pow2 a -> pow2 b -> pow2 (N.max a b).
Proof. intros Ha Hb. destruct (N.max_dec a b) as [-> | ->]; auto. Qed.

Lemma pow2_divide a b : pow2 a -> pow2 b -> a <= b -> (a | b).
Proof.
  intros [i ->] [j ->] H.
  assert (i <= j) by (apply (N.pow_le_mono_r_iff 2); [lia | exact H]).
  exists (2 ^ (j - i)). rewrite <- N.pow_add_r. f_equal. lia.
Qed.

(* the bit trick of vm_execute_func_ffi_align is the rounding of libffi / the C ABI *)
Lemma ffi_align_round_up v a : pow2 a -> ffi_align v a = round_up v a.
Proof.
  intros [k ->]. unfold ffi_align, round_up.
  destruct (N.eqb_spec (2 ^ k) 1) as [E|E].
  - rewrite E. simpl. rewrite N.add_0_r, N.div_1_r, N.mul_1_r. reflexivity.
  - replace (2 ^ k - 1) with (N.ones k) by (rewrite N.ones_equiv; lia).
    rewrite N.ldiff_ones_r, N.shiftr_div_pow2, N.shiftl_mul_pow2. reflexivity.
Qed.

Lemma round_up_divide v a : 0 < a -> (a | round_up v a).
Proof. intros _. unfold round_up. exists ((v + (a - 1)) / a). reflexivity. Qed.

Lemma round_up_ge v a : 0 < a -> v <= round_up v a.
Proof.
  intros Ha. unfold round_up.
  pose proof (N.div_mod (v + (a - 1)) a ltac:(lia)) as D.
  pose proof (N.mod_lt (v + (a - 1)) a ltac:(lia)) as M.
  rewrite (N.mul_comm _ a). set (p := a * ((v + (a - 1)) / a)) in *. set (r := (v + (a - 1)) mod a) in *. clearbody p r. lia.
Qed.

Lemma round_up_lt v a : 0 < a -> round_up v a < v + a.
Proof.
  intros Ha. unfold round_up.
  pose proof (N.div_mod (v + (a - 1)) a ltac:(lia)) as D.
  pose proof (N.mod_lt (v + (a - 1)) a ltac:(lia)) as M.
  rewrite (N.mul_comm _ a). set (p := a * ((v + (a - 1)) / a)) in *. set (r := (v + (a - 1)) mod a) in *. clearbody p r. lia.
Qed.

Lemma round_up_least v a m : 0 < a -> (a | m) -> v <= m -> round_up v a <= m.
Proof.
  intros Ha [q ->] Hv. unfold round_up.
  apply N.mul_le_mono_r.
  assert (v + (a - 1) < (q + 1) * a) by nia.
  apply N.lt_succ_r. rewrite <- N.add_1_r. apply N.div_lt_upper_bound; lia.
Qed.

Lemma round_up_fix v a : 0 < a -> (a | v) -> round_up v a = v.
Proof.
  intros Ha Hd. apply N.le_antisymm.
  - apply round_up_least; auto. lia.
  - apply round_up_ge; auto.
Qed.

Lemma round_up_shift o v a : 0 < a -> (a | o) -> round_up (o + v) a = o + round_up v a.
Proof.
  intros Ha [q ->]. unfold round_up.
  replace (q * a + v + (a - 1)) with (q * a + (v + (a - 1))) by lia.
  rewrite N.div_add_l by lia. lia.
Qed.

(* offset o is the least multiple of a that is >= e *)
Definition least_aligned (e a o : N) : Prop :=
  (a | o) /\ e <= o /\ forall m, (a | m) -> e <= m -> o <= m.

Lemma ffi_align_least e a : pow2 a -> least_aligned e a (ffi_align e a).
Proof.
  intros Ha. rewrite ffi_align_round_up by auto. pose proof (pow2_pos _ Ha).
  repeat split.
  - apply round_up_divide; auto.
  - apply round_up_ge; auto.
  - intros m Hm He. apply round_up_least; auto.
Qed.

Lemma ffi_align_ge e a : pow2 a -> e <= ffi_align e a.
Proof. intros Ha. apply (ffi_align_least e a Ha). Qed.

Lemma ffi_align_lt e a : pow2 a -> ffi_align e a < e + a.
Proof. intros Ha. rewrite ffi_align_round_up by auto. apply round_up_lt, pow2_pos, Ha. Qed.

Lemma ffi_align_idem e a : pow2 a -> ffi_align (ffi_align e a) a = ffi_align e a.
Proof.
  intros Ha. rewrite !ffi_align_round_up by auto.
  apply round_up_fix; [apply pow2_pos, Ha | apply round_up_divide, pow2_pos, Ha].
Qed.

Lemma ffi_align_shift o v a : pow2 a -> (a | o) -> ffi_align (o + v) a = o + ffi_align v a.
Proof. intros Ha Ho. rewrite !ffi_align_round_up by auto. apply round_up_shift; auto. apply pow2_pos, Ha. Qed.

(* ---------------------------------------------------------------------------------------- *)
(* size / alignment of well-formed types                                                      *)

Definition max_align (fs : list fty) : N := fold_right (fun f acc => N.max (alignof f) acc) 0 fs.

Definition wf (t : fty) : Prop := wf_fty t = true.
Definition wfs (fs : list fty) : Prop := Forall wf fs.

Lemma wf_rec fs : wf (TRec fs) <-> fs <> [] /\ wfs fs.
Proof.
  unfold wf, wfs. simpl. rewrite andb_true_iff, forallb'_Forall.
  destruct fs; simpl; split; intros [H1 H2]; split; auto; congruence.
Qed.

Lemma agg_fold fs : forall s a, Forall (fun f => pow2 (alignof f)) fs ->
  fold_left agg_step (map sizeal fs) (s, a) = (fields_end fs s, N.max a (max_align fs)).
Proof.
  induction fs as [|f r IH]; intros s a H; simpl.
  - rewrite N.max_0_r. reflexivity.
  - inversion H as [|? ? Hf Hr]; subst.
    change (agg_step (s, a) (sizeal f))
      with (round_up s (alignof f) + sizeof f, N.max a (alignof f)).
    rewrite IH by auto.
    rewrite <- ffi_align_round_up by auto. f_equal. symmetry. apply N.max_assoc.
Qed.

Lemma max_align_pow2 fs : fs <> [] -> Forall (fun f => pow2 (alignof f)) fs -> pow2 (max_align fs).
Proof.
  induction fs as [|f r IH]; intros Hne H; [congruence|].
  inversion H as [|? ? Hf Hr]; subst. simpl.
  destruct r as [|g r'].
  - simpl. rewrite N.max_0_r. exact Hf.
  - apply pow2_max; auto. apply IH; auto. discriminate.
Qed.

Lemma sizeal_rec fs : Forall (fun f => pow2 (alignof f)) fs ->
  sizeal (TRec fs) = (round_up (fields_end fs 0) (max_align fs), max_align fs).
Proof.
  intros H. simpl. unfold agg. rewrite agg_fold by auto. simpl fst; simpl snd.
  rewrite N.max_0_l. reflexivity.
Qed.

Lemma alignof_pow2 t : wf t -> pow2 (alignof t).
Proof.
  induction t as [| | | | | | | |fs IH] using fty_ind'; intros Hwf;
    try (exists 0; reflexivity); try (exists 2; reflexivity); try (exists 3; reflexivity).
  apply wf_rec in Hwf. destruct Hwf as [Hne Hfs].
  assert (Hp : Forall (fun f => pow2 (alignof f)) fs).
  { unfold wfs in Hfs. rewrite Forall_forall in *. auto. }
  unfold alignof. rewrite sizeal_rec by auto. simpl. apply max_align_pow2; auto.
Qed.

Lemma wfs_pow2 fs : wfs fs -> Forall (fun f => pow2 (alignof f)) fs.
Proof. unfold wfs. rewrite !Forall_forall. intros H f Hf. apply alignof_pow2; auto. Qed.

Lemma alignof_rec fs : wfs fs -> alignof (TRec fs) = max_align fs.
Proof. intros H. unfold alignof. rewrite sizeal_rec by (apply wfs_pow2; auto). reflexivity. Qed.

Lemma sizeof_rec fs : wfs fs -> sizeof (TRec fs) = round_up (fields_end fs 0) (max_align fs).
Proof. intros H. unfold sizeof. rewrite sizeal_rec by (apply wfs_pow2; auto). reflexivity. Qed.

Lemma max_align_ge fs f : In f fs -> alignof f <= max_align fs.
Proof.
  induction fs as [|g r IH]; intros H; [contradiction|].
  simpl. destruct H as [->|H]; [lia|]. specialize (IH H). lia.
Qed.

(* every field alignment divides the alignment of the enclosing record *)
Lemma field_align_divides fs f : fs <> [] -> wfs fs -> In f fs -> (alignof f | max_align fs).
Proof.
  intros Hne Hfs Hin. apply pow2_divide.
  - apply alignof_pow2. unfold wfs in Hfs. rewrite Forall_forall in Hfs. auto.
  - apply max_align_pow2; auto. apply wfs_pow2; auto.
  - apply max_align_ge; auto.
Qed.

(* ---------------------------------------------------------------------------------------- *)
(* The running offset                                                                         *)

Lemma fields_end_ge fs : wfs fs -> forall b, b <= fields_end fs b.
Proof.
  induction fs as [|f r IH]; intros H b; simpl; [lia|].
  inversion H; subst. pose proof (ffi_align_ge b (alignof f) (alignof_pow2 f ltac:(auto))).
  specialize (IH ltac:(auto) (ffi_align b (alignof f) + sizeof f)). lia.
Qed.

(* translation: a record laid out at an offset that is a multiple of A (A a common multiple
   of all field alignments) is its layout at 0, shifted *)
Lemma fields_end_shift fs A o : wfs fs -> (forall f, In f fs -> (alignof f | A)) -> (A | o) ->
  forall x, fields_end fs (o + x) = o + fields_end fs x.
Proof.
  intros Hfs HA Ho. induction fs as [|f r IH]; intros x; simpl; [reflexivity|].
  inversion Hfs; subst.
  rewrite ffi_align_shift.
  - rewrite <- N.add_assoc. apply IH; auto. intros g Hg. apply HA. right. exact Hg.
  - apply alignof_pow2; auto.
  - eapply N.divide_trans; [apply HA; left; reflexivity | exact Ho].
Qed.

Lemma field_offsets_shift fs A o : wfs fs -> (forall f, In f fs -> (alignof f | A)) -> (A | o) ->
  forall x, field_offsets fs (o + x) = map (N.add o) (field_offsets fs x).
Proof.
  intros Hfs HA Ho. induction fs as [|f r IH]; intros x; simpl; [reflexivity|].
  inversion Hfs; subst.
  rewrite ffi_align_shift.
  - f_equal. rewrite <- N.add_assoc. apply IH; auto. intros g Hg. apply HA. right. exact Hg.
  - apply alignof_pow2; auto.
  - eapply N.divide_trans; [apply HA; left; reflexivity | exact Ho].
Qed.

(* the C layout rule as a relation: each offset is the least aligned one after the previous
   field; `e'` is the end of the last field *)
Inductive c_layout : list fty -> N -> list N -> N -> Prop :=
| cl_nil e : c_layout [] e [] e
| cl_cons f fs e o offs e' :
    least_aligned e (alignof f) o -> c_layout fs (o + sizeof f) offs e' ->
    c_layout (f :: fs) e (o :: offs) e'.

Lemma field_offsets_c_layout fs : wfs fs -> forall b,
  c_layout fs b (field_offsets fs b) (fields_end fs b).
Proof.
  induction fs as [|f r IH]; intros H b; simpl; [constructor|].
  inversion H; subst. constructor.
  - apply ffi_align_least, alignof_pow2; auto.
  - apply IH; auto.
Qed.

Lemma field_offsets_bounds fs : wfs fs -> forall b i oi fi,
  nth_error (field_offsets fs b) i = Some oi -> nth_error fs i = Some fi ->
  b <= oi /\ oi + sizeof fi <= fields_end fs b.
Proof.
  induction fs as [|f r IH]; intros H b i oi fi Ho Hf; [destruct i; discriminate|].
  inversion H; subst.
  pose proof (ffi_align_ge b (alignof f) (alignof_pow2 f ltac:(auto))) as G.
  destruct i as [|i]; simpl in *.
  - inversion Ho; inversion Hf; subst. split; [lia|]. apply fields_end_ge; auto.
  - destruct (IH ltac:(auto) _ _ _ _ Ho Hf). lia.
Qed.

Lemma field_offsets_disjoint fs : wfs fs -> forall b i j oi oj fi,
  (i < j)%nat -> nth_error (field_offsets fs b) i = Some oi ->
  nth_error (field_offsets fs b) j = Some oj -> nth_error fs i = Some fi ->
  oi + sizeof fi <= oj.
Proof.
  induction fs as [|f r IH]; intros H b i j oi oj fi Hij Hi Hj Hf; [destruct i; discriminate|].
  inversion H; subst.
  destruct j as [|j]; [lia|]. destruct i as [|i]; simpl in *.
  - inversion Hi; inversion Hf; subst.
    assert (exists fj, nth_error r j = Some fj) as [fj Hfj].
    { destruct (nth_error r j) eqn:E; eauto.
      apply nth_error_None in E.
      assert (length (field_offsets r (ffi_align b (alignof fi) + sizeof fi)) = length r).
      { clear. generalize (ffi_align b (alignof fi) + sizeof fi). induction r; intros; simpl; auto. }
      assert (nth_error (field_offsets r (ffi_align b (alignof fi) + sizeof fi)) j = None)
        by (apply nth_error_None; lia). congruence. }
    destruct (field_offsets_bounds r ltac:(auto) _ _ _ _ Hj Hfj). lia.
  - apply (IH ltac:(auto) (ffi_align b (alignof f) + sizeof f) i j oi oj fi); auto. lia.
Qed.

Lemma sizeof_pos t : wf t -> 0 < sizeof t.
Proof.
  induction t as [| | | | | | | |fs IH] using fty_ind'; intros Hw; try (vm_compute; reflexivity).
  apply wf_rec in Hw. destruct Hw as [Hne Hfs]. rewrite sizeof_rec by auto.
  destruct fs as [|g gr]; [congruence|].
  inversion Hfs as [|? ? Hg Hgr]; subst. inversion IH as [|? ? IHg _]; subst.
  assert (Hq : pow2 (max_align (g :: gr)))
    by (apply max_align_pow2; [discriminate | apply wfs_pow2; auto]).
  pose proof (round_up_ge (fields_end (g :: gr) 0) _ (pow2_pos _ Hq)) as R.
  simpl fields_end in *.
  pose proof (fields_end_ge gr Hgr (ffi_align 0 (alignof g) + sizeof g)).
  specialize (IHg Hg). lia.
Qed.

(* ---- layout_is_c_layout ---------------------------------------------------------------- *)
Theorem layout_is_c_layout : forall fs, wf (TRec fs) ->
  let t := TRec fs in
  let offs := field_offsets fs 0 in
  (* (1) each field offset is the least multiple of the field's alignment that is >= the end
         of the previous field (0 for the first) *)
  c_layout fs 0 offs (fields_end fs 0) /\
  (* (2) fields do not overlap: field i ends before field j > i starts *)
  (forall i j oi oj fi, (i < j)%nat -> nth_error offs i = Some oi -> nth_error offs j = Some oj ->
     nth_error fs i = Some fi -> oi + sizeof fi <= oj) /\
  (* (3) every field lies inside the struct *)
  (forall i oi fi, nth_error offs i = Some oi -> nth_error fs i = Some fi ->
     oi + sizeof fi <= sizeof t) /\
  (* (4) alignment = maximal field alignment; size = least multiple of it >= end of last field *)
  alignof t = max_align fs /\ (forall f, In f fs -> (alignof f | alignof t)) /\
  least_aligned (fields_end fs 0) (alignof t) (sizeof t) /\ 0 < sizeof t /\
  (* (5) nested use: placed at any offset o that is a multiple of its own alignment (that is
         where the enclosing loop puts it, by (1) for the enclosing record), the record's
         fields are laid out exactly as at 0, shifted by o, and the running offset never
         passes o + sizeof t, the value the C code resets it to *)
  (forall o, (alignof t | o) ->
     field_offsets fs o = map (N.add o) offs /\
     fields_end fs o = o + fields_end fs 0 /\ fields_end fs o <= o + sizeof t).
Proof.
  intros fs Hwf t offs. apply wf_rec in Hwf. destruct Hwf as [Hne Hfs].
  pose proof (alignof_rec fs Hfs) as HA. pose proof (sizeof_rec fs Hfs) as HS.
  assert (Hp : pow2 (max_align fs)) by (apply max_align_pow2; auto; apply wfs_pow2; auto).
  pose proof (pow2_pos _ Hp) as Hpos.
  assert (Hend : fields_end fs 0 <= sizeof t).
  { unfold t. rewrite HS. apply round_up_ge; auto. }
  assert (Hdiv : forall f, In f fs -> (alignof f | alignof t)).
  { intros f Hf. unfold t. rewrite HA. apply field_align_divides; auto. }
  split; [apply field_offsets_c_layout; auto|].
  split; [intros; eapply field_offsets_disjoint; eauto|].
  split.
  { intros i oi fi Ho Hf. destruct (field_offsets_bounds fs Hfs 0 i oi fi Ho Hf). lia. }
  split; [exact HA|]. split; [exact Hdiv|].
  split.
  { unfold t. rewrite HA, HS. repeat split.
    - apply round_up_divide; auto.
    - apply round_up_ge; auto.
    - intros m Hm He. apply round_up_least; auto. }
  split; [apply sizeof_pos; apply wf_rec; auto|].
  intros o Ho. unfold t in Ho. rewrite HA in Ho.
  assert (HAll : forall f, In f fs -> (alignof f | max_align fs)).
  { intros f Hf. apply field_align_divides; auto. }
  pose proof (field_offsets_shift fs _ o Hfs HAll Ho 0) as E1.
  pose proof (fields_end_shift fs _ o Hfs HAll Ho 0) as E2.
  rewrite N.add_0_r in E1, E2. repeat split; auto. lia.
Qed.

(* ---------------------------------------------------------------------------------------- *)
(* Byte buffer                                                                                *)

Lemma store_le_other n : forall m a v x, x < a \/ a + N.of_nat n <= x -> store_le m a n v x = m x.
Proof.
  induction n as [|k IH]; intros m a v x H; cbn [store_le]; [reflexivity|].
  rewrite IH by lia. destruct (N.eqb_spec x a); [lia | reflexivity].
Qed.

Lemma load_le_ext n : forall m m' a, (forall x, a <= x < a + N.of_nat n -> m x = m' x) ->
  load_le m a n = load_le m' a n.
Proof.
  induction n as [|k IH]; intros m m' a H; cbn [load_le]; [reflexivity|].
  rewrite (H a) by lia. f_equal. f_equal. apply IH. intros x Hx. apply H. lia.
Qed.

Lemma load_store_same n : forall m a v, v < 256 ^ N.of_nat n -> load_le (store_le m a n v) a n = v.
Proof.
  induction n as [|k IH]; intros m a v Hv.
  - cbn in *. lia.
  - cbn [store_le load_le].
    rewrite store_le_other by lia. rewrite N.eqb_refl.
    rewrite IH.
    + pose proof (N.div_mod v 256 ltac:(lia)). lia.
    + rewrite Nat2N.inj_succ, N.pow_succ_r' in Hv.
      apply N.div_lt_upper_bound; lia.
Qed.

(* ---------------------------------------------------------------------------------------- *)
(* marshal: final offset, frame, bounds                                                       *)

Lemma marshal_offset t v m off :
  snd (fst (marshal t v m off)) = ffi_align off (alignof t) + sizeof t.
Proof.
  destruct t; destruct v as [b|[p|]|[vs|]]; simpl; try reflexivity.
  destruct (marshal_fields_with marshal fs vs m _) as [[m' o'] r]. reflexivity.
Qed.

Lemma marshal_fields_offset fs : forall vs m off,
  snd (fst (marshal_fields fs vs m off)) = fields_end fs off.
Proof.
  unfold marshal_fields.
  induction fs as [|f r IH]; intros vs m off; simpl; [reflexivity|].
  pose proof (marshal_offset f (match vs with v :: _ => v | [] => VRec None end) m off) as E.
  destruct (marshal f _ m off) as [[m1 o1] r1]. simpl in E. subst o1.
  specialize (IH (match vs with _ :: r0 => r0 | [] => [] end) m1 (ffi_align off (alignof f) + sizeof f)).
  destruct (marshal_fields_with marshal r _ m1 _) as [[m2 o2] r2]. simpl in *. exact IH.
Qed.

Definition unchanged_outside (m m' : mem) (lo hi : N) : Prop :=
  forall x, x < lo \/ hi <= x -> m' x = m x.

Lemma fields_end_in_record fs o : wf (TRec fs) -> (alignof (TRec fs) | o) ->
  fields_end fs o <= o + sizeof (TRec fs).
Proof. intros Hwf Ho. apply (layout_is_c_layout fs Hwf); auto. Qed.

Lemma marshal_frame_fields fs :
  Forall (fun f => wf f -> forall v m off,
            unchanged_outside m (fst (fst (marshal f v m off)))
              (ffi_align off (alignof f)) (ffi_align off (alignof f) + sizeof f)) fs ->
  wfs fs -> forall vs m off,
  unchanged_outside m (fst (fst (marshal_fields fs vs m off))) off (fields_end fs off).
Proof.
  unfold marshal_fields.
  induction fs as [|f r IH]; intros HF Hfs vs m off; simpl; [intros x _; reflexivity|].
  inversion HF as [|? ? Hf Hr]; subst. inversion Hfs as [|? ? Wf Wr]; subst.
  set (v := match vs with v :: _ => v | [] => VRec None end).
  set (vr := match vs with _ :: r0 => r0 | [] => [] end).
  pose proof (Hf Wf v m off) as F1. pose proof (marshal_offset f v m off) as E1.
  destruct (marshal f v m off) as [[m1 o1] r1]. simpl in F1, E1. subst o1.
  pose proof (IH Hr Wr vr m1 (ffi_align off (alignof f) + sizeof f)) as F2.
  destruct (marshal_fields_with marshal r vr m1 _) as [[m2 o2] r2]. simpl in *.
  pose proof (ffi_align_ge off (alignof f) (alignof_pow2 f Wf)) as G.
  pose proof (fields_end_ge r Wr (ffi_align off (alignof f) + sizeof f)) as G2.
  intros x Hx. rewrite F2 by lia. apply F1. lia.
Qed.

Lemma marshal_frame t : wf t -> forall v m off,
  unchanged_outside m (fst (fst (marshal t v m off)))
    (ffi_align off (alignof t)) (ffi_align off (alignof t) + sizeof t).
Proof.
  induction t as [| | | | | | | |fs IH] using fty_ind'; intros Hwf v m off;
    try (destruct v as [b|[p|]|[vs|]]; cbn [marshal fst snd]; intros x Hx; try reflexivity;
         apply store_le_other; unfold nbytes; rewrite N2Nat.id; exact Hx).
  pose proof (alignof_pow2 _ Hwf) as Hp.
  destruct v as [b|[p|]|[vs|]]; cbn [marshal fst snd]; try (intros x Hx; reflexivity).
  set (o := ffi_align off (alignof (TRec fs))).
  pose proof (proj1 (wf_rec fs) Hwf) as [Hne Hfs].
  pose proof (marshal_frame_fields fs IH Hfs vs m o) as F. unfold marshal_fields in F.
  destruct (marshal_fields_with marshal fs vs m o) as [[m' o'] r]. cbn [fst snd] in *.
  assert (fields_end fs o <= o + sizeof (TRec fs)).
  { apply fields_end_in_record; auto. apply (ffi_align_least off _ Hp). }
  intros x Hx. apply F. lia.
Qed.

(* _record_value never writes outside the buffer malloc'ed with param_types[i]->size *)
Theorem marshal_within_bounds : forall fs vs, wf (TRec fs) ->
  forall x, sizeof (TRec fs) <= x -> fst (marshal_arg (TRec fs) (VRec (Some vs))) x = 0.
Proof.
  intros fs vs Hwf x Hx. unfold marshal_arg.
  pose proof (proj1 (wf_rec fs) Hwf) as [Hne Hfs].
  assert (HF : Forall (fun f => wf f -> forall v m off,
            unchanged_outside m (fst (fst (marshal f v m off)))
              (ffi_align off (alignof f)) (ffi_align off (alignof f) + sizeof f)) fs).
  { apply Forall_forall. intros f _ Wf. apply marshal_frame; auto. }
  pose proof (marshal_frame_fields fs HF Hfs vs zero_mem 0) as F.
  destruct (marshal_fields fs vs zero_mem 0) as [[m' o'] r]. simpl in *.
  pose proof (fields_end_in_record fs 0 Hwf (N.divide_0_r _)).
  rewrite F by lia. reflexivity.
Qed.

(* ---------------------------------------------------------------------------------------- *)
(* unmarshal: final offset, dependence on the record's bytes only                             *)

Lemma unmarshal_offset t m off :
  snd (unmarshal t m off) = ffi_align off (alignof t) + sizeof t.
Proof.
  destruct t; simpl; try reflexivity.
  destruct (unmarshal_fields_with unmarshal fs m _) as [vs o']. reflexivity.
Qed.

Lemma unmarshal_fields_offset fs : forall m off,
  snd (unmarshal_fields fs m off) = fields_end fs off.
Proof.
  unfold unmarshal_fields.
  induction fs as [|f r IH]; intros m off; simpl; [reflexivity|].
  pose proof (unmarshal_offset f m off) as E.
  destruct (unmarshal f m off) as [v o1]. simpl in E. subst o1.
  specialize (IH m (ffi_align off (alignof f) + sizeof f)).
  destruct (unmarshal_fields_with unmarshal r m _) as [vs o2]. simpl in *. exact IH.
Qed.

Definition agree (m m' : mem) (lo hi : N) : Prop := forall x, lo <= x < hi -> m x = m' x.

Lemma unmarshal_ext_fields fs :
  Forall (fun f => wf f -> forall m m' off,
            agree m m' (ffi_align off (alignof f)) (ffi_align off (alignof f) + sizeof f) ->
            unmarshal f m off = unmarshal f m' off) fs ->
  wfs fs -> forall m m' off, agree m m' off (fields_end fs off) ->
  unmarshal_fields fs m off = unmarshal_fields fs m' off.
Proof.
  unfold unmarshal_fields.
  induction fs as [|f r IH]; intros HF Hfs m m' off A; simpl; [reflexivity|].
  inversion HF as [|? ? Hf Hr]; subst. inversion Hfs as [|? ? Wf Wr]; subst.
  pose proof (ffi_align_ge off (alignof f) (alignof_pow2 f Wf)) as G.
  pose proof (fields_end_ge r Wr (ffi_align off (alignof f) + sizeof f)) as G2.
  simpl in A.
  rewrite (Hf Wf m m' off) by (intros x Hx; apply A; lia).
  pose proof (unmarshal_offset f m' off) as E.
  destruct (unmarshal f m' off) as [v o1]. simpl in E. subst o1.
  rewrite (IH Hr Wr m m' _) by (intros x Hx; apply A; lia).
  reflexivity.
Qed.

Lemma unmarshal_ext t : wf t -> forall m m' off,
  agree m m' (ffi_align off (alignof t)) (ffi_align off (alignof t) + sizeof t) ->
  unmarshal t m off = unmarshal t m' off.
Proof.
  induction t as [| | | | | | | |fs IH] using fty_ind'; intros Hwf m m' off A;
    try (cbn [unmarshal];
         rewrite (load_le_ext _ m m' _);
         [reflexivity | intros x Hx; apply A; unfold nbytes in Hx; rewrite N2Nat.id in Hx; exact Hx]).
  pose proof (alignof_pow2 _ Hwf) as Hp.
  pose proof (proj1 (wf_rec fs) Hwf) as [Hne Hfs].
  cbn [unmarshal].
  rewrite ffi_align_idem by auto.
  set (o := ffi_align off (alignof (TRec fs))) in *.
  assert (fields_end fs o <= o + sizeof (TRec fs)).
  { apply fields_end_in_record; auto. apply (ffi_align_least off _ Hp). }
  pose proof (unmarshal_ext_fields fs IH Hfs m m' o) as E. unfold unmarshal_fields in E.
  rewrite E by (intros x Hx; apply A; lia). reflexivity.
Qed.

(* ---------------------------------------------------------------------------------------- *)
(* _record_value's return value: 1 exactly when the value contains a nil                      *)

Lemma marshal_ret_fields fs :
  Forall (fun f => forall v m off, has_type f v = true ->
            snd (marshal f v m off) = contains_nil v) fs ->
  forall vs m off, forall2b has_type fs vs = true ->
  snd (marshal_fields fs vs m off) = existsb' contains_nil vs.
Proof.
  unfold marshal_fields.
  induction fs as [|f r IH]; intros HF vs m off HT; destruct vs as [|v vr];
    try discriminate; [reflexivity|].
  inversion HF as [|? ? Hf Hr]; subst.
  cbn [forall2b] in HT. apply andb_true_iff in HT. destruct HT as [T1 T2].
  cbn [marshal_fields_with existsb'].
  pose proof (Hf v m off T1) as E1.
  destruct (marshal f v m off) as [[m1 o1] r1]. cbn [snd] in E1.
  pose proof (IH Hr vr m1 o1 T2) as E2.
  destruct (marshal_fields_with marshal r vr m1 o1) as [[m2 o2] r2]. cbn [snd] in *.
  congruence.
Qed.

Theorem marshal_ret_iff_nil : forall t v m off, has_type t v = true ->
  snd (marshal t v m off) = contains_nil v.
Proof.
  induction t as [| | | | | | | |fs IH] using fty_ind'; intros v m off HT;
    try (destruct v as [b|[p|]|[vs|]]; cbn in HT; try discriminate; reflexivity).
  destruct v as [b|[p|]|[vs|]]; cbn [has_type] in HT; try discriminate; [|reflexivity].
  cbn [marshal contains_nil].
  pose proof (marshal_ret_fields fs IH vs m (ffi_align off (alignof (TRec fs))) HT) as E.
  unfold marshal_fields in E.
  destruct (marshal_fields_with marshal fs vs m _) as [[m' o'] r]. exact E.
Qed.

(* ---------------------------------------------------------------------------------------- *)
(* Round trip                                                                                 *)

Definition roundtrips (f : fty) : Prop :=
  wf f -> forall v m off, has_type f v = true -> contains_nil v = false ->
  snd (marshal f v m off) = false /\
  fst (unmarshal f (fst (fst (marshal f v m off))) off) = v.

Lemma marshal_frame_all fs :
  Forall (fun f => wf f -> forall v m off,
            unchanged_outside m (fst (fst (marshal f v m off)))
              (ffi_align off (alignof f)) (ffi_align off (alignof f) + sizeof f)) fs.
Proof. apply Forall_forall. intros f _ Wf. apply marshal_frame; auto. Qed.

Lemma roundtrip_fields fs : Forall roundtrips fs -> wfs fs ->
  forall vs m off, forall2b has_type fs vs = true -> existsb' contains_nil vs = false ->
  snd (marshal_fields fs vs m off) = false /\
  fst (unmarshal_fields fs (fst (fst (marshal_fields fs vs m off))) off) = vs.
Proof.
  unfold marshal_fields, unmarshal_fields.
  induction fs as [|f r IH]; intros HF Hfs vs m off HT HN; destruct vs as [|v vr];
    try discriminate; [split; reflexivity|].
  inversion HF as [|? ? Hf Hr]; subst. inversion Hfs as [|? ? Wf Wr]; subst.
  cbn [forall2b] in HT. apply andb_true_iff in HT. destruct HT as [T1 T2].
  cbn [existsb'] in HN. apply orb_false_iff in HN. destruct HN as [N1 N2].
  cbn [marshal_fields_with].
  pose proof (Hf Wf v m off T1 N1) as [R1 U1].
  pose proof (marshal_offset f v m off) as O1.
  destruct (marshal f v m off) as [[m1 o1] r1]. cbn [fst snd] in R1, U1, O1. subst o1 r1.
  set (o1 := ffi_align off (alignof f) + sizeof f) in *.
  pose proof (IH Hr Wr vr m1 o1 T2 N2) as [R2 U2].
  pose proof (marshal_frame_fields r (marshal_frame_all r) Wr vr m1 o1) as F2.
  unfold marshal_fields in F2.
  destruct (marshal_fields_with marshal r vr m1 o1) as [[m2 o2] r2]. cbn [fst snd] in *.
  subst r2. split; [reflexivity|].
  cbn [unmarshal_fields_with].
  assert (E : unmarshal f m2 off = unmarshal f m1 off).
  { apply unmarshal_ext; auto. intros x Hx. apply F2. unfold o1. lia. }
  rewrite E. pose proof (unmarshal_offset f m1 off) as O1'.
  destruct (unmarshal f m1 off) as [v' o1']. cbn [fst snd] in *. subst v' o1'.
  fold o1. destruct (unmarshal_fields_with unmarshal r m2 o1) as [vs' o2']. cbn [fst] in *.
  congruence.
Qed.

Lemma scalar_roundtrip t b m o : b < 256 ^ N.of_nat (nbytes t) ->
  load_le (store_le m o (nbytes t) b) o (nbytes t) = b.
Proof. apply load_store_same. Qed.

Theorem marshal_unmarshal_roundtrip_nested : forall t, roundtrips t.
Proof.
  unfold roundtrips.
  induction t as [| | | | | | | |fs IH] using fty_ind'; intros Hwf v m off HT HN;
    try (destruct v as [b|[p|]|[vs|]]; cbn [has_type] in HT; try discriminate;
         cbn [contains_nil] in HN; try discriminate;
         cbn [marshal unmarshal fst snd]; split; [reflexivity|];
         rewrite scalar_roundtrip; [reflexivity | apply N.ltb_lt in HT; exact HT]).
  - (* bool: 0/1 through one byte *)
    destruct v as [b|[p|]|[vs|]]; cbn [has_type] in HT; try discriminate.
    cbn [marshal unmarshal fst snd]. split; [reflexivity|].
    rewrite scalar_roundtrip; [reflexivity|]. apply N.ltb_lt in HT.
    change (256 ^ N.of_nat (nbytes TBool)) with 256. lia.
  - (* record *)
    destruct v as [b|[p|]|[vs|]]; cbn [has_type] in HT; try discriminate;
      cbn [contains_nil] in HN; try discriminate.
    pose proof (alignof_pow2 _ Hwf) as Hp.
    pose proof (proj1 (wf_rec fs) Hwf) as [Hne Hfs].
    cbn [marshal].
    set (o := ffi_align off (alignof (TRec fs))).
    assert (HF : Forall roundtrips fs) by exact IH.
    pose proof (roundtrip_fields fs HF Hfs vs m o HT HN) as [R U].
    unfold marshal_fields, unmarshal_fields in R, U.
    destruct (marshal_fields_with marshal fs vs m o) as [[m' o'] r] eqn:EM.
    cbn [fst snd] in *. split; [exact R|].
    cbn [unmarshal]. fold o. unfold o at 1. rewrite ffi_align_idem by auto. fold o.
    destruct (unmarshal_fields_with unmarshal fs m' o) as [vs' o2]. cbn [fst] in *.
    congruence.
Qed.

Lemma ffi_align_0 a : pow2 a -> ffi_align 0 a = 0.
Proof.
  intros Ha. rewrite ffi_align_round_up by auto.
  apply round_up_fix; [apply pow2_pos, Ha | apply N.divide_0_r].
Qed.

(* as used by vm_execute_func_ffi: fresh zeroed buffer, offset 0, then _record_new from 0 *)
Theorem marshal_unmarshal_roundtrip : forall fs vs,
  wf (TRec fs) -> has_type (TRec fs) (VRec (Some vs)) = true ->
  contains_nil (VRec (Some vs)) = false ->
  snd (marshal_arg (TRec fs) (VRec (Some vs))) = false /\
  unmarshal_ret (TRec fs) (fst (marshal_arg (TRec fs) (VRec (Some vs)))) = VRec (Some vs).
Proof.
  intros fs vs Hwf HT HN.
  pose proof (marshal_unmarshal_roundtrip_nested (TRec fs) Hwf (VRec (Some vs)) zero_mem 0 HT HN)
    as [R U].
  pose proof (alignof_pow2 _ Hwf) as Hp.
  unfold marshal_arg, unmarshal_ret, marshal_fields.
  cbn [marshal] in R, U. rewrite ffi_align_0 in R, U by auto.
  destruct (marshal_fields_with marshal fs vs zero_mem 0) as [[m' o'] r].
  cbn [fst snd] in *. split; assumption.
Qed.

(* ---------------------------------------------------------------------------------------- *)
(* Descriptor stream                                                                          *)

Lemma emit_total t : snd (emit_param t) = N.of_nat (length (fst (emit_param t))).
Proof.
  induction t as [| | | | | | | |fs IH] using fty_ind'; try reflexivity.
  cbn [emit_param fst snd length].
  assert (E : snd (emit_list_with emit_param fs) =
              N.of_nat (length (fst (emit_list_with emit_param fs)))).
  { induction fs as [|f r IHr]; [reflexivity|]. inversion IH as [|? ? Hf Hr]; subst.
    cbn [emit_list_with fst snd]. rewrite app_length, Nat2N.inj_add, Hf, IHr by auto. reflexivity. }
  rewrite E. lia.
Qed.

Lemma parse_emit_fields k fs :
  Forall (fun f => forall k rest, (depth f < k)%nat ->
            parse_type k (fst (emit_param f) ++ rest) = Some (f, rest)) fs ->
  (max_depth_with depth fs < k)%nat -> forall rest,
  parse_n (parse_type k) (length fs) (fst (emit_list_with emit_param fs) ++ rest) = Some (fs, rest).
Proof.
  induction fs as [|f r IH]; intros HF Hd rest; [reflexivity|].
  inversion HF as [|? ? Hf Hr]; subst. cbn [max_depth_with] in Hd.
  cbn [emit_list_with fst length parse_n]. rewrite <- app_assoc.
  rewrite Hf by lia. rewrite IH by (auto; lia). reflexivity.
Qed.

Lemma parse_emit t : forall k rest, (depth t < k)%nat ->
  parse_type k (fst (emit_param t) ++ rest) = Some (t, rest).
Proof.
  induction t as [| | | | | | | |fs IH] using fty_ind'; intros k rest Hk;
    try (destruct k; [lia | reflexivity]).
  destruct k as [|k]; [lia|]. cbn [depth] in Hk.
  cbn [emit_param fst]. rewrite <- app_comm_cons. cbn [parse_type].
  rewrite Nat2N.id. rewrite parse_emit_fields by (auto; lia). reflexivity.
Qed.

Theorem descriptor_stream_wellformed : forall t rest,
  (* total_count is the number of descriptors emitted for the parameter *)
  snd (emit_param t) = N.of_nat (length (fst (emit_param t))) /\
  (* _record_type re-reads exactly the declared type and stops right after it *)
  parse_type (S (depth t)) (fst (emit_param t) ++ rest) = Some (t, rest) /\
  (* nil record: after the DRec descriptor, `ip += total_count - 1` lands exactly where
     walking the sub-tree would have ended *)
  (forall fs, t = TRec fs -> exists total body,
     fst (emit_param t) = DRec (N.of_nat (length fs)) total :: body /\
     skip_nil_record total (body ++ rest) = rest).
Proof.
  intros t rest. split; [apply emit_total|]. split; [apply parse_emit; lia|].
  intros fs ->. pose proof (emit_total (TRec fs)) as E. cbn [emit_param fst snd length] in *.
  eexists _, _. split; [reflexivity|].
  unfold skip_nil_record. rewrite E.
  replace (N.to_nat (N.of_nat (S (length (fst (emit_list_with emit_param fs)))) - 1))
    with (length (fst (emit_list_with emit_param fs))) by lia.
  rewrite skipn_app, skipn_all, Nat.sub_diag. reflexivity.
Qed.

(* ---------------------------------------------------------------------------------------- *)
(* Decision logic                                                                             *)

Definition arg_typed (a : fty * fval) : Prop := has_type (fst a) (snd a) = true.
Definition arg_nil (a : fty * fval) : bool := contains_nil (snd a).

Lemma marshal_arg_ret fs vs : has_type (TRec fs) (VRec (Some vs)) = true ->
  snd (marshal_arg (TRec fs) (VRec (Some vs))) = existsb' contains_nil vs.
Proof.
  intros HT. cbn [has_type] in HT. unfold marshal_arg.
  assert (HF : Forall (fun f => forall v m off, has_type f v = true ->
            snd (marshal f v m off) = contains_nil v) fs).
  { apply Forall_forall. intros f _ v m off. apply marshal_ret_iff_nil. }
  pose proof (marshal_ret_fields fs HF vs zero_mem 0 HT) as E.
  destruct (marshal_fields fs vs zero_mem 0) as [[m o] r]. exact E.
Qed.

Lemma prep_vals_accumulate args : Forall arg_typed args -> forall pv,
  prep_vals true args pv = pv || existsb' arg_nil args.
Proof.
  induction args as [|[t v] r IH]; intros HT pv; cbn [prep_vals existsb'].
  - rewrite orb_false_r. reflexivity.
  - inversion HT as [|? ? Ha Hr]; subst. unfold arg_typed, arg_nil in *. cbn [fst snd] in *.
    destruct t; try (destruct v as [b|[p|]|[vs|]]; cbn in Ha; try discriminate;
                     rewrite IH by auto; cbn [contains_nil];
                     rewrite ?orb_false_l, ?orb_true_l, ?orb_true_r; reflexivity).
    destruct v as [b|[p|]|[vs|]]; cbn [has_type] in Ha; try discriminate; rewrite IH by auto.
    + rewrite marshal_arg_ret by exact Ha. cbn [contains_nil]. symmetry. apply orb_assoc.
    + cbn [contains_nil]. rewrite orb_true_l, orb_true_r. reflexivity.
Qed.

(* with `prep_vals |= ...`: a call happens exactly when nothing is missing and nothing is nil *)
Theorem nil_arg_is_ffi_fail : forall args prep lib sym, Forall arg_typed args ->
  (ffi_outcome true prep args lib sym = Called <->
   prep = true /\ existsb' arg_nil args = false /\ lib = true /\ sym = true).
Proof.
  intros args prep lib sym HT. unfold ffi_outcome.
  rewrite prep_vals_accumulate by auto. cbn [orb].
  destruct prep, (existsb' arg_nil args), lib, sym; cbn; split; intros H;
    try discriminate; try reflexivity; try (repeat split; reflexivity);
    destruct H as (?&?&?&?); discriminate.
Qed.

(* the pinned tree (`prep_vals = record_value(...)`): ffi_fail is still guaranteed when no
   record argument follows the nil one ... *)
Lemma prep_vals_no_rec acc post : forallb' (fun b => negb (is_rec (fst b))) post = true ->
  prep_vals acc post true = true.
Proof.
  induction post as [|[t v] r IH]; intros H; [reflexivity|].
  cbn [forallb' fst] in H. apply andb_true_iff in H. destruct H as [H1 H2].
  destruct t; cbn [is_rec negb] in H1; try discriminate; cbn [prep_vals];
    try (apply IH; exact H2).
  destruct v as [b|[p|]|[vs|]]; apply IH; exact H2.
Qed.

Lemma prep_vals_nil_head acc a post pv : arg_typed a -> arg_nil a = true ->
  forallb' (fun b => negb (is_rec (fst b))) post = true ->
  prep_vals acc (a :: post) pv = true.
Proof.
  destruct a as [t v]. unfold arg_typed, arg_nil. cbn [fst snd]. intros HT HN Hpost.
  destruct t; destruct v as [b|[p|]|[vs|]]; cbn in HT; try discriminate;
    cbn [contains_nil] in HN; try discriminate; cbn [prep_vals];
    try (apply prep_vals_no_rec; exact Hpost).
  rewrite marshal_arg_ret by exact HT. rewrite HN.
  destruct acc; rewrite ?orb_true_r; apply prep_vals_no_rec; exact Hpost.
Qed.

Lemma prep_vals_app acc pre : forall l pv, (forall pv', prep_vals acc l pv' = true) ->
  prep_vals acc (pre ++ l) pv = true.
Proof.
  induction pre as [|[t v] r IH]; intros l pv H; [apply H|].
  cbn [app prep_vals]. destruct t; try (apply IH; exact H);
    destruct v as [b|[p|]|[vs|]]; apply IH; exact H.
Qed.

Theorem nil_arg_is_ffi_fail_partial : forall acc pre a post prep lib sym,
  arg_typed a -> arg_nil a = true ->
  forallb' (fun b => negb (is_rec (fst b))) post = true ->
  ffi_outcome acc prep (pre ++ a :: post) lib sym = FfiFail.
Proof.
  intros acc pre a post prep lib sym HT HN Hpost. unfold ffi_outcome.
  destruct prep; [|reflexivity]. cbn [negb].
  rewrite prep_vals_app; [reflexivity|].
  intros pv'. apply prep_vals_nil_head; auto.
Qed.

(* ... and it is NOT guaranteed in general: a nil string followed by a non-nil record *)
Theorem nil_arg_is_ffi_fail_refuted : exists args,
  Forall arg_typed args /\ existsb' arg_nil args = true /\
  ffi_outcome false true args true true = Called.
Proof.
  exists [(TString, VStr None); (TRec [TInt; TInt], VRec (Some [VScalar 1; VScalar 2]))].
  split; [repeat constructor|]. split; vm_compute; reflexivity.
Qed.

(* ---------------------------------------------------------------------------------------- *)
(* No 32-bit wrap-around of the `unsigned int` offsets                                        *)

Definition ndesc (t : fty) : N := N.of_nat (length (fst (emit_param t))).

Lemma alignof_le_8 t : wf t -> alignof t <= 8.
Proof.
  induction t as [| | | | | | | |fs IH] using fty_ind'; intros Hwf;
    try (vm_compute; discriminate).
  pose proof (proj1 (wf_rec fs) Hwf) as [Hne Hfs]. rewrite alignof_rec by auto.
  clear Hne Hwf. induction fs as [|f r IHr]; cbn [max_align fold_right]; [lia|].
  inversion IH; inversion Hfs; subst. fold (max_align r).
  specialize (IHr ltac:(auto) ltac:(auto)). specialize (H1 ltac:(auto)). lia.
Qed.

Lemma fields_end_bound fs :
  Forall (fun f => wf f -> sizeof f + 7 <= 16 * ndesc f) fs -> wfs fs -> forall b,
  fields_end fs b <= b + 16 * N.of_nat (length (fst (emit_list_with emit_param fs))).
Proof.
  induction fs as [|f r IH]; intros HF Hfs b; cbn [fields_end emit_list_with fst length]; [lia|].
  inversion HF as [|? ? Hf Hr]; inversion Hfs as [|? ? Wf Wr]; subst.
  specialize (IH Hr Wr (ffi_align b (alignof f) + sizeof f)). specialize (Hf Wf).
  pose proof (ffi_align_lt b (alignof f) (alignof_pow2 f Wf)).
  pose proof (alignof_le_8 f Wf). unfold ndesc in Hf.
  rewrite app_length, Nat2N.inj_add. lia.
Qed.

Theorem sizeof_bound : forall t, wf t -> sizeof t + 7 <= 16 * ndesc t.
Proof.
  induction t as [| | | | | | | |fs IH] using fty_ind'; intros Hwf;
    try (vm_compute; discriminate).
  pose proof (proj1 (wf_rec fs) Hwf) as [Hne Hfs].
  pose proof (fields_end_bound fs IH Hfs 0) as B.
  pose proof (alignof_le_8 _ Hwf) as A8. rewrite alignof_rec in A8 by auto.
  rewrite sizeof_rec by auto.
  assert (Hp : pow2 (max_align fs)) by (apply max_align_pow2; auto; apply wfs_pow2; auto).
  pose proof (round_up_lt (fields_end fs 0) _ (pow2_pos _ Hp)).
  unfold ndesc. cbn [emit_param fst length]. rewrite Nat2N.inj_succ. lia.
Qed.

(* the alignment step, as used: for every alignment that can occur *)
Theorem ffi_align_is_round_up : forall t v, wf t ->
  least_aligned v (alignof t) (ffi_align v (alignof t)).
Proof. intros t v H. apply ffi_align_least, alignof_pow2, H. Qed.
