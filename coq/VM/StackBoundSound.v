(* The write-plan table (VM/StackBound.v) agrees with the stack-effect table of the shape machine
   (Verifier/Effect.v `decode`): whenever the shape machine accepts a step, the plan of the
   executed instruction moves sp exactly as observed, finds its operands, and the observed delta
   has the sign the handler's shape requires.  Hence `all_consistent` holds for every run of the
   shape machine under the check-first variant, with no assumption on the program: the hypotheses of
   limit_fires_iff_needed are discharged, and on verified code (Verifier/VerifySound.v) a run under
   any configured stack size neither crashes nor writes outside the stack.  No axioms. *)
From Coq Require Import ZArith List Arith Bool Lia.
From NV Require Import Gen.Opcodes Verifier.Shape Verifier.Effect Verifier.Verify Verifier.VerifySound.
From NV Require Import VM.StackBound VM.StackBoundProofs VM.StackBoundRun.
Import ListNotations.
Local Open Scope Z_scope.

(* operands a straight-line shape pops at most *)
Definition shape_needs (s : shape) : option Z :=
  match s with
  | ShNone | ShPush1 | ShPushN _ | ShDup | ShAlloc _ | ShRead => Some 0
  | ShTop | ShRewrite | ShUnpack _ => Some 1
  | ShBinary | ShPopTop => Some 2
  | ShPop k | ShPopPush k => Some k
  | ShRangeDeref d => Some (d + 1)
  | _ => None
  end.

Lemma no_underflow_rep_push1 : forall n sp, -1 <= sp -> no_underflow sp (rep n push1) = true.
Proof.
  induction n; intros sp H; cbn [rep]; [reflexivity|]. cbn.
  assert (E : (0 <=? sp + 1 + 0) = true) by (apply Z.leb_le; lia). rewrite E. cbn. apply IHn. lia.
Qed.

Lemma no_underflow_rep_up : forall n sp, -1 <= sp -> no_underflow sp (rep n [Bump 1; Write 0]) = true.
Proof.
  induction n; intros sp H; cbn [rep]; [reflexivity|]. cbn.
  assert (E : (0 <=? sp + 1 + 0) = true) by (apply Z.leb_le; lia). rewrite E. cbn. apply IHn. lia.
Qed.

Lemma no_underflow_writes_down : forall n o sp, 0 <= sp + o - Z.of_nat n + 1 -> no_underflow sp (writes_down n o) = true.
Proof.
  induction n; intros o sp H; [reflexivity|]. cbn [writes_down no_underflow].
  assert (E : (0 <=? sp + o) = true) by (apply Z.leb_le; lia). rewrite E. cbn. apply IHn. lia.
Qed.

(* a straight-line shape whose operands are there: the checked plan has the tabulated net effect
   and never writes below slot 0 *)
Ltac red_plan :=
  unfold push1, top, binary, pop, poppush, dup_checked, read_checked, mark_checked;
  cbn [net no_underflow app].

Ltac leb_goal := repeat (apply andb_true_iff; split); try reflexivity; try (apply Z.leb_le; lia).

Lemma shape_needs_ok : forall s needs sp,
  shape_needs s = Some needs -> 0 <= needs -> needs <= sp + 1 ->
  shape_delta_ok s = true ->
  no_underflow sp (shape_plan checked s) = true.
Proof.
  intros s needs sp E Hn Hs HD.
  destruct s; unfold shape_needs in E; try discriminate; injection E as <-;
    unfold shape_plan, shape_delta_ok, checked in *;
    try solve [red_plan; leb_goal].
  - (* ShPushN *) apply no_underflow_rep_push1. lia.
  - (* ShAlloc *) apply no_underflow_rep_push1. lia.
  - (* ShUnpack *) unfold unpack_checked. cbn [app no_underflow]. apply no_underflow_writes_down. lia.
Qed.

(* ---- the two tables agree ---------------------------------------------------------------------- *)

Lemma zn_some : forall z n, zn z = Some n -> 0 <= z /\ n = Z.to_nat z.
Proof. intros z n H. unfold zn in H. destruct (z <? 0) eqn:E; [discriminate|]. apply Z.ltb_ge in E. inversion H. auto. Qed.

Definition straight (i : rinstr) (delta : Z) (pops : nat) : Prop :=
  linear (r_op i) = true /\
  exists needs, shape_needs (shape_of i delta) = Some needs /\ 0 <= needs <= Z.of_nat pops /\
                net (shape_plan checked (shape_of i delta)) = delta /\
                shape_delta_ok (shape_of i delta) = true.

Definition compat (a : ainstr) (i : rinstr) (delta : Z) : Prop :=
  match a with
  | AOp _ pops pushes => delta = Z.of_nat pushes - Z.of_nat pops -> straight i delta pops
  | AJump _ => shape_of i delta = ShNone
  | AJumpz _ => shape_of i delta = ShPop 1
  | AMark _ => shape_of i delta = ShMark
  | ACall => shape_of i delta = ShMove delta
  | ARet _ | ARethrow => shape_of i delta = ShRet delta
  | AClear _ => shape_of i delta = ShMove delta
  | ASlide q m => shape_of i delta = ShSlide (Z.of_nat q) (Z.of_nat m)
  | AMkFunc _ => shape_of i delta = ShTop
  | APushParam => shape_of i delta = ShPushN (unat delta)
  | AFfi _ => shape_of i delta = ShPopPush (1 - delta) /\ linear (r_op i) = true
  | AHalt | AUnhandled | ABad => True
  end.

Ltac zn_facts :=
  repeat match goal with
  | H : zn _ = Some _ |- _ => apply zn_some in H; destruct H
  | H : local_off _ = Some _ |- _ => unfold local_off in H
  end.

Ltac straight_goal :=
  intros Hd; split; [reflexivity|];
  unfold shape_of, builtin_shape; cbn [r_op r_w0 r_w1];
  repeat match goal with H : ?c = _ |- context [?c] => rewrite H end;
  eexists; split; [reflexivity|];
  unfold shape_plan, shape_delta_ok, checked, alloc_checked, unpack_checked, unat;
  rewrite ?net_app, ?net_rep, ?net_writes_down; red_plan;
  repeat split; try lia; try (apply Z.leb_le; lia).

Lemma decode_compat : forall prog a i ai delta,
  nth_error prog a = Some i -> decode prog a = Some ai -> compat ai i delta.
Proof.
  intros prog a [op w0 w1 w2] ai delta Hn Hd. unfold decode in Hd. rewrite Hn in Hd.
  cbn [r_op r_w0 r_w1] in Hd. injection Hd as Hd.
  destruct op; unfold op1, builtin_effect in Hd; cbn [r_op r_w0 r_w1] in Hd;
    repeat match type of Hd with context [match ?c with _ => _ end] => destruct c eqn:? end;
    subst ai; unfold compat; try exact I; zn_facts; subst;
    try (unfold shape_of; cbn [r_op r_w0 r_w1]; first [reflexivity | split; reflexivity]);
    try solve [straight_goal].
  (* SLIDE *)
  unfold shape_of; cbn [r_op r_w0 r_w1]; f_equal; lia.
Qed.

(* ---- every accepted step of the shape machine is consistent with its write plan ---------------- *)

Ltac split_step H :=
  repeat match type of H with
  | context [match ?c with _ => _ end] => destruct c eqn:?; try discriminate
  end.

Ltac boolfacts :=
  repeat match goal with
  | H : negb _ = false |- _ => apply negb_false_iff in H
  | H : negb _ = true |- _ => apply negb_true_iff in H
  | H : _ && _ = true |- _ => apply andb_true_iff in H; destruct H
  | H : (_ =? _)%nat = true |- _ => apply Nat.eqb_eq in H
  | H : (_ =? _)%nat = false |- _ => apply Nat.eqb_neq in H
  | H : (_ <=? _)%nat = true |- _ => apply Nat.leb_le in H
  | H : (_ <? _)%nat = false |- _ => apply Nat.ltb_ge in H
  end.

Lemma consistent_intro : forall sh sp sp',
  sp + net (shape_plan checked sh) = sp' ->
  no_underflow sp (shape_plan checked sh) = true ->
  shape_delta_ok sh = true ->
  (sp + net (shape_plan checked sh) =? sp') && no_underflow sp (shape_plan checked sh) && shape_delta_ok sh = true.
Proof. intros sh sp sp' H1 H2 H3. rewrite H2, H3. apply Z.eqb_eq in H1. rewrite H1. reflexivity. Qed.

Lemma nth_some_lt {A} (l : list A) n x : nth_error l n = Some x -> (n < length l)%nat.
Proof. intros H. apply nth_error_Some. congruence. Qed.

Section Sound.
Variable prog : list rinstr.
Variable handler : nat -> option nat.
Variable np : nat -> nat.
Variable is_entry : nat -> bool.
Variable entry : nat.

Ltac fin C :=
  cbn [andb negb]; rewrite C; apply consistent_intro;
  unfold shape_plan, shape_delta_ok, checked, mark_checked; red_plan;
  rewrite ?net_rep; cbn [net]; try lia; leb_goal.

Lemma next_consistent : forall s ip' len' s' i,
  sstep prog handler np is_entry entry s ip' len' = Next s' ->
  nth_error prog (ip s) = Some i ->
  step_consistent checked {| t_instr := i; t_fault := fault_obs prog s ip' len'; t_sp := sp_of s;
                             t_sp' := Z.of_nat len' - 1 |} = true.
Proof.
  intros s ip' len' s' i H Hn.
  unfold sstep, step, code in H. unfold fault_obs, code.
  destruct (decode prog (ip s)) as [a|] eqn:D; [|discriminate].
  pose proof (decode_compat prog (ip s) i a (Z.of_nat len' - 1 - sp_of s) Hn D) as C.
  unfold step_consistent, plan, shape_at. cbn [t_instr t_fault t_sp t_sp'].
  destruct a; cbn [compat] in C; unfold fault, unwind, setip in H; split_step H; try discriminate; clear H;
    boolfacts; unfold sp_of in *; cbv beta iota.
  - (* AOp, next instruction *)
    cbn [negb andb].
    destruct C as [_ (needs & N1 & N2 & N3 & N4)]; [lia|].
    apply consistent_intro; [lia| |exact N4].
    eapply shape_needs_ok; eauto; lia.
  - (* AOp, fault *)
    cbn [negb andb].
    assert (L : linear (r_op i) = true).
    { (* every opcode decoded as a straight-line instruction is linear *)
      clear - D Hn. unfold decode in D. rewrite Hn in D. destruct i as [op w0 w1 w2]. cbn [r_op r_w0 r_w1] in D.
      destruct op; try reflexivity; unfold op1, builtin_effect in D;
        repeat match type of D with context [match ?c with _ => _ end] => destruct c end; discriminate. }
    rewrite L. apply consistent_intro; unfold shape_plan, shape_delta_ok; red_plan; try lia; leb_goal.
  - (* AJump *) fin C.
  - (* AJumpz *) fin C.
  - (* AMark *) fin C.
  - (* ACall *) fin C.
  - (* ACall, fault *) fin C.
  - (* ARet *)
    match goal with H : len' = length _ |- _ => rewrite app_length, firstn_length in H; cbn [length] in H end.
    repeat match goal with H : nth_error _ _ = Some _ |- _ => apply nth_some_lt in H end.
    fin C.
  - (* ARethrow *)
    match goal with H : len' = length _ |- _ => rewrite app_length, firstn_length in H; cbn [length] in H end.
    repeat match goal with H : nth_error _ _ = Some _ |- _ => apply nth_some_lt in H end.
    fin C.
  - (* AClear *) fin C.
  - (* ASlide 0 *) cbn [andb negb]. rewrite C. subst q. apply consistent_intro; unfold shape_plan, shape_delta_ok; cbn; try lia; leb_goal.
  - (* ASlide *)
    cbn [andb negb]. rewrite C. apply consistent_intro.
    + unfold shape_plan. assert (Eq : (Z.of_nat q =? 0) = false) by (apply Z.eqb_neq; lia). rewrite Eq.
      destruct (Z.of_nat m =? 0) eqn:Em; [apply Z.eqb_eq in Em; cbn [net]; lia|].
      cbn [net]. rewrite net_rep, Nat2Z.id. cbn [net]. lia.
    + unfold shape_plan. assert (Eq : (Z.of_nat q =? 0) = false) by (apply Z.eqb_neq; lia). rewrite Eq.
      destruct (Z.of_nat m =? 0) eqn:Em; [reflexivity|].
      cbn [no_underflow]. rewrite Nat2Z.id. apply no_underflow_rep_up. lia.
    + unfold shape_delta_ok. leb_goal.
  - (* AMkFunc *) fin C.
  - (* APushParam *)
    cbn [andb negb]. rewrite C. unfold unat. apply consistent_intro; unfold shape_plan, shape_delta_ok.
    + rewrite net_rep. cbn [net push1]. lia.
    + apply no_underflow_rep_push1. lia.
    + reflexivity.
  - (* AFfi, to its RET *)
    destruct C as [C L].
    fin C.
  - (* AFfi, fault *)
    destruct C as [C L].
    cbn [negb andb]. rewrite L.
    apply consistent_intro; unfold shape_plan, shape_delta_ok; red_plan; try lia; leb_goal.
Qed.

(* hence the hypothesis of limit_fires_iff_needed holds for every run, whatever the program *)
Theorem all_consistent_checked : forall obs s,
  all_consistent prog handler np is_entry entry checked s obs.
Proof.
  induction obs as [|[ip' len'] rest IH]; intros s; cbn [all_consistent]; [exact I|].
  destruct (sstep prog handler np is_entry entry s ip' len') as [s'| | | |] eqn:E; try exact I.
  split; [|apply IH].
  unfold obs_consistent, tstep_obs.
  destruct (nth_error prog (ip s)) as [i|] eqn:Hn.
  - split; [eapply next_consistent; eauto|]. intros c _. reflexivity.
  - exfalso. unfold sstep, step, code, decode in E. rewrite Hn in E. discriminate.
Qed.

Theorem limit_fires_iff_needed_checked : forall obs S s i,
  sp_of s < S ->
  run_limited prog handler np is_entry entry checked S s obs i =
  first_need_obs prog handler np is_entry entry S s obs i.
Proof. intros. apply limit_fires_iff_needed; [assumption|apply all_consistent_checked]. Qed.

Theorem run_limited_checked_never_oob : forall obs S s i j idx,
  sp_of s < S -> run_limited prog handler np is_entry entry checked S s obs i <> OobAt j idx.
Proof. intros. apply limited_run_never_oob; [assumption|apply all_consistent_checked]. Qed.

End Sound.

(* Verified code under any configured stack size (check-first handlers): along EVERY sequence of
   observations the run neither writes outside the stack nor crashes; it either goes on, stops
   (HALT / unhandled exception), or reports "stack too large" -- and that exactly at the first
   step whose resulting sp is >= the size. *)
Theorem verified_run_under_limit :
  forall prog exct metas entry certs,
    check_all prog exct metas entry certs = true ->
    forall S obs, 0 <= S ->
      let r := run_limited prog (Verify.handler exct) (Verify.np metas) (Verify.is_entry metas) entry checked S init obs 0 in
      (forall j idx, r <> OobAt j idx) /\ (forall c, r <> LOther (Crash c)) /\
      r = first_need_obs prog (Verify.handler exct) (Verify.np metas) (Verify.is_entry metas) entry S init obs 0.
Proof.
  intros prog exct metas entry certs CHK S obs HS r.
  assert (Hsp : sp_of init < S) by (unfold sp_of, init; cbn; lia).
  split; [|split].
  - intros j idx. apply run_limited_checked_never_oob. exact Hsp.
  - intros c Hc.
    destruct (limit_monotone_stack prog (Verify.handler exct) (Verify.np metas) (Verify.is_entry metas) entry checked
                obs S S init 0%nat r (Z.le_refl S) eq_refl) as [_ L].
    + intros j Hj. rewrite Hc in Hj. discriminate.
    + intros j idx Hj. rewrite Hc in Hj. discriminate.
    + rewrite Hc in L. unfold srun in L.
      pose proof (verify_sound prog exct metas entry certs CHK obs c) as V.
      unfold Verify.code in V. unfold StackBoundRun.code in L.
      destruct (run (fun a => decode prog a) (Verify.handler exct) (Verify.np metas) (Verify.is_entry metas) entry init obs) eqn:R;
        cbn [lift] in L; try discriminate.
      inversion L; subst. apply V. reflexivity.
  - apply limit_fires_iff_needed_checked. exact Hsp.
Qed.
