(* 32-bit machine integers on Z (definitions only).
   u32 z : value of z after conversion to C `unsigned int`  (reduction modulo 2^32)
   s32 z : value of z after wrapping to C `int` (two's complement; what the hardware does on
           signed overflow; the C standard leaves it undefined, the tie in checks/c12.py
           shows what the tree's build does). *)
From Coq Require Import ZArith.
Local Open Scope Z_scope.

Definition two32 : Z := 4294967296.
Definition two31 : Z := 2147483648.
Definition UINT_MAX : Z := 4294967295.
Definition INT_MAX : Z := 2147483647.
Definition INT_MIN : Z := -2147483648.

Definition u32 (z : Z) : Z := z mod two32.
Definition s32 (z : Z) : Z := (z + two31) mod two32 - two31.

Definition is_u32 (z : Z) : Prop := 0 <= z < two32.
Definition is_s32 (z : Z) : Prop := - two31 <= z < two31.
