(* memrun — driver around the extracted allocation-trace monitor (C16).  Unverified glue:
   parsing the event lines printed by harness/mem/memdrive.c, number conversion, printing.

   stdin (stream, many cases):
       @@BEGIN <id>
       M <p> <n> | C <p> <n> | R <old> <new> <n> | S <p> | F <p>      events, ids are decimal
       ...any other line starting with @@ is copied to stdout...
       @@END <id> <status...>
   stdout: the @@ lines as they come, and just before each @@END line
       @@MONITOR <id> events=<k> accept | reject pos=<i> <kind> <block> | leak n=<k> <b1,b2,...>
   Lines starting with "A " (allocation-site annotations) are copied through untouched. *)
open Memmodel

let rec pos_of_int i = if i = 1 then XH else if i land 1 = 1 then XI (pos_of_int (i lsr 1)) else XO (pos_of_int (i lsr 1))
let n_of_int i = if i = 0 then N0 else Npos (pos_of_int i)
let rec int_of_pos = function XH -> 1 | XO p -> 2 * int_of_pos p | XI p -> 2 * int_of_pos p + 1
let int_of_n = function N0 -> 0 | Npos p -> int_of_pos p
let rec int_of_nat_acc a = function O -> a | S k -> int_of_nat_acc (a + 1) k

let err_name = function
  | DoubleFree p -> Printf.sprintf "double-free %d" (int_of_n p)
  | FreeUnknown p -> Printf.sprintf "free-unknown %d" (int_of_n p)
  | ReallocDead p -> Printf.sprintf "realloc-dead %d" (int_of_n p)
  | AllocLive p -> Printf.sprintf "alloc-live %d" (int_of_n p)

let () =
  let evs = ref [] and cnt = ref 0 and cur = ref "" in
  let ios = int_of_string in
  (try
    while true do
      let l = input_line stdin in
      let len = String.length l in
      if len >= 2 && l.[0] = '@' && l.[1] = '@' then begin
        if len >= 8 && String.sub l 0 8 = "@@BEGIN " then begin
          cur := String.sub l 8 (len - 8); evs := []; cnt := 0; print_endline l
        end else if len >= 6 && String.sub l 0 6 = "@@END " then begin
          let v = monitor (List.rev !evs) in
          (match v with
           | Accept -> Printf.printf "@@MONITOR %s events=%d accept\n" !cur !cnt
           | Reject (pos, e) -> Printf.printf "@@MONITOR %s events=%d reject pos=%d %s\n" !cur !cnt (int_of_nat_acc 0 pos) (err_name e)
           | Leak bl -> Printf.printf "@@MONITOR %s events=%d leak n=%d %s\n" !cur !cnt (List.length bl)
                          (String.concat "," (List.map (fun b -> string_of_int (int_of_n b)) bl)));
          evs := []; cnt := 0; print_endline l
        end else print_endline l
      end else if len >= 2 && l.[1] = ' ' then begin
        match l.[0], String.split_on_char ' ' l with
        | 'M', [_; p; n] -> evs := Malloc (n_of_int (ios p), n_of_int (ios n)) :: !evs; incr cnt
        | 'C', [_; p; n] -> evs := Calloc (n_of_int (ios p), n_of_int (ios n)) :: !evs; incr cnt
        | 'R', [_; o; p; n] -> evs := Realloc (n_of_int (ios o), n_of_int (ios p), n_of_int (ios n)) :: !evs; incr cnt
        | 'S', [_; p] -> evs := Strdup (n_of_int (ios p)) :: !evs; incr cnt
        | 'F', [_; p] -> evs := Free (n_of_int (ios p)) :: !evs; incr cnt
        | 'A', _ -> print_endline l
        | _ -> ()
      end
    done
  with End_of_file -> ())
