(* Direct calls have the callee's arity.

   The emitter calls a function it knows by  args ; environment vector ; ID_FUNC_ADDR g ; CALL.
   The certificate checker (Verify.direct_arity_ok) requires of every CALL that directly follows an
   ID_FUNC_ADDR g that the certified depth leaves exactly np g slots between the frame header and the
   function value.  Hence in every reachable state at such a CALL the number of argument slots is the
   parameter count of g: the shape machine's ArityStuck answer (and the VM's silent use of a wrong slot
   as a parameter) is excluded for direct calls on EVERY path, not only on the paths a test executes.
   No axioms. *)
From Coq Require Import List Arith Bool Lia.
From NV Require Import Gen.Opcodes Verifier.Shape Verifier.Effect Verifier.Verify Verifier.VerifyInv
     Verifier.VerifySound.
Import ListNotations.

Theorem direct_call_arity :
  forall prog exct metas entry certs,
    check_all prog exct metas entry certs = true ->
    forall obs s g,
      run (code prog) (handler exct) (np metas) (is_entry metas) entry init obs = Next s ->
      code prog (ip s) = Some ACall -> 1 <= ip s ->
      code prog (ip s - 1) = Some (AMkFunc g) ->
      length (stk s) - 1 - F s = np metas g.
Proof.
  intros prog exct metas entry certs CHK obs s g E Hcall Hge Hprev.
  pose proof (run_good prog exct metas entry certs CHK obs init (Inv_init prog exct metas entry certs CHK)) as G.
  rewrite E in G. destruct G as (d & os & cs & Hc & HF).
  destruct Hc as [Hc|Hc].
  - destruct (cert_norm_code prog exct metas entry certs CHK _ _ _ _ Hc) as (i & Hi & HC).
    rewrite Hcall in Hi. inversion Hi; subst i. clear Hi.
    unfold Verify.check_norm in HC. apply andb_true_iff in HC. destruct HC as [_ HC].
    apply andb_true_iff in HC. destruct HC as [HC HA].
    apply andb_true_iff in HC. destruct HC as [HC _].
    apply andb_true_iff in HC. destruct HC as [HAv _]. apply Nat.leb_le in HAv.
    unfold direct_arity_ok in HA. rewrite Hprev in HA.
    destruct (1 <=? ip s) eqn:E1; [|apply Nat.leb_gt in E1; lia].
    destruct HF as (_ & Hlen & Hop & _).
    destruct os as [|o os'].
    + cbn in Hop. apply Nat.eqb_eq in HA. rewrite Hlen, Hop. lia.
    + cbn in Hop. destruct Hop as (HFc & _). apply Nat.eqb_eq in HA. rewrite Hlen, HFc. lia.
  - destruct (cert_exc_code prog exct metas entry certs CHK _ _ Hc) as (i & Hi & HC).
    rewrite Hcall in Hi. inversion Hi; subst i. discriminate HC.
Qed.
