(* C16 — after program_delete and vm_delete nothing allocated on behalf of the program or VM
   remains allocated, whatever way compilation or execution ended; nothing is freed twice or
   used after being freed.

   PARTIAL BY NATURE (DESIGN.md §5, §11): which source construct reaches which %destructor /
   *_delete is not modelled.  Proved: the allocation-trace monitor that judges every observed
   compile -> run -> dispose trace decides the declarative trace semantics exactly, and the
   sweep of gc_delete frees every allocated cell's object exactly once.  That the C code
   produces balanced traces is observed by checks/c16.py (malloc shim + LSan/ASan), never proved.
   Only statements here; every proof is `exact <lemma>`. *)
From Coq Require Import NArith List Bool.
From NV Require Import Base.TMap GC.GCModel GC.GCSpec.
From NV Require Import Mem.TraceMonitor Mem.TraceMonitorProofs Mem.GcDelete Mem.GcDeleteProofs.
Import ListNotations.
Local Open Scope N_scope.

Theorem monitor_sound_complete : forall tr, monitor tr = Accept <-> balanced tr.
Proof. exact TraceMonitorProofs.monitor_sound_complete. Qed.
Print Assumptions monitor_sound_complete.

Theorem monitor_leak_exact : forall tr l, monitor tr = Leak l ->
  exists L, run lempty tr L /\ (forall q, In q l <-> L q) /\ NoDup l /\ l <> [].
Proof. exact TraceMonitorProofs.monitor_leak_exact. Qed.
Print Assumptions monitor_leak_exact.

Theorem monitor_reject_sound : forall tr pos err, monitor tr = Reject pos err ->
  forall L, ~ run lempty tr L.
Proof. exact TraceMonitorProofs.monitor_reject_sound. Qed.
Print Assumptions monitor_reject_sound.

Theorem gc_delete_frees_each_object_once : forall g,
  NoDup (map fst (gc_delete_freed g)) /\
  (forall i o, In (i, o) (gc_delete_freed g) <-> i < g_size g /\ tget (g_obj g) i = Some o).
Proof. exact GcDeleteProofs.gc_delete_frees_each_object_once. Qed.
Print Assumptions gc_delete_frees_each_object_once.

Example c16_ex_balanced : balanced [Malloc 1 8; Realloc 1 2 16; Free 2].
Proof. apply monitor_sound_complete. vm_compute. reflexivity. Qed.
Example c16_ex_leak : monitor [Malloc 1 8; Strdup 2; Free 1] = Leak [2].
Proof. vm_compute. reflexivity. Qed.
