"""Enumerates every place in <repo>/back/vmexec.c, back/libvm.c, back/vmffi.c where the VM raises an
exception (`machine->running = VM_EXCEPTION`), with the exception constant assigned next to it (same
brace block), the handler function (macro instantiations expanded) and the opcode(s) that dispatch to it.

    sites(repo) -> list of dict(file, line, func, ordinal, exceptions [names], opcodes [BYTECODE_..], id)

A site that raises VM_EXCEPTION without assigning machine->exception in its block has exceptions == []:
the clause that takes the fault then depends on whatever was raised before (history) - the check reports
it on the spot.  vm_execute_rethrow is the one legitimate exception-preserving site.

Raise helpers: a plain function of the same file whose body sets `machine->running = VM_EXCEPTION` and
assigns `machine->exception = <one of its own parameters>` (e.g. `static void vm_raise(vm * machine, int
exception)`) raises nothing by itself; every CALL of it is a site (site["via"] = helper name) whose exception
is the EXCEPT_ constant written in that argument position.  A call whose argument is not an EXCEPT_ constant
(a variable, machine->exception, ...) has exceptions == [] and is reported like any other such site; a
function that sets VM_EXCEPTION and does not assign machine->exception from a parameter is no helper and
stays an ordinary site - except the constant raise helper: a straight-line function (no vm_execute_/libvm_execute_ handler) with
exactly one raise and exactly one `machine->exception = EXCEPT_X`; its calls are sites (via = helper) raising EXCEPT_X.  helper_assignments(repo) lists the assignments inside helpers, so that the caller
can still account for every `machine->running = VM_EXCEPTION` of the sources.
"""
import os
import re

EXC_NAME = {
    "EXCEPT_NO_DIVISION": "division_by_zero", "EXCEPT_NO_ARR_SIZE": "wrong_array_size",
    "EXCEPT_NO_INDEX_OOB": "index_out_of_bounds", "EXCEPT_NO_INVALID": "invalid_domain",
    "EXCEPT_NO_OVERFLOW": "overflow", "EXCEPT_NO_UNDERFLOW": "underflow", "EXCEPT_NO_INEXACT": "inexact",
    "EXCEPT_NIL_POINTER": "nil_pointer", "EXCEPT_FFI_FAIL": "ffi_fail", "EXCEPT_NO_UNKNOWN": "unknown_exception",
}
PRESERVING = {"vm_execute_rethrow"}          # re-raises the pending exception by design


def _strip_comments(text):
    return re.sub(r"/\*.*?\*/", lambda m: re.sub(r"[^\n]", " ", m.group(0)), text, flags=re.S)


def _block_bounds(lines, i):
    """(first, last) line index of the innermost brace block containing line i"""
    depth = 0
    a = i
    while a > 0:
        a -= 1
        depth += lines[a].count("}") - lines[a].count("{")
        if depth < 0:
            break
    depth = 0
    b = i
    while b < len(lines) - 1:
        depth += lines[b].count("{") - lines[b].count("}")
        if depth < 0:
            break
        b += 1
    return a, b


def _functions(lines):
    """-> list of (name, is_macro, macro_params, first, last)"""
    out = []
    i = 0
    n = len(lines)
    while i < n:
        l = lines[i]
        m = re.match(r"#define\s+(\w+)\(([^)]*)\)\s*\\", l)
        if m:
            j = i
            while j < n and lines[j].rstrip().endswith("\\"):
                j += 1
            body = "\n".join(lines[i:j + 1])
            fm = re.search(r"void\s+([\w#]+)\s*\(\s*vm\s*\*", body)
            out.append((fm.group(1) if fm else m.group(1), m.group(1), [p.strip() for p in m.group(2).split(",")], i, j))
            i = j + 1
            continue
        m = re.match(r"(?:static\s+)?(?:void|int|[\w\s\*]+?)\s+\**(\w+)\s*\([^;]*$", l)
        if m and not l.startswith((" ", "\t", "#", "}")) and "(" in l and not l.rstrip().endswith(";"):
            # find the opening brace and the matching close
            j = i
            while j < n and "{" not in lines[j]:
                if ";" in lines[j]:
                    break
                j += 1
            if j < n and "{" in lines[j]:
                depth = 0
                k = j
                while k < n:
                    depth += lines[k].count("{") - lines[k].count("}")
                    if depth == 0:
                        break
                    k += 1
                out.append((m.group(1), None, None, i, k))
                i = k + 1
                continue
        i += 1
    return out


RAISE_RE = r"machine->running\s*=\s*VM_EXCEPTION"


def _split_args(s):
    """top-level comma split of an argument list"""
    out, depth, cur = [], 0, ""
    for ch in s:
        if ch in "([":
            depth += 1
        elif ch in ")]":
            depth -= 1
        if ch == "," and depth == 0:
            out.append(cur.strip())
            cur = ""
        else:
            cur += ch
    if cur.strip() or out:
        out.append(cur.strip())
    return out


def _raise_helpers(lines, funcs):
    """-> {helper name: (index of the parameter stored into machine->exception, first line, last line)}"""
    out = {}
    for (name, macro, mparams, a, b) in funcs:
        if macro:
            continue
        body = "\n".join(lines[a:b + 1])
        if not re.search(RAISE_RE, body):
            continue
        head = re.search(r"\b%s\s*\(([^)]*)\)" % re.escape(name), body)
        if not head:
            continue
        params = [re.sub(r"\[.*?\]", "", p).strip().split()[-1].lstrip("*") if p.strip() else "" for p in _split_args(head.group(1))]
        assigned = re.findall(r"machine->exception\s*=\s*\(?\s*(?:\(\s*\w+\s*\)\s*)?(\w+)\s*\)?\s*;", body)
        if len(assigned) == 1 and assigned[0] in params and not assigned[0].startswith("EXCEPT_"):
            out[name] = (params.index(assigned[0]), a, b)
        elif len(assigned) == 1 and re.fullmatch(r"EXCEPT_\w+", assigned[0]) and len(re.findall(RAISE_RE, body)) == 1 \
                and len(re.findall(r"machine->exception\s*=", body)) == 1 and not re.match(r"(vm_execute_|libvm_execute_)", name) \
                and not re.search(r"\b(if|else|switch|while|for|return)\b", body):
            # constant raise helper: `static void libvm_raise_nil_pointer(vm * machine) { machine->running = VM_EXCEPTION;
            # machine->exception = EXCEPT_NIL_POINTER; }` - straight-line body, one raise, one constant; every call is a site
            # raising that constant (position = the constant itself instead of a parameter index)
            out[name] = (assigned[0], a, b)
    return out


def _helper_call(line, helpers):
    """-> (helper, [EXCEPT_ constants in the exception argument]) for a call of a raise helper on this line, else None"""
    for h, (pos, _a, _b) in helpers.items():
        m = re.search(r"\b%s\s*\((.*)\)\s*;" % re.escape(h), line)
        if m:
            if isinstance(pos, str):
                return h, [pos]               # constant raise helper
            args = _split_args(m.group(1))
            arg = args[pos] if pos < len(args) else ""
            return h, ([arg] if re.fullmatch(r"EXCEPT_\w+", arg) else [])
    return None


def helper_assignments(repo):
    """[(file, line)] of the `machine->running = VM_EXCEPTION` assignments that live inside raise helpers"""
    out = []
    back = os.path.join(repo, "back")
    for fname in ("vmexec.c", "libvm.c", "vmffi.c"):
        path = os.path.join(back, fname)
        if not os.path.exists(path):
            continue
        lines = _strip_comments(open(path).read()).split("\n")
        for h, (_pos, a, b) in _raise_helpers(lines, _functions(lines)).items():
            out += [(fname, i + 1) for i in range(a, b + 1) if re.search(RAISE_RE, lines[i])]
    return out


def sites(repo):
    res = []
    back = os.path.join(repo, "back")
    vx = _strip_comments(open(os.path.join(back, "vmexec.c")).read())
    table = re.search(r"vm_execute_op\[\]\s*=\s*\{(.*?)\};", vx, re.S)
    disp = {}
    for op, fn in re.findall(r"\{\s*(BYTECODE_[A-Z0-9_]+)\s*,\s*(vm_execute_[a-z0-9_]+)\s*\}", table.group(1) if table else ""):
        disp.setdefault(fn, []).append(op)
    for fname in ("vmexec.c", "libvm.c", "vmffi.c"):
        path = os.path.join(back, fname)
        if not os.path.exists(path):
            continue
        text = _strip_comments(open(path).read())
        lines = text.split("\n")
        funcs = _functions(lines)
        helpers = _raise_helpers(lines, funcs)
        for (name, macro, mparams, a, b) in funcs:
            if not macro and name in helpers:
                continue                      # raises what its callers pass: the calls are the sites
            hits = [i for i in range(a, b + 1) if re.search(RAISE_RE, lines[i]) or _helper_call(lines[i], helpers)]
            if not hits:
                continue
            found = []
            for ordinal, i in enumerate(hits):
                ba, bb = _block_bounds(lines, i)
                ba, bb = max(ba, a), min(bb, b)
                blk = "\n".join(lines[ba:bb + 1])
                call = None if re.search(RAISE_RE, lines[i]) else _helper_call(lines[i], helpers)
                if call:
                    excs = call[1]            # the constant handed to the helper, nothing else counts
                else:
                    excs = sorted(set(re.findall(r"machine->exception\s*=\s*(EXCEPT_\w+)", blk)))
                # which `case` of a switch the site belongs to (libvm built-ins)
                label = None
                for k in range(i, a, -1):
                    cm = re.match(r"\s*case\s+(\w+)\s*:", lines[k])
                    if cm:
                        label = cm.group(1)
                        break
                    if re.match(r"\s*switch\b", lines[k]):
                        break
                if fname == "libvm.c" and len(excs) > 1:
                    label = "status-flags"
                found.append((ordinal, i + 1, excs, label, call[0] if call else None))
            if macro:
                # one instance per invocation `macro(args)` at the start of a line
                insts = re.findall(r"^%s\(([^)]*)\)\s*$" % re.escape(macro), text, re.M)
                for args in insts:
                    vals = [x.strip() for x in args.split(",")]
                    fn = name
                    for p_, v_ in zip(mparams, vals):
                        fn = fn.replace("##" + p_, v_).replace(p_ + "##", v_)
                    fn = fn.replace("#", "")
                    for ordinal, ln, excs, label, via in found:
                        res.append({"file": fname, "line": ln, "func": fn, "ordinal": ordinal, "label": label, "via": via,
                                    "exceptions": [EXC_NAME.get(e, e) for e in excs], "opcodes": disp.get(fn, [])})
            else:
                for ordinal, ln, excs, label, via in found:
                    ops = disp.get(name, [])
                    if fname == "libvm.c":
                        ops = ["BYTECODE_BUILD_IN"]
                    elif fname == "vmffi.c":
                        ops = ["BYTECODE_FUNC_FFI"]
                    res.append({"file": fname, "line": ln, "func": name, "ordinal": ordinal, "label": label, "via": via,
                                "exceptions": [EXC_NAME.get(e, e) for e in excs], "opcodes": ops})
    # helpers that are not dispatched themselves: the opcodes of the handlers that call them
    lines_vx = vx.split("\n")
    fn_bodies = {}
    for (name, macro, mparams, a, b) in _functions(lines_vx):
        if not macro:
            fn_bodies[name] = "\n".join(lines_vx[a:b + 1])
    for s in res:
        if not s["opcodes"] and s["file"] == "vmexec.c":
            ops = []
            for fn, body in fn_bodies.items():
                if fn != s["func"] and re.search(r"\b%s\s*\(" % re.escape(s["func"]), body):
                    ops += disp.get(fn, [])
            s["opcodes"] = sorted(set(ops))
    for s in res:
        if s["file"] == "vmffi.c":
            s["label"] = None
        s["id"] = "%s#%d%s" % (s["func"], s["ordinal"], (":" + s["label"]) if s["label"] else "")
        s["class"] = "%s:%s" % (s["func"], "|".join(s["exceptions"]) or "NONE")
    return res


if __name__ == "__main__":
    import sys
    for s in sites(sys.argv[1] if len(sys.argv) > 1 else "/repo"):
        print("%-10s %5d %-45s %-28s %s" % (s["file"], s["line"], s["id"], ",".join(s["exceptions"]) or "NONE", ",".join(s["opcodes"])))
