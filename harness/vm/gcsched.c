/* gcsched — run a Never program on the tree's VM under a forced collection schedule and heap
 * size, audit every collection against the real heap, print a canonical outcome (C04).
 *
 *   gcsched [--gc every|default|never|seed:<n>] [--mem M] [--stack S] [--max-steps N]
 *           [--entry name] [--arg a]... FILE
 *
 * Schedules (hook H2, nev_verif_gc_decide, asked at every safe point = every gc_run call):
 *   every    collect at every safe point          never   never collect
 *   default  the collector's own 0.8 threshold    seed:n  a pseudo-random subset (p = 1/4,
 *                                                          1/2 or 1/16 depending on n mod 3)
 * Output (own stdout; the program's prints are captured in an unlinked temp file):
 *   COMPILE <ret>
 *   PREPARE <ret>
 *   AUDIT-FAIL kind=<k> cell=<a> from=<root description> gc=<n> ip=<ip> depth=<d>   (0 or more)
 *   OUT <hex of everything the program printed>
 *   END <ret> <type> <value bits>  |  END <ret> exc <exception>  |  END exit  |  END budget
 *   STATS safepoints=<n> collections=<n> freed=<cells> freed_susp=<collections that freed >=1
 *         cell while >=2 frames were on the frame chain> maxdepth=<d> maxlive=<max survivors>
 *         peak=<max allocated cells seen at a safe point> steps=<n> audited=<cells>
 *
 * The audit (after each collection; the same walk is done just before it): starting from the
 * program's real roots — every slot of stack[0..sp] tagged GC_MEM_ADDR, machine->gp, and the
 * saved gp (slot fp-2) of every frame on the fp chain whatever its tag (plus, unhashed, whatever
 * else gc_run was given: slots up to stack_size and global_vec) — follow every reference kind (string ref, vec, vec ref,
 * array, array ref, func env).  Every cell met must be inside the table, hold an object, not be
 * on the free chain and carry no mark; and the walk must see exactly the same cells with the
 * same kinds, payloads and references as before the collection (hash of the DFS sequence).
 */
#define _GNU_SOURCE
#include <stdio.h>
#include <stdlib.h>
#include <string.h>
#include <unistd.h>
#include <fcntl.h>
#include "nev.h"
#include "vm.h"
#include "gc.h"
#include "object.h"

#ifdef NEVER_VERIF
extern void (*nev_verif_step_hook)(vm * machine, bytecode * code);
extern int (*nev_verif_gc_decide)(gc * collector);
extern void (*nev_verif_gc_after)(gc * collector, gc_stack * stack, int stack_size, mem_ptr global_vec);
#endif

static FILE * out;
static vm * machine = NULL;
static int tfd = -1, saved_stdout = -1, in_run = 0;
static unsigned long steps = 0, max_steps = 50000000UL;
static int gc_mode = 2; /* 0 never, 1 every, 2 default, 3 seeded */
static unsigned long long gc_rng = 1; static unsigned gc_mask = 3;

static unsigned long n_safepoints = 0, n_coll = 0, n_freed = 0, n_freed_susp = 0, n_audited = 0;
static unsigned maxdepth = 0, maxlive = 0, peak = 0;
static unsigned before_top = 0; static int before_valid = 0;
static unsigned long long before_hash = 0; static unsigned long before_count = 0;
static int audit_fails = 0; static unsigned long n_audited_extra = 0;

/* ---- the heap walk ------------------------------------------------------------------- */
static unsigned char * seen = NULL, * onfree = NULL; static mem_ptr * work = NULL;
static unsigned walk_cap = 0;

static unsigned long long hmix(unsigned long long h, unsigned long long v)
{
    h ^= v + 0x9e3779b97f4a7c15ULL + (h << 6) + (h >> 2);
    return h * 0xff51afd7ed558ccdULL + 1;
}

static int frame_depth(void)
{
    int d = 0; stack_ptr fp = machine->fp;
    while (fp > 0 && d < machine->stack_size) { d++; fp = machine->stack[fp - 1].sp; }
    return d;
}

static void audit_fail(const char * kind, mem_ptr cell, const char * from, long idx)
{
    audit_fails++;
    if (audit_fails <= 8)
    {
        fprintf(out, "AUDIT-FAIL kind=%s cell=%u from=%s:%ld gc=%lu ip=%u depth=%d\n", kind, cell, from, idx,
                n_coll, machine->ip, frame_depth());
        fflush(out);
    }
}

/* returns hash of the DFS sequence; *count = cells visited; check_marks: after a collection */
static unsigned long long walk(gc * c, gc_stack * stack, int nslots, mem_ptr gv, int after, unsigned long * count)
{
    unsigned n = c->mem_size, top = 0, i; unsigned long long h = 1469598103934665603ULL; unsigned long cnt = 0;
    if (walk_cap < n)
    {
        free(seen); free(onfree); free(work);
        seen = malloc(n); onfree = malloc(n); work = malloc(sizeof(mem_ptr) * (size_t)n * 2 + 64);
        walk_cap = n;
    }
    memset(seen, 0, n); memset(onfree, 0, n);
    { /* free chain */
        mem_ptr f = c->free; unsigned guard = 0;
        while (f != 0 && f < n && guard++ < n) { if (onfree[f]) { audit_fail("free-chain-cycle", f, "free", 0); break; } onfree[f] = 1; f = c->mem[f].next; }
        if (f >= n) audit_fail("free-chain-out-of-range", f, "free", 0);
    }
#define ROOT(a, what, idx) do { mem_ptr a_ = (a); if (a_ > 0) { \
        if (a_ >= n) audit_fail("root-out-of-range", a_, what, (long)(idx)); \
        else if (!seen[a_]) { \
            if (c->mem[a_].object_value == NULL) audit_fail(after ? "reclaimed" : "dangling-before", a_, what, (long)(idx)); \
            else if (onfree[a_]) audit_fail("on-free-chain", a_, what, (long)(idx)); \
            else { seen[a_] = 1; work[top++] = a_; } } } } while (0)
#define DRAIN() do { while (top > 0) { \
        mem_ptr a = work[--top]; object * o = c->mem[a].object_value; cnt++; \
        if (after && c->mem[a].mark != 0) audit_fail("mark-left", a, "cell", a); \
        h = hmix(h, a); h = hmix(h, (unsigned long long)o->type); \
        switch (o->type) { \
        case OBJECT_INT: h = hmix(h, (unsigned)o->int_value); break; \
        case OBJECT_LONG: h = hmix(h, (unsigned long long)o->long_value); break; \
        case OBJECT_FLOAT: { unsigned b; memcpy(&b, &o->float_value, 4); h = hmix(h, b); break; } \
        case OBJECT_DOUBLE: { unsigned long long b; memcpy(&b, &o->double_value, 8); h = hmix(h, b); break; } \
        case OBJECT_CHAR: h = hmix(h, (unsigned char)o->char_value); break; \
        case OBJECT_STRING: if (o->string_value) { const unsigned char * s = (const unsigned char *)o->string_value; while (*s) h = hmix(h, *s++); } break; \
        case OBJECT_STRING_REF: h = hmix(h, o->string_ref_value); CHILD(o->string_ref_value, a); break; \
        case OBJECT_VEC: if (o->vec_value) { h = hmix(h, o->vec_value->size); for (i = o->vec_value->size; i > 0; i--) { h = hmix(h, o->vec_value->value[i - 1]); CHILD(o->vec_value->value[i - 1], a); } } break; \
        case OBJECT_VEC_REF: h = hmix(h, o->vec_ref_value); CHILD(o->vec_ref_value, a); break; \
        case OBJECT_ARRAY: if (o->arr_value) { h = hmix(h, o->arr_value->elems); for (i = o->arr_value->elems; i > 0; i--) { h = hmix(h, o->arr_value->value[i - 1]); CHILD(o->arr_value->value[i - 1], a); } } break; \
        case OBJECT_ARRAY_REF: h = hmix(h, o->arr_ref_value); CHILD(o->arr_ref_value, a); break; \
        case OBJECT_FUNC: if (o->func_value) { h = hmix(h, o->func_value->addr); h = hmix(h, o->func_value->vec); CHILD(o->func_value->vec, a); } break; \
        default: break; } } } while (0)
#define CHILD(x, parent) do { mem_ptr c_ = (x); if (c_ > 0) { \
        if (c_ >= n) audit_fail("ref-out-of-range", c_, "cell", (long)(parent)); \
        else if (!seen[c_]) { \
            if (c->mem[c_].object_value == NULL) audit_fail(after ? "reclaimed" : "dangling-before", c_, "cell", (long)(parent)); \
            else if (onfree[c_]) audit_fail("on-free-chain", c_, "cell", (long)(parent)); \
            else { seen[c_] = 1; work[top++] = c_; } } } } while (0)
    {
        int s, lim = machine->sp + 1; stack_ptr fp; unsigned long long h_main; unsigned long cnt_main;
        if (lim > machine->stack_size) lim = machine->stack_size;
        for (s = 0; s < lim; s++)
            if (stack[s].type == GC_MEM_ADDR) { ROOT(stack[s].addr, "stack", s); DRAIN(); }
        ROOT(machine->gp, "gp", 0); DRAIN();
        fp = machine->fp; s = 0;
        while (fp > 1 && fp < machine->stack_size && s++ < machine->stack_size)
        {
            ROOT(stack[fp - 2].addr, "saved-gp-of-frame", fp); DRAIN();
            fp = stack[fp - 1].sp;
        }
        /* roots the collector was given beyond the machine's own (none on the pinned tree):
           checked, but kept out of the before/after comparison */
        h_main = h; cnt_main = cnt;
        for (s = lim; s < nslots && s < machine->stack_size; s++)
            if (stack[s].type == GC_MEM_ADDR) { ROOT(stack[s].addr, "stack-above-sp", s); DRAIN(); }
        ROOT(gv, "global_vec", 0); DRAIN();
        n_audited_extra += cnt - cnt_main;
        h = h_main; cnt = cnt_main;
    }
#undef ROOT
#undef CHILD
#undef DRAIN
    *count = cnt;
    return hmix(h, cnt);
}

/* ---- hooks ------------------------------------------------------------------------------ */
static void step_hook(vm * m, bytecode * bc)
{
    if (++steps > max_steps)
    {
        fprintf(out, "END budget\n"); fflush(out);
        _exit(0);
    }
}

static int gc_decide(gc * c)
{
    int d, will;
    unsigned top = c->wb_top[c->w_index];
    n_safepoints++;
    if (top > peak) peak = top;
    switch (gc_mode)
    {
    case 0: d = 0; break;
    case 1: d = 1; break;
    case 3:
        gc_rng ^= gc_rng << 13; gc_rng ^= gc_rng >> 7; gc_rng ^= gc_rng << 17;
        d = ((gc_rng >> 11) & gc_mask) == 0 ? 1 : 0; break;
    default: d = 2; break;
    }
    will = d == 1 || (d == 2 && !(top < c->mem_size * 0.8));
    before_valid = 0;
    if (will)
    {
        before_top = top;
        before_hash = walk(c, machine->stack, machine->sp + 1, 0, 0, &before_count);
        before_valid = 1;
    }
    return d;
}

static void gc_after(gc * c, gc_stack * s, int nslots, mem_ptr gv)
{
    unsigned long cnt = 0; unsigned long long h; unsigned live = c->wb_top[c->w_index];
    int depth = frame_depth();
    n_coll++;
    if ((unsigned)depth > maxdepth) maxdepth = depth;
    if (live > maxlive) maxlive = live;
    h = walk(c, s, nslots, gv, 1, &cnt);
    n_audited += cnt;
    if (before_valid)
    {
        if (before_top >= live)
        {
            unsigned freed = before_top - live;
            n_freed += freed;
            if (freed > 0 && depth >= 2) n_freed_susp++;
        }
        if (h != before_hash || cnt != before_count) audit_fail("altered", 0, "reachable-set", (long)cnt - (long)before_count);
    }
    before_valid = 0;
}

/* ---- finishing -------------------------------------------------------------------------- */
static void dump_out(void)
{
    unsigned char b[4096]; ssize_t k;
    fflush(stdout);
    if (saved_stdout >= 0) { dup2(saved_stdout, 1); close(saved_stdout); saved_stdout = -1; }
    fprintf(out, "OUT ");
    if (tfd >= 0)
    {
        lseek(tfd, 0, SEEK_SET);
        while ((k = read(tfd, b, sizeof b)) > 0) { ssize_t j; for (j = 0; j < k; j++) fprintf(out, "%02x", b[j]); }
        close(tfd); tfd = -1;
    }
    fprintf(out, "\n");
}

static void print_stats(void)
{
    fprintf(out, "STATS safepoints=%lu collections=%lu freed=%lu freed_susp=%lu maxdepth=%u maxlive=%u peak=%u steps=%lu audited=%lu auditfails=%d\n",
            n_safepoints, n_coll, n_freed, n_freed_susp, maxdepth, maxlive, peak, steps, n_audited, audit_fails);
    fflush(out);
}

static void on_exit_handler(void)
{
    if (!in_run) return;   /* exit(1) from inside the VM: out of memory / stack too large */
    in_run = 0;
    dump_out();
    fprintf(out, "END exit\n");
    print_stats();
}

int main(int argc, char ** argv)
{
    int i, ret; const char * file = NULL; const char * entry = "main";
    unsigned mem = DEFAULT_VM_MEM_SIZE, stack = DEFAULT_VM_STACK_SIZE;
    char * args[64]; int nargs = 0;
    for (i = 1; i < argc; i++)
    {
        if (!strcmp(argv[i], "--mem") && i + 1 < argc) mem = (unsigned)atoi(argv[++i]);
        else if (!strcmp(argv[i], "--stack") && i + 1 < argc) stack = (unsigned)atoi(argv[++i]);
        else if (!strcmp(argv[i], "--max-steps") && i + 1 < argc) max_steps = strtoul(argv[++i], NULL, 10);
        else if (!strcmp(argv[i], "--entry") && i + 1 < argc) entry = argv[++i];
        else if (!strcmp(argv[i], "--arg") && i + 1 < argc) { if (nargs < 63) args[nargs++] = argv[++i]; }
        else if (!strcmp(argv[i], "--gc") && i + 1 < argc)
        {
            const char * g = argv[++i];
            if (!strcmp(g, "every")) gc_mode = 1;
            else if (!strcmp(g, "default")) gc_mode = 2;
            else if (!strcmp(g, "never")) gc_mode = 0;
            else if (!strncmp(g, "seed:", 5))
            {
                unsigned long long sd = strtoull(g + 5, NULL, 10);
                gc_mode = 3; gc_rng = sd * 2654435761ULL + 88172645463325252ULL;
                gc_mask = (sd % 3 == 0) ? 3 : (sd % 3 == 1) ? 1 : 15;
            }
            else { fprintf(stderr, "unknown schedule %s\n", g); return 2; }
        }
        else file = argv[i];
    }
    args[nargs] = NULL;
    if (!file) { fprintf(stderr, "usage: gcsched [--gc every|default|never|seed:<n>] [--mem M] FILE\n"); return 2; }
    if (mem < 2) mem = 2;

    out = fdopen(dup(1), "w");
    program * prog = program_new();
    ret = nev_compile_file(file, prog);
    fprintf(out, "COMPILE %d\n", ret);
    if (ret != 0) { fflush(out); program_delete(prog); return 0; }
    ret = nev_prepare_argc_argv(prog, entry, nargs, args);
    fprintf(out, "PREPARE %d\n", ret); fflush(out);
    if (ret != 0) { program_delete(prog); return 0; }

    {
        char tmpl[] = "/var/tmp/gcsched.XXXXXX";
        object result = { 0 };
        tfd = mkstemp(tmpl);
        if (tfd < 0) { perror("mkstemp"); return 2; }
        unlink(tmpl);
        fflush(stdout);
        saved_stdout = dup(1);
        dup2(tfd, 1);
        machine = vm_new(mem, stack);
#ifdef NEVER_VERIF
        nev_verif_step_hook = step_hook;
        nev_verif_gc_decide = gc_decide;
        nev_verif_gc_after = gc_after;
#else
#error "gcsched needs a -DNEVER_VERIF build (bin/repobuild asan|plain)"
#endif
        atexit(on_exit_handler);
        in_run = 1;
        ret = nev_execute(prog, machine, &result);
        in_run = 0;
        dump_out();
        if (ret == 0)
        {
            switch (result.type)
            {
            case OBJECT_INT: fprintf(out, "END 0 int %d\n", result.int_value); break;
            case OBJECT_LONG: fprintf(out, "END 0 long %lld\n", result.long_value); break;
            case OBJECT_FLOAT: { unsigned b; memcpy(&b, &result.float_value, 4); fprintf(out, "END 0 float %u\n", b); break; }
            case OBJECT_DOUBLE: { unsigned long long b; memcpy(&b, &result.double_value, 8); fprintf(out, "END 0 double %llu\n", b); break; }
            case OBJECT_CHAR: fprintf(out, "END 0 char %d\n", (int)result.char_value); break;
            default: fprintf(out, "END 0 other %d\n", (int)result.type); break;
            }
        }
        else fprintf(out, "END %d exc %d\n", ret, (int)machine->exception);
        print_stats();
        vm_delete(machine);
    }
    fflush(out);
    program_delete(prog);
    return 0;
}
