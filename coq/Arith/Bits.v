(* Arith/Bits.v — fixed-width two's-complement integers represented by their signed value
   in Z.  Definitions only (proofs: Arith/BitsProofs.v). *)
From Coq Require Import ZArith Bool.
Local Open Scope Z_scope.

Definition modulus (n : Z) : Z := 2 ^ n.
Definition half (n : Z) : Z := 2 ^ (n - 1).

(* the unsigned n-bit representation of z (bit pattern) *)
Definition unsigned (n z : Z) : Z := z mod modulus n.

(* the signed value denoted by an unsigned n-bit pattern *)
Definition signed (n u : Z) : Z := if u <? half n then u else u - modulus n.

(* wrap-around: the n-bit two's-complement number congruent to z mod 2^n *)
Definition wrap (n z : Z) : Z := signed n (unsigned n z).

Definition in_range (n z : Z) : Prop := - half n <= z < half n.
Definition in_rangeb (n z : Z) : bool := (- half n <=? z) && (z <? half n).

Definition wrap32 := wrap 32.
Definition wrap64 := wrap 64.
Definition int_min (n : Z) : Z := - half n.
Definition int_max (n : Z) : Z := half n - 1.
