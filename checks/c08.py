"""C08 — lexical scoping, closures keep their cells.

Proof side: coq/Properties/Properties_C08.v (ctx.proofs()): alpha_invariance and the closure theorems on
Src/Eval.v.

Tie + search (checks/parts/evaldiff.py, profiles shadow + closure + alias): every generated program
is run by the real compiler + VM in three spellings — as generated, *uniquified* (every binder
renamed to a fresh name following lexical scoping, harness/ocaml/eval/uniq.ml) and *injectively
renamed* — and by the reference evaluator.
  the three spellings behave differently on the real compiler   -> ctx.violation (key variant:<case>)
  real != evaluator on these scoping/closure/aliasing programs   -> ctx.violation (shrunk)
  renaming changes the EVALUATOR's outcome                       -> correspondence broken (harness)
corpus/C08/*.json run first; among them the known finding `late-shadow-after-closure` (a closure
capturing x followed, later in the same block, by a binding of x: the pinned compiler aborts with
"unknown freevar x during emit") in three shapes, and the two neighbouring shapes that do compile
(binding in an inner block / before the closure).  The generator avoids the aborting shape (weight
late_shadow=1 re-enables it) and produces the compiling ones freely.
Adjacent nested functions are mutually visible in Never and in Src/Eval.v (func_env): forward
references, mutual recursion between siblings and a later sibling standing in for an outer function
of the same name are generated (idiom id_siblings, weight sib_fwd); the renamings of uniq.ml bind a
run of adjacent functions as a whole.
"A function value keeps every captured variable": closures whose catch clause reads captured
variables after an exception came up through frames with other environments (id_catchcap), and
closures called as temporaries whose callee allocates (id_tempcall); the original additionally runs
with VM heaps of 150 and 400 cells (default 20000) so that collections happen while the closure
waits in a call — heap limit reached = skipped for that size, crash / other outcome = violation.
"""
LEVEL = "proof"

import os
import shutil
import tempfile

from lib import common
from checks.parts import evaldiff
from checks import c02 as c02mod

CORPUS = os.path.join(common.VERIF, "corpus", "C08")
PROFILES = ["shadow", "closure", "alias"]
HEAPS = (150, 400)


def run(ctx):
    ctx.proofs()
    lib = common.repobuild("asan")
    nevrun = common.cc_driver("nevrun", ["common/nevrun.c"], lib)
    ok, log = evaldiff.build_eval()
    if not ok:
        ctx.correspondence_broken("ocaml-build", log[-3000:])
        return
    tmp = tempfile.mkdtemp(prefix="corpus_", dir=ctx.outdir)
    ncorpus = c02mod.report_corpus(ctx, nevrun, tmp, CORPUS, "C08")
    shutil.rmtree(tmp, ignore_errors=True)
    n = 2100 if ctx.tier == "quick" else 27000
    r = evaldiff.run_evaldiff(ctx, PROFILES, n, ctx.tier, variants=("o", "u", "r"), nevrun=nevrun,
                              shrink_max=2 if ctx.tier == "quick" else 4, heaps=HEAPS, heap_mode="all")
    c02mod.report_common(ctx, r, "evaldiff")
    seen = set()
    for c in sorted(r["c08"], key=lambda c: c["nodes"]):
        key = "variant:%s" % c["case"]
        if len(seen) >= 6:
            break
        seen.add(key)
        ctx.violation(key, "renaming the bound names of %s changes what the real compiler does (%s)" % (c["case"], c["what"]),
                      evaldiff.replay_of(c))
    seen = set()
    for c in sorted(r["c02"], key=lambda c: (0 if "minimised" in c else 1, c["nodes"])):
        key = evaldiff.case_key("evaldiff", c)
        if key in seen or len(seen) >= 6:
            continue
        seen.add(key)
        ctx.violation(key, "scoping/closure/aliasing program %s: real outcome differs from the reference evaluator%s" % (
            c["case"], " with a VM heap of %d cells (agrees with 20000)" % c["mem"] if c.get("mem") else ""),
                      evaldiff.replay_of(c))
    ctx.assumptions.extend(c02mod.NOT_MODELLED)
    ctx.coverage["variant_disagreements"] = len(r["c08"])
    ctx.coverage["evaluator_disagreements"] = len(r["c02"])
    ctx.coverage["corpus_programs"] = ncorpus
    c02mod.evidence(ctx, r, "type-directed random programs of the profiles shadow (one name bound at every binder kind in nested "
                            "scopes, use after the inner scope closed), closure (counters shared by two closures, closures returned "
                            "and called after the definer returned, distinct activations, recursion through a captured name, "
                            "closures over loop variables, adjacent mutually visible nested functions, catch clauses reading "
                            "captured variables, closures called as temporaries around an allocating callee) and alias; the original also "
                            "with heaps of 150 and 400 cells; each run as generated, uniquified and injectively renamed on the "
                            "real compiler and compared with the evaluator (seed %d); evaluations = programs x 3 spellings + small-heap runs; "
                            "non-trivial = the profile's mechanism occurs (>= 2 shadowing binders / an escaping closure is called / "
                            "an alias is written and read) and all four outcomes agree" % ctx.seed)
