(* C03, continued — "When an operation fails at run time (... invalid math argument ...)": which
   exception a built-in call raises, and that an operation that does not fail raises none.

   Only statements here; every proof is `exact <lemma>` into Exc/BuiltinFlags.v.
   run_builtin before own   = back/libvm.c libvm_execute_build_in on the floating-point status
                              word: `before` = the sticky flags left by whatever float / double
                              arithmetic ran earlier (it raises no exception of the language),
                              `own` = the flags the built-in's C library function raises for its
                              argument; result = (outcome of the call, status word on exit)
   classify                 = the priority division > invalid > overflow > underflow
   The tie to /repo is harness/c03/bidrive.c (the real libvm_execute_build_in with every subset
   of the flags preset, `own` measured independently; rows evaluated by coqc through
   BuiltinFlags.rows_ok, checks/c03.py) and the family `operation history x built-in` of
   harness/c03/faultgen.py (never programs). *)
From Coq Require Import Bool List NArith.
From NV Require Import Exc.BuiltinFlags.
Import ListNotations.

(* the outcome of a built-in call is determined by the flags of its own result ... *)
Theorem builtin_outcome_is_classification_of_own_flags : forall before own,
  fst (run_builtin before own) = classify own.
Proof. exact BuiltinFlags.outcome_is_classification_of_own_flags. Qed.
Print Assumptions builtin_outcome_is_classification_of_own_flags.

(* ... hence the same after any two histories of float arithmetic *)
Theorem builtin_outcome_independent_of_history : forall before before' own,
  fst (run_builtin before own) = fst (run_builtin before' own).
Proof. exact BuiltinFlags.outcome_independent_of_history. Qed.
Print Assumptions builtin_outcome_independent_of_history.

(* ... also when the history contains earlier built-in calls and arbitrary flag-raising arithmetic *)
Theorem builtin_outcome_after_any_run : forall h st own,
  fst (run_builtin (run_history st h) own) = classify own.
Proof. exact BuiltinFlags.builtin_after_any_history. Qed.
Print Assumptions builtin_outcome_after_any_run.

(* an operation that does not fail raises nothing *)
Theorem builtin_that_does_not_fail_raises_nothing : forall before own,
  f_div own = false -> f_inv own = false -> f_ovf own = false -> f_udf own = false ->
  fst (run_builtin before own) = Value.
Proof. exact BuiltinFlags.operation_that_does_not_fail_raises_nothing. Qed.
Print Assumptions builtin_that_does_not_fail_raises_nothing.

(* the exception raised names a flag of the operation's own result, by the fixed priority *)
Theorem builtin_exception_is_an_own_flag : forall before own e,
  fst (run_builtin before own) = Raise e ->
  match e with
  | Division => f_div own = true
  | Invalid => f_inv own = true /\ f_div own = false
  | Overflow => f_ovf own = true /\ f_div own = false /\ f_inv own = false
  | Underflow => f_udf own = true /\ f_div own = false /\ f_inv own = false /\ f_ovf own = false
  end.
Proof. exact BuiltinFlags.raised_exception_is_an_own_flag. Qed.
Print Assumptions builtin_exception_is_an_own_flag.

(* the statement is not vacuous: without the clear on entry the outcome does depend on the history *)
Theorem without_clear_outcome_depends_on_history :
  exists before own, fst (run_builtin_noclear before own) <> classify own.
Proof. exact BuiltinFlags.noclear_depends_on_history. Qed.
Print Assumptions without_clear_outcome_depends_on_history.

(* every status word is reachable by the driver's 32 masks *)
Theorem every_status_word_is_a_mask : forall f, exists m, flags_of_mask m = f.
Proof. exact BuiltinFlags.flags_of_mask_surjective. Qed.
Print Assumptions every_status_word_is_a_mask.
